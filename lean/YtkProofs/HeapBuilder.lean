/-
  YtkProofs.HeapBuilder — what the heap-level builder calls (YtkModel/HeapBuilder.lean) write:

  1. small heap facts (no-op writes, reachability in an extended heap, ranks)
  2. `setSlotH` (ensureList): at most ONE existing cell changes, a list on the walked chain
  3. `addH`, `addContainerH`, `spineH`, `addAtSegsH` satisfy `AttachSpec`
  4. removing calls satisfy `ShrinkSpec`
  5. reading back: `Lookup` after `AddValueAt` returns the very node; handles
-/
import YtkProofs.HeapBuilderDefs
import YtkProofs.HeapBuilderInv
import YtkProofs.LensIdx
import YtkProofs.Builder

namespace Ytk.Heap
open Heap

/-! ## 1. small facts -/

theorem Heap.ext_get? {h h' : Heap} (hs : h'.size = h.size) (hg : ∀ a, a < h.size → h'.get? a = h.get? a) :
    h' = h := by
  cases h with | mk cs =>
  cases h' with | mk cs' =>
  simp only [Heap.size] at hs
  simp only [Heap.get?, Heap.size] at hg
  congr 1
  apply List.ext_getElem?
  intro a
  by_cases ha : a < cs.length
  · exact hg a ha
  · rw [List.getElem?_eq_none (by omega), List.getElem?_eq_none (by omega)]

/-- writing a cell with the content it already has changes nothing -/
theorem write_same {h : Heap} {a : Addr} {c : Cell} (hg : h.get? a = some c) : h.write a c = h := by
  apply Heap.ext_get? (size_write h a c)
  intro b _
  by_cases hb : b = a
  · subst hb; rw [get?_write_self h c (get?_lt hg), hg]
  · exact get?_write_ne h c hb

theorem get?_some_of_lt {h : Heap} {a : Addr} (ha : a < h.size) : ∃ c, h.get? a = some c := by
  unfold Heap.get?; exact ⟨_, List.getElem?_eq_getElem ha⟩

theorem rank_le_of_reach {h : Heap} {rank : Addr → Nat} (hr : h.RankedBy rank) {a b : Addr}
    (hab : Reach h a b) : rank b ≤ rank a := by
  induction hab with
  | refl _ => exact Nat.le_refl _
  | step hg hk _ ih => exact Nat.le_trans ih (Nat.le_of_lt (hr _ _ hg _ hk))

/-- a stored child never reaches its parent in a ranked heap -/
theorem not_reach_parent {h : Heap} {rank : Addr → Nat} (hr : h.RankedBy rank) {a k : Addr} {c : Cell}
    (hg : h.get? a = some c) (hk : k ∈ c.kids) {b : Addr} (hb : Reach h k b) : b ≠ a := by
  intro e
  subst e
  have h1 := rank_le_of_reach hr hb
  have h2 := hr _ _ hg _ hk
  omega

theorem reach_lt {h : Heap} (hc : h.Closed) {a b : Addr} (hab : Reach h a b) (ha : a < h.size) : b < h.size := by
  induction hab with
  | refl _ => exact ha
  | step hg hk _ ih => exact ih (hc _ _ hg _ hk)

/-- reachability between old cells does not change when the heap is extended -/
theorem reach_of_le {h h1 : Heap} (hl : h ≤ h1) (hc : h.Closed) {a b : Addr} (hab : Reach h1 a b)
    (ha : a < h.size) : Reach h a b := by
  induction hab with
  | refl _ => exact .refl _
  | @step x k y d hg hk _ ih =>
    rw [get?_eq_of_le hl ha] at hg
    exact .step hg hk (ih (hc _ _ hg _ hk))

theorem reach_mono {h h1 : Heap} (hl : h ≤ h1) {a b : Addr} (hab : Reach h a b) : Reach h1 a b := by
  induction hab with
  | refl _ => exact .refl _
  | step hg hk _ ih => exact .step (get?_of_le hl hg) hk ih

theorem mem_kids_of_get? {kvs : AMap Addr} {k : String} {a : Addr} (h : AMap.get? kvs k = some a) :
    a ∈ (Cell.cont kvs).kids := by
  simp only [Cell.kids, List.mem_map]
  exact ⟨(k, a), AMap.mem_of_get? h, rfl⟩

theorem mem_padH {xs : List Addr} {n : Nat} {x : Addr} (h : x ∈ padH xs n) : x ∈ xs ∨ x = nilAddr := by
  simp only [padH, List.mem_append, List.mem_replicate] at h
  rcases h with h | h
  · exact Or.inl h
  · exact Or.inr h.2

theorem padH_length (xs : List Addr) (n : Nat) : (padH xs n).length = max xs.length n := by
  simp only [padH, List.length_append, List.length_replicate]; omega

theorem padH_eq_self {xs : List Addr} {n : Nat} (h : n ≤ xs.length) : padH xs n = xs := by
  simp [padH, Nat.sub_eq_zero_of_le h]

theorem mem_set_padH {xs : List Addr} {i : Nat} {r x : Addr} (h : x ∈ (padH xs (i + 1)).set i r) :
    x ∈ xs ∨ x = nilAddr ∨ x = r := by
  rcases List.mem_or_eq_of_mem_set h with h | h
  · rcases mem_padH h with h | h
    · exact Or.inl h
    · exact Or.inr (Or.inl h)
  · exact Or.inr (Or.inr h)

theorem listAt_some {h : Heap} {cur : Option Addr} {a : Addr} {xs : List Addr}
    (hl : listAt h cur = some (a, xs)) : cur = some a ∧ h.get? a = some (.list xs) := by
  cases cur with
  | none => simp [listAt] at hl
  | some b =>
    simp only [listAt] at hl
    split at hl
    · rename_i ys hg
      simp only [Option.some.injEq, Prod.mk.injEq] at hl
      obtain ⟨rfl, rfl⟩ := hl
      exact ⟨rfl, hg⟩
    · cases hl

theorem padH_getElem?_ge {xs : List Addr} {i : Nat} (h : xs.length ≤ i) : (padH xs (i + 1))[i]? = some nilAddr := by
  unfold padH
  rw [List.getElem?_append_right h, List.getElem?_replicate]
  have : i - xs.length < i + 1 - xs.length := by omega
  simp [this]

theorem listAt_nil {h : Heap} (hn : h.NilOk) : listAt h (some nilAddr) = none := by
  simp only [listAt]
  rw [show h.get? nilAddr = some (.leaf Scalar.null) from hn]

/-! ## 2. `setSlotH` -/

/-- cells allocated on top of the first `n0`: they only point to older new cells, `v` or the nil
    leaf, and new children maps are sorted -/
def FreshKids (n0 : Nat) (v : Addr) (h' : Heap) : Prop :=
  ∀ a cell, n0 ≤ a → h'.get? a = some cell →
    (∀ k ∈ cell.kids, (n0 ≤ k ∧ k < a) ∨ k = v ∨ k = nilAddr) ∧ (∀ kvs, cell = .cont kvs → AMap.Sorted kvs)

theorem FreshKids.alloc {n0 : Nat} {v : Addr} {h : Heap} (hf : FreshKids n0 v h) {c : Cell} (hn : n0 ≤ h.size)
    (hk : ∀ k ∈ c.kids, (n0 ≤ k ∧ k < h.size) ∨ k = v ∨ k = nilAddr)
    (hs : ∀ kvs, c = .cont kvs → AMap.Sorted kvs) : FreshKids n0 v (h.alloc c).1 := by
  intro a cell ha hg
  rcases get?_alloc hg with ⟨_, hg'⟩ | ⟨rfl, rfl⟩
  · exact hf a cell ha hg'
  · exact ⟨hk, hs⟩

theorem FreshKids.write_old {n0 : Nat} {v : Addr} {h : Heap} (hf : FreshKids n0 v h) {a : Addr} (c : Cell)
    (ha : a < n0) : FreshKids n0 v (h.write a c) := by
  intro b cell hb hg
  rw [get?_write_ne h c (Nat.ne_of_gt (Nat.lt_of_lt_of_le ha hb))] at hg
  exact hf b cell hb hg

theorem freshKids_self (h : Heap) (v : Addr) : FreshKids h.size v h := by
  intro a cell ha hg
  exact absurd (get?_lt hg) (Nat.not_lt.mpr ha)

/-- what `setSlotH h cur is v = (h1, r)` does -/
structure SlotSpec (h : Heap) (cur : Option Addr) (is : List Nat) (v : Addr) (h1 : Heap) (r : Addr) : Prop where
  size_le : h.size ≤ h1.size
  fresh : FreshKids h.size v h1
  nil_is : is = [] → h1 = h ∧ r = v
  notList : listAt h cur = none → (∀ a, a < h.size → h1.get? a = h.get? a) ∧
    (is ≠ [] → h.size ≤ r ∧ r < h1.size)
  isList : ∀ a xs, listAt h cur = some (a, xs) → is ≠ [] → r = a ∧ ∃ w ys ys', Reach h a w ∧
    h.get? w = some (.list ys) ∧ h1.get? w = some (.list ys') ∧
    (∀ k ∈ ys', k ∈ ys ∨ k = nilAddr ∨ k = v ∨ (h.size ≤ k ∧ k < h1.size)) ∧
    (∀ b, b < h.size → b ≠ w → h1.get? b = h.get? b)

theorem setSlotH_spec {h : Heap} {rank : Addr → Nat} (hr : h.RankedBy rank) (hn : h.NilOk) (v : Addr) :
    ∀ (is : List Nat) (cur : Option Addr), SlotSpec h cur is v (setSlotH h cur is v).1 (setSlotH h cur is v).2
  | [], cur => by
    simp only [setSlotH]
    exact ⟨Nat.le_refl _, freshKids_self h v, fun _ => ⟨rfl, rfl⟩, fun _ => ⟨fun _ _ => rfl, fun hne => absurd rfl hne⟩,
      fun _ _ _ hne => absurd rfl hne⟩
  | i :: is, cur => by
    simp only [setSlotH]
    cases hl : listAt h cur with
    | none =>
      simp only
      have ih := setSlotH_spec hr hn v is ((padH [] (i + 1))[i]?)
      generalize setSlotH h ((padH [] (i + 1))[i]?) is v = res at ih
      obtain ⟨h1, r'⟩ := res
      simp only at ih ⊢
      have hslot : (padH [] (i + 1))[i]? = some nilAddr := padH_getElem?_ge (by simp)
      rw [hslot] at ih
      have hfr := ih.notList (listAt_nil hn)
      refine ⟨?_, ?_, (fun hne => by cases hne), fun _ => ⟨?_, fun _ => ?_⟩, (fun _ _ hc => by rw [hl] at hc; cases hc)⟩
      · rw [size_alloc]; exact Nat.le_succ_of_le ih.size_le
      · apply ih.fresh.alloc ih.size_le
        · intro k hk
          simp only [Cell.kids] at hk
          rcases mem_set_padH hk with hk | hk | hk
          · cases hk
          · exact Or.inr (Or.inr hk)
          · subst hk
            by_cases hnil : is = []
            · exact Or.inr (Or.inl (ih.nil_is hnil).2)
            · exact Or.inl (hfr.2 hnil)
        · intro kvs hk; cases hk
      · intro a ha
        rw [get?_eq_of_le (le_alloc h1 _) (Nat.lt_of_lt_of_le ha ih.size_le)]
        exact hfr.1 a ha
      · rw [alloc_snd, size_alloc]
        exact ⟨ih.size_le, Nat.lt_succ_self _⟩
    | some p =>
      obtain ⟨a, xs⟩ := p
      simp only
      obtain ⟨hcur, hga⟩ := listAt_some hl
      have halt := get?_lt hga
      have ih := setSlotH_spec hr hn v is ((padH xs (i + 1))[i]?)
      generalize setSlotH h ((padH xs (i + 1))[i]?) is v = res at ih
      obtain ⟨h1, r'⟩ := res
      simp only at ih ⊢
      have ha1 : a < h1.size := Nat.lt_of_lt_of_le halt ih.size_le
      refine ⟨(by rw [size_write]; exact ih.size_le), ih.fresh.write_old _ halt, (fun hne => by cases hne),
        (fun hc => by rw [hl] at hc; cases hc), ?_⟩
      intro a0 xs0 he _
      rw [hl] at he
      simp only [Option.some.injEq, Prod.mk.injEq] at he
      obtain ⟨rfl, rfl⟩ := he
      refine ⟨rfl, ?_⟩
      -- does the slot hold a list that is reused?
      by_cases hnil : is = []
      · obtain ⟨rfl, rfl⟩ := ih.nil_is hnil
        refine ⟨a, xs, (padH xs (i + 1)).set i r', .refl _, hga, get?_write_self _ _ halt, ?_, ?_⟩
        · intro k hk
          rcases mem_set_padH hk with hk | hk | hk
          · exact Or.inl hk
          · exact Or.inr (Or.inl hk)
          · exact Or.inr (Or.inr (Or.inl hk))
        · intro b _ hb
          exact get?_write_ne _ _ hb
      · cases hl' : listAt h ((padH xs (i + 1))[i]?) with
        | none =>
          obtain ⟨hfr, hr'⟩ := ih.notList hl'
          refine ⟨a, xs, (padH xs (i + 1)).set i r', .refl _, hga, get?_write_self _ _ ha1, ?_, ?_⟩
          · intro k hk
            rcases mem_set_padH hk with hk | hk | hk
            · exact Or.inl hk
            · exact Or.inr (Or.inl hk)
            · subst hk
              have := hr' hnil
              exact Or.inr (Or.inr (Or.inr ⟨this.1, by rw [size_write]; exact this.2⟩))
          · intro b hb hba
            rw [get?_write_ne _ _ hba]
            exact hfr b hb
        | some q =>
          obtain ⟨a', xs'⟩ := q
          obtain ⟨hr', w, ys, ys', hrw, hgw, hgw', hkids, hframe⟩ := ih.isList a' xs' hl' hnil
          obtain ⟨hslot, hga'⟩ := listAt_some hl'
          -- the slot is inside the list: padding would hold the nil leaf, which is no list
          have hi : i < xs.length := by
            apply Classical.byContradiction
            intro hge
            rw [padH_getElem?_ge (Nat.le_of_not_lt hge)] at hslot
            cases hslot
            rw [show h.get? nilAddr = some (.leaf Scalar.null) from hn] at hga'
            cases hga'
          rw [padH_eq_self (by omega)] at hslot ⊢
          have hmem : a' ∈ xs := List.mem_of_getElem? hslot
          have hwa : w ≠ a := not_reach_parent hr hga (by simpa [Cell.kids] using hmem) hrw
          have hset : xs.set i r' = xs := by
            rw [hr']
            apply List.ext_getElem?
            intro j
            by_cases hj : j = i
            · subst hj; rw [List.getElem?_set_self hi, hslot]
            · rw [List.getElem?_set_ne (Ne.symm hj)]
          rw [hset]
          have hsame : h1.write a (.list xs) = h1 := write_same (by rw [hframe a halt (Ne.symm hwa)]; exact hga)
          rw [hsame]
          exact ⟨w, ys, ys', .step hga (by simpa [Cell.kids] using hmem) hrw, hgw, hgw', hkids, hframe⟩

/-! ## 3. the attaching calls satisfy `AttachSpec` -/

theorem mem_kids_insert {kvs : AMap Addr} {name : String} {v k : Addr}
    (hk : k ∈ (Cell.cont (AMap.insert kvs name v)).kids) : k = v ∨ k ∈ (Cell.cont kvs).kids := by
  simp only [Cell.kids, List.mem_map] at hk ⊢
  obtain ⟨p, hp, rfl⟩ := hk
  rcases Ytk.AMap.mem_insert hp with rfl | hp
  · exact Or.inl rfl
  · exact Or.inr ⟨p, hp, rfl⟩

/-- where below `c` the written cell `w` lies, and what happens to `c`'s own children map: a call
    that goes through the member `key` writes `c` itself or a cell below that member, and no other
    member of `c` changes -/
def KeySpec (h : Heap) (c w : Addr) (key : String) (h' : Heap) : Prop :=
  ∀ kvs, h.get? c = some (.cont kvs) →
    (w = c ∨ ∃ kp, AMap.get? kvs key = some kp ∧ Reach h kp w) ∧
    ∃ kvs', h'.get? c = some (.cont kvs') ∧ ∀ k, k ≠ key → AMap.get? kvs' k = AMap.get? kvs k

theorem segBase_eq {name b : String} {is : List Nat} (hp : parseSeg name = (b, is)) : segBase name = b := by
  simp [segBase, hp]

/-- `add(name, v)` / `AddValue`: one existing cell is written — the receiver, or (for a name with
    index groups whose lists exist) the deepest reused list -/
theorem addH_spec2 {h h' : Heap} {rank : Addr → Nat} (hr : h.RankedBy rank) (hn : h.NilOk) (hm : h.MapsOk)
    {c v : Addr} {name : String} (he : addH h c name v = some h') :
    ∃ w, AttachSpec h c v w h' ∧ KeySpec h c w (segBase name) h' := by
  unfold addH at he
  split at he
  case h_2 => cases he
  rename_i kvs hg
  have hclt := get?_lt hg
  cases hp : parseSeg name with
  | mk b is =>
  simp only [hp] at he
  rw [segBase_eq hp]
  cases is with
  | nil =>
    simp only [Option.some.injEq] at he
    subst he
    have hb : b = name := Ytk.parseSeg_nil_base hp
    subst hb
    refine ⟨c, ⟨(by rw [size_write]; exact Nat.le_refl _), .refl _, fun a _ hne => get?_write_ne h _ hne, ?_, ?_⟩, ?_⟩
    · refine ⟨_, _, hg, get?_write_self h _ hclt, rfl, rfl, rfl, ?_, ?_⟩
      · intro k hk
        rcases mem_kids_insert hk with hk | hk
        · exact Or.inr (Or.inr (Or.inl hk))
        · exact Or.inl hk
      · intro k1 k2 e1 e2 hs
        cases e1; cases e2
        exact AMap.sorted_insert hs _ _
    · intro a cell ha hga
      have := get?_lt hga
      rw [size_write] at this
      exact absurd this (Nat.not_lt.mpr ha)
    · intro kvs0 hg0
      rw [hg] at hg0; cases hg0
      exact ⟨Or.inl rfl, _, get?_write_self h _ hclt, fun k hk => AMap.get?_insert_ne _ _ hk⟩
  | cons i is' =>
    have spec := setSlotH_spec hr hn v (i :: is') (AMap.get? kvs b)
    generalize setSlotH h (AMap.get? kvs b) (i :: is') v = res at spec he
    obtain ⟨h1, r⟩ := res
    simp only [Option.some.injEq] at he spec
    subst he
    have hc1 : c < h1.size := Nat.lt_of_lt_of_le hclt spec.size_le
    cases hl : listAt h (AMap.get? kvs b) with
    | none =>
      obtain ⟨hfr, hrf⟩ := spec.notList hl
      have hrf := hrf (by simp)
      refine ⟨c, ⟨(by rw [size_write]; exact spec.size_le), .refl _, ?_, ?_, spec.fresh.write_old _ hclt⟩, ?_⟩
      · intro a ha hne
        rw [get?_write_ne _ _ hne]; exact hfr a ha
      · refine ⟨_, _, hg, get?_write_self h1 _ hc1, rfl, rfl, rfl, ?_, ?_⟩
        · intro k hk
          rcases mem_kids_insert hk with hk | hk
          · subst hk
            exact Or.inr (Or.inr (Or.inr ⟨hrf.1, by rw [size_write]; exact hrf.2⟩))
          · exact Or.inl hk
        · intro k1 k2 e1 e2 hs
          cases e1; cases e2
          exact AMap.sorted_insert hs _ _
      · intro kvs0 hg0
        rw [hg] at hg0; cases hg0
        exact ⟨Or.inl rfl, _, get?_write_self h1 _ hc1, fun k hk => AMap.get?_insert_ne _ _ hk⟩
    | some q =>
      obtain ⟨a, xs⟩ := q
      obtain ⟨hra, w, ys, ys', hrw, hgw, hgw', hkids, hframe⟩ := spec.isList a xs hl (by simp)
      obtain ⟨hget, hga⟩ := listAt_some hl
      subst hra
      have hwc : w ≠ c := not_reach_parent hr hg (mem_kids_of_get? hget) hrw
      rw [Ytk.insert_put_back (hm c kvs hg) hget]
      have hc1' : h1.get? c = some (.cont kvs) := by rw [hframe c hclt (Ne.symm hwc)]; exact hg
      have hsame : h1.write c (.cont kvs) = h1 := write_same hc1'
      rw [hsame]
      refine ⟨w, ⟨spec.size_le, .step hg (mem_kids_of_get? hget) hrw, hframe, ?_, spec.fresh⟩, ?_⟩
      · refine ⟨_, _, hgw, hgw', rfl, rfl, rfl, ?_, ?_⟩
        · intro k hk
          exact hkids k (by simpa [Cell.kids] using hk)
        · intro k1 k2 e1; cases e1
      · intro kvs0 hg0
        rw [hg] at hg0; cases hg0
        exact ⟨Or.inr ⟨r, hget, hrw⟩, kvs, hc1', fun _ _ => rfl⟩

theorem addH_spec {h h' : Heap} {rank : Addr → Nat} (hr : h.RankedBy rank) (hn : h.NilOk) (hm : h.MapsOk)
    {c v : Addr} {name : String} (he : addH h c name v = some h') : ∃ w, AttachSpec h c v w h' := by
  obtain ⟨w, spec, _⟩ := addH_spec2 hr hn hm he
  exact ⟨w, spec⟩

/-- a heap that is at least as large and agrees on every old cell is an extension -/
theorem le_of_frame {h h' : Heap} (hs : h.size ≤ h'.size) (hf : ∀ a, a < h.size → h'.get? a = h.get? a) :
    h ≤ h' := by
  refine ⟨h'.cells.drop h.size, ?_⟩
  apply List.ext_getElem?
  intro a
  by_cases ha : a < h.size
  · rw [List.getElem?_append_left (by simpa [Heap.size] using ha)]
    exact hf a ha
  · have hle : h.cells.length ≤ a := by simpa [Heap.size] using Nat.le_of_not_lt ha
    rw [List.getElem?_append_right hle, List.getElem?_drop]
    congr 1
    simp only [Heap.size] at ha ⊢
    omega

theorem FreshKids.trans {n0 : Nat} {v r : Addr} {h1 h2 : Heap} (h1f : FreshKids n0 v h1)
    (hfr : ∀ a, n0 ≤ a → a < h1.size → h2.get? a = h1.get? a) (h2f : FreshKids h1.size r h2)
    (hr : (n0 ≤ r ∧ r < h1.size) ∨ r = v ∨ r = nilAddr) (hn : n0 ≤ h1.size) : FreshKids n0 v h2 := by
  intro a cell ha hg
  by_cases halt : a < h1.size
  · rw [hfr a ha halt] at hg
    exact h1f a cell ha hg
  · have hge : h1.size ≤ a := Nat.le_of_not_lt halt
    obtain ⟨hk, hs⟩ := h2f a cell hge hg
    refine ⟨fun k hkm => ?_, hs⟩
    rcases hk k hkm with ⟨h1k, h2k⟩ | rfl | rfl
    · exact Or.inl ⟨Nat.le_trans hn h1k, h2k⟩
    · rcases hr with ⟨hr1, hr2⟩ | hr | hr
      · exact Or.inl ⟨hr1, Nat.lt_of_lt_of_le hr2 hge⟩
      · exact Or.inr (Or.inl hr)
      · exact Or.inr (Or.inr hr)
    · exact Or.inr (Or.inr rfl)

/-- new cells that only point to older new cells, `v` and the nil leaf keep the heap ranked -/
theorem rankedBy_extend {h h1 : Heap} {rank : Addr → Nat} {v : Addr} (hl : h ≤ h1) (hc : h.Closed)
    (hr : h.RankedBy rank) (hf : FreshKids h.size v h1) (hv : v < h.size) (hpos : 0 < h.size) :
    ∃ rank1, h1.RankedBy rank1 := by
  refine ⟨fun a => if h.size ≤ a then rank v + rank nilAddr + 1 + a else rank a, ?_⟩
  intro a cell hg k hk
  by_cases ha : h.size ≤ a
  · simp only [if_pos ha]
    rcases (hf a cell ha hg).1 k hk with ⟨h1k, h2k⟩ | rfl | rfl
    · simp only [if_pos h1k]
      have h2k : @LT.lt Nat _ k a := h2k
      omega
    · simp only [if_neg (Nat.not_le.mpr hv)]; omega
    · have h0 : ¬ h.size ≤ nilAddr := by simp only [nilAddr]; omega
      simp only [if_neg h0]; omega
  · have halt : a < h.size := Nat.lt_of_not_le ha
    rw [get?_eq_of_le hl halt] at hg
    have hklt := hc a cell hg k hk
    simp only [if_neg ha, if_neg (Nat.not_le.mpr hklt)]
    exact hr a cell hg k hk

theorem mapsOk_extend {h h1 : Heap} {v : Addr} (hl : h ≤ h1) (hm : h.MapsOk) (hf : FreshKids h.size v h1) :
    h1.MapsOk := by
  intro a kvs hg
  by_cases ha : a < h.size
  · rw [get?_eq_of_le hl ha] at hg
    exact hm a kvs hg
  · exact (hf a _ (Nat.le_of_not_lt ha) hg).2 kvs rfl

theorem closed_extend {h h1 : Heap} {v : Addr} (hl : h ≤ h1) (hc : h.Closed) (hf : FreshKids h.size v h1)
    (hv : v < h.size) (hpos : 0 < h.size) : h1.Closed := by
  intro a cell hg k hk
  have hsz := size_le_of_le hl
  by_cases ha : a < h.size
  · rw [get?_eq_of_le hl ha] at hg
    exact Nat.lt_of_lt_of_le (hc a cell hg k hk) hsz
  · rcases (hf a cell (Nat.le_of_not_lt ha) hg).1 k hk with ⟨_, h2k⟩ | rfl | rfl
    · exact Nat.lt_trans h2k (get?_lt hg)
    · exact Nat.lt_of_lt_of_le hv hsz
    · exact Nat.lt_of_lt_of_le hpos hsz

/-- the new containers below the last existing one: only allocations; the result is new -/
theorem spineH_spec {h : Heap} {rank : Addr → Nat} (hc : h.Closed) (hr : h.RankedBy rank) (hn : h.NilOk)
    {v : Addr} (hv : v < h.size) :
    ∀ (segs : List String), h ≤ (spineH h segs v).1 ∧ FreshKids h.size v (spineH h segs v).1 ∧
      (segs = [] → (spineH h segs v) = (h, v)) ∧
      (segs ≠ [] → h.size ≤ (spineH h segs v).2 ∧ (spineH h segs v).2 < (spineH h segs v).1.size)
  | [] => by
    simp only [spineH]
    exact ⟨le_refl _, freshKids_self h v, fun _ => trivial, fun hne => absurd rfl hne⟩
  | p :: rest => by
    obtain ⟨hl, hf, hnil, hne⟩ := spineH_spec hc hr hn hv rest
    simp only [spineH]
    generalize spineH h rest v = res at hl hf hnil hne
    obtain ⟨h1, r⟩ := res
    simp only at hl hf hnil hne ⊢
    have hrr : (h.size ≤ r ∧ r < h1.size) ∨ r = v ∨ r = nilAddr := by
      by_cases hrest : rest = []
      · have := hnil hrest
        simp only [Prod.mk.injEq] at this
        exact Or.inr (Or.inl this.2)
      · exact Or.inl (hne hrest)
    have hsz := size_le_of_le hl
    cases hp : parseSeg p with
    | mk b is =>
    cases is with
    | nil =>
      simp only
      refine ⟨le_trans hl (le_alloc _ _), ?_, (fun hc => by cases hc), fun _ => ?_⟩
      · apply hf.alloc hsz
        · intro k hk
          simp only [Cell.kids, List.map_cons, List.map_nil, List.mem_singleton] at hk
          subst hk; exact hrr
        · intro kvs hk; cases hk
          exact .cons (fun q hq => by cases hq) .nil
      · rw [alloc_snd, size_alloc]; exact ⟨hsz, Nat.lt_succ_self _⟩
    | cons i is' =>
      simp only
      -- the lists of the index groups, all new (the new container is empty)
      have hpos : 0 < h.size := get?_lt hn
      obtain ⟨rank1, hr1⟩ := rankedBy_extend hl hc hr hf hv hpos
      have spec := setSlotH_spec hr1 (nilOk_mono hn hl) r (i :: is') none
      generalize setSlotH h1 none (i :: is') r = res2 at spec
      obtain ⟨h2, r2⟩ := res2
      simp only at spec ⊢
      obtain ⟨hfr, hr2⟩ := spec.notList rfl
      have hr2 := hr2 (by simp)
      have hl2 : h1 ≤ h2 := le_of_frame spec.size_le hfr
      have hf2 : FreshKids h.size v h2 := hf.trans (fun a _ ha => hfr a ha) spec.fresh hrr hsz
      refine ⟨le_trans hl (le_trans hl2 (le_alloc _ _)), ?_, (fun hc => by cases hc), fun _ => ?_⟩
      · apply hf2.alloc (Nat.le_trans hsz spec.size_le)
        · intro k hk
          simp only [Cell.kids, List.map_cons, List.map_nil, List.mem_singleton] at hk
          subst hk; exact Or.inl ⟨Nat.le_trans hsz hr2.1, hr2.2⟩
        · intro kvs hk; cases hk
          exact .cons (fun q hq => by cases hq) .nil
      · rw [alloc_snd, size_alloc]; exact ⟨Nat.le_trans hsz spec.size_le, Nat.lt_succ_self _⟩

theorem walkIdxH_reach {h : Heap} : ∀ (is : List Nat) (a x : Addr), walkIdxH h (some a) is = some x → Reach h a x
  | [], a, x, hw => by
    simp only [walkIdxH, Option.some.injEq] at hw; subst hw; exact .refl _
  | i :: is, a, x, hw => by
    simp only [walkIdxH] at hw
    split at hw
    · rename_i xs hg
      cases hx : xs[i]? with
      | none => rw [hx] at hw; cases is <;> simp [walkIdxH] at hw
      | some k =>
        rw [hx] at hw
        exact .step hg (by simpa [Cell.kids] using List.mem_of_getElem? hx) (walkIdxH_reach is k x hw)
    · cases hw

theorem childH_reach {h : Heap} {c x : Addr} {name : String} (hch : childH h c name = some x) : Reach h c x := by
  unfold childH at hch
  split at hch
  case h_2 => cases hch
  rename_i kvs hg
  unfold childKvs at hch
  cases hp : parseSeg name with
  | mk b is =>
  simp only [hp] at hch
  cases is with
  | nil => exact .step hg (mem_kids_of_get? hch) (.refl _)
  | cons i is' =>
    simp only at hch
    cases hb : AMap.get? kvs b with
    | none => rw [hb] at hch; simp [walkIdxH] at hch
    | some a =>
      rw [hb] at hch
      exact .step hg (mem_kids_of_get? hb) (walkIdxH_reach _ a x hch)

theorem contChildH_some {h : Heap} {c x : Addr} {p : String} (hcc : contChildH h c p = some x) :
    childH h c p = some x ∧ ∃ kvs, h.get? x = some (.cont kvs) := by
  unfold contChildH at hcc
  split at hcc
  · rename_i y hy
    split at hcc
    · rename_i kvs hg
      simp only [Option.some.injEq] at hcc; subst hcc
      exact ⟨hy, kvs, hg⟩
    · cases hcc
  · cases hcc

/-- an attaching call made after new cells were allocated for the node `r` it attaches, seen from
    the heap before those allocations -/
theorem AttachSpec.of_spine {h h1 h' : Heap} {c v r w : Addr} (hc : h.Closed) (hl : h ≤ h1)
    (hf : FreshKids h.size v h1) (hrf : h.size ≤ r ∧ r < h1.size) (hclt : c < h.size)
    (spec : AttachSpec h1 c r w h') : AttachSpec h c v w h' := by
  have hsz := size_le_of_le hl
  have hrw : Reach h c w := reach_of_le hl hc spec.reach_w hclt
  have hwlt : w < h.size := reach_lt hc hrw hclt
  refine ⟨Nat.le_trans hsz spec.size_le, hrw, ?_, ?_, ?_⟩
  · intro a ha hne
    rw [spec.frame a (Nat.lt_of_lt_of_le ha hsz) hne, get?_eq_of_le hl ha]
  · obtain ⟨cw, cw', h1w, h2w, k1, k2, k3, hk, hs⟩ := spec.written
    refine ⟨cw, cw', by rw [← get?_eq_of_le hl hwlt]; exact h1w, h2w, k1, k2, k3, ?_, hs⟩
    intro k hkm
    rcases hk k hkm with hk | hk | hk | hk
    · exact Or.inl hk
    · exact Or.inr (Or.inl hk)
    · subst hk
      exact Or.inr (Or.inr (Or.inr ⟨hrf.1, Nat.lt_of_lt_of_le hrf.2 spec.size_le⟩))
    · exact Or.inr (Or.inr (Or.inr ⟨Nat.le_trans hsz hk.1, hk.2⟩))
  · exact hf.trans (fun a ha halt => spec.frame a halt (Nat.ne_of_gt (Nat.lt_of_lt_of_le hwlt ha)))
      spec.fresh (Or.inl hrf) hsz

/-- `AddValueAt`: exactly one existing cell is written — the last existing container on the path
    (or the deepest reused list of its last component); everything else that is new is allocated -/
theorem addAtSegsH_spec {h : Heap} {rank : Addr → Nat} (hc : h.Closed) (hr : h.RankedBy rank) (hn : h.NilOk)
    (hm : h.MapsOk) {v : Addr} (hv : v < h.size) :
    ∀ (segs : List String) (c : Addr) (h' : Heap), segs ≠ [] → c < h.size → addAtSegsH h c segs v = some h' →
      ∃ w, AttachSpec h c v w h'
  | [], _, _, hne, _, _ => absurd rfl hne
  | [s], c, h', _, _, he => by
    simp only [addAtSegsH] at he
    exact addH_spec hr hn hm he
  | s :: t :: rest, c, h', _, hclt, he => by
    simp only [addAtSegsH] at he
    cases hcc : contChildH h c s with
    | some x =>
      simp only [hcc] at he
      obtain ⟨hch, kvs, hgx⟩ := contChildH_some hcc
      obtain ⟨w, spec⟩ := addAtSegsH_spec hc hr hn hm hv (t :: rest) x h' (by simp) (get?_lt hgx) he
      exact ⟨w, { spec with reach_w := (childH_reach hch).trans spec.reach_w }⟩
    | none =>
      simp only [hcc] at he
      obtain ⟨hl, hf, _, hne⟩ := spineH_spec hc hr hn hv (t :: rest)
      generalize spineH h (t :: rest) v = res at hl hf hne he
      obtain ⟨h1, r⟩ := res
      simp only at hl hf hne he
      have hrf := hne (by simp)
      have hpos : 0 < h.size := get?_lt hn
      have hsz := size_le_of_le hl
      obtain ⟨rank1, hr1⟩ := rankedBy_extend hl hc hr hf hv hpos
      obtain ⟨w, spec⟩ := addH_spec hr1 (nilOk_mono hn hl) (mapsOk_extend hl hm hf) he
      exact ⟨w, spec.of_spine hc hl hf hrf hclt⟩

theorem rankedBy_alloc_empty {h : Heap} {rank : Addr → Nat} (hr : h.RankedBy rank) {c0 : Cell} (hk : c0.kids = []) :
    (h.alloc c0).1.RankedBy rank := by
  intro a cell hg k hkm
  rcases get?_alloc hg with ⟨_, hg'⟩ | ⟨_, rfl⟩
  · exact hr a cell hg' k hkm
  · rw [hk] at hkm; cases hkm

theorem mapsOk_alloc {h : Heap} (hm : h.MapsOk) {c0 : Cell} (hs : ∀ kvs, c0 = .cont kvs → AMap.Sorted kvs) :
    (h.alloc c0).1.MapsOk := by
  intro a kvs hg
  rcases get?_alloc hg with ⟨_, hg'⟩ | ⟨_, he⟩
  · exact hm a kvs hg'
  · exact hs kvs he.symm

/-- `AddContainer` / `AddList`: the returned node is a NEW empty cell, attached by `add` -/
theorem addContainerH_spec {h h2 : Heap} {rank : Addr → Nat} (hr : h.RankedBy rank) (hn : h.NilOk) (hm : h.MapsOk)
    {c b : Addr} {name : String} (he : addContainerH h c name = some (h2, b)) :
    b = h.size ∧ ∃ w, AttachSpec (h.alloc (.cont [])).1 c b w h2 := by
  unfold addContainerH at he
  simp only at he
  split at he
  · rename_i h2' he'
    simp only [Option.some.injEq, Prod.mk.injEq] at he
    obtain ⟨rfl, rfl⟩ := he
    exact ⟨rfl, addH_spec (rankedBy_alloc_empty hr rfl) (nilOk_mono hn (le_alloc _ _))
      (mapsOk_alloc hm (fun kvs hk => by cases hk; exact .nil)) he'⟩
  · cases he

theorem addListH_spec {h h2 : Heap} {rank : Addr → Nat} (hr : h.RankedBy rank) (hn : h.NilOk) (hm : h.MapsOk)
    {c b : Addr} {name : String} (he : addListH h c name = some (h2, b)) :
    b = h.size ∧ ∃ w, AttachSpec (h.alloc (.list [])).1 c b w h2 := by
  unfold addListH at he
  simp only at he
  split at he
  · rename_i h2' he'
    simp only [Option.some.injEq, Prod.mk.injEq] at he
    obtain ⟨rfl, rfl⟩ := he
    exact ⟨rfl, addH_spec (rankedBy_alloc_empty hr rfl) (nilOk_mono hn (le_alloc _ _))
      (mapsOk_alloc hm (fun kvs hk => by cases hk)) he'⟩
  · cases he

/-- a single write that keeps the kind of an existing composite cell and adds at most `v` and the
    nil leaf to its children (`Set` / `MustSet` / `Append` on a list, `AddValue` on a plain name) -/
theorem attachSpec_write {h : Heap} {l v : Addr} {cw cw' : Cell} (hg : h.get? l = some cw) (hleaf : cw.isLeaf = false)
    (hl : cw'.isList = cw.isList) (hcn : cw'.isCont = cw.isCont)
    (hk : ∀ k ∈ cw'.kids, k ∈ cw.kids ∨ k = nilAddr ∨ k = v)
    (hs : ∀ kvs kvs', cw = .cont kvs → cw' = .cont kvs' → AMap.Sorted kvs → AMap.Sorted kvs') :
    AttachSpec h l v l (h.write l cw') := by
  refine ⟨(by rw [size_write]; exact Nat.le_refl _), .refl _, fun a _ hne => get?_write_ne h _ hne, ?_, ?_⟩
  · refine ⟨cw, cw', hg, get?_write_self h _ (get?_lt hg), hleaf, hl, hcn, ?_, hs⟩
    intro k hkm
    rcases hk k hkm with hk | hk | hk
    · exact Or.inl hk
    · exact Or.inr (Or.inl hk)
    · exact Or.inr (Or.inr (Or.inl hk))
  · intro a cell ha hga
    have := get?_lt hga
    rw [size_write] at this
    exact absurd this (Nat.not_lt.mpr ha)

theorem listSet_spec {h h' : Heap} {l v : Addr} {idx : Nat} (he : Ytk.Heap.listSet h l idx v = some h') :
    AttachSpec h l v l h' := by
  unfold Ytk.Heap.listSet at he
  split at he
  · rename_i xs hg
    simp only [Option.some.injEq] at he; subst he
    refine attachSpec_write hg rfl rfl rfl ?_ (fun _ _ e => by cases e)
    intro k hk
    exact mem_set_padH (xs := xs) (i := idx) (by simpa [Cell.kids, padH] using hk)
  · cases he

theorem listAppend_spec {h h' : Heap} {l v : Addr} (he : Ytk.Heap.listAppend h l v = some h') :
    AttachSpec h l v l h' := by
  unfold Ytk.Heap.listAppend at he
  split at he
  · rename_i xs hg
    simp only [Option.some.injEq] at he; subst he
    refine attachSpec_write hg rfl rfl rfl ?_ (fun _ _ e => by cases e)
    intro k hk
    simp only [Cell.kids, List.mem_append, List.mem_singleton] at hk
    rcases hk with hk | hk
    · exact Or.inl hk
    · exact Or.inr (Or.inr hk)
  · cases he

theorem listMustSetH_spec {h h' : Heap} {l v : Addr} {idx : Nat} (he : listMustSetH h l idx v = .ok h') :
    AttachSpec h l v l h' := by
  unfold listMustSetH at he
  split at he
  · rename_i xs hg
    split at he
    · simp only [Outcome.ok.injEq] at he; subst he
      refine attachSpec_write hg rfl rfl rfl ?_ (fun _ _ e => by cases e)
      intro k hk
      rcases List.mem_or_eq_of_mem_set (by simpa [Cell.kids] using hk) with hk | hk
      · exact Or.inl hk
      · exact Or.inr (Or.inr hk)
    · cases he
  · cases he

/-! ## 4. the removing calls satisfy `ShrinkSpec` -/

theorem ShrinkSpec.refl (h : Heap) : ShrinkSpec h h :=
  ⟨rfl, fun _ _ hg => hg, fun _ cell' hg => ⟨cell', hg, fun _ hk => hk, rfl, rfl, fun _ _ e1 e2 hs => by
    cases e1; cases e2; exact hs⟩⟩

theorem ShrinkSpec.trans {h h1 h2 : Heap} (s1 : ShrinkSpec h h1) (s2 : ShrinkSpec h1 h2) : ShrinkSpec h h2 := by
  refine ⟨by rw [s2.size_eq, s1.size_eq], fun a s hg => s2.leaves a s (s1.leaves a s hg), ?_⟩
  intro a cell2 hg2
  obtain ⟨cell1, hg1, k1, l1, i1, so1⟩ := s2.cells a cell2 hg2
  obtain ⟨cell, hg, k0, l0, i0, so0⟩ := s1.cells a cell1 hg1
  refine ⟨cell, hg, fun k hk => k0 k (k1 k hk), l1.trans l0, i1.trans i0, ?_⟩
  intro kvs kvs2 e e2 hs
  subst e; subst e2
  cases cell1 with
  | leaf s => simp [Cell.isLeaf] at l0
  | list xs => simp [Cell.isList] at i0
  | cont kvs1 => exact so1 kvs1 kvs2 rfl rfl (so0 kvs kvs1 rfl rfl hs)

/-- one write that only drops children of a composite cell -/
theorem shrinkSpec_write {h : Heap} {a : Addr} {cell cell' : Cell} (hg : h.get? a = some cell)
    (hleaf : cell.isLeaf = false) (hk : ∀ k ∈ cell'.kids, k ∈ cell.kids) (hl : cell'.isLeaf = cell.isLeaf)
    (hi : cell'.isList = cell.isList)
    (hs : ∀ kvs kvs', cell = .cont kvs → cell' = .cont kvs' → AMap.Sorted kvs → AMap.Sorted kvs') :
    ShrinkSpec h (h.write a cell') := by
  refine ⟨size_write h a cell', ?_, ?_⟩
  · intro b s hb
    have hne : b ≠ a := by
      intro e; subst e; rw [hg] at hb; cases hb; simp [Cell.isLeaf] at hleaf
    rw [get?_write_ne h _ hne]; exact hb
  · intro b cb hb
    by_cases hba : b = a
    · subst hba
      rw [get?_write_self h _ (get?_lt hg)] at hb
      cases hb
      exact ⟨cell, hg, hk, hl, hi, hs⟩
    · rw [get?_write_ne h _ hba] at hb
      exact ⟨cb, hb, fun _ h => h, rfl, rfl, fun _ _ e1 e2 hs => by cases e1; cases e2; exact hs⟩

theorem remove_spec {h h' : Heap} {c : Addr} {name : String} (he : Ytk.Heap.remove h c name = some h') :
    ShrinkSpec h h' := by
  unfold Ytk.Heap.remove at he
  split at he
  · rename_i kvs hg
    simp only [Option.some.injEq] at he; subst he
    refine shrinkSpec_write hg rfl ?_ rfl rfl ?_
    · intro k hk
      simp only [Cell.kids, List.mem_map] at hk ⊢
      obtain ⟨p, hp, rfl⟩ := hk
      exact ⟨p, Ytk.AMap.mem_erase hp, rfl⟩
    · intro k1 k2 e1 e2 hs
      cases e1; cases e2
      exact AMap.sorted_erase hs _
  · cases he

theorem listClear_spec {h h' : Heap} {l : Addr} (he : listClear h l = some h') : ShrinkSpec h h' := by
  unfold listClear at he
  split at he
  · rename_i xs hg
    simp only [Option.some.injEq] at he; subst he
    exact shrinkSpec_write hg rfl (fun k hk => by simp [Cell.kids] at hk) rfl rfl (fun _ _ e => by cases e)
  · cases he

theorem removeAtSegsH_spec {h : Heap} : ∀ (segs : List String) (c : Addr) (h' : Heap),
    removeAtSegsH h c segs = some h' → ShrinkSpec h h'
  | [], _, _, he => by
    simp only [removeAtSegsH, Option.some.injEq] at he; subst he; exact .refl _
  | [s], c, h', he => by
    simp only [removeAtSegsH] at he; exact remove_spec he
  | s :: t :: rest, c, h', he => by
    simp only [removeAtSegsH] at he
    cases hcc : contChildH h c s with
    | some x => simp only [hcc] at he; exact removeAtSegsH_spec (t :: rest) x h' he
    | none => simp only [hcc, Option.some.injEq] at he; subst he; exact .refl _

theorem compactKvsH_spec {g : Heap → Addr → Option Heap} (hg : ∀ h a h', g h a = some h' → ShrinkSpec h h') :
    ∀ (kvs : List (String × Addr)) (h : Heap) (c : Addr) (h' : Heap), compactKvsH g h c kvs = some h' →
      ShrinkSpec h h'
  | [], h, c, h', he => by
    simp only [compactKvsH, Option.some.injEq] at he; subst he; exact .refl _
  | (k, v) :: rest, h, c, h', he => by
    simp only [compactKvsH] at he
    split at he
    · cases hgv : g h v with
      | none => simp [hgv] at he
      | some h1 =>
        simp only [hgv] at he
        have s1 := hg h v h1 hgv
        split at he
        · cases hrm : Ytk.Heap.remove h1 c k with
          | none => simp [hrm] at he
          | some h2 =>
            simp only [hrm] at he
            exact s1.trans ((remove_spec hrm).trans (compactKvsH_spec hg rest h2 c h' he))
        · exact s1.trans (compactKvsH_spec hg rest h1 c h' he)
    · exact compactKvsH_spec hg rest h c h' he

theorem compactF_spec : ∀ (f : Nat) (h : Heap) (c : Addr) (h' : Heap), compactF f h c = some h' → ShrinkSpec h h'
  | 0, _, _, _, he => by simp [compactF] at he
  | f + 1, h, c, h', he => by
    simp only [compactF] at he
    split at he
    · exact compactKvsH_spec (compactF_spec f) _ h c h' he
    · cases he

/-! ## 5. reading back what was written -/

theorem walkIdxH_nil (h : Heap) (n : Option Addr) : walkIdxH h n [] = n := by
  cases n <;> rfl

/-- after `setSlotH` the walk through the same index groups ends in the node `v` itself — in every
    heap `g` that agrees with the result on the new cells and on the lists below `cur` -/
theorem setSlotH_walk {h : Heap} {rank : Addr → Nat} (hr : h.RankedBy rank) (hn : h.NilOk) (v : Addr) :
    ∀ (is : List Nat) (cur : Option Addr) (g : Heap),
      (∀ b, h.size ≤ b → b < (setSlotH h cur is v).1.size → g.get? b = (setSlotH h cur is v).1.get? b) →
      (∀ s b xs, cur = some s → Reach h s b → h.get? b = some (.list xs) →
        g.get? b = (setSlotH h cur is v).1.get? b) →
      walkIdxH g (some (setSlotH h cur is v).2) is = some v
  | [], cur, g, _, _ => by simp only [setSlotH, walkIdxH]
  | i :: is, cur, g, h1, h2 => by
    have spec0 := setSlotH_spec hr hn v (i :: is) cur
    simp only [setSlotH] at h1 h2 spec0 ⊢
    cases hl : listAt h cur with
    | none =>
      simp only [hl] at h1 h2 spec0 ⊢
      have ih := setSlotH_walk hr hn v is ((padH [] (i + 1))[i]?) g
      have spec := setSlotH_spec hr hn v is ((padH [] (i + 1))[i]?)
      generalize setSlotH h ((padH [] (i + 1))[i]?) is v = res at ih spec h1 h2 spec0
      obtain ⟨hq, r'⟩ := res
      simp only at ih spec h1 h2 spec0 ⊢
      have hslot : (padH [] (i + 1))[i]? = some nilAddr := padH_getElem?_ge (by simp)
      have hgr : g.get? hq.size = some (.list ((padH [] (i + 1)).set i r')) := by
        rw [h1 hq.size spec.size_le (by rw [size_alloc]; exact Nat.lt_succ_self _), get?_alloc_new]
      rw [alloc_snd]
      simp only [walkIdxH, hgr]
      have hi : i < (padH [] (i + 1)).length := by rw [padH_length]; simp
      rw [List.getElem?_set_self hi]
      apply ih
      · intro b hb1 hb2
        rw [h1 b hb1 (by rw [size_alloc]; exact Nat.lt_succ_of_lt hb2), get?_eq_of_le (le_alloc _ _) hb2]
      · intro s b xs hs hsb hgb
        rw [hslot] at hs
        cases hs
        have := Reach.of_leaf (show h.get? nilAddr = some (.leaf Scalar.null) from hn) hsb
        subst this
        rw [show h.get? nilAddr = some (.leaf Scalar.null) from hn] at hgb
        cases hgb
    | some p =>
      obtain ⟨a, xs⟩ := p
      simp only [hl] at h1 h2 spec0 ⊢
      obtain ⟨hcur, hga⟩ := listAt_some hl
      have halt := get?_lt hga
      have ih := setSlotH_walk hr hn v is ((padH xs (i + 1))[i]?) g
      have spec := setSlotH_spec hr hn v is ((padH xs (i + 1))[i]?)
      generalize setSlotH h ((padH xs (i + 1))[i]?) is v = res at ih spec h1 h2 spec0
      obtain ⟨hq, r'⟩ := res
      simp only at ih spec h1 h2 spec0 ⊢
      have haq : a < hq.size := Nat.lt_of_lt_of_le halt spec.size_le
      have hgr : g.get? a = some (.list ((padH xs (i + 1)).set i r')) := by
        rw [h2 a a xs hcur (.refl _) hga, get?_write_self _ _ haq]
      simp only [walkIdxH, hgr]
      have hi : i < (padH xs (i + 1)).length := by rw [padH_length]; omega
      rw [List.getElem?_set_self hi]
      apply ih
      · intro b hb1 hb2
        have hba : b ≠ a := Nat.ne_of_gt (Nat.lt_of_lt_of_le halt hb1)
        rw [h1 b hb1 (by rw [size_write]; exact hb2), get?_write_ne _ _ hba]
      · intro s b ys hs hsb hgb
        by_cases hil : i < xs.length
        · rw [padH_eq_self (by omega)] at hs
          have hmem : s ∈ xs := List.mem_of_getElem? hs
          have hba : b ≠ a := not_reach_parent hr hga (by simpa [Cell.kids] using hmem) hsb
          rw [h2 a b ys hcur (.step hga (by simpa [Cell.kids] using hmem) hsb) hgb, get?_write_ne _ _ hba]
        · rw [padH_getElem?_ge (Nat.le_of_not_lt hil)] at hs
          cases hs
          have := Reach.of_leaf (show h.get? nilAddr = some (.leaf Scalar.null) from hn) hsb
          subst this
          rw [show h.get? nilAddr = some (.leaf Scalar.null) from hn] at hgb
          cases hgb

/-- set-get for a direct child at pointer level: `Child(name)` after `AddValue(name, v)` is `v` -/
theorem addH_child {h h' : Heap} {rank : Addr → Nat} (hr : h.RankedBy rank) (hn : h.NilOk)
    {c v : Addr} {name : String} (he : addH h c name v = some h') : childH h' c name = some v := by
  unfold addH at he
  split at he
  case h_2 => cases he
  rename_i kvs hg
  have hclt := get?_lt hg
  unfold childH childKvs
  cases hp : parseSeg name with
  | mk b is =>
  simp only [hp] at he ⊢
  cases is with
  | nil =>
    simp only [Option.some.injEq] at he
    subst he
    rw [get?_write_self h _ hclt]
    simp only [AMap.get?_insert_self]
  | cons i is' =>
    have hw := setSlotH_walk hr hn v (i :: is') (AMap.get? kvs b)
    have spec := setSlotH_spec hr hn v (i :: is') (AMap.get? kvs b)
    generalize setSlotH h (AMap.get? kvs b) (i :: is') v = res at hw spec he
    obtain ⟨h1, r⟩ := res
    simp only [Option.some.injEq] at he hw spec
    subst he
    rw [get?_write_self h1 _ (Nat.lt_of_lt_of_le hclt spec.size_le)]
    simp only [AMap.get?_insert_self]
    apply hw
    · intro b' hb1 _
      exact get?_write_ne _ _ (Nat.ne_of_gt (Nat.lt_of_lt_of_le hclt hb1))
    · intro s b' xs _ _ hgb
      have : b' ≠ c := by
        intro e; subst e; rw [hg] at hgb; cases hgb
      exact get?_write_ne _ _ this

/-- a walk that ends in `x` only reads cells of strictly higher rank than `x` -/
theorem walkIdxH_frame {h g : Heap} {rank : Addr → Nat} (hr : h.RankedBy rank) {x : Addr}
    (hfr : ∀ b, b < h.size → rank x < rank b → g.get? b = h.get? b) :
    ∀ (is : List Nat) (a : Addr), walkIdxH h (some a) is = some x → walkIdxH g (some a) is = some x
  | [], a, hw => by simpa [walkIdxH] using hw
  | i :: is, a, hw => by
    simp only [walkIdxH] at hw ⊢
    split at hw
    · rename_i xs hg
      cases hx : xs[i]? with
      | none => rw [hx] at hw; cases is <;> simp [walkIdxH] at hw
      | some k =>
        rw [hx] at hw
        have hrk : rank x < rank a :=
          Nat.lt_of_le_of_lt (rank_le_of_reach hr (walkIdxH_reach is k x hw))
            (hr a _ hg k (by simpa [Cell.kids] using List.mem_of_getElem? hx))
        rw [hfr a (get?_lt hg) hrk, hg]
        simp only [hx]
        exact walkIdxH_frame hr hfr is k hw
    · cases hw

theorem childH_frame {h g : Heap} {rank : Addr → Nat} (hr : h.RankedBy rank) {c x : Addr} {name : String}
    (hfr : ∀ b, b < h.size → rank x < rank b → g.get? b = h.get? b)
    (hch : childH h c name = some x) : childH g c name = some x := by
  have hrk : rank x < rank c := by
    have hcx := childH_reach hch
    cases hcx with
    | refl _ =>
      -- x = c is impossible: the child is stored below c
      exfalso
      unfold childH at hch
      split at hch
      · rename_i kvs hg
        unfold childKvs at hch
        cases hp : parseSeg name with
        | mk b is =>
        simp only [hp] at hch
        cases is with
        | nil => exact Nat.lt_irrefl _ (hr c _ hg c (mem_kids_of_get? hch))
        | cons i is' =>
          simp only at hch
          cases hb : AMap.get? kvs b with
          | none => rw [hb] at hch; simp [walkIdxH] at hch
          | some a =>
            rw [hb] at hch
            have h1 := rank_le_of_reach hr (walkIdxH_reach _ a c hch)
            have h2 := hr c _ hg a (mem_kids_of_get? hb)
            omega
      · cases hch
    | step hg hk hkb => exact Nat.lt_of_le_of_lt (rank_le_of_reach hr hkb) (hr _ _ hg _ hk)
  unfold childH at hch ⊢
  split at hch
  case h_2 => cases hch
  rename_i kvs hg
  rw [hfr c (get?_lt hg) hrk, hg]
  simp only
  unfold childKvs at hch ⊢
  cases hp : parseSeg name with
  | mk b is =>
  simp only [hp] at hch ⊢
  cases is with
  | nil => exact hch
  | cons i is' =>
    simp only at hch ⊢
    cases hb : AMap.get? kvs b with
    | none => rw [hb] at hch; simp [walkIdxH] at hch
    | some a =>
      rw [hb] at hch
      exact walkIdxH_frame hr hfr _ a hch

theorem spineH_cont {h : Heap} {v : Addr} : ∀ (segs : List String), segs ≠ [] →
    ∃ kvs, (spineH h segs v).1.get? (spineH h segs v).2 = some (.cont kvs)
  | [], hne => absurd rfl hne
  | p :: rest, _ => by
    simp only [spineH]
    generalize spineH h rest v = res
    obtain ⟨h0, r0⟩ := res
    cases hp : parseSeg p with
    | mk b is =>
    cases is with
    | nil => exact ⟨_, get?_alloc_new _ _⟩
    | cons i is' =>
      simp only
      generalize setSlotH h0 none (i :: is') r0 = res2
      obtain ⟨h2, r2⟩ := res2
      exact ⟨_, get?_alloc_new _ _⟩

/-- in the new container for `p :: rest`, `Child(p)` is the node built for `rest` -/
theorem spineH_child {h : Heap} {rank : Addr → Nat} (hc : h.Closed) (hr : h.RankedBy rank) (hn : h.NilOk)
    {v : Addr} (hv : v < h.size) (p : String) (rest : List String) (g : Heap)
    (hg : ∀ b, h.size ≤ b → b < (spineH h (p :: rest) v).1.size → g.get? b = (spineH h (p :: rest) v).1.get? b) :
    childH g (spineH h (p :: rest) v).2 p = some (spineH h rest v).2 := by
  obtain ⟨hl, hf, _, _⟩ := spineH_spec hc hr hn hv rest
  simp only [spineH] at hg ⊢
  generalize spineH h rest v = res at hl hf hg
  obtain ⟨h0, r0⟩ := res
  simp only at hl hf hg ⊢
  have hsz := size_le_of_le hl
  cases hp : parseSeg p with
  | mk b is =>
  cases is with
  | nil =>
    simp only [hp] at hg ⊢
    have hgr : g.get? h0.size = some (.cont [(p, r0)]) := by
      rw [hg h0.size hsz (by rw [size_alloc]; exact Nat.lt_succ_self _), get?_alloc_new]
    rw [alloc_snd]
    simp only [childH, hgr, childKvs, hp, AMap.get?, if_true]
  | cons i is' =>
    simp only [hp] at hg ⊢
    have hpos : 0 < h.size := get?_lt hn
    obtain ⟨rank1, hr1⟩ := rankedBy_extend hl hc hr hf hv hpos
    have hw := setSlotH_walk hr1 (nilOk_mono hn hl) r0 (i :: is') none g
    have spec := setSlotH_spec hr1 (nilOk_mono hn hl) r0 (i :: is') none
    generalize setSlotH h0 none (i :: is') r0 = res2 at hw spec hg
    obtain ⟨h2, r2⟩ := res2
    simp only at hw spec hg ⊢
    have hgr : g.get? h2.size = some (.cont [(b, r2)]) := by
      rw [hg h2.size (Nat.le_trans hsz spec.size_le) (by rw [size_alloc]; exact Nat.lt_succ_self _), get?_alloc_new]
    rw [alloc_snd]
    simp only [childH, hgr, childKvs, hp, AMap.get?, if_true]
    apply hw
    · intro b' hb1 hb2
      rw [hg b' (Nat.le_trans hsz hb1) (by rw [size_alloc]; exact Nat.lt_succ_of_lt hb2),
        get?_eq_of_le (le_alloc _ _) hb2]
    · intro s _ _ hs; cases hs

/-- the heap for `p :: rest` extends the one for `rest` -/
theorem spineH_cons_le {h : Heap} {rank : Addr → Nat} (hc : h.Closed) (hr : h.RankedBy rank) (hn : h.NilOk)
    {v : Addr} (hv : v < h.size) (p : String) (rest : List String) :
    (spineH h rest v).1 ≤ (spineH h (p :: rest) v).1 := by
  obtain ⟨hl0, hf0, _, _⟩ := spineH_spec hc hr hn hv rest
  have hpos : 0 < h.size := get?_lt hn
  obtain ⟨rank1, hr1⟩ := rankedBy_extend hl0 hc hr hf0 hv hpos
  simp only [spineH]
  generalize spineH h rest v = res at hr1 hl0
  obtain ⟨h0, r0⟩ := res
  simp only at hr1 hl0 ⊢
  cases hp : parseSeg p with
  | mk b is =>
  cases is with
  | nil => exact le_alloc _ _
  | cons i is' =>
    simp only
    have spec := setSlotH_spec hr1 (nilOk_mono hn hl0) r0 (i :: is') none
    generalize setSlotH h0 none (i :: is') r0 = res2 at spec
    obtain ⟨h2, r2⟩ := res2
    exact le_trans (le_of_frame spec.size_le (spec.notList rfl).1) (le_alloc _ _)

theorem spineH_lookup {h : Heap} {rank : Addr → Nat} (hc : h.Closed) (hr : h.RankedBy rank) (hn : h.NilOk)
    {v : Addr} (hv : v < h.size) :
    ∀ (segs : List String) (g : Heap), segs ≠ [] →
      (∀ b, h.size ≤ b → b < (spineH h segs v).1.size → g.get? b = (spineH h segs v).1.get? b) →
      lookupSegsH g (spineH h segs v).2 segs = some v
  | [], _, hne, _ => absurd rfl hne
  | [p], g, _, hg => by
    simp only [lookupSegsH]
    rw [spineH_child hc hr hn hv p [] g hg]
    rfl
  | p :: q :: rest, g, _, hg => by
    simp only [lookupSegsH]
    have hch := spineH_child hc hr hn hv p (q :: rest) g hg
    obtain ⟨kvs, hk⟩ := spineH_cont (h := h) (v := v) (q :: rest) (by simp)
    obtain ⟨hl0, _, _, hne0⟩ := spineH_spec hc hr hn hv (q :: rest)
    have hr0 := hne0 (by simp)
    have hext := spineH_cons_le hc hr hn hv p (q :: rest)
    have hgk : g.get? (spineH h (q :: rest) v).2 = some (.cont kvs) := by
      rw [hg _ hr0.1 (Nat.lt_of_lt_of_le hr0.2 (size_le_of_le hext)), get?_of_le hext hk]
    simp only [contChildH, hch, hgk]
    apply spineH_lookup hc hr hn hv (q :: rest) g (by simp)
    intro b hb1 hb2
    rw [hg b hb1 (Nat.lt_of_lt_of_le hb2 (size_le_of_le hext)), get?_eq_of_le hext hb2]

theorem isCont_eq_true {c : Cell} (h : c.isCont = true) : ∃ kvs, c = .cont kvs := by
  cases c with
  | cont kvs => exact ⟨kvs, rfl⟩
  | leaf _ => simp [Cell.isCont] at h
  | list _ => simp [Cell.isCont] at h

/-- SET-GET at pointer level: after `AddValueAt(path, v)`, `Lookup(path)` is the node `v` itself -/
theorem addAtSegsH_lookup {h : Heap} {rank : Addr → Nat} (hc : h.Closed) (hr : h.RankedBy rank) (hn : h.NilOk)
    (hm : h.MapsOk) {v : Addr} (hv : v < h.size) :
    ∀ (segs : List String) (c : Addr) (h' : Heap), segs ≠ [] → c < h.size → addAtSegsH h c segs v = some h' →
      lookupSegsH h' c segs = some v
  | [], _, _, hne, _, _ => absurd rfl hne
  | [s], c, h', _, _, he => by
    simp only [addAtSegsH] at he
    simp only [lookupSegsH]
    exact addH_child hr hn he
  | s :: t :: rest, c, h', _, hclt, he => by
    have he0 := he
    simp only [addAtSegsH] at he
    simp only [lookupSegsH]
    cases hcc : contChildH h c s with
    | some x =>
      simp only [hcc] at he
      obtain ⟨hch, kvs, hgx⟩ := contChildH_some hcc
      have hxlt := get?_lt hgx
      obtain ⟨w, spec⟩ := addAtSegsH_spec hc hr hn hm hv (t :: rest) x h' (by simp) hxlt he
      have ih := addAtSegsH_lookup hc hr hn hm hv (t :: rest) x h' (by simp) hxlt he
      have hrw := rank_le_of_reach hr spec.reach_w
      have hfr : ∀ b, b < h.size → rank x < rank b → h'.get? b = h.get? b := by
        intro b hb hrk
        exact spec.frame b hb (by intro e; subst e; omega)
      have hch' := childH_frame hr hfr hch
      have hgx' : ∃ kvs', h'.get? x = some (.cont kvs') := by
        by_cases hxw : x = w
        · subst hxw
          obtain ⟨cw, cw', h1w, h2w, _, _, k3, _, _⟩ := spec.written
          rw [hgx] at h1w
          cases h1w
          obtain ⟨kvs', rfl⟩ := isCont_eq_true (c := cw') (by rw [k3]; rfl)
          exact ⟨kvs', h2w⟩
        · exact ⟨kvs, by rw [spec.frame x hxlt hxw]; exact hgx⟩
      obtain ⟨kvs', hgx'⟩ := hgx'
      simp only [contChildH, hch', hgx']
      exact ih
    | none =>
      simp only [hcc] at he
      obtain ⟨hl, hf, _, hne⟩ := spineH_spec hc hr hn hv (t :: rest)
      obtain ⟨kvs, hk⟩ := spineH_cont (h := h) (v := v) (t :: rest) (by simp)
      have hlook := spineH_lookup hc hr hn hv (t :: rest) h' (by simp)
      generalize spineH h (t :: rest) v = res at hl hf hne he hk hlook
      obtain ⟨h1, r⟩ := res
      simp only at hl hf hne he hk hlook
      have hrf := hne (by simp)
      have hpos : 0 < h.size := get?_lt hn
      have hsz := size_le_of_le hl
      obtain ⟨rank1, hr1⟩ := rankedBy_extend hl hc hr hf hv hpos
      have hn1 := nilOk_mono hn hl
      obtain ⟨w, spec⟩ := addH_spec hr1 hn1 (mapsOk_extend hl hm hf) he
      have hwlt : w < h.size := reach_lt hc (reach_of_le hl hc spec.reach_w hclt) hclt
      have hch' := addH_child hr1 hn1 he
      have hfr : ∀ b, h.size ≤ b → b < h1.size → h'.get? b = h1.get? b := fun b hb1 hb2 =>
        spec.frame b hb2 (Nat.ne_of_gt (Nat.lt_of_lt_of_le hwlt hb1))
      have hgr : h'.get? r = some (.cont kvs) := by rw [hfr r hrf.1 hrf.2]; exact hk
      simp only [contChildH, hch', hgr]
      exact hlook hfr

/-! ## 6. which cells a call can touch: only cells reachable from the handle it is made on -/

theorem ShrinkSpec.reach {h h' : Heap} (hs : ShrinkSpec h h') {a b : Addr} (hab : Reach h' a b) : Reach h a b := by
  induction hab with
  | refl _ => exact .refl _
  | step hg hk _ ih =>
    obtain ⟨cell, hg0, hsub, _⟩ := hs.cells _ _ hg
    exact .step hg0 (hsub _ hk) ih

theorem remove_frame {h h' : Heap} {c : Addr} {name : String} (he : Ytk.Heap.remove h c name = some h')
    {a : Addr} (hne : a ≠ c) : h'.get? a = h.get? a := by
  unfold Ytk.Heap.remove at he
  split at he
  · simp only [Option.some.injEq] at he; subst he; exact get?_write_ne h _ hne
  · cases he

theorem removeAtSegsH_frame {h : Heap} : ∀ (segs : List String) (c : Addr) (h' : Heap),
    removeAtSegsH h c segs = some h' → ∀ a, ¬ Reach h c a → h'.get? a = h.get? a
  | [], _, _, he, _, _ => by
    simp only [removeAtSegsH, Option.some.injEq] at he; subst he; rfl
  | [s], c, h', he, a, hna => by
    simp only [removeAtSegsH] at he
    exact remove_frame he (fun e => hna (e ▸ .refl _))
  | s :: t :: rest, c, h', he, a, hna => by
    simp only [removeAtSegsH] at he
    cases hcc : contChildH h c s with
    | some x =>
      simp only [hcc] at he
      exact removeAtSegsH_frame (t :: rest) x h' he a
        (fun hxa => hna ((childH_reach (contChildH_some hcc).1).trans hxa))
    | none => simp only [hcc, Option.some.injEq] at he; subst he; rfl

theorem compactKvsH_frame {g : Heap → Addr → Option Heap} {h0 : Heap} {c : Addr}
    (hgs : ∀ h a h', g h a = some h' → ShrinkSpec h h')
    (hgf : ∀ h x h', g h x = some h' → ∀ a, ¬ Reach h x a → h'.get? a = h.get? a) :
    ∀ (kvs : List (String × Addr)) (h : Heap) (h' : Heap), ShrinkSpec h0 h → (∀ p ∈ kvs, Reach h0 c p.2) →
      compactKvsH g h c kvs = some h' → ∀ a, ¬ Reach h0 c a → h'.get? a = h.get? a
  | [], h, h', _, _, he, _, _ => by
    simp only [compactKvsH, Option.some.injEq] at he; subst he; rfl
  | (k, v) :: rest, h, h', hs0, hkv, he, a, hna => by
    simp only [compactKvsH] at he
    have hrest : ∀ p ∈ rest, Reach h0 c p.2 := fun p hp => hkv p (List.mem_cons_of_mem _ hp)
    have hcv : Reach h0 c v := hkv (k, v) (List.mem_cons_self ..)
    split at he
    · cases hgv : g h v with
      | none => simp [hgv] at he
      | some h1 =>
        simp only [hgv] at he
        have s1 := hgs h v h1 hgv
        have f1 : h1.get? a = h.get? a :=
          hgf h v h1 hgv a (fun hva => hna (hcv.trans (hs0.reach hva)))
        split at he
        · cases hrm : Ytk.Heap.remove h1 c k with
          | none => simp [hrm] at he
          | some h2 =>
            simp only [hrm] at he
            have f2 : h2.get? a = h1.get? a := remove_frame hrm (fun e => hna (e ▸ .refl _))
            rw [compactKvsH_frame hgs hgf rest h2 h' (hs0.trans (s1.trans (remove_spec hrm))) hrest he a hna, f2, f1]
        · rw [compactKvsH_frame hgs hgf rest h1 h' (hs0.trans s1) hrest he a hna, f1]
    · exact compactKvsH_frame hgs hgf rest h h' hs0 hrest he a hna

theorem compactF_frame : ∀ (f : Nat) (h : Heap) (c : Addr) (h' : Heap), compactF f h c = some h' →
    ∀ a, ¬ Reach h c a → h'.get? a = h.get? a
  | 0, _, _, _, he, _, _ => by simp [compactF] at he
  | f + 1, h, c, h', he, a, hna => by
    simp only [compactF] at he
    split at he
    · rename_i kvs hg
      exact compactKvsH_frame (compactF_spec f) (compactF_frame f) kvs h h' (.refl h)
        (fun p hp => .step hg (by simp only [Cell.kids, List.mem_map]; exact ⟨p, hp, rfl⟩) (.refl _)) he a hna
    · cases he

/-- everything reachable from the handle after an attaching call is: reachable before, or new, or
    below the value node, or the nil leaf (padding) -/
theorem AttachSpec.reach_after {h h' : Heap} {c v w : Addr} (hs : AttachSpec h c v w h') (hc : h.Closed)
    (hn : h.NilOk) (hv : v < h.size) (hclt : c < h.size) {b : Addr} (hb : Reach h' c b) :
    Reach h c b ∨ h.size ≤ b ∨ Reach h v b ∨ b = nilAddr := by
  have hwlt : w < h.size := reach_lt hc hs.reach_w hclt
  have hwnil : w ≠ nilAddr := by
    obtain ⟨cw, _, h1w, _, hleaf, _⟩ := hs.written
    intro e; subst e
    rw [show h.get? nilAddr = some (.leaf Scalar.null) from hn] at h1w
    cases h1w; simp [Cell.isLeaf] at hleaf
  refine Reach.closed_set (fun b => Reach h c b ∨ h.size ≤ b ∨ Reach h v b ∨ b = nilAddr) ?_ hb (Or.inl (.refl _))
  intro a cell ha hg k hk
  -- the written cell: old children, nil, v, new cells
  have hwcase : a = w → Reach h c k ∨ h.size ≤ k ∨ Reach h v k ∨ k = nilAddr := by
    intro e; subst e
    obtain ⟨cw, cw', h1w, h2w, _, _, _, hkids, _⟩ := hs.written
    rw [hg] at h2w; cases h2w
    rcases hkids k hk with hk | hk | hk | hk
    · exact Or.inl (hs.reach_w.trans (.step h1w hk (.refl _)))
    · exact Or.inr (Or.inr (Or.inr hk))
    · exact Or.inr (Or.inr (Or.inl (hk ▸ .refl _)))
    · exact Or.inr (Or.inl hk.1)
  by_cases haw : a = w
  · exact hwcase haw
  by_cases halt : a < h.size
  · rw [hs.frame a halt haw] at hg
    rcases ha with ha | ha | ha | ha
    · exact Or.inl (ha.trans (.step hg hk (.refl _)))
    · exact absurd halt (Nat.not_lt.mpr ha)
    · exact Or.inr (Or.inr (Or.inl (ha.trans (.step hg hk (.refl _)))))
    · subst ha
      rw [show h.get? nilAddr = some (.leaf Scalar.null) from hn] at hg
      cases hg; simp [Cell.kids] at hk
  · rcases (hs.fresh a cell (Nat.le_of_not_lt halt) hg).1 k hk with hk | hk | hk
    · exact Or.inr (Or.inl hk.1)
    · exact Or.inr (Or.inr (Or.inl (hk ▸ .refl _)))
    · exact Or.inr (Or.inr (Or.inr hk))

/-- FRAME for handles: an attaching call made on `c` leaves the abstraction of every root alone that
    shares no container / list with the graph below `c` -/
theorem AttachSpec.abs_frame {h h' : Heap} {c v w : Addr} (hs : AttachSpec h c v w h') (hc : h.Closed)
    {root : Addr} (hrlt : root < h.size) (hap : Apart h root c) (f : Nat) : absH f h' root = absH f h root := by
  apply absH_agree
  intro b hb
  have hblt := reach_lt hc hb hrlt
  apply hs.frame b hblt
  intro e; subst e
  obtain ⟨cw, _, h1w, _, hleaf, _⟩ := hs.written
  exact hap b hb hs.reach_w ⟨cw, h1w, hleaf⟩

/-! ## 7. invariants of every builder call -/

/-- the well-formedness of a document heap -/
structure Inv (h : Heap) : Prop where
  closed : h.Closed
  acyclic : h.Acyclic
  mapsOk : h.MapsOk
  nilOk : h.NilOk

/-- the call is made on an existing cell, and the node it attaches (if any) exists and reaches no
    container / list of the graph below the handle — in particular not the cell it is stored in -/
def HOp.Ok (h : Heap) (op : HOp) : Prop :=
  op.target < h.size ∧
    ∀ v, op.value = some v → v < h.size ∧ ∀ w, Reach h op.target w → Composite h w → ¬ Reach h v w

theorem reach_of_no_kids {h : Heap} {a b : Addr} {c : Cell} (hg : h.get? a = some c) (hk : c.kids = [])
    (hr : Reach h a b) : b = a := by
  cases hr with
  | refl _ => rfl
  | step hg' hk' _ =>
    rw [hg] at hg'
    cases Option.some.inj hg'
    rw [hk] at hk'; cases hk'

theorem closed_alloc {h : Heap} (hc : h.Closed) {c0 : Cell} (hk : ∀ k ∈ c0.kids, k < h.size) :
    (h.alloc c0).1.Closed := by
  intro a cell hg k hkm
  rw [size_alloc]
  rcases get?_alloc hg with ⟨_, hg'⟩ | ⟨_, rfl⟩
  · exact Nat.lt_succ_of_lt (hc a cell hg' k hkm)
  · exact Nat.lt_succ_of_lt (hk k hkm)

theorem AttachSpec.inv {h h' : Heap} {c v w : Addr} (hs : AttachSpec h c v w h') (hi : Inv h) (hv : v < h.size)
    (hvw : ¬ Reach h v w) : Inv h' :=
  ⟨hs.closed hi.closed hv (get?_lt hi.nilOk), hs.acyclic hi.closed hi.acyclic hi.nilOk hv hvw,
    hs.mapsOk hi.mapsOk, hs.nilOk hi.nilOk⟩

theorem ShrinkSpec.inv {h h' : Heap} (hs : ShrinkSpec h h') (hi : Inv h) : Inv h' :=
  ⟨hs.closed hi.closed, hs.acyclic hi.acyclic, hs.mapsOk hi.mapsOk, hs.nilOk hi.nilOk⟩

theorem AttachSpec.composite_w {h h' : Heap} {c v w : Addr} (hs : AttachSpec h c v w h') : Composite h w := by
  obtain ⟨cw, _, h1w, _, hleaf, _⟩ := hs.written
  exact ⟨cw, h1w, hleaf⟩

/-- a new empty cell attached below `c` -/
theorem attach_new_inv {h h2 : Heap} {c w : Addr} {c0 : Cell} (hk : c0.kids = [])
    (hs0 : ∀ kvs, c0 = .cont kvs → AMap.Sorted kvs)
    (hs : AttachSpec (h.alloc c0).1 c h.size w h2) (hi : Inv h) (hclt : c < h.size) : Inv h2 := by
  have hl := le_alloc h c0
  obtain ⟨rank, hr⟩ := hi.acyclic
  have hi1 : Inv (h.alloc c0).1 :=
    ⟨closed_alloc hi.closed (by rw [hk]; intro k hkm; cases hkm), ⟨rank, rankedBy_alloc_empty hr hk⟩,
      mapsOk_alloc hi.mapsOk hs0, nilOk_mono hi.nilOk hl⟩
  refine hs.inv hi1 (by rw [size_alloc]; exact Nat.lt_succ_self _) ?_
  intro hbw
  have hwb : w = h.size := reach_of_no_kids (get?_alloc_new h c0) hk hbw
  have hwlt : w < h.size := reach_lt hi.closed (reach_of_le hl hi.closed hs.reach_w hclt) hclt
  exact Nat.lt_irrefl _ (hwb ▸ hwlt)

theorem hstep_inv {h h' : Heap} {op : HOp} {ret : Option Addr} (hi : Inv h) (hok : op.Ok h)
    (he : hstep h op = .ok (h', ret)) : Inv h' := by
  obtain ⟨rank, hr⟩ := hi.acyclic
  obtain ⟨htl, hval⟩ := hok
  -- unwrap `outcomeOfOption ((x).map f) = .ok (h', ret)`
  have unwrap : ∀ {α : Type} (o : Option α) (f : α → Heap × Option Addr),
      outcomeOfOption (o.map f) = .ok (h', ret) → ∃ x, o = some x ∧ f x = (h', ret) := by
    intro α o f hx
    cases o with
    | none => simp [outcomeOfOption] at hx
    | some x => exact ⟨x, rfl, by simpa [outcomeOfOption] using hx⟩
  cases op with
  | addValue c name v =>
    obtain ⟨x, hx, hf⟩ := unwrap _ _ he
    cases hf
    obtain ⟨hv, hnr⟩ := hval v rfl
    obtain ⟨w, spec⟩ := addH_spec hr hi.nilOk hi.mapsOk hx
    exact spec.inv hi hv (hnr w spec.reach_w spec.composite_w)
  | addValueAt c path v =>
    obtain ⟨x, hx, hf⟩ := unwrap _ _ he
    cases hf
    obtain ⟨hv, hnr⟩ := hval v rfl
    obtain ⟨w, spec⟩ := addAtSegsH_spec hi.closed hr hi.nilOk hi.mapsOk hv _ c _ (Ytk.splitPath_ne_nil path) htl hx
    exact spec.inv hi hv (hnr w spec.reach_w spec.composite_w)
  | addContainer c name =>
    obtain ⟨x, hx, hf⟩ := unwrap _ _ he
    obtain ⟨h2, b⟩ := x
    cases hf
    obtain ⟨rfl, w, spec⟩ := addContainerH_spec hr hi.nilOk hi.mapsOk hx
    exact attach_new_inv rfl (fun kvs hk => by cases hk; exact .nil) spec hi htl
  | addList c name =>
    obtain ⟨x, hx, hf⟩ := unwrap _ _ he
    obtain ⟨h2, b⟩ := x
    cases hf
    obtain ⟨rfl, w, spec⟩ := addListH_spec hr hi.nilOk hi.mapsOk hx
    exact attach_new_inv rfl (fun kvs hk => by cases hk) spec hi htl
  | remove c name =>
    obtain ⟨x, hx, hf⟩ := unwrap _ _ he
    cases hf
    exact (remove_spec hx).inv hi
  | removeAt c path =>
    obtain ⟨x, hx, hf⟩ := unwrap _ _ he
    cases hf
    unfold removeAtH at hx
    split at hx
    · exact (removeAtSegsH_spec _ c _ hx).inv hi
    · cases hx
  | child c name =>
    simp only [hstep, Outcome.ok.injEq, Prod.mk.injEq] at he
    obtain ⟨rfl, _⟩ := he
    exact hi
  | lookup c path =>
    simp only [hstep, Outcome.ok.injEq, Prod.mk.injEq] at he
    obtain ⟨rfl, _⟩ := he
    exact hi
  | listSet l idx v =>
    obtain ⟨x, hx, hf⟩ := unwrap _ _ he
    cases hf
    obtain ⟨hv, hnr⟩ := hval v rfl
    have spec := listSet_spec hx
    exact spec.inv hi hv (hnr l spec.reach_w spec.composite_w)
  | listMustSet l idx v =>
    simp only [hstep] at he
    cases hms : listMustSetH h l idx v with
    | ok x =>
      rw [hms] at he
      simp only [Outcome.map, Outcome.ok.injEq, Prod.mk.injEq] at he
      obtain ⟨rfl, _⟩ := he
      obtain ⟨hv, hnr⟩ := hval v rfl
      have spec := listMustSetH_spec hms
      exact spec.inv hi hv (hnr l spec.reach_w spec.composite_w)
    | err => rw [hms] at he; simp [Outcome.map] at he
    | panic => rw [hms] at he; simp [Outcome.map] at he
  | listAppend l v =>
    obtain ⟨x, hx, hf⟩ := unwrap _ _ he
    cases hf
    obtain ⟨hv, hnr⟩ := hval v rfl
    have spec := listAppend_spec hx
    exact spec.inv hi hv (hnr l spec.reach_w spec.composite_w)
  | listClear l =>
    obtain ⟨x, hx, hf⟩ := unwrap _ _ he
    cases hf
    exact (listClear_spec hx).inv hi
  | compact c =>
    obtain ⟨x, hx, hf⟩ := unwrap _ _ he
    cases hf
    exact (compactF_spec _ _ c _ hx).inv hi

/-- a history in which every call is `Ok` in the heap it is applied to -/
inductive SafeRun : Heap → List HOp → Heap → Prop
  | nil (h : Heap) : SafeRun h [] h
  | cons {h h1 h' : Heap} {op : HOp} {ops : List HOp} {ret : Option Addr} :
      op.Ok h → hstep h op = .ok (h1, ret) → SafeRun h1 ops h' → SafeRun h (op :: ops) h'

theorem SafeRun.inv {h h' : Heap} {ops : List HOp} (hrun : SafeRun h ops h') (hi : Inv h) : Inv h' := by
  induction hrun with
  | nil _ => exact hi
  | cons hok he _ ih => exact ih (hstep_inv hi hok he)

theorem SafeRun.hrun_ok {h h' : Heap} {ops : List HOp} (hsr : SafeRun h ops h') : hrun h ops = .ok h' := by
  induction hsr with
  | nil _ => rfl
  | cons _ he _ ih => simp only [Ytk.Heap.hrun, he, ih]

/-! ## 8. handles: a call on a handle IS the path-level call from any container above it -/

theorem ancestorH_spec {h : Heap} (v : Addr) : ∀ (segs : List String) (c x : Addr), ancestorH h c segs = some x →
    ∃ last, segs.getLast? = some last ∧ addAtSegsH h c segs v = addH h x last v ∧
      removeAtSegsH h c segs = Ytk.Heap.remove h x last ∧ lookupSegsH h c segs = childH h x last
  | [], _, _, ha => by simp [ancestorH] at ha
  | [s], c, x, ha => by
    simp only [ancestorH, Option.some.injEq] at ha; subst ha
    exact ⟨s, rfl, rfl, rfl, rfl⟩
  | s :: t :: rest, c, x, ha => by
    simp only [ancestorH] at ha
    cases hcc : contChildH h c s with
    | none => simp [hcc] at ha
    | some y =>
      simp only [hcc] at ha
      obtain ⟨last, hl, h1, h2, h3⟩ := ancestorH_spec v (t :: rest) y x ha
      refine ⟨last, by rw [List.getLast?_cons_cons]; exact hl, ?_, ?_, ?_⟩
      · simp only [addAtSegsH, hcc]; exact h1
      · simp only [removeAtSegsH, hcc]; exact h2
      · simp only [lookupSegsH, hcc]; exact h3

theorem ancestorH_reach {h : Heap} : ∀ (segs : List String) (c x : Addr), ancestorH h c segs = some x → Reach h c x
  | [], _, _, ha => by simp [ancestorH] at ha
  | [s], c, x, ha => by
    simp only [ancestorH, Option.some.injEq] at ha; subst ha; exact .refl _
  | s :: t :: rest, c, x, ha => by
    simp only [ancestorH] at ha
    cases hcc : contChildH h c s with
    | none => simp [hcc] at ha
    | some y =>
      simp only [hcc] at ha
      exact (childH_reach (contChildH_some hcc).1).trans (ancestorH_reach (t :: rest) y x ha)

/-! ## 9. frame for handles: calls on a handle that shares no container / list with a root -/

theorem shrink_abs_frame {h h' : Heap} {c root : Addr} (hs : ShrinkSpec h h') (hc : h.Closed)
    (hfr : ∀ a, ¬ Reach h c a → h'.get? a = h.get? a) (hrlt : root < h.size) (hap : Apart h root c) (f : Nat) :
    absH f h' root = absH f h root := by
  apply absH_agree
  intro b hb
  by_cases hcb : Reach h c b
  · obtain ⟨cell, hg⟩ := get?_some_of_lt (reach_lt hc hb hrlt)
    cases cell with
    | leaf s => rw [hs.leaves b s hg, hg]
    | list xs => exact absurd ⟨_, hg, rfl⟩ (hap b hb hcb)
    | cont kvs => exact absurd ⟨_, hg, rfl⟩ (hap b hb hcb)
  · exact hfr b hcb

/-- FRAME for handles, every call: a call made on a handle whose graph shares no container / list
    with the graph of `root` leaves `root`'s abstraction unchanged -/
theorem hstep_abs_frame {h h' : Heap} {op : HOp} {ret : Option Addr} (hi : Inv h) (hok : op.Ok h)
    (he : hstep h op = .ok (h', ret)) {root : Addr} (hrlt : root < h.size) (hap : Apart h root op.target)
    (f : Nat) : absH f h' root = absH f h root := by
  obtain ⟨rank, hr⟩ := hi.acyclic
  obtain ⟨htl, hval⟩ := hok
  have unwrap : ∀ {α : Type} (o : Option α) (g : α → Heap × Option Addr),
      outcomeOfOption (o.map g) = .ok (h', ret) → ∃ x, o = some x ∧ g x = (h', ret) := by
    intro α o g hx
    cases o with
    | none => simp [outcomeOfOption] at hx
    | some x => exact ⟨x, rfl, by simpa [outcomeOfOption] using hx⟩
  cases op with
  | addValue c name v =>
    obtain ⟨x, hx, hf⟩ := unwrap _ _ he
    cases hf
    obtain ⟨w, spec⟩ := addH_spec hr hi.nilOk hi.mapsOk hx
    exact spec.abs_frame hi.closed hrlt hap f
  | addValueAt c path v =>
    obtain ⟨x, hx, hf⟩ := unwrap _ _ he
    cases hf
    obtain ⟨hv, _⟩ := hval v rfl
    obtain ⟨w, spec⟩ := addAtSegsH_spec hi.closed hr hi.nilOk hi.mapsOk hv _ c _ (Ytk.splitPath_ne_nil path) htl hx
    exact spec.abs_frame hi.closed hrlt hap f
  | addContainer c name =>
    obtain ⟨x, hx, hf⟩ := unwrap _ _ he
    obtain ⟨h2, b⟩ := x
    cases hf
    obtain ⟨rfl, w, spec⟩ := addContainerH_spec hr hi.nilOk hi.mapsOk hx
    have hl := le_alloc h (.cont [])
    have hwlt : w < h.size := reach_lt hi.closed (reach_of_le hl hi.closed spec.reach_w htl) htl
    apply absH_agree
    intro b hb
    have hblt := reach_lt hi.closed hb hrlt
    rw [spec.frame b (Nat.lt_of_lt_of_le hblt (size_le_of_le hl)) ?_, get?_eq_of_le hl hblt]
    intro e; subst e
    obtain ⟨cw, h1w, hleaf⟩ := spec.composite_w
    rw [get?_eq_of_le hl hwlt] at h1w
    exact hap b hb (reach_of_le hl hi.closed spec.reach_w htl) ⟨cw, h1w, hleaf⟩
  | addList c name =>
    obtain ⟨x, hx, hf⟩ := unwrap _ _ he
    obtain ⟨h2, b⟩ := x
    cases hf
    obtain ⟨rfl, w, spec⟩ := addListH_spec hr hi.nilOk hi.mapsOk hx
    have hl := le_alloc h (.list [])
    have hwlt : w < h.size := reach_lt hi.closed (reach_of_le hl hi.closed spec.reach_w htl) htl
    apply absH_agree
    intro b hb
    have hblt := reach_lt hi.closed hb hrlt
    rw [spec.frame b (Nat.lt_of_lt_of_le hblt (size_le_of_le hl)) ?_, get?_eq_of_le hl hblt]
    intro e; subst e
    obtain ⟨cw, h1w, hleaf⟩ := spec.composite_w
    rw [get?_eq_of_le hl hwlt] at h1w
    exact hap b hb (reach_of_le hl hi.closed spec.reach_w htl) ⟨cw, h1w, hleaf⟩
  | remove c name =>
    obtain ⟨x, hx, hf⟩ := unwrap _ _ he
    cases hf
    exact shrink_abs_frame (remove_spec hx) hi.closed
      (fun a hna => remove_frame hx (fun e => hna (e ▸ .refl _))) hrlt hap f
  | removeAt c path =>
    obtain ⟨x, hx, hf⟩ := unwrap _ _ he
    cases hf
    unfold removeAtH at hx
    split at hx
    · exact shrink_abs_frame (removeAtSegsH_spec _ c _ hx) hi.closed (removeAtSegsH_frame _ c _ hx) hrlt hap f
    · cases hx
  | child c name =>
    simp only [hstep, Outcome.ok.injEq, Prod.mk.injEq] at he
    obtain ⟨rfl, _⟩ := he; rfl
  | lookup c path =>
    simp only [hstep, Outcome.ok.injEq, Prod.mk.injEq] at he
    obtain ⟨rfl, _⟩ := he; rfl
  | listSet l idx v =>
    obtain ⟨x, hx, hf⟩ := unwrap _ _ he
    cases hf
    exact (listSet_spec hx).abs_frame hi.closed hrlt hap f
  | listMustSet l idx v =>
    simp only [hstep] at he
    cases hms : listMustSetH h l idx v with
    | ok x =>
      rw [hms] at he
      simp only [Outcome.map, Outcome.ok.injEq, Prod.mk.injEq] at he
      obtain ⟨rfl, _⟩ := he
      exact (listMustSetH_spec hms).abs_frame hi.closed hrlt hap f
    | err => rw [hms] at he; simp [Outcome.map] at he
    | panic => rw [hms] at he; simp [Outcome.map] at he
  | listAppend l v =>
    obtain ⟨x, hx, hf⟩ := unwrap _ _ he
    cases hf
    exact (listAppend_spec hx).abs_frame hi.closed hrlt hap f
  | listClear l =>
    obtain ⟨x, hx, hf⟩ := unwrap _ _ he
    cases hf
    refine shrink_abs_frame (listClear_spec hx) hi.closed ?_ hrlt hap f
    intro a hna
    unfold listClear at hx
    split at hx
    · simp only [Option.some.injEq] at hx; subst hx
      exact get?_write_ne h _ (fun e => hna (e ▸ .refl _))
    · cases hx
  | compact c =>
    obtain ⟨x, hx, hf⟩ := unwrap _ _ he
    cases hf
    exact shrink_abs_frame (compactF_spec _ _ c _ hx) hi.closed (compactF_frame _ _ c _ hx) hrlt hap f

/-! ## 10. overwriting / removing a member detaches the node that was stored there -/

theorem kids_indices {kvs : AMap Addr} {k1 k2 : String} {a1 a2 : Addr} (h1 : (k1, a1) ∈ kvs) (h2 : (k2, a2) ∈ kvs)
    (hne : k1 ≠ k2) :
    ∃ (i j : Nat), i ≠ j ∧ (Cell.cont kvs).kids[i]? = some a1 ∧ (Cell.cont kvs).kids[j]? = some a2 := by
  obtain ⟨i, hi⟩ := List.getElem?_of_mem h1
  obtain ⟨j, hj⟩ := List.getElem?_of_mem h2
  refine ⟨i, j, ?_, by simp [Cell.kids, List.getElem?_map, hi], by simp [Cell.kids, List.getElem?_map, hj]⟩
  intro e; subst e
  rw [hi] at hj
  simp only [Option.some.injEq, Prod.mk.injEq] at hj
  exact hne hj.1

/-- the container `c` gets a new children map in which the member `name` (which held `x`) is gone
    or replaced: afterwards `c` and `x` share no container / list -/
theorem write_detaches {h : Heap} {rank : Addr → Nat} (hr : h.RankedBy rank) {c x : Addr} (hs : SibSep h c)
    {kvs kvs' : AMap Addr} (hg : h.get? c = some (.cont kvs)) {name : String} (hx : AMap.get? kvs name = some x)
    (hk : ∀ p ∈ kvs', (p ∈ kvs ∧ p.1 ≠ name) ∨ (Apart h p.2 x ∧ ¬ Reach h p.2 c)) :
    Apart (h.write c (.cont kvs')) c x := by
  have hxk : x ∈ (Cell.cont kvs).kids := mem_kids_of_get? hx
  have hxc : ¬ Reach h x c := fun hr' => not_reach_parent hr hg hxk hr' rfl
  intro b hcb hxb hcomp
  have hxb' : Reach h x b := (reach_write_frame _ hxc).mp hxb
  have hbc : b ≠ c := fun e => hxc (e ▸ hxb')
  have hcomp' : Composite h b := by
    obtain ⟨cell, hgb, hl⟩ := hcomp
    rw [get?_write_ne h _ hbc] at hgb
    exact ⟨cell, hgb, hl⟩
  cases hcb with
  | refl _ => exact hbc rfl
  | @step _ k _ cell hgc hkm hkb =>
    rw [get?_write_self h _ (get?_lt hg)] at hgc
    cases Option.some.inj hgc
    simp only [Cell.kids, List.mem_map] at hkm
    obtain ⟨p, hp, rfl⟩ := hkm
    rcases hk p hp with ⟨hpk, hpn⟩ | ⟨hvx, hvc⟩
    · have hpc : ¬ Reach h p.2 c := fun hr' =>
        not_reach_parent hr hg (by simp only [Cell.kids, List.mem_map]; exact ⟨p, hpk, rfl⟩) hr' rfl
      have hkb' : Reach h p.2 b := (reach_write_frame _ hpc).mp hkb
      obtain ⟨i, j, hij, hi, hj⟩ := kids_indices (k1 := p.1) (a1 := p.2) hpk (AMap.mem_of_get? hx) hpn
      exact hs c _ (.refl _) hg i j p.2 x hi hj hij b hkb' hxb' hcomp'
    · exact hvx b ((reach_write_frame _ hvc).mp hkb) hxb' hcomp'

theorem mem_erase_ne {kvs : AMap Addr} (hs : AMap.Sorted kvs) {name : String} {p : String × Addr}
    (hp : p ∈ AMap.erase kvs name) : p ∈ kvs ∧ p.1 ≠ name := by
  refine ⟨Ytk.AMap.mem_erase hp, ?_⟩
  intro e
  have := AMap.get?_of_mem (AMap.sorted_erase hs name) (x := p.1) (a := p.2) hp
  rw [e, AMap.get?_erase_self hs] at this
  cases this

theorem mem_insert_ne {kvs : AMap Addr} (hs : AMap.Sorted kvs) {name : String} {v : Addr} {p : String × Addr}
    (hp : p ∈ AMap.insert kvs name v) : (p ∈ kvs ∧ p.1 ≠ name) ∨ p.2 = v := by
  by_cases e : p.1 = name
  · right
    have := AMap.get?_of_mem (AMap.sorted_insert hs name v) (x := p.1) (a := p.2) hp
    rw [e, AMap.get?_insert_self] at this
    exact (Option.some.inj this).symm
  · rcases Ytk.AMap.mem_insert hp with rfl | hp
    · exact absurd rfl e
    · exact Or.inl ⟨hp, e⟩

theorem childH_plain {h : Heap} {c : Addr} {kvs : AMap Addr} (hg : h.get? c = some (.cont kvs)) {name : String}
    (hplain : hasIdxSuffix name = false) : childH h c name = AMap.get? kvs name := by
  simp only [childH, hg, childKvs, Ytk.parseSeg_of_noSuffix hplain]

/-- `Remove(name)` detaches the node that was stored under the (plain) name -/
theorem remove_detaches {h h' : Heap} {rank : Addr → Nat} (hr : h.RankedBy rank) (hm : h.MapsOk) {c x : Addr}
    (hs : SibSep h c) {name : String} (hplain : hasIdxSuffix name = false) (hx : childH h c name = some x)
    (he : Ytk.Heap.remove h c name = some h') : Apart h' c x := by
  unfold Ytk.Heap.remove at he
  split at he
  · rename_i kvs hg
    simp only [Option.some.injEq] at he; subst he
    rw [childH_plain hg hplain] at hx
    exact write_detaches hr hs hg hx (fun p hp => Or.inl (mem_erase_ne (hm c kvs hg) hp))
  · cases he

/-- `AddValue(name, v)` (hence `AddContainer` / `AddList` too) detaches the node that was stored under
    the (plain) name, provided the new node shares no container / list with it -/
theorem addH_detaches {h h' : Heap} {rank : Addr → Nat} (hr : h.RankedBy rank) (hm : h.MapsOk) {c x v : Addr}
    (hs : SibSep h c) {name : String} (hplain : hasIdxSuffix name = false) (hx : childH h c name = some x)
    (hvx : Apart h v x) (hvc : ¬ Reach h v c) (he : addH h c name v = some h') : Apart h' c x := by
  unfold addH at he
  split at he
  · rename_i kvs hg
    simp only [Ytk.parseSeg_of_noSuffix hplain, Option.some.injEq] at he; subst he
    rw [childH_plain hg hplain] at hx
    refine write_detaches hr hs hg hx (fun p hp => ?_)
    rcases mem_insert_ne (hm c kvs hg) hp with hp | hp
    · exact Or.inl hp
    · exact Or.inr (by rw [hp]; exact ⟨hvx, hvc⟩)
  · cases he

/-! ## 11. AddContainer / AddList: always a new, empty node -/

theorem addNew_fresh {h h2 : Heap} {rank : Addr → Nat} (hc : h.Closed) (hr : h.RankedBy rank) (hn : h.NilOk)
    {c w : Addr} {name : String} {c0 : Cell} (hk : c0.kids = []) (hclt : c < h.size)
    (he : addH (h.alloc c0).1 c name h.size = some h2) (spec : AttachSpec (h.alloc c0).1 c h.size w h2) :
    h2.get? h.size = some c0 ∧ childH h2 c name = some h.size ∧ ∀ a, a < h.size → a ≠ w → h2.get? a = h.get? a := by
  have hl := le_alloc h c0
  have hwlt : w < h.size := reach_lt hc (reach_of_le hl hc spec.reach_w hclt) hclt
  refine ⟨?_, addH_child (rankedBy_alloc_empty hr hk) (nilOk_mono hn hl) he, ?_⟩
  · rw [spec.frame h.size (by rw [size_alloc]; exact Nat.lt_succ_self _) (Nat.ne_of_gt hwlt)]
    exact get?_alloc_new h c0
  · intro a ha hne
    rw [spec.frame a (Nat.lt_of_lt_of_le ha (size_le_of_le hl)) hne, get?_eq_of_le hl ha]

/-- `AddContainer(name)`: the returned node is NEW (not an address of the old heap — also when a
    container was stored under the name before), empty, and it is what `Child(name)` returns;
    one existing cell is written -/
theorem addContainerH_fresh {h h2 : Heap} {rank : Addr → Nat} (hc : h.Closed) (hr : h.RankedBy rank) (hn : h.NilOk)
    (hm : h.MapsOk) {c b : Addr} {name : String} (hclt : c < h.size) (he : addContainerH h c name = some (h2, b)) :
    b = h.size ∧ h2.get? b = some (.cont []) ∧ childH h2 c name = some b ∧
      ∃ w, Reach h c w ∧ ∀ a, a < h.size → a ≠ w → h2.get? a = h.get? a := by
  obtain ⟨hb, w, spec⟩ := addContainerH_spec hr hn hm he
  subst hb
  have he' : addH (h.alloc (.cont [])).1 c name h.size = some h2 := by
    unfold addContainerH at he
    simp only at he
    split at he
    · rename_i h2' he'
      simp only [Option.some.injEq, Prod.mk.injEq] at he
      rw [← he.1]; exact he'
    · cases he
  obtain ⟨h1, h2', h3⟩ := addNew_fresh hc hr hn rfl hclt he' spec
  exact ⟨rfl, h1, h2', w, reach_of_le (le_alloc _ _) hc spec.reach_w hclt, h3⟩

theorem addListH_fresh {h h2 : Heap} {rank : Addr → Nat} (hc : h.Closed) (hr : h.RankedBy rank) (hn : h.NilOk)
    (hm : h.MapsOk) {c b : Addr} {name : String} (hclt : c < h.size) (he : addListH h c name = some (h2, b)) :
    b = h.size ∧ h2.get? b = some (.list []) ∧ childH h2 c name = some b ∧
      ∃ w, Reach h c w ∧ ∀ a, a < h.size → a ≠ w → h2.get? a = h.get? a := by
  obtain ⟨hb, w, spec⟩ := addListH_spec hr hn hm he
  subst hb
  have he' : addH (h.alloc (.list [])).1 c name h.size = some h2 := by
    unfold addListH at he
    simp only at he
    split at he
    · rename_i h2' he'
      simp only [Option.some.injEq, Prod.mk.injEq] at he
      rw [← he.1]; exact he'
    · cases he
  obtain ⟨h1, h2', h3⟩ := addNew_fresh hc hr hn rfl hclt he' spec
  exact ⟨rfl, h1, h2', w, reach_of_le (le_alloc _ _) hc spec.reach_w hclt, h3⟩

/-! ## 12. FRAME at pointer level: a write at a diverging path does not move a handle -/

theorem childH_base {h : Heap} {c y : Addr} {kvs : AMap Addr} (hg : h.get? c = some (.cont kvs)) {p : String}
    (hch : childH h c p = some y) : ∃ kp, AMap.get? kvs (segBase p) = some kp ∧ Reach h kp y := by
  simp only [childH, hg, childKvs] at hch
  cases hp : parseSeg p with
  | mk b is =>
  rw [segBase_eq hp]
  simp only [hp] at hch
  cases is with
  | nil =>
    have hb : b = p := Ytk.parseSeg_nil_base hp
    subst hb
    exact ⟨y, hch, .refl _⟩
  | cons i is' =>
    simp only at hch
    cases hb : AMap.get? kvs b with
    | none => rw [hb] at hch; simp [walkIdxH] at hch
    | some a => rw [hb] at hch; exact ⟨a, rfl, walkIdxH_reach _ a y hch⟩

theorem walkIdxH_congr {h g : Heap} : ∀ (is : List Nat) (a : Addr), (∀ b, Reach h a b → g.get? b = h.get? b) →
    walkIdxH g (some a) is = walkIdxH h (some a) is
  | [], _, _ => rfl
  | i :: is, a, hag => by
    simp only [walkIdxH]
    rw [hag a (.refl _)]
    cases hg : h.get? a with
    | none => rfl
    | some cell =>
      cases cell with
      | leaf _ => rfl
      | cont _ => rfl
      | list xs =>
        simp only
        cases hx : xs[i]? with
        | none => cases is <;> rfl
        | some k =>
          exact walkIdxH_congr is k (fun b hb =>
            hag b (.step hg (by simpa [Cell.kids] using List.mem_of_getElem? hx) hb))

theorem childH_congr {h g : Heap} {y : Addr} (hag : ∀ b, Reach h y b → g.get? b = h.get? b) (name : String) :
    childH g y name = childH h y name := by
  simp only [childH]
  rw [hag y (.refl _)]
  cases hg : h.get? y with
  | none => rfl
  | some cell =>
    cases cell with
    | leaf _ => rfl
    | list _ => rfl
    | cont kvs =>
      simp only [childKvs]
      cases hp : parseSeg name with
      | mk b is =>
      cases is with
      | nil => rfl
      | cons i is' =>
        simp only
        cases hb : AMap.get? kvs b with
        | none => simp [walkIdxH]
        | some a =>
          exact walkIdxH_congr _ a (fun b' hb' => hag b' (.step hg (mem_kids_of_get? hb) hb'))

theorem contChildH_congr {h g : Heap} {y : Addr} (hag : ∀ b, Reach h y b → g.get? b = h.get? b) (name : String) :
    contChildH g y name = contChildH h y name := by
  simp only [contChildH, childH_congr hag name]
  cases hch : childH h y name with
  | none => rfl
  | some x => simp only [hag x (childH_reach hch)]

theorem lookupSegsH_congr {h g : Heap} : ∀ (segs : List String) (y : Addr),
    (∀ b, Reach h y b → g.get? b = h.get? b) → lookupSegsH g y segs = lookupSegsH h y segs
  | [], _, _ => rfl
  | [s], y, hag => by simp only [lookupSegsH]; exact childH_congr hag s
  | s :: t :: rest, y, hag => by
    simp only [lookupSegsH, contChildH_congr hag s]
    cases hcc : contChildH h y s with
    | none => rfl
    | some x =>
      exact lookupSegsH_congr (t :: rest) x (fun b hb =>
        hag b ((childH_reach (contChildH_some hcc).1).trans hb))

/-- `AddValueAt` through the first component `p`: the written cell is `c` or lies below the member
    `segBase p`, and no other member of `c` changes -/
theorem addAtSegsH_spec2 {h : Heap} {rank : Addr → Nat} (hc : h.Closed) (hr : h.RankedBy rank) (hn : h.NilOk)
    (hm : h.MapsOk) {v : Addr} (hv : v < h.size) (p : String) (rest : List String) (c : Addr) (h' : Heap)
    (hclt : c < h.size) (he : addAtSegsH h c (p :: rest) v = some h') :
    ∃ w, AttachSpec h c v w h' ∧ KeySpec h c w (segBase p) h' := by
  cases rest with
  | nil =>
    simp only [addAtSegsH] at he
    exact addH_spec2 hr hn hm he
  | cons t rest' =>
    have he0 := he
    simp only [addAtSegsH] at he
    cases hcc : contChildH h c p with
    | some y =>
      simp only [hcc] at he
      obtain ⟨hch, kvsy, hgy⟩ := contChildH_some hcc
      obtain ⟨w, spec⟩ := addAtSegsH_spec hc hr hn hm hv (t :: rest') y h' (by simp) (get?_lt hgy) he
      have hcy := childH_reach hch
      refine ⟨w, { spec with reach_w := hcy.trans spec.reach_w }, ?_⟩
      intro kvs hg
      obtain ⟨kp, hkp, hky⟩ := childH_base hg hch
      have hwc : w ≠ c := not_reach_parent hr hg (mem_kids_of_get? hkp) (hky.trans spec.reach_w)
      exact ⟨Or.inr ⟨kp, hkp, hky.trans spec.reach_w⟩, kvs, by rw [spec.frame c hclt (Ne.symm hwc)]; exact hg,
        fun _ _ => rfl⟩
    | none =>
      simp only [hcc] at he
      obtain ⟨hl, hf, _, hne⟩ := spineH_spec hc hr hn hv (t :: rest')
      generalize spineH h (t :: rest') v = res at hl hf hne he
      obtain ⟨h1, r⟩ := res
      simp only at hl hf hne he
      have hrf := hne (by simp)
      have hpos : 0 < h.size := get?_lt hn
      obtain ⟨rank1, hr1⟩ := rankedBy_extend hl hc hr hf hv hpos
      obtain ⟨w, spec, key⟩ := addH_spec2 hr1 (nilOk_mono hn hl) (mapsOk_extend hl hm hf) he
      refine ⟨w, spec.of_spine hc hl hf hrf hclt, ?_⟩
      intro kvs hg
      obtain ⟨k1, k2⟩ := key kvs (get?_of_le hl hg)
      refine ⟨?_, k2⟩
      rcases k1 with k1 | ⟨kp, hkp, hkw⟩
      · exact Or.inl k1
      · exact Or.inr ⟨kp, hkp, reach_of_le hl hc hkw (hc c _ hg kp (mem_kids_of_get? hkp))⟩

/-- a call that goes through the member `segBase p` of `c` does not disturb what `Child(q)` finds, nor
    anything below it, for a component `q` with another base key (tree-shaped document) -/
theorem frame_other_member {h h' : Heap} {rank : Addr → Nat} (hc : h.Closed) (hr : h.RankedBy rank)
    {c w y0 : Addr} (hs : SibSep h c) {kvs : AMap Addr} (hg : h.get? c = some (.cont kvs)) {p q : String}
    (hfr : ∀ a, a < h.size → a ≠ w → h'.get? a = h.get? a) (hcw : Composite h w)
    (key : KeySpec h c w (segBase p) h') (hne : segBase p ≠ segBase q)
    (hch : childH h c q = some y0) :
    childH h' c q = some y0 ∧ ∀ b, Reach h y0 b → h'.get? b = h.get? b := by
  obtain ⟨kq, hkq, hry⟩ := childH_base hg hch
  obtain ⟨hwhere, kvs', hg', hkeys⟩ := key kvs hg
  have hkqlt : kq < h.size := hc c _ hg kq (mem_kids_of_get? hkq)
  have U : ∀ b, Reach h kq b → h'.get? b = h.get? b := by
    intro b hb
    apply hfr b (reach_lt hc hb hkqlt)
    intro e; subst e
    rcases hwhere with hwc | ⟨kp, hkp, hkw⟩
    · exact not_reach_parent hr hg (mem_kids_of_get? hkq) hb hwc
    · obtain ⟨i, j, hij, hi, hj⟩ := kids_indices (AMap.mem_of_get? hkq) (AMap.mem_of_get? hkp) (Ne.symm hne)
      exact hs c _ (.refl _) hg i j kq kp hi hj hij b hb hkw hcw
  refine ⟨?_, fun b hb => U b (hry.trans hb)⟩
  have hch0 := hch
  simp only [childH, hg, hg', childKvs] at hch ⊢
  cases hp : parseSeg q with
  | mk bq is =>
  have hbq : segBase q = bq := segBase_eq hp
  simp only [hp] at hch ⊢
  cases is with
  | nil =>
    have hb : bq = q := Ytk.parseSeg_nil_base hp
    simp only at hch ⊢
    rw [hkeys q (by rw [← hb, ← hbq]; exact Ne.symm hne)]
    exact hch
  | cons i is' =>
    simp only at hch ⊢
    rw [hkeys bq (by rw [← hbq]; exact Ne.symm hne)]
    rw [hbq] at hkq
    rw [hkq] at hch ⊢
    rw [walkIdxH_congr _ kq U]
    exact hch

theorem SibSep.of_reach {h : Heap} {c y : Addr} (hs : SibSep h c) (hcy : Reach h c y) : SibSep h y :=
  fun a cell hya hg => hs a cell (hcy.trans hya) hg

/-- FRAME for handles at pointer level: `AddValueAt(ps, v)` on `c` does not move what `Lookup(qs)`
    finds when the two paths diverge by key — a handle obtained at `qs` is still what is stored there -/
theorem addAtSegsH_lookup_frame {h : Heap} {rank : Addr → Nat} (hc : h.Closed) (hr : h.RankedBy rank)
    (hn : h.NilOk) (hm : h.MapsOk) {v : Addr} (hv : v < h.size) :
    ∀ (ps qs : List String), Diverge ps qs → ∀ (c : Addr) (h' : Heap) (x : Addr), SibSep h c → c < h.size →
      addAtSegsH h c ps v = some h' → lookupSegsH h c qs = some x → lookupSegsH h' c qs = some x
  | _, _, @Diverge.head p q ps qs hne, c, h', x, hs, hclt, he, hlk => by
    obtain ⟨w, spec, key⟩ := addAtSegsH_spec2 hc hr hn hm hv p ps c h' hclt he
    -- the read succeeded, so `c` is a container
    have hgc : ∃ kvs, h.get? c = some (.cont kvs) := by
      cases hg : h.get? c with
      | none => cases qs <;> simp [lookupSegsH, contChildH, childH, hg] at hlk
      | some cell =>
        cases cell with
        | cont kvs => exact ⟨kvs, rfl⟩
        | leaf _ => cases qs <;> simp [lookupSegsH, contChildH, childH, hg] at hlk
        | list _ => cases qs <;> simp [lookupSegsH, contChildH, childH, hg] at hlk
    obtain ⟨kvs, hg⟩ := hgc
    cases qs with
    | nil =>
      simp only [lookupSegsH] at hlk ⊢
      exact (frame_other_member hc hr hs hg spec.frame spec.composite_w key hne hlk).1
    | cons t qs' =>
      simp only [lookupSegsH] at hlk ⊢
      cases hcc : contChildH h c q with
      | none => simp [hcc] at hlk
      | some y =>
        simp only [hcc] at hlk
        obtain ⟨hch, kvsy, hgy⟩ := contChildH_some hcc
        obtain ⟨hch', U⟩ := frame_other_member hc hr hs hg spec.frame spec.composite_w key hne hch
        have hgy' : h'.get? y = some (.cont kvsy) := by rw [U y (.refl _)]; exact hgy
        simp only [contChildH, hch', hgy']
        rw [lookupSegsH_congr (t :: qs') y U]
        exact hlk
  | _, _, @Diverge.tail p ps qs hps hqs hd, c, h', x, hs, hclt, he, hlk => by
    obtain ⟨t, ps', rfl⟩ : ∃ t ps', ps = t :: ps' := by
      cases ps with
      | nil => exact absurd rfl hps
      | cons t ps' => exact ⟨t, ps', rfl⟩
    obtain ⟨u, qs', rfl⟩ : ∃ u qs', qs = u :: qs' := by
      cases qs with
      | nil => exact absurd rfl hqs
      | cons u qs' => exact ⟨u, qs', rfl⟩
    simp only [lookupSegsH] at hlk ⊢
    simp only [addAtSegsH] at he
    cases hcc : contChildH h c p with
    | none => simp [hcc] at hlk
    | some y =>
      simp only [hcc] at hlk he
      obtain ⟨hch, kvsy, hgy⟩ := contChildH_some hcc
      have hylt := get?_lt hgy
      have hcy := childH_reach hch
      have ih := addAtSegsH_lookup_frame hc hr hn hm hv (t :: ps') (u :: qs') hd y h' x (hs.of_reach hcy) hylt he hlk
      obtain ⟨w, spec⟩ := addAtSegsH_spec hc hr hn hm hv (t :: ps') y h' (by simp) hylt he
      have hrw := rank_le_of_reach hr spec.reach_w
      have hfr : ∀ b, b < h.size → rank y < rank b → h'.get? b = h.get? b := by
        intro b hb hrk
        exact spec.frame b hb (by intro e; subst e; omega)
      have hch' := childH_frame hr hfr hch
      have hgy' : ∃ kvs', h'.get? y = some (.cont kvs') := by
        by_cases hyw : y = w
        · subst hyw
          obtain ⟨cw, cw', h1w, h2w, _, _, k3, _, _⟩ := spec.written
          rw [hgy] at h1w
          cases h1w
          obtain ⟨kvs', rfl⟩ := isCont_eq_true (c := cw') (by rw [k3]; rfl)
          exact ⟨kvs', h2w⟩
        · exact ⟨kvsy, by rw [spec.frame y hylt hyw]; exact hgy⟩
      obtain ⟨kvs', hgy'⟩ := hgy'
      simp only [contChildH, hch', hgy']
      exact ih

/-! ## 13. tree-shaped documents: a container / list has ONE parent slot; deep detachment -/

theorem reach_inv {h : Heap} {a b : Addr} (hab : Reach h a b) :
    b = a ∨ ∃ (cell : Cell) (i : Nat) (k : Addr), h.get? a = some cell ∧ cell.kids[i]? = some k ∧ Reach h k b := by
  cases hab with
  | refl _ => exact Or.inl rfl
  | @step _ k _ cell hg hk hkb =>
    obtain ⟨i, hi⟩ := List.getElem?_of_mem hk
    exact Or.inr ⟨cell, i, k, hg, hi, hkb⟩

/-- the last edge of a non-trivial path -/
theorem reach_last {h : Heap} {a b : Addr} (hab : Reach h a b) :
    b = a ∨ ∃ p cell, Reach h a p ∧ h.get? p = some cell ∧ b ∈ cell.kids := by
  induction hab with
  | refl _ => exact Or.inl rfl
  | @step x k y cell hg hk hkb ih =>
    right
    rcases ih with rfl | ⟨p, cp, hkp, hgp, hbp⟩
    · exact ⟨x, cell, .refl _, hg, hk⟩
    · exact ⟨p, cp, .step hg hk hkp, hgp, hbp⟩

/-- in a tree-shaped graph a container / list is stored in exactly one slot -/
theorem unique_parent {h : Heap} {rank : Addr → Nat} (hr : h.RankedBy rank) :
    ∀ (n : Nat) (r : Addr), rank r ≤ n → SibSep h r →
      ∀ (a a' k : Addr) (ca ca' : Cell) (i j : Nat), Reach h r a → Reach h r a' → h.get? a = some ca →
        h.get? a' = some ca' → ca.kids[i]? = some k → ca'.kids[j]? = some k → Composite h k → a = a' ∧ i = j := by
  intro n
  induction n with
  | zero =>
    intro r hn hs a a' k ca ca' i j hra hra' hga hga' hi hj hk
    -- rank r = 0: r has no children, so a = a' = r and then no slot exists
    have hnokids : ∀ x, Reach h r x → x = r := by
      intro x hx
      rcases reach_inv hx with e | ⟨cell, i0, k0, hg0, hi0, _⟩
      · exact e
      · have := hr r cell hg0 k0 (List.mem_of_getElem? hi0)
        omega
    have e1 := hnokids a hra
    subst e1
    have := hr a ca hga k (List.mem_of_getElem? hi)
    omega
  | succ n ih =>
    intro r hn hs a a' k ca ca' i j hra hra' hga hga' hi hj hk
    have hka : k ∈ ca.kids := List.mem_of_getElem? hi
    have hka' : k ∈ ca'.kids := List.mem_of_getElem? hj
    rcases reach_inv hra with e | ⟨cr, i0, k0, hgr, hi0, hk0a⟩
    · subst e
      rcases reach_inv hra' with e' | ⟨cr', j0, k0', hgr', hj0, hk0a'⟩
      · subst e'
        rw [hga] at hga'; cases hga'
        refine ⟨rfl, ?_⟩
        apply Classical.byContradiction
        intro hij
        exact hs _ ca (.refl _) hga i j k k hi hj hij k (.refl _) (.refl _) hk
      · exfalso
        rw [hga] at hgr'; cases hgr'
        by_cases hij : i = j0
        · subst hij
          rw [hi] at hj0; cases hj0
          -- k ⇝ a' → k : a cycle
          have h1 := rank_le_of_reach hr hk0a'
          have h2 := hr _ ca' hga' k hka'
          omega
        · exact hs _ ca (.refl _) hga i j0 k k0' hi hj0 hij k (.refl _) (hk0a'.trans (.step hga' hka' (.refl _))) hk
    · rcases reach_inv hra' with e' | ⟨cr', j0, k0', hgr', hj0, hk0a'⟩
      · exfalso
        subst e'
        rw [hga'] at hgr; cases hgr
        by_cases hij : j = i0
        · subst hij
          rw [hj] at hi0; cases hi0
          have h1 := rank_le_of_reach hr hk0a
          have h2 := hr _ ca hga k hka
          omega
        · exact hs _ ca' (.refl _) hga' j i0 k k0 hj hi0 hij k (.refl _) (hk0a.trans (.step hga hka (.refl _))) hk
      · rw [hgr] at hgr'; cases hgr'
        by_cases hij : i0 = j0
        · subst hij
          rw [hi0] at hj0; cases hj0
          have hrk := hr r cr hgr k0 (List.mem_of_getElem? hi0)
          exact ih k0 (by omega) (hs.of_reach (.step hgr (List.mem_of_getElem? hi0) (.refl _)))
            a a' k ca ca' i j hk0a hk0a' hga hga' hi hj hk
        · exfalso
          exact hs r cr (.refl _) hgr i0 j0 k0 k0' hi0 hj0 hij k (hk0a.trans (.step hga hka (.refl _)))
            (hk0a'.trans (.step hga' hka' (.refl _))) hk

/-- DEEP DETACHMENT: below `root` (a tree), the cell `x` is rewritten so that the slot `sy` that held
    `y` is gone or holds something else: every child of the new cell is an old child from ANOTHER slot,
    or a node that shares no container / list with `y` and does not reach `x`.  Afterwards `root` and `y`
    share no container / list. -/
theorem cell_write_detaches_deep {h : Heap} {rank : Addr → Nat} (hr : h.RankedBy rank) {root x y : Addr}
    (hs : SibSep h root) (hrx : Reach h root x) {cx cx' : Cell} (hg : h.get? x = some cx)
    {sy : Nat} (hsy : cx.kids[sy]? = some y)
    (hk : ∀ k ∈ cx'.kids, (∃ (j : Nat), j ≠ sy ∧ cx.kids[j]? = some k) ∨ (Apart h k y ∧ ¬ Reach h k x)) :
    Apart (h.write x cx') root y := by
  have hyk : y ∈ cx.kids := List.mem_of_getElem? hsy
  have hyx : ¬ Reach h y x := fun hr' => not_reach_parent hr hg hyk hr' rfl
  have hxlt := get?_lt hg
  intro b hrb hyb hcomp
  have hyb' : Reach h y b := (reach_write_frame _ hyx).mp hyb
  have hbx : b ≠ x := fun e => hyx (e ▸ hyb')
  have hcomp' : Composite h b := by
    obtain ⟨cell, hgb, hl⟩ := hcomp
    rw [get?_write_ne h _ hbx] at hgb
    exact ⟨cell, hgb, hl⟩
  -- every cell reachable from the root afterwards is: reachable before or below a new child, and
  -- no container / list below `y`
  let S : Addr → Prop := fun a =>
    (Reach h root a ∨ ∃ k ∈ cx'.kids, (Apart h k y ∧ ¬ Reach h k x) ∧ Reach h k a) ∧ ¬ (Reach h y a ∧ Composite h a)
  have hroot : S root := ⟨Or.inl (.refl _), fun hh => hyx (hh.1.trans hrx)⟩
  have hclosed : ∀ a cell, S a → (h.write x cx').get? a = some cell → ∀ k ∈ cell.kids, S k := by
    intro a cell hSa hga k hkm
    by_cases hax : a = x
    · subst hax
      rw [get?_write_self h _ hxlt] at hga
      cases Option.some.inj hga
      rcases hk k hkm with ⟨j, hj, hjk⟩ | hnew
      · refine ⟨Or.inl (hrx.trans (.step hg (List.mem_of_getElem? hjk) (.refl _))), ?_⟩
        intro hh
        exact hs a _ hrx hg j sy k y hjk hsy hj k (.refl _) hh.1 hh.2
      · exact ⟨Or.inr ⟨k, hkm, hnew, .refl _⟩, fun hh => hnew.1 k (.refl _) hh.1 hh.2⟩
    · rw [get?_write_ne h _ hax] at hga
      obtain ⟨hside, hnot⟩ := hSa
      refine ⟨?_, fun hh => ?_⟩
      · rcases hside with hside | ⟨p, hp, hnew, hpa⟩
        · exact Or.inl (hside.trans (.step hga hkm (.refl _)))
        · exact Or.inr ⟨p, hp, hnew, hpa.trans (.step hga hkm (.refl _))⟩
      · -- k is a container / list below y, stored in a
        rcases hside with hside | ⟨p, hp, hnew, hpa⟩
        · obtain ⟨ia, hia⟩ := List.getElem?_of_mem hkm
          rcases reach_last hh.1 with e | ⟨pp, cp, hypp, hgpp, hkpp⟩
          · -- k = y: its one parent is x
            subst e
            have := (unique_parent hr (rank root) root (Nat.le_refl _) hs a x k cell cx ia sy hside hrx hga hg
              hia hsy hh.2).1
            exact hax this
          · -- k ≠ y: its one parent lies below y
            obtain ⟨ip, hip⟩ := List.getElem?_of_mem hkpp
            have hrpp : Reach h root pp := hrx.trans (.step hg hyk hypp)
            have := (unique_parent hr (rank root) root (Nat.le_refl _) hs a pp k cell cp ia ip hside hrpp hga hgpp
              hia hip hh.2).1
            subst this
            refine hnot ⟨hypp, cell, hga, ?_⟩
            cases cell with
            | leaf _ => simp [Cell.kids] at hkm
            | list _ => rfl
            | cont _ => rfl
        · exact hnew.1 k (hpa.trans (.step hga hkm (.refl _))) hh.1 hh.2
  have hSb : S b := Reach.closed_set S hclosed hrb hroot
  exact hSb.2 ⟨hyb', hcomp'⟩

/-- … for a container whose member `name` (which held `y`) is erased or overwritten -/
theorem write_detaches_deep {h : Heap} {rank : Addr → Nat} (hr : h.RankedBy rank) {root x y : Addr}
    (hs : SibSep h root) (hrx : Reach h root x) {kvs kvs' : AMap Addr} (hg : h.get? x = some (.cont kvs))
    {name : String} (hy : AMap.get? kvs name = some y)
    (hk : ∀ p ∈ kvs', (p ∈ kvs ∧ p.1 ≠ name) ∨ (Apart h p.2 y ∧ ¬ Reach h p.2 x)) :
    Apart (h.write x (.cont kvs')) root y := by
  obtain ⟨sy, hsy⟩ := List.getElem?_of_mem (AMap.mem_of_get? hy)
  refine cell_write_detaches_deep (sy := sy) hr hs hrx hg (by simp [Cell.kids, List.getElem?_map, hsy]) ?_
  intro k hkm
  simp only [Cell.kids, List.mem_map] at hkm
  obtain ⟨p, hp, rfl⟩ := hkm
  rcases hk p hp with ⟨hpk, hpn⟩ | hnew
  · left
    obtain ⟨ip, hip⟩ := List.getElem?_of_mem hpk
    refine ⟨ip, ?_, by simp [Cell.kids, List.getElem?_map, hip]⟩
    intro e; subst e
    rw [hip] at hsy
    exact hpn (by cases hsy; rfl)
  · exact Or.inr hnew

/-- … for a list whose slot `i` (which held `y`) is overwritten by `Set` / `MustSet` -/
theorem list_set_detaches_deep {h : Heap} {rank : Addr → Nat} (hr : h.RankedBy rank) {root l y v : Addr}
    (hs : SibSep h root) (hrl : Reach h root l) {xs : List Addr} (hg : h.get? l = some (.list xs))
    {i : Nat} (hy : xs[i]? = some y) (hvy : Apart h v y) (hvl : ¬ Reach h v l) :
    Apart (h.write l (.list (xs.set i v))) root y := by
  refine cell_write_detaches_deep (sy := i) hr hs hrl hg hy ?_
  intro k hkm
  simp only [Cell.kids] at hkm
  obtain ⟨j, hj⟩ := List.getElem?_of_mem hkm
  by_cases hji : j = i
  · subst hji
    have hlt : j < xs.length := (List.getElem?_eq_some_iff.mp hy).1
    rw [List.getElem?_set_self hlt] at hj
    cases hj
    exact Or.inr ⟨hvy, hvl⟩
  · rw [List.getElem?_set_ne (Ne.symm hji)] at hj
    exact Or.inl ⟨j, hji, hj⟩

/-- … or which is cleared -/
theorem list_clear_detaches_deep {h : Heap} {rank : Addr → Nat} (hr : h.RankedBy rank) {root l y : Addr}
    (hs : SibSep h root) (hrl : Reach h root l) {xs : List Addr} (hg : h.get? l = some (.list xs))
    {i : Nat} (hy : xs[i]? = some y) : Apart (h.write l (.list [])) root y :=
  cell_write_detaches_deep (sy := i) hr hs hrl hg hy (fun k hkm => by simp [Cell.kids] at hkm)

/-- `ListBuilder.Set` / `MustSet` / `Clear` on a list of the document detach the item that was stored
    in the slot -/
theorem listwrite_detaches {h h' : Heap} {rank : Addr → Nat} (hr : h.RankedBy rank) {root l y v : Addr}
    (hs : SibSep h root) (hrl : Reach h root l) {xs : List Addr} (hg : h.get? l = some (.list xs))
    {i : Nat} (hy : xs[i]? = some y) :
    (Apart h v y → ¬ Reach h v l → Ytk.Heap.listSet h l i v = some h' → Apart h' root y) ∧
    (Apart h v y → ¬ Reach h v l → listMustSetH h l i v = .ok h' → Apart h' root y) ∧
    (listClear h l = some h' → Apart h' root y) := by
  have hlt : i < xs.length := (List.getElem?_eq_some_iff.mp hy).1
  refine ⟨fun hvy hvl he => ?_, fun hvy hvl he => ?_, fun he => ?_⟩
  · simp only [Ytk.Heap.listSet, hg, Option.some.injEq] at he
    subst he
    have : i + 1 - xs.length = 0 := by omega
    simp only [this, List.replicate_zero, List.append_nil]
    exact list_set_detaches_deep hr hs hrl hg hy hvy hvl
  · simp only [listMustSetH, hg, if_pos hlt, Outcome.ok.injEq] at he
    subst he
    exact list_set_detaches_deep hr hs hrl hg hy hvy hvl
  · simp only [listClear, hg, Option.some.injEq] at he
    subst he
    exact list_clear_detaches_deep hr hs hrl hg hy

/-- `RemoveAt(path)` / `AddValueAt(path, v)` whose walk ends in the existing container `x` and whose
    last component is a plain member name: the node `y` that `Lookup(path)` returned before is
    detached from the whole document below `root` -/
theorem pathwrite_detaches {h h' : Heap} {rank : Addr → Nat} (hr : h.RankedBy rank) (hm : h.MapsOk)
    {root x y : Addr} (hs : SibSep h root) {segs : List String} {last : String}
    (ha : ancestorH h root segs = some x) (hl : segs.getLast? = some last) (hplain : hasIdxSuffix last = false)
    (hy : lookupSegsH h root segs = some y) :
    (removeAtSegsH h root segs = some h' → Apart h' root y) ∧
    (∀ v, Apart h v y → ¬ Reach h v x → addAtSegsH h root segs v = some h' → Apart h' root y) := by
  have hrx := ancestorH_reach segs root x ha
  constructor
  · intro he
    obtain ⟨last', hl', _, h2, h3⟩ := ancestorH_spec 0 segs root x ha
    rw [hl] at hl'; cases hl'
    rw [h2] at he
    rw [h3] at hy
    unfold Ytk.Heap.remove at he
    split at he
    · rename_i kvs hg
      simp only [Option.some.injEq] at he; subst he
      rw [childH_plain hg hplain] at hy
      exact write_detaches_deep hr hs hrx hg hy (fun p hp => Or.inl (mem_erase_ne (hm x kvs hg) hp))
    · cases he
  · intro v hvy hvx he
    obtain ⟨last', hl', h1, _, h3⟩ := ancestorH_spec v segs root x ha
    rw [hl] at hl'; cases hl'
    rw [h1] at he
    rw [h3] at hy
    unfold addH at he
    split at he
    · rename_i kvs hg
      simp only [Ytk.parseSeg_of_noSuffix hplain, Option.some.injEq] at he; subst he
      rw [childH_plain hg hplain] at hy
      refine write_detaches_deep hr hs hrx hg hy (fun p hp => ?_)
      rcases mem_insert_ne (hm x kvs hg) hp with hp | hp
      · exact Or.inl hp
      · exact Or.inr (by rw [hp]; exact ⟨hvy, hvx⟩)
    · cases he

/-! ## 14. the same frame for `RemoveAt` -/

/-- the last component of the path is a plain member name (the domain of remove paths in C03) -/
def LastPlain (segs : List String) : Prop := ∀ l, segs.getLast? = some l → hasIdxSuffix l = false

theorem LastPlain.tail {p q : String} {rest : List String} (h : LastPlain (p :: q :: rest)) : LastPlain (q :: rest) := by
  intro l hl; exact h l (by rw [List.getLast?_cons_cons]; exact hl)

/-- `RemoveAt` through the first component `p`: at most one cell `w` changes (a container that stays a
    container), it is `c` or lies below the member `segBase p`, and no other member of `c` changes -/
theorem removeAtSegsH_spec2 {h : Heap} {rank : Addr → Nat} (hr : h.RankedBy rank) :
    ∀ (p : String) (rest : List String) (c : Addr) (h' : Heap) (kvs : AMap Addr), LastPlain (p :: rest) →
      h.get? c = some (.cont kvs) → removeAtSegsH h c (p :: rest) = some h' →
      ∃ w, Reach h c w ∧ (∃ kw kw', h.get? w = some (.cont kw) ∧ h'.get? w = some (.cont kw')) ∧
        (∀ a, a ≠ w → h'.get? a = h.get? a) ∧ KeySpec h c w (segBase p) h'
  | p, [], c, h', kvs, hlp, hg, he => by
    simp only [removeAtSegsH, Ytk.Heap.remove, hg, Option.some.injEq] at he
    subst he
    have hplain : hasIdxSuffix p = false := hlp p rfl
    have hb : segBase p = p := by simp [segBase, Ytk.parseSeg_of_noSuffix hplain]
    refine ⟨c, .refl _, ⟨kvs, _, hg, get?_write_self h _ (get?_lt hg)⟩, fun a hne => get?_write_ne h _ hne, ?_⟩
    intro kvs0 hg0
    rw [hg] at hg0; cases hg0
    exact ⟨Or.inl rfl, _, get?_write_self h _ (get?_lt hg), fun k hk => AMap.get?_erase_ne _ (by rw [hb] at hk; exact hk)⟩
  | p, t :: rest, c, h', kvs, hlp, hg, he => by
    simp only [removeAtSegsH] at he
    cases hcc : contChildH h c p with
    | none =>
      simp only [hcc, Option.some.injEq] at he; subst he
      exact ⟨c, .refl _, ⟨kvs, kvs, hg, hg⟩, fun _ _ => rfl, fun kvs0 hg0 => ⟨Or.inl rfl, kvs0, hg0, fun _ _ => rfl⟩⟩
    | some y =>
      simp only [hcc] at he
      obtain ⟨hch, kvsy, hgy⟩ := contChildH_some hcc
      obtain ⟨w, hyw, hkind, hfr, _⟩ := removeAtSegsH_spec2 hr t rest y h' kvsy hlp.tail hgy he
      obtain ⟨kp, hkp, hky⟩ := childH_base hg hch
      have hwc : w ≠ c := not_reach_parent hr hg (mem_kids_of_get? hkp) (hky.trans hyw)
      refine ⟨w, (childH_reach hch).trans hyw, hkind, hfr, ?_⟩
      intro kvs0 hg0
      rw [hg] at hg0; cases hg0
      exact ⟨Or.inr ⟨kp, hkp, hky.trans hyw⟩, kvs, by rw [hfr c (Ne.symm hwc)]; exact hg, fun _ _ => rfl⟩

/-- FRAME for handles at pointer level: `RemoveAt(ps)` on `c` does not move what `Lookup(qs)` finds
    when the two paths diverge by key -/
theorem removeAtSegsH_lookup_frame {h : Heap} {rank : Addr → Nat} (hc : h.Closed) (hr : h.RankedBy rank) :
    ∀ (ps qs : List String), Diverge ps qs → LastPlain ps → ∀ (c : Addr) (h' : Heap) (x : Addr), SibSep h c →
      removeAtSegsH h c ps = some h' → lookupSegsH h c qs = some x → lookupSegsH h' c qs = some x
  | _, _, @Diverge.head p q ps qs hne, hlp, c, h', x, hs, he, hlk => by
    have hgc : ∃ kvs, h.get? c = some (.cont kvs) := by
      cases hg : h.get? c with
      | none => cases qs <;> simp [lookupSegsH, contChildH, childH, hg] at hlk
      | some cell =>
        cases cell with
        | cont kvs => exact ⟨kvs, rfl⟩
        | leaf _ => cases qs <;> simp [lookupSegsH, contChildH, childH, hg] at hlk
        | list _ => cases qs <;> simp [lookupSegsH, contChildH, childH, hg] at hlk
    obtain ⟨kvs, hg⟩ := hgc
    obtain ⟨w, _, ⟨kw, kw', hgw, _⟩, hfr, key⟩ := removeAtSegsH_spec2 hr p ps c h' kvs hlp hg he
    have hcw : Composite h w := ⟨_, hgw, rfl⟩
    have hfr' : ∀ a, a < h.size → a ≠ w → h'.get? a = h.get? a := fun a _ hne => hfr a hne
    cases qs with
    | nil =>
      simp only [lookupSegsH] at hlk ⊢
      exact (frame_other_member hc hr hs hg hfr' hcw key hne hlk).1
    | cons t qs' =>
      simp only [lookupSegsH] at hlk ⊢
      cases hcc : contChildH h c q with
      | none => simp [hcc] at hlk
      | some y =>
        simp only [hcc] at hlk
        obtain ⟨hch, kvsy, hgy⟩ := contChildH_some hcc
        obtain ⟨hch', U⟩ := frame_other_member hc hr hs hg hfr' hcw key hne hch
        have hgy' : h'.get? y = some (.cont kvsy) := by rw [U y (.refl _)]; exact hgy
        simp only [contChildH, hch', hgy']
        rw [lookupSegsH_congr (t :: qs') y U]
        exact hlk
  | _, _, @Diverge.tail p ps qs hps hqs hd, hlp, c, h', x, hs, he, hlk => by
    obtain ⟨t, ps', rfl⟩ : ∃ t ps', ps = t :: ps' := by
      cases ps with
      | nil => exact absurd rfl hps
      | cons t ps' => exact ⟨t, ps', rfl⟩
    obtain ⟨u, qs', rfl⟩ : ∃ u qs', qs = u :: qs' := by
      cases qs with
      | nil => exact absurd rfl hqs
      | cons u qs' => exact ⟨u, qs', rfl⟩
    simp only [lookupSegsH] at hlk ⊢
    simp only [removeAtSegsH] at he
    cases hcc : contChildH h c p with
    | none => simp [hcc] at hlk
    | some y =>
      simp only [hcc] at hlk he
      obtain ⟨hch, kvsy, hgy⟩ := contChildH_some hcc
      have hcy := childH_reach hch
      have ih := removeAtSegsH_lookup_frame hc hr (t :: ps') (u :: qs') hd hlp.tail y h' x (hs.of_reach hcy) he hlk
      obtain ⟨w, hyw, ⟨kw, kw', hgw, hgw'⟩, hfr, _⟩ := removeAtSegsH_spec2 hr t ps' y h' kvsy hlp.tail hgy he
      have hrw := rank_le_of_reach hr hyw
      have hfr' : ∀ b, b < h.size → rank y < rank b → h'.get? b = h.get? b := by
        intro b _ hrk
        exact hfr b (by intro e; subst e; omega)
      have hch' := childH_frame hr hfr' hch
      have hgy' : ∃ kvs', h'.get? y = some (.cont kvs') := by
        by_cases hyw' : y = w
        · subst hyw'; exact ⟨kw', hgw'⟩
        · exact ⟨kvsy, by rw [hfr y hyw']; exact hgy⟩
      obtain ⟨kvs', hgy'⟩ := hgy'
      simp only [contChildH, hch', hgy']
      exact ih

end Ytk.Heap
