/-
  YtkProofs.HeapOverlayPut — the DOMAIN BOUNDARY of the heap-level overlay `Put` (YtkModel/HeapOverlay.lean)
  for container values: `putH` flattens a container value with `flattenF`, which is defined on
  leaf and container cells only.  Hence `putH` answers `some …` for a container value ONLY IF no list cell
  is reachable from it — a container value that holds a list (at any depth) is mapped to `none`
  ("outside the model"), whatever the overlay, the layer and the path are.

  * `flattenF_some_list_free`, `flattenKvs_some_list_free`   a defined flattening sees no list cell
  * `putH_cont_some_list_free`   `putH … v = some _` with `v` a container ⇒ nothing below `v` is a list
  * `putH_cont_list_none`        contrapositive: a list below a container value ⇒ `putH … = none`
-/
import YtkProofs.HeapOverlay

namespace Ytk.Heap
open Heap

theorem flattenKvs_some_list_free {h : Heap} {g : Addr → List String → Option (List (List String × Addr))}
    (hg : ∀ a pre xs, g a pre = some xs → ∀ b, Reach h a b → ∀ ys, h.get? b ≠ some (.list ys)) :
    ∀ (kvs : List (String × Addr)) (pre : List String) (out : List (List String × Addr)),
      flattenKvs g kvs pre = some out → ∀ p ∈ kvs, ∀ b, Reach h p.2 b → ∀ ys, h.get? b ≠ some (.list ys)
  | [], _, _, _, p, hp => by cases hp
  | (k, a) :: rest, pre, out, he, p, hp => by
    simp only [flattenKvs] at he
    cases h1 : g a (pre ++ [k]) with
    | none => simp [h1] at he
    | some xs =>
      simp only [h1] at he
      cases h2 : flattenKvs g rest pre with
      | none => simp [h2] at he
      | some ys =>
        rcases List.mem_cons.mp hp with rfl | hp
        · exact hg a _ xs h1
        · exact flattenKvs_some_list_free hg rest pre ys h2 p hp

theorem flattenF_some_list_free {h : Heap} : ∀ (f : Nat) (a : Addr) (pre : List String)
    (xs : List (List String × Addr)), flattenF f h a pre = some xs →
      ∀ b, Reach h a b → ∀ ys, h.get? b ≠ some (.list ys)
  | 0, _, _, _, he => by simp [flattenF] at he
  | f + 1, a, pre, xs, he => by
    simp only [flattenF] at he
    intro b hab ys hb
    cases hg : h.get? a with
    | none => simp [hg] at he
    | some cell =>
      cases cell with
      | list zs => simp [hg] at he
      | leaf s =>
        cases hab with
        | refl _ => rw [hg] at hb; cases hb
        | step hg' hk _ =>
          rw [hg] at hg'
          cases Option.some.inj hg'
          simp [Cell.kids] at hk
      | cont kvs =>
        simp only [hg] at he
        cases hab with
        | refl _ => rw [hg] at hb; cases hb
        | @step _ k _ cell hg' hk hkb =>
          rw [hg] at hg'
          cases Option.some.inj hg'
          simp only [Cell.kids, List.mem_map] at hk
          obtain ⟨p, hp, rfl⟩ := hk
          exact flattenKvs_some_list_free (fun a' pre' xs' h' => flattenF_some_list_free f a' pre' xs' h')
            kvs pre xs he p hp b hkb ys hb

/-- `Put` of a CONTAINER value is inside the heap model only when the value holds no list -/
theorem putH_cont_some_list_free {h h' : Heap} {s s' : HOverlay} {l : String} {comps : List String} {v : Addr}
    {kvs : AMap Addr} (hv : h.get? v = some (.cont kvs)) (he : putH h s l comps v = some (h', s')) :
    ∀ b, Reach h v b → ∀ ys, h.get? b ≠ some (.list ys) := by
  unfold putH at he
  simp only [hv] at he
  cases hf : flattenKvs (flattenF h.size h) kvs [] with
  | none => simp [hf] at he
  | some leaves =>
    intro b hvb ys hb
    cases hvb with
    | refl _ => rw [hv] at hb; cases hb
    | @step _ k _ cell hg' hk hkb =>
      rw [hv] at hg'
      cases Option.some.inj hg'
      simp only [Cell.kids, List.mem_map] at hk
      obtain ⟨p, hp, rfl⟩ := hk
      exact flattenKvs_some_list_free (fun a' pre' xs' h' => flattenF_some_list_free h.size a' pre' xs' h')
        kvs [] leaves hf p hp b hkb ys hb

/-- … contrapositive: a container value that holds a list (at any depth) is OUTSIDE the model -/
theorem putH_cont_list_none {h : Heap} (s : HOverlay) (l : String) (comps : List String) {v b : Addr}
    {kvs : AMap Addr} {ys : List Addr} (hv : h.get? v = some (.cont kvs)) (hvb : Reach h v b)
    (hb : h.get? b = some (.list ys)) : putH h s l comps v = none := by
  cases he : putH h s l comps v with
  | none => rfl
  | some r => exact absurd hb (putH_cont_some_list_free (h' := r.1) (s' := r.2) hv he b hvb ys)

end Ytk.Heap
