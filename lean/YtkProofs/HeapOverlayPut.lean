/-
  YtkProofs.HeapOverlayPut — the DOMAIN BOUNDARY of the heap-level overlay `Put` (YtkModel/HeapOverlay.lean)
  for container values: `putH` flattens a container value with `flattenF`, which is defined on
  leaf and container cells only.  Hence `putH` answers `some …` for a container value ONLY IF no list cell
  is reachable from it — a container value that holds a list (at any depth) is mapped to `none`
  ("outside the model"), whatever the overlay, the layer and the path are.

  * `flattenF_some_list_free`, `flattenKvs_some_list_free`   a defined flattening sees no list cell
  * `putH_cont_some_list_free`   `putH … v = some _` with `v` a container ⇒ nothing below `v` is a list
  * `putH_cont_list_none`        contrapositive: a list below a container value ⇒ `putH … = none`

  WHAT AN EXTENSION OF THE MODEL NEEDS (the definitions under YtkModel are not changed here; read off
  /repo/dom/overlay.go `Put` / `ensurePath` and /repo/dom/container.go `flattenList` / `ensureList` / `add`):

  1. `flattenF` needs the case `some (.list xs)`: `flattenList` names item `i` by appending the index
     group to the LAST path component (`fmt.Sprintf("%s[%d]", path, i)` = `toListPath`), i.e. entry paths
     `pre.dropLast ++ [toListPath pre.getLast i]`, recursing into containers (`… ++ [k]`) and lists
     (`…[i][j]`) inside items; still the LEAF OBJECTS themselves are collected.
  2. `putNodeH` must store with `Ytk.Heap.addH` (YtkModel/HeapBuilder.lean: `containerBuilderImpl.add` =
     `parseSeg` + `setSlotH`, i.e. `ensureList` + `list.Set`) instead of the plain-key `Heap.addValue`:
     the last component of a flattened entry is `k[i]…[j]` whenever the leaf sits in a list.
  3. `ensurePathH` needs the branch of overlay.go's `ensurePath` for a component with an index group
     (`listPathRe`): `ensureList(component, node)` (reuse / create the lists, pad with the shared nilLeaf),
     then a POINTER comparison of the slot with `nilLeaf`: if it is the nil leaf, a NEW container is stored
     in the slot (`list.Set(index, c)`) and entered — together exactly `HeapBuilder.addContainerH h node
     component`, to be taken when `childH h node component` is `none` or `some nilAddr`; otherwise
     `node.Child(component)` (= `childH`) must be a container cell, which is entered without a write
     (anything else: the Go type assertion panics = `none`).  The comparison is by address: an OWN
     nil-valued leaf in the slot is not `nilLeaf` and leads to the panic.
  4. theorems: `heap_put_shares` then needs a third kind of written cell (LIST cells of the layer: the
     reused / new lists of `setSlotH`; `Upd` / `WC` in YtkProofs/HeapOverlay.lean speak of container cells
     only) and the clause "of a container value only LEAF cells are stored" stays true (no list object of
     the value is stored: the layer gets NEW lists, padded with the shared nil leaf, which already is
     alternative (4) of `heap_put_shares`); `heap_layers_isolated` is unaffected once the write set is
     generalised (`AttachSpec` of `addH`, YtkProofs/HeapBuilder.lean `addH_spec`, gives it).
-/
import YtkProofs.HeapOverlay

namespace Ytk.Heap
open Heap

theorem flattenKvs_some_list_free {h : Heap} {g : Addr → List String → Option (List (List String × Addr))}
    (hg : ∀ a pre xs, g a pre = some xs → ∀ b, Reach h a b → ∀ ys, h.get? b ≠ some (.list ys)) :
    ∀ (kvs : List (String × Addr)) (pre : List String) (out : List (List String × Addr)),
      flattenKvs g kvs pre = some out → ∀ p ∈ kvs, ∀ b, Reach h p.2 b → ∀ ys, h.get? b ≠ some (.list ys)
  | [], _, _, _, p, hp => by cases hp
  | (k, a) :: rest, pre, out, he, p, hp => by
    simp only [flattenKvs] at he
    cases h1 : g a (pre ++ [k]) with
    | none => simp [h1] at he
    | some xs =>
      simp only [h1] at he
      cases h2 : flattenKvs g rest pre with
      | none => simp [h2] at he
      | some ys =>
        rcases List.mem_cons.mp hp with rfl | hp
        · exact hg a _ xs h1
        · exact flattenKvs_some_list_free hg rest pre ys h2 p hp

theorem flattenF_some_list_free {h : Heap} : ∀ (f : Nat) (a : Addr) (pre : List String)
    (xs : List (List String × Addr)), flattenF f h a pre = some xs →
      ∀ b, Reach h a b → ∀ ys, h.get? b ≠ some (.list ys)
  | 0, _, _, _, he => by simp [flattenF] at he
  | f + 1, a, pre, xs, he => by
    simp only [flattenF] at he
    intro b hab ys hb
    cases hg : h.get? a with
    | none => simp [hg] at he
    | some cell =>
      cases cell with
      | list zs => simp [hg] at he
      | leaf s =>
        cases hab with
        | refl _ => rw [hg] at hb; cases hb
        | step hg' hk _ =>
          rw [hg] at hg'
          cases Option.some.inj hg'
          simp [Cell.kids] at hk
      | cont kvs =>
        simp only [hg] at he
        cases hab with
        | refl _ => rw [hg] at hb; cases hb
        | @step _ k _ cell hg' hk hkb =>
          rw [hg] at hg'
          cases Option.some.inj hg'
          simp only [Cell.kids, List.mem_map] at hk
          obtain ⟨p, hp, rfl⟩ := hk
          exact flattenKvs_some_list_free (fun a' pre' xs' h' => flattenF_some_list_free f a' pre' xs' h')
            kvs pre xs he p hp b hkb ys hb

/-- `Put` of a CONTAINER value is inside the heap model only when the value holds no list -/
theorem putH_cont_some_list_free {h h' : Heap} {s s' : HOverlay} {l : String} {comps : List String} {v : Addr}
    {kvs : AMap Addr} (hv : h.get? v = some (.cont kvs)) (he : putH h s l comps v = some (h', s')) :
    ∀ b, Reach h v b → ∀ ys, h.get? b ≠ some (.list ys) := by
  unfold putH at he
  simp only [hv] at he
  cases hf : flattenKvs (flattenF h.size h) kvs [] with
  | none => simp [hf] at he
  | some leaves =>
    intro b hvb ys hb
    cases hvb with
    | refl _ => rw [hv] at hb; cases hb
    | @step _ k _ cell hg' hk hkb =>
      rw [hv] at hg'
      cases Option.some.inj hg'
      simp only [Cell.kids, List.mem_map] at hk
      obtain ⟨p, hp, rfl⟩ := hk
      exact flattenKvs_some_list_free (fun a' pre' xs' h' => flattenF_some_list_free h.size a' pre' xs' h')
        kvs [] leaves hf p hp b hkb ys hb

/-- … contrapositive: a container value that holds a list (at any depth) is OUTSIDE the model -/
theorem putH_cont_list_none {h : Heap} (s : HOverlay) (l : String) (comps : List String) {v b : Addr}
    {kvs : AMap Addr} {ys : List Addr} (hv : h.get? v = some (.cont kvs)) (hvb : Reach h v b)
    (hb : h.get? b = some (.list ys)) : putH h s l comps v = none := by
  cases he : putH h s l comps v with
  | none => rfl
  | some r => exact absurd hb (putH_cont_some_list_free (h' := r.1) (s' := r.2) hv he b hvb ys)

end Ytk.Heap
