/-
  gap7a — C03: laws that were missing from the builder development
    * what lies BELOW a written path is the written value;
    * `updateAt` (the vehicle of the list-builder steps of a history) against `lookup`;
    * compaction is idempotent.
-/
import YtkProofs.Builder
import YtkProofs.Lens

namespace Ytk

/-- below the written path: a lookup that continues past the written position continues inside the
    written container -/
theorem lookupSegs_addAtSegs_below : ∀ (ps qs : List String) (kvs c : AMap Node), ps ≠ [] → qs ≠ [] →
    lookupSegs (addAtSegs kvs ps (.cont c)) (ps ++ qs) = lookupSegs c qs
  | [], _, _, _, h, _ => absurd rfl h
  | [s], q :: qs, kvs, c, _, _ => by
    simp only [List.cons_append, List.nil_append, lookupSegs, addAtSegs, child_add_self]
  | [_], [], _, _, _, h => absurd rfl h
  | s :: t :: r, q :: qs, kvs, c, _, hq => by
    have := lookupSegs_addAtSegs_below (t :: r) (q :: qs) (match child kvs s with
      | some (.cont c) => c
      | _ => []) c (by simp) hq
    simp only [List.cons_append] at this ⊢
    simp only [lookupSegs, addAtSegs, child_add_self]
    exact this
  | _ :: _ :: _, [], _, _, _, h => absurd rfl h

/-- a written leaf or list has nothing below it by key steps -/
theorem lookupSegs_addAtSegs_below_noncont : ∀ (ps qs : List String) (kvs : AMap Node) (v : Node), ps ≠ [] → qs ≠ [] →
    (∀ c, v ≠ .cont c) → lookupSegs (addAtSegs kvs ps v) (ps ++ qs) = none
  | [], _, _, _, h, _, _ => absurd rfl h
  | [s], q :: qs, kvs, v, _, _, hv => by
    simp only [List.cons_append, List.nil_append, lookupSegs, addAtSegs, child_add_self]
    cases v with
    | cont c => exact absurd rfl (hv c)
    | leaf _ => rfl
    | list _ => rfl
  | [_], [], _, _, _, h, _ => absurd rfl h
  | s :: t :: r, q :: qs, kvs, v, _, hq, hv => by
    have := lookupSegs_addAtSegs_below_noncont (t :: r) (q :: qs) (match child kvs s with
      | some (.cont c) => c
      | _ => []) v (by simp) hq hv
    simp only [List.cons_append] at this ⊢
    simp only [lookupSegs, addAtSegs, child_add_self]
    exact this
  | _ :: _ :: _, [], _, _, _, h, _ => absurd rfl h

/-- `updateAtSegs` changes what lookup finds at the path by `f` (and does nothing when lookup finds
    nothing) -/
theorem lookupSegs_updateAtSegs : ∀ (segs : List String) (kvs : AMap Node) (f : Node → Node),
    lookupSegs (updateAtSegs kvs f segs) segs = (lookupSegs kvs segs).map f
  | [], _, _ => rfl
  | [s], kvs, f => by
    simp only [lookupSegs, updateAtSegs]
    cases h : child kvs s with
    | none => simp [h]
    | some n => simp [child_add_self]
  | s :: t :: r, kvs, f => by
    simp only [lookupSegs, updateAtSegs]
    cases h : child kvs s with
    | none => simp [h]
    | some n =>
      cases n with
      | leaf _ => simp [h]
      | list _ => simp [h]
      | cont c =>
        simp only [child_add_self]
        exact lookupSegs_updateAtSegs (t :: r) c f

mutual
/-- Walk(CompactFn) twice is Walk(CompactFn) once -/
theorem compactNode_idem : ∀ (n : Node), compactNode (compactNode n) = compactNode n
  | .leaf _ => rfl
  | .list _ => rfl
  | .cont kvs => by simp only [compactNode]; rw [compactKvs_idem kvs]
theorem compactKvs_idem : ∀ (kvs : List (String × Node)), compactKvs (compactKvs kvs) = compactKvs kvs
  | [] => rfl
  | (k, x) :: xs => by
    have ihx := compactNode_idem x
    have ihs := compactKvs_idem xs
    simp only [compactKvs]
    cases hx : compactNode x with
    | leaf v => simp only [compactKvs, compactNode, ihs]
    | list ys => simp only [compactKvs, compactNode, ihs]
    | cont c =>
      rw [hx] at ihx
      cases c with
      | nil => simpa using ihs
      | cons e es =>
        simp only [compactKvs, ihx, ihs]
end

/-! ## utils.ToPath on component lists -/

theorem gap_splitDot_append : ∀ (a b : List Char), splitDot (a ++ '.' :: b) = splitDot a ++ splitDot b
  | [], b => by
    simp only [List.nil_append, splitDot]
    cases h : splitDot b with
    | nil => exact absurd h (splitDot_ne_nil b)
    | cons x xs => simp
  | c :: cs, b => by
    have ih := gap_splitDot_append cs b
    simp only [List.cons_append, splitDot, ih]
    cases h : splitDot cs with
    | nil => exact absurd h (splitDot_ne_nil cs)
    | cons x xs =>
      simp only [List.cons_append]
      split <;> simp

/-- `ToPath(path, sub)` (path ≠ "") splits into the components of `path` followed by those of `sub` -/
theorem gap_splitPath_toPath {path : String} (hp : path ≠ "") (k : String) :
    splitPath (toPath path k) = splitPath path ++ splitPath k := by
  simp only [toPath, if_neg hp, splitPath, String.toList_append]
  have : (".".toList : List Char) = ['.'] := rfl
  rw [this, List.append_assoc, List.singleton_append, gap_splitDot_append, List.map_append]

theorem gap_toPath_ne_empty {path : String} (hp : path ≠ "") (k : String) : toPath path k ≠ "" := by
  simp only [toPath, if_neg hp]
  intro e
  have := congrArg String.toList e
  simp only [String.toList_append] at this
  have h2 : ("".toList : List Char) = [] := rfl
  rw [h2] at this
  have h3 : (".".toList : List Char) = ['.'] := rfl
  rw [h3] at this
  simp at this

end Ytk
