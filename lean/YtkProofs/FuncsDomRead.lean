/-
  YtkProofs.FuncsDomRead — the regenerated translation of the READ paths of dom/container.go
  (flattenLeaf / flattenList / flattenContainer / Flatten / Search; Lookup) in
  YtkModel/Generated/FuncsDom.lean EQUALS the hand-written model of YtkModel/Dom.lean
  (`flattenKvs` / `flattenList` / `flattenMap`, `search`, `lookup`), for all inputs.
  Restated in YtkProps/C02.lean.
-/
import YtkModel.Generated.FuncsDom
import YtkProofs.FuncsLemmas
import YtkProofs.FuncsDomDiff
import YtkProofs.Lens

set_option linter.unusedSimpArgs false

namespace Ytk.FuncsDomRead
open Ytk Ytk.Generated Ytk.FuncsDomDiff

/-- writing the pairs of `l` into the Go map `m` one after the other (`m[path] = leaf`) -/
def ins (m : AMap Scalar) (l : List (String × Scalar)) : AMap Scalar :=
  l.foldl (fun m q => AMap.insert m q.1 q.2) m

theorem ins_append (m : AMap Scalar) (a b : List (String × Scalar)) : ins m (a ++ b) = ins (ins m a) b := by
  simp [ins, List.foldl_append]

theorem ins_nil (m : AMap Scalar) : ins m [] = m := rfl

theorem flattenLeaf_eq (s : Scalar) (p : String) (ret : AMap Scalar) :
    FuncsDom.domFlattenLeaf s p ret = .ok (ins ret [(p, s)]) := rfl

section flatten
variable (rc : GoDom.Container → String → GoDom.LeafMap → Go.Res GoDom.LeafMap)
  (rl : GoDom.DList → String → GoDom.LeafMap → Go.Res GoDom.LeafMap)
  (N : Nat)
  (hrc : ∀ c p ret, Node.sizeKvs c < N → rc c p ret = .ok (ins ret (flattenKvs c p)))
  (hrl : ∀ l p ret, Node.sizeList l < N → rl l p ret = .ok (ins ret (Ytk.flattenList l p 0)))

include hrc hrl in
theorem flatC_loop_eq (p : String) : ∀ (kvs : List (String × Node)) (ret : AMap Scalar),
    Node.sizeKvs kvs ≤ N →
    FuncsDom.domFlattenContainer_loop1 rc rl p kvs ret = .ok (ins ret (flattenKvs kvs p)) := by
  intro kvs
  induction kvs with
  | nil => intro ret _; simp [FuncsDom.domFlattenContainer_loop1, flattenKvs, ins]
  | cons q rest ih =>
    intro ret hs
    obtain ⟨k, n⟩ := q
    have hsz : n.size + Node.sizeKvs rest = Node.sizeKvs ((k, n) :: rest) := by simp [Node.sizeKvs]
    have ih' := fun r => ih r (by omega)
    cases n with
    | cont c =>
      have : Node.sizeKvs c < N := by simp only [Node.size] at hsz; omega
      simp only [FuncsDom.domFlattenContainer_loop1, GoDom.isContainer, Node.isCont, if_true, GoDom.asContainer,
        Go.Res.ok_bind, toPath_eq, hrc _ _ _ this, ih']
      simp [flattenKvs, flattenNode, ins_append]
    | list l =>
      have : Node.sizeList l < N := by simp only [Node.size] at hsz; omega
      simp only [FuncsDom.domFlattenContainer_loop1, GoDom.isContainer, GoDom.isList, Node.isCont, Node.isList,
        Bool.false_eq_true, if_false, if_true, GoDom.asList, Go.Res.ok_bind, toPath_eq, hrl _ _ _ this, ih']
      simp [flattenKvs, flattenNode, ins_append]
    | leaf s =>
      simp only [FuncsDom.domFlattenContainer_loop1, GoDom.isContainer, GoDom.isList, Node.isCont, Node.isList,
        Bool.false_eq_true, if_false, GoDom.asLeaf, Go.Res.ok_bind, toPath_eq, flattenLeaf_eq, ih']
      simp [flattenKvs, flattenNode, ins]

include hrc hrl in
theorem flatL_loop_eq (p : String) : ∀ (xs : List Node) (i : Nat) (ret : AMap Scalar),
    Node.sizeList xs ≤ N →
    FuncsDom.domFlattenList_loop1 rc rl p xs (i : Int) ret = .ok (ins ret (Ytk.flattenList xs p i)) := by
  intro xs
  induction xs with
  | nil => intro i ret _; simp [FuncsDom.domFlattenList_loop1, Ytk.flattenList, ins]
  | cons n rest ih =>
    intro i ret hs
    have hsz : n.size + Node.sizeList rest = Node.sizeList (n :: rest) := by simp [Node.sizeList]
    have ih' := fun r => ih (i + 1) r (by omega)
    cases n with
    | cont c =>
      have : Node.sizeKvs c < N := by simp only [Node.size] at hsz; omega
      simp only [FuncsDom.domFlattenList_loop1, GoDom.isContainer, Node.isCont, if_true, GoDom.asContainer,
        Go.Res.ok_bind, sprintf_eq, hrc _ _ _ this, natCast_succ', ih']
      simp [Ytk.flattenList, flattenNode, ins_append]
    | list l =>
      have : Node.sizeList l < N := by simp only [Node.size] at hsz; omega
      simp only [FuncsDom.domFlattenList_loop1, GoDom.isContainer, GoDom.isList, Node.isCont, Node.isList,
        Bool.false_eq_true, if_false, if_true, GoDom.asList, Go.Res.ok_bind, sprintf_eq, hrl _ _ _ this,
        natCast_succ', ih']
      simp [Ytk.flattenList, flattenNode, ins_append]
    | leaf s =>
      simp only [FuncsDom.domFlattenList_loop1, GoDom.isContainer, GoDom.isList, Node.isCont, Node.isList,
        Bool.false_eq_true, if_false, GoDom.asLeaf, Go.Res.ok_bind, sprintf_eq, flattenLeaf_eq, natCast_succ', ih']
      simp [Ytk.flattenList, flattenNode, ins]
end flatten

theorem flatten_rec_eq : ∀ (fuel : Nat),
    (∀ c p ret, Node.sizeKvs c < fuel → FuncsDom.domFlattenContainer_rec fuel c p ret = .ok (ins ret (flattenKvs c p))) ∧
    (∀ l p ret, Node.sizeList l < fuel → FuncsDom.domFlattenList_rec fuel l p ret = .ok (ins ret (Ytk.flattenList l p 0))) := by
  intro fuel
  induction fuel with
  | zero => exact ⟨fun _ _ _ h => by omega, fun _ _ _ h => by omega⟩
  | succ fuel ih =>
    refine ⟨fun c p ret h => ?_, fun l p ret h => ?_⟩
    · simp only [FuncsDom.domFlattenContainer_rec, GoDom.children]
      rw [flatC_loop_eq _ _ fuel ih.1 ih.2 p c ret (by omega)]
    · simp only [FuncsDom.domFlattenList_rec, GoDom.items]
      have := flatL_loop_eq _ _ fuel ih.1 ih.2 p l 0 ret (by omega)
      simp only [Int.natCast_zero] at this
      rw [this]

theorem domFlattenContainer_generated_eq_model (c : AMap Node) (p : String) (ret : AMap Scalar) :
    FuncsDom.domFlattenContainer c p ret = .ok (ins ret (flattenKvs c p)) :=
  (flatten_rec_eq _).1 c p ret (by simp [GoDom.sizeC])

theorem domFlattenList_generated_eq_model (l : List Node) (p : String) (ret : AMap Scalar) :
    FuncsDom.domFlattenList l p ret = .ok (ins ret (Ytk.flattenList l p 0)) :=
  (flatten_rec_eq _).2 l p ret (by simp [GoDom.sizeL])

/-- Container.Flatten, as translated, is the model's `flattenMap` — for ALL containers -/
theorem containerFlatten_generated_eq_model (c : AMap Node) : FuncsDom.containerFlatten c = .ok (flattenMap c) := by
  simp only [FuncsDom.containerFlatten, domFlattenContainer_generated_eq_model, GoDom.newLeafMap, Go.Res.ok_bind]
  rfl

theorem search_loop_eq (f : Scalar → Bool) : ∀ (m : List (String × Scalar)) (r : List String),
    FuncsDom.containerSearch_loop1 (fun v => .ok (f v)) m r = .ok (r ++ (m.filter (fun p => f p.2)).map (·.1)) := by
  intro m
  induction m with
  | nil => intro r; simp [FuncsDom.containerSearch_loop1]
  | cons q rest ih =>
    intro r
    obtain ⟨k, v⟩ := q
    simp only [FuncsDom.containerSearch_loop1, GoDom.value, Go.Res.ok_bind, ih]
    rcases Bool.eq_false_or_eq_true (f v) with h | h <;> simp [h, List.filter_cons]

/-- Container.Search(fn) for a total, panic-free predicate `fn`: the keys (in key order; the Go result is in map
    order, the harness sorts it) of the flattened entries whose value satisfies `fn` -/
theorem containerSearch_generated_eq_model (f : Scalar → Bool) (c : AMap Node) :
    FuncsDom.containerSearch c (fun v => .ok (f v)) = .ok (search f c) := by
  simp only [FuncsDom.containerSearch, containerFlatten_generated_eq_model, Go.Res.ok_bind, search_loop_eq, search]
  simp

/-! ## Lookup -/

theorem splitOnChar_dot : ∀ (l : List Char), GoDom.splitOnChar '.' l = splitDot l
  | [] => rfl
  | c :: cs => by
    simp only [GoDom.splitOnChar, splitDot, splitOnChar_dot cs]
    cases splitDot cs <;> rfl

theorem stringsSplit1_dot (p : String) : GoDom.stringsSplit1 p '.' = splitPath p := by
  simp [GoDom.stringsSplit1, splitPath, splitOnChar_dot]

/-- the loop of Lookup: walk through the containers named by the leading components -/
def descend (cur : AMap Node) : List String → Option (AMap Node)
  | [] => some cur
  | p :: rest =>
    match child cur p with
    | some (.cont c) => descend c rest
    | _ => none

theorem lookup_loop_eq : ∀ (segs : List String) (cur : AMap Node),
    FuncsDom.containerLookup_loop1 segs cur =
      .ok (match descend cur segs with
           | some c => .next c
           | none => .ret none) := by
  intro segs
  induction segs with
  | nil => intro cur; simp [FuncsDom.containerLookup_loop1, descend]
  | cons p rest ih =>
    intro cur
    simp only [FuncsDom.containerLookup_loop1, GoDom.nonNil, Go.deref, Go.Res.ok_bind, GoDom.child, descend]
    by_cases hn : child cur p = none
    · simp [hn]
    · obtain ⟨o, ho⟩ := Option.ne_none_iff_exists'.mp hn
      cases o with
      | cont c => simp [ho, GoDom.isContainer, Node.isCont, GoDom.asContainer, ih]
      | list l => simp [ho, GoDom.isContainer, Node.isCont]
      | leaf v => simp [ho, GoDom.isContainer, Node.isCont]

theorem lookupSegs_concat : ∀ (init : List String) (last : String) (kvs : AMap Node),
    lookupSegs kvs (init ++ [last]) =
      (match descend kvs init with
       | some c => child c last
       | none => none) := by
  intro init
  induction init with
  | nil => intro last kvs; simp [lookupSegs, descend]
  | cons p rest ih =>
    intro last kvs
    have e : (p :: rest) ++ [last] = p :: (rest ++ [last]) := rfl
    rw [e]
    cases hr : rest ++ [last] with
    | nil => simp at hr
    | cons q more =>
      simp only [lookupSegs, descend]
      by_cases hn : child kvs p = none
      · simp [hn]
      · obtain ⟨o, ho⟩ := Option.ne_none_iff_exists'.mp hn
        cases o with
        | cont c => simp only [ho]; rw [← hr]; exact ih last c
        | list l => simp [ho]
        | leaf v => simp [ho]

/-- Container.Lookup(path), as translated, is the model's `lookup` — for ALL containers and ALL path strings
    (`Child` of the single components is the DomPrelude primitive `GoDom.child` = the model's `child`) -/
theorem containerLookup_generated_eq_model (c : AMap Node) (path : String) :
    FuncsDom.containerLookup c path = .ok (lookup c path) := by
  simp only [FuncsDom.containerLookup, lookup, stringsSplit1_dot]
  by_cases hp : path = ""
  · simp [hp]
  · have hne := splitPath_ne_nil path
    obtain ⟨init, last, hpc⟩ : ∃ init last, splitPath path = init ++ [last] :=
      ⟨(splitPath path).dropLast, (splitPath path).getLast hne, (List.dropLast_concat_getLast hne).symm⟩
    have hlen : (Go.lenL (init ++ [last]) - 1) = (init.length : Int) := by simp [Go.lenL]
    have hsl : Go.sliceL (init ++ [last]) 0 (init.length : Int) = .ok init := by
      rw [Go.sliceL_zero _ _ (by simp)]; simp
    have hix : Go.index (init ++ [last]) (init.length : Int) = .ok last := Go.index_append_length init last []
    simp only [hp, beq_iff_eq, if_false, hpc, hlen, hsl, hix, Go.Res.ok_bind, lookup_loop_eq, lookupSegs_concat]
    cases hd : descend c init with
    | none => simp
    | some d => simp [GoDom.child]

end Ytk.FuncsDomRead
