/-
  The pipeline's data operations (YtkModel/PipelineData.lean, C13) preserve deep well-formedness
  (`Node.WF`: unique, sorted keys in every container at every depth): SetOp, the local copy of dom's
  merge, TemplateOp (both parse modes; `decodeYamlNode`), ImportOp, EnvOp, PatchOp.
  The DOM-level lemmas are those of YtkProofs/PipelineWF.lean.
-/
import YtkProofs.PipelineWF
import YtkProofs.PipelineData

namespace Ytk.PD

theorem coalesce_cases (n v : Node) : coalesce n v = v ∨ coalesce n v = n ∨ coalesce n v = Node.null := by
  unfold coalesce
  split
  · exact Or.inl rfl
  · split
    · exact Or.inr (Or.inl rfl)
    · exact Or.inr (Or.inr rfl)

theorem wf_coalesce {n v : Node} (hn : n.WF) (hv : v.WF) : (coalesce n v).WF := by
  rcases coalesce_cases n v with h | h | h <;> rw [h]
  · exact hv
  · exact hn
  · exact wf_null

mutual
theorem wf_mergeNode : ∀ (n v : Node), n.WF → v.WF → (mergeNode n v).WF
  | n, .leaf s, hn, hv => by simp only [mergeNode]; exact wf_coalesce hn hv
  | n, .list ys, hn, hv => by
    cases n with
    | list xs =>
      simp only [mergeNode]
      exact .list (wf_meldList xs ys (fun x hx => hn.of_list_mem hx) (fun x hx => hv.of_list_mem hx))
    | leaf s => simp only [mergeNode]; exact wf_coalesce hn hv
    | cont c => simp only [mergeNode]; exact wf_coalesce hn hv
  | n, .cont c2, hn, hv => by
    cases n with
    | cont c1 =>
      simp only [mergeNode]
      exact wf_mergeKvs c1 c2 hn hv.values
    | leaf s => simp only [mergeNode]; exact wf_coalesce hn hv
    | list l => simp only [mergeNode]; exact wf_coalesce hn hv
theorem wf_mergeKvs : ∀ (acc : AMap Node) (c2 : List (String × Node)),
    Node.WF (.cont acc) → (∀ p ∈ c2, p.2.WF) → Node.WF (.cont (mergeKvs acc c2))
  | acc, [], h1, _ => by simpa [mergeKvs] using h1
  | acc, (k, v) :: rest, h1, h2 => by
    have hv : v.WF := h2 (k, v) (List.mem_cons_self ..)
    have hrest : ∀ q ∈ rest, q.2.WF := fun q hq => h2 q (List.mem_cons_of_mem _ hq)
    simp only [mergeKvs]
    split
    · rename_i n hg
      exact wf_mergeKvs _ rest (wf_insert h1 (wf_mergeNode n v (h1.of_cont_get hg) hv)) hrest
    · exact wf_mergeKvs _ rest (wf_insert h1 hv) hrest
theorem wf_meldList : ∀ (xs ys : List Node), (∀ x ∈ xs, x.WF) → (∀ y ∈ ys, y.WF) → ∀ z ∈ meldList xs ys, z.WF
  | xs, [], h1, _ => by simpa [meldList] using h1
  | [], y :: ys, _, h2 => by simpa [meldList] using h2
  | x :: xs, y :: ys, h1, h2 => by
    intro z hz
    simp only [meldList, List.mem_cons] at hz
    rcases hz with rfl | hz
    · exact wf_mergeNode x y (h1 x (List.mem_cons_self ..)) (h2 y (List.mem_cons_self ..))
    · exact wf_meldList xs ys (fun a ha => h1 a (List.mem_cons_of_mem _ ha))
        (fun a ha => h2 a (List.mem_cons_of_mem _ ha)) z hz
end

theorem wf_mergeContainers {c1 c2 : AMap Node} (h1 : Node.WF (.cont c1)) (h2 : Node.WF (.cont c2)) :
    Node.WF (.cont (mergeContainers c1 c2)) := wf_mergeKvs c1 c2 h1 h2.values

/-- what SetOp asks of dom's Merge -/
def MergeWF (mergeC : AMap Node → AMap Node → AMap Node) : Prop :=
  ∀ a b, Node.WF (.cont a) → Node.WF (.cont b) → Node.WF (.cont (mergeC a b))

theorem wf_mergeOrReplace {mergeC : AMap Node → AMap Node → AMap Node} (hm : MergeWF mergeC) {o : Option Node}
    {v : Node} (ho : ∀ n, o = some n → n.WF) (hv : v.WF) : (mergeOrReplace mergeC o v).WF := by
  unfold mergeOrReplace
  split
  · rename_i oc vc
    exact hm oc vc (ho _ rfl) hv
  · exact hv

theorem wf_setMergeRoot {mergeC : AMap Node → AMap Node → AMap Node} (hm : MergeWF mergeC) :
    ∀ (payload : List (String × Node)) (orig : AMap Node), Node.WF (.cont orig) → (∀ p ∈ payload, p.2.WF) →
    Node.WF (.cont (setMergeRoot mergeC orig payload))
  | [], _, h, _ => h
  | (k, v) :: rest, orig, h, hp => by
    simp only [setMergeRoot]
    apply wf_setMergeRoot hm rest _ _ (fun q hq => hp q (List.mem_cons_of_mem _ hq))
    exact wf_add k h (wf_mergeOrReplace hm (fun n hn => wf_child h hn) (hp (k, v) (List.mem_cons_self ..)))

theorem wf_setReplaceRoot : ∀ (payload : List (String × Node)) (orig : AMap Node), Node.WF (.cont orig) →
    (∀ p ∈ payload, p.2.WF) → Node.WF (.cont (setReplaceRoot orig payload))
  | [], _, h, _ => h
  | (k, v) :: rest, orig, h, hp => by
    simp only [setReplaceRoot]
    exact wf_setReplaceRoot rest _ (wf_addValueAt k h (hp (k, v) (List.mem_cons_self ..)))
      (fun q hq => hp q (List.mem_cons_of_mem _ hq))

theorem wf_setOp {mergeC : AMap Node → AMap Node → AMap Node} (hm : MergeWF mergeC) {data payload d' : AMap Node}
    {path : String} {s : Option String} (h : Node.WF (.cont data)) (hp : Node.WF (.cont payload))
    (hd : setOp mergeC data (some payload) path s = .ok d') : Node.WF (.cont d') := by
  simp only [setOp] at hd
  split at hd
  · cases hd
    unfold setMerge
    split
    · split
      · rename_i dest hl
        exact wf_addValueAt _ h (hm _ _ (wf_lookup h hl) hp)
      · exact wf_addValueAt _ h hp
    · exact wf_setMergeRoot hm payload data h hp.values
  · split at hd
    · cases hd
      unfold setReplace
      split
      · exact wf_addValueAt _ h hp
      · exact wf_setReplaceRoot payload data h hp.values
    · cases hd

/-! TemplateOp -/

mutual
theorem wf_decodeYamlNode : ∀ (y : YNode), (decodeYamlNode y).WF
  | .scalar _ => by simp only [decodeYamlNode]; exact .leaf _
  | .seq xs => by simp only [decodeYamlNode]; exact .list (wf_decodeYamlSeq xs)
  | .map kvs => by simp only [decodeYamlNode]; exact wf_decodeYamlMap kvs [] wf_nil
theorem wf_decodeYamlSeq : ∀ (xs : List YNode), ∀ z ∈ decodeYamlSeq xs, z.WF
  | [] => by simp [decodeYamlSeq]
  | x :: xs => by
    intro z hz
    simp only [decodeYamlSeq, List.mem_cons] at hz
    rcases hz with rfl | hz
    · exact wf_decodeYamlNode x
    · exact wf_decodeYamlSeq xs z hz
theorem wf_decodeYamlMap : ∀ (kvs : List (String × YNode)) (acc : AMap Node), Node.WF (.cont acc) →
    Node.WF (.cont (decodeYamlMap kvs acc))
  | [], _, h => by simpa [decodeYamlMap] using h
  | (k, v) :: rest, acc, h => by
    simp only [decodeYamlMap]
    exact wf_decodeYamlMap rest _ (wf_add k h (wf_decodeYamlNode v))
end

theorem wf_yamlResult (y : Option YNode) : (yamlResult y).WF := by
  cases y with
  | none => exact wf_null
  | some n => exact wf_decodeYamlNode n

theorem wf_templateOp (render : String → Option String) (lenient trimFn : String → String)
    (yp : String → Option (Option YNode)) (t : TemplateSpec) {data : AMap Node} (h : Node.WF (.cont data)) :
    Node.WF (.cont (templateOp render lenient trimFn yp t data).1) := by
  rcases templateOp_fst' render lenient trimFn yp t data with e | ⟨v, hv, e⟩
  · rw [e]; exact h
  · rw [e]; exact wf_addValueAt _ h hv
where
  templateOp_fst' (render : String → Option String) (lenient trimFn : String → String)
      (yp : String → Option (Option YNode)) (t : TemplateSpec) (data : AMap Node) :
      (templateOp render lenient trimFn yp t data).1 = data ∨
        ∃ v, v.WF ∧ (templateOp render lenient trimFn yp t data).1 = addValueAt data (lenient t.path) v := by
    simp only [templateOp]
    split
    · exact Or.inl rfl
    · split
      · exact Or.inl rfl
      · split
        · split
          · exact Or.inl rfl
          · exact Or.inr ⟨_, wf_yamlResult _, rfl⟩
        · split
          · exact Or.inr ⟨_, .leaf _, rfl⟩
          · exact Or.inl rfl

/-! ImportOp -/

/-- the structured decoders return maps -/
def CodecsWF (cd : Codecs) : Prop :=
  (∀ b c, cd.yaml b = some c → Node.WF (.cont c)) ∧ (∀ b c, cd.json b = some c → Node.WF (.cont c)) ∧
  (∀ b c, cd.props b = some c → Node.WF (.cont c))

theorem wf_toValue {cd : Codecs} (hc : CodecsWF cd) {mode : String} {bytes : List Nat} {v : Node}
    (h : toValue cd mode bytes = some v) : v.WF := by
  simp only [toValue] at h
  generalize (if mode = "" then "text" else mode) = m at h
  split at h
  · cases h; exact .leaf _
  · split at h
    · cases h; exact .leaf _
    · split at h
      · obtain ⟨c, hc', rfl⟩ := Option.map_eq_some_iff.mp h
        exact hc.1 _ _ hc'
      · split at h
        · obtain ⟨c, hc', rfl⟩ := Option.map_eq_some_iff.mp h
          exact hc.2.1 _ _ hc'
        · split at h
          · obtain ⟨c, hc', rfl⟩ := Option.map_eq_some_iff.mp h
            exact hc.2.2 _ _ hc'
          · cases h

theorem wf_importRoot : ∀ (kvs : List (String × Node)) (data : AMap Node), Node.WF (.cont data) →
    (∀ p ∈ kvs, p.2.WF) → Node.WF (.cont (importRoot data kvs))
  | [], _, h, _ => h
  | (k, v) :: rest, data, h, hp => by
    simp only [importRoot]
    exact wf_importRoot rest _ (wf_addValueAt k h (hp (k, v) (List.mem_cons_self ..)))
      (fun q hq => hp q (List.mem_cons_of_mem _ hq))

theorem wf_importOp {cd : Codecs} (hc : CodecsWF cd) (lenient : String → String) (content : Option (List Nat))
    (mode path : String) {data : AMap Node} (h : Node.WF (.cont data)) :
    Node.WF (.cont (importOp cd lenient content mode path data).1) := by
  simp only [importOp]
  split
  · exact h
  · split
    · exact h
    · rename_i val hv
      have hval := wf_toValue hc hv
      split
      · exact wf_addValueAt _ h hval
      · split
        · exact wf_importRoot _ _ h hval.values
        · exact h

/-! EnvOp, PatchOp -/

theorem wf_envOp (incl excl : String → Bool) (path : String) : ∀ (es : List String) (data d' : AMap Node),
    Node.WF (.cont data) → envOp incl excl path es data = .ok d' → Node.WF (.cont d')
  | [], data, d', h, hd => by
    simp only [envOp] at hd
    cases hd
    exact h
  | e :: rest, data, d', h, hd => by
    simp only [envOp] at hd
    split at hd
    · split at hd
      · exact wf_envOp incl excl path rest _ d' (wf_addValueAt _ h (.leaf _)) hd
      · exact wf_envOp incl excl path rest data d' h hd
    · split at hd
      · cases hd
      · exact wf_envOp incl excl path rest data d' h hd

theorem wf_patchOp {P : Type} (parsePath : String → Option P) (lenient : String → String)
    (patchDo : PatchCall P → AMap Node → AMap Node × Bool)
    (hpd : ∀ c d, Node.WF (.cont d) → Node.WF (.cont (patchDo c d).1))
    (ps : PatchSpec) {data : AMap Node} (h : Node.WF (.cont data)) :
    Node.WF (.cont (patchOp parsePath lenient patchDo ps data).1) := by
  unfold patchOp
  split
  · exact h
  · exact hpd _ _ h

end Ytk.PD
