/-
  YtkProofs.HeapPatchAbs — refinement: the heap-level patch operations (YtkModel/HeapPatch.lean)
  abstract to the value-level ones (YtkModel/Patch.lean) when the written parent cell is reached
  from the document root along ONE path only (tree-shaped documents).

  1. evaluation: `evalH` on the heap ↔ `Ptr.eval` on the abstraction (plain tokens);
  2. `abs_write_at`: a write of the cell at the end of a sole path is `setAt` on the abstraction;
  3. per operation.
-/
import YtkProofs.HeapPatch
import YtkProofs.Patch

namespace Ytk.Heap
open Heap
open Ytk.Ptr (Path atoi parent lastSegment)

/-- member names without an index group at the end (`Child` / `AddValue` take them literally) -/
def Plain (p : Path) : Prop := ∀ t ∈ p, hasIdxSuffix t = false

/-! ## helpers on `optMapM` -/

theorem optMapM_length {g : Addr → Option Node} : ∀ {xs : List Addr} {ns : List Node},
    optMapM g xs = some ns → ns.length = xs.length
  | [], ns, h => by simp only [optMapM, Option.some.injEq] at h; subst h; rfl
  | x :: xs, ns, h => by
    obtain ⟨n, ns', _, hxs, rfl⟩ := optMapM_cons_some.mp h
    simp only [List.length_cons, optMapM_length hxs]

theorem optMapM_getElem? {g : Addr → Option Node} : ∀ {xs : List Addr} {ns : List Node} {i : Nat} {c : Addr},
    optMapM g xs = some ns → xs[i]? = some c → ∃ dc, g c = some dc ∧ ns[i]? = some dc
  | [], _, _, _, _, hc => by simp at hc
  | x :: xs, ns, i, c, h, hc => by
    obtain ⟨n, ns', hn, hxs, rfl⟩ := optMapM_cons_some.mp h
    cases i with
    | zero =>
      simp only [List.getElem?_cons_zero, Option.some.injEq] at hc
      subst hc
      exact ⟨n, hn, rfl⟩
    | succ j =>
      simp only [List.getElem?_cons_succ] at hc ⊢
      exact optMapM_getElem? hxs hc

theorem optMapM_take {g : Addr → Option Node} : ∀ {xs : List Addr} {ns : List Node} (i : Nat),
    optMapM g xs = some ns → optMapM g (xs.take i) = some (ns.take i)
  | [], ns, i, h => by simp only [optMapM, Option.some.injEq] at h; subst h; simp [optMapM]
  | x :: xs, ns, i, h => by
    obtain ⟨n, ns', hn, hxs, rfl⟩ := optMapM_cons_some.mp h
    cases i with
    | zero => simp [optMapM]
    | succ j =>
      simp only [List.take_succ_cons]
      exact optMapM_cons_some.mpr ⟨n, _, hn, optMapM_take j hxs, rfl⟩

theorem optMapM_drop {g : Addr → Option Node} : ∀ {xs : List Addr} {ns : List Node} (i : Nat),
    optMapM g xs = some ns → optMapM g (xs.drop i) = some (ns.drop i)
  | [], ns, i, h => by simp only [optMapM, Option.some.injEq] at h; subst h; simp [optMapM]
  | x :: xs, ns, i, h => by
    obtain ⟨n, ns', hn, hxs, rfl⟩ := optMapM_cons_some.mp h
    cases i with
    | zero => simpa using h
    | succ j =>
      simp only [List.drop_succ_cons]
      exact optMapM_drop j hxs

theorem optMapM_set {g g' : Addr → Option Node} : ∀ {xs : List Addr} {ns : List Node} {i : Nat} {c : Addr} {y : Node},
    optMapM g xs = some ns → xs[i]? = some c → g' c = some y →
    (∀ j x, xs[j]? = some x → j ≠ i → g' x = g x) → optMapM g' xs = some (ns.set i y)
  | [], _, _, _, _, _, hc, _, _ => by simp at hc
  | x :: xs, ns, i, c, y, h, hc, hy, hoth => by
    obtain ⟨n, ns', hn, hxs, rfl⟩ := optMapM_cons_some.mp h
    cases i with
    | zero =>
      simp only [List.getElem?_cons_zero, Option.some.injEq] at hc
      subst hc
      simp only [List.set_cons_zero]
      refine optMapM_cons_some.mpr ⟨y, ns', hy, ?_, rfl⟩
      rw [optMapM_congr (g := g') (g' := g)]
      · exact hxs
      · intro z hz
        obtain ⟨j, hj⟩ := List.getElem?_of_mem hz
        exact hoth (j + 1) z (by simpa using hj) (by omega)
    | succ j =>
      simp only [List.getElem?_cons_succ] at hc
      simp only [List.set_cons_succ]
      refine optMapM_cons_some.mpr ⟨n, _, ?_, ?_, rfl⟩
      · rw [hoth 0 x (by simp) (by omega)]; exact hn
      · exact optMapM_set hxs hc hy (fun k z hz hk => hoth (k + 1) z (by simpa using hz) (by omega))

/-- replace the abstraction of ONE member (unique keys), all others unchanged -/
theorem optMapKvs_update {g g' : Addr → Option Node} {t : String} {c : Addr} {y : Node} :
    ∀ {kvs : List (String × Addr)} {m : List (String × Node)}, AMap.Sorted kvs →
      optMapKvs g kvs = some m → AMap.get? kvs t = some c → g' c = some y →
      (∀ p ∈ kvs, p.1 ≠ t → g' p.2 = g p.2) → optMapKvs g' kvs = some (AMap.insert m t y)
  | [], _, _, _, hc, _, _ => by simp [AMap.get?] at hc
  | (k, x) :: kvs, m, hs, h, hc, hy, hoth => by
    obtain ⟨n, ns', hn, hxs, rfl⟩ := optMapKvs_cons_some.mp h
    simp only [AMap.get?] at hc
    by_cases hk : t = k
    · subst hk
      simp only [if_true, Option.some.injEq] at hc
      subst hc
      have hins : AMap.insert ((t, n) :: ns') t y = (t, y) :: ns' := by
        simp only [AMap.insert]
        have : ¬ t < t := String.lt_irrefl t
        simp [this]
      rw [hins]
      refine optMapKvs_cons_some.mpr ⟨y, ns', hy, ?_, rfl⟩
      rw [optMapKvs_congr (g := g') (g' := g)]
      · exact hxs
      · intro p hp
        have hlt : t < p.1 := (AMap.Sorted.head_lt hs) p hp
        exact hoth p (List.mem_cons_of_mem _ hp) (fun e => String.lt_irrefl t (e ▸ hlt))
    · simp only [hk, if_false] at hc
      have hgx : g' x = g x := hoth (k, x) (List.mem_cons_self ..) (fun e => hk e.symm)
      have hrec := optMapKvs_update (AMap.Sorted.tail hs) hxs hc hy
        (fun p hp hne => hoth p (List.mem_cons_of_mem _ hp) hne)
      -- t is a key of the tail, all of whose keys are above k
      have hkt : k < t := (AMap.Sorted.head_lt hs) (t, c) (AMap.mem_of_get? hc)
      have hins : AMap.insert ((k, n) :: ns') t y = (k, n) :: AMap.insert ns' t y := by
        simp only [AMap.insert]
        have h1 : ¬ t < k := fun h2 => String.lt_irrefl k (String.lt_trans hkt h2)
        simp [h1, hk]
      rw [hins]
      exact optMapKvs_cons_some.mpr ⟨n, _, by rw [hgx]; exact hn, hrec, rfl⟩

/-! ## 1. evaluation on the heap and on the abstraction -/

theorem absH_step {F : Nat} {h : Heap} {a : Addr} {t : String} {d : Node} (hp : hasIdxSuffix t = false)
    (hd : absH (F + 1) h a = some d) :
    (∀ c, stepH h a t = some c → ∃ dc, absH F h c = some dc ∧ Ptr.step d t = some dc) ∧
    (stepH h a t = none → Ptr.step d t = none) := by
  obtain ⟨F', cell, hF, hc, hm⟩ := absH_inv hd
  cases Nat.succ.inj hF
  unfold stepH
  rw [hc]
  cases cell with
  | leaf s =>
    simp only at hm; subst hm
    exact ⟨fun c hc' => (by cases hc'), fun _ => rfl⟩
  | cont kvs =>
    obtain ⟨m, hmm, rfl⟩ := hm
    simp only [Ptr.step, child_of_noSuffix m hp]
    constructor
    · intro c hc'
      exact optMapKvs_get?_some hmm hc'
    · intro hn
      exact optMapKvs_get?_none hmm hn
  | list xs =>
    obtain ⟨ns, hmm, rfl⟩ := hm
    have hlen := optMapM_length hmm
    simp only [Ptr.step]
    cases ha : atoi t with
    | none => exact ⟨fun c hc' => (by cases hc'), fun _ => rfl⟩
    | some i =>
      simp only [hlen]
      by_cases hcond : 0 ≤ i ∧ i < (xs.length : Int)
      · simp only [hcond, and_self, if_true]
        constructor
        · intro c hc'
          exact optMapM_getElem? hmm hc'
        · intro hn
          have : xs.length ≤ i.toNat := List.getElem?_eq_none_iff.mp hn
          omega
      · rw [if_neg hcond, if_neg hcond]
        exact ⟨fun c hc' => (by cases hc'), fun _ => rfl⟩

/-- `Path.Eval` on the heap and on the abstraction agree (plain tokens); the node found abstracts
    with the fuel that is left -/
theorem absH_eval {h : Heap} : ∀ (pp : Path) (F : Nat) (a : Addr) (d : Node), Plain pp →
    absH F h a = some d →
    (∀ b, evalH h a pp = some b →
      ∃ db, absH (F - pp.length) h b = some db ∧ (Ptr.evalLoop d pp).2 = some db ∧ pp.length < F) ∧
    (evalH h a pp = none → (Ptr.evalLoop d pp).2 = none)
  | [], F, a, d, _, hd => by
    refine ⟨fun b hb => ?_, fun hn => by simp [evalH] at hn⟩
    simp only [evalH, Option.some.injEq] at hb
    subst hb
    refine ⟨d, by simpa using hd, rfl, ?_⟩
    cases F with
    | zero => simp [absH] at hd
    | succ F' => simp
  | t :: ts, F, a, d, hpl, hd => by
    cases F with
    | zero => simp [absH] at hd
    | succ F' =>
      have ht := hpl t (List.mem_cons_self ..)
      have hts : Plain ts := fun x hx => hpl x (List.mem_cons_of_mem _ hx)
      obtain ⟨h1, h2⟩ := absH_step ht hd
      simp only [evalH, Ptr.evalLoop]
      cases hs : stepH h a t with
      | none =>
        rw [h2 hs]
        exact ⟨fun b hb => (by cases hb), fun _ => rfl⟩
      | some c =>
        obtain ⟨dc, hdc, hstep⟩ := h1 c hs
        rw [hstep]
        obtain ⟨k1, k2⟩ := absH_eval ts F' c dc hts hdc
        refine ⟨fun b hb => ?_, fun hn => k2 hn⟩
        obtain ⟨db, hdb, hev, hlt⟩ := k1 b hb
        refine ⟨db, ?_, hev, by simp only [List.length_cons]; omega⟩
        simp only [List.length_cons, Nat.add_sub_add_right]
        exact hdb

/-! ## 2. a write at the end of a sole path is `setAt` -/

/-- `par` is reached from `a` along `pp`, and along no other way: at every cell on the way all other
    members / items do not reach `par`, and the cell is not `par` itself -/
def SolePath (h : Heap) : Addr → Path → Addr → Prop
  | a, [], par => a = par
  | a, t :: ts, par =>
    a ≠ par ∧ ∃ c, stepH h a t = some c ∧ SolePath h c ts par ∧
      match h.get? a with
      | some (.cont kvs) => ∀ p ∈ kvs, p.1 ≠ t → ¬ Reach h p.2 par
      | some (.list xs) => ∀ (j : Nat) (x : Addr), xs[j]? = some x → (atoi t ≠ some (j : Int)) → ¬ Reach h x par
      | _ => False

theorem solePath_eval {h : Heap} : ∀ (pp : Path) (a par : Addr), SolePath h a pp par → evalH h a pp = some par
  | [], a, par, hs => by simp only [SolePath] at hs; subst hs; rfl
  | t :: ts, a, par, hs => by
    obtain ⟨_, c, hc, hrest, _⟩ := hs
    simp only [evalH, hc]
    exact solePath_eval ts c par hrest

/-- THE WRITE LEMMA: if the cell `par` at the end of the sole path `pp` from `root` is overwritten
    and abstracts to `newN` afterwards, the root abstracts to `setAt d pp newN` -/
theorem abs_write_at {h : Heap} (hm : h.MapsOk) {par : Addr} {cell' : Cell} {newN : Node} :
    ∀ (pp : Path) (F : Nat) (root : Addr) (d : Node), Plain pp → absH F h root = some d →
      SolePath h root pp par → absH (F - pp.length) (h.write par cell') par = some newN →
      absH F (h.write par cell') root = some (Ytk.Patch.setAt d pp newN)
  | [], F, root, d, _, _, hs, hnew => by
    simp only [SolePath] at hs; subst hs
    simpa [Ytk.Patch.setAt] using hnew
  | t :: ts, F, root, d, hpl, hd, hs, hnew => by
    cases F with
    | zero => simp [absH] at hd
    | succ F' =>
      have ht := hpl t (List.mem_cons_self ..)
      have hts : Plain ts := fun x hx => hpl x (List.mem_cons_of_mem _ hx)
      obtain ⟨hne, c, hstep, hrest, hoth⟩ := hs
      obtain ⟨F'', cell, hF, hcell, hmm⟩ := absH_inv hd
      cases Nat.succ.inj hF
      have hnew' : absH (F' - ts.length) (h.write par cell') par = some newN := by
        simpa [List.length_cons, Nat.add_sub_add_right] using hnew
      have hget : (h.write par cell').get? root = some cell := by
        rw [get?_write_ne h cell' hne]; exact hcell
      rw [hcell] at hoth
      unfold stepH at hstep
      rw [hcell] at hstep
      cases cell with
      | leaf s => cases hstep
      | cont kvs =>
        obtain ⟨m, hmk, rfl⟩ := hmm
        simp only at hstep hoth
        obtain ⟨dc, hdc, hgetm⟩ := optMapKvs_get?_some hmk hstep
        have ih := abs_write_at hm ts F' c dc hts hdc hrest hnew'
        have hsetAt : Ytk.Patch.setAt (.cont m) (t :: ts) newN =
            .cont (AMap.insert m t (Ytk.Patch.setAt dc ts newN)) := by
          simp only [Ytk.Patch.setAt, child_of_noSuffix m ht, hgetm, add_of_noSuffix m _ ht]
        rw [hsetAt, absH, hget]
        simp only
        rw [optMapKvs_update (hm root kvs hcell) hmk hstep ih
          (fun p hp hne' => absH_write_frame cell' (hoth p hp hne') F')]
      | list xs =>
        obtain ⟨ns, hmk, rfl⟩ := hmm
        simp only at hstep hoth
        cases ha : atoi t with
        | none => simp [ha] at hstep
        | some i =>
          simp only [ha] at hstep
          split at hstep
          · rename_i hcond
            obtain ⟨dc, hdc, hgetn⟩ := optMapM_getElem? hmk hstep
            have ih := abs_write_at hm ts F' c dc hts hdc hrest hnew'
            have hi : ((i.toNat : Nat) : Int) = i := Int.toNat_of_nonneg hcond.1
            have hsetAt : Ytk.Patch.setAt (.list ns) (t :: ts) newN =
                .list (ns.set i.toNat (Ytk.Patch.setAt dc ts newN)) :=
              Ytk.Patch.setAt_cons_list ts newN (by rw [ha, hi]) hgetn
            rw [hsetAt, absH, hget]
            simp only
            rw [optMapM_set hmk hstep ih (fun j x hx hj => absH_write_frame cell'
              (hoth j x hx (by rw [ha]; intro e; apply hj; have := Option.some.inj e; omega)) F')]
          · cases hstep

/-! ## 3. per operation -/

theorem plain_parent {p : Path} (h : Plain p) : Plain (parent p) := by
  intro t ht
  unfold parent at ht
  split at ht
  · cases ht
  · exact h t (List.mem_of_mem_take ht)

theorem plain_last {p : Path} (hp : p ≠ []) (h : Plain p) : hasIdxSuffix (lastSegment p) = false := by
  unfold lastSegment
  rw [List.getLast?_eq_some_getLast hp]
  exact h _ (List.getLast_mem hp)

theorem not_reach_kid {h : Heap} {rank : Addr → Nat} (hr : h.RankedBy rank) {par k : Addr} {c : Cell}
    (hg : h.get? par = some c) (hk : k ∈ c.kids) : ¬ Reach h k par := by
  intro hreach
  have h1 := rank_le_of_reach hr hreach
  have h2 := hr par c hg k hk
  omega

/-- the members of the written cell abstract as before (acyclic: none of them reaches the cell) -/
theorem kvs_abs_after_write {h : Heap} {rank : Addr → Nat} (hr : h.RankedBy rank) {par : Addr}
    {kvs : AMap Addr} (hg : h.get? par = some (.cont kvs)) (cell' : Cell) {G K : Nat} (hle : G ≤ K)
    {m : List (String × Node)} (hm : optMapKvs (absH G h) kvs = some m) :
    optMapKvs (absH K (h.write par cell')) kvs = some m := by
  refine optMapKvs_imp ?_ hm
  intro p hp n hn
  rw [absH_write_frame cell' (not_reach_kid hr hg (by simp only [Cell.kids, List.mem_map]; exact ⟨p, hp, rfl⟩)) K]
  exact absH_fuel_le hle hn

theorem items_abs_after_write {h : Heap} {rank : Addr → Nat} (hr : h.RankedBy rank) {par : Addr}
    {xs : List Addr} (hg : h.get? par = some (.list xs)) (cell' : Cell) {G K : Nat} (hle : G ≤ K)
    {ns : List Node} (hm : optMapM (absH G h) xs = some ns) :
    optMapM (absH K (h.write par cell')) xs = some ns := by
  refine optMapM_imp ?_ hm
  intro x hx n hn
  rw [absH_write_frame cell' (not_reach_kid hr hg (by simpa [Cell.kids] using hx)) K]
  exact absH_fuel_le hle hn

/-- what every refinement step assumes about the destination: the parent of `path` is reached from
    the root along that path only, and the value to attach does not contain it -/
def Dest (h : Heap) (root : Addr) (pp : Path) (vs : List Addr) : Prop :=
  ∀ par, evalH h root pp = some par → SolePath h root pp par ∧ ∀ v ∈ vs, ¬ Reach h v par

theorem doAddH_abs {h : Heap} {rank : Addr → Nat} (hr : h.RankedBy rank) (hm : h.MapsOk)
    {F Fv : Nat} {root v : Addr} {d nv : Node} {path : Path} (hpl : Plain path) (hp : path ≠ [])
    (hd : absH F h root = some d) (hv : absH Fv h v = some nv)
    (hdest : Dest h root (parent path) [v]) :
    absH (F + Fv + 1) (doAddH (some v) path h root).1 root = some (Ytk.Patch.doAdd (some nv) path d).1 ∧
    (doAddH (some v) path h root).2 = (Ytk.Patch.doAdd (some nv) path d).2 := by
  have hplp := plain_parent hpl
  have hlast := plain_last hp hpl
  have hdF : absH (F + Fv + 1) h root = some d := absH_fuel_le (by omega) hd
  obtain ⟨k1, k2⟩ := absH_eval (parent path) F root d hplp hd
  unfold doAddH Ytk.Patch.doAdd
  dsimp only
  rw [Ytk.Ptr.eval_snd]
  cases he : evalH h root (parent path) with
  | none =>
    rw [k2 he]
    exact ⟨hdF, rfl⟩
  | some par =>
    obtain ⟨dp, hdp, hev, hlt⟩ := k1 par he
    obtain ⟨hsp, hnv⟩ := hdest par he
    have hnv := hnv v (List.mem_singleton.mpr rfl)
    rw [hev]
    dsimp only
    obtain ⟨Fp', cell, hFp, hcell, hmm⟩ := absH_inv hdp
    rw [hcell]
    cases cell with
    | leaf s =>
      simp only at hmm; subst hmm
      cases atoi (lastSegment path) <;> exact ⟨hdF, rfl⟩
    | cont kvs =>
      obtain ⟨m, hmk, rfl⟩ := hmm
      have hK : F + Fv + 1 - (parent path).length = (Fp' + Fv + 1) + 1 := by omega
      have hnew : absH (F + Fv + 1 - (parent path).length)
          (h.write par (.cont (AMap.insert kvs (lastSegment path) v))) par =
          some (.cont (AMap.insert m (lastSegment path) nv)) := by
        rw [hK, absH, get?_write_self h _ (get?_lt hcell)]
        simp only
        rw [optMapKvs_insert (by rw [absH_write_frame _ hnv]; exact absH_fuel_le (by omega) hv)
          (kvs_abs_after_write hr hcell _ (by omega) hmk)]
      have hres := abs_write_at hm (parent path) (F + Fv + 1) root d hplp hdF hsp hnew
      rw [← add_of_noSuffix m _ hlast] at hres
      cases atoi (lastSegment path) <;> exact ⟨hres, rfl⟩
    | list xs =>
      obtain ⟨ns, hmk, rfl⟩ := hmm
      have hlen := optMapM_length hmk
      cases ha : atoi (lastSegment path) with
      | none => exact ⟨hdF, rfl⟩
      | some idx =>
        dsimp only
        rw [hlen]
        by_cases hcond : idx < 0 ∨ (xs.length : Int) < idx
        · rw [if_pos hcond, if_pos hcond]
          exact ⟨hdF, rfl⟩
        · rw [if_neg hcond, if_neg hcond]
          have hins : Ytk.Patch.insertListItem ns idx nv =
              .ok (ns.take idx.toNat ++ nv :: ns.drop idx.toNat) := by
            unfold Ytk.Patch.insertListItem
            rw [hlen, if_neg hcond]
          rw [hins]
          dsimp only
          have hK : F + Fv + 1 - (parent path).length = (Fp' + Fv + 1) + 1 := by omega
          have hbase := items_abs_after_write hr hcell
            (.list (xs.take idx.toNat ++ v :: xs.drop idx.toNat)) (K := Fp' + Fv + 1) (by omega) hmk
          have hnew : absH (F + Fv + 1 - (parent path).length)
              (h.write par (.list (xs.take idx.toNat ++ v :: xs.drop idx.toNat))) par =
              some (.list (ns.take idx.toNat ++ nv :: ns.drop idx.toNat)) := by
            rw [hK, absH, get?_write_self h _ (get?_lt hcell)]
            simp only
            rw [optMapM_append (optMapM_take idx.toNat hbase)
              (optMapM_cons_some.mpr ⟨nv, _, by rw [absH_write_frame _ hnv]; exact absH_fuel_le (by omega) hv,
                optMapM_drop idx.toNat hbase, rfl⟩)]
          exact ⟨abs_write_at hm (parent path) (F + Fv + 1) root d hplp hdF hsp hnew, rfl⟩

end Ytk.Heap
