/-
  YtkProofs.HeapPatchAbs — refinement: the heap-level patch operations (YtkModel/HeapPatch.lean)
  abstract to the value-level ones (YtkModel/Patch.lean) when the written parent cell is reached
  from the document root along ONE path only (tree-shaped documents).

  1. evaluation: `evalH` on the heap ↔ `Ptr.eval` on the abstraction (plain tokens);
  2. `abs_write_at`: a write of the cell at the end of a sole path is `setAt` on the abstraction;
  3. per operation.
-/
import YtkProofs.HeapPatch
import YtkProofs.Patch

namespace Ytk.Heap
open Heap
open Ytk.Ptr (Path atoi parent lastSegment)

/-- member names without an index group at the end (`Child` / `AddValue` take them literally) -/
def Plain (p : Path) : Prop := ∀ t ∈ p, hasIdxSuffix t = false

/-! ## helpers on `optMapM` -/

theorem optMapM_length' {g : Addr → Option Node} : ∀ {xs : List Addr} {ns : List Node},
    optMapM g xs = some ns → ns.length = xs.length
  | [], ns, h => by simp only [optMapM, Option.some.injEq] at h; subst h; rfl
  | x :: xs, ns, h => by
    obtain ⟨n, ns', _, hxs, rfl⟩ := optMapM_cons_some.mp h
    simp only [List.length_cons, optMapM_length' hxs]

theorem optMapM_getElem?' {g : Addr → Option Node} : ∀ {xs : List Addr} {ns : List Node} {i : Nat} {c : Addr},
    optMapM g xs = some ns → xs[i]? = some c → ∃ dc, g c = some dc ∧ ns[i]? = some dc
  | [], _, _, _, _, hc => by simp at hc
  | x :: xs, ns, i, c, h, hc => by
    obtain ⟨n, ns', hn, hxs, rfl⟩ := optMapM_cons_some.mp h
    cases i with
    | zero =>
      simp only [List.getElem?_cons_zero, Option.some.injEq] at hc
      subst hc
      exact ⟨n, hn, rfl⟩
    | succ j =>
      simp only [List.getElem?_cons_succ] at hc ⊢
      exact optMapM_getElem?' hxs hc

theorem optMapM_take {g : Addr → Option Node} : ∀ {xs : List Addr} {ns : List Node} (i : Nat),
    optMapM g xs = some ns → optMapM g (xs.take i) = some (ns.take i)
  | [], ns, i, h => by simp only [optMapM, Option.some.injEq] at h; subst h; simp [optMapM]
  | x :: xs, ns, i, h => by
    obtain ⟨n, ns', hn, hxs, rfl⟩ := optMapM_cons_some.mp h
    cases i with
    | zero => simp [optMapM]
    | succ j =>
      simp only [List.take_succ_cons]
      exact optMapM_cons_some.mpr ⟨n, _, hn, optMapM_take j hxs, rfl⟩

theorem optMapM_drop {g : Addr → Option Node} : ∀ {xs : List Addr} {ns : List Node} (i : Nat),
    optMapM g xs = some ns → optMapM g (xs.drop i) = some (ns.drop i)
  | [], ns, i, h => by simp only [optMapM, Option.some.injEq] at h; subst h; simp [optMapM]
  | x :: xs, ns, i, h => by
    obtain ⟨n, ns', hn, hxs, rfl⟩ := optMapM_cons_some.mp h
    cases i with
    | zero => simpa using h
    | succ j =>
      simp only [List.drop_succ_cons]
      exact optMapM_drop j hxs

theorem optMapM_set' {g g' : Addr → Option Node} : ∀ {xs : List Addr} {ns : List Node} {i : Nat} {c : Addr} {y : Node},
    optMapM g xs = some ns → xs[i]? = some c → g' c = some y →
    (∀ j x, xs[j]? = some x → j ≠ i → g' x = g x) → optMapM g' xs = some (ns.set i y)
  | [], _, _, _, _, _, hc, _, _ => by simp at hc
  | x :: xs, ns, i, c, y, h, hc, hy, hoth => by
    obtain ⟨n, ns', hn, hxs, rfl⟩ := optMapM_cons_some.mp h
    cases i with
    | zero =>
      simp only [List.getElem?_cons_zero, Option.some.injEq] at hc
      subst hc
      simp only [List.set_cons_zero]
      refine optMapM_cons_some.mpr ⟨y, ns', hy, ?_, rfl⟩
      rw [optMapM_congr (g := g') (g' := g)]
      · exact hxs
      · intro z hz
        obtain ⟨j, hj⟩ := List.getElem?_of_mem hz
        exact hoth (j + 1) z (by simpa using hj) (by omega)
    | succ j =>
      simp only [List.getElem?_cons_succ] at hc
      simp only [List.set_cons_succ]
      refine optMapM_cons_some.mpr ⟨n, _, ?_, ?_, rfl⟩
      · rw [hoth 0 x (by simp) (by omega)]; exact hn
      · exact optMapM_set' hxs hc hy (fun k z hz hk => hoth (k + 1) z (by simpa using hz) (by omega))

/-- replace the abstraction of ONE member (unique keys), all others unchanged -/
theorem optMapKvs_update {g g' : Addr → Option Node} {t : String} {c : Addr} {y : Node} :
    ∀ {kvs : List (String × Addr)} {m : List (String × Node)}, AMap.Sorted kvs →
      optMapKvs g kvs = some m → AMap.get? kvs t = some c → g' c = some y →
      (∀ p ∈ kvs, p.1 ≠ t → g' p.2 = g p.2) → optMapKvs g' kvs = some (AMap.insert m t y)
  | [], _, _, _, hc, _, _ => by simp [AMap.get?] at hc
  | (k, x) :: kvs, m, hs, h, hc, hy, hoth => by
    obtain ⟨n, ns', hn, hxs, rfl⟩ := optMapKvs_cons_some.mp h
    simp only [AMap.get?] at hc
    by_cases hk : t = k
    · subst hk
      simp only [if_true, Option.some.injEq] at hc
      subst hc
      have hins : AMap.insert ((t, n) :: ns') t y = (t, y) :: ns' := by
        simp only [AMap.insert]
        have : ¬ t < t := String.lt_irrefl t
        simp [this]
      rw [hins]
      refine optMapKvs_cons_some.mpr ⟨y, ns', hy, ?_, rfl⟩
      rw [optMapKvs_congr (g := g') (g' := g)]
      · exact hxs
      · intro p hp
        have hlt : t < p.1 := (AMap.Sorted.head_lt hs) p hp
        exact hoth p (List.mem_cons_of_mem _ hp) (fun e => String.lt_irrefl t (e ▸ hlt))
    · simp only [hk, if_false] at hc
      have hgx : g' x = g x := hoth (k, x) (List.mem_cons_self ..) (fun e => hk e.symm)
      have hrec := optMapKvs_update (AMap.Sorted.tail hs) hxs hc hy
        (fun p hp hne => hoth p (List.mem_cons_of_mem _ hp) hne)
      -- t is a key of the tail, all of whose keys are above k
      have hkt : k < t := (AMap.Sorted.head_lt hs) (t, c) (AMap.mem_of_get? hc)
      have hins : AMap.insert ((k, n) :: ns') t y = (k, n) :: AMap.insert ns' t y := by
        simp only [AMap.insert]
        have h1 : ¬ t < k := fun h2 => String.lt_irrefl k (String.lt_trans hkt h2)
        simp [h1, hk]
      rw [hins]
      exact optMapKvs_cons_some.mpr ⟨n, _, by rw [hgx]; exact hn, hrec, rfl⟩

/-! ## 1. evaluation on the heap and on the abstraction -/

theorem absH_step {F : Nat} {h : Heap} {a : Addr} {t : String} {d : Node} (hp : hasIdxSuffix t = false)
    (hd : absH (F + 1) h a = some d) :
    (∀ c, stepH h a t = some c → ∃ dc, absH F h c = some dc ∧ Ptr.step d t = some dc) ∧
    (stepH h a t = none → Ptr.step d t = none) := by
  obtain ⟨F', cell, hF, hc, hm⟩ := absH_inv hd
  cases Nat.succ.inj hF
  unfold stepH
  rw [hc]
  cases cell with
  | leaf s =>
    simp only at hm; subst hm
    exact ⟨fun c hc' => (by cases hc'), fun _ => rfl⟩
  | cont kvs =>
    obtain ⟨m, hmm, rfl⟩ := hm
    simp only [Ptr.step, child_of_noSuffix m hp]
    constructor
    · intro c hc'
      exact optMapKvs_get?_some hmm hc'
    · intro hn
      exact optMapKvs_get?_none hmm hn
  | list xs =>
    obtain ⟨ns, hmm, rfl⟩ := hm
    have hlen := optMapM_length' hmm
    simp only [Ptr.step]
    cases ha : atoi t with
    | none => exact ⟨fun c hc' => (by cases hc'), fun _ => rfl⟩
    | some i =>
      simp only [hlen]
      by_cases hcond : 0 ≤ i ∧ i < (xs.length : Int)
      · simp only [hcond, and_self, if_true]
        constructor
        · intro c hc'
          exact optMapM_getElem?' hmm hc'
        · intro hn
          have : xs.length ≤ i.toNat := List.getElem?_eq_none_iff.mp hn
          omega
      · rw [if_neg hcond, if_neg hcond]
        exact ⟨fun c hc' => (by cases hc'), fun _ => rfl⟩

/-- `Path.Eval` on the heap and on the abstraction agree (plain tokens); the node found abstracts
    with the fuel that is left -/
theorem absH_eval {h : Heap} : ∀ (pp : Path) (F : Nat) (a : Addr) (d : Node), Plain pp →
    absH F h a = some d →
    (∀ b, evalH h a pp = some b →
      ∃ db, absH (F - pp.length) h b = some db ∧ (Ptr.evalLoop d pp).2 = some db ∧ pp.length < F) ∧
    (evalH h a pp = none → (Ptr.evalLoop d pp).2 = none)
  | [], F, a, d, _, hd => by
    refine ⟨fun b hb => ?_, fun hn => by simp [evalH] at hn⟩
    simp only [evalH, Option.some.injEq] at hb
    subst hb
    refine ⟨d, by simpa using hd, rfl, ?_⟩
    cases F with
    | zero => simp [absH] at hd
    | succ F' => simp
  | t :: ts, F, a, d, hpl, hd => by
    cases F with
    | zero => simp [absH] at hd
    | succ F' =>
      have ht := hpl t (List.mem_cons_self ..)
      have hts : Plain ts := fun x hx => hpl x (List.mem_cons_of_mem _ hx)
      obtain ⟨h1, h2⟩ := absH_step ht hd
      simp only [evalH, Ptr.evalLoop]
      cases hs : stepH h a t with
      | none =>
        rw [h2 hs]
        exact ⟨fun b hb => (by cases hb), fun _ => rfl⟩
      | some c =>
        obtain ⟨dc, hdc, hstep⟩ := h1 c hs
        rw [hstep]
        obtain ⟨k1, k2⟩ := absH_eval ts F' c dc hts hdc
        refine ⟨fun b hb => ?_, fun hn => k2 hn⟩
        obtain ⟨db, hdb, hev, hlt⟩ := k1 b hb
        refine ⟨db, ?_, hev, by simp only [List.length_cons]; omega⟩
        simp only [List.length_cons, Nat.add_sub_add_right]
        exact hdb

/-! ## 2. a write at the end of a sole path is `setAt` -/

/-- `par` is reached from `a` along `pp`, and along no other way: at every cell on the way all other
    members / items do not reach `par`, and the cell is not `par` itself -/
def SolePath (h : Heap) : Addr → Path → Addr → Prop
  | a, [], par => a = par
  | a, t :: ts, par =>
    a ≠ par ∧ ∃ c, stepH h a t = some c ∧ SolePath h c ts par ∧
      match h.get? a with
      | some (.cont kvs) => ∀ p ∈ kvs, p.1 ≠ t → ¬ Reach h p.2 par
      | some (.list xs) => ∀ (j : Nat) (x : Addr), xs[j]? = some x → (atoi t ≠ some (j : Int)) → ¬ Reach h x par
      | _ => False

theorem solePath_eval {h : Heap} : ∀ (pp : Path) (a par : Addr), SolePath h a pp par → evalH h a pp = some par
  | [], a, par, hs => by simp only [SolePath] at hs; subst hs; rfl
  | t :: ts, a, par, hs => by
    obtain ⟨_, c, hc, hrest, _⟩ := hs
    simp only [evalH, hc]
    exact solePath_eval ts c par hrest

/-- THE WRITE LEMMA: if the cell `par` at the end of the sole path `pp` from `root` is overwritten
    and abstracts to `newN` afterwards, the root abstracts to `setAt d pp newN` -/
theorem abs_write_at {h : Heap} {par : Addr} {cell' : Cell} {newN : Node} :
    ∀ (pp : Path) (F : Nat) (root : Addr) (d : Node),
      (∀ a kvs, Reach h root a → h.get? a = some (.cont kvs) → AMap.Sorted kvs) →
      Plain pp → absH F h root = some d →
      SolePath h root pp par → absH (F - pp.length) (h.write par cell') par = some newN →
      absH F (h.write par cell') root = some (Ytk.Patch.setAt d pp newN)
  | [], F, root, d, _, _, _, hs, hnew => by
    simp only [SolePath] at hs; subst hs
    simpa [Ytk.Patch.setAt] using hnew
  | t :: ts, F, root, d, hm, hpl, hd, hs, hnew => by
    cases F with
    | zero => simp [absH] at hd
    | succ F' =>
      have ht := hpl t (List.mem_cons_self ..)
      have hts : Plain ts := fun x hx => hpl x (List.mem_cons_of_mem _ hx)
      obtain ⟨hne, c, hstep, hrest, hoth⟩ := hs
      have hmc : ∀ a kvs, Reach h c a → h.get? a = some (.cont kvs) → AMap.Sorted kvs := by
        obtain ⟨cell0, hg0, hk0⟩ := stepH_kid hstep
        exact fun a kvs hr hg => hm a kvs ((Reach.child hg0 hk0).trans hr) hg
      obtain ⟨F'', cell, hF, hcell, hmm⟩ := absH_inv hd
      cases Nat.succ.inj hF
      have hnew' : absH (F' - ts.length) (h.write par cell') par = some newN := by
        simpa [List.length_cons, Nat.add_sub_add_right] using hnew
      have hget : (h.write par cell').get? root = some cell := by
        rw [get?_write_ne h cell' hne]; exact hcell
      rw [hcell] at hoth
      unfold stepH at hstep
      rw [hcell] at hstep
      cases cell with
      | leaf s => cases hstep
      | cont kvs =>
        obtain ⟨m, hmk, rfl⟩ := hmm
        simp only at hstep hoth
        obtain ⟨dc, hdc, hgetm⟩ := optMapKvs_get?_some hmk hstep
        have ih := abs_write_at ts F' c dc hmc hts hdc hrest hnew'
        have hsetAt : Ytk.Patch.setAt (.cont m) (t :: ts) newN =
            .cont (AMap.insert m t (Ytk.Patch.setAt dc ts newN)) := by
          simp only [Ytk.Patch.setAt, child_of_noSuffix m ht, hgetm, add_of_noSuffix m _ ht]
        rw [hsetAt, absH, hget]
        simp only
        rw [optMapKvs_update (hm root kvs (.refl _) hcell) hmk hstep ih
          (fun p hp hne' => absH_write_frame cell' (hoth p hp hne') F')]
      | list xs =>
        obtain ⟨ns, hmk, rfl⟩ := hmm
        simp only at hstep hoth
        cases ha : atoi t with
        | none => simp [ha] at hstep
        | some i =>
          simp only [ha] at hstep
          split at hstep
          · rename_i hcond
            obtain ⟨dc, hdc, hgetn⟩ := optMapM_getElem?' hmk hstep
            have ih := abs_write_at ts F' c dc hmc hts hdc hrest hnew'
            have hi : ((i.toNat : Nat) : Int) = i := Int.toNat_of_nonneg hcond.1
            have hsetAt : Ytk.Patch.setAt (.list ns) (t :: ts) newN =
                .list (ns.set i.toNat (Ytk.Patch.setAt dc ts newN)) :=
              Ytk.Patch.setAt_cons_list ts newN (by rw [ha, hi]) hgetn
            rw [hsetAt, absH, hget]
            simp only
            rw [optMapM_set' hmk hstep ih (fun j x hx hj => absH_write_frame cell'
              (hoth j x hx (by rw [ha]; intro e; apply hj; have := Option.some.inj e; omega)) F')]
          · cases hstep

/-! ## 3. per operation -/

theorem plain_parent {p : Path} (h : Plain p) : Plain (parent p) := by
  intro t ht
  unfold parent at ht
  split at ht
  · cases ht
  · exact h t (List.mem_of_mem_take ht)

theorem plain_last {p : Path} (hp : p ≠ []) (h : Plain p) : hasIdxSuffix (lastSegment p) = false := by
  unfold lastSegment
  rw [List.getLast?_eq_some_getLast hp]
  exact h _ (List.getLast_mem hp)

theorem not_reach_kid {h : Heap} {rank : Addr → Nat} (hr : h.RankedBy rank) {par k : Addr} {c : Cell}
    (hg : h.get? par = some c) (hk : k ∈ c.kids) : ¬ Reach h k par := by
  intro hreach
  have h1 := rank_le_of_reach' hr hreach
  have h2 := hr par c hg k hk
  omega

/-- the members of the written cell abstract as before (acyclic: none of them reaches the cell) -/
theorem kvs_abs_after_write {h : Heap} {par : Addr}
    {kvs : AMap Addr} (hk : ∀ k ∈ (Cell.cont kvs).kids, ¬ Reach h k par) (cell' : Cell) {G K : Nat} (hle : G ≤ K)
    {m : List (String × Node)} (hm : optMapKvs (absH G h) kvs = some m) :
    optMapKvs (absH K (h.write par cell')) kvs = some m := by
  refine optMapKvs_imp ?_ hm
  intro p hp n hn
  rw [absH_write_frame cell' (hk p.2 (by simp only [Cell.kids, List.mem_map]; exact ⟨p, hp, rfl⟩)) K]
  exact absH_fuel_le hle hn

theorem items_abs_after_write {h : Heap} {par : Addr}
    {xs : List Addr} (hk : ∀ k ∈ (Cell.list xs).kids, ¬ Reach h k par) (cell' : Cell) {G K : Nat} (hle : G ≤ K)
    {ns : List Node} (hm : optMapM (absH G h) xs = some ns) :
    optMapM (absH K (h.write par cell')) xs = some ns := by
  refine optMapM_imp ?_ hm
  intro x hx n hn
  rw [absH_write_frame cell' (hk x (by simpa [Cell.kids] using hx)) K]
  exact absH_fuel_le hle hn

/-- what every refinement step assumes about the destination: the parent of `path` is reached from
    the root along that path only, and the value to attach does not contain it -/
def Dest (h : Heap) (root : Addr) (pp : Path) (vs : List Addr) : Prop :=
  ∀ par, evalH h root pp = some par → SolePath h root pp par ∧
    (∀ c, h.get? par = some c → ∀ k ∈ c.kids, ¬ Reach h k par) ∧ ∀ v ∈ vs, ¬ Reach h v par

/-- on an acyclic heap the middle clause of `Dest` is automatic -/
theorem dest_of_ranked {h : Heap} {rank : Addr → Nat} (hr : h.RankedBy rank) {root : Addr} {pp : Path}
    {vs : List Addr}
    (hd : ∀ par, evalH h root pp = some par → SolePath h root pp par ∧ ∀ v ∈ vs, ¬ Reach h v par) :
    Dest h root pp vs :=
  fun par he => ⟨(hd par he).1, fun _ hg _ hk => not_reach_kid hr hg hk, (hd par he).2⟩

theorem doAddH_abs {h : Heap} {root : Addr}
    (hm : ∀ a kvs, Reach h root a → h.get? a = some (.cont kvs) → AMap.Sorted kvs)
    {F Fv : Nat} {v : Addr} {d nv : Node} {path : Path} (hpl : Plain path) (hp : path ≠ [])
    (hd : absH F h root = some d) (hv : absH Fv h v = some nv)
    (hdest : Dest h root (parent path) [v]) :
    absH (F + Fv + 1) (doAddH (some v) path h root).1 root = some (Ytk.Patch.doAdd (some nv) path d).1 ∧
    (doAddH (some v) path h root).2 = (Ytk.Patch.doAdd (some nv) path d).2 := by
  have hplp := plain_parent hpl
  have hlast := plain_last hp hpl
  have hdF : absH (F + Fv + 1) h root = some d := absH_fuel_le (by omega) hd
  obtain ⟨k1, k2⟩ := absH_eval (parent path) F root d hplp hd
  unfold doAddH Ytk.Patch.doAdd
  dsimp only
  rw [Ytk.Ptr.eval_snd]
  cases he : evalH h root (parent path) with
  | none =>
    rw [k2 he]
    exact ⟨hdF, rfl⟩
  | some par =>
    obtain ⟨dp, hdp, hev, hlt⟩ := k1 par he
    obtain ⟨hsp, hkids, hnv⟩ := hdest par he
    have hnv := hnv v (List.mem_singleton.mpr rfl)
    rw [hev]
    dsimp only
    obtain ⟨Fp', cell, hFp, hcell, hmm⟩ := absH_inv hdp
    rw [hcell]
    cases cell with
    | leaf s =>
      simp only at hmm; subst hmm
      cases atoi (lastSegment path) <;> exact ⟨hdF, rfl⟩
    | cont kvs =>
      obtain ⟨m, hmk, rfl⟩ := hmm
      have hK : F + Fv + 1 - (parent path).length = (Fp' + Fv + 1) + 1 := by omega
      have hnew : absH (F + Fv + 1 - (parent path).length)
          (h.write par (.cont (AMap.insert kvs (lastSegment path) v))) par =
          some (.cont (AMap.insert m (lastSegment path) nv)) := by
        rw [hK, absH, get?_write_self h _ (get?_lt hcell)]
        simp only
        rw [optMapKvs_insert (by rw [absH_write_frame _ hnv]; exact absH_fuel_le (by omega) hv)
          (kvs_abs_after_write (hkids _ hcell) _ (by omega) hmk)]
      have hres := abs_write_at (parent path) (F + Fv + 1) root d hm hplp hdF hsp hnew
      rw [← add_of_noSuffix m _ hlast] at hres
      cases atoi (lastSegment path) <;> exact ⟨hres, rfl⟩
    | list xs =>
      obtain ⟨ns, hmk, rfl⟩ := hmm
      have hlen := optMapM_length' hmk
      cases ha : atoi (lastSegment path) with
      | none => exact ⟨hdF, rfl⟩
      | some idx =>
        dsimp only
        rw [hlen]
        by_cases hcond : idx < 0 ∨ (xs.length : Int) < idx
        · rw [if_pos hcond, if_pos hcond]
          exact ⟨hdF, rfl⟩
        · rw [if_neg hcond, if_neg hcond]
          have hins : Ytk.Patch.insertListItem ns idx nv =
              .ok (ns.take idx.toNat ++ nv :: ns.drop idx.toNat) := by
            unfold Ytk.Patch.insertListItem
            rw [hlen, if_neg hcond]
          rw [hins]
          dsimp only
          have hK : F + Fv + 1 - (parent path).length = (Fp' + Fv + 1) + 1 := by omega
          have hbase := items_abs_after_write (hkids _ hcell)
            (.list (xs.take idx.toNat ++ v :: xs.drop idx.toNat)) (K := Fp' + Fv + 1) (by omega) hmk
          have hnew : absH (F + Fv + 1 - (parent path).length)
              (h.write par (.list (xs.take idx.toNat ++ v :: xs.drop idx.toNat))) par =
              some (.list (ns.take idx.toNat ++ nv :: ns.drop idx.toNat)) := by
            rw [hK, absH, get?_write_self h _ (get?_lt hcell)]
            simp only
            rw [optMapM_append (optMapM_take idx.toNat hbase)
              (optMapM_cons_some.mpr ⟨nv, _, by rw [absH_write_frame _ hnv]; exact absH_fuel_le (by omega) hv,
                optMapM_drop idx.toNat hbase, rfl⟩)]
          exact ⟨abs_write_at (parent path) (F + Fv + 1) root d hm hplp hdF hsp hnew, rfl⟩

theorem optMapKvs_erase' {g : Addr → Option Node} (k : String) :
    ∀ {kvs : List (String × Addr)} {m : List (String × Node)},
      optMapKvs g kvs = some m → optMapKvs g (AMap.erase kvs k) = some (AMap.erase m k)
  | [], m, h => by simp only [optMapKvs, Option.some.injEq] at h; subst h; rfl
  | (k', a) :: kvs, m, h => by
    obtain ⟨n, ns, hn, hxs, rfl⟩ := optMapKvs_cons_some.mp h
    simp only [AMap.erase]
    split
    · exact hxs
    · exact optMapKvs_cons_some.mpr ⟨n, _, hn, optMapKvs_erase' k hxs, rfl⟩

theorem optMapM_set_same {g : Addr → Option Node} {v : Addr} {nv : Node} (hv : g v = some nv) :
    ∀ {xs : List Addr} {ns : List Node} (i : Nat),
      optMapM g xs = some ns → optMapM g (xs.set i v) = some (ns.set i nv)
  | [], ns, i, h => by simp only [optMapM, Option.some.injEq] at h; subst h; simp [optMapM]
  | x :: xs, ns, i, h => by
    obtain ⟨n, ns', hn, hxs, rfl⟩ := optMapM_cons_some.mp h
    cases i with
    | zero => simp only [List.set_cons_zero]; exact optMapM_cons_some.mpr ⟨nv, ns', hv, hxs, rfl⟩
    | succ j =>
      simp only [List.set_cons_succ]
      exact optMapM_cons_some.mpr ⟨n, _, hn, optMapM_set_same hv j hxs, rfl⟩

theorem doRemoveH_abs {h : Heap} {root : Addr}
    (hm : ∀ a kvs, Reach h root a → h.get? a = some (.cont kvs) → AMap.Sorted kvs)
    {F : Nat} {d : Node} {path : Path} (hpl : Plain path) (hp : path ≠ [])
    (hd : absH F h root = some d) (hdest : Dest h root (parent path) []) :
    absH F (doRemoveH path h root).1 root = some (Ytk.Patch.doRemove path d).1 ∧
    (doRemoveH path h root).2 = (Ytk.Patch.doRemove path d).2 := by
  have hplp := plain_parent hpl
  obtain ⟨k1, k2⟩ := absH_eval (parent path) F root d hplp hd
  obtain ⟨j1, j2⟩ := absH_eval path F root d hpl hd
  unfold doRemoveH Ytk.Patch.doRemove
  rw [Ytk.Ptr.eval_snd, Ytk.Ptr.eval_snd]
  cases hn : evalH h root path with
  | none => rw [j2 hn]; exact ⟨hd, rfl⟩
  | some n =>
    obtain ⟨dn, _, hevn, _⟩ := j1 n hn
    rw [hevn]
    dsimp only
    cases he : evalH h root (parent path) with
    | none => rw [k2 he]; exact ⟨hd, rfl⟩
    | some par =>
      obtain ⟨dp, hdp, hev, hlt⟩ := k1 par he
      obtain ⟨hsp, hkids, _⟩ := hdest par he
      rw [hev]
      dsimp only
      obtain ⟨Fp', cell, hFp, hcell, hmm⟩ := absH_inv hdp
      rw [hcell]
      cases cell with
      | leaf s =>
        simp only at hmm; subst hmm
        cases atoi (lastSegment path) <;> exact ⟨hd, rfl⟩
      | cont kvs =>
        obtain ⟨m, hmk, rfl⟩ := hmm
        have hnew : absH (F - (parent path).length)
            (h.write par (.cont (AMap.erase kvs (lastSegment path)))) par =
            some (.cont (AMap.erase m (lastSegment path))) := by
          rw [hFp, absH, get?_write_self h _ (get?_lt hcell)]
          simp only
          rw [optMapKvs_erase' _ (kvs_abs_after_write (hkids _ hcell) _ (Nat.le_refl _) hmk)]
        have hres := abs_write_at (parent path) F root d hm hplp hd hsp hnew
        cases atoi (lastSegment path) <;> exact ⟨hres, rfl⟩
      | list xs =>
        obtain ⟨ns, hmk, rfl⟩ := hmm
        have hlen := optMapM_length' hmk
        cases ha : atoi (lastSegment path) with
        | none => exact ⟨hd, rfl⟩
        | some idx =>
          dsimp only
          unfold Ytk.Patch.removeListItem
          rw [hlen]
          by_cases hcond : idx < -1 ∨ (xs.length : Int) < idx
          · rw [if_pos hcond, if_pos hcond]
            exact ⟨hd, rfl⟩
          · rw [if_neg hcond, if_neg hcond]
            by_cases h1 : idx = -1
            · rw [if_pos h1, if_pos h1]
              dsimp only
              have hnew : absH (F - (parent path).length) (h.write par (.list xs)) par = some (.list ns) := by
                rw [hFp, absH, get?_write_self h _ (get?_lt hcell)]
                simp only
                rw [items_abs_after_write (hkids _ hcell) _ (Nat.le_refl _) hmk]
              exact ⟨abs_write_at (parent path) F root d hm hplp hd hsp hnew, rfl⟩
            · rw [if_neg h1, if_neg h1]
              dsimp only
              have hbase := items_abs_after_write (hkids _ hcell)
                (.list (xs.take idx.toNat ++ xs.drop (idx.toNat + 1))) (Nat.le_refl Fp') hmk
              have hnew : absH (F - (parent path).length)
                  (h.write par (.list (xs.take idx.toNat ++ xs.drop (idx.toNat + 1)))) par =
                  some (.list (ns.take idx.toNat ++ ns.drop (idx.toNat + 1))) := by
                rw [hFp, absH, get?_write_self h _ (get?_lt hcell)]
                simp only
                rw [optMapM_append (optMapM_take idx.toNat hbase) (optMapM_drop (idx.toNat + 1) hbase)]
              exact ⟨abs_write_at (parent path) F root d hm hplp hd hsp hnew, rfl⟩

theorem doReplaceH_abs {h : Heap} {root : Addr}
    (hm : ∀ a kvs, Reach h root a → h.get? a = some (.cont kvs) → AMap.Sorted kvs)
    {F Fv : Nat} {v : Addr} {d nv : Node} {path : Path} (hpl : Plain path) (hp : path ≠ [])
    (hd : absH F h root = some d) (hv : absH Fv h v = some nv)
    (hdest : Dest h root (parent path) [v]) :
    absH (F + Fv + 1) (doReplaceH (some v) path h root).1 root = some (Ytk.Patch.doReplace (some nv) path d).1 ∧
    (doReplaceH (some v) path h root).2 = (Ytk.Patch.doReplace (some nv) path d).2 := by
  have hplp := plain_parent hpl
  have hlast := plain_last hp hpl
  have hdF : absH (F + Fv + 1) h root = some d := absH_fuel_le (by omega) hd
  obtain ⟨k1, k2⟩ := absH_eval (parent path) F root d hplp hd
  obtain ⟨j1, j2⟩ := absH_eval path F root d hpl hd
  unfold doReplaceH Ytk.Patch.doReplace
  dsimp only
  rw [Ytk.Ptr.eval_snd, Ytk.Ptr.eval_snd]
  cases hn : evalH h root path with
  | none => rw [j2 hn]; exact ⟨hdF, rfl⟩
  | some n =>
    obtain ⟨dn, _, hevn, _⟩ := j1 n hn
    rw [hevn]
    dsimp only
    cases he : evalH h root (parent path) with
    | none => rw [k2 he]; exact ⟨hdF, rfl⟩
    | some par =>
      obtain ⟨dp, hdp, hev, hlt⟩ := k1 par he
      obtain ⟨hsp, hkids, hnv⟩ := hdest par he
      have hnv := hnv v (List.mem_singleton.mpr rfl)
      rw [hev]
      dsimp only
      obtain ⟨Fp', cell, hFp, hcell, hmm⟩ := absH_inv hdp
      rw [hcell]
      have hK : F + Fv + 1 - (parent path).length = (Fp' + Fv + 1) + 1 := by omega
      cases cell with
      | leaf s =>
        simp only at hmm; subst hmm
        cases atoi (lastSegment path) <;> exact ⟨hdF, rfl⟩
      | cont kvs =>
        obtain ⟨m, hmk, rfl⟩ := hmm
        have hnew : absH (F + Fv + 1 - (parent path).length)
            (h.write par (.cont (AMap.insert kvs (lastSegment path) v))) par =
            some (.cont (AMap.insert m (lastSegment path) nv)) := by
          rw [hK, absH, get?_write_self h _ (get?_lt hcell)]
          simp only
          rw [optMapKvs_insert (by rw [absH_write_frame _ hnv]; exact absH_fuel_le (by omega) hv)
            (kvs_abs_after_write (hkids _ hcell) _ (by omega) hmk)]
        have hres := abs_write_at (parent path) (F + Fv + 1) root d hm hplp hdF hsp hnew
        rw [← add_of_noSuffix m _ hlast] at hres
        cases atoi (lastSegment path) <;> exact ⟨hres, rfl⟩
      | list xs =>
        obtain ⟨ns, hmk, rfl⟩ := hmm
        have hlen := optMapM_length' hmk
        cases ha : atoi (lastSegment path) with
        | none => exact ⟨hdF, rfl⟩
        | some idx =>
          dsimp only
          by_cases hcond : idx < 0
          · rw [if_pos hcond, if_pos hcond]
            exact ⟨hdF, rfl⟩
          · rw [if_neg hcond, if_neg hcond]
            -- the target exists, so the index is in range and `Set` does not pad
            obtain ⟨par', hpar', hstep⟩ := evalH_parent_last hp hn
            rw [he] at hpar'
            cases Option.some.inj hpar'
            have hin : idx.toNat < xs.length := by
              unfold stepH at hstep
              simp only [hcell, ha] at hstep
              split at hstep
              · rename_i hc2; omega
              · cases hstep
            have e1 : idx.toNat + 1 - xs.length = 0 := by omega
            have e2 : idx.toNat + 1 - ns.length = 0 := by omega
            have hls : Ytk.listSet ns idx.toNat nv = ns.set idx.toNat nv := by
              simp only [Ytk.listSet, Ytk.padTo, e2, List.replicate_zero, List.append_nil]
            rw [hls, e1]
            simp only [List.replicate_zero, List.append_nil]
            have hbase := items_abs_after_write (hkids _ hcell)
              (.list (xs.set idx.toNat v)) (K := Fp' + Fv + 1) (by omega) hmk
            have hnew : absH (F + Fv + 1 - (parent path).length)
                (h.write par (.list (xs.set idx.toNat v))) par = some (.list (ns.set idx.toNat nv)) := by
              rw [hK, absH, get?_write_self h _ (get?_lt hcell)]
              simp only
              rw [optMapM_set_same (by rw [absH_write_frame _ hnv]; exact absH_fuel_le (by omega) hv)
                idx.toNat hbase]
            exact ⟨abs_write_at (parent path) (F + Fv + 1) root d hm hplp hdF hsp hnew, trivial⟩

/-! ### copy: Clone, then add on the extended heap -/

/-- in an extension of a closed heap an old root reaches what it reached -/
theorem reach_old {h h1 : Heap} (hl : h ≤ h1) (hcl : h.Closed) {x : Addr} (hx : x < h.size) {b : Addr}
    (hb : Reach h1 x b) : Reach h x b ∧ b < h.size := by
  refine Reach.closed_set (fun y => Reach h x y ∧ y < h.size) ?_ hb ⟨.refl _, hx⟩
  intro a c ⟨ha, halt⟩ hg k hk
  rw [get?_eq_of_le hl halt] at hg
  exact ⟨ha.trans (Reach.child hg hk), hcl a c hg k hk⟩

theorem stepH_of_le {h h1 : Heap} (hl : h ≤ h1) {a : Addr} (ha : a < h.size) (t : String) :
    stepH h1 a t = stepH h a t := by
  unfold stepH; rw [get?_eq_of_le hl ha]

theorem solePath_of_le {h h1 : Heap} (hl : h ≤ h1) (hcl : h.Closed) {par : Addr} :
    ∀ (pp : Path) (a : Addr), a < h.size → SolePath h a pp par → SolePath h1 a pp par
  | [], _, _, hs => hs
  | t :: ts, a, ha, hs => by
    obtain ⟨hne, c, hstep, hrest, hoth⟩ := hs
    obtain ⟨cell, hg, hk⟩ := stepH_kid hstep
    have hc : c < h.size := hcl a cell hg c hk
    refine ⟨hne, c, by rw [stepH_of_le hl ha]; exact hstep, solePath_of_le hl hcl ts c hc hrest, ?_⟩
    rw [get?_eq_of_le hl ha]
    rw [hg] at hoth ⊢
    cases cell with
    | leaf s => exact hoth
    | cont kvs =>
      intro p hp hne' hr
      have hp2 : p.2 < h.size := hcl a _ hg p.2 (by simp only [Cell.kids, List.mem_map]; exact ⟨p, hp, rfl⟩)
      exact hoth p hp hne' (reach_old hl hcl hp2 hr).1
    | list xs =>
      intro j x hx hne' hr
      have hx2 : x < h.size := hcl a _ hg x (by simpa [Cell.kids] using List.mem_of_getElem? hx)
      exact hoth j x hx hne' (reach_old hl hcl hx2 hr).1

theorem copyH_abs {h : Heap} {root : Addr} (hm : h.MapsOk) (hcl : h.Closed) (hroot : root < h.size)
    {d : Node} {f path : Path} (hplf : Plain f) (hpl : Plain path) (hp : path ≠ [])
    (hd : abs h root = some d) (hdest : Dest h root (parent path) []) :
    ∃ G, absH G (moveOrCopyH (some f) path h root false).1 root =
        some (Ytk.Patch.moveOrCopy (some f) path d false).1 ∧
      (moveOrCopyH (some f) path h root false).2 = (Ytk.Patch.moveOrCopy (some f) path d false).2 := by
  unfold abs at hd
  obtain ⟨j1, j2⟩ := absH_eval f h.size root d hplf hd
  unfold moveOrCopyH moveOrCopyWith Ytk.Patch.moveOrCopy
  dsimp only
  rw [Ytk.Ptr.eval_snd]
  cases hn : evalH h root f with
  | none => rw [j2 hn]; exact ⟨h.size, hd, rfl⟩
  | some n =>
    obtain ⟨dn, hdn, hevn, _⟩ := j1 n hn
    rw [hevn]
    simp only [Bool.false_eq_true, if_false]
    have hdn' : absH h.size h n = some dn := absH_fuel_le (Nat.sub_le _ _) hdn
    obtain ⟨h1, c, hc, hcn⟩ := cloneF_abs h.size h n dn hdn'
    rw [hc]
    dsimp only
    obtain ⟨hl, b1, b2, _⟩ := cloneF_spec h.size h n h1 c hc
    have hreg := cloneF_region hc
    have hm1 : ∀ a kvs, Reach h1 root a → h1.get? a = some (.cont kvs) → AMap.Sorted kvs := by
      intro a kvs hr hg
      have ha := (reach_old hl hcl hroot hr).2
      rw [get?_eq_of_le hl ha] at hg
      exact hm a kvs hg
    have hdest1 : Dest h1 root (parent path) [c] := by
      intro par he
      rw [evalH_of_le hl hcl _ root hroot] at he
      obtain ⟨hsp, hkids, _⟩ := hdest par he
      have hpar : par < h.size := evalH_lt hcl hroot he
      refine ⟨solePath_of_le hl hcl _ root hroot hsp, ?_, ?_⟩
      · intro cell hg k hk hr
        rw [get?_eq_of_le hl hpar] at hg
        exact hkids cell hg k hk (reach_old hl hcl (hcl par cell hg k hk) hr).1
      · intro v hv hr
        cases List.mem_singleton.mp hv
        exact absurd hpar (Nat.not_lt.mpr (hreg.reach hr b1 b2).1)
    have := doAddH_abs hm1 hpl hp (absH_mono hl h.size root d hd) hcn hdest1
    rw [clone_id]
    exact ⟨_, this.1, this.2⟩

/-! ### move: detach, attach, roll back -/

theorem mapsOk_write_rem {h : Heap} (hm : h.MapsOk) {pf : Addr} {last : String} {cellR : Cell}
    (hc : RemCell h pf last cellR) : (h.write pf cellR).MapsOk := by
  intro a kvs hg
  by_cases ha : a = pf
  · subst ha
    have hlt : a < h.size := by
      rcases hc with ⟨xs, idx, _, hg', _⟩ | ⟨kvs', hg', _⟩ <;> exact get?_lt hg'
    rw [get?_write_self h _ hlt] at hg
    rcases hc with ⟨xs, idx, _, _, _, _, rfl⟩ | ⟨kvs', hg', rfl⟩
    · split at hg <;> cases hg
    · cases Option.some.inj hg
      exact AMap.sorted_erase (hm a kvs' hg') last
  · rw [get?_write_ne h _ ha] at hg
    exact hm a kvs hg

theorem moveH_abs {h : Heap} {root : Addr} (hm : h.MapsOk)
    {d : Node} {f path : Path} {F : Nat} (hplf : Plain f) (hpl : Plain path) (hp : path ≠ [])
    (hd : absH F h root = some d) (hdestf : Dest h root (parent f) [])
    (hdest1 : ∀ n, evalH h root f = some n →
      Dest (doRemoveH f h root).1 root (parent path) [n] ∧ Dest (doRemoveH f h root).1 root (parent f) [n]) :
    ∃ G, absH G (moveOrCopyH (some f) path h root true).1 root =
        some (Ytk.Patch.moveOrCopy (some f) path d true).1 ∧
      (moveOrCopyH (some f) path h root true).2 = (Ytk.Patch.moveOrCopy (some f) path d true).2 := by
  have hm' : ∀ a kvs, Reach h root a → h.get? a = some (.cont kvs) → AMap.Sorted kvs :=
    fun a kvs _ hg => hm a kvs hg
  obtain ⟨j1, j2⟩ := absH_eval f F root d hplf hd
  unfold moveOrCopyH moveOrCopyWith Ytk.Patch.moveOrCopy
  dsimp only
  rw [Ytk.Ptr.eval_snd]
  cases hn : evalH h root f with
  | none => rw [j2 hn]; exact ⟨F, hd, rfl⟩
  | some n =>
    obtain ⟨dn, hdn, hevn, _⟩ := j1 n hn
    rw [hevn]
    simp only [if_true]
    by_cases hfp : f = path
    · rw [if_pos hfp, if_pos hfp]; exact ⟨F, hd, rfl⟩
    · rw [if_neg hfp, if_neg hfp]
      by_cases hpp : Ytk.Patch.properPrefix f path = true
      · rw [if_pos hpp, if_pos hpp]; exact ⟨F, hd, rfl⟩
      · rw [if_neg hpp, if_neg hpp]
        have hf : f ≠ [] := by
          intro e; subst e
          exact hpp (properPrefix_nil (fun e => hfp e.symm))
        obtain ⟨R1, R2⟩ := doRemoveH_abs hm' hplf hf hd hdestf
        obtain ⟨D1, D2⟩ := hdest1 n hn
        rcases doRemoveH_cases f h root with ⟨h0, _⟩ | h0 | ⟨n', pf, cellR, hn', hpf, h0, hcell⟩
        · rw [hn] at h0; cases h0
        · rw [h0] at R1 R2 ⊢
          generalize Ytk.Patch.doRemove f d = vr at R1 R2 ⊢
          obtain ⟨r1, o1⟩ := vr
          dsimp only at R1 R2 ⊢
          subst R2
          exact ⟨F, R1, rfl⟩
        · rw [hn] at hn'; cases Option.some.inj hn'
          rw [h0] at R1 R2 D1 D2 ⊢
          generalize Ytk.Patch.doRemove f d = vr at R1 R2 ⊢
          obtain ⟨r1, o1⟩ := vr
          dsimp only at R1 R2 D1 D2 ⊢
          subst R2
          dsimp only
          -- the detached node abstracts as before: it is a child of the written cell
          obtain ⟨pf', hpf', hstep⟩ := evalH_parent_last hf hn
          rw [hpf] at hpf'; cases Option.some.inj hpf'
          obtain ⟨cell0, hg0, hk0⟩ := stepH_kid hstep
          have hnr : ¬ Reach h n pf := (hdestf pf hpf).2.1 cell0 hg0 n hk0
          have hn1 : absH (F - f.length) (h.write pf cellR) n = some dn := by
            rw [absH_write_frame cellR hnr]; exact hdn
          have hm1 := mapsOk_write_rem hm hcell
          have hm1' : ∀ a kvs, Reach (h.write pf cellR) root a → (h.write pf cellR).get? a = some (.cont kvs) →
              AMap.Sorted kvs := fun a kvs _ hg => hm1 a kvs hg
          obtain ⟨A1, A2⟩ := doAddH_abs hm1' hpl hp R1 hn1 D1
          rcases doAddH_cases (some n) path (h.write pf cellR) root with h2 | ⟨v, par, cell', hv, _, h2, _⟩
          · rw [h2] at A1 A2 ⊢
            generalize Ytk.Patch.doAdd (some dn) path r1 = va at A1 A2 ⊢
            obtain ⟨r2, o2⟩ := va
            dsimp only at A1 A2 ⊢
            subst A2
            dsimp only
            obtain ⟨B1, B2⟩ := doAddH_abs hm1' hplf hf A1 hn1 D2
            rcases doAddH_cases (some n) f (h.write pf cellR) root with h3 | ⟨v3, par3, cell3, _, _, h3, _⟩
            · rw [h3] at B1 B2 ⊢
              generalize Ytk.Patch.doAdd (some dn) f r2 = vb at B1 B2 ⊢
              obtain ⟨r3, o3⟩ := vb
              dsimp only at B1 B2 ⊢
              subst B2
              exact ⟨_, B1, rfl⟩
            · rw [h3] at B1 B2 ⊢
              generalize Ytk.Patch.doAdd (some dn) f r2 = vb at B1 B2 ⊢
              obtain ⟨r3, o3⟩ := vb
              dsimp only at B1 B2 ⊢
              subst B2
              exact ⟨_, B1, rfl⟩
          · rw [h2] at A1 A2 ⊢
            generalize Ytk.Patch.doAdd (some dn) path r1 = va at A1 A2 ⊢
            obtain ⟨r2, o2⟩ := va
            dsimp only at A1 A2 ⊢
            subst A2
            exact ⟨_, A1, rfl⟩

/-! ### test: reads only -/

theorem absH_det {h : Heap} {a : Addr} {f f' : Nat} {x y : Node} (hx : absH f h a = some x)
    (hy : absH f' h a = some y) : x = y := by
  have h1 := absH_fuel_le (Nat.le_max_left f f') hx
  have h2 := absH_fuel_le (Nat.le_max_right f f') hy
  rw [h1] at h2
  exact Option.some.inj h2

theorem doTestH_abs {h : Heap} {root v : Addr} {d nv : Node} {path : Path} (hpl : Plain path)
    (hd : abs h root = some d) (hv : abs h v = some nv) :
    (doTestH (some v) path h root).1 = h ∧
    (doTestH (some v) path h root).2 = (Ytk.Patch.doTest (some nv) path d).2 ∧
    (Ytk.Patch.doTest (some nv) path d).1 = d := by
  refine ⟨doTestH_heap _ _ _ _, ?_, ?_⟩
  · have hd' := hd
    unfold abs at hd'
    obtain ⟨j1, j2⟩ := absH_eval path h.size root d hpl hd'
    unfold doTestH Ytk.Patch.doTest
    dsimp only
    rw [Ytk.Ptr.eval_snd]
    cases hn : evalH h root path with
    | none => rw [j2 hn]
    | some n =>
      obtain ⟨dn, hdn, hevn, _⟩ := j1 n hn
      rw [hevn]
      dsimp only
      have hdn' : abs h n = some dn := absH_fuel_le (Nat.sub_le _ _) hdn
      rw [hv, hdn']
      dsimp only
      split <;> rfl
  · unfold Ytk.Patch.doTest
    dsimp only
    cases (Ytk.Ptr.eval path d).2 with
    | none => rfl
    | some n => dsimp only; split <;> rfl

end Ytk.Heap
