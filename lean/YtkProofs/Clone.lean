/-
  YtkProofs.Clone — lemmas about the generic clone model (C15).
-/
import YtkModel.Clone

namespace Ytk.Clone
open Ytk.CloneT

theorem renderV_id {render : String → String} {tpl : String → Bool} (hl : LenientId render tpl) :
    ∀ v, TemplateFree tpl v → renderV render v = v
  | .str s, h => by simp [TemplateFree] at h; simp [renderV, hl s h]
  | .strPtr none, _ => rfl
  | .strPtr (some s), h => by simp [TemplateFree] at h; simp [renderV, hl s h]
  | .strs none, _ => rfl
  | .strs (some xs), h => by
    simp [TemplateFree] at h
    have : xs.map render = xs := by
      conv => rhs; rw [← List.map_id xs]
      exact List.map_congr_left (fun s hs => by simp [hl s (h s hs)])
    simp [renderV, this]
  | .data _, _ => rfl
  | .nil, _ => rfl
  | .rcd _ _, _ => rfl

theorem findType_mem {tbl : List CloneType} {ty : String} {t : CloneType} (h : findType tbl ty = some t) :
    t ∈ tbl := List.mem_of_find?_eq_some h

mutual
/-- With a complete table, template-free records are cloned to themselves. -/
theorem cloneV_eq {tbl : List CloneType} {render : String → String} {tpl : String → Bool}
    (hc : Complete tbl) (hl : LenientId render tpl) :
    ∀ v, WellTyped tbl v → TemplateFree tpl v → cloneV tbl render v = v
  | .str _, _, _ => rfl
  | .strPtr _, _, _ => rfl
  | .strs _, _, _ => rfl
  | .data _, _, _ => rfl
  | .nil, _, _ => rfl
  | .rcd ty fs, hw, ht => by
    simp only [WellTyped] at hw
    obtain ⟨t, hty, hfs⟩ := hw
    simp only [TemplateFree] at ht
    simp [cloneV, cloneFields_eq hc hl t ty fs hty hfs ht]
theorem cloneFields_eq {tbl : List CloneType} {render : String → String} {tpl : String → Bool}
    (hc : Complete tbl) (hl : LenientId render tpl) (t : CloneType) (ty : String) :
    ∀ fs, findType tbl ty = some t → WellTypedFields tbl t ty fs → TemplateFreeFields tpl fs →
      cloneFields tbl render ty fs = fs
  | [], _, _, _ => rfl
  | (f, v) :: rest, hty, hw, ht => by
    simp only [WellTypedFields] at hw
    obtain ⟨⟨c, hfc, hcm⟩, hwv, hwr⟩ := hw
    simp only [TemplateFreeFields] at ht
    obtain ⟨htv, htr⟩ := ht
    have hact : actOf tbl ty f = c.act := by simp [actOf, hty, hfc]
    have hne : c.act ≠ .none := hc t (findType_mem hty) c hcm
    have hrest := cloneFields_eq hc hl t ty rest hty hwr htr
    have hv := cloneV_eq hc hl v hwv htv
    have hr := renderV_id hl v htv
    simp only [cloneFields, hact, hrest]
    cases hca : c.act <;> simp_all
end

/-- A field whose table action is `render` holds the rendered value in the clone. -/
theorem cloneFields_render {tbl : List CloneType} {render : String → String} {ty f : String}
    (hact : actOf tbl ty f = .render) :
    ∀ (fs : List (String × CV)) (v : CV), getField fs f = some v →
      getField (cloneFields tbl render ty fs) f = some (renderV render v)
  | [], v, h => by simp [getField] at h
  | (g, w) :: rest, v, h => by
    by_cases hg : (g == f) = true
    · have : g = f := by simpa using hg
      subst this
      simp [getField, List.find?] at h
      subst h
      simp [cloneFields, getField, List.find?, hact]
    · have hg' : (g == f) = false := by simpa using hg
      have h' : getField rest f = some v := by
        simpa [getField, List.find?, hg'] using h
      have ih := cloneFields_render (render := render) hact rest v h'
      simpa [cloneFields, getField, List.find?, hg'] using ih

/-- Cloning keeps the field names (nothing is dropped or added at the record level). -/
theorem cloneFields_names (tbl : List CloneType) (render : String → String) (ty : String) :
    ∀ fs : List (String × CV), (cloneFields tbl render ty fs).map Prod.fst = fs.map Prod.fst
  | [] => rfl
  | (f, v) :: rest => by simp [cloneFields, cloneFields_names tbl render ty rest]

end Ytk.Clone
