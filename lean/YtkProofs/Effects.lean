/-
  YtkProofs.Effects — generic theorems of the effect-summary and thread models (C20).
-/
import YtkModel.Effects

namespace Ytk.Effects
open Ytk.EffectT

mutual
/-- If `W` is closed for the table, every root written during any conforming run (any call tree, any
    depth) lies in `W` of the run's function. -/
theorem run_sound (tbl : List FnSummary) (W : State) (hc : Closed tbl W) :
    ∀ run : Run, run.Conforms tbl → ∀ r ∈ run.writes, r ∈ W.getD run.fn []
  | .node fn own calls, hconf, r, hr => by
    simp only [Run.Conforms] at hconf
    obtain ⟨hlt, hown, hcalls⟩ := hconf
    simp only [Run.writes, List.mem_append] at hr
    have hcl := hc fn (List.mem_range.mpr hlt)
    rcases hr with h | h
    · exact hcl.1 r (hown r h)
    · exact calls_sound tbl W hc fn hlt calls hcalls r h
theorem calls_sound (tbl : List FnSummary) (W : State) (hc : Closed tbl W) (fn : Nat) (hlt : fn < tbl.length) :
    ∀ calls : List (CallEdge × Run), Run.ConformsCalls tbl fn calls →
      ∀ r ∈ Run.writesCalls calls, r ∈ W.getD fn []
  | [], _, r, hr => by simp [Run.writesCalls] at hr
  | (e, run) :: rest, hconf, r, hr => by
    simp only [Run.ConformsCalls] at hconf
    obtain ⟨he, hfn, hrun, hrest⟩ := hconf
    simp only [Run.writesCalls, List.mem_append, List.mem_flatMap] at hr
    rcases hr with ⟨x, hx, hrx⟩ | h
    · have hx' := run_sound tbl W hc run hrun x hx
      rw [hfn] at hx'
      exact (hc fn (List.mem_range.mpr hlt)).2 e he x hx' r hrx
    · exact calls_sound tbl W hc fn hlt rest hrest r h
end

theorem testBit_of_or_eq {a b : Nat} (h : a ||| b = b) {j : Nat} (hj : a.testBit j = true) : b.testBit j = true := by
  rw [← h, Nat.testBit_or, hj]; rfl

theorem testBit_rowOf (n S i j : Nat) :
    (rowOf n S i).testBit j = (decide (j < n) && S.testBit (i * n + j)) := by
  simp [rowOf, Nat.testBit_mod_two_pow, Nat.testBit_shiftRight]

mutual
/-- If `R` is reach-closed for the table, every function executed during any conforming run (any call tree,
    any depth) is in the row `R` has for the run's function. -/
theorem run_fns_sound (tbl : List FnSummary) (R : ReachState) (hc : ReachClosed tbl R) :
    ∀ run : Run, run.Conforms tbl → ∀ j ∈ run.fns, (rowOf tbl.length R run.fn).testBit j = true
  | .node fn own calls, hconf, j, hj => by
    simp only [Run.Conforms] at hconf
    obtain ⟨hlt, _, hcalls⟩ := hconf
    simp only [Run.fns, List.mem_cons] at hj
    have hcl := hc fn (List.mem_range.mpr hlt)
    rcases hj with h | h
    · rw [h, testBit_rowOf]; simp [Run.fn, hlt, hcl.1]
    · exact calls_fns_sound tbl R hc fn hlt calls hcalls j h
theorem calls_fns_sound (tbl : List FnSummary) (R : ReachState) (hc : ReachClosed tbl R) (fn : Nat)
    (hlt : fn < tbl.length) :
    ∀ calls : List (CallEdge × Run), Run.ConformsCalls tbl fn calls →
      ∀ j ∈ Run.fnsCalls calls, (rowOf tbl.length R fn).testBit j = true
  | [], _, j, hj => by simp [Run.fnsCalls] at hj
  | (e, run) :: rest, hconf, j, hj => by
    simp only [Run.ConformsCalls] at hconf
    obtain ⟨he, hfn, hrun, hrest⟩ := hconf
    simp only [Run.fnsCalls, List.mem_append] at hj
    rcases hj with h | h
    · have hx := run_fns_sound tbl R hc run hrun j h
      rw [hfn] at hx
      exact testBit_of_or_eq ((hc fn (List.mem_range.mpr hlt)).2 e he) hx
    · exact calls_fns_sound tbl R hc fn hlt rest hrest j h
end

mutual
/-- every function executed during a conforming run is a function of the table -/
theorem run_fns_lt (tbl : List FnSummary) :
    ∀ run : Run, run.Conforms tbl → ∀ j ∈ run.fns, j < tbl.length
  | .node fn own calls, hconf, j, hj => by
    simp only [Run.Conforms] at hconf
    obtain ⟨hlt, _, hcalls⟩ := hconf
    simp only [Run.fns, List.mem_cons] at hj
    rcases hj with h | h
    · rw [h]; exact hlt
    · exact calls_fns_lt tbl fn calls hcalls j h
theorem calls_fns_lt (tbl : List FnSummary) (fn : Nat) :
    ∀ calls : List (CallEdge × Run), Run.ConformsCalls tbl fn calls → ∀ j ∈ Run.fnsCalls calls, j < tbl.length
  | [], _, j, hj => by simp [Run.fnsCalls] at hj
  | (e, run) :: rest, hconf, j, hj => by
    simp only [Run.ConformsCalls] at hconf
    obtain ⟨_, _, hrun, hrest⟩ := hconf
    simp only [Run.fnsCalls, List.mem_append] at hj
    rcases hj with h | h
    · exact run_fns_lt tbl run hrun j h
    · exact calls_fns_lt tbl fn rest hrest j h
end

/-- hence: every function executed during a conforming run is in `reachOf` of the run's function, as soon as the
    computed reachability is closed -/
theorem run_fns_reach (tbl : List FnSummary) (hc : ReachClosed tbl (reachAll tbl)) (run : Run)
    (h : run.Conforms tbl) : ∀ j ∈ run.fns, j ∈ reachOf tbl run.fn := by
  intro j hj
  have hlt := run_fns_lt tbl run h j hj
  have hb := run_fns_sound tbl (reachAll tbl) hc run h j hj
  rw [testBit_rowOf] at hb
  simp only [reachOf, List.mem_filter, List.mem_range]
  exact ⟨hlt, by simpa [hlt] using hb⟩

/-- Threads that only read have no data race — whatever their number. -/
theorem no_race_of_readOnly (ts : List Thread) (h : ReadOnly ts) : ¬ Race ts := by
  rintro ⟨i, j, e₁, e₂, t₁, t₂, _, h1, h2, m1, m2, _, hw⟩
  have r1 := h t₁ (List.mem_of_getElem? h1) e₁ m1
  have r2 := h t₂ (List.mem_of_getElem? h2) e₂ m2
  rcases hw with hw | hw
  · rw [r1] at hw; cases hw
  · rw [r2] at hw; cases hw

theorem readOnly_set {ts : List Thread} {i : Nat} {e : Ev} {rest : Thread}
    (h : ReadOnly ts) (hi : ts[i]? = some (e :: rest)) : ReadOnly (ts.set i rest) := by
  intro t ht e' he'
  rcases List.mem_or_eq_of_mem_set ht with h' | h'
  · exact h t h' e' he'
  · rw [h'] at he'
    exact h (e :: rest) (List.mem_of_getElem? hi) e' (List.mem_cons_of_mem _ he')

theorem observeAlone_readOnly (σ : Store) : ∀ t : Thread, (∀ e ∈ t, e.isRead = true) →
    observeAlone σ t = t.map (fun e => σ e.loc)
  | [], _ => rfl
  | .rd l :: t, h => by
    simp [observeAlone, Ev.loc, observeAlone_readOnly σ t (fun e he => h e (List.mem_cons_of_mem _ he))]
  | .wr l v :: t, h => by
    have := h (.wr l v) (List.mem_cons_self ..)
    simp [Ev.isRead] at this

/-- Under EVERY interleaving of read-only threads, each thread observes exactly what it observes
    when it runs alone on the same store. -/
theorem same_observations (ts : List Thread) (tr : List (Nat × Ev)) (hi : Interleave ts tr) :
    ReadOnly ts → ∀ (i : Nat) (σ : Store), observe i σ tr = observeAlone σ ((ts[i]?).getD []) := by
  induction hi with
  | done ts h =>
    intro _ i σ
    cases hg : ts[i]? with
    | none => simp [observe, observeAlone]
    | some t =>
      have : t = [] := h t (List.mem_of_getElem? hg)
      simp [observe, observeAlone, this]
  | step ts j e rest tr h _ ih =>
    intro hro i σ
    have hro' := readOnly_set hro h
    have he : e.isRead = true := hro (e :: rest) (List.mem_of_getElem? h) e (List.mem_cons_self ..)
    have ih' := ih hro' i σ
    cases e with
    | wr l v => simp [Ev.isRead] at he
    | rd l =>
      by_cases hji : j = i
      · subst hji
        have hlt : j < ts.length := by
          rcases List.getElem?_eq_some_iff.mp h with ⟨hlt, _⟩
          exact hlt
        have hset : (ts.set j rest)[j]? = some rest := by simp [hlt]
        rw [hset] at ih'
        simp [observe, h, observeAlone, ih']
      · have hset : (ts.set j rest)[i]? = ts[i]? := by
          simp [hji]
        rw [hset] at ih'
        simp [observe, hji, ih']

end Ytk.Effects
