/-
  C08 — applying a diff reconstructs the left document: the structured core.

  Paths are handled in structured form (`AP`: a leaf value below index and key steps; Delete
  paths are key lists).  The effect of a modification on a container is local to the entry of
  its first key, and on a list to the slot of its first index (`get?_foldl_actK`,
  `foldl_actA_idx`), so the result of applying ANY ordering of the emitted modifications in
  which no Delete follows an Add below it (`Ord`) can be computed entry by entry:
    * `readd`  — adding the leaves of a node (every list item holding a scalar) in any order
                   to an absent position yields a node with the same flattened view;
    * `recon`    — for `Compat` documents the result has the flattened view of the left one.
  The string level (rendering, `splitPath`, `parseSeg`, `parseListComp`) is in ApplyDiffStr.lean.
-/
import YtkModel.Diff
import YtkProofs.FlattenPaths
import YtkProofs.Equal

namespace Ytk

/-! ## structured Add paths and their action -/

/-- a leaf value below index steps and key steps -/
inductive AP where
  | leaf (v : Scalar)
  | idx (i : Nat) (m : AP)
  | key (k : String) (m : AP)

def nodeList : Node → List Node
  | .list xs => xs
  | _ => []

def nodeCont : Node → AMap Node
  | .cont c => c
  | _ => []

/-- the node that stands at a position after an Add below it; an absent position is `null` -/
def actA : AP → Node → Node
  | .leaf v, _ => .leaf v
  | .idx i m, n => .list ((padTo (nodeList n) (i + 1)).set i (actA m ((nodeList n).getD i Node.null)))
  | .key k m, n => .cont (AMap.insert (nodeCont n) k (actA m ((AMap.get? (nodeCont n) k).getD Node.null)))

mutual
/-- the Adds that Diff's flatten emits for a node, relative to the node's position -/
def rel : Node → List AP
  | .leaf v => [.leaf v]
  | .list xs => relList xs 0
  | .cont kvs => relKvs kvs
def relList : List Node → Nat → List AP
  | [], _ => []
  | x :: xs, i => (rel x).map (AP.idx i) ++ relList xs (i + 1)
def relKvs : List (String × Node) → List AP
  | [] => []
  | (k, x) :: r => (rel x).map (AP.key k) ++ relKvs r
end

def pathA : String → AP → String
  | p, .leaf _ => p
  | p, .idx i m => pathA (toListPath p i) m
  | p, .key k m => pathA (toPath p k) m

def valA : AP → Scalar
  | .leaf v => v
  | .idx _ m => valA m
  | .key _ m => valA m

mutual
theorem flattenNode_rel : ∀ (n : Node) (p : String), flattenNode n p = (rel n).map (fun m => (pathA p m, valA m))
  | .leaf v, p => by simp [flattenNode, rel, pathA, valA]
  | .list xs, p => by simp only [flattenNode, rel]; exact flattenList_rel xs p 0
  | .cont kvs, p => by simp only [flattenNode, rel]; exact flattenKvs_rel kvs p
theorem flattenList_rel : ∀ (xs : List Node) (p : String) (i : Nat),
    flattenList xs p i = (relList xs i).map (fun m => (pathA p m, valA m))
  | [], _, _ => rfl
  | x :: xs, p, i => by
    simp only [flattenList, relList, List.map_append, List.map_map]
    rw [flattenNode_rel x, flattenList_rel xs p (i + 1)]
    rfl
theorem flattenKvs_rel : ∀ (kvs : List (String × Node)) (p : String),
    flattenKvs kvs p = (relKvs kvs).map (fun m => (pathA p m, valA m))
  | [], _ => rfl
  | (k, x) :: r, p => by
    simp only [flattenKvs, relKvs, List.map_append, List.map_map]
    rw [flattenNode_rel x, flattenKvs_rel r p]
    rfl
end

theorem flattenNode_nil_of_rel {n : Node} (h : rel n = []) (p : String) : flattenNode n p = [] := by
  rw [flattenNode_rel, h]; rfl

mutual
theorem scalarCount_rel : ∀ (n : Node), n.scalarCount = (rel n).length
  | .leaf _ => rfl
  | .list xs => by simp only [Node.scalarCount, rel]; exact scalarCountList_rel xs 0
  | .cont kvs => by simp only [Node.scalarCount, rel]; exact scalarCountKvs_rel kvs
theorem scalarCountList_rel : ∀ (xs : List Node) (i : Nat), Node.scalarCountList xs = (relList xs i).length
  | [], _ => rfl
  | x :: xs, i => by
    simp only [Node.scalarCountList, relList, List.length_append, List.length_map]
    rw [scalarCount_rel x, scalarCountList_rel xs (i + 1)]
theorem scalarCountKvs_rel : ∀ (kvs : List (String × Node)), Node.scalarCountKvs kvs = (relKvs kvs).length
  | [] => rfl
  | (k, x) :: r => by
    simp only [Node.scalarCountKvs, relKvs, List.length_append, List.length_map]
    rw [scalarCount_rel x, scalarCountKvs_rel r]
end

/-! ## flattened-view equality -/

def flatO : Option Node → String → List (String × Scalar)
  | none, _ => []
  | some n, p => flattenNode n p

/-- two sorted containers whose entries have the same flattened views, key by key
    (an absent key counting as empty), have the same flattened view -/
theorem flattenKvs_congr : ∀ (a b : AMap Node), AMap.Sorted a → AMap.Sorted b →
    (∀ k q, flatO (AMap.get? a k) q = flatO (AMap.get? b k) q) → ∀ p, flattenKvs a p = flattenKvs b p
  | [], [], _, _, _, _ => rfl
  | [], (k, y) :: b, ha, hb, h, p => by
    have hk := h k
    simp only [AMap.get?, if_true, flatO] at hk
    simp only [flattenKvs]
    rw [← hk (toPath p k)]
    simp only [List.nil_append]
    refine flattenKvs_congr [] b ha hb.tail ?_ p
    intro k' q
    by_cases e : k' = k
    · subst e
      rw [AMap.get?_of_allGt hb.head_lt]
      rfl
    · have := h k' q
      simpa [AMap.get?, e] using this
  | (k, x) :: a, [], ha, hb, h, p => by
    have hk := h k
    simp only [AMap.get?, if_true, flatO] at hk
    simp only [flattenKvs]
    rw [hk (toPath p k)]
    simp only [List.nil_append]
    refine flattenKvs_congr a [] ha.tail hb ?_ p
    intro k' q
    by_cases e : k' = k
    · subst e
      rw [AMap.get?_of_allGt ha.head_lt]
      rfl
    · have := h k' q
      simpa [AMap.get?, e] using this
  | (k, x) :: a, (k2, y) :: b, ha, hb, h, p => by
    rcases String.lt_trichotomy k k2 with hlt | heq | hgt
    · -- k is absent from the right side
      have hk := h k
      have hne : k ≠ k2 := String.ne_of_lt hlt
      have hbk : AMap.get? ((k2, y) :: b) k = none :=
        AMap.get?_of_allGt (fun e he => by
          rcases List.mem_cons.mp he with rfl | he
          · exact hlt
          · exact String.lt_trans hlt (hb.head_lt e he))
      rw [hbk] at hk
      simp only [AMap.get?, if_true, flatO] at hk
      simp only [flattenKvs]
      rw [hk (toPath p k)]
      simp only [List.nil_append]
      have := flattenKvs_congr a ((k2, y) :: b) ha.tail hb (by
        intro k' q
        by_cases e : k' = k
        · subst e
          rw [AMap.get?_of_allGt ha.head_lt, hbk]
        · have := h k' q
          simpa [AMap.get?, e] using this) p
      simpa [flattenKvs] using this
    · subst heq
      have hk := h k
      simp only [AMap.get?, if_true, flatO] at hk
      simp only [flattenKvs]
      rw [hk (toPath p k)]
      congr 1
      refine flattenKvs_congr a b ha.tail hb.tail ?_ p
      intro k' q
      by_cases e : k' = k
      · subst e
        rw [AMap.get?_of_allGt ha.head_lt, AMap.get?_of_allGt hb.head_lt]
      · have := h k' q
        simpa [AMap.get?, e] using this
    · have hk := h k2
      have hak : AMap.get? ((k, x) :: a) k2 = none :=
        AMap.get?_of_allGt (fun e he => by
          rcases List.mem_cons.mp he with rfl | he
          · exact hgt
          · exact String.lt_trans hgt (ha.head_lt e he))
      rw [hak] at hk
      simp only [AMap.get?, if_true, flatO] at hk
      simp only [flattenKvs]
      rw [← hk (toPath p k2)]
      simp only [List.nil_append]
      have := flattenKvs_congr ((k, x) :: a) b ha hb.tail (by
        intro k' q
        by_cases e : k' = k2
        · subst e
          rw [AMap.get?_of_allGt hb.head_lt, hak]
        · have := h k' q
          simpa [AMap.get?, e] using this) p
      simpa [flattenKvs] using this
termination_by a b => a.length + b.length

theorem flattenList_congr : ∀ (xs ys : List Node), ys.length = xs.length →
    (∀ j, j < xs.length → ∀ q, flattenNode (ys.getD j Node.null) q = flattenNode (xs.getD j Node.null) q) →
    ∀ p i, flattenList ys p i = flattenList xs p i
  | [], [], _, _, _, _ => rfl
  | [], _ :: _, h, _, _, _ => by simp at h
  | _ :: _, [], h, _, _, _ => by simp at h
  | x :: xs, y :: ys, hl, h, p, i => by
    simp only [flattenList]
    have h0 := h 0 (by simp) (toListPath p i)
    simp only [List.getD_cons_zero] at h0
    rw [h0, flattenList_congr xs ys (by simpa using hl) (fun j hj q => by
      have := h (j + 1) (by simpa using hj) q
      simpa using this) p (i + 1)]

/-! ## locality in lists: the slot of an index sees only the Adds through that index -/

def popIdx (j : Nat) : AP → Option AP
  | .idx i m => if i = j then some m else none
  | _ => none

def popKey (k : String) : AP → Option AP
  | .key k' m => if k' = k then some m else none
  | _ => none

def AP.IsIdx : AP → Prop
  | .idx _ _ => True
  | _ => False

def AP.IsKey : AP → Prop
  | .key _ _ => True
  | _ => False

theorem getD_padTo (xs : List Node) (n j : Nat) : (padTo xs n).getD j Node.null = xs.getD j Node.null := by
  simp only [List.getD_eq_getElem?_getD]
  by_cases h : j < xs.length
  · rw [padTo_getElem?_lt h]
  · rw [padTo_getElem?_ge (Nat.le_of_not_lt h), List.getElem?_eq_none (Nat.le_of_not_lt h)]
    split <;> rfl

theorem getD_set_padTo (xs : List Node) (i j : Nat) (v : Node) :
    ((padTo xs (i + 1)).set i v).getD j Node.null = if j = i then v else xs.getD j Node.null := by
  by_cases h : j = i
  · subst h
    simp only [List.getD_eq_getElem?_getD, if_true]
    rw [List.getElem?_set_self (lt_padTo_length xs j)]
    rfl
  · simp only [if_neg h]
    rw [← getD_padTo xs (i + 1) j]
    simp only [List.getD_eq_getElem?_getD]
    rw [List.getElem?_set_ne (fun e => h e.symm)]

theorem actA_idx_eq (i : Nat) (m : AP) (n : Node) : actA (.idx i m) n = actA (.idx i m) (.list (nodeList n)) := rfl

/-- a run of Adds through index steps, started on a list -/
theorem foldl_actA_idx : ∀ (S : List AP) (xs : List Node), (∀ p ∈ S, p.IsIdx) →
    ∃ ys, S.foldl (fun n p => actA p n) (.list xs) = .list ys ∧ xs.length ≤ ys.length ∧
      (∀ i m, AP.idx i m ∈ S → i < ys.length) ∧
      (∀ N, xs.length ≤ N → (∀ i m, AP.idx i m ∈ S → i < N) → ys.length ≤ N) ∧
      ∀ j, ys.getD j Node.null = (S.filterMap (popIdx j)).foldl (fun n p => actA p n) (xs.getD j Node.null)
  | [], xs, _ => ⟨xs, rfl, Nat.le_refl _, fun i m h => (by cases h), fun N h _ => h, fun j => rfl⟩
  | .leaf _ :: _, _, h => absurd (h _ (List.mem_cons_self ..)) (by simp [AP.IsIdx])
  | .key _ _ :: _, _, h => absurd (h _ (List.mem_cons_self ..)) (by simp [AP.IsIdx])
  | .idx i m :: S, xs, h => by
    obtain ⟨ys, e, hle, hmem, hub, hget⟩ := foldl_actA_idx S
      ((padTo xs (i + 1)).set i (actA m (xs.getD i Node.null))) (fun p hp => h p (List.mem_cons_of_mem _ hp))
    have hlen : ((padTo xs (i + 1)).set i (actA m (xs.getD i Node.null))).length = max xs.length (i + 1) := by
      rw [List.length_set, padTo_length]
    refine ⟨ys, ?_, ?_, ?_, ?_, ?_⟩
    · simpa [List.foldl_cons, actA, nodeList] using e
    · rw [hlen] at hle; omega
    · intro i' m' hm
      rcases List.mem_cons.mp hm with e' | hm
      · cases e'; rw [hlen] at hle; omega
      · exact hmem i' m' hm
    · intro N hN hall
      apply hub N
      · rw [hlen]
        have := hall i m (List.mem_cons_self ..)
        omega
      · intro i' m' hm; exact hall i' m' (List.mem_cons_of_mem _ hm)
    · intro j
      rw [hget j, getD_set_padTo]
      by_cases hj : j = i
      · subst hj; simp [popIdx]
      · have : i ≠ j := fun e => hj e.symm
        simp [popIdx, hj, this]

/-- … started anywhere (anything that is not a list is replaced) -/
theorem foldl_actA_idx_from (S : List AP) (n0 : Node) (hS : ∀ p ∈ S, p.IsIdx) (hne : S ≠ []) :
    S.foldl (fun n p => actA p n) n0 = S.foldl (fun n p => actA p n) (.list (nodeList n0)) := by
  cases S with
  | nil => exact absurd rfl hne
  | cons s S =>
    cases s with
    | leaf _ => exact absurd (hS _ (List.mem_cons_self ..)) (by simp [AP.IsIdx])
    | key _ _ => exact absurd (hS _ (List.mem_cons_self ..)) (by simp [AP.IsIdx])
    | idx i m => simp only [List.foldl_cons]; rw [actA_idx_eq]

/-! ## modifications relative to a position; locality in containers -/

/-- a modification relative to a position: an Add, or a Delete of the position below the keys -/
inductive M where
  | a (p : AP)
  | d (ks : List String)

def delK : List String → AMap Node → AMap Node
  | [], c => c
  | [k], c => AMap.erase c k
  | k :: k2 :: ks, c =>
    match AMap.get? c k with
    | some (.cont sub) => AMap.insert c k (.cont (delK (k2 :: ks) sub))
    | _ => c

def actD : List String → Option Node → Option Node
  | [], _ => none
  | k :: ks, some (.cont sub) => some (.cont (delK (k :: ks) sub))
  | _ :: _, o => o

/-- action on a position (absent = `none`) -/
def act : M → Option Node → Option Node
  | .a p, o => some (actA p (o.getD Node.null))
  | .d ks, o => actD ks o

/-- action on a container of a modification that starts with a key step -/
def actK : M → AMap Node → AMap Node
  | .a (.key k m), c => AMap.insert c k (actA m ((AMap.get? c k).getD Node.null))
  | .d ks, c => delK ks c
  | _, c => c

def popM (k : String) : M → Option M
  | .a (.key k' m) => if k' = k then some (.a m) else none
  | .d (k' :: ks) => if k' = k then some (.d ks) else none
  | _ => none

def M.Keyed : M → Prop
  | .a (.key _ _) => True
  | .d (_ :: _) => True
  | _ => False

theorem act_keyed {m : M} (h : m.Keyed) (c : AMap Node) : act m (some (.cont c)) = some (.cont (actK m c)) := by
  cases m with
  | a p =>
    cases p with
    | key k m => rfl
    | leaf _ => exact absurd h (by simp [M.Keyed])
    | idx _ _ => exact absurd h (by simp [M.Keyed])
  | d ks =>
    cases ks with
    | nil => exact absurd h (by simp [M.Keyed])
    | cons k ks => rfl

theorem sorted_delK : ∀ (ks : List String) (c : AMap Node), AMap.Sorted c → AMap.Sorted (delK ks c)
  | [], _, h => h
  | [k], _, h => AMap.sorted_erase h k
  | k :: k2 :: ks, c, h => by
    simp only [delK]
    split
    · exact AMap.sorted_insert h _ _
    · exact h

theorem sorted_actK (m : M) {c : AMap Node} (h : AMap.Sorted c) : AMap.Sorted (actK m c) := by
  cases m with
  | a p =>
    cases p with
    | key k m => exact AMap.sorted_insert h _ _
    | leaf _ => exact h
    | idx _ _ => exact h
  | d ks => exact sorted_delK ks c h

theorem get?_actK {m : M} (hm : m.Keyed) {c : AMap Node} (hc : AMap.Sorted c) (k : String) :
    AMap.get? (actK m c) k = match popM k m with
      | some m' => act m' (AMap.get? c k)
      | none => AMap.get? c k := by
  cases m with
  | a p =>
    cases p with
    | leaf _ => exact absurd hm (by simp [M.Keyed])
    | idx _ _ => exact absurd hm (by simp [M.Keyed])
    | key k' m =>
      simp only [actK, popM]
      by_cases e : k' = k
      · subst e; simp [AMap.get?_insert_self, act]
      · rw [AMap.get?_insert_ne _ _ (fun e' => e e'.symm)]; simp [e]
  | d ks =>
    cases ks with
    | nil => exact absurd hm (by simp [M.Keyed])
    | cons k' ks =>
      simp only [actK, popM]
      by_cases e : k' = k
      · subst e
        simp only [if_true]
        cases ks with
        | nil => simp only [delK, act, actD]; exact AMap.get?_erase_self hc k'
        | cons k2 ks =>
          simp only [delK, act]
          cases hg : AMap.get? c k' with
          | none => simp [actD, hg]
          | some n =>
            cases n with
            | leaf _ => simp [actD, hg]
            | list _ => simp [actD, hg]
            | cont sub => simp [actD, AMap.get?_insert_self]
      · simp only [if_neg e]
        cases ks with
        | nil => simp only [delK]; exact AMap.get?_erase_ne _ (fun e' => e e'.symm)
        | cons k2 ks =>
          simp only [delK]
          split
          · exact AMap.get?_insert_ne _ _ (fun e' => e e'.symm)
          · rfl

/-- a run of keyed modifications on a container: entry `k` of the result is what the
    modifications through `k` make of entry `k` -/
theorem get?_foldl_actK : ∀ (S : List M) (c : AMap Node), AMap.Sorted c → (∀ m ∈ S, m.Keyed) →
    AMap.Sorted (S.foldl (fun c m => actK m c) c) ∧
    ∀ k, AMap.get? (S.foldl (fun c m => actK m c) c) k =
      (S.filterMap (popM k)).foldl (fun o m => act m o) (AMap.get? c k)
  | [], c, hc, _ => ⟨hc, fun _ => rfl⟩
  | m :: S, c, hc, hk => by
    have hm := hk m (List.mem_cons_self ..)
    obtain ⟨h1, h2⟩ := get?_foldl_actK S (actK m c) (sorted_actK m hc) (fun x hx => hk x (List.mem_cons_of_mem _ hx))
    refine ⟨h1, ?_⟩
    intro k
    simp only [List.foldl_cons]
    rw [h2 k, get?_actK hm hc k]
    cases hp : popM k m with
    | none => simp [List.filterMap_cons, hp]
    | some m' => simp [List.filterMap_cons, hp]

theorem foldl_act_keyed : ∀ (S : List M) (c : AMap Node), (∀ m ∈ S, m.Keyed) →
    S.foldl (fun o m => act m o) (some (.cont c)) = some (.cont (S.foldl (fun c m => actK m c) c))
  | [], _, _ => rfl
  | m :: S, c, hk => by
    simp only [List.foldl_cons]
    rw [act_keyed (hk m (List.mem_cons_self ..)), foldl_act_keyed S _ (fun x hx => hk x (List.mem_cons_of_mem _ hx))]

/-- a non-empty run of Adds on a position -/
theorem foldl_act_adds : ∀ (T : List AP) (o : Option Node), T ≠ [] →
    (T.map M.a).foldl (fun o m => act m o) o = some (T.foldl (fun n p => actA p n) (o.getD Node.null))
  | [], _, h => absurd rfl h
  | [p], o, _ => rfl
  | p :: q :: T, o, _ => by
    have := foldl_act_adds (q :: T) (act (.a p) o) (by simp)
    simp only [List.map_cons, List.foldl_cons] at this ⊢
    rw [this]
    rfl

/-! ## the Adds of a node: which of them go through a given index / key -/

theorem filterMap_popIdx_map (T : List AP) (i j : Nat) :
    (T.map (AP.idx i)).filterMap (popIdx j) = if i = j then T else [] := by
  induction T with
  | nil => simp
  | cons t T ih =>
    simp only [List.map_cons, List.filterMap_cons, popIdx]
    by_cases e : i = j
    · simp only [e, if_true] at ih ⊢; rw [ih]
    · simp only [e, if_false] at ih ⊢; exact ih

theorem filterMap_popKey_map (T : List AP) (k k' : String) :
    (T.map (AP.key k)).filterMap (popKey k') = if k = k' then T else [] := by
  induction T with
  | nil => simp
  | cons t T ih =>
    simp only [List.map_cons, List.filterMap_cons, popKey]
    by_cases e : k = k'
    · simp only [e, if_true] at ih ⊢; rw [ih]
    · simp only [e, if_false] at ih ⊢; exact ih

theorem mem_relList : ∀ {xs : List Node} {i0 : Nat} {p : AP}, p ∈ relList xs i0 →
    ∃ j m x, p = .idx (i0 + j) m ∧ xs[j]? = some x ∧ m ∈ rel x
  | [], _, _, h => by cases h
  | x :: xs, i0, p, h => by
    simp only [relList, List.mem_append, List.mem_map] at h
    rcases h with ⟨m, hm, rfl⟩ | h
    · exact ⟨0, m, x, rfl, rfl, hm⟩
    · obtain ⟨j, m, y, rfl, hy, hm⟩ := mem_relList h
      exact ⟨j + 1, m, y, by rw [Nat.add_assoc, Nat.add_comm 1 j], by simpa using hy, hm⟩

theorem mem_relList_of : ∀ {xs : List Node} (i0 : Nat) {j : Nat} {x : Node} {m : AP}, xs[j]? = some x → m ∈ rel x →
    AP.idx (i0 + j) m ∈ relList xs i0
  | [], _, _, _, _, h, _ => by simp at h
  | y :: xs, i0, 0, x, m, h, hm => by
    simp only [List.getElem?_cons_zero, Option.some.injEq] at h
    subst h
    simp only [relList, List.mem_append, List.mem_map]
    exact Or.inl ⟨m, hm, rfl⟩
  | y :: xs, i0, j + 1, x, m, h, hm => by
    simp only [List.getElem?_cons_succ] at h
    simp only [relList, List.mem_append]
    refine Or.inr ?_
    have := mem_relList_of (i0 + 1) h hm
    rwa [Nat.add_assoc, Nat.add_comm 1 j] at this

theorem relList_pop_lt : ∀ (xs : List Node) (i0 j : Nat), j < i0 → (relList xs i0).filterMap (popIdx j) = []
  | [], _, _, _ => rfl
  | x :: xs, i0, j, h => by
    simp only [relList, List.filterMap_append, filterMap_popIdx_map]
    rw [if_neg (by omega), relList_pop_lt xs (i0 + 1) j (by omega)]
    rfl

theorem relList_pop : ∀ (xs : List Node) (i0 j : Nat),
    (relList xs i0).filterMap (popIdx (i0 + j)) = match xs[j]? with
      | some x => rel x
      | none => []
  | [], _, _ => rfl
  | x :: xs, i0, 0 => by
    simp only [relList, List.filterMap_append, filterMap_popIdx_map, Nat.add_zero, if_true,
      List.getElem?_cons_zero]
    rw [relList_pop_lt xs (i0 + 1) i0 (by omega)]
    simp
  | x :: xs, i0, j + 1 => by
    simp only [relList, List.filterMap_append, filterMap_popIdx_map, List.getElem?_cons_succ]
    rw [if_neg (by omega)]
    have := relList_pop xs (i0 + 1) j
    rw [Nat.add_assoc, Nat.add_comm 1 j] at this
    rw [this]
    rfl

theorem mem_relKvs : ∀ {kvs : List (String × Node)} {p : AP}, p ∈ relKvs kvs → ∃ k x m, p = .key k m ∧ (k, x) ∈ kvs ∧ m ∈ rel x
  | [], _, h => by cases h
  | (k, x) :: r, p, h => by
    simp only [relKvs, List.mem_append, List.mem_map] at h
    rcases h with ⟨m, hm, rfl⟩ | h
    · exact ⟨k, x, m, rfl, List.mem_cons_self .., hm⟩
    · obtain ⟨k', y, m, rfl, hy, hm⟩ := mem_relKvs h
      exact ⟨k', y, m, rfl, List.mem_cons_of_mem _ hy, hm⟩

theorem relKvs_pop : ∀ (kvs : List (String × Node)), AMap.Sorted kvs → ∀ k,
    (relKvs kvs).filterMap (popKey k) = match AMap.get? kvs k with
      | some x => rel x
      | none => []
  | [], _, _ => rfl
  | (k0, x) :: r, hs, k => by
    simp only [relKvs, List.filterMap_append, filterMap_popKey_map, AMap.get?]
    rw [relKvs_pop r hs.tail k]
    by_cases e : k = k0
    · subst e
      simp only [if_true]
      rw [AMap.get?_of_allGt hs.head_lt]
      simp
    · have : k0 ≠ k := fun e' => e e'.symm
      simp [e, this]

/-! ## rebuilding a node from its Adds, in any order -/

theorem Node.ItemsHaveScalars.of_list {xs : List Node} (h : (Node.list xs).ItemsHaveScalars) {x : Node} (hx : x ∈ xs) :
    rel x ≠ [] ∧ x.ItemsHaveScalars := by
  cases h with
  | list h1 h2 =>
    refine ⟨?_, h2 x hx⟩
    intro e
    have := h1 x hx
    rw [scalarCount_rel, e] at this
    simp at this

theorem Node.ItemsHaveScalars.of_cont {kvs : List (String × Node)} (h : (Node.cont kvs).ItemsHaveScalars)
    {e : String × Node} (he : e ∈ kvs) : e.2.ItemsHaveScalars := by
  cases h with
  | cont h => exact h e he

theorem foldl_actA_cont : ∀ (S : List AP) (c : AMap Node), (∀ p ∈ S, p.IsKey) →
    S.foldl (fun n p => actA p n) (.cont c) = .cont ((S.map M.a).foldl (fun c m => actK m c) c)
  | [], _, _ => rfl
  | .leaf _ :: _, _, h => absurd (h _ (List.mem_cons_self ..)) (by simp [AP.IsKey])
  | .idx _ _ :: _, _, h => absurd (h _ (List.mem_cons_self ..)) (by simp [AP.IsKey])
  | .key k m :: S, c, h => by
    simp only [List.foldl_cons, List.map_cons]
    exact foldl_actA_cont S _ (fun p hp => h p (List.mem_cons_of_mem _ hp))

theorem foldl_actA_key (S : List AP) (n0 : Node) (hS : ∀ p ∈ S, p.IsKey) (hne : S ≠ []) :
    S.foldl (fun n p => actA p n) n0 = .cont ((S.map M.a).foldl (fun c m => actK m c) (nodeCont n0)) := by
  rw [← foldl_actA_cont S _ hS]
  cases S with
  | nil => exact absurd rfl hne
  | cons s S =>
    cases s with
    | leaf _ => exact absurd (hS _ (List.mem_cons_self ..)) (by simp [AP.IsKey])
    | idx _ _ => exact absurd (hS _ (List.mem_cons_self ..)) (by simp [AP.IsKey])
    | key k m => rfl

theorem filterMap_popM_map_a (S : List AP) (k : String) :
    (S.map M.a).filterMap (popM k) = (S.filterMap (popKey k)).map M.a := by
  induction S with
  | nil => rfl
  | cons s S ih =>
    cases s with
    | leaf _ => simp only [List.map_cons, List.filterMap_cons, popM, popKey]; exact ih
    | idx _ _ => simp only [List.map_cons, List.filterMap_cons, popM, popKey]; exact ih
    | key k' m =>
      simp only [List.map_cons, List.filterMap_cons, popM, popKey]
      by_cases e : k' = k
      · simp only [e, if_true, List.map_cons]; rw [ih]
      · simp only [e, if_false]; exact ih

mutual
theorem readd : ∀ (n : Node), n.WF → n.ItemsHaveScalars → rel n ≠ [] → ∀ S : List AP, S.Perm (rel n) →
    ∀ q, flattenNode (S.foldl (fun n p => actA p n) Node.null) q = flattenNode n q
  | .leaf v, _, _, _, S, hS, q => by
    simp only [rel, List.perm_singleton] at hS
    subst hS
    rfl
  | .list xs, hw, hi, hne, S, hS, q => by
    have hidx : ∀ p ∈ S, p.IsIdx := by
      intro p hp
      obtain ⟨j, m, x, rfl, _, _⟩ := mem_relList (hS.mem_iff.mp hp)
      trivial
    have hSne : S ≠ [] := fun e => hne (by subst e; exact hS.nil_eq.symm)
    rw [foldl_actA_idx_from S _ hidx hSne]
    obtain ⟨ys, e, _, hmem, hub, hget⟩ := foldl_actA_idx S [] hidx
    rw [show nodeList Node.null = [] from rfl, e]
    simp only [flattenNode]
    have hlen : ys.length = xs.length := by
      apply Nat.le_antisymm
      · apply hub xs.length (Nat.zero_le _)
        intro i m hm
        obtain ⟨j, m', x, he, hx, _⟩ := mem_relList (hS.mem_iff.mp hm)
        cases he
        have : j < xs.length := by
          rcases Nat.lt_or_ge j xs.length with h | h
          · exact h
          · rw [List.getElem?_eq_none h] at hx; cases hx
        omega
      · apply Nat.le_of_not_lt
        intro hlt
        have hx : xs[ys.length]? = some xs[ys.length] := List.getElem?_eq_getElem hlt
        have hrel := (hi.of_list (List.getElem_mem hlt)).1
        obtain ⟨m, hm⟩ := List.exists_mem_of_ne_nil _ hrel
        have h1 := mem_relList_of 0 hx hm
        rw [Nat.zero_add] at h1
        have := hmem _ _ (hS.mem_iff.mpr h1)
        omega
    apply flattenList_congr xs ys hlen
    intro j hj q'
    rw [hget j]
    have hx : xs[j]? = some xs[j] := List.getElem?_eq_getElem hj
    have hperm := hS.filterMap (popIdx j)
    have hp := relList_pop xs 0 j
    rw [Nat.zero_add, hx] at hp
    simp only [rel] at hperm
    rw [hp] at hperm
    have hxd : xs.getD j Node.null = xs[j] := by
      rw [List.getD_eq_getElem?_getD, hx]; rfl
    rw [hxd, show ([] : List Node).getD j Node.null = Node.null from rfl]
    exact readdList xs (fun x hx => ⟨hw.of_list_mem hx, (hi.of_list hx).2, (hi.of_list hx).1⟩) xs[j]
      (List.getElem_mem hj) _ hperm q'
  | .cont kvs, hw, hi, hne, S, hS, q => by
    have hkey : ∀ p ∈ S, p.IsKey := by
      intro p hp
      obtain ⟨k, x, m, rfl, _, _⟩ := mem_relKvs (hS.mem_iff.mp hp)
      trivial
    have hSne : S ≠ [] := fun e => hne (by subst e; exact hS.nil_eq.symm)
    rw [foldl_actA_key S _ hkey hSne, show nodeCont Node.null = [] from rfl]
    have hkeyed : ∀ m ∈ S.map M.a, m.Keyed := by
      intro m hm
      obtain ⟨p, hp, rfl⟩ := List.mem_map.mp hm
      have := hkey p hp
      cases p <;> simp_all [AP.IsKey, M.Keyed]
    obtain ⟨hsorted, hget⟩ := get?_foldl_actK (S.map M.a) [] .nil hkeyed
    simp only [flattenNode]
    apply flattenKvs_congr _ kvs hsorted hw.sorted
    intro k q'
    rw [hget k, filterMap_popM_map_a]
    have hperm := hS.filterMap (popKey k)
    simp only [rel] at hperm
    rw [relKvs_pop kvs hw.sorted k] at hperm
    cases hg : AMap.get? kvs k with
    | none =>
      rw [hg] at hperm
      rw [hperm.eq_nil]
      rfl
    | some x =>
      rw [hg] at hperm
      simp only at hperm
      by_cases hx : rel x = []
      · rw [hx] at hperm
        rw [hperm.eq_nil]
        simp only [List.map_nil, List.foldl_nil, AMap.get?_nil, flatO]
        rw [flattenNode_nil_of_rel hx]
      · have hT : S.filterMap (popKey k) ≠ [] := fun e => hx (by rw [e] at hperm; exact hperm.nil_eq.symm)
        rw [foldl_act_adds _ _ hT]
        simp only [AMap.get?_nil, Option.getD_none, flatO]
        have hmem := AMap.mem_of_get? hg
        exact readdKvs kvs (fun e he => ⟨hw.of_cont_get (AMap.get?_of_mem hw.sorted he), hi.of_cont he⟩)
          (k, x) hmem hx _ hperm q'
theorem readdList : ∀ (xs : List Node), (∀ x ∈ xs, x.WF ∧ x.ItemsHaveScalars ∧ rel x ≠ []) →
    ∀ x ∈ xs, ∀ S : List AP, S.Perm (rel x) →
    ∀ q, flattenNode (S.foldl (fun n p => actA p n) Node.null) q = flattenNode x q
  | [], _, _, hx, _, _, _ => by cases hx
  | y :: ys, h, x, hx, S, hS, q => by
    rcases List.mem_cons.mp hx with e | hx
    · have := h y (List.mem_cons_self ..)
      rw [e] at hS ⊢
      exact readd y this.1 this.2.1 this.2.2 S hS q
    · exact readdList ys (fun z hz => h z (List.mem_cons_of_mem _ hz)) x hx S hS q
theorem readdKvs : ∀ (kvs : List (String × Node)), (∀ e ∈ kvs, e.2.WF ∧ e.2.ItemsHaveScalars) →
    ∀ e ∈ kvs, rel e.2 ≠ [] → ∀ S : List AP, S.Perm (rel e.2) →
    ∀ q, flattenNode (S.foldl (fun n p => actA p n) Node.null) q = flattenNode e.2 q
  | [], _, _, he, _, _, _, _ => by cases he
  | (k, y) :: r, h, e, he, hne, S, hS, q => by
    rcases List.mem_cons.mp he with e' | he
    · have := h (k, y) (List.mem_cons_self ..)
      rw [e'] at hS hne ⊢
      exact readd y this.1 this.2 hne S hS q
    · exact readdKvs r (fun z hz => h z (List.mem_cons_of_mem _ hz)) e he hne S hS q
end

/-! ## structured emission for compatible documents -/

/-- the C08 domain: wherever both sides define a keyed position the kinds agree, scalars are
    equal, containers are recursively compatible; lists are unconstrained -/
inductive Compat : Node → Node → Prop
  | leaf (v : Scalar) : Compat (.leaf v) (.leaf v)
  | list (xs ys : List Node) : Compat (.list xs) (.list ys)
  | cont {l r : List (String × Node)} :
      (∀ k x y, AMap.get? l k = some x → AMap.get? r k = some y → Compat x y) → Compat (.cont l) (.cont r)

def M.push (k : String) : M → M
  | .a p => .a (.key k p)
  | .d ks => .d (k :: ks)

/-- second loop of diff(): Deletes of right-only keys -/
def emitRightM : List (String × Node) → AMap Node → List M
  | [], _ => []
  | (k, _) :: rest, l =>
    (match AMap.get? l k with
     | some _ => []
     | none => [M.d [k]]) ++ emitRightM rest l

mutual
/-- what Diff emits for a compatible pair, relative to the pair's position -/
def emitM : Node → Node → List M
  | .cont l, y => match y with
    | .cont r => emitLeftM l r ++ emitRightM r l
    | _ => []
  | .list xs, y => match y with
    | .list ys => if equals (.list xs) (.list ys) then [] else M.d [] :: (relList xs 0).map M.a
    | _ => []
  | .leaf _, _ => []
def emitLeftM : List (String × Node) → AMap Node → List M
  | [], _ => []
  | (k, n) :: rest, r =>
    (match AMap.get? r k with
     | some n2 => (emitM n n2).map (M.push k)
     | none => (rel n).map (fun p => M.a (.key k p))) ++ emitLeftM rest r
end

theorem popM_push (k k' : String) (m : M) : popM k (M.push k' m) = if k' = k then some m else none := by
  cases m <;> rfl

theorem filterMap_popM_push (T : List M) (k k' : String) :
    (T.map (M.push k')).filterMap (popM k) = if k' = k then T else [] := by
  induction T with
  | nil => simp
  | cons t T ih =>
    simp only [List.map_cons, List.filterMap_cons, popM_push]
    by_cases e : k' = k
    · simp only [e, if_true] at ih ⊢; rw [ih]
    · simp only [e, if_false] at ih ⊢; exact ih

theorem filterMap_popM_addkey (T : List AP) (k k' : String) :
    (T.map (fun p => M.a (.key k' p))).filterMap (popM k) = if k' = k then T.map M.a else [] := by
  induction T with
  | nil => simp
  | cons t T ih =>
    simp only [List.map_cons, List.filterMap_cons, popM]
    by_cases e : k' = k
    · simp only [e, if_true] at ih ⊢; rw [ih]
    · simp only [e, if_false] at ih ⊢; exact ih

def leftBlockM (n : Node) : Option Node → List M
  | some n2 => emitM n n2
  | none => (rel n).map M.a

theorem emitLeftM_pop : ∀ (xs : List (String × Node)) (r : AMap Node), AMap.Sorted xs → ∀ k,
    (emitLeftM xs r).filterMap (popM k) = match AMap.get? xs k with
      | some n => leftBlockM n (AMap.get? r k)
      | none => []
  | [], _, _, _ => rfl
  | (k0, n) :: rest, r, hs, k => by
    simp only [emitLeftM, List.filterMap_append, AMap.get?]
    rw [emitLeftM_pop rest r hs.tail k]
    by_cases e : k = k0
    · subst e
      simp only [if_true]
      rw [AMap.get?_of_allGt hs.head_lt]
      cases AMap.get? r k with
      | none => simp only [filterMap_popM_addkey, if_true, leftBlockM, List.append_nil]
      | some n2 => simp only [filterMap_popM_push, if_true, leftBlockM, List.append_nil]
    · have e' : k0 ≠ k := fun h => e h.symm
      simp only [if_neg e]
      cases AMap.get? r k0 with
      | none => simp only [filterMap_popM_addkey, if_neg e', List.nil_append]
      | some n2 => simp only [filterMap_popM_push, if_neg e', List.nil_append]

theorem emitRightM_pop : ∀ (ys : List (String × Node)) (l : AMap Node), AMap.Sorted ys → ∀ k,
    (emitRightM ys l).filterMap (popM k) = match AMap.get? ys k with
      | some _ => (match AMap.get? l k with
        | some _ => []
        | none => [M.d []])
      | none => []
  | [], _, _, _ => rfl
  | (k0, n) :: rest, l, hs, k => by
    simp only [emitRightM, List.filterMap_append, AMap.get?]
    rw [emitRightM_pop rest l hs.tail k]
    by_cases e : k = k0
    · subst e
      simp only [if_true]
      rw [AMap.get?_of_allGt hs.head_lt]
      cases AMap.get? l k with
      | none => simp [popM]
      | some _ => simp
    · have e' : k0 ≠ k := fun h => e h.symm
      simp only [if_neg e]
      cases AMap.get? l k0 with
      | none => simp [popM, e']
      | some _ => simp

theorem keyed_emitRightM : ∀ (ys : List (String × Node)) (l : AMap Node), ∀ m ∈ emitRightM ys l, m.Keyed
  | [], _, _, h => by cases h
  | (k0, n) :: rest, l, m, h => by
    simp only [emitRightM, List.mem_append] at h
    rcases h with h | h
    · split at h
      · cases h
      · simp only [List.mem_singleton] at h; subst h; trivial
    · exact keyed_emitRightM rest l m h

theorem keyed_push (k : String) (m : M) : (M.push k m).Keyed := by cases m <;> trivial

theorem keyed_emitLeftM : ∀ (xs : List (String × Node)) (r : AMap Node), ∀ m ∈ emitLeftM xs r, m.Keyed
  | [], _, _, h => by cases h
  | (k0, n) :: rest, r, m, h => by
    simp only [emitLeftM, List.mem_append] at h
    rcases h with h | h
    · split at h
      · simp only [List.mem_map] at h
        obtain ⟨p, _, rfl⟩ := h
        exact keyed_push _ _
      · simp only [List.mem_map] at h
        obtain ⟨p, _, rfl⟩ := h
        trivial
    · exact keyed_emitLeftM rest r m h

/-! ## admissible orders -/

/-- the Delete at `ks` removes a position strictly above the Add `p` -/
def Above : List String → AP → Prop
  | [], .leaf _ => False
  | [], _ => True
  | k :: ks, .key k' m => k = k' ∧ Above ks m
  | _ :: _, _ => False

/-- no Add is followed by a Delete of a position above it -/
def OrdR : M → M → Prop
  | .a p, .d ks => ¬ Above ks p
  | _, _ => True

def Ord (S : List M) : Prop := S.Pairwise OrdR

theorem Ord.pop {S : List M} (h : Ord S) (k : String) : Ord (S.filterMap (popM k)) := by
  apply List.Pairwise.filterMap (popM k) _ h
  intro m1 m2 hR b1 hb1 b2 hb2
  cases m1 with
  | d ks1 =>
    cases ks1 with
    | nil => simp [popM] at hb1
    | cons k1 ks1 =>
      simp only [popM] at hb1
      split at hb1
      · simp only [Option.mem_def, Option.some.injEq] at hb1; subst hb1; simp [OrdR]
      · simp at hb1
  | a p1 =>
    cases p1 with
    | leaf _ => simp [popM] at hb1
    | idx _ _ => simp [popM] at hb1
    | key k1 p1 =>
      simp only [popM] at hb1
      split at hb1
      · rename_i e1
        simp only [Option.mem_def, Option.some.injEq] at hb1
        subst hb1
        cases m2 with
        | a p2 =>
          have hq : ∃ q, b2 = M.a q := by
            cases p2 with
            | key k2 q =>
              simp only [popM] at hb2
              split at hb2
              · simp only [Option.mem_def, Option.some.injEq] at hb2; exact ⟨q, hb2.symm⟩
              · simp at hb2
            | leaf _ => simp [popM] at hb2
            | idx _ _ => simp [popM] at hb2
          obtain ⟨q, rfl⟩ := hq
          simp [OrdR]
        | d ks2 =>
          cases ks2 with
          | nil => simp [popM] at hb2
          | cons k2 ks2 =>
            simp only [popM] at hb2
            split at hb2
            · rename_i e2
              simp only [Option.mem_def, Option.some.injEq] at hb2
              subst hb2
              simp only [OrdR, Above] at hR ⊢
              intro ha
              exact hR ⟨by rw [e1, e2], ha⟩
            · simp at hb2
      · simp at hb1

/-! ## reconstruction -/

theorem exists_perm_map {α β : Type} (f : α → β) : ∀ {l1 l2 : List β}, l1.Perm l2 → ∀ (l : List α), l2 = l.map f →
    ∃ s : List α, s.Perm l ∧ s.map f = l1 := by
  intro l1 l2 h
  induction h with
  | nil =>
    intro l hl
    cases l with
    | nil => exact ⟨[], .refl _, rfl⟩
    | cons _ _ => simp at hl
  | cons x _ ih =>
    intro l hl
    cases l with
    | nil => simp at hl
    | cons a l0 =>
      simp only [List.map_cons, List.cons.injEq] at hl
      obtain ⟨s0, hs0, hm⟩ := ih l0 hl.2
      exact ⟨a :: s0, hs0.cons a, by simp [hm, hl.1]⟩
  | swap x y l' =>
    intro l hl
    cases l with
    | nil => simp at hl
    | cons a l0 =>
      cases l0 with
      | nil => simp at hl
      | cons b l1 =>
        simp only [List.map_cons, List.cons.injEq] at hl
        exact ⟨b :: a :: l1, List.Perm.swap .., by simp [hl.1, hl.2.1, hl.2.2]⟩
  | trans _ _ ih1 ih2 =>
    intro l hl
    obtain ⟨s2, hs2, hm2⟩ := ih2 l hl
    obtain ⟨s1, hs1, hm1⟩ := ih1 s2 hm2.symm
    exact ⟨s1, hs1.trans hs2, hm1⟩

/-- a run of Adds of a node's leaves on an absent position -/
theorem flatO_adds (n : Node) (hw : n.WF) (hi : n.ItemsHaveScalars) (T : List M) (hT : T.Perm ((rel n).map M.a))
    (q : String) : flatO (T.foldl (fun o m => act m o) none) q = flattenNode n q := by
  obtain ⟨T', hT', rfl⟩ := exists_perm_map M.a hT _ rfl
  by_cases hr : rel n = []
  · rw [hr] at hT'
    rw [hT'.eq_nil, flattenNode_nil_of_rel hr]
    rfl
  · have hne : T' ≠ [] := fun e => hr (by rw [e] at hT'; exact hT'.nil_eq.symm)
    rw [foldl_act_adds T' none hne]
    simp only [flatO, Option.getD_none]
    exact readd n hw hi hr T' hT' q

mutual
/-- applying, in any admissible order, what Diff emits for a compatible pair to the right side
    gives the flattened view of the left side -/
theorem recon : ∀ (x y : Node), x.Valid → y.Valid → x.ItemsHaveScalars → Compat x y →
    ∀ S : List M, S.Perm (emitM x y) → Ord S →
    ∀ q, flatO (S.foldl (fun o m => act m o) (some y)) q = flattenNode x q
  | .leaf v, y, _, _, _, hc, S, hS, _, q => by
    cases hc
    simp only [emitM] at hS
    rw [hS.eq_nil]
    rfl
  | .list xs, y, hx, hy, hi, hc, S, hS, hO, q => by
    cases hc with
    | list _ ys =>
      simp only [emitM] at hS
      by_cases he : equals (.list xs) (.list ys) = true
      · rw [if_pos he] at hS
        rw [hS.eq_nil, (equals_iff_eq hx hy).mp he]
        rfl
      · rw [if_neg he] at hS
        have hfirst : ∃ S', S = M.d [] :: S' ∧ S'.Perm ((relList xs 0).map M.a) := by
          cases S with
          | nil => exact absurd hS.symm.eq_nil (by simp)
          | cons m S' =>
            cases m with
            | d ks =>
              have hm : M.d ks ∈ M.d [] :: (relList xs 0).map M.a := hS.mem_iff.mp (List.mem_cons_self ..)
              rcases List.mem_cons.mp hm with e | hm
              · cases e; exact ⟨S', rfl, hS.cons_inv⟩
              · simp at hm
            | a p =>
              exfalso
              have hd : M.d [] ∈ M.a p :: S' := hS.mem_iff.mpr (List.mem_cons_self ..)
              have hd' : M.d [] ∈ S' := by
                rcases List.mem_cons.mp hd with e | h
                · cases e
                · exact h
              have hp : M.a p ∈ M.d [] :: (relList xs 0).map M.a := hS.mem_iff.mp (List.mem_cons_self ..)
              have hp' : p ∈ relList xs 0 := by simpa using hp
              obtain ⟨j, m, _, rfl, _, _⟩ := mem_relList hp'
              have := (List.pairwise_cons.mp hO).1 _ hd'
              simp [OrdR, Above] at this
        obtain ⟨S', rfl, hS'⟩ := hfirst
        simp only [List.foldl_cons, act, actD]
        exact flatO_adds (.list xs) hx.1 hi S' hS' q
  | .cont l, y, hx, hy, hi, hc, S, hS, hO, q => by
    cases hc with
    | @cont _ r hc =>
      simp only [emitM] at hS
      have hkeyed : ∀ m ∈ S, m.Keyed := by
        intro m hm
        rcases List.mem_append.mp (hS.mem_iff.mp hm) with h | h
        · exact keyed_emitLeftM _ _ m h
        · exact keyed_emitRightM _ _ m h
      rw [foldl_act_keyed S r hkeyed]
      obtain ⟨hsorted, hget⟩ := get?_foldl_actK S r hy.sorted hkeyed
      simp only [flatO, flattenNode]
      apply flattenKvs_congr _ l hsorted hx.sorted
      intro k q'
      rw [hget k]
      have hperm := hS.filterMap (popM k)
      rw [List.filterMap_append, emitLeftM_pop l r hx.sorted k, emitRightM_pop r l hy.sorted k] at hperm
      have hOk := hO.pop k
      generalize S.filterMap (popM k) = T at hperm hOk
      cases hl : AMap.get? l k with
      | none =>
        rw [hl] at hperm
        cases hr : AMap.get? r k with
        | none =>
          rw [hr] at hperm
          simp only [List.append_nil] at hperm
          rw [hperm.eq_nil]
          rfl
        | some y' =>
          rw [hr] at hperm
          simp only [List.nil_append, List.perm_singleton] at hperm
          rw [hperm]
          rfl
      | some x' =>
        rw [hl] at hperm
        have hmem := AMap.mem_of_get? hl
        cases hr : AMap.get? r k with
        | none =>
          rw [hr] at hperm
          simp only [leftBlockM, List.append_nil] at hperm
          simp only [flatO]
          exact flatO_adds x' (hx.of_cont_mem hmem).1.1 (hi.of_cont hmem) T hperm q'
        | some y' =>
          rw [hr] at hperm
          simp only [leftBlockM, List.append_nil] at hperm
          simp only [flatO]
          exact reconKvs l r (fun e he => ⟨(hx.of_cont_mem he).1, hi.of_cont he⟩)
            (fun e he y hg => ⟨get?_valid hy hg, hc e.1 e.2 y (AMap.get?_of_mem hx.sorted he) hg⟩)
            (k, x') hmem y' hr T hperm hOk q'
theorem reconKvs : ∀ (xs : List (String × Node)) (r : AMap Node),
    (∀ e ∈ xs, e.2.Valid ∧ e.2.ItemsHaveScalars) →
    (∀ e ∈ xs, ∀ y, AMap.get? r e.1 = some y → y.Valid ∧ Compat e.2 y) →
    ∀ e ∈ xs, ∀ y, AMap.get? r e.1 = some y → ∀ S : List M, S.Perm (emitM e.2 y) → Ord S →
    ∀ q, flatO (S.foldl (fun o m => act m o) (some y)) q = flattenNode e.2 q
  | [], _, _, _, _, he, _, _, _, _, _, _ => by cases he
  | (k, x) :: rest, r, h1, h2, e, he, y, hg, S, hS, hO, q => by
    rcases List.mem_cons.mp he with e' | he
    · have a1 := h1 (k, x) (List.mem_cons_self ..)
      rw [e'] at hS hg ⊢
      have a2 := h2 (k, x) (List.mem_cons_self ..) y hg
      exact recon x y a1.1 a2.1 a1.2 a2.2 S hS hO q
    · exact reconKvs rest r (fun z hz => h1 z (List.mem_cons_of_mem _ hz))
        (fun z hz => h2 z (List.mem_cons_of_mem _ hz)) e he y hg S hS hO q
end

end Ytk
