/-
  YtkProofs.FuncsDomMerge — the regenerated translation of dom/merge.go (and of hasValue /
  firstValidListItem of dom/overlay.go) in YtkModel/Generated/FuncsDom.lean EQUALS the
  hand-written model of YtkModel/Merge.lean, for all inputs.  Restated in YtkProps/C04.lean.
-/
import YtkModel.Generated.FuncsDom
import YtkModel.Merge
import YtkProofs.Merge
import YtkProofs.Props
import YtkProofs.FuncsLemmas

set_option linter.unusedSimpArgs false

namespace Ytk.FuncsDomMerge
open Ytk Ytk.Generated

/-! ## hasValue, coalesce, firstValidListItem -/

theorem leaf_beq (a b : Scalar) : (Node.leaf a == Node.leaf b) = (a == b) := by
  show Node.beq _ _ = _
  simp [Node.beq]

theorem hasValue_generated_eq_model (n : Node) : FuncsDom.hasValue (some n) = .ok (hasValue n) := by
  cases n with
  | leaf s =>
    by_cases h : s = Scalar.null
    · subst h; rfl
    · simp [FuncsDom.hasValue, GoDom.isNilLeaf, GoDom.nonNil, Go.deref, GoDom.isList, GoDom.isContainer,
        Node.isList, Node.isCont, GoDom.asLeaf, GoDom.value, GoDom.anyNil, hasValue, h, leaf_beq]
  | list xs => rfl
  | cont kvs => rfl

theorem hasValue_generated_nil : FuncsDom.hasValue none = .ok false := rfl

theorem coalesce_loop1_eq (xs : List Node) :
    FuncsDom.coalesce_loop1 xs =
      .ok (match xs.find? hasValue with | some n => .ret n | none => .next ()) := by
  induction xs with
  | nil => rfl
  | cons x xs ih =>
    simp only [FuncsDom.coalesce_loop1, hasValue_generated_eq_model, List.find?]
    cases h : hasValue x
    · simpa using ih
    · rfl

theorem coalesce_generated_eq_model (nodes : List Node) :
    FuncsDom.coalesce nodes = .ok (coalesceList nodes) := by
  simp only [FuncsDom.coalesce, GoDom.slicesReverse, coalesce_loop1_eq, coalesceList]
  cases h : (nodes.reverse).find? hasValue <;> rfl

theorem firstValid_loop1_eq (i : Nat) (lists : List (List Node)) :
    FuncsDom.firstValidListItem_loop1 (i : Int) lists =
      .ok (match lists.find? (fun l => decide (i < l.length)) with
           | some l => .ret (l.getD i Node.null) | none => .next ()) := by
  induction lists with
  | nil => rfl
  | cons l ls ih =>
    simp only [FuncsDom.firstValidListItem_loop1, GoDom.size, GoDom.items, List.find?]
    by_cases h : i < l.length
    · have h' : ((l.length : Int) > (i : Int)) := by omega
      simp [h, h', Go.index, List.getD]
    · have h' : ¬ ((l.length : Int) > (i : Int)) := by omega
      simp only [h', decide_false, h]
      simpa using ih

theorem firstValidListItem_generated_eq_model (i : Nat) (lists : List (List Node)) :
    FuncsDom.firstValidListItem (i : Int) lists = .ok (firstValidListItem i lists) := by
  simp only [FuncsDom.firstValidListItem, firstValid_loop1_eq, firstValidListItem]
  cases h : lists.find? (fun l => decide (i < l.length)) <;> rfl

/-! ## mergeListsAppend -/

theorem natCast_succ' (i : Nat) : ((i : Int) + 1) = ((i + 1 : Nat) : Int) := by omega

theorem append_loop1_eq (l1 : List Node) : ∀ (fuel : Nat) (l : List Node) (i : Nat), i ≤ l1.length →
    l1.length - i < fuel →
    FuncsDom.mergeListsAppend_loop1 l1 fuel l (i : Int) = .ok (l ++ l1.drop i, (l1.length : Int)) := by
  intro fuel
  induction fuel with
  | zero => intro l i _ h; omega
  | succ fuel ih =>
    intro l i hi hf
    simp only [FuncsDom.mergeListsAppend_loop1, GoDom.size, GoDom.items, GoDom.append, listAppend]
    by_cases h : i < l1.length
    · have h' : ((i : Int) < (l1.length : Int)) := by omega
      simp only [h', decide_true, if_true, Go.index_nat l1 i h, Go.Res.ok_bind]
      rw [natCast_succ']
      show FuncsDom.mergeListsAppend_loop1 l1 fuel (l ++ [l1[i]]) ((i + 1 : Nat) : Int) = _
      rw [ih _ (i + 1) (by omega) (by omega), List.append_assoc]
      rw [List.drop_eq_getElem_cons h]; rfl
    · have h' : ¬ ((i : Int) < (l1.length : Int)) := by omega
      have e : i = l1.length := by omega
      subst e
      simp [h']

theorem append_loop2_eq (l2 : List Node) : ∀ (fuel : Nat) (l : List Node) (i : Nat), i ≤ l2.length →
    l2.length - i < fuel →
    FuncsDom.mergeListsAppend_loop2 l2 fuel l (i : Int) = .ok (l ++ l2.drop i, (l2.length : Int)) := by
  intro fuel
  induction fuel with
  | zero => intro l i _ h; omega
  | succ fuel ih =>
    intro l i hi hf
    simp only [FuncsDom.mergeListsAppend_loop2, GoDom.size, GoDom.items, GoDom.append, listAppend]
    by_cases h : i < l2.length
    · have h' : ((i : Int) < (l2.length : Int)) := by omega
      simp only [h', decide_true, if_true, Go.index_nat l2 i h, Go.Res.ok_bind]
      rw [natCast_succ']
      show FuncsDom.mergeListsAppend_loop2 l2 fuel (l ++ [l2[i]]) ((i + 1 : Nat) : Int) = _
      rw [ih _ (i + 1) (by omega) (by omega), List.append_assoc]
      rw [List.drop_eq_getElem_cons h]; rfl
    · have h' : ¬ ((i : Int) < (l2.length : Int)) := by omega
      have e : i = l2.length := by omega
      subst e
      simp [h']

theorem mergeListsAppend_generated_eq_model (l1 l2 : List Node) :
    FuncsDom.mergeListsAppend l1 l2 = .ok (appendList l1 l2) := by
  have e1 := append_loop1_eq l1 (((GoDom.size l1) + 1).toNat) GoDom.newList 0 (by omega)
    (by simp only [GoDom.size]; omega)
  have e2 := append_loop2_eq l2 (((GoDom.size l2) + 1).toNat) (GoDom.newList ++ l1) 0 (by omega)
    (by simp only [GoDom.size]; omega)
  simp only [Int.natCast_zero, List.drop_zero, GoDom.newList, List.nil_append] at e1 e2
  simp only [FuncsDom.mergeListsAppend, GoDom.newList]
  simp [e1, e2, appendList]

/-! ## mergeContainers -/

/-- the contract of the list strategy `mg.listMergeFn` (a function-valued field of the merger, a
    parameter of the translation) on second lists of size below `M` -/
def ListFnOk (o : ListStrategy) (f : List Node → List Node → Go.Res (List Node)) (M : Nat) : Prop :=
  ∀ a b, (Node.list a).WF → (Node.list b).WF → Node.sizeList b < M → f a b = .ok (mergeList o a b)

theorem mc_loop1_eq (kvs : List (String × Node)) : ∀ (m : AMap Node),
    FuncsDom.mergeContainers_loop1 kvs m = .ok (kvs.foldl (fun m p => AMap.insert m p.1 p.2) m) := by
  induction kvs with
  | nil => intro m; rfl
  | cons p kvs ih =>
    intro m
    obtain ⟨k, v⟩ := p
    simp only [FuncsDom.mergeContainers_loop1, GoDom.mapSet, List.foldl_cons]
    exact ih _

theorem wf_step (o : ListStrategy) {m : AMap Node} {k : String} {v : Node} (hm : (Node.cont m).WF)
    (hv : v.WF) : (Node.cont (mergeKvs o m [(k, v)])).WF := by
  cases hm with
  | cont hs hall =>
    exact .cont (sorted_mergeKvs o _ hs) (wf_mergeKvs o m _ hall (by
      intro p hp
      simp only [List.mem_singleton] at hp
      subst hp
      exact hv))

theorem mergeKvs_cons_step (o : ListStrategy) (m : AMap Node) (k : String) (v : Node)
    (rest : List (String × Node)) :
    mergeKvs o m ((k, v) :: rest) = mergeKvs o (mergeKvs o m [(k, v)]) rest := by
  simp [mergeKvs]

theorem size_le_of_cons {k : String} {v : Node} {rest : List (String × Node)} :
    v.size + Node.sizeKvs rest = Node.sizeKvs ((k, v) :: rest) := by
  simp [Node.sizeKvs]

theorem mc_loop2_eq (o : ListStrategy) (f : List Node → List Node → Go.Res (List Node)) (M : Nat)
    (hf : ListFnOk o f M) (rec : AMap Node → Option (AMap Node) → Go.Res (AMap Node)) (N : Nat)
    (hrec : ∀ a b, (Node.cont a).WF → (Node.cont b).WF → Node.sizeKvs b < N → Node.sizeKvs b ≤ M →
      rec a (some b) = .ok (mergeKvs o a b)) :
    ∀ (kvs : List (String × Node)) (merged : AMap Node), (Node.cont merged).WF → (∀ p ∈ kvs, p.2.WF) →
      Node.sizeKvs kvs ≤ N → Node.sizeKvs kvs ≤ M →
      FuncsDom.mergeContainers_loop2 rec f kvs merged = .ok (mergeKvs o merged kvs) := by
  intro kvs
  induction kvs with
  | nil => intro merged _ _ _ _; rfl
  | cons p rest ih =>
    intro merged hm hvs hN hM
    obtain ⟨k, v⟩ := p
    have hv : v.WF := hvs (k, v) (List.mem_cons_self ..)
    have hrest : ∀ p ∈ rest, p.2.WF := fun p hp => hvs p (List.mem_cons_of_mem _ hp)
    have hsz := @size_le_of_cons k v rest
    have ih' := fun m' (hm' : (Node.cont m').WF) => ih m' hm' hrest (by omega) (by omega)
    rw [mergeKvs_cons_step]
    have hstep := wf_step o (k := k) hm hv
    simp only [FuncsDom.mergeContainers_loop2, GoDom.mapGet, GoDom.mapSet]
    cases hg : AMap.get? merged k with
    | none =>
      have e : mergeKvs o merged [(k, v)] = AMap.insert merged k v := by simp [mergeKvs, hg]
      rw [e] at hstep ⊢
      exact ih' _ hstep
    | some n =>
      have hn : n.WF := Node.WF.of_cont_get hm hg
      have e : mergeKvs o merged [(k, v)] = AMap.insert merged k (mergeNode o n v) := by
        simp [mergeKvs, hg]
      rw [e] at hstep ⊢
      cases n with
      | cont a =>
        cases v with
        | cont b =>
          have hb : Node.sizeKvs b < N ∧ Node.sizeKvs b ≤ M := by
            simp only [Node.size] at hsz; omega
          simp only [GoDom.isContainer, Node.isCont, Bool.and_self, if_true, GoDom.asContainer,
            Go.Res.ok_bind, hrec a b hn hv hb.1 hb.2]
          rw [mergeNode_cont_cont] at hstep ⊢
          exact ih' _ hstep
        | list yb =>
          simp only [GoDom.isContainer, GoDom.isList, Node.isCont, Node.isList, Bool.and_false, Bool.false_and,
            Bool.false_eq_true, if_false, coalesce_generated_eq_model, Go.Res.ok_bind]
          exact ih' _ hstep
        | leaf s =>
          simp only [GoDom.isContainer, GoDom.isList, Node.isCont, Node.isList, Bool.and_false, Bool.false_and,
            Bool.false_eq_true, if_false, coalesce_generated_eq_model, Go.Res.ok_bind]
          exact ih' _ hstep
      | list xa =>
        cases v with
        | cont b =>
          simp only [GoDom.isContainer, GoDom.isList, Node.isCont, Node.isList, Bool.and_false, Bool.false_and,
            Bool.false_eq_true, if_false, coalesce_generated_eq_model, Go.Res.ok_bind]
          exact ih' _ hstep
        | list yb =>
          have hb : Node.sizeList yb < M := by
            simp only [Node.size] at hsz; omega
          simp only [GoDom.isContainer, GoDom.isList, Node.isCont, Node.isList, Bool.and_self, Bool.false_eq_true,
            if_false, if_true, GoDom.asList, Go.Res.ok_bind, hf xa yb hn hv hb]
          rw [mergeNode_list_list] at hstep ⊢
          exact ih' _ hstep
        | leaf s =>
          simp only [GoDom.isContainer, GoDom.isList, Node.isCont, Node.isList, Bool.and_false, Bool.false_and,
            Bool.false_eq_true, if_false, coalesce_generated_eq_model, Go.Res.ok_bind]
          exact ih' _ hstep
      | leaf t =>
        cases v with
        | cont b =>
          simp only [GoDom.isContainer, GoDom.isList, Node.isCont, Node.isList, Bool.and_false, Bool.false_and,
            Bool.false_eq_true, if_false, coalesce_generated_eq_model, Go.Res.ok_bind]
          exact ih' _ hstep
        | list yb =>
          simp only [GoDom.isContainer, GoDom.isList, Node.isCont, Node.isList, Bool.and_false, Bool.false_and,
            Bool.false_eq_true, if_false, coalesce_generated_eq_model, Go.Res.ok_bind]
          exact ih' _ hstep
        | leaf s =>
          simp only [GoDom.isContainer, GoDom.isList, Node.isCont, Node.isList, Bool.and_false, Bool.false_and,
            Bool.false_eq_true, if_false, coalesce_generated_eq_model, Go.Res.ok_bind]
          exact ih' _ hstep

theorem mergeContainers_rec_eq (o : ListStrategy) (f : List Node → List Node → Go.Res (List Node)) (M : Nat)
    (hf : ListFnOk o f M) : ∀ (fuel : Nat) (c1 c2 : AMap Node), (Node.cont c1).WF → (Node.cont c2).WF →
      Node.sizeKvs c2 < fuel → Node.sizeKvs c2 ≤ M →
      FuncsDom.mergeContainers_rec f fuel c1 (some c2) = .ok (mergeKvs o c1 c2) := by
  intro fuel
  induction fuel with
  | zero => intro c1 c2 _ _ h; omega
  | succ fuel ih =>
    intro c1 c2 h1 h2 hfu hM
    have hs1 : AMap.Sorted c1 := Node.WF.sorted h1
    have h2v : ∀ p ∈ c2, p.2.WF := by cases h2 with | cont _ hall => exact hall
    simp only [FuncsDom.mergeContainers_rec, GoDom.newContainer, GoDom.children, GoDom.setChildren, mc_loop1_eq,
      Go.Res.ok_bind, GoDom.nonNil, Go.deref]
    have e : List.foldl (fun m p => AMap.insert m p.1 p.2) [] c1 = c1 := Ytk.Props.ofList_sorted hs1
    rw [e, mc_loop2_eq o f M hf (FuncsDom.mergeContainers_rec f fuel) fuel
      (fun a b ha hb hN hM' => ih a b ha hb hN hM') c2 c1 h1 h2v (by omega) hM]
    rfl

/-- merger.mergeContainers, as translated, is the model's `mergeKvs` on well-formed containers, for every
    list strategy `f` that meets its contract on the lists below `c2` -/
theorem mergeContainers_generated_eq_model (o : ListStrategy) (f : List Node → List Node → Go.Res (List Node))
    (c1 c2 : AMap Node) (hf : ListFnOk o f (Node.sizeKvs c2)) (h1 : (Node.cont c1).WF) (h2 : (Node.cont c2).WF) :
    FuncsDom.mergeContainers f c1 (some c2) = .ok (mergeKvs o c1 c2) := by
  simp only [FuncsDom.mergeContainers, GoDom.sizeC, Option.getD_some]
  exact mergeContainers_rec_eq o f _ hf _ c1 c2 h1 h2 (by omega) (by omega)

/-! ## mergeListsMeld -/

theorem listFnOk_mono {o : ListStrategy} {f : List Node → List Node → Go.Res (List Node)} {M M' : Nat}
    (hf : ListFnOk o f M) (h : M' ≤ M) : ListFnOk o f M' :=
  fun a b ha hb hs => hf a b ha hb (by omega)

theorem size_getElem_le (xs : List Node) (i : Nat) (h : i < xs.length) : xs[i].size ≤ Node.sizeList xs := by
  induction xs generalizing i with
  | nil => simp at h
  | cons x xs ih =>
    cases i with
    | zero => simp [Node.sizeList]
    | succ i =>
      have := ih i (by simpa using h)
      simp only [List.getElem_cons_succ, Node.sizeList]
      omega

theorem set_uint (l : List Node) (i : Nat) (v : Node) (h : i < l.length) :
    GoDom.set l (GoDom.uint (i : Int)) v = l.set i v := by
  simp only [GoDom.set, GoDom.uint, Int.toNat_natCast, listSet, padTo]
  have : i + 1 - l.length = 0 := by omega
  simp [this]

theorem meld_loop1_eq (mx : Nat) : ∀ (fuel : Nat) (l : List Node) (i : Nat), i ≤ mx → mx - i < fuel →
    FuncsDom.mergeListsMeld_loop1 (mx : Int) fuel l (i : Int) =
      .ok (l ++ List.replicate (mx - i) Node.null, (mx : Int)) := by
  intro fuel
  induction fuel with
  | zero => intro l i _ h; omega
  | succ fuel ih =>
    intro l i hi hf
    simp only [FuncsDom.mergeListsMeld_loop1, GoDom.append, listAppend]
    by_cases h : i < mx
    · have h' : ((i : Int) < (mx : Int)) := by omega
      simp only [h', decide_true, if_true]
      rw [natCast_succ', ih _ (i + 1) (by omega) (by omega), List.append_assoc]
      have : mx - i = (mx - (i + 1)) + 1 := by omega
      rw [this, List.replicate_succ]
      rfl
    · have h' : ¬ ((i : Int) < (mx : Int)) := by omega
      have e : i = mx := by omega
      subst e
      simp [h']

/-- what mergeListsMeld stores at a common index: the model's `mergeNode` -/
theorem meld_loop2_eq (o : ListStrategy) (f : List Node → List Node → Go.Res (List Node)) (l1 l2 : List Node)
    (hf : ListFnOk o f (Node.sizeList l2)) (h1 : (Node.list l1).WF) (h2 : (Node.list l2).WF)
    (mn : Nat) (hm1 : mn ≤ l1.length) (hm2 : mn ≤ l2.length) :
    ∀ (fuel : Nat) (l : List Node) (i : Nat), i ≤ mn → mn ≤ l.length → mn - i < fuel →
      ∃ r, FuncsDom.mergeListsMeld_loop2 f l1 l2 (mn : Int) fuel l (i : Int) = .ok (r, (mn : Int)) ∧
        r.length = l.length ∧
        ∀ j, r[j]? = if i ≤ j ∧ j < mn then (some (mergeNode o (l1.getD j Node.null) (l2.getD j Node.null))) else l[j]? := by
  intro fuel
  induction fuel with
  | zero => intro l i _ _ h; omega
  | succ fuel ih =>
    intro l i hi hl hfu
    simp only [FuncsDom.mergeListsMeld_loop2, GoDom.items]
    by_cases h : i < mn
    · have h' : ((i : Int) < (mn : Int)) := by omega
      have hi1 : i < l1.length := by omega
      have hi2 : i < l2.length := by omega
      have w1 : l1[i].WF := Node.WF.of_list_mem h1 (List.getElem_mem hi1)
      have w2 : l2[i].WF := Node.WF.of_list_mem h2 (List.getElem_mem hi2)
      have hsz := size_getElem_le l2 i hi2
      simp only [h', decide_true, if_true, Go.index_nat l1 i hi1, Go.index_nat l2 i hi2, Go.Res.ok_bind]
      -- the value stored at index i
      have key : ∀ (v : Node), v = mergeNode o l1[i] l2[i] →
          ∃ r, FuncsDom.mergeListsMeld_loop2 f l1 l2 (mn : Int) fuel (GoDom.set l (GoDom.uint (i : Int)) v) ((i : Int) + 1)
              = .ok (r, (mn : Int)) ∧ r.length = l.length ∧
            ∀ j, r[j]? = if i ≤ j ∧ j < mn then (some (mergeNode o (l1.getD j Node.null) (l2.getD j Node.null))) else l[j]? := by
        intro v hv
        rw [set_uint l i v (by omega), natCast_succ']
        obtain ⟨r, e, hlen, hget⟩ := ih (l.set i v) (i + 1) (by omega) (by simpa using hl) (by omega)
        refine ⟨r, e, by simpa using hlen, ?_⟩
        intro j
        rw [hget j]
        by_cases hj : i + 1 ≤ j ∧ j < mn
        · have : i ≤ j ∧ j < mn := ⟨by omega, hj.2⟩
          simp [hj, this]
        · by_cases hij : j = i
          · subst hij
            have : j < l.length := by omega
            simp [hv, h, hi1, hi2, List.getD, this]
          · have : ¬ (i ≤ j ∧ j < mn) := by omega
            simp only [hj, this, if_false]
            rw [List.getElem?_set_ne (by omega)]
      generalize hx : l1[i] = x at w1 key
      generalize hy : l2[i] = y at w2 key hsz
      cases x with
      | cont a =>
        cases y with
        | cont b =>
          have hb : Node.sizeKvs b ≤ Node.sizeList l2 := by simp only [Node.size] at hsz; omega
          simp only [GoDom.isContainer, Node.isCont, Bool.and_self, if_true, GoDom.asContainer, Go.Res.ok_bind,
            mergeContainers_generated_eq_model o f a b (listFnOk_mono hf hb) w1 w2]
          exact key _ (by rw [mergeNode_cont_cont])
        | list yb =>
          simp only [GoDom.isContainer, GoDom.isList, Node.isCont, Node.isList, Bool.and_false, Bool.false_and,
            Bool.false_eq_true, if_false, coalesce_generated_eq_model, Go.Res.ok_bind]
          exact key _ (by simp [mergeNode, coalesce])
        | leaf s =>
          simp only [GoDom.isContainer, GoDom.isList, Node.isCont, Node.isList, Bool.and_false, Bool.false_and,
            Bool.false_eq_true, if_false, coalesce_generated_eq_model, Go.Res.ok_bind]
          exact key _ (by simp [mergeNode, coalesce])
      | list xa =>
        cases y with
        | cont b =>
          simp only [GoDom.isContainer, GoDom.isList, Node.isCont, Node.isList, Bool.and_false, Bool.false_and,
            Bool.false_eq_true, if_false, coalesce_generated_eq_model, Go.Res.ok_bind]
          exact key _ (by simp [mergeNode, coalesce])
        | list yb =>
          have hb : Node.sizeList yb < Node.sizeList l2 := by simp only [Node.size] at hsz; omega
          simp only [GoDom.isContainer, GoDom.isList, Node.isCont, Node.isList, Bool.and_self, Bool.false_eq_true,
            if_false, if_true, GoDom.asList, Go.Res.ok_bind, hf xa yb w1 w2 hb]
          exact key _ (by rw [mergeNode_list_list])
        | leaf s =>
          simp only [GoDom.isContainer, GoDom.isList, Node.isCont, Node.isList, Bool.and_false, Bool.false_and,
            Bool.false_eq_true, if_false, coalesce_generated_eq_model, Go.Res.ok_bind]
          exact key _ (by simp [mergeNode, coalesce])
      | leaf t =>
        cases y with
        | cont b =>
          simp only [GoDom.isContainer, GoDom.isList, Node.isCont, Node.isList, Bool.and_false, Bool.false_and,
            Bool.false_eq_true, if_false, coalesce_generated_eq_model, Go.Res.ok_bind]
          exact key _ (by simp [mergeNode, coalesce])
        | list yb =>
          simp only [GoDom.isContainer, GoDom.isList, Node.isCont, Node.isList, Bool.and_false, Bool.false_and,
            Bool.false_eq_true, if_false, coalesce_generated_eq_model, Go.Res.ok_bind]
          exact key _ (by simp [mergeNode, coalesce])
        | leaf s =>
          simp only [GoDom.isContainer, GoDom.isList, Node.isCont, Node.isList, Bool.and_false, Bool.false_and,
            Bool.false_eq_true, if_false, coalesce_generated_eq_model, Go.Res.ok_bind]
          exact key _ (by simp [mergeNode, coalesce])
    · have h' : ¬ ((i : Int) < (mn : Int)) := by omega
      simp only [h', decide_false, Bool.false_eq_true, if_false]
      have e : i = mn := by omega
      refine ⟨l, by rw [e]; rfl, rfl, ?_⟩
      intro j
      have : ¬ (i ≤ j ∧ j < mn) := by omega
      simp [this]

theorem meld_loop3_eq (l1 l2 : List Node) (mx : Nat) :
    ∀ (fuel : Nat) (l : List Node) (i : Nat), i ≤ mx → mx ≤ l.length → mx - i < fuel →
      ∃ r, FuncsDom.mergeListsMeld_loop3 l1 l2 (mx : Int) fuel l (i : Int) = .ok (r, (mx : Int)) ∧
        r.length = l.length ∧
        ∀ j, r[j]? = if i ≤ j ∧ j < mx then some (firstValidListItem j [l1, l2]) else l[j]? := by
  intro fuel
  induction fuel with
  | zero => intro l i _ _ h; omega
  | succ fuel ih =>
    intro l i hi hl hfu
    simp only [FuncsDom.mergeListsMeld_loop3]
    by_cases h : i < mx
    · have h' : ((i : Int) < (mx : Int)) := by omega
      simp only [h', decide_true, if_true, firstValidListItem_generated_eq_model, Go.Res.ok_bind]
      rw [set_uint l i _ (by omega), natCast_succ']
      obtain ⟨r, e, hlen, hget⟩ := ih (l.set i (firstValidListItem i [l1, l2])) (i + 1) (by omega)
        (by simpa using hl) (by omega)
      refine ⟨r, e, by simpa using hlen, ?_⟩
      intro j
      rw [hget j]
      by_cases hj : i + 1 ≤ j ∧ j < mx
      · have : i ≤ j ∧ j < mx := ⟨by omega, hj.2⟩
        simp [hj, this]
      · by_cases hij : j = i
        · subst hij
          have : j < l.length := by omega
          simp [h, this]
        · have : ¬ (i ≤ j ∧ j < mx) := by omega
          simp only [hj, this, if_false]
          rw [List.getElem?_set_ne (by omega)]
    · have h' : ¬ ((i : Int) < (mx : Int)) := by omega
      simp only [h', decide_false, Bool.false_eq_true, if_false]
      have e : i = mx := by omega
      refine ⟨l, by rw [e]; rfl, rfl, ?_⟩
      intro j
      have : ¬ (i ≤ j ∧ j < mx) := by omega
      simp [this]

/-- merger.mergeListsMeld, as translated, is the model's `meldList` on well-formed lists, for every list
    strategy `f` (the field `mg.listMergeFn`) that meets its contract on the lists below `l2` -/
theorem mergeListsMeld_generated_eq_model (o : ListStrategy) (f : List Node → List Node → Go.Res (List Node))
    (l1 l2 : List Node) (hf : ListFnOk o f (Node.sizeList l2)) (h1 : (Node.list l1).WF) (h2 : (Node.list l2).WF) :
    FuncsDom.mergeListsMeld f l1 l2 = .ok (meldList o l1 l2) := by
  have emx : GoDom.intMax (GoDom.size l1) (GoDom.size l2) = ((max l1.length l2.length : Nat) : Int) := by
    simp only [GoDom.intMax, GoDom.size]; omega
  have emn : GoDom.intMin (GoDom.size l1) (GoDom.size l2) = ((min l1.length l2.length : Nat) : Int) := by
    simp only [GoDom.intMin, GoDom.size]; omega
  simp only [FuncsDom.mergeListsMeld, emx, emn, GoDom.newList]
  have e1 := meld_loop1_eq (max l1.length l2.length) (((GoDom.size l1) + (GoDom.size l2)) + 1).toNat [] 0
    (by omega) (by simp only [GoDom.size]; omega)
  simp only [Int.natCast_zero, List.nil_append, Nat.sub_zero] at e1
  rw [e1]
  obtain ⟨r2, e2, len2, get2⟩ := meld_loop2_eq o f l1 l2 hf h1 h2 (min l1.length l2.length) (by omega) (by omega)
    (((GoDom.size l1) + (GoDom.size l2)) + 1).toNat (List.replicate (max l1.length l2.length) Node.null) 0
    (by omega) (by simp; omega) (by simp only [GoDom.size]; omega)
  simp only [Int.natCast_zero] at e2
  simp only [Go.Res.ok_bind, e2]
  obtain ⟨r3, e3, len3, get3⟩ := meld_loop3_eq l1 l2 (max l1.length l2.length)
    (((GoDom.size l1) + (GoDom.size l2)) + 1).toNat r2 (min l1.length l2.length)
    (by omega) (by rw [len2]; simp) (by simp only [GoDom.size]; omega)
  simp only [e3, Go.Res.ok_bind]
  show Go.Res.ok r3 = _
  congr 1
  apply List.ext_getElem?
  intro j
  rw [get3 j, get2 j]
  by_cases hj1 : j < min l1.length l2.length
  · have a1 : j < l1.length := by omega
    have a2 : j < l2.length := by omega
    have : ¬ (min l1.length l2.length ≤ j ∧ j < max l1.length l2.length) := by omega
    simp only [this, if_false, Nat.zero_le, true_and, hj1, if_true]
    rw [getElem?_meldList]
    simp [List.getD, a1, a2, mergeEntry]
  · by_cases hj2 : j < max l1.length l2.length
    · have : min l1.length l2.length ≤ j ∧ j < max l1.length l2.length := ⟨by omega, hj2⟩
      simp only [this, and_self, if_true]
      rw [getElem?_meldList_tail o l1 l2 j this.1 this.2]
    · have n1 : ¬ (min l1.length l2.length ≤ j ∧ j < max l1.length l2.length) := by omega
      have n2 : ¬ (0 ≤ j ∧ j < min l1.length l2.length) := by omega
      simp only [n1, n2, if_false]
      have : (meldList o l1 l2).length ≤ j := by rw [length_meldList]; omega
      rw [List.getElem?_eq_none this]
      simp; omega

/-! ## tying the knot: the two list strategies the options can select -/

/-- `defaultListMerger`: `m.listMergeFn = m.mergeListsMeld` — the field refers back to the method of the
    same merger.  `meldKnot n` is that self-reference unrolled `n` times (`.fuel` beyond). -/
def meldKnot : Nat → List Node → List Node → Go.Res (List Node)
  | 0 => fun _ _ => .fuel
  | n + 1 => FuncsDom.mergeListsMeld (meldKnot n)

theorem meldKnot_eq : ∀ (n : Nat) (l1 l2 : List Node), (Node.list l1).WF → (Node.list l2).WF →
    Node.sizeList l2 < n → meldKnot n l1 l2 = .ok (meldList .meld l1 l2) := by
  intro n
  induction n with
  | zero => intro l1 l2 _ _ h; omega
  | succ n ih =>
    intro l1 l2 h1 h2 hs
    show FuncsDom.mergeListsMeld (meldKnot n) l1 l2 = _
    exact mergeListsMeld_generated_eq_model .meld (meldKnot n) l1 l2
      (fun a b ha hb hlt => by rw [ih a b ha hb (by omega)]; rfl) h1 h2

theorem listFnOk_meld (M : Nat) : ListFnOk .meld (meldKnot M) M :=
  fun a b ha hb hs => by rw [meldKnot_eq M a b ha hb hs]; rfl

theorem listFnOk_append (M : Nat) : ListFnOk .append FuncsDom.mergeListsAppend M :=
  fun a b _ _ _ => by rw [mergeListsAppend_generated_eq_model]; rfl

end Ytk.FuncsDomMerge
