/- Lens-style lemmas on child / add / walkIdx / setSlot used by the Apply proofs (C08). -/
import YtkModel.Diff
import YtkProofs.Dom
import YtkProofs.Lens

namespace Ytk

theorem child_eq_of_parse {c b : String} {is : List Nat} (kvs : AMap Node) (h : parseSeg c = (b, is)) :
    child kvs c = if is = [] then AMap.get? kvs c else walkIdx (AMap.get? kvs b) is := by
  simp only [child, h]
  cases is <;> simp

theorem add_eq_of_parse {c b : String} {is : List Nat} (kvs : AMap Node) (v : Node) (h : parseSeg c = (b, is)) :
    add kvs c v = if is = [] then AMap.insert kvs c v else AMap.insert kvs b (setSlot (AMap.get? kvs b) is v) := by
  simp only [add, h]
  cases is <;> simp

theorem walkIdx_none_of_ne : ∀ (is : List Nat), is ≠ [] → walkIdx none is = none
  | [], h => absurd rfl h
  | _ :: _, _ => rfl

theorem length_padTo (xs : List Node) (n : Nat) : (padTo xs n).length = max xs.length n := by
  simp only [padTo, List.length_append, List.length_replicate]; omega

theorem padTo_of_le {xs : List Node} {n : Nat} (h : n ≤ xs.length) : padTo xs n = xs := by
  simp [padTo, Nat.sub_eq_zero_of_le h]

/-- reading back what `setSlot` wrote -/
theorem walkIdx_setSlot : ∀ (is : List Nat) (cur : Option Node) (v : Node),
    walkIdx (some (setSlot cur is v)) is = some v
  | [], _, _ => rfl
  | i :: is, cur, v => by
    simp only [setSlot, walkIdx]
    have key : ∀ (L : List Node) (w : Node), i < L.length → (L.set i w)[i]? = some w :=
      fun L w h => List.getElem?_set_self h
    rw [key _ _ (by rw [length_padTo]; omega)]
    exact walkIdx_setSlot is _ v

/- `child_add_self` (Child(name) after AddValue(name, v)) is YtkProofs/Lens.lean's -/

/-- writing back what is already there changes nothing -/
theorem setSlot_walkIdx_self : ∀ (is : List Nat) (x n : Node), walkIdx (some x) is = some n →
    setSlot (some x) is n = x
  | [], x, n, h => by simp only [walkIdx] at h; cases h; rfl
  | i :: is, .leaf _, n, h => by simp [walkIdx] at h
  | i :: is, .cont _, n, h => by simp [walkIdx] at h
  | i :: is, .list xs, n, h => by
    simp only [walkIdx] at h
    cases hy : xs[i]? with
    | none =>
      rw [hy] at h
      cases is with
      | nil => simp [walkIdx] at h
      | cons j js => simp [walkIdx] at h
    | some y =>
      rw [hy] at h
      have hi : i < xs.length := by
        rcases Nat.lt_or_ge i xs.length with hlt | hge
        · exact hlt
        · rw [List.getElem?_eq_none hge] at hy; cases hy
      simp only [setSlot]
      rw [padTo_of_le (Nat.succ_le_of_lt hi), hy, setSlot_walkIdx_self is y n h]
      congr 1
      rw [List.getElem?_eq_getElem hi] at hy
      cases hy
      exact List.set_getElem_self hi

theorem AMap.insert_get?_self {α : Type} {m : AMap α} (hs : AMap.Sorted m) {k : String} {a : α}
    (h : AMap.get? m k = some a) : AMap.insert m k a = m := by
  apply AMap.ext_of_sorted (AMap.sorted_insert hs k a) hs
  intro x
  by_cases hx : x = k
  · subst hx; rw [AMap.get?_insert_self, h]
  · rw [AMap.get?_insert_ne _ _ hx]

/-- `AddValue(name, Child(name))` changes nothing -/
theorem add_child_self {kvs : AMap Node} (hs : AMap.Sorted kvs) {c : String} {n : Node}
    (h : child kvs c = some n) : add kvs c n = kvs := by
  rcases hp : parseSeg c with ⟨b, is⟩
  rw [child_eq_of_parse _ hp] at h
  rw [add_eq_of_parse _ _ hp]
  by_cases he : is = []
  · simp only [he, if_true] at h ⊢
    exact AMap.insert_get?_self hs h
  · simp only [he, if_false] at h ⊢
    cases hb : AMap.get? kvs b with
    | none => rw [hb, walkIdx_none_of_ne is he] at h; cases h
    | some x =>
      rw [hb] at h
      rw [setSlot_walkIdx_self is x n h]
      exact AMap.insert_get?_self hs hb

/-! (walkIdx_valid / child_valid live in YtkProofs/Dom.lean) -/

/-- in a valid container a name that `Child` does not resolve is not a literal key either -/
theorem get?_none_of_child_none {kvs : AMap Node} (hv : (Node.cont kvs).Valid) {c : String}
    (h : child kvs c = none) : AMap.get? kvs c = none := by
  by_cases hs : hasIdxSuffix c = false
  · rwa [child_of_noSuffix kvs hs] at h
  · cases hg : AMap.get? kvs c with
    | none => rfl
    | some x =>
      exfalso
      obtain ⟨_, hk⟩ := hv
      cases hk with
      | cont hk1 _ => exact hs (hk1 _ (AMap.mem_of_get? hg))

end Ytk
