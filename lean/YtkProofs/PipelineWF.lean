/-
  Deep well-formedness (`Node.WF`: every container at every depth has strictly sorted, hence unique,
  keys) is an invariant of the pipeline interpreter `Ytk.Pipeline.run` (C14 `run_wf`).

  Part 1: `Node.WF` is preserved by the DOM primitives (`add`, `child`, `addValueAt`, `removeAt`,
          `lookup`) — the `WF`-only counterparts of the `Valid` lemmas of YtkProofs/Dom.lean.
  Part 2: … by the pipeline's dom merge, SetOp, TemplateOp, ExtOp, argument rendering, item sources.
  Part 3: literal well-formedness of programs (`Op.LitWF` …: the `Data` of every SetOp and the `Args`
          of every CallOp are Go maps, i.e. `WF`), preserved by CloneWith; `run_wf_inv`.
-/
import YtkProofs.Pipeline
import YtkProofs.Merge

namespace Ytk

/-! ## Part 1: the DOM primitives -/

theorem Node.WF.values {kvs : List (String × Node)} (h : Node.WF (.cont kvs)) : ∀ p ∈ kvs, p.2.WF := by
  cases h; assumption

theorem wf_nil : Node.WF (.cont []) := .cont .nil (by intro p hp; cases hp)

theorem wf_null : Node.null.WF := .leaf _

theorem wf_insert {kvs : AMap Node} {k : String} {v : Node} (h : Node.WF (.cont kvs)) (hv : v.WF) :
    Node.WF (.cont (AMap.insert kvs k v)) := by
  refine .cont (AMap.sorted_insert h.sorted _ _) ?_
  intro p hp
  rcases AMap.mem_insert hp with rfl | hp
  · exact hv
  · exact h.values p hp

theorem AMap.mem_erase {α : Type} {m : AMap α} {x : String} {p : String × α} (h : p ∈ AMap.erase m x) : p ∈ m := by
  induction m with
  | nil => simp [AMap.erase] at h
  | cons q m ih =>
    obtain ⟨k', v'⟩ := q
    simp only [AMap.erase] at h
    split at h
    · exact List.mem_cons_of_mem _ h
    · simp only [List.mem_cons] at h ⊢
      rcases h with h | h
      · exact Or.inl h
      · exact Or.inr (ih h)

theorem wf_erase {kvs : AMap Node} (k : String) (h : Node.WF (.cont kvs)) : Node.WF (.cont (AMap.erase kvs k)) :=
  .cont (AMap.sorted_erase h.sorted _) (fun p hp => h.values p (AMap.mem_erase hp))

theorem wf_remove {kvs : AMap Node} (k : String) (h : Node.WF (.cont kvs)) : Node.WF (.cont (remove kvs k)) :=
  wf_erase k h

theorem wf_padTo {xs : List Node} {n : Nat} (h : ∀ x ∈ xs, x.WF) : ∀ x ∈ padTo xs n, x.WF := by
  intro x hx
  rcases mem_padTo hx with hx | rfl
  · exact h x hx
  · exact wf_null

theorem wf_set {xs : List Node} {i : Nat} {v : Node} (h : ∀ x ∈ xs, x.WF) (hv : v.WF) :
    ∀ x ∈ xs.set i v, x.WF := by
  intro x hx
  rcases List.mem_or_eq_of_mem_set hx with hx | rfl
  · exact h x hx
  · exact hv

theorem wf_setSlot : ∀ (is : List Nat) (cur : Option Node) (v : Node), (∀ n, cur = some n → n.WF) → v.WF →
    (setSlot cur is v).WF
  | [], _, v, _, hv => by simpa [setSlot] using hv
  | i :: is, cur, v, hc, hv => by
    simp only [setSlot]
    have hxs : ∀ x ∈ (match cur with | some (.list xs) => xs | _ => []), x.WF := by
      intro x hx
      split at hx
      · exact (hc _ rfl).of_list_mem hx
      · cases hx
    refine .list ?_
    apply wf_set (wf_padTo hxs)
    apply wf_setSlot is _ v _ hv
    intro n hn
    exact wf_padTo hxs n (List.mem_of_getElem? hn)

/-- `add` preserves deep well-formedness, for every name (with or without index groups) -/
theorem wf_add {kvs : AMap Node} (name : String) {v : Node} (h : Node.WF (.cont kvs)) (hv : v.WF) :
    Node.WF (.cont (add kvs name v)) := by
  unfold add
  cases hp : parseSeg name with
  | mk b is =>
    cases is with
    | nil => exact wf_insert h hv
    | cons i is =>
      simp only
      apply wf_insert h
      apply wf_setSlot _ _ _ _ hv
      intro n hn
      exact h.of_cont_get hn

theorem wf_walkIdx : ∀ (is : List Nat) (cur : Option Node) (n : Node), (∀ m, cur = some m → m.WF) →
    walkIdx cur is = some n → n.WF
  | [], cur, n, hc, h => by
    cases cur with
    | none => simp [walkIdx] at h
    | some m => simp [walkIdx] at h; subst h; exact hc m rfl
  | i :: is, cur, n, hc, h => by
    cases cur with
    | none => simp [walkIdx] at h
    | some m =>
      cases m with
      | leaf _ => simp [walkIdx] at h
      | cont _ => simp [walkIdx] at h
      | list xs =>
        simp only [walkIdx] at h
        apply wf_walkIdx is _ n _ h
        intro m hm
        exact (hc _ rfl).of_list_mem (List.mem_of_getElem? hm)

theorem wf_child {kvs : AMap Node} (h : Node.WF (.cont kvs)) {name : String} {n : Node}
    (hc : child kvs name = some n) : n.WF := by
  unfold child at hc
  cases hp : parseSeg name with
  | mk b is =>
    rw [hp] at hc
    cases is with
    | nil => exact h.of_cont_get hc
    | cons i is =>
      simp only at hc
      exact wf_walkIdx _ _ n (fun m hm => h.of_cont_get hm) hc

theorem wf_addAtSegs : ∀ (segs : List String) (kvs : AMap Node) (v : Node), Node.WF (.cont kvs) → v.WF →
    Node.WF (.cont (addAtSegs kvs segs v))
  | [], _, _, h, _ => h
  | [last], kvs, v, h, hv => wf_add last h hv
  | p :: q :: rest, kvs, v, h, hv => by
    simp only [addAtSegs]
    apply wf_add p h
    apply wf_addAtSegs (q :: rest) _ v _ hv
    split
    · rename_i c hc; exact wf_child h hc
    · exact wf_nil

theorem wf_addValueAt {kvs : AMap Node} (path : String) {v : Node} (h : Node.WF (.cont kvs)) (hv : v.WF) :
    Node.WF (.cont (addValueAt kvs path v)) := wf_addAtSegs _ _ _ h hv

theorem wf_removeAtSegs : ∀ (segs : List String) (kvs : AMap Node), Node.WF (.cont kvs) →
    Node.WF (.cont (removeAtSegs kvs segs))
  | [], _, h => h
  | [last], _, h => wf_remove last h
  | p :: q :: rest, kvs, h => by
    simp only [removeAtSegs]
    split
    · rename_i c hc
      exact wf_add p h (wf_removeAtSegs (q :: rest) c (wf_child h hc))
    · exact h

theorem wf_removeAt {kvs : AMap Node} (path : String) (h : Node.WF (.cont kvs)) :
    Node.WF (.cont (removeAt kvs path)) := wf_removeAtSegs _ _ h

theorem wf_lookupSegs : ∀ (segs : List String) (kvs : AMap Node) (n : Node), Node.WF (.cont kvs) →
    lookupSegs kvs segs = some n → n.WF
  | [], _, _, _, hl => by simp [lookupSegs] at hl
  | [last], _, _, h, hl => wf_child h hl
  | p :: q :: rest, kvs, n, h, hl => by
    simp only [lookupSegs] at hl
    split at hl
    · rename_i c hc
      exact wf_lookupSegs (q :: rest) c n (wf_child h hc) hl
    · cases hl

theorem wf_lookup {kvs : AMap Node} (h : Node.WF (.cont kvs)) {path : String} {n : Node}
    (hl : lookup kvs path = some n) : n.WF := by
  unfold lookup at hl
  split at hl
  · cases hl
  · exact wf_lookupSegs _ _ _ h hl

theorem foldl_inv {α β : Type} (P : β → Prop) (f : β → α → β) :
    ∀ (l : List α), (∀ b, ∀ x ∈ l, P b → P (f b x)) → ∀ b, P b → P (l.foldl f b)
  | [], _, _, hb => hb
  | x :: xs, hf, b, hb =>
    foldl_inv P f xs (fun b y hy => hf b y (List.mem_cons_of_mem _ hy)) (f b x) (hf b x (List.mem_cons_self ..) hb)

end Ytk

namespace Ytk.Pipeline

/-! ## Part 2: the pipeline's own data operations -/

theorem coalesce_cases (n v : Node) : coalesce n v = v ∨ coalesce n v = n ∨ coalesce n v = Node.null := by
  unfold coalesce
  split
  · exact Or.inl rfl
  · split
    · exact Or.inr (Or.inl rfl)
    · exact Or.inr (Or.inr rfl)

theorem wf_coalesce {n v : Node} (hn : n.WF) (hv : v.WF) : (coalesce n v).WF := by
  rcases coalesce_cases n v with h | h | h <;> rw [h]
  · exact hv
  · exact hn
  · exact wf_null

theorem sorted_mergeKvs (c1 : AMap Node) (hs : AMap.Sorted c1) : ∀ (c2 : List (String × Node)),
    AMap.Sorted (mergeKvs c1 c2)
  | [] => hs
  | (k, v) :: rest => by
    simp only [mergeKvs]
    split <;> exact AMap.sorted_insert (sorted_mergeKvs c1 hs rest) _ _

mutual
theorem wf_mergeInto : ∀ (n v : Node), n.WF → v.WF → (mergeInto n v).WF
  | n, .leaf s, hn, hv => by simp only [mergeInto]; exact wf_coalesce hn hv
  | n, .list l2, hn, hv => by
    cases n with
    | list l1 =>
      simp only [mergeInto]
      exact .list (wf_meld l1 l2 (fun x hx => hn.of_list_mem hx) (fun x hx => hv.of_list_mem hx))
    | leaf s => simp only [mergeInto]; exact wf_coalesce hn hv
    | cont c => simp only [mergeInto]; exact wf_coalesce hn hv
  | n, .cont c2, hn, hv => by
    cases n with
    | cont c1 =>
      simp only [mergeInto]
      exact .cont (sorted_mergeKvs c1 hn.sorted c2) (wf_mergeKvs_values c1 c2 hn.values hv.values)
    | leaf s => simp only [mergeInto]; exact wf_coalesce hn hv
    | list l => simp only [mergeInto]; exact wf_coalesce hn hv
theorem wf_mergeKvs_values : ∀ (c1 : AMap Node) (c2 : List (String × Node)),
    (∀ p ∈ c1, p.2.WF) → (∀ p ∈ c2, p.2.WF) → ∀ p ∈ mergeKvs c1 c2, p.2.WF
  | c1, [], h1, _ => by simpa [mergeKvs] using h1
  | c1, (k, v) :: rest, h1, h2 => by
    have hv : v.WF := h2 (k, v) (List.mem_cons_self ..)
    have hrest := wf_mergeKvs_values c1 rest h1 (fun q hq => h2 q (List.mem_cons_of_mem _ hq))
    intro p hp
    simp only [mergeKvs] at hp
    split at hp
    · rename_i n hg
      rcases AMap.mem_insert hp with rfl | hp
      · exact wf_mergeInto n v (h1 (k, n) (AMap.mem_of_get? hg)) hv
      · exact hrest p hp
    · rcases AMap.mem_insert hp with rfl | hp
      · exact hv
      · exact hrest p hp
theorem wf_meld : ∀ (l1 l2 : List Node), (∀ x ∈ l1, x.WF) → (∀ y ∈ l2, y.WF) → ∀ z ∈ meld l1 l2, z.WF
  | l1, [], h1, _ => by simpa [meld] using h1
  | [], y :: ys, _, h2 => by simpa [meld] using h2
  | x :: xs, y :: ys, h1, h2 => by
    intro z hz
    simp only [meld, List.mem_cons] at hz
    rcases hz with rfl | hz
    · exact wf_mergeInto x y (h1 x (List.mem_cons_self ..)) (h2 y (List.mem_cons_self ..))
    · exact wf_meld xs ys (fun a ha => h1 a (List.mem_cons_of_mem _ ha))
        (fun a ha => h2 a (List.mem_cons_of_mem _ ha)) z hz
end

/-- dom merge of two well-formed containers is well formed (the right one need not even be sorted) -/
theorem wf_mergeKvs {c1 c2 : AMap Node} (h1 : Node.WF (.cont c1)) (h2 : ∀ p ∈ c2, p.2.WF) :
    Node.WF (.cont (mergeKvs c1 c2)) :=
  .cont (sorted_mergeKvs c1 h1.sorted c2) (wf_mergeKvs_values c1 c2 h1.values h2)

theorem wf_contOf {n : Node} (h : n.WF) : Node.WF (.cont (contOf n)) := by
  cases n with
  | cont c => exact h
  | leaf _ => exact wf_nil
  | list _ => exact wf_nil

/-- SetOp.Do keeps the data well formed when its payload is (a Go map always is) -/
theorem wf_setOp {d d' : AMap Node} (h : Node.WF (.cont d)) {data : Option Node} {p : String} {s : Option String}
    (hdata : ∀ n, data = some n → n.WF) (hs : setOp data p s d = .ok d') : Node.WF (.cont d') := by
  unfold setOp at hs
  split at hs
  · cases hs
  · rename_i dn
    have ho : Node.WF (.cont (contOf dn)) := wf_contOf (hdata dn rfl)
    simp only at hs
    split at hs
    · split at hs
      · split at hs
        · rename_i dest hl
          cases hs
          exact wf_addValueAt _ h (wf_mergeKvs (wf_lookup h hl) ho.values)
        · cases hs; exact wf_addValueAt _ h ho
      · cases hs
        apply foldl_inv (fun acc => Node.WF (.cont acc)) _ _ _ _ h
        intro acc x hx hacc
        have hx2 : x.2.WF := ho.values x hx
        split
        · rename_i oc vc hc hv
          rw [hv] at hx2
          exact wf_add _ hacc (wf_mergeKvs (wf_child hacc hc) hx2.values)
        · exact wf_add _ hacc hx2
    · split at hs
      · split at hs
        · cases hs; exact wf_addValueAt _ h ho
        · cases hs
          apply foldl_inv (fun acc => Node.WF (.cont acc)) _ _ _ _ h
          intro acc x hx hacc
          exact wf_addValueAt _ hacc (ho.values x hx)
      · cases hs

theorem wf_templateOp {d : AMap Node} (h : Node.WF (.cont d)) (t p : String) (tr : Bool) (pa : Option String) :
    Node.WF (.cont (templateOp t p tr pa d).1) := by
  unfold templateOp
  split
  · exact h
  · split
    · exact h
    · simp only
      split
      · exact h
      · split
        · exact wf_addValueAt _ h (.leaf _)
        · exact h

theorem wf_extOp (fn id : String) (n : Nat) {st : St} (h : Node.WF (.cont st.data)) :
    Node.WF (.cont (extOp fn id n st).st.data) := by
  unfold extOp
  simp only
  split
  · exact h
  · split
    · exact h
    · split
      · exact wf_add _ (wf_add _ (wf_add _ h (.leaf _)) (.leaf _)) (.leaf _)
      · exact h

theorem extOp_defs (fn id : String) (n : Nat) (st : St) : (extOp fn id n st).st.defs = st.defs := by
  unfold extOp
  simp only
  split
  · rfl
  · split
    · rfl
    · split <;> rfl

/-! RenderMapLenient keeps keys and order -/

theorem mem_renderArgsKvs (d : AMap Node) : ∀ (c : List (String × Node)) (p : String × Node),
    p ∈ renderArgsKvs d c → ∃ v, (p.1, v) ∈ c
  | [], p, hp => by simp [renderArgsKvs] at hp
  | (k, v) :: r, p, hp => by
    simp only [renderArgsKvs, List.mem_cons] at hp
    rcases hp with rfl | hp
    · exact ⟨v, List.mem_cons_self ..⟩
    · obtain ⟨w, hw⟩ := mem_renderArgsKvs d r p hp
      exact ⟨w, List.mem_cons_of_mem _ hw⟩

theorem sorted_renderArgsKvs (d : AMap Node) : ∀ (c : List (String × Node)), AMap.Sorted c →
    AMap.Sorted (renderArgsKvs d c)
  | [], _ => .nil
  | (k, v) :: r, h => by
    simp only [renderArgsKvs]
    refine .cons ?_ (sorted_renderArgsKvs d r h.tail)
    intro p hp
    obtain ⟨w, hw⟩ := mem_renderArgsKvs d r p hp
    exact h.head_lt (p.1, w) hw

mutual
theorem wf_renderArgNode (d : AMap Node) : ∀ (n : Node), n.WF → (renderArgNode d n).WF
  | .leaf s, _ => by simp only [renderArgNode]; split <;> exact .leaf _
  | .list xs, h => by simpa [renderArgNode] using h
  | .cont c, h => by
    simp only [renderArgNode]
    exact .cont (sorted_renderArgsKvs d c h.sorted) (wf_renderArgsKvs d c h.values)
theorem wf_renderArgsKvs (d : AMap Node) : ∀ (c : List (String × Node)), (∀ p ∈ c, p.2.WF) →
    ∀ p ∈ renderArgsKvs d c, p.2.WF
  | [], _ => by simp [renderArgsKvs]
  | (k, v) :: r, h => by
    intro p hp
    simp only [renderArgsKvs, List.mem_cons] at hp
    rcases hp with rfl | hp
    · exact wf_renderArgNode d v (h (k, v) (List.mem_cons_self ..))
    · exact wf_renderArgsKvs d r (fun q hq => h q (List.mem_cons_of_mem _ hq)) p hp
end

theorem wf_renderArgs (d : AMap Node) {args : Node} (h : args.WF) : (renderArgs d args).WF := by
  have hc := wf_contOf h
  exact .cont (sorted_renderArgsKvs d _ hc.sorted) (wf_renderArgsKvs d _ hc.values)

/-! item sources -/

/-- an iteration item taken from the data is well formed -/
def ItemE.WFI : ItemE → Prop
  | .node n => n.WF
  | .vor _ => True

theorem wf_resolve (d : AMap Node) {it : ItemE} (h : it.WFI) : (it.resolve d).WF := by
  cases it with
  | node n => exact h
  | vor v => exact .leaf _

theorem wf_itemsOf (q : Option VoR) (its : Option (List VoR)) {d : AMap Node} (h : Node.WF (.cont d)) :
    ∀ it ∈ itemsOf q its d, it.WFI := by
  intro it hit
  unfold itemsOf at hit
  split at hit
  · split at hit
    · cases hit
    · rename_i xs hl
      obtain ⟨x, hx, rfl⟩ := List.mem_map.mp hit
      exact (wf_lookup h hl).of_list_mem hx
    · obtain ⟨x, _, rfl⟩ := List.mem_map.mp hit
      exact Node.WF.leaf _
    · simp only [List.mem_singleton] at hit
      subst hit
      exact Node.WF.leaf _
  · split at hit
    · obtain ⟨x, _, rfl⟩ := List.mem_map.mp hit
      trivial
    · cases hit

/-! ## Part 3: programs whose literals are well formed; the invariant -/

mutual
/-- every document literal of the operation — the `Data` of a SetOp, the `Args` of a CallOp, at any
    depth of sub-actions — is well formed (both are Go maps: unique keys at every level) -/
def Op.LitWF : Op → Prop
  | .set data _ _ => ∀ n, data = some n → n.WF
  | .template _ _ _ _ => True
  | .log _ => True
  | .abort _ => True
  | .ext _ _ _ => True
  | .forEach _ _ _ b => b.LitWF
  | .loop i _ b p => optLitWF i ∧ b.LitWF ∧ optLitWF p
  | .call _ _ args => args.WF
  | .define _ b => b.LitWF
def Action.LitWF : Action → Prop
  | .mk _ _ _ ops cs => opsLitWF ops ∧ actsLitWF cs
def optLitWF : Option Action → Prop
  | none => True
  | some a => a.LitWF
def opsLitWF : List Op → Prop
  | [] => True
  | o :: os => o.LitWF ∧ opsLitWF os
def actsLitWF : List Action → Prop
  | [] => True
  | a :: as => a.LitWF ∧ actsLitWF as
end

theorem opsLitWF_iff : ∀ (os : List Op), opsLitWF os ↔ ∀ o ∈ os, o.LitWF
  | [] => by simp [opsLitWF]
  | o :: os => by simp [opsLitWF, opsLitWF_iff os]

theorem actsLitWF_iff : ∀ (as : List Action), actsLitWF as ↔ ∀ a ∈ as, a.LitWF
  | [] => by simp [actsLitWF]
  | a :: as => by simp [actsLitWF, actsLitWF_iff as]

theorem Action.LitWF.ops {a : Action} (h : a.LitWF) : ∀ o ∈ a.ops, o.LitWF := by
  cases a with
  | mk n o w ops cs => exact (opsLitWF_iff ops).mp h.1

theorem Action.LitWF.children {a : Action} (h : a.LitWF) : ∀ c ∈ a.children, c.LitWF := by
  cases a with
  | mk n o w ops cs => exact (actsLitWF_iff cs).mp h.2

theorem mem_opsIn {order : List (String × String × String)} {ops : List Op} {o : Op} (h : o ∈ opsIn order ops) :
    o ∈ ops := by
  simp only [opsIn, List.mem_filterMap] at h
  obtain ⟨e, _, he⟩ := h
  exact List.mem_of_find?_eq_some he

theorem Action.LitWF.opsOf {a : Action} (h : a.LitWF) : ∀ o ∈ opsOf a, o.LitWF :=
  fun o ho => h.ops o (mem_opsIn ho)

theorem Action.LitWF.sorted {a : Action} (h : a.LitWF) : ∀ c ∈ sortActs a.children, c.LitWF :=
  fun c hc => h.children c ((sortActs_perm _).subset hc)

/-! CloneWith renders strings only: the literals stay what they are -/
mutual
theorem litWF_cloneOp (d : AMap Node) : ∀ (o : Op), o.LitWF → (cloneOp d o).LitWF
  | .set _ _ _, h => by simpa [cloneOp, Op.LitWF] using h
  | .template _ _ _ _, _ => by simp [cloneOp, Op.LitWF]
  | .log _, _ => by simp [cloneOp, Op.LitWF]
  | .abort _, _ => by simp [cloneOp, Op.LitWF]
  | .ext _ _ _, _ => by simp [cloneOp, Op.LitWF]
  | .forEach _ _ _ b, h => by
    simp only [cloneOp, Op.LitWF] at h ⊢
    exact litWF_cloneAct d b h
  | .loop i _ b p, h => by
    simp only [cloneOp, Op.LitWF] at h ⊢
    exact ⟨litWF_cloneOptAct d i h.1, litWF_cloneAct d b h.2.1, litWF_cloneOptAct d p h.2.2⟩
  | .call _ _ _, h => by simpa [cloneOp, Op.LitWF] using h
  | .define _ b, h => by
    simp only [cloneOp, Op.LitWF] at h ⊢
    exact litWF_cloneAct d b h
theorem litWF_cloneAct (d : AMap Node) : ∀ (a : Action), a.LitWF → (cloneAct d a).LitWF
  | .mk _ _ _ ops cs, h => by
    simp only [cloneAct, Action.LitWF] at h ⊢
    exact ⟨litWF_cloneOps d ops h.1, litWF_cloneActs d cs h.2⟩
theorem litWF_cloneOptAct (d : AMap Node) : ∀ (a : Option Action), optLitWF a → optLitWF (cloneOptAct d a)
  | none, _ => by simp [cloneOptAct, optLitWF]
  | some a, h => by
    simp only [cloneOptAct, optLitWF] at h ⊢
    exact litWF_cloneAct d a h
theorem litWF_cloneOps (d : AMap Node) : ∀ (os : List Op), opsLitWF os → opsLitWF (cloneOps d os)
  | [], _ => by simp [cloneOps, opsLitWF]
  | o :: os, h => by
    simp only [cloneOps, opsLitWF] at h ⊢
    exact ⟨litWF_cloneOp d o h.1, litWF_cloneOps d os h.2⟩
theorem litWF_cloneActs (d : AMap Node) : ∀ (as : List Action), actsLitWF as → actsLitWF (cloneActs d as)
  | [], _ => by simp [cloneActs, actsLitWF]
  | a :: as, h => by
    simp only [cloneActs, actsLitWF] at h ⊢
    exact ⟨litWF_cloneAct d a h.1, litWF_cloneActs d as h.2⟩
end

/-- the literals of a task -/
def Task.LitWF : Task → Prop
  | .act a => a.LitWF
  | .doAct a => a.LitWF
  | .ops os => ∀ o ∈ os, o.LitWF
  | .steps as => ∀ a ∈ as, a.LitWF
  | .op o => o.LitWF
  | .cloneOps os => ∀ o ∈ os, o.LitWF
  | .items _ b its => b.LitWF ∧ ∀ it ∈ its, it.WFI
  | .item _ b it => b.LitWF ∧ it.WF
  | .loopIter _ b p => b.LitWF ∧ optLitWF p

/-- the state invariant: the data is deeply well formed and every registered callable has well-formed
    literals -/
def StWF (st : St) : Prop := Node.WF (.cont st.data) ∧ ∀ p ∈ st.defs, p.2.LitWF

theorem StWF.setData {st : St} (h : StWF st) {d : AMap Node} (hd : Node.WF (.cont d)) : StWF (st.setData d) :=
  ⟨hd, h.2⟩

theorem stWF_andThen {r : Res} {k : St → Res} (hr : StWF r.st) (hk : ∀ st, StWF st → StWF (k st).st) :
    StWF (r.andThen k).st := by
  unfold Res.andThen
  split
  · exact hr
  · exact hk _ hr

theorem stWF_guardWhen {w : Option String} {st : St} {k : St → Res} (hs : StWF st)
    (hk : ∀ st, StWF st → StWF (k st).st) : StWF (guardWhen w st k).st := by
  unfold guardWhen
  split
  · exact hk st hs
  · split
    · exact hs
    · exact hs
    · exact hk st hs

/-- `run` preserves the invariant, for every task with well-formed literals and every fuel -/
theorem run_wf_inv : ∀ (n : Nat) (t : Task) (st : St), t.LitWF → StWF st → StWF (run n t st).st := by
  intro n
  induction n with
  | zero => intro t st _ hs; exact hs
  | succ n ih =>
    intro t st ht hs
    cases t with
    | act a => exact ih (.doAct a) _ ht hs
    | doAct a =>
      simp only [run]
      have ht' : a.LitWF := ht
      exact stWF_guardWhen hs fun st hs =>
        stWF_andThen (r := wrap "ops" _) (ih (.ops _) _ ht'.opsOf hs) fun st hs =>
          stWF_guardWhen hs fun st hs => ih (.steps _) _ ht'.sorted hs
    | ops os =>
      cases os with
      | nil => exact hs
      | cons o os =>
        exact stWF_andThen (ih (.op o) _ (ht o (List.mem_cons_self ..)) hs) fun st hs =>
          ih (.ops os) _ (fun o' ho' => ht o' (List.mem_cons_of_mem _ ho')) hs
    | steps as =>
      cases as with
      | nil => exact hs
      | cons a as =>
        exact stWF_andThen (ih (.act a) _ (ht a (List.mem_cons_self ..)) hs) fun st hs =>
          ih (.steps as) _ (fun a' ha' => ht a' (List.mem_cons_of_mem _ ha')) hs
    | cloneOps os =>
      cases os with
      | nil => exact hs
      | cons o os =>
        exact stWF_andThen (ih (.op _) _ (litWF_cloneOp _ o (ht o (List.mem_cons_self ..))) hs) fun st hs =>
          ih (.cloneOps os) _ (fun o' ho' => ht o' (List.mem_cons_of_mem _ ho')) hs
    | items v b its =>
      cases its with
      | nil => exact hs
      | cons it its =>
        have ht' : b.LitWF ∧ ∀ x ∈ it :: its, x.WFI := ht
        exact stWF_andThen (ih (.item v b _) _ ⟨ht'.1, wf_resolve _ (ht'.2 it (List.mem_cons_self ..))⟩ hs)
          fun st hs => ih (.items v b its) _ ⟨ht'.1, fun x hx => ht'.2 x (List.mem_cons_of_mem _ hx)⟩ hs
    | item v b it =>
      have ht' : b.LitWF ∧ it.WF := ht
      simp only [run, Res.mapSt]
      have hmid : StWF (((run n (.cloneOps (opsOf b)) (st.setData (add st.data v it))).andThen fun st =>
          wrap "steps" (run n (.steps (sortActs b.children)) st)).st) :=
        stWF_andThen (ih (.cloneOps _) _ ht'.1.opsOf (hs.setData (wf_add _ hs.1 ht'.2))) fun st hs =>
          ih (.steps _) _ ht'.1.sorted hs
      exact hmid.setData (wf_remove _ hmid.1)
    | loopIter t b p =>
      have ht' : b.LitWF ∧ optLitWF p := ht
      simp only [run]
      split
      · exact hs
      · exact hs
      · show StWF (Res.andThen _ _).st
        refine stWF_andThen (ih (.doAct b) _ ht'.1 hs) fun st hs => stWF_andThen ?_ fun st hs => ih (.loopIter t b p) _ ht hs
        cases p with
        | none => exact hs
        | some pa => exact ih (.act pa) _ ht'.2 hs
    | op o =>
      simp only [run]
      show StWF (_ : Res).st
      cases o with
      | set d p s =>
        have ht' : ∀ n, d = some n → n.WF := ht
        simp only [wrap]
        split
        · rename_i d' hd; exact hs.setData (wf_setOp hs.1 ht' hd)
        · exact hs
      | template t p tr pa => exact hs.setData (wf_templateOp hs.1 _ _ _ _)
      | log m => exact hs
      | abort m => exact hs
      | ext fn id k =>
        refine ⟨wf_extOp _ _ _ hs.1, ?_⟩
        show ∀ p ∈ (extOp fn id k st).st.defs, p.2.LitWF
        rw [extOp_defs]
        exact hs.2
      | forEach q its v b =>
        have ht' : b.LitWF := ht
        exact ih (.items _ b _) _ ⟨ht', wf_itemsOf q its hs.1⟩ hs
      | loop i t b p =>
        have ht' : optLitWF i ∧ b.LitWF ∧ optLitWF p := ht
        simp only [wrap]
        refine stWF_andThen ?_ fun st hs => ih (.loopIter t b p) _ ⟨ht'.2.1, ht'.2.2⟩ hs
        cases i with
        | none => exact hs
        | some a => exact ih (.act a) _ ht'.1 hs
      | call name ap args =>
        have ht' : args.WF := ht
        simp only [wrap]
        split
        · exact hs
        · rename_i spec hspec
          simp only [Res.mapSt]
          have hmid := ih (.act spec) _ (hs.2 (name, spec) (AMap.mem_of_get? hspec))
            (hs.setData (wf_addValueAt (renderLenient (ap.getD "args") st.data) hs.1 (wf_renderArgs st.data ht')))
          exact hmid.setData (wf_removeAt _ hmid.1)
      | define name b =>
        have ht' : b.LitWF := ht
        simp only [wrap]
        split
        · exact hs
        · refine ⟨hs.1, ?_⟩
          intro p hp
          rcases AMap.mem_insert hp with rfl | hp
          · exact ht'
          · exact hs.2 p hp

/-! ## Boolean checkers (for concrete programs) -/

mutual
def Op.litWFb : Op → Bool
  | .set none _ _ => true
  | .set (some n) _ _ => wfb n
  | .template _ _ _ _ => true
  | .log _ => true
  | .abort _ => true
  | .ext _ _ _ => true
  | .forEach _ _ _ b => b.litWFb
  | .loop i _ b p => optLitWFb i && b.litWFb && optLitWFb p
  | .call _ _ args => wfb args
  | .define _ b => b.litWFb
def Action.litWFb : Action → Bool
  | .mk _ _ _ ops cs => opsLitWFb ops && actsLitWFb cs
def optLitWFb : Option Action → Bool
  | none => true
  | some a => a.litWFb
def opsLitWFb : List Op → Bool
  | [] => true
  | o :: os => o.litWFb && opsLitWFb os
def actsLitWFb : List Action → Bool
  | [] => true
  | a :: as => a.litWFb && actsLitWFb as
end

mutual
theorem Op.litWF_of_b : ∀ (o : Op), o.litWFb = true → o.LitWF
  | .set none _ _, _ => by simp [Op.LitWF]
  | .set (some n) _ _, h => by
    simp only [Op.litWFb] at h
    simp only [Op.LitWF]
    intro m hm
    cases hm
    exact wf_of_wfb _ h
  | .template _ _ _ _, _ => by simp [Op.LitWF]
  | .log _, _ => by simp [Op.LitWF]
  | .abort _, _ => by simp [Op.LitWF]
  | .ext _ _ _, _ => by simp [Op.LitWF]
  | .forEach _ _ _ b, h => by
    simp only [Op.litWFb] at h
    simp only [Op.LitWF]
    exact Action.litWF_of_b b h
  | .loop i _ b p, h => by
    simp only [Op.litWFb, Bool.and_eq_true] at h
    simp only [Op.LitWF]
    exact ⟨optLitWF_of_b i h.1.1, Action.litWF_of_b b h.1.2, optLitWF_of_b p h.2⟩
  | .call _ _ args, h => by
    simp only [Op.litWFb] at h
    simp only [Op.LitWF]
    exact wf_of_wfb _ h
  | .define _ b, h => by
    simp only [Op.litWFb] at h
    simp only [Op.LitWF]
    exact Action.litWF_of_b b h
theorem Action.litWF_of_b : ∀ (a : Action), a.litWFb = true → a.LitWF
  | .mk _ _ _ ops cs, h => by
    simp only [Action.litWFb, Bool.and_eq_true] at h
    simp only [Action.LitWF]
    exact ⟨opsLitWF_of_b ops h.1, actsLitWF_of_b cs h.2⟩
theorem optLitWF_of_b : ∀ (a : Option Action), optLitWFb a = true → optLitWF a
  | none, _ => by simp [optLitWF]
  | some a, h => by
    simp only [optLitWFb] at h
    simp only [optLitWF]
    exact Action.litWF_of_b a h
theorem opsLitWF_of_b : ∀ (os : List Op), opsLitWFb os = true → opsLitWF os
  | [], _ => by simp [opsLitWF]
  | o :: os, h => by
    simp only [opsLitWFb, Bool.and_eq_true] at h
    simp only [opsLitWF]
    exact ⟨Op.litWF_of_b o h.1, opsLitWF_of_b os h.2⟩
theorem actsLitWF_of_b : ∀ (as : List Action), actsLitWFb as = true → actsLitWF as
  | [], _ => by simp [actsLitWF]
  | a :: as, h => by
    simp only [actsLitWFb, Bool.and_eq_true] at h
    simp only [actsLitWF]
    exact ⟨Action.litWF_of_b a h.1, actsLitWF_of_b as h.2⟩
end

end Ytk.Pipeline
