/- Boolean checkers, sound, for `SafeKeys`, `ItemsHaveScalars` and `NoEmpty`, so that concrete
   documents can be shown to satisfy the hypotheses of the rebuild theorems by `decide`. -/
import YtkProofs.Rebuild

namespace Ytk

def safeKeyB (k : String) : Bool :=
  !k.toList.isEmpty && k.toList.all (fun c => c != '.' && c != '[' && c != ']')

theorem safeKeyB_sound {k : String} (h : safeKeyB k = true) : SafeKey k := by
  simp only [safeKeyB, Bool.and_eq_true, Bool.not_eq_true', List.all_eq_true, bne_iff_ne] at h
  refine ⟨?_, fun c hc => ?_⟩
  · intro e
    rw [e] at h
    simp at h
  · have := h.2 c hc
    exact ⟨this.1.1, this.1.2, this.2⟩

mutual
def Node.safeB : Node → Bool
  | .leaf _ => true
  | .list xs => safeListB xs
  | .cont kvs => safeKvsB kvs
def safeListB : List Node → Bool
  | [] => true
  | x :: xs => x.safeB && safeListB xs
def safeKvsB : List (String × Node) → Bool
  | [] => true
  | (k, x) :: xs => safeKeyB k && x.safeB && safeKvsB xs
end

mutual
theorem Node.safeB_sound : ∀ (n : Node), n.safeB = true → n.SafeKeys
  | .leaf v, _ => .leaf v
  | .list xs, h => by
    simp only [Node.safeB] at h
    exact .list (safeListB_sound xs h)
  | .cont kvs, h => by
    simp only [Node.safeB] at h
    have := safeKvsB_sound kvs h
    exact .cont (fun p hp => (this p hp).1) (fun p hp => (this p hp).2)
theorem safeListB_sound : ∀ (xs : List Node), safeListB xs = true → ∀ x ∈ xs, x.SafeKeys
  | [], _ => by intro x hx; cases hx
  | y :: ys, h => by
    simp only [safeListB, Bool.and_eq_true] at h
    intro x hx
    rcases List.mem_cons.mp hx with e | hx
    · exact e ▸ Node.safeB_sound y h.1
    · exact safeListB_sound ys h.2 x hx
theorem safeKvsB_sound : ∀ (xs : List (String × Node)), safeKvsB xs = true →
    ∀ p ∈ xs, SafeKey p.1 ∧ p.2.SafeKeys
  | [], _ => by intro p hp; cases hp
  | (k, y) :: ys, h => by
    simp only [safeKvsB, Bool.and_eq_true] at h
    intro p hp
    rcases List.mem_cons.mp hp with e | hp
    · exact e ▸ ⟨safeKeyB_sound h.1.1, Node.safeB_sound y h.1.2⟩
    · exact safeKvsB_sound ys h.2 p hp
end

mutual
def Node.itemsB : Node → Bool
  | .leaf _ => true
  | .list xs => itemsListB xs
  | .cont kvs => itemsKvsB kvs
def itemsListB : List Node → Bool
  | [] => true
  | x :: xs => decide (0 < Node.scalarCount x) && x.itemsB && itemsListB xs
def itemsKvsB : List (String × Node) → Bool
  | [] => true
  | (_, x) :: xs => x.itemsB && itemsKvsB xs
end

mutual
theorem Node.itemsB_sound : ∀ (n : Node), n.itemsB = true → n.ItemsHaveScalars
  | .leaf v, _ => .leaf v
  | .list xs, h => by
    simp only [Node.itemsB] at h
    have := itemsListB_sound xs h
    exact .list (fun x hx => (this x hx).1) (fun x hx => (this x hx).2)
  | .cont kvs, h => by
    simp only [Node.itemsB] at h
    exact .cont (itemsKvsB_sound kvs h)
theorem itemsListB_sound : ∀ (xs : List Node), itemsListB xs = true →
    ∀ x ∈ xs, 0 < Node.scalarCount x ∧ x.ItemsHaveScalars
  | [], _ => by intro x hx; cases hx
  | y :: ys, h => by
    simp only [itemsListB, Bool.and_eq_true, decide_eq_true_eq] at h
    intro x hx
    rcases List.mem_cons.mp hx with e | hx
    · exact e ▸ ⟨h.1.1, Node.itemsB_sound y h.1.2⟩
    · exact itemsListB_sound ys h.2 x hx
theorem itemsKvsB_sound : ∀ (xs : List (String × Node)), itemsKvsB xs = true →
    ∀ p ∈ xs, p.2.ItemsHaveScalars
  | [], _ => by intro p hp; cases hp
  | (k, y) :: ys, h => by
    simp only [itemsKvsB, Bool.and_eq_true] at h
    intro p hp
    rcases List.mem_cons.mp hp with e | hp
    · exact e ▸ Node.itemsB_sound y h.1
    · exact itemsKvsB_sound ys h.2 p hp
end

mutual
def Node.noEmptyB : Node → Bool
  | .leaf _ => true
  | .list xs => !xs.isEmpty && noEmptyListB xs
  | .cont kvs => !kvs.isEmpty && noEmptyKvsB kvs
def noEmptyListB : List Node → Bool
  | [] => true
  | x :: xs => x.noEmptyB && noEmptyListB xs
def noEmptyKvsB : List (String × Node) → Bool
  | [] => true
  | (_, x) :: xs => x.noEmptyB && noEmptyKvsB xs
end

mutual
theorem Node.noEmptyB_sound : ∀ (n : Node), n.noEmptyB = true → n.NoEmpty
  | .leaf v, _ => .leaf v
  | .list xs, h => by
    simp only [Node.noEmptyB, Bool.and_eq_true, Bool.not_eq_true', List.isEmpty_eq_false_iff] at h
    exact .list h.1 (noEmptyListB_sound xs h.2)
  | .cont kvs, h => by
    simp only [Node.noEmptyB, Bool.and_eq_true, Bool.not_eq_true', List.isEmpty_eq_false_iff] at h
    exact .cont h.1 (noEmptyKvsB_sound kvs h.2)
theorem noEmptyListB_sound : ∀ (xs : List Node), noEmptyListB xs = true → ∀ x ∈ xs, x.NoEmpty
  | [], _ => by intro x hx; cases hx
  | y :: ys, h => by
    simp only [noEmptyListB, Bool.and_eq_true] at h
    intro x hx
    rcases List.mem_cons.mp hx with e | hx
    · exact e ▸ Node.noEmptyB_sound y h.1
    · exact noEmptyListB_sound ys h.2 x hx
theorem noEmptyKvsB_sound : ∀ (xs : List (String × Node)), noEmptyKvsB xs = true → ∀ p ∈ xs, p.2.NoEmpty
  | [], _ => by intro p hp; cases hp
  | (k, y) :: ys, h => by
    simp only [noEmptyKvsB, Bool.and_eq_true] at h
    intro p hp
    rcases List.mem_cons.mp hp with e | hp
    · exact e ▸ Node.noEmptyB_sound y h.1
    · exact noEmptyKvsB_sound ys h.2 p hp
end

end Ytk
