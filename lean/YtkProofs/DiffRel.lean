/- Whatever order Go ranges over its maps in, diff() emits a permutation of what the key-order
   model emits. -/
import YtkModel.Diff
import YtkProofs.DiffSort

namespace Ytk

theorem flatKvs_perm {xs ys : List (String × Node)} (p : String) (h : xs.Perm ys) :
    (flatKvs xs p).Perm (flatKvs ys p) := by
  induction h with
  | nil => exact List.Perm.refl _
  | cons q _ ih => obtain ⟨k, x⟩ := q; simp only [flatKvs]; exact List.Perm.append_left _ ih
  | swap a b l =>
    obtain ⟨ka, xa⟩ := a; obtain ⟨kb, xb⟩ := b
    simp only [flatKvs, ← List.append_assoc]
    exact List.Perm.append_right _ List.perm_append_comm
  | trans _ _ ih1 ih2 => exact ih1.trans ih2

theorem emitLeft_perm {xs ys : List (String × Node)} (r : AMap Node) (p : String) (h : xs.Perm ys) :
    (emitLeft xs r p).Perm (emitLeft ys r p) := by
  induction h with
  | nil => exact List.Perm.refl _
  | cons q _ ih => obtain ⟨k, x⟩ := q; simp only [emitLeft]; exact List.Perm.append_left _ ih
  | swap a b l =>
    obtain ⟨ka, xa⟩ := a; obtain ⟨kb, xb⟩ := b
    simp only [emitLeft, ← List.append_assoc]
    exact List.Perm.append_right _ List.perm_append_comm
  | trans _ _ ih1 ih2 => exact ih1.trans ih2

theorem emitRight_perm {xs ys : List (String × Node)} (l : AMap Node) (p : String) (h : xs.Perm ys) :
    (emitRight xs l p).Perm (emitRight ys l p) := by
  induction h with
  | nil => exact List.Perm.refl _
  | cons q _ ih => obtain ⟨k, x⟩ := q; simp only [emitRight]; exact List.Perm.append_left _ ih
  | swap a b l =>
    obtain ⟨ka, xa⟩ := a; obtain ⟨kb, xb⟩ := b
    simp only [emitRight, ← List.append_assoc]
    exact List.Perm.append_right _ List.perm_append_comm
  | trans _ _ ih1 ih2 => exact ih1.trans ih2

mutual
theorem flatRel_perm : ∀ {n : Node} {p : String} {ms : List Mod}, FlatRel n p ms → ms.Perm (flatNode n p)
  | _, _, _, .leaf v p => by simp only [flatNode]; exact List.Perm.refl _
  | _, _, _, .list h => by simp only [flatNode]; exact flatListRel_perm h
  | _, _, _, .cont hp h => by simp only [flatNode]; exact (flatKvsRel_perm h).trans (flatKvs_perm _ hp)
theorem flatListRel_perm : ∀ {xs : List Node} {p : String} {i : Nat} {ms : List Mod},
    FlatListRel xs p i ms → ms.Perm (flatList xs p i)
  | _, _, _, _, .nil p i => by simp only [flatList]; exact List.Perm.refl _
  | _, _, _, _, .cons h1 h2 => by
    simp only [flatList]; exact List.Perm.append (flatRel_perm h1) (flatListRel_perm h2)
theorem flatKvsRel_perm : ∀ {xs : List (String × Node)} {p : String} {ms : List Mod},
    FlatKvsRel xs p ms → ms.Perm (flatKvs xs p)
  | _, _, _, .nil p => by simp only [flatKvs]; exact List.Perm.refl _
  | _, _, _, .cons h1 h2 => by
    simp only [flatKvs]; exact List.Perm.append (flatRel_perm h1) (flatKvsRel_perm h2)
end

theorem emitNode_mismatch {x y : Node} (p : String) (h1 : (x.isCont && y.isCont) = false)
    (h2 : (x.isList && y.isList) = false) (h3 : (x.isLeaf && y.isLeaf) = false) :
    emitNode x y p = Mod.mkDel p :: flatNode y p := by
  cases x <;> cases y <;> simp_all [Node.isCont, Node.isList, Node.isLeaf, emitNode]

mutual
theorem emitRel_perm : ∀ {x y : Node} {p : String} {ms : List Mod}, EmitRel x y p ms → ms.Perm (emitNode x y p)
  | _, _, _, _, .cont hl hr h => by
    simp only [emitNode]
    exact List.Perm.append ((emitLeftRel_perm h).trans (emitLeft_perm _ _ hl)) (emitRight_perm _ _ hr)
  | _, _, _, _, .other h1 h2 h3 h => by
    rw [emitNode_mismatch _ h1 h2 h3]
    exact List.Perm.cons _ (flatRel_perm h)
  | _, _, _, _, .leaf a b p => List.Perm.refl _
  | _, _, _, _, .listEq p he => by simp [emitNode, he]
  | _, _, _, _, .listNe he h => by
    simp only [emitNode, he]
    exact List.Perm.cons _ (by have := flatRel_perm h; simpa [flatNode] using this)
theorem emitLeftRel_perm : ∀ {xs : List (String × Node)} {r : AMap Node} {p : String} {ms : List Mod},
    EmitLeftRel xs r p ms → ms.Perm (emitLeft xs r p)
  | _, _, _, _, .nil r p => by simp only [emitLeft]; exact List.Perm.refl _
  | _, _, _, _, .both hc h1 h2 => by
    simp only [emitLeft, hc]
    exact List.Perm.append (emitRel_perm h1) (emitLeftRel_perm h2)
  | _, _, _, _, .leftOnly hc h1 h2 => by
    simp only [emitLeft, hc]
    exact List.Perm.append (flatRel_perm h1) (emitLeftRel_perm h2)
end

/-! ## the key-order traversal is one of the allowed traversals -/

mutual
theorem flatRel_self : ∀ (n : Node) (p : String), FlatRel n p (flatNode n p)
  | .leaf v, p => by simp only [flatNode]; exact .leaf v p
  | .list xs, p => by simp only [flatNode]; exact .list (flatListRel_self xs p 0)
  | .cont kvs, p => by simp only [flatNode]; exact .cont (List.Perm.refl _) (flatKvsRel_self kvs p)
theorem flatListRel_self : ∀ (xs : List Node) (p : String) (i : Nat), FlatListRel xs p i (flatList xs p i)
  | [], p, i => by simp only [flatList]; exact .nil p i
  | x :: xs, p, i => by simp only [flatList]; exact .cons (flatRel_self x _) (flatListRel_self xs p (i + 1))
theorem flatKvsRel_self : ∀ (xs : List (String × Node)) (p : String), FlatKvsRel xs p (flatKvs xs p)
  | [], p => by simp only [flatKvs]; exact .nil p
  | (k, x) :: xs, p => by simp only [flatKvs]; exact .cons (flatRel_self x _) (flatKvsRel_self xs p)
end

mutual
theorem emitRel_self : ∀ (x y : Node) (p : String), EmitRel x y p (emitNode x y p)
  | .cont l, .cont r, p => by
    simp only [emitNode]
    exact .cont (List.Perm.refl _) (List.Perm.refl _) (emitLeftRel_self l r p)
  | .list xs, .list ys, p => by
    cases he : equals (.list xs) (.list ys) with
    | true => simp only [emitNode, he, if_true]; exact .listEq p he
    | false =>
      simp only [emitNode, he]
      exact .listNe he (by have := flatRel_self (.list xs) p; simpa [flatNode] using this)
  | .leaf a, .leaf b, p => .leaf a b p
  | .leaf _, .list ys, p => by simp only [emitNode]; exact .other rfl rfl rfl (flatRel_self _ p)
  | .leaf _, .cont r, p => by simp only [emitNode]; exact .other rfl rfl rfl (flatRel_self _ p)
  | .list _, .leaf b, p => by simp only [emitNode]; exact .other rfl rfl rfl (flatRel_self _ p)
  | .list _, .cont r, p => by simp only [emitNode]; exact .other rfl rfl rfl (flatRel_self _ p)
  | .cont _, .leaf b, p => by simp only [emitNode]; exact .other rfl rfl rfl (flatRel_self _ p)
  | .cont _, .list ys, p => by simp only [emitNode]; exact .other rfl rfl rfl (flatRel_self _ p)
theorem emitLeftRel_self : ∀ (xs : List (String × Node)) (r : AMap Node) (p : String),
    EmitLeftRel xs r p (emitLeft xs r p)
  | [], r, p => by simp only [emitLeft]; exact .nil r p
  | (k, n) :: rest, r, p => by
    simp only [emitLeft]
    cases hc : child r k with
    | some n2 => exact .both hc (emitRel_self n n2 _) (emitLeftRel_self rest r p)
    | none => exact .leftOnly hc (flatRel_self n _) (emitLeftRel_self rest r p)
end

/-- permutations with pairwise distinct paths have the same per-path sub-sequences -/
theorem filter_eq_of_perm_of_nodup {a b : List Mod} (h : a.Perm b) (hn : (b.map (·.path)).Nodup) (q : String) :
    a.filter (fun m => m.path = q) = b.filter (fun m => m.path = q) := by
  have hp : (a.filter (fun m => m.path = q)).Perm (b.filter (fun m => m.path = q)) := h.filter _
  have hlen : ∀ (l : List Mod), (l.map (·.path)).Nodup → (l.filter (fun m => m.path = q)).length ≤ 1 := by
    intro l
    induction l with
    | nil => intro _; simp
    | cons x xs ih =>
      intro hnd
      simp only [List.map_cons, List.nodup_cons] at hnd
      rw [List.filter_cons]
      split
      · rename_i hx
        have hx' : x.path = q := by simpa using hx
        have : xs.filter (fun m => m.path = q) = [] := by
          apply List.filter_eq_nil_iff.mpr
          intro m hm hmq
          have hmq' : m.path = q := by simpa using hmq
          exact hnd.1 (List.mem_map.mpr ⟨m, hm, by rw [hmq', hx']⟩)
        simp [this]
      · exact ih hnd.2
  have hb := hlen b hn
  have hl := hp.length_eq
  match hfa : a.filter (fun m => m.path = q), hfb : b.filter (fun m => m.path = q) with
  | [], [] => rw [hfa, hfb]
  | [], _ :: _ => rw [hfa, hfb] at hl; simp at hl
  | _ :: _, [] => rw [hfa, hfb] at hl; simp at hl
  | [x], [y] =>
    rw [hfa, hfb] at hp
    have := hp.mem_iff (a := x)
    simp at this
    rw [hfa, hfb, this]
  | _ :: _ :: _, _ => rw [hfa, hfb] at hl; rw [hfb] at hb; simp at hl hb; omega
  | [_], _ :: _ :: _ => rw [hfb] at hb; simp at hb

theorem sortMods_perm_of_perm {a b : List Mod} (h : a.Perm b) : (sortMods a).Perm (sortMods b) :=
  (sortMods_perm a).trans (h.trans (sortMods_perm b).symm)

end Ytk
