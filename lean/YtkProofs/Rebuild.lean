/-
  Rebuild (C02): inserting the flattened (path, leaf) pairs of a document one by one with
  `addValueAt`, in ANY order, into the empty document gives a document with the same
  flattened view.

  Structure
  1. step paths (`sp`): leaf paths as lists of single steps (`PSeg.key` / `PSeg.idx`), and their
     relation to the component paths `lp` of FlattenPaths.lean (`steps`);
  2. `setN` — writing a node along a step path (the structured form of `addAtSegs`), and the
     refinement `addAtSegs kvs (cs.map compName) v = setN …` for path-safe components;
  3. `mask S n` — the document restricted to a set `S` of its leaf paths: keyed children without
     an `S`-leaf are absent, list slots without an `S`-leaf are null pads when a later slot has
     one and absent otherwise;
  4. (i) the empty mask is empty, (ii) ONE insertion of a leaf path `p` of `d` turns `mask S d`
     into `mask (S ∪ {p}) d` (idempotent when `p ∈ S`), (iii) the full mask has the flattened
     view of `d` when every list item holds a scalar;
  5. the fold over any list of pairs covering the flattened view.
-/
import YtkProofs.FlattenPaths
import YtkProofs.Addr

namespace Ytk

/-! ### 1. step paths -/

mutual
/-- leaf paths below a node, one step per container / list level -/
def sp : Node → List (List PSeg × Scalar)
  | .leaf v => [([], v)]
  | .list xs => spList xs 0
  | .cont kvs => spKvs kvs
def spList : List Node → Nat → List (List PSeg × Scalar)
  | [], _ => []
  | x :: xs, i => (sp x).map (fun q => (PSeg.idx i :: q.1, q.2)) ++ spList xs (i + 1)
def spKvs : List (String × Node) → List (List PSeg × Scalar)
  | [] => []
  | (k, x) :: r => (sp x).map (fun q => (PSeg.key k :: q.1, q.2)) ++ spKvs r
end

def compSteps (c : Comp) : List PSeg := .key c.1 :: c.2.map .idx

def steps (cs : List Comp) : List PSeg := cs.flatMap compSteps

theorem steps_cons (c : Comp) (cs : List Comp) : steps (c :: cs) = compSteps c ++ steps cs := by
  simp [steps]

theorem compSteps_snoc (k : String) (is : List Nat) (i : Nat) (q : List PSeg) :
    compSteps (k, is ++ [i]) ++ q = compSteps (k, is) ++ PSeg.idx i :: q := by
  simp [compSteps]

mutual
theorem lp_sp : ∀ (n : Node) (cur : Comp),
    (lp n cur).map (fun q => (steps q.1, q.2)) = (sp n).map (fun q => (compSteps cur ++ q.1, q.2))
  | .leaf v, cur => by simp [lp, sp, steps]
  | .list xs, cur => by
    simp only [lp, sp]
    exact lpList_sp xs cur 0
  | .cont kvs, cur => by
    simp only [lp, sp, List.map_map]
    rw [← lpKvs_sp kvs, List.map_map]
    apply List.map_congr_left
    intro q _
    simp [steps_cons]
theorem lpList_sp : ∀ (xs : List Node) (cur : Comp) (i : Nat),
    (lpList xs cur i).map (fun q => (steps q.1, q.2)) = (spList xs i).map (fun q => (compSteps cur ++ q.1, q.2))
  | [], _, _ => rfl
  | x :: xs, cur, i => by
    obtain ⟨k, is⟩ := cur
    simp only [lpList, spList, List.map_append, List.map_map]
    rw [lp_sp x (k, is ++ [i]), lpList_sp xs (k, is) (i + 1)]
    congr 1
    apply List.map_congr_left
    intro q _
    simp [compSteps_snoc]
theorem lpKvs_sp : ∀ (kvs : List (String × Node)),
    (lpKvs kvs).map (fun q => (steps q.1, q.2)) = spKvs kvs
  | [] => rfl
  | (k, x) :: r => by
    simp only [lpKvs, spKvs, List.map_append]
    rw [lp_sp x (k, []), lpKvs_sp r]
    simp [compSteps]
end

theorem mem_spKvs_of_lpKvs {kvs : List (String × Node)} {q : List Comp × Scalar} (h : q ∈ lpKvs kvs) :
    (steps q.1, q.2) ∈ spKvs kvs := by
  rw [← lpKvs_sp]
  exact List.mem_map.mpr ⟨q, h, rfl⟩

theorem mem_lpKvs_of_spKvs {kvs : List (String × Node)} {s : List PSeg × Scalar} (h : s ∈ spKvs kvs) :
    ∃ q ∈ lpKvs kvs, steps q.1 = s.1 ∧ q.2 = s.2 := by
  rw [← lpKvs_sp] at h
  obtain ⟨q, hq, he⟩ := List.mem_map.mp h
  exact ⟨q, hq, by rw [← he], by rw [← he]⟩

/-! ### 2. writing along a step path -/

/-- the entries a node holds as a container (anything else counts as empty: it is replaced) -/
def contOf : Option Node → AMap Node
  | some (.cont c) => c
  | _ => []

/-- write `v` below `cur` along a step path: lists and containers on the way are reused, anything
    else is replaced; list slots are padded with null -/
def setN : Option Node → List PSeg → Node → Node
  | _, [], v => v
  | cur, .idx i :: r, v =>
    .list ((padTo (listOf cur) (i + 1)).set i (setN (padTo (listOf cur) (i + 1))[i]? r v))
  | cur, .key k :: r, v =>
    .cont (AMap.insert (contOf cur) k (setN (AMap.get? (contOf cur) k) r v))

/-- the path does not continue with an index step -/
def KeyHead : List PSeg → Prop
  | .idx _ :: _ => False
  | _ => True

theorem setN_congr {cur cur' : Option Node} (r : List PSeg) (v : Node) (hk : KeyHead r)
    (h : contOf cur = contOf cur') : setN cur r v = setN cur' r v := by
  cases r with
  | nil => simp [setN]
  | cons s r =>
    cases s with
    | idx i => exact absurd hk (by simp [KeyHead])
    | key k => simp only [setN, h]

theorem keyHead_steps (cs : List Comp) : KeyHead (steps cs) := by
  cases cs with
  | nil => simp [steps, KeyHead]
  | cons c cs => simp [steps_cons, compSteps, KeyHead]

theorem setSlot_eq (cur : Option Node) (i : Nat) (is : List Nat) (v : Node) :
    setSlot cur (i :: is) v =
      .list ((padTo (listOf cur) (i + 1)).set i (setSlot (padTo (listOf cur) (i + 1))[i]? is v)) := by
  cases cur with
  | none => simp [setSlot, listOf]
  | some n => cases n <;> simp [setSlot, listOf]

theorem walkIdx_cons (cur : Option Node) (i : Nat) (is : List Nat) :
    walkIdx cur (i :: is) = walkIdx (listOf cur)[i]? is := by
  cases cur with
  | none => simp [walkIdx, listOf, walkIdx_none]
  | some n => cases n <;> simp [walkIdx, listOf, walkIdx_none]

theorem contOf_walkIdx_null (is : List Nat) : contOf (walkIdx (some Node.null) is) = [] := by
  cases is <;> simp [walkIdx, contOf, Node.null]

/-- index steps of `setN` are `setSlot`; what is written below them sees the node that was there -/
theorem setN_idx : ∀ (is : List Nat) (cur : Option Node) (r : List PSeg) (v : Node), KeyHead r →
    setN cur (is.map PSeg.idx ++ r) v = setSlot cur is (setN (walkIdx cur is) r v)
  | [], cur, r, v, _ => by simp [setSlot, walkIdx]
  | i :: is, cur, r, v, hk => by
    rw [setSlot_eq, walkIdx_cons]
    simp only [List.map_cons, List.cons_append, setN]
    rw [setN_idx is _ r v hk]
    congr 3
    apply setN_congr r v hk
    by_cases hi : i < (listOf cur).length
    · rw [padTo_getElem?_lt hi]
    · rw [padTo_getElem?_ge (Nat.le_of_not_lt hi), if_pos (Nat.lt_succ_self i)]
      rw [List.getElem?_eq_none (Nat.le_of_not_lt hi), contOf_walkIdx_null, walkIdx_none]
      rfl

/-- the path component a structured component renders to -/
def compName (c : Comp) : String := String.ofList (compStr c)

theorem compName_nil (k : String) : compName (k, []) = k := by
  simp [compName, compStr, groups, String.ofList_toList]

theorem add_compName (kvs : AMap Node) {c : Comp} (h : SafeKey c.1) (v : Node) :
    add kvs (compName c) v = AMap.insert kvs c.1 (setSlot (AMap.get? kvs c.1) c.2 v) := by
  unfold add compName
  rw [parseSeg_compStr h]
  obtain ⟨k, is⟩ := c
  cases is with
  | nil =>
    have : String.ofList (compStr (k, [])) = k := compName_nil k
    simp only [setSlot, this]
  | cons i is => rfl

theorem contOf_some_cont (c : AMap Node) : contOf (some (.cont c)) = c := rfl

theorem addAtSegs_cons2 (kvs : AMap Node) (p q : String) (rest : List String) (v : Node) :
    addAtSegs kvs (p :: q :: rest) v = add kvs p (.cont (addAtSegs (contOf (child kvs p)) (q :: rest) v)) := by
  simp only [addAtSegs]
  cases child kvs p with
  | none => rfl
  | some n => cases n <;> rfl

/-- `addAtSegs` on rendered components is `setN` on their steps -/
theorem addAtSegs_setN : ∀ (cs : List Comp) (kvs : AMap Node) (v : Node), cs ≠ [] → (∀ x ∈ cs, SafeKey x.1) →
    Node.cont (addAtSegs kvs (cs.map compName) v) = setN (some (.cont kvs)) (steps cs) v
  | [], _, _, h, _ => absurd rfl h
  | [c], kvs, v, _, hs => by
    have hc := hs c (List.mem_cons_self ..)
    simp only [List.map_cons, List.map_nil, addAtSegs, steps_cons, compSteps, List.cons_append, setN,
      contOf_some_cont]
    rw [add_compName kvs hc, setN_idx c.2 _ (steps []) v (keyHead_steps [])]
    simp [steps, setN]
  | c :: d :: ds, kvs, v, _, hs => by
    have hc := hs c (List.mem_cons_self ..)
    have ih := addAtSegs_setN (d :: ds) (contOf (walkIdx (AMap.get? kvs c.1) c.2)) v (by simp)
      (fun x hx => hs x (List.mem_cons_of_mem _ hx))
    rw [steps_cons]
    simp only [List.map_cons, addAtSegs_cons2, compSteps, List.cons_append, setN, contOf_some_cont]
    rw [add_compName kvs hc, setN_idx c.2 _ (steps (d :: ds)) v (keyHead_steps _)]
    rw [show child kvs (compName c) = walkIdx (AMap.get? kvs c.1) c.2 from child_compStr kvs hc]
    simp only [List.map_cons] at ih
    rw [ih]
    congr 3

end Ytk
