/-
  Rebuild (C02): inserting the flattened (path, leaf) pairs of a document one by one with
  `addValueAt`, in ANY order, into the empty document gives a document with the same
  flattened view.

  Structure
  1. step paths (`sp`): leaf paths as lists of single steps (`PSeg.key` / `PSeg.idx`), and their
     relation to the component paths `lp` of FlattenPaths.lean (`steps`);
  2. `setN` — writing a node along a step path (the structured form of `addAtSegs`), and the
     refinement `addAtSegs kvs (cs.map compName) v = setN …` for path-safe components;
  3. `mask S n` — the document restricted to a set `S` of its leaf paths: keyed children without
     an `S`-leaf are absent, list slots without an `S`-leaf are null pads when a later slot has
     one and absent otherwise;
  4. (i) the empty mask is empty, (ii) ONE insertion of a leaf path `p` of `d` turns `mask S d`
     into `mask (S ∪ {p}) d` (idempotent when `p ∈ S`), (iii) the full mask has the flattened
     view of `d` when every list item holds a scalar;
  5. the fold over any list of pairs covering the flattened view.
-/
import YtkProofs.FlattenPaths
import YtkProofs.Addr

namespace Ytk

/-! ### 1. step paths -/

mutual
/-- leaf paths below a node, one step per container / list level -/
def sp : Node → List (List PSeg × Scalar)
  | .leaf v => [([], v)]
  | .list xs => spList xs 0
  | .cont kvs => spKvs kvs
def spList : List Node → Nat → List (List PSeg × Scalar)
  | [], _ => []
  | x :: xs, i => (sp x).map (fun q => (PSeg.idx i :: q.1, q.2)) ++ spList xs (i + 1)
def spKvs : List (String × Node) → List (List PSeg × Scalar)
  | [] => []
  | (k, x) :: r => (sp x).map (fun q => (PSeg.key k :: q.1, q.2)) ++ spKvs r
end

def compSteps (c : Comp) : List PSeg := .key c.1 :: c.2.map .idx

def steps (cs : List Comp) : List PSeg := cs.flatMap compSteps

theorem steps_cons (c : Comp) (cs : List Comp) : steps (c :: cs) = compSteps c ++ steps cs := by
  simp [steps]

theorem compSteps_snoc (k : String) (is : List Nat) (i : Nat) (q : List PSeg) :
    compSteps (k, is ++ [i]) ++ q = compSteps (k, is) ++ PSeg.idx i :: q := by
  simp [compSteps]

mutual
theorem lp_sp : ∀ (n : Node) (cur : Comp),
    (lp n cur).map (fun q => (steps q.1, q.2)) = (sp n).map (fun q => (compSteps cur ++ q.1, q.2))
  | .leaf v, cur => by simp [lp, sp, steps]
  | .list xs, cur => by
    simp only [lp, sp]
    exact lpList_sp xs cur 0
  | .cont kvs, cur => by
    simp only [lp, sp, List.map_map]
    rw [← lpKvs_sp kvs, List.map_map]
    apply List.map_congr_left
    intro q _
    simp [steps_cons]
theorem lpList_sp : ∀ (xs : List Node) (cur : Comp) (i : Nat),
    (lpList xs cur i).map (fun q => (steps q.1, q.2)) = (spList xs i).map (fun q => (compSteps cur ++ q.1, q.2))
  | [], _, _ => rfl
  | x :: xs, cur, i => by
    obtain ⟨k, is⟩ := cur
    simp only [lpList, spList, List.map_append, List.map_map]
    rw [lp_sp x (k, is ++ [i]), lpList_sp xs (k, is) (i + 1)]
    congr 1
    apply List.map_congr_left
    intro q _
    simp [compSteps_snoc]
theorem lpKvs_sp : ∀ (kvs : List (String × Node)),
    (lpKvs kvs).map (fun q => (steps q.1, q.2)) = spKvs kvs
  | [] => rfl
  | (k, x) :: r => by
    simp only [lpKvs, spKvs, List.map_append]
    rw [lp_sp x (k, []), lpKvs_sp r]
    simp [compSteps]
end

theorem mem_spKvs_of_lpKvs {kvs : List (String × Node)} {q : List Comp × Scalar} (h : q ∈ lpKvs kvs) :
    (steps q.1, q.2) ∈ spKvs kvs := by
  rw [← lpKvs_sp]
  exact List.mem_map.mpr ⟨q, h, rfl⟩

theorem mem_lpKvs_of_spKvs {kvs : List (String × Node)} {s : List PSeg × Scalar} (h : s ∈ spKvs kvs) :
    ∃ q ∈ lpKvs kvs, steps q.1 = s.1 ∧ q.2 = s.2 := by
  rw [← lpKvs_sp] at h
  obtain ⟨q, hq, he⟩ := List.mem_map.mp h
  exact ⟨q, hq, by rw [← he], by rw [← he]⟩

/-! ### 2. writing along a step path -/

/-- the entries a node holds as a container (anything else counts as empty: it is replaced) -/
def contOf : Option Node → AMap Node
  | some (.cont c) => c
  | _ => []

/-- write `v` below `cur` along a step path: lists and containers on the way are reused, anything
    else is replaced; list slots are padded with null -/
def setN : Option Node → List PSeg → Node → Node
  | _, [], v => v
  | cur, .idx i :: r, v =>
    .list ((padTo (listOf cur) (i + 1)).set i (setN (padTo (listOf cur) (i + 1))[i]? r v))
  | cur, .key k :: r, v =>
    .cont (AMap.insert (contOf cur) k (setN (AMap.get? (contOf cur) k) r v))

/-- the path does not continue with an index step -/
def KeyHead : List PSeg → Prop
  | .idx _ :: _ => False
  | _ => True

theorem setN_congr {cur cur' : Option Node} (r : List PSeg) (v : Node) (hk : KeyHead r)
    (h : contOf cur = contOf cur') : setN cur r v = setN cur' r v := by
  cases r with
  | nil => simp [setN]
  | cons s r =>
    cases s with
    | idx i => exact absurd hk (by simp [KeyHead])
    | key k => simp only [setN, h]

theorem keyHead_steps (cs : List Comp) : KeyHead (steps cs) := by
  cases cs with
  | nil => simp [steps, KeyHead]
  | cons c cs => simp [steps_cons, compSteps, KeyHead]

theorem setSlot_eq (cur : Option Node) (i : Nat) (is : List Nat) (v : Node) :
    setSlot cur (i :: is) v =
      .list ((padTo (listOf cur) (i + 1)).set i (setSlot (padTo (listOf cur) (i + 1))[i]? is v)) := by
  cases cur with
  | none => simp [setSlot, listOf]
  | some n => cases n <;> simp [setSlot, listOf]

theorem walkIdx_cons (cur : Option Node) (i : Nat) (is : List Nat) :
    walkIdx cur (i :: is) = walkIdx (listOf cur)[i]? is := by
  cases cur with
  | none => simp [walkIdx, listOf, walkIdx_none]
  | some n => cases n <;> simp [walkIdx, listOf, walkIdx_none]

theorem contOf_walkIdx_null (is : List Nat) : contOf (walkIdx (some Node.null) is) = [] := by
  cases is <;> simp [walkIdx, contOf, Node.null]

/-- index steps of `setN` are `setSlot`; what is written below them sees the node that was there -/
theorem setN_idx : ∀ (is : List Nat) (cur : Option Node) (r : List PSeg) (v : Node), KeyHead r →
    setN cur (is.map PSeg.idx ++ r) v = setSlot cur is (setN (walkIdx cur is) r v)
  | [], cur, r, v, _ => by simp [setSlot, walkIdx]
  | i :: is, cur, r, v, hk => by
    rw [setSlot_eq, walkIdx_cons]
    simp only [List.map_cons, List.cons_append, setN]
    rw [setN_idx is _ r v hk]
    congr 3
    apply setN_congr r v hk
    by_cases hi : i < (listOf cur).length
    · rw [padTo_getElem?_lt hi]
    · rw [padTo_getElem?_ge (Nat.le_of_not_lt hi), if_pos (Nat.lt_succ_self i)]
      rw [List.getElem?_eq_none (Nat.le_of_not_lt hi), contOf_walkIdx_null, walkIdx_none]
      rfl

/-- the path component a structured component renders to -/
def compName (c : Comp) : String := String.ofList (compStr c)

theorem compName_nil (k : String) : compName (k, []) = k := by
  simp [compName, compStr, groups, String.ofList_toList]

theorem add_compName (kvs : AMap Node) {c : Comp} (h : SafeKey c.1) (v : Node) :
    add kvs (compName c) v = AMap.insert kvs c.1 (setSlot (AMap.get? kvs c.1) c.2 v) := by
  unfold add compName
  rw [parseSeg_compStr h]
  obtain ⟨k, is⟩ := c
  cases is with
  | nil =>
    have : String.ofList (compStr (k, [])) = k := compName_nil k
    simp only [setSlot, this]
  | cons i is => rfl

theorem contOf_some_cont (c : AMap Node) : contOf (some (.cont c)) = c := rfl

theorem addAtSegs_cons2 (kvs : AMap Node) (p q : String) (rest : List String) (v : Node) :
    addAtSegs kvs (p :: q :: rest) v = add kvs p (.cont (addAtSegs (contOf (child kvs p)) (q :: rest) v)) := by
  simp only [addAtSegs]
  cases child kvs p with
  | none => rfl
  | some n => cases n <;> rfl

/-- `addAtSegs` on rendered components is `setN` on their steps -/
theorem addAtSegs_setN : ∀ (cs : List Comp) (kvs : AMap Node) (v : Node), cs ≠ [] → (∀ x ∈ cs, SafeKey x.1) →
    Node.cont (addAtSegs kvs (cs.map compName) v) = setN (some (.cont kvs)) (steps cs) v
  | [], _, _, h, _ => absurd rfl h
  | [c], kvs, v, _, hs => by
    have hc := hs c (List.mem_cons_self ..)
    simp only [List.map_cons, List.map_nil, addAtSegs, steps_cons, compSteps, List.cons_append, setN,
      contOf_some_cont]
    rw [add_compName kvs hc, setN_idx c.2 _ (steps []) v (keyHead_steps [])]
    simp [steps, setN]
  | c :: d :: ds, kvs, v, _, hs => by
    have hc := hs c (List.mem_cons_self ..)
    have ih := addAtSegs_setN (d :: ds) (contOf (walkIdx (AMap.get? kvs c.1) c.2)) v (by simp)
      (fun x hx => hs x (List.mem_cons_of_mem _ hx))
    rw [steps_cons]
    simp only [List.map_cons, addAtSegs_cons2, compSteps, List.cons_append, setN, contOf_some_cont]
    rw [add_compName kvs hc, setN_idx c.2 _ (steps (d :: ds)) v (keyHead_steps _)]
    rw [show child kvs (compName c) = walkIdx (AMap.get? kvs c.1) c.2 from child_compStr kvs hc]
    simp only [List.map_cons] at ih
    rw [ih]
    congr 3

/-! ### 3. masks -/

/-- the paths of `S` below step `s` -/
def rs (S : List PSeg → Bool) (s : PSeg) : List PSeg → Bool := fun q => S (s :: q)

/-- `S ∪ {p}` -/
def addP (S : List PSeg → Bool) (p : List PSeg) : List PSeg → Bool := fun q => S q || decide (q = p)

theorem rs_addP_same (S : List PSeg → Bool) (s : PSeg) (r : List PSeg) :
    rs (addP S (s :: r)) s = addP (rs S s) r := by
  funext q
  simp [rs, addP]

theorem rs_addP_other (S : List PSeg → Bool) {s s' : PSeg} (r : List PSeg) (h : s ≠ s') :
    rs (addP S (s' :: r)) s = rs S s := by
  funext q
  simp [rs, addP, h]

mutual
/-- the part of a node that holds the leaves of `S`; `none` when there is none -/
def maskNode : (List PSeg → Bool) → Node → Option Node
  | S, .leaf v => if S [] then some (.leaf v) else none
  | S, .list xs =>
    match maskList S xs 0 with
    | [] => none
    | y :: ys => some (.list (y :: ys))
  | S, .cont kvs =>
    match maskKvs S kvs with
    | [] => none
    | y :: ys => some (.cont (y :: ys))
/-- list items from offset `i`: trailing items without an `S`-leaf are dropped, inner ones are null pads -/
def maskList : (List PSeg → Bool) → List Node → Nat → List Node
  | _, [], _ => []
  | S, x :: xs, i =>
    match maskNode (rs S (.idx i)) x, maskList S xs (i + 1) with
    | none, [] => []
    | none, y :: ys => Node.null :: y :: ys
    | some z, ys => z :: ys
def maskKvs : (List PSeg → Bool) → List (String × Node) → List (String × Node)
  | _, [] => []
  | S, (k, x) :: r =>
    match maskNode (rs S (.key k)) x with
    | none => maskKvs S r
    | some z => (k, z) :: maskKvs S r
end

/-- a possibly absent list / container node -/
def optList : List Node → Option Node
  | [] => none
  | y :: ys => some (.list (y :: ys))
def optCont : AMap Node → Option Node
  | [] => none
  | y :: ys => some (.cont (y :: ys))

theorem maskNode_list (S : List PSeg → Bool) (xs : List Node) : maskNode S (.list xs) = optList (maskList S xs 0) := by
  simp only [maskNode]
  cases maskList S xs 0 <;> rfl

theorem maskNode_cont (S : List PSeg → Bool) (kvs : List (String × Node)) :
    maskNode S (.cont kvs) = optCont (maskKvs S kvs) := by
  simp only [maskNode]
  cases maskKvs S kvs <;> rfl

theorem listOf_optList (ys : List Node) : listOf (optList ys) = ys := by cases ys <;> rfl
theorem contOf_optCont (ys : AMap Node) : contOf (optCont ys) = ys := by cases ys <;> rfl

/-! (i) the empty mask is the empty document -/
mutual
theorem maskNode_empty : ∀ (n : Node), maskNode (fun _ => false) n = none
  | .leaf v => by simp [maskNode]
  | .list xs => by rw [maskNode_list, maskList_empty xs 0]; rfl
  | .cont kvs => by rw [maskNode_cont, maskKvs_empty kvs]; rfl
theorem maskList_empty : ∀ (xs : List Node) (i : Nat), maskList (fun _ => false) xs i = []
  | [], _ => by simp [maskList]
  | x :: xs, i => by
    have h1 : rs (fun _ => false) (.idx i) = fun _ => false := rfl
    simp only [maskList, h1, maskNode_empty x, maskList_empty xs (i + 1)]
theorem maskKvs_empty : ∀ (kvs : List (String × Node)), maskKvs (fun _ => false) kvs = []
  | [] => by simp [maskKvs]
  | (k, x) :: r => by
    have h1 : rs (fun _ => false) (.key k) = fun _ => false := rfl
    simp only [maskKvs, h1, maskNode_empty x, maskKvs_empty r]
end

/-! masks depend only on the part of `S` they look at -/

theorem maskList_congr {S S' : List PSeg → Bool} : ∀ (xs : List Node) (o : Nat),
    (∀ j, o ≤ j → rs S (.idx j) = rs S' (.idx j)) → maskList S xs o = maskList S' xs o
  | [], _, _ => by simp [maskList]
  | x :: xs, o, h => by
    simp only [maskList]
    rw [h o (Nat.le_refl o), maskList_congr xs (o + 1) (fun j hj => h j (by omega))]

theorem maskKvs_congr {S S' : List PSeg → Bool} : ∀ (kvs : List (String × Node)),
    (∀ q ∈ kvs, rs S (.key q.1) = rs S' (.key q.1)) → maskKvs S kvs = maskKvs S' kvs
  | [], _ => by simp [maskKvs]
  | (k, x) :: r, h => by
    simp only [maskKvs]
    rw [h (k, x) (List.mem_cons_self ..), maskKvs_congr r (fun q hq => h q (List.mem_cons_of_mem _ hq))]

theorem mem_maskKvs {S : List PSeg → Bool} : ∀ (kvs : List (String × Node)) (p : String × Node),
    p ∈ maskKvs S kvs → ∃ x, (p.1, x) ∈ kvs
  | [], p, h => by simp [maskKvs] at h
  | (k, x) :: r, p, h => by
    simp only [maskKvs] at h
    split at h
    · obtain ⟨y, hy⟩ := mem_maskKvs r p h
      exact ⟨y, List.mem_cons_of_mem _ hy⟩
    · simp only [List.mem_cons] at h
      rcases h with rfl | h
      · exact ⟨x, List.mem_cons_self ..⟩
      · obtain ⟨y, hy⟩ := mem_maskKvs r p h
        exact ⟨y, List.mem_cons_of_mem _ hy⟩

theorem allGt_maskKvs {S : List PSeg → Bool} {k : String} {kvs : List (String × Node)} (h : AMap.AllGt k kvs) :
    AMap.AllGt k (maskKvs S kvs) := by
  intro p hp
  obtain ⟨x, hx⟩ := mem_maskKvs kvs p hp
  exact h (p.1, x) hx

theorem AMap.insert_ne_nil {α : Type} (m : AMap α) (k : String) (a : α) : AMap.insert m k a ≠ [] := by
  cases m with
  | nil => simp [AMap.insert]
  | cons q m =>
    obtain ⟨k', v'⟩ := q
    simp only [AMap.insert]
    split
    · simp
    · split <;> simp

theorem padTo_cons (a : Node) (xs : List Node) (n : Nat) : padTo (a :: xs) (n + 1) = a :: padTo xs n := by
  simp [padTo]

theorem padTo_nil_succ (n : Nat) : padTo [] (n + 1) = Node.null :: padTo [] n := by
  simp [padTo, List.replicate_succ]

theorem setN_null (r : List PSeg) (v : Node) : setN (some Node.null) r v = setN none r v := by
  cases r with
  | nil => simp [setN]
  | cons s r => cases s <;> simp [setN, listOf, contOf, Node.null]

theorem padTo_zero (xs : List Node) : padTo xs 0 = xs := by simp [padTo]

/-- head of a masked list: absent, null pad, or the masked item -/
def consOpt : Option Node → List Node → List Node
  | none, [] => []
  | none, y :: ys => Node.null :: y :: ys
  | some z, ys => z :: ys

theorem maskList_cons (S : List PSeg → Bool) (x : Node) (xs : List Node) (i : Nat) :
    maskList S (x :: xs) i = consOpt (maskNode (rs S (.idx i)) x) (maskList S xs (i + 1)) := by
  simp only [maskList]
  cases maskNode (rs S (.idx i)) x with
  | none => cases maskList S xs (i + 1) <;> rfl
  | some z => rfl

theorem consOpt_pad (m : Option Node) (R : List Node) (n : Nat) :
    padTo (consOpt m R) (n + 1) = m.getD Node.null :: padTo R n := by
  cases m with
  | none =>
    cases R with
    | nil => simp [consOpt, padTo_nil_succ]
    | cons y ys => simp [consOpt, padTo_cons]
  | some z => simp [consOpt, padTo_cons]

theorem consOpt_ne_nil (m : Option Node) {R : List Node} (h : R ≠ []) : consOpt m R = m.getD Node.null :: R := by
  cases m with
  | none =>
    cases R with
    | nil => exact absurd rfl h
    | cons y ys => rfl
  | some z => rfl

theorem setN_getD (m : Option Node) (r : List PSeg) (v : Node) :
    setN (some (m.getD Node.null)) r v = setN m r v := by
  cases m with
  | none => exact setN_null r v
  | some z => rfl

theorem padTo_succ_ne_nil (xs : List Node) (i : Nat) : padTo xs (i + 1) ≠ [] := by
  intro e
  have := lt_padTo_length xs i
  rw [e] at this
  simp at this

theorem optList_of_ne_nil {ys : List Node} (h : ys ≠ []) : optList ys = some (.list ys) := by
  cases ys with
  | nil => exact absurd rfl h
  | cons y ys => rfl

theorem optCont_of_ne_nil {ys : AMap Node} (h : ys ≠ []) : optCont ys = some (.cont ys) := by
  cases ys with
  | nil => exact absurd rfl h
  | cons y ys => rfl

/-! (ii) ONE insertion: writing the leaf `v` of `n` at its path `p` into `mask S n` gives `mask (S ∪ {p}) n` -/
mutual
theorem maskNode_step : ∀ (n : Node) (S : List PSeg → Bool) (p : List PSeg) (v : Scalar), n.WF → (p, v) ∈ sp n →
    maskNode (addP S p) n = some (setN (maskNode S n) p (.leaf v))
  | .leaf w, S, p, v, _, h => by
    simp only [sp, List.mem_singleton, Prod.mk.injEq] at h
    obtain ⟨rfl, rfl⟩ := h
    simp [maskNode, addP, setN]
  | .list xs, S, p, v, hw, h => by
    simp only [sp] at h
    obtain ⟨i, r, rfl, he⟩ := maskList_step xs 0 S p v (fun x hx => hw.of_list_mem hx) h
    rw [maskNode_list, he, maskNode_list]
    simp only [Nat.zero_add, setN, listOf_optList]
    apply optList_of_ne_nil
    intro e
    exact padTo_succ_ne_nil _ i ((List.set_eq_nil_iff _ _).mp e)
  | .cont kvs, S, p, v, hw, h => by
    simp only [sp] at h
    have hall : ∀ q ∈ kvs, q.2.WF := by
      cases hw with
      | cont _ hall => exact hall
    obtain ⟨k, r, rfl, _, he⟩ := maskKvs_step kvs S p v hw.sorted hall h
    rw [maskNode_cont, he, maskNode_cont]
    simp only [setN, contOf_optCont]
    exact optCont_of_ne_nil (AMap.insert_ne_nil _ _ _)
theorem maskList_step : ∀ (xs : List Node) (o : Nat) (S : List PSeg → Bool) (p : List PSeg) (v : Scalar),
    (∀ x ∈ xs, x.WF) → (p, v) ∈ spList xs o →
    ∃ i r, p = PSeg.idx (o + i) :: r ∧
      maskList (addP S p) xs o =
        (padTo (maskList S xs o) (i + 1)).set i (setN (padTo (maskList S xs o) (i + 1))[i]? r (.leaf v))
  | [], _, _, _, _, _, h => by simp [spList] at h
  | x :: xs, o, S, p, v, hw, h => by
    simp only [spList, List.mem_append, List.mem_map] at h
    rcases h with ⟨q, hq, he⟩ | h
    · obtain ⟨rfl, rfl⟩ := Prod.mk.inj he
      refine ⟨0, q.1, rfl, ?_⟩
      have ih := maskNode_step x (rs S (.idx o)) q.1 q.2 (hw x (List.mem_cons_self ..)) hq
      have htail : maskList (addP S (.idx o :: q.1)) xs (o + 1) = maskList S xs (o + 1) :=
        maskList_congr xs (o + 1) (fun j hj => rs_addP_other S q.1 (fun e => by
          have := PSeg.idx.inj e; omega))
      rw [maskList_cons, maskList_cons, rs_addP_same, ih, htail, consOpt_pad]
      simp only [consOpt, List.set_cons_zero, List.getElem?_cons_zero, padTo_zero, setN_getD]
    · obtain ⟨i, r, rfl, he⟩ := maskList_step xs (o + 1) S p v (fun y hy => hw y (List.mem_cons_of_mem _ hy)) h
      refine ⟨i + 1, r, by rw [show o + (i + 1) = o + 1 + i by omega], ?_⟩
      have hhead : rs (addP S (.idx (o + 1 + i) :: r)) (.idx o) = rs S (.idx o) :=
        rs_addP_other S r (fun e => by have := PSeg.idx.inj e; omega)
      rw [maskList_cons, maskList_cons, hhead, he, consOpt_pad]
      rw [consOpt_ne_nil _ (fun e => padTo_succ_ne_nil _ i ((List.set_eq_nil_iff _ _).mp e))]
      simp only [List.set_cons_succ, List.getElem?_cons_succ]
theorem maskKvs_step : ∀ (kvs : List (String × Node)) (S : List PSeg → Bool) (p : List PSeg) (v : Scalar),
    AMap.Sorted kvs → (∀ q ∈ kvs, q.2.WF) → (p, v) ∈ spKvs kvs →
    ∃ k r, p = PSeg.key k :: r ∧ (∃ x, (k, x) ∈ kvs) ∧
      maskKvs (addP S p) kvs =
        AMap.insert (maskKvs S kvs) k (setN (AMap.get? (maskKvs S kvs) k) r (.leaf v))
  | [], _, _, _, _, _, h => by simp [spKvs] at h
  | (k0, x0) :: rest, S, p, v, hs, hw, h => by
    simp only [spKvs, List.mem_append, List.mem_map] at h
    rcases h with ⟨q, hq, he⟩ | h
    · obtain ⟨rfl, rfl⟩ := Prod.mk.inj he
      refine ⟨k0, q.1, rfl, ⟨x0, List.mem_cons_self ..⟩, ?_⟩
      have ih := maskNode_step x0 (rs S (.key k0)) q.1 q.2 (hw _ (List.mem_cons_self ..)) hq
      have htail : maskKvs (addP S (.key k0 :: q.1)) rest = maskKvs S rest :=
        maskKvs_congr rest (fun e he => rs_addP_other S q.1 (fun e' =>
          String.ne_of_lt (hs.head_lt e he) (PSeg.key.inj e').symm))
      have hgt : AMap.AllGt k0 (maskKvs S rest) := allGt_maskKvs hs.head_lt
      simp only [maskKvs, rs_addP_same, ih, htail]
      cases hm : maskNode (rs S (.key k0)) x0 with
      | none =>
        simp only []
        rw [AMap.get?_of_allGt hgt, AMap.insert_of_allGt _ hgt]
      | some z => simp [AMap.insert, AMap.get?, String.lt_irrefl]
    · obtain ⟨k, r, rfl, ⟨x, hx⟩, he⟩ :=
        maskKvs_step rest S p v hs.tail (fun q hq => hw q (List.mem_cons_of_mem _ hq)) h
      have hlt : k0 < k := hs.head_lt (k, x) hx
      have hne : k0 ≠ k := String.ne_of_lt hlt
      refine ⟨k, r, rfl, ⟨x, List.mem_cons_of_mem _ hx⟩, ?_⟩
      have hhead : rs (addP S (.key k :: r)) (.key k0) = rs S (.key k0) :=
        rs_addP_other S r (fun e => hne (PSeg.key.inj e))
      simp only [maskKvs, hhead, he]
      cases hm : maskNode (rs S (.key k0)) x0 with
      | none => rfl
      | some z =>
        simp only [AMap.insert, AMap.get?]
        rw [if_neg (String.lt_asymm hlt), if_neg (Ne.symm hne), if_neg (Ne.symm hne)]
end

/-! ### (iii) the full mask has the flattened view of the document -/

/-- the document-level hypothesis of `rebuild_perm` -/
def ItemsHaveScalars (d : AMap Node) : Prop := (Node.cont d).ItemsHaveScalars

def flattenOpt : Option Node → String → List (String × Scalar)
  | none, _ => []
  | some n, p => flattenNode n p

theorem flattenOpt_optList (ys : List Node) (p : String) : flattenOpt (optList ys) p = flattenList ys p 0 := by
  cases ys <;> simp [optList, flattenOpt, flattenNode, flattenList]

theorem flattenOpt_optCont (ys : AMap Node) (p : String) : flattenOpt (optCont ys) p = flattenKvs ys p := by
  cases ys <;> simp [optCont, flattenOpt, flattenNode, flattenKvs]

mutual
theorem flatten_maskNode : ∀ (n : Node) (S : List PSeg → Bool) (p : String), n.ItemsHaveScalars →
    (∀ q ∈ sp n, S q.1 = true) → flattenOpt (maskNode S n) p = flattenNode n p
  | .leaf v, S, p, _, h => by
    have : S [] = true := h ([], v) (by simp [sp])
    simp [maskNode, this, flattenOpt]
  | .list xs, S, p, hi, h => by
    rw [maskNode_list, flattenOpt_optList]
    simp only [flattenNode]
    cases hi with
    | list hc hi => exact flatten_maskList xs 0 S p (fun x hx => ⟨hc x hx, hi x hx⟩) (by simpa [sp] using h)
  | .cont kvs, S, p, hi, h => by
    rw [maskNode_cont, flattenOpt_optCont]
    simp only [flattenNode]
    cases hi with
    | cont hi => exact flatten_maskKvs kvs S p hi (by simpa [sp] using h)
theorem flatten_maskList : ∀ (xs : List Node) (o : Nat) (S : List PSeg → Bool) (p : String),
    (∀ x ∈ xs, 0 < Node.scalarCount x ∧ x.ItemsHaveScalars) → (∀ q ∈ spList xs o, S q.1 = true) →
    flattenList (maskList S xs o) p o = flattenList xs p o
  | [], _, _, _, _, _ => by simp [maskList]
  | x :: xs, o, S, p, hi, h => by
    have h1 := flatten_maskNode x (rs S (.idx o)) (toListPath p o) (hi x (List.mem_cons_self ..)).2 (by
      intro q hq
      exact h (PSeg.idx o :: q.1, q.2) (by
        simp only [spList, List.mem_append, List.mem_map]
        exact Or.inl ⟨q, hq, rfl⟩))
    have h2 := flatten_maskList xs (o + 1) S p (fun y hy => hi y (List.mem_cons_of_mem _ hy)) (by
      intro q hq
      exact h q (by
        simp only [spList, List.mem_append]
        exact Or.inr hq))
    rw [maskList_cons]
    cases hm : maskNode (rs S (.idx o)) x with
    | none =>
      rw [hm] at h1
      have hlen := flattenNode_length x (toListPath p o)
      rw [← h1] at hlen
      have := (hi x (List.mem_cons_self ..)).1
      simp [flattenOpt] at hlen
      omega
    | some z =>
      rw [hm] at h1
      simp only [consOpt, flattenList]
      rw [h2]
      simp only [flattenOpt] at h1
      rw [h1]
theorem flatten_maskKvs : ∀ (kvs : List (String × Node)) (S : List PSeg → Bool) (p : String),
    (∀ q ∈ kvs, q.2.ItemsHaveScalars) → (∀ q ∈ spKvs kvs, S q.1 = true) →
    flattenKvs (maskKvs S kvs) p = flattenKvs kvs p
  | [], _, _, _, _ => by simp [maskKvs]
  | (k, x) :: r, S, p, hi, h => by
    have h1 := flatten_maskNode x (rs S (.key k)) (toPath p k) (hi (k, x) (List.mem_cons_self ..)) (by
      intro q hq
      exact h (PSeg.key k :: q.1, q.2) (by
        simp only [spKvs, List.mem_append, List.mem_map]
        exact Or.inl ⟨q, hq, rfl⟩))
    have h2 := flatten_maskKvs r S p (fun y hy => hi y (List.mem_cons_of_mem _ hy)) (by
      intro q hq
      exact h q (by
        simp only [spKvs, List.mem_append]
        exact Or.inr hq))
    simp only [maskKvs, flattenKvs]
    cases hm : maskNode (rs S (.key k)) x with
    | none =>
      rw [hm] at h1
      simp only [flattenOpt] at h1
      simp only [← h1, List.nil_append]
      exact h2
    | some z =>
      rw [hm] at h1
      simp only [flattenOpt] at h1
      simp only [flattenKvs, h1, h2]
end

/-! ### 5. the fold -/

/-- the flattened entry of a structured leaf path -/
def pairOf (q : List Comp × Scalar) : String × Scalar := (renderFrom "" q.1, q.2)

theorem flatten_pairOf (d : AMap Node) : flatten d = (lpKvs d).map pairOf := flatten_lp d

/-- `S ∪ {steps q | q ∈ τ}` -/
def addPs (S : List PSeg → Bool) (τ : List (List Comp × Scalar)) : List PSeg → Bool :=
  τ.foldl (fun S q => addP S (steps q.1)) S

theorem addPs_mono : ∀ (τ : List (List Comp × Scalar)) (S : List PSeg → Bool) (st : List PSeg),
    S st = true → addPs S τ st = true
  | [], _, _, h => h
  | q :: τ, S, st, h => by
    simp only [addPs, List.foldl_cons]
    exact addPs_mono τ _ st (by simp [addP, h])

theorem addPs_mem : ∀ (τ : List (List Comp × Scalar)) (S : List PSeg → Bool) (q : List Comp × Scalar),
    q ∈ τ → addPs S τ (steps q.1) = true
  | [], _, _, h => by cases h
  | q0 :: τ, S, q, h => by
    simp only [addPs, List.foldl_cons]
    simp only [List.mem_cons] at h
    rcases h with rfl | h
    · exact addPs_mono τ _ _ (by simp [addP])
    · exact addPs_mem τ _ q h

/-- ONE insertion at document level -/
theorem addValueAt_mask (d : AMap Node) (hv : (Node.cont d).Valid) (hs : (Node.cont d).SafeKeys)
    (S : List PSeg → Bool) (q : List Comp × Scalar) (hq : q ∈ lpKvs d) :
    addValueAt (maskKvs S d) (renderFrom "" q.1) (.leaf q.2) = maskKvs (addP S (steps q.1)) d := by
  obtain ⟨hsafe, _, hne⟩ := lpKvs_spec d d hv hs (fun p hp => hp) q hq
  have hall : ∀ x ∈ d, x.2.WF := by
    cases hv.1 with
    | cont _ hall => exact hall
  obtain ⟨k, r, hk, _, he⟩ := maskKvs_step d S (steps q.1) q.2 hv.sorted hall (mem_spKvs_of_lpKvs hq)
  cases hq1 : q.1 with
  | nil => exact absurd hq1 hne
  | cons c cs =>
    rw [hq1] at hsafe hk he
    have h1 := addAtSegs_setN (c :: cs) (maskKvs S d) (.leaf q.2) (by simp) hsafe
    rw [hk] at h1
    simp only [setN, contOf_some_cont] at h1
    rw [he]
    unfold addValueAt
    rw [splitPath_renderFrom c cs hsafe]
    exact Node.cont.inj h1

theorem fold_mask (d : AMap Node) (hv : (Node.cont d).Valid) (hs : (Node.cont d).SafeKeys) :
    ∀ (τ : List (List Comp × Scalar)) (S : List PSeg → Bool), (∀ q ∈ τ, q ∈ lpKvs d) →
      (τ.map pairOf).foldl (fun d p => addValueAt d p.1 (.leaf p.2)) (maskKvs S d) = maskKvs (addPs S τ) d
  | [], _, _ => rfl
  | q :: τ, S, h => by
    simp only [List.map_cons, List.foldl_cons, pairOf, addPs]
    rw [addValueAt_mask d hv hs S q (h q (List.mem_cons_self ..))]
    exact fold_mask d hv hs τ _ (fun x hx => h x (List.mem_cons_of_mem _ hx))

theorem exists_map_of_subset {α β : Type} (f : α → β) (l : List α) : ∀ (σ : List β), (∀ x ∈ σ, x ∈ l.map f) →
    ∃ τ : List α, σ = τ.map f ∧ ∀ q ∈ τ, q ∈ l
  | [], _ => ⟨[], rfl, by intro q hq; cases hq⟩
  | x :: σ, h => by
    obtain ⟨τ, hτ, hmem⟩ := exists_map_of_subset f l σ (fun y hy => h y (List.mem_cons_of_mem _ hy))
    obtain ⟨a, ha, hfa⟩ := List.mem_map.mp (h x (List.mem_cons_self ..))
    refine ⟨a :: τ, by simp [hfa, hτ], ?_⟩
    intro q hq
    simp only [List.mem_cons] at hq
    rcases hq with rfl | hq
    · exact ha
    · exact hmem q hq

theorem parse_compNames (l : List Comp) (hl : ∀ x ∈ l, SafeKey x.1) :
    (l.map (fun x => String.ofList (compStr x))).map parseSeg = l := by
  rw [List.map_map]
  conv => rhs; rw [← List.map_id l]
  apply List.map_congr_left
  intro x hx
  simp [parseSeg_compStr (hl x hx)]

/-- rendering is injective on path-safe component lists -/
theorem renderFrom_inj {a b : List Comp} (ha : a ≠ []) (hb : b ≠ []) (hsa : ∀ x ∈ a, SafeKey x.1)
    (hsb : ∀ x ∈ b, SafeKey x.1) (h : renderFrom "" a = renderFrom "" b) : a = b := by
  cases a with
  | nil => exact absurd rfl ha
  | cons c cs =>
    cases b with
    | nil => exact absurd rfl hb
    | cons e es =>
      have h2 := congrArg splitPath h
      rw [splitPath_renderFrom c cs hsa, splitPath_renderFrom e es hsb] at h2
      have h3 := congrArg (List.map parseSeg) h2
      rw [parse_compNames _ hsa, parse_compNames _ hsb] at h3
      exact h3

/-- for any list of pairs that covers the flattened view (any order, duplicates allowed) the rebuilt
    document is the mask of `d` by a set holding all leaf paths of `d` -/
theorem rebuild_eq_mask (d : AMap Node) (hv : (Node.cont d).Valid) (hs : (Node.cont d).SafeKeys)
    (σ : List (String × Scalar)) (h1 : ∀ x ∈ σ, x ∈ flatten d) (h2 : ∀ x ∈ flatten d, x ∈ σ) :
    ∃ S : List PSeg → Bool, (∀ s ∈ spKvs d, S s.1 = true) ∧ rebuild σ = maskKvs S d := by
  rw [flatten_pairOf] at h1 h2
  obtain ⟨τ, rfl, hτ⟩ := exists_map_of_subset pairOf (lpKvs d) σ h1
  have hfold := fold_mask d hv hs τ (fun _ => false) hτ
  rw [maskKvs_empty] at hfold
  refine ⟨addPs (fun _ => false) τ, ?_, hfold⟩
  intro s hsm
  obtain ⟨q, hq, hst, _⟩ := mem_lpKvs_of_spKvs hsm
  obtain ⟨q', hq', he⟩ := List.mem_map.mp (h2 (pairOf q) (List.mem_map.mpr ⟨q, hq, rfl⟩))
  obtain ⟨hsafe, _, hne⟩ := lpKvs_spec d d hv hs (fun p hp => hp) q hq
  obtain ⟨hsafe', _, hne'⟩ := lpKvs_spec d d hv hs (fun p hp => hp) q' (hτ q' hq')
  have hpath : q'.1 = q.1 := renderFrom_inj hne' hne hsafe' hsafe (Prod.mk.inj he).1
  rw [← hst, ← hpath]
  exact addPs_mem τ _ q' hq'

/-- the rebuild theorem for any list of pairs that covers the flattened view (duplicates allowed) -/
theorem rebuild_cover (d : AMap Node) (hv : (Node.cont d).Valid) (hs : (Node.cont d).SafeKeys)
    (hi : ItemsHaveScalars d) (σ : List (String × Scalar))
    (h1 : ∀ x ∈ σ, x ∈ flatten d) (h2 : ∀ x ∈ flatten d, x ∈ σ) : flatten (rebuild σ) = flatten d := by
  obtain ⟨S, hS, he⟩ := rebuild_eq_mask d hv hs σ h1 h2
  rw [he]
  have hall : ∀ q ∈ d, q.2.ItemsHaveScalars := by
    cases hi with
    | cont hall => exact hall
  exact flatten_maskKvs d S "" hall hS

/-! ### documents without empty composites are rebuilt exactly -/

/-- no empty list and no empty container at or below the node -/
inductive Node.NoEmpty : Node → Prop
  | leaf (v : Scalar) : Node.NoEmpty (.leaf v)
  | list {xs : List Node} : xs ≠ [] → (∀ x ∈ xs, Node.NoEmpty x) → Node.NoEmpty (.list xs)
  | cont {kvs : List (String × Node)} : kvs ≠ [] → (∀ p ∈ kvs, Node.NoEmpty p.2) → Node.NoEmpty (.cont kvs)

mutual
theorem maskNode_full : ∀ (n : Node) (S : List PSeg → Bool), n.NoEmpty → (∀ q ∈ sp n, S q.1 = true) →
    maskNode S n = some n
  | .leaf v, S, _, h => by
    have : S [] = true := h ([], v) (by simp [sp])
    simp [maskNode, this]
  | .list xs, S, hn, h => by
    cases hn with
    | list hne hall =>
      rw [maskNode_list, maskList_full xs 0 S hall (by simpa [sp] using h)]
      exact optList_of_ne_nil hne
  | .cont kvs, S, hn, h => by
    cases hn with
    | cont hne hall =>
      rw [maskNode_cont, maskKvs_full kvs S hall (by simpa [sp] using h)]
      exact optCont_of_ne_nil hne
theorem maskList_full : ∀ (xs : List Node) (o : Nat) (S : List PSeg → Bool), (∀ x ∈ xs, x.NoEmpty) →
    (∀ q ∈ spList xs o, S q.1 = true) → maskList S xs o = xs
  | [], _, _, _, _ => by simp [maskList]
  | x :: xs, o, S, hn, h => by
    have h1 := maskNode_full x (rs S (.idx o)) (hn x (List.mem_cons_self ..)) (by
      intro q hq
      exact h (PSeg.idx o :: q.1, q.2) (by
        simp only [spList, List.mem_append, List.mem_map]
        exact Or.inl ⟨q, hq, rfl⟩))
    have h2 := maskList_full xs (o + 1) S (fun y hy => hn y (List.mem_cons_of_mem _ hy)) (by
      intro q hq
      exact h q (by
        simp only [spList, List.mem_append]
        exact Or.inr hq))
    rw [maskList_cons, h1, h2]
    rfl
theorem maskKvs_full : ∀ (kvs : List (String × Node)) (S : List PSeg → Bool), (∀ p ∈ kvs, p.2.NoEmpty) →
    (∀ q ∈ spKvs kvs, S q.1 = true) → maskKvs S kvs = kvs
  | [], _, _, _ => by simp [maskKvs]
  | (k, x) :: r, S, hn, h => by
    have h1 := maskNode_full x (rs S (.key k)) (hn (k, x) (List.mem_cons_self ..)) (by
      intro q hq
      exact h (PSeg.key k :: q.1, q.2) (by
        simp only [spKvs, List.mem_append, List.mem_map]
        exact Or.inl ⟨q, hq, rfl⟩))
    have h2 := maskKvs_full r S (fun y hy => hn y (List.mem_cons_of_mem _ hy)) (by
      intro q hq
      exact h q (by
        simp only [spKvs, List.mem_append]
        exact Or.inr hq))
    simp only [maskKvs, h1, h2]
end

/-- a document whose composites below the root are all non-empty is rebuilt EXACTLY -/
theorem rebuild_exact (d : AMap Node) (hv : (Node.cont d).Valid) (hs : (Node.cont d).SafeKeys)
    (hn : ∀ p ∈ d, p.2.NoEmpty) (σ : List (String × Scalar))
    (h1 : ∀ x ∈ σ, x ∈ flatten d) (h2 : ∀ x ∈ flatten d, x ∈ σ) : rebuild σ = d := by
  obtain ⟨S, hS, he⟩ := rebuild_eq_mask d hv hs σ h1 h2
  rw [he]
  exact maskKvs_full d S hn hS

/-! ### the flattened Go map covers the flattened view -/

theorem mem_foldl_insert {α : Type} : ∀ (l : List (String × α)) (m : AMap α) (x : String × α),
    x ∈ l.foldl (fun m p => AMap.insert m p.1 p.2) m → x ∈ m ∨ x ∈ l
  | [], _, _, h => Or.inl h
  | p :: l, m, x, h => by
    simp only [List.foldl_cons] at h
    rcases mem_foldl_insert l _ x h with h | h
    · rcases AMap.mem_insert h with rfl | h
      · exact Or.inr (List.mem_cons_self ..)
      · exact Or.inl h
    · exact Or.inr (List.mem_cons_of_mem _ h)

theorem get?_foldl_insert_not_mem {α : Type} : ∀ (l : List (String × α)) (m : AMap α) (k : String),
    (∀ x ∈ l, x.1 ≠ k) → AMap.get? (l.foldl (fun m p => AMap.insert m p.1 p.2) m) k = AMap.get? m k
  | [], _, _, _ => rfl
  | p :: l, m, k, h => by
    simp only [List.foldl_cons]
    rw [get?_foldl_insert_not_mem l _ k (fun x hx => h x (List.mem_cons_of_mem _ hx))]
    exact AMap.get?_insert_ne _ _ (fun e => h p (List.mem_cons_self ..) e.symm)

theorem get?_foldl_insert_mem {α : Type} : ∀ (l : List (String × α)) (m : AMap α) (k : String) (v : α),
    (∀ x ∈ l, ∀ y ∈ l, x.1 = y.1 → x.2 = y.2) → (k, v) ∈ l →
    AMap.get? (l.foldl (fun m p => AMap.insert m p.1 p.2) m) k = some v
  | [], _, _, _, _, h => by cases h
  | p :: l, m, k, v, hf, h => by
    simp only [List.foldl_cons]
    have hf' : ∀ x ∈ l, ∀ y ∈ l, x.1 = y.1 → x.2 = y.2 :=
      fun x hx y hy => hf x (List.mem_cons_of_mem _ hx) y (List.mem_cons_of_mem _ hy)
    by_cases hk : ∃ x ∈ l, x.1 = k
    · obtain ⟨x, hx, hxk⟩ := hk
      have hv : x.2 = v := hf x (List.mem_cons_of_mem _ hx) (k, v) h hxk
      have : (k, v) ∈ l := by
        have e : x = (k, v) := Prod.ext hxk hv
        rw [← e]; exact hx
      exact get?_foldl_insert_mem l _ k v hf' this
    · have hnot : ∀ x ∈ l, x.1 ≠ k := fun x hx e => hk ⟨x, hx, e⟩
      rw [get?_foldl_insert_not_mem l _ k hnot]
      simp only [List.mem_cons] at h
      rcases h with rfl | h
      · exact AMap.get?_insert_self _ _ _
      · exact absurd rfl (hnot _ h)

theorem flatten_functional (d : AMap Node) (hv : (Node.cont d).Valid) (hs : (Node.cont d).SafeKeys) :
    ∀ x ∈ flatten d, ∀ y ∈ flatten d, x.1 = y.1 → x.2 = y.2 := by
  intro x hx y hy e
  have h1 := lookup_flatten_aux d hv hs x.1 x.2 hx
  have h2 := lookup_flatten_aux d hv hs y.1 y.2 hy
  rw [e, h2] at h1
  simpa using h1.symm

theorem mem_flattenMap_iff (d : AMap Node) (hv : (Node.cont d).Valid) (hs : (Node.cont d).SafeKeys)
    (x : String × Scalar) : x ∈ flattenMap d ↔ x ∈ flatten d := by
  unfold flattenMap AMap.ofList
  constructor
  · intro h
    rcases mem_foldl_insert _ _ x h with h | h
    · cases h
    · exact h
  · intro h
    exact AMap.mem_of_get? (get?_foldl_insert_mem _ [] x.1 x.2 (flatten_functional d hv hs) h)

/-- rebuilding from the flattened Go map (sorted by path — the order Properties mode uses) -/
theorem rebuild_flattenMap_exact (d : AMap Node) (hv : (Node.cont d).Valid) (hs : (Node.cont d).SafeKeys)
    (hn : ∀ p ∈ d, p.2.NoEmpty) : rebuild (flattenMap d) = d :=
  rebuild_exact d hv hs hn _ (fun x hx => (mem_flattenMap_iff d hv hs x).mp hx)
    (fun x hx => (mem_flattenMap_iff d hv hs x).mpr hx)

end Ytk
