/-
  YtkProofs.Fluent — lemmas about the ConfigHelper model (YtkModel/Fluent.lean).
-/
import YtkModel.Fluent
import YtkProofs.Merge
import YtkProofs.Codec
import YtkProofs.Heap

namespace Ytk.Fluent

variable {α Γ : Type}

/-- a successful Add is the merge of the accumulated document with the document's container -/
theorem add_of_toDom (vy : α → Option (List (String × Val))) (s : State) (d : Doc α) (c : AMap Node)
    (h : Doc.toDom? vy d = some c) : add vy s d = .ok (mergeC .meld s c) := by
  unfold Doc.toDom? at h
  unfold add
  cases hd : any2dom vy d with
  | ok c' => rw [hd] at h; cases h; rfl
  | err => rw [hd] at h; cases h
  | panic => rw [hd] at h; cases h

/-- a chain of successful Adds from any state -/
theorem run_adds (vy : α → Option (List (String × Val))) (fl : TplFuncs.Files Γ) :
    ∀ (ds : List (Doc α)) (cs : List (AMap Node)) (s : State),
      ds.map (Doc.toDom? vy) = cs.map some →
      run vy fl s (ds.map .add) = cs.foldl (mergeC .meld) s
  | [], [], _, _ => rfl
  | [], _ :: _, _, h => by cases h
  | _ :: _, [], _, h => by cases h
  | d :: ds, c :: cs, s, h => by
    simp only [List.map_cons, List.cons.injEq] at h
    have ha := add_of_toDom vy s d c h.1
    simp only [run, List.map_cons, List.foldl_cons, step, ha]
    exact run_adds vy fl ds cs _ h.2

/-- a call of Add / Load that panics leaves the helper as it was -/
theorem step_panic_keeps (vy : α → Option (List (String × Val))) (fl : TplFuncs.Files Γ) (s : State) (op : Op α)
    (hop : ∀ es, op ≠ .mutate es) (hp : (step vy fl s op).2 = true) : (step vy fl s op).1 = s := by
  cases op with
  | add d =>
    simp only [step] at hp ⊢
    cases h : add vy s d <;> simp_all
  | load f =>
    simp only [step] at hp ⊢
    cases h : load fl s f <;> simp_all
  | mutate es => exact absurd rfl (hop es)

open Ytk.Heap in
/-- the heap only grows along a chain of Adds -/
theorem addAllH_le (f : Nat) : ∀ (ds : List Addr) (h h' : Heap) (acc r : Addr),
    addAllH f h acc ds = some (h', r) → h ≤ h'
  | [], h, h', acc, r, hm => by
    simp only [addAllH, Option.some.injEq, Prod.mk.injEq] at hm
    rw [← hm.1]; exact Heap.le_refl h
  | d :: ds, h, h', acc, r, hm => by
    simp only [addAllH] at hm
    split at hm
    · rename_i h1 r1 hm1
      exact Heap.le_trans (mergeContainersF_le hm1) (addAllH_le f ds h1 h' r1 r hm)
    · cases hm

/-- Result of the helper after `Add(m)` on a new helper, codec contract as hypothesis -/
theorem result_add_map (vy : α → Option (List (String × Val)))
    (rt : List (String × Val) → Option (List (String × Val))) (hrt : ∀ v, rt v = some v)
    (m : List (String × Val)) (hw : (Val.obj m).WF) (hn : Val.noIdxKeys (.obj m) = true) :
    (add vy init (.map m)).bind (result rt) = .ok m := by
  have hv : (Node.cont (fromMap m)).Valid := by
    have := decodeNode_valid (.obj m)
    simpa [decodeNode, fromMap] using this
  have hm : mergeC .meld init (fromMap m) = fromMap m := mergeKvs_nil_left .meld hv.1.sorted
  have hrtm : asMap (fromMap m) = m := by
    have := encode_decode_aux (.obj m) hw hn
    simpa [decodeNode, encodeNode, asMap, fromMap] using this
  simp only [add, any2dom, Outcome.bind, result, hm, hrtm, hrt]

end Ytk.Fluent
