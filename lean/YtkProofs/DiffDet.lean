/- Determinism of Diff: for constructible documents over path-safe keys every map iteration
   order yields the same per-path sub-sequences, hence the same stable sort.
   String-level part: every path emitted for the position `b` is `b` followed by nothing, '.' or '[',
   and two different safe keys under one prefix have no such path in common. -/
import YtkModel.Diff
import YtkProofs.DiffSort
import YtkProofs.DiffRel
import YtkProofs.Diff
import YtkProofs.DiffSpec
namespace Ytk

def DelimHead (r : List Char) : Prop := r = [] ∨ ∃ t, r = '.' :: t ∨ r = '[' :: t
def Under (b s : String) : Prop := ∃ r, s.toList = b.toList ++ r ∧ DelimHead r
/-- path-safe key: non-empty, no path delimiter -/
def SafeKeyD (k : String) : Prop := k ≠ "" ∧ ∀ c ∈ k.toList, c ≠ '.' ∧ c ≠ '['

theorem Under.refl (b : String) : Under b b := ⟨[], by simp, Or.inl rfl⟩

theorem Under.trans {a b c : String} (h1 : Under a b) (h2 : Under b c) : Under a c := by
  obtain ⟨r1, e1, d1⟩ := h1
  obtain ⟨r2, e2, d2⟩ := h2
  refine ⟨r1 ++ r2, by rw [e2, e1, List.append_assoc], ?_⟩
  rcases d1 with rfl | ⟨t, rfl | rfl⟩
  · simpa using d2
  · exact Or.inr ⟨t ++ r2, Or.inl rfl⟩
  · exact Or.inr ⟨t ++ r2, Or.inr rfl⟩

theorem under_toListPath (p : String) (i : Nat) : Under p (toListPath p i) :=
  ⟨'[' :: ((toString i).toList ++ [']']), by simp [toListPath, String.toList_append], Or.inr ⟨_, Or.inr rfl⟩⟩

theorem under_toPath {p : String} (k : String) (hp : p ≠ "") : Under p (toPath p k) :=
  ⟨'.' :: k.toList, by simp [toPath, hp, String.toList_append], Or.inr ⟨_, Or.inl rfl⟩⟩

theorem toListPath_ne_empty (p : String) (i : Nat) : toListPath p i ≠ "" := by
  intro h
  have := congrArg String.toList h
  simp [toListPath, String.toList_append] at this

theorem toPath_ne_empty {p k : String} (hk : k ≠ "") : toPath p k ≠ "" := by
  intro h
  have := congrArg String.toList h
  by_cases hp : p = ""
  · simp [toPath, hp] at this; exact hk (by simpa using this)
  · simp [toPath, hp, String.toList_append] at this

theorem key_eq_of_append {k k' r r' : List Char} (hk : ∀ c ∈ k, c ≠ '.' ∧ c ≠ '[') (hk' : ∀ c ∈ k', c ≠ '.' ∧ c ≠ '[')
    (hr : DelimHead r) (hr' : DelimHead r') (h : k ++ r = k' ++ r') : k = k' := by
  induction k generalizing k' with
  | nil =>
    cases k' with
    | nil => rfl
    | cons c t =>
      exfalso
      simp only [List.nil_append, List.cons_append] at h
      have hc := hk' c (List.mem_cons_self ..)
      rcases hr with rfl | ⟨t', rfl | rfl⟩
      · cases h
      · cases h; exact hc.1 rfl
      · cases h; exact hc.2 rfl
  | cons c t ih =>
    cases k' with
    | nil =>
      exfalso
      simp only [List.nil_append, List.cons_append] at h
      have hc := hk c (List.mem_cons_self ..)
      rcases hr' with rfl | ⟨t', rfl | rfl⟩
      · cases h
      · cases h; exact hc.1 rfl
      · cases h; exact hc.2 rfl
    | cons c' t' =>
      simp only [List.cons_append, List.cons.injEq] at h
      rw [h.1, ih (fun x hx => hk x (List.mem_cons_of_mem _ hx)) (fun x hx => hk' x (List.mem_cons_of_mem _ hx)) h.2]

/-- blocks of different safe keys under one prefix have disjoint paths -/
theorem key_eq_of_under {p k k' s : String} (hk : SafeKeyD k) (hk' : SafeKeyD k')
    (h1 : Under (toPath p k) s) (h2 : Under (toPath p k') s) : k = k' := by
  obtain ⟨r, e, d⟩ := h1
  obtain ⟨r', e', d'⟩ := h2
  rw [e] at e'
  have : k.toList = k'.toList := by
    by_cases hp : p = ""
    · simp only [toPath, hp, if_true] at e'
      exact key_eq_of_append hk.2 hk'.2 d d' e'
    · simp only [toPath, hp, if_false, String.toList_append, List.append_assoc] at e'
      have e'' := List.append_cancel_left (List.append_cancel_left e')
      exact key_eq_of_append hk.2 hk'.2 d d' e''
  exact String.toList_inj.mp this


/-! ## path-safe keys everywhere -/

mutual
def Node.SafeKeysD : Node → Prop
  | .leaf _ => True
  | .list xs => SafeKeysList xs
  | .cont kvs => SafeKeysKvs kvs
def SafeKeysList : List Node → Prop
  | [] => True
  | x :: xs => x.SafeKeysD ∧ SafeKeysList xs
def SafeKeysKvs : List (String × Node) → Prop
  | [] => True
  | (k, x) :: xs => SafeKeyD k ∧ x.SafeKeysD ∧ SafeKeysKvs xs
end

theorem SafeKeysKvs.mem : ∀ {xs : List (String × Node)}, SafeKeysKvs xs → ∀ e ∈ xs, SafeKeyD e.1 ∧ e.2.SafeKeysD
  | [], _, e, he => by cases he
  | (k, x) :: xs, h, e, he => by
    simp only [SafeKeysKvs] at h
    rcases List.mem_cons.mp he with rfl | he
    · exact ⟨h.1, h.2.1⟩
    · exact SafeKeysKvs.mem h.2.2 e he

theorem SafeKeysList.mem : ∀ {xs : List Node}, SafeKeysList xs → ∀ x ∈ xs, x.SafeKeysD
  | [], _, e, he => by cases he
  | y :: ys, h, e, he => by
    simp only [SafeKeysList] at h
    rcases List.mem_cons.mp he with rfl | he
    · exact h.1
    · exact SafeKeysList.mem h.2 e he

/-! ## every emitted path lies under the position it was emitted for -/

mutual
theorem flatNode_under : ∀ (n : Node) (b : String) (m : Mod), n.SafeKeysD → b ≠ "" → m ∈ flatNode n b → Under b m.path
  | .leaf v, b, m, _, _, h => by
    simp only [flatNode, List.mem_singleton] at h; subst h; exact Under.refl b
  | .list xs, b, m, hs, _, h => by
    simp only [flatNode] at h; simp only [Node.SafeKeysD] at hs
    exact flatList_under xs b 0 m hs h
  | .cont kvs, b, m, hs, hb, h => by
    simp only [flatNode] at h; simp only [Node.SafeKeysD] at hs
    obtain ⟨k, hu⟩ := flatKvs_under kvs b m hs h
    exact (under_toPath k hb).trans hu
theorem flatList_under : ∀ (xs : List Node) (b : String) (i : Nat) (m : Mod), SafeKeysList xs →
    m ∈ flatList xs b i → Under b m.path
  | [], _, _, _, _, h => by simp [flatList] at h
  | x :: xs, b, i, m, hs, h => by
    simp only [flatList, List.mem_append] at h; simp only [SafeKeysList] at hs
    rcases h with h | h
    · exact (under_toListPath b i).trans (flatNode_under x _ m hs.1 (toListPath_ne_empty b i) h)
    · exact flatList_under xs b (i + 1) m hs.2 h
theorem flatKvs_under : ∀ (xs : List (String × Node)) (b : String) (m : Mod), SafeKeysKvs xs →
    m ∈ flatKvs xs b → ∃ k, Under (toPath b k) m.path
  | [], _, _, _, h => by simp [flatKvs] at h
  | (k, x) :: xs, b, m, hs, h => by
    simp only [flatKvs, List.mem_append] at h; simp only [SafeKeysKvs] at hs
    rcases h with h | h
    · exact ⟨k, flatNode_under x _ m hs.2.1 (toPath_ne_empty hs.1.1) h⟩
    · exact flatKvs_under xs b m hs.2.2 h
end


/-- constructible and over path-safe keys -/
def Good (n : Node) : Prop := n.Valid ∧ n.SafeKeysD

theorem Good.of_cont_mem {kvs : List (String × Node)} (h : Good (.cont kvs)) {e : String × Node} (he : e ∈ kvs) :
    Good e.2 ∧ SafeKeyD e.1 ∧ hasIdxSuffix e.1 = false := by
  have h1 := h.1.of_cont_mem he
  have h2 := SafeKeysKvs.mem (by simpa [Node.SafeKeysD] using h.2) e he
  exact ⟨⟨h1.1, h2.2⟩, h2.1, h1.2⟩

theorem Good.of_list_mem {xs : List Node} (h : Good (.list xs)) {x : Node} (hx : x ∈ xs) : Good x :=
  ⟨h.1.of_list_mem hx, SafeKeysList.mem (by simpa [Node.SafeKeysD] using h.2) x hx⟩

theorem Good.of_get? {kvs : List (String × Node)} (h : Good (.cont kvs)) {k : String} {n : Node}
    (hg : AMap.get? kvs k = some n) : Good n := (h.of_cont_mem (AMap.mem_of_get? hg)).1

theorem emitNode_under_mismatch {x y : Node} {b : String} {m : Mod} (hk : x.kind ≠ y.kind) (hy : Good y)
    (hb : b ≠ "") (h : m ∈ emitNode x y b) : Under b m.path := by
  rw [emitNode_of_kind_ne _ hk] at h
  rcases List.mem_cons.mp h with rfl | h
  · exact Under.refl b
  · exact flatNode_under y b m hy.2 hb h

mutual
theorem emitNode_under : ∀ (x y : Node) (b : String) (m : Mod), Good x → Good y → b ≠ "" →
    m ∈ emitNode x y b → Under b m.path
  | .cont l, .cont r, b, m, hx, hy, hb, h => by
    simp only [emitNode, List.mem_append] at h
    rcases h with h | h
    · obtain ⟨k, hu⟩ := emitLeft_under l r b m (fun e he => hx.of_cont_mem he) hy h
      exact (under_toPath k hb).trans hu
    · obtain ⟨e, _, _, rfl⟩ := mem_emitRight.mp h
      exact under_toPath _ hb
  | .list xs, .list ys, b, m, hx, _, _, h => by
    simp only [emitNode] at h
    split at h
    · cases h
    · rcases List.mem_cons.mp h with rfl | h
      · exact Under.refl b
      · exact flatList_under xs b 0 m (by simpa [Node.SafeKeysD] using hx.2) h
  | .leaf a, .leaf c, b, m, _, _, _, h => by
    simp only [emitNode] at h
    split at h
    · cases h
    · rw [List.mem_singleton] at h; subst h; exact Under.refl b
  | .leaf _, .list _, _, _, _, hy, hb, h => emitNode_under_mismatch (by simp [Node.kind]) hy hb h
  | .leaf _, .cont _, _, _, _, hy, hb, h => emitNode_under_mismatch (by simp [Node.kind]) hy hb h
  | .list _, .leaf _, _, _, _, hy, hb, h => emitNode_under_mismatch (by simp [Node.kind]) hy hb h
  | .list _, .cont _, _, _, _, hy, hb, h => emitNode_under_mismatch (by simp [Node.kind]) hy hb h
  | .cont _, .leaf _, _, _, _, hy, hb, h => emitNode_under_mismatch (by simp [Node.kind]) hy hb h
  | .cont _, .list _, _, _, _, hy, hb, h => emitNode_under_mismatch (by simp [Node.kind]) hy hb h
theorem emitLeft_under : ∀ (xs : List (String × Node)) (r : AMap Node) (b : String) (m : Mod),
    (∀ e ∈ xs, Good e.2 ∧ SafeKeyD e.1 ∧ hasIdxSuffix e.1 = false) → Good (.cont r) →
    m ∈ emitLeft xs r b → ∃ k, Under (toPath b k) m.path
  | [], _, _, _, _, _, h => by simp [emitLeft] at h
  | (k, n) :: rest, r, b, m, hxs, hr, h => by
    have h0 := hxs (k, n) (List.mem_cons_self ..)
    simp only [emitLeft, List.mem_append, child_of_noSuffix r h0.2.2] at h
    rcases h with h | h
    · cases hg : AMap.get? r k with
      | none => rw [hg] at h; exact ⟨k, flatNode_under n _ m h0.1.2 (toPath_ne_empty h0.2.1.1) h⟩
      | some y =>
        rw [hg] at h
        exact ⟨k, emitNode_under n y _ m h0.1 (hr.of_get? hg) (toPath_ne_empty h0.2.1.1) h⟩
    · exact emitLeft_under rest r b m (fun e he => hxs e (List.mem_cons_of_mem _ he)) hr h
end

/-! ## blocks with disjoint path sets may be visited in any order -/

theorem flatMap_filter_perm {α : Type} (f : α → List Mod) (pr : Mod → Bool) {xs ys : List α} (h : xs.Perm ys)
    (hd : ∀ a ∈ xs, ∀ b ∈ xs, a ≠ b → (f a).filter pr = [] ∨ (f b).filter pr = []) :
    (xs.flatMap f).filter pr = (ys.flatMap f).filter pr := by
  induction h with
  | nil => rfl
  | cons a _ ih =>
    simp only [List.flatMap_cons, List.filter_append]
    rw [ih (fun x hx y hy => hd x (List.mem_cons_of_mem _ hx) y (List.mem_cons_of_mem _ hy))]
  | swap a b l =>
    simp only [List.flatMap_cons, List.filter_append, ← List.append_assoc]
    congr 1
    by_cases e : a = b
    · rw [e]
    · rcases hd b (List.mem_cons_self ..) a (List.mem_cons_of_mem _ (List.mem_cons_self ..)) (fun e' => e e'.symm) with h | h
        <;> simp [h]
  | trans h1 _ ih1 ih2 =>
    rw [ih1 hd]
    exact ih2 (fun x hx y hy => hd x (h1.mem_iff.mpr hx) y (h1.mem_iff.mpr hy))

theorem flatKvs_eq_flatMap (xs : List (String × Node)) (p : String) :
    flatKvs xs p = xs.flatMap (fun e => flatNode e.2 (toPath p e.1)) := by
  induction xs with
  | nil => rfl
  | cons e xs ih => obtain ⟨k, x⟩ := e; simp [flatKvs, ih]

def leftBlock (r : AMap Node) (p : String) (e : String × Node) : List Mod :=
  match child r e.1 with
  | some n2 => emitNode e.2 n2 (toPath p e.1)
  | none => flatNode e.2 (toPath p e.1)

theorem emitLeft_eq_flatMap (xs : List (String × Node)) (r : AMap Node) (p : String) :
    emitLeft xs r p = xs.flatMap (leftBlock r p) := by
  induction xs with
  | nil => rfl
  | cons e xs ih => obtain ⟨k, x⟩ := e; simp [emitLeft, leftBlock, ih]; cases child r k <;> rfl

def rightBlock (l : AMap Node) (p : String) (e : String × Node) : List Mod :=
  match child l e.1 with
  | some _ => []
  | none => [Mod.mkDel (toPath p e.1)]

theorem emitRight_eq_flatMap (xs : List (String × Node)) (l : AMap Node) (p : String) :
    emitRight xs l p = xs.flatMap (rightBlock l p) := by
  induction xs with
  | nil => rfl
  | cons e xs ih => obtain ⟨k, x⟩ := e; simp [emitRight, rightBlock, ih]; cases child l k <;> rfl

/-- two entries of a sorted map with the same key are the same entry -/
theorem entry_eq_of_key_eq {kvs : List (String × Node)} (hs : AMap.Sorted kvs) {a b : String × Node}
    (ha : a ∈ kvs) (hb : b ∈ kvs) (h : a.1 = b.1) : a = b := by
  have h1 := AMap.get?_of_mem hs (show (a.1, a.2) ∈ kvs from ha)
  have h2 := AMap.get?_of_mem hs (show (b.1, b.2) ∈ kvs from hb)
  rw [h, h2] at h1
  exact Prod.ext h (Option.some.inj h1).symm

/-- the disjointness argument, once: blocks of a valid safe container whose paths lie under their keys -/
theorem blocks_disjoint {kvs : List (String × Node)} (hg : Good (.cont kvs)) (p q : String)
    (f : String × Node → List Mod)
    (hf : ∀ e ∈ kvs, ∀ m ∈ f e, Under (toPath p e.1) m.path) :
    ∀ a ∈ kvs, ∀ b ∈ kvs, a ≠ b →
      (f a).filter (fun m => m.path = q) = [] ∨ (f b).filter (fun m => m.path = q) = [] := by
  intro a ha b hb hne
  by_cases h1 : (f a).filter (fun m => m.path = q) = []
  · exact Or.inl h1
  · refine Or.inr ?_
    apply List.filter_eq_nil_iff.mpr
    intro m hm hmq
    obtain ⟨m', hm'⟩ := List.exists_mem_of_ne_nil _ h1
    have hm'2 := List.mem_filter.mp hm'
    have e1 : m'.path = q := by simpa using hm'2.2
    have e2 : m.path = q := by simpa using hmq
    have u1 := hf a ha m' hm'2.1
    have u2 := hf b hb m hm
    rw [e1] at u1; rw [e2] at u2
    have := key_eq_of_under (hg.of_cont_mem ha).2.1 (hg.of_cont_mem hb).2.1 u1 u2
    exact hne (entry_eq_of_key_eq hg.1.sorted ha hb this)


theorem leftBlock_under {l r : AMap Node} (hl : Good (.cont l)) (hr : Good (.cont r)) (p : String) :
    ∀ e ∈ l, ∀ m ∈ leftBlock r p e, Under (toPath p e.1) m.path := by
  intro e he m hm
  have h0 := hl.of_cont_mem he
  simp only [leftBlock, child_of_noSuffix r h0.2.2] at hm
  cases hg : AMap.get? r e.1 with
  | none => rw [hg] at hm; exact flatNode_under e.2 _ m h0.1.2 (toPath_ne_empty h0.2.1.1) hm
  | some y => rw [hg] at hm; exact emitNode_under e.2 y _ m h0.1 (hr.of_get? hg) (toPath_ne_empty h0.2.1.1) hm

theorem rightBlock_under (l : AMap Node) (p : String) (e : String × Node) :
    ∀ m ∈ rightBlock l p e, Under (toPath p e.1) m.path := by
  intro m hm
  simp only [rightBlock] at hm
  cases hc : child l e.1 with
  | some _ => rw [hc] at hm; cases hm
  | none => rw [hc] at hm; rw [List.mem_singleton] at hm; subst hm; exact Under.refl _

/-! ## every traversal order yields the same per-path sub-sequences -/

mutual
theorem flatRel_filter : ∀ {n : Node} {p : String} {ms : List Mod}, FlatRel n p ms → Good n → ∀ (q : String),
    ms.filter (fun m => m.path = q) = (flatNode n p).filter (fun m => m.path = q)
  | _, _, _, .leaf v p, _, q => by simp only [flatNode]
  | _, _, _, .list h, hg, q => by
    simp only [flatNode]; exact flatListRel_filter h (fun x hx => hg.of_list_mem hx) q
  | _, _, _, @FlatRel.cont kvs kvs' p ms hp h, hg, q => by
    simp only [flatNode]
    rw [flatKvsRel_filter h (fun e he => hg.of_cont_mem (hp.mem_iff.mp he)) q,
      flatKvs_eq_flatMap, flatKvs_eq_flatMap]
    apply flatMap_filter_perm _ _ hp
    intro a ha b hb hne
    exact blocks_disjoint hg p q _
      (fun e he m hm => flatNode_under e.2 _ m (hg.of_cont_mem he).1.2 (toPath_ne_empty (hg.of_cont_mem he).2.1.1) hm)
      a (hp.mem_iff.mp ha) b (hp.mem_iff.mp hb) hne
theorem flatListRel_filter : ∀ {xs : List Node} {p : String} {i : Nat} {ms : List Mod},
    FlatListRel xs p i ms → (∀ x ∈ xs, Good x) → ∀ (q : String),
    ms.filter (fun m => m.path = q) = (flatList xs p i).filter (fun m => m.path = q)
  | _, _, _, _, .nil p i, _, q => by simp only [flatList]
  | _, _, _, _, .cons h1 h2, hg, q => by
    simp only [flatList, List.filter_append]
    rw [flatRel_filter h1 (hg _ (List.mem_cons_self ..)) q,
      flatListRel_filter h2 (fun x hx => hg x (List.mem_cons_of_mem _ hx)) q]
theorem flatKvsRel_filter : ∀ {xs : List (String × Node)} {p : String} {ms : List Mod},
    FlatKvsRel xs p ms → (∀ e ∈ xs, Good e.2 ∧ SafeKeyD e.1 ∧ hasIdxSuffix e.1 = false) → ∀ (q : String),
    ms.filter (fun m => m.path = q) = (flatKvs xs p).filter (fun m => m.path = q)
  | _, _, _, .nil p, _, q => by simp only [flatKvs]
  | _, _, _, .cons h1 h2, hg, q => by
    simp only [flatKvs, List.filter_append]
    rw [flatRel_filter h1 (hg _ (List.mem_cons_self ..)).1 q,
      flatKvsRel_filter h2 (fun x hx => hg x (List.mem_cons_of_mem _ hx)) q]
end

mutual
theorem emitRel_filter : ∀ {x y : Node} {p : String} {ms : List Mod}, EmitRel x y p ms → Good x → Good y →
    ∀ (q : String), ms.filter (fun m => m.path = q) = (emitNode x y p).filter (fun m => m.path = q)
  | _, _, _, _, @EmitRel.cont l l' r r' p ms hl hr h, hx, hy, q => by
    simp only [emitNode, List.filter_append]
    rw [emitLeftRel_filter h (fun e he => hx.of_cont_mem (hl.mem_iff.mp he)) hy q]
    congr 1
    · rw [emitLeft_eq_flatMap, emitLeft_eq_flatMap]
      apply flatMap_filter_perm _ _ hl
      intro a ha b hb hne
      exact blocks_disjoint hx p q _ (leftBlock_under hx hy p) a (hl.mem_iff.mp ha) b (hl.mem_iff.mp hb) hne
    · rw [emitRight_eq_flatMap, emitRight_eq_flatMap]
      apply flatMap_filter_perm _ _ hr
      intro a ha b hb hne
      exact blocks_disjoint hy p q _ (fun e _ => rightBlock_under l p e) a (hr.mem_iff.mp ha) b (hr.mem_iff.mp hb) hne
  | _, _, _, _, .other h1 h2 h3 h, _, hy, q => by
    rw [emitNode_mismatch _ h1 h2 h3]
    simp only [List.filter_cons]
    rw [flatRel_filter h hy q]
  | _, _, _, _, .leaf a b p, _, _, q => rfl
  | _, _, _, _, .listEq p he, _, _, q => by simp [emitNode, he]
  | _, _, _, _, .listNe he h, hx, _, q => by
    simp only [emitNode, he, List.filter_cons]
    rw [flatRel_filter h hx q]
    simp [flatNode, List.filter_cons]
theorem emitLeftRel_filter : ∀ {xs : List (String × Node)} {r : AMap Node} {p : String} {ms : List Mod},
    EmitLeftRel xs r p ms → (∀ e ∈ xs, Good e.2 ∧ SafeKeyD e.1 ∧ hasIdxSuffix e.1 = false) → Good (.cont r) →
    ∀ (q : String), ms.filter (fun m => m.path = q) = (emitLeft xs r p).filter (fun m => m.path = q)
  | _, _, _, _, .nil r p, _, _, q => by simp only [emitLeft]
  | _, _, _, _, .both hc h1 h2, hxs, hr, q => by
    have h0 := hxs _ (List.mem_cons_self ..)
    simp only [emitLeft, hc, List.filter_append]
    rw [child_of_noSuffix _ h0.2.2] at hc
    rw [emitRel_filter h1 h0.1 (hr.of_get? hc) q,
      emitLeftRel_filter h2 (fun x hx => hxs x (List.mem_cons_of_mem _ hx)) hr q]
  | _, _, _, _, .leftOnly hc h1 h2, hxs, hr, q => by
    have h0 := hxs _ (List.mem_cons_self ..)
    simp only [emitLeft, hc, List.filter_append]
    rw [flatRel_filter h1 h0.1 q,
      emitLeftRel_filter h2 (fun x hx => hxs x (List.mem_cons_of_mem _ hx)) hr q]
end

/-- Determinism: every traversal order sorts to the same sequence. -/
theorem sortMods_emitRel {l r : AMap Node} (hl : Good (.cont l)) (hr : Good (.cont r)) {ms : List Mod}
    (h : EmitRel (.cont l) (.cont r) "" ms) : sortMods ms = diff l r :=
  sortMods_congr (emitRel_filter h hl hr)

end Ytk
