/-
  YtkProofs.FuncsDomAnalytics — the regenerated translation of the pure helpers of the analytics package
  (`subtract`, `possiblyContainsPlaceholder` of the resolvers; `containsAnyOf` of the document set is in FuncsDomDocSet.lean) in
  YtkModel/Generated/FuncsAnalytics.lean EQUALS the hand-written model (YtkModel/Analytics.lean, DocSet.lean),
  for all inputs.  Restated in YtkProps/C19.lean and C18.lean.
-/
import YtkModel.Generated.FuncsAnalytics
import YtkModel.Analytics
import YtkProofs.FuncsLemmas

set_option linter.unusedSimpArgs false

namespace Ytk.FuncsDomAnalytics
open Ytk Ytk.Generated

theorem subtract_loop_eq (what : List String) : ∀ (frm ret : List String),
    FuncsAnalytics.subtract_loop1 what frm ret = ret ++ Analytics.subtract frm what := by
  intro frm
  induction frm with
  | nil => intro ret; simp [FuncsAnalytics.subtract_loop1, Analytics.subtract]
  | cons i rest ih =>
    intro ret
    simp only [FuncsAnalytics.subtract_loop1, Go.slicesContains, ih, Analytics.subtract, List.filter_cons]
    by_cases h : i ∈ what <;> simp [h]

theorem subtract_generated_eq_model (frm what : List String) :
    FuncsAnalytics.subtract frm what = Analytics.subtract frm what := by
  simp [FuncsAnalytics.subtract, subtract_loop_eq]

/-! ## possiblyContainsPlaceholder -/

theorem isPrefixOf_eq : ∀ (a b : List Char), Analytics.isPrefixOf a b = a.isPrefixOf b
  | [], _ => by simp [Analytics.isPrefixOf]
  | _ :: _, [] => by simp [Analytics.isPrefixOf]
  | x :: xs, y :: ys => by simp [Analytics.isPrefixOf, isPrefixOf_eq xs ys, List.isPrefixOf]

/-- strings.Index against the model's `dropToSub`: no hit on both sides, or the same position -/
theorem index_dropToSub (sub : List Char) : ∀ (l : List Char) (n : Nat),
    (match Analytics.dropToSub sub l with
     | none => Go.stringsIndexC sub l n = -1
     | some rest => ∃ k, k ≤ l.length ∧ Go.stringsIndexC sub l n = ((n + k : Nat) : Int) ∧ rest = l.drop k)
  | [], n => by
    unfold Analytics.dropToSub Go.stringsIndexC
    by_cases h : sub.isEmpty = true
    · simp [h]
    · simp [h]
  | c :: cs, n => by
    unfold Analytics.dropToSub Go.stringsIndexC
    rw [isPrefixOf_eq]
    by_cases h : sub.isPrefixOf (c :: cs) = true
    · simp only [h, if_true]
      exact ⟨0, by simp, by simp, rfl⟩
    · simp only [h, Bool.false_eq_true, if_false]
      have ih := index_dropToSub sub cs (n + 1)
      cases hd : Analytics.dropToSub sub cs with
      | none => rw [hd] at ih; exact ih
      | some rest =>
        rw [hd] at ih
        obtain ⟨k, hk, he, hr⟩ := ih
        exact ⟨k + 1, by simp; omega, by rw [he]; congr 1; omega, by simpa using hr⟩

theorem containsSub_index (sub : List Char) : ∀ (l : List Char),
    Analytics.containsSub l sub = (Go.stringsIndexC sub l 0 != -1)
  | [] => by
    unfold Analytics.containsSub Go.stringsIndexC
    by_cases h : sub.isEmpty = true <;> simp [h]
  | c :: cs => by
    unfold Analytics.containsSub Go.stringsIndexC
    rw [isPrefixOf_eq]
    by_cases h : sub.isPrefixOf (c :: cs) = true
    · simp [h]
    · simp only [h, Bool.false_eq_true, if_false, Bool.false_or, containsSub_index sub cs]
      rw [Go.stringsIndexC_shift sub cs 1]
      rcases Go.stringsIndexC_ge sub cs 0 with h0 | h0
      · simp [h0]
      · have h1 : Go.stringsIndexC sub cs 0 ≠ -1 := by omega
        have h2 : Go.stringsIndexC sub cs 0 + 1 ≠ -1 := by omega
        have e1 : (Go.stringsIndexC sub cs 0 != -1) = true := by simp [h1]
        have e2 : (Go.stringsIndexC sub cs 0 + 1 != -1) = true := by simp [h2]
        simp [e1, e2]

theorem possiblyContainsPlaceholder_generated_eq_model (s : String) :
    FuncsAnalytics.possiblyContainsPlaceholder s = .ok (Analytics.possiblyContainsPlaceholder s) := by
  have h := index_dropToSub "${".toList s.toList 0
  simp only [FuncsAnalytics.possiblyContainsPlaceholder, Analytics.possiblyContainsPlaceholder, Go.stringsIndex]
  cases hd : Analytics.dropToSub "${".toList s.toList with
  | none =>
    rw [hd] at h
    dsimp only at h
    simp only [h]
    rfl
  | some rest =>
    rw [hd] at h
    obtain ⟨k, hk, he, hr⟩ := h
    have hne : ¬ ((((0 + k : Nat) : Int)) = -1) := by omega
    have hsl : Go.slice s ((0 + k : Nat) : Int) (Go.len s) = .ok (String.ofList (s.toList.drop k)) := by
      rw [Go.len_eq, Go.slice_nat s (0 + k) s.toList.length (by omega) (Nat.le_refl _)]
      simp only [Nat.zero_add]
      rw [List.take_of_length_le (by simp)]
    simp only [he, beq_iff_eq, hne, if_false, hsl, Go.Res.ok_bind, String.toList_ofList, hr,
      containsSub_index, Go.Res.pure_eq]

end Ytk.FuncsDomAnalytics
