/-
  YtkProofs.ResolverTerm — termination of the resolver model.

  * `terminates_of_finiteReach`: if the strings the resolver is called on satisfy an invariant
    under which every placeholder text met lies in ONE finite list `W`, every run ends
    (measure: (texts of `W` not on the stack, token count), lexicographic).
  * instance: tables whose values are all delimiter-balanced (`norm = id`) — every placeholder
    text ever met is the text of a placeholder already present in the input or in a table value
    (`allPhs`), because balanced pieces cannot glue into new placeholders.
-/
import YtkProofs.ResolverSem

namespace Ytk.Resolver

/-! ## the measure -/

/-- number of entries of `W` that are not on the stack -/
def remaining (W seen : List Toks) : Nat := (W.filter fun x => !seen.contains x).length

theorem filter_length_le {α : Type} (p q : α → Bool) (l : List α) (h : ∀ x, p x = true → q x = true) :
    (l.filter p).length ≤ (l.filter q).length := by
  induction l with
  | nil => simp
  | cons x l ih =>
    cases hp : p x <;> cases hq : q x
    · simpa [List.filter_cons, hp, hq] using ih
    · simp only [List.filter_cons, hp, hq, Bool.false_eq_true, ↓reduceIte, List.length_cons]; omega
    · rw [h x hp] at hq; cases hq
    · simpa [List.filter_cons, hp, hq] using ih

theorem filter_length_lt {α : Type} (p q : α → Bool) (l : List α) (h : ∀ x, p x = true → q x = true)
    {a : α} (ha : a ∈ l) (hqa : q a = true) (hpa : p a = false) :
    (l.filter p).length < (l.filter q).length := by
  induction l with
  | nil => cases ha
  | cons x l ih =>
    have hle := filter_length_le p q l h
    rcases List.mem_cons.mp ha with rfl | ha'
    · simp only [List.filter_cons, hpa, hqa, Bool.false_eq_true, ↓reduceIte, List.length_cons]; omega
    · have := ih ha'
      cases hp : p x <;> cases hq : q x
      · simpa [List.filter_cons, hp, hq] using this
      · simp only [List.filter_cons, hp, hq, Bool.false_eq_true, ↓reduceIte, List.length_cons]; omega
      · rw [h x hp] at hq; cases hq
      · simpa [List.filter_cons, hp, hq] using this

theorem remaining_push_lt {W seen : List Toks} {ph : Toks} (hW : ph ∈ W) (hc : ph ∉ seen) :
    remaining W (seen ++ [ph]) < remaining W seen := by
  unfold remaining
  refine filter_length_lt _ _ W ?_ hW ?_ ?_
  · intro x hx
    simp only [List.contains_eq_mem, List.mem_append, Bool.not_eq_eq_eq_not, Bool.not_true,
      decide_eq_false_iff_not] at hx ⊢
    exact fun h => hx (Or.inl h)
  · simpa using hc
  · simp

/-! ## termination under a finite-reach hypothesis -/

/-- `FiniteReach norm tbl Inv W`: the invariant `Inv` holds for every string the resolver is
    called on once it holds for the input (placeholder texts, rests, looked-up values and
    defaults), and the text of every placeholder found in such a string belongs to the finite
    list `W`. -/
structure FiniteReach (norm : Toks → Toks) (tbl : Table) (Inv : Toks → Prop) (W : List Toks) : Prop where
  ph_mem : ∀ {s before ph after}, Inv s → firstPh s = some (before, ph, after) → ph ∈ W
  ph_inv : ∀ {s before ph after}, Inv s → firstPh s = some (before, ph, after) → Inv ph
  after_inv : ∀ {s before ph after}, Inv s → firstPh s = some (before, ph, after) → Inv after
  val_inv : ∀ {s before ph after stack ph' pv}, Inv s → firstPh s = some (before, ph, after) →
    Resolves norm tbl ph stack (.ok ph') → resolvePlaceholder tbl (norm ph') = some pv → Inv pv

variable {norm : Toks → Toks} {tbl : Table}

theorem terminates_of_finiteReach {Inv : Toks → Prop} {W : List Toks}
    (H : FiniteReach norm tbl Inv W) :
    ∀ (j : Nat) (seen : List Toks), remaining W seen = j →
      ∀ (l : Nat) (s : Toks), s.length = l → Inv s → ∃ r, Resolves norm tbl s seen r := by
  intro j
  induction j using Nat.strongRecOn with
  | ind j ihj =>
    intro seen hj l
    induction l using Nat.strongRecOn with
    | ind l ihl =>
      intro s hl hs
      cases hf : firstPh s with
      | none => exact ⟨_, Resolves.plain seen hf⟩
      | some p =>
        obtain ⟨before, ph, after⟩ := p
        by_cases hc : ph ∈ seen
        · exact ⟨_, Resolves.here hf hc⟩
        · have hlt : remaining W (seen ++ [ph]) < j := hj ▸ remaining_push_lt (H.ph_mem hs hf) hc
          obtain ⟨r1, h1⟩ := ihj _ hlt (seen ++ [ph]) rfl _ ph rfl (H.ph_inv hs hf)
          have hal : after.length < l := hl ▸ firstPh_after_length hf
          obtain ⟨r3, h3⟩ := ihl _ hal after rfl (H.after_inv hs hf)
          cases r1 with
          | outOfFuel => exact absurd rfl h1.ne
          | cycle o => exact ⟨_, Resolves.key_fail hf hc h1⟩
          | ok ph' =>
            cases hp : resolvePlaceholder tbl (norm ph') with
            | none => exact ⟨_, Resolves.verbatim hf hc h1 hp h3⟩
            | some pv =>
              obtain ⟨r2, h2⟩ := ihj _ hlt (seen ++ [ph]) rfl _ pv rfl (H.val_inv hs hf h1 hp)
              cases r2 with
              | outOfFuel => exact absurd rfl h2.ne
              | cycle o => exact ⟨_, Resolves.value_fail hf hc h1 hp h2⟩
              | ok pv' => exact ⟨_, Resolves.subst hf hc h1 hp h2 h3⟩

/-- every run ends: some fuel suffices, and then every larger fuel gives the same result -/
theorem resolves_of_finiteReach {Inv : Toks → Prop} {W : List Toks}
    (H : FiniteReach norm tbl Inv W) (s : Toks) (seen : List Toks) (hs : Inv s) :
    ∃ r, Resolves norm tbl s seen r :=
  terminates_of_finiteReach H _ seen rfl _ s rfl hs

/-! ## scanning facts -/

theorem findEnd_some_spec {y q z : Toks} :
    ∀ {d : Nat}, findEnd d y = some (q, z) →
      y = q ++ Tok.suf :: z ∧ ∀ z', findEnd d (q ++ Tok.suf :: z') = some (q, z') := by
  induction y generalizing q with
  | nil => intro d h; cases h
  | cons x r ih =>
    intro d h
    cases x with
    | suf =>
      cases d with
      | zero => simp [findEnd] at h; obtain ⟨rfl, rfl⟩ := h; simp [findEnd]
      | succ d =>
        simp only [findEnd, Option.map_eq_some_iff] at h
        obtain ⟨⟨p', a'⟩, hp, he⟩ := h
        simp only [Prod.mk.injEq] at he
        obtain ⟨rfl, rfl⟩ := he
        obtain ⟨e, hz⟩ := ih hp
        subst e
        exact ⟨by simp, fun z' => by simp [findEnd, hz z']⟩
    | pre =>
      simp only [findEnd, Option.map_eq_some_iff] at h
      obtain ⟨⟨p', a'⟩, hp, he⟩ := h
      simp only [Prod.mk.injEq] at he
      obtain ⟨rfl, rfl⟩ := he
      obtain ⟨e, hz⟩ := ih hp
      subst e
      exact ⟨by simp, fun z' => by simp [findEnd, hz z']⟩
    | sep | ch c =>
      simp only [findEnd, Option.map_eq_some_iff] at h
      obtain ⟨⟨p', a'⟩, hp, he⟩ := h
      simp only [Prod.mk.injEq] at he
      obtain ⟨rfl, rfl⟩ := he
      obtain ⟨e, hz⟩ := ih hp
      subst e
      exact ⟨by simp, fun z' => by simp [findEnd, hz z']⟩

theorem findSep_some {s k d : Toks} (h : findSep s = some (k, d)) : s = k ++ Tok.sep :: d := by
  induction s generalizing k with
  | nil => cases h
  | cons t r ih =>
    cases t with
    | sep => simp [findSep] at h; obtain ⟨rfl, rfl⟩ := h; simp
    | pre | suf | ch c =>
      simp only [findSep, Option.map_eq_some_iff] at h
      obtain ⟨⟨k', d'⟩, hp, he⟩ := h
      simp only [Prod.mk.injEq] at he
      obtain ⟨rfl, rfl⟩ := he
      rw [ih hp]; simp

theorem findEnd_lower {y : Toks} : ∀ {d : Nat}, (findEnd (d + 1) y).isSome → (findEnd d y).isSome := by
  induction y with
  | nil => intro d h; simp [findEnd] at h
  | cons x r ih =>
    intro d h
    cases x with
    | suf =>
      cases d with
      | zero => simp [findEnd]
      | succ d =>
        simp only [findEnd, Option.isSome_map] at h ⊢
        exact ih h
    | pre =>
      simp only [findEnd, Option.isSome_map] at h ⊢
      exact ih h
    | sep | ch c =>
      simp only [findEnd, Option.isSome_map] at h ⊢
      exact ih h

theorem findEnd_lower_zero {y : Toks} : ∀ {d : Nat}, (findEnd d y).isSome → (findEnd 0 y).isSome := by
  intro d
  induction d with
  | zero => exact id
  | succ d ih => exact fun h => ih (findEnd_lower h)

/-! ## balanced lists -/

theorem balancedAux_findEnd {y q z : Toks} :
    ∀ {d : Nat}, findEnd d y = some (q, z) → ∀ (e : Nat) (r : Toks),
      balancedAux (d + e) (q ++ r) = balancedAux e r := by
  induction y generalizing q with
  | nil => intro d h; cases h
  | cons x y ih =>
    intro d h e r
    cases x with
    | suf =>
      cases d with
      | zero => simp [findEnd] at h; obtain ⟨rfl, rfl⟩ := h; simp
      | succ d =>
        simp only [findEnd, Option.map_eq_some_iff] at h
        obtain ⟨⟨p', a'⟩, hp, he⟩ := h
        simp only [Prod.mk.injEq] at he
        obtain ⟨rfl, rfl⟩ := he
        have : d + 1 + e = (d + e) + 1 := by omega
        rw [this, List.cons_append]
        simp only [balancedAux]
        exact ih hp e r
    | pre =>
      simp only [findEnd, Option.map_eq_some_iff] at h
      obtain ⟨⟨p', a'⟩, hp, he⟩ := h
      simp only [Prod.mk.injEq] at he
      obtain ⟨rfl, rfl⟩ := he
      rw [List.cons_append]
      simp only [balancedAux]
      have : d + e + 1 = (d + 1) + e := by omega
      rw [this]
      exact ih hp e r
    | sep | ch c =>
      simp only [findEnd, Option.map_eq_some_iff] at h
      obtain ⟨⟨p', a'⟩, hp, he⟩ := h
      simp only [Prod.mk.injEq] at he
      obtain ⟨rfl, rfl⟩ := he
      rw [List.cons_append]
      simp only [balancedAux]
      exact ih hp e r

theorem balancedAux_append {p : Toks} :
    ∀ {d : Nat}, balancedAux d p = true → ∀ r, balancedAux d (p ++ r) = balancedAux 0 r := by
  induction p with
  | nil => intro d h r; simp [balancedAux] at h; subst h; rfl
  | cons x p ih =>
    intro d h r
    cases x with
    | suf =>
      cases d with
      | zero => simp only [balancedAux, List.cons_append] at h ⊢; exact ih h r
      | succ d => simp only [balancedAux, List.cons_append] at h ⊢; exact ih h r
    | pre => simp only [balancedAux, List.cons_append] at h ⊢; exact ih h r
    | sep | ch c => simp only [balancedAux, List.cons_append] at h ⊢; exact ih h r

theorem balancedAux_mono {r : Toks} :
    ∀ {d d' : Nat}, d' ≤ d → balancedAux d r = true → balancedAux d' r = true := by
  induction r with
  | nil => intro d d' hle h; simp [balancedAux] at h ⊢; omega
  | cons x r ih =>
    intro d d' hle h
    cases x with
    | suf =>
      cases d with
      | zero =>
        have : d' = 0 := by omega
        subst this; exact h
      | succ d =>
        cases d' with
        | zero => simp only [balancedAux] at h ⊢; exact ih (Nat.zero_le _) h
        | succ d' => simp only [balancedAux] at h ⊢; exact ih (by omega) h
    | pre => simp only [balancedAux] at h ⊢; exact ih (by omega) h
    | sep | ch c => simp only [balancedAux] at h ⊢; exact ih hle h

theorem balancedAux_suffix {x r : Toks} :
    ∀ {d : Nat}, balancedAux d (x ++ r) = true → ∃ d', balancedAux d' r = true := by
  induction x with
  | nil => intro d h; exact ⟨d, h⟩
  | cons t x ih =>
    intro d h
    cases t with
    | suf =>
      cases d with
      | zero => simp only [balancedAux, List.cons_append] at h; exact ih h
      | succ d => simp only [balancedAux, List.cons_append] at h; exact ih h
    | pre => simp only [balancedAux, List.cons_append] at h; exact ih h
    | sep | ch c => simp only [balancedAux, List.cons_append] at h; exact ih h

theorem Balanced.append {p r : Toks} (hp : Balanced p) (hr : Balanced r) : Balanced (p ++ r) := by
  unfold Balanced at *
  rw [balancedAux_append hp]; exact hr

theorem Balanced.suffix {x r : Toks} (h : Balanced (x ++ r)) : Balanced r := by
  obtain ⟨d, hd⟩ := balancedAux_suffix h
  exact balancedAux_mono (Nat.zero_le _) hd

theorem Balanced.of_noPre {b : Toks} (h : Tok.pre ∉ b) : Balanced b := by
  have := balancedAux_zero_noPre [] h
  simpa [Balanced, balancedAux] using this

theorem Balanced.content {y q z : Toks} (h : findEnd 0 y = some (q, z)) : Balanced q := by
  have := balancedAux_findEnd h 0 []
  simpa [Balanced, balancedAux] using this

theorem Balanced.verbatim {y q z : Toks} (h : findEnd 0 y = some (q, z)) :
    Balanced (Tok.pre :: q ++ [Tok.suf]) := by
  have := balancedAux_findEnd h 1 [Tok.suf]
  simpa [Balanced, balancedAux] using this

/-! ## the texts of all placeholders present in a token list -/

/-- for every prefix token of `s` that has a matching suffix: the text between them -/
def allPhs : Toks → List Toks
  | [] => []
  | .pre :: y => (match findEnd 0 y with | some (q, _) => [q] | none => []) ++ allPhs y
  | _ :: y => allPhs y

theorem allPhs_pre (y : Toks) :
    allPhs (Tok.pre :: y) = (match findEnd 0 y with | some (q, _) => [q] | none => []) ++ allPhs y := rfl

theorem allPhs_noPre_cons {t : Tok} (y : Toks) (h : t ≠ Tok.pre) : allPhs (t :: y) = allPhs y := by
  cases t <;> simp_all [allPhs]

theorem allPhs_noPre_append {b : Toks} (r : Toks) (h : Tok.pre ∉ b) : allPhs (b ++ r) = allPhs r := by
  induction b with
  | nil => rfl
  | cons t b ih =>
    have ht : t ≠ Tok.pre := fun e => h (e ▸ List.mem_cons_self ..)
    have hb : Tok.pre ∉ b := fun e => h (List.mem_cons_of_mem _ e)
    rw [List.cons_append, allPhs_noPre_cons _ ht, ih hb]

theorem allPhs_cons_subset (t : Tok) (y : Toks) : allPhs y ⊆ allPhs (t :: y) := by
  cases t with
  | pre => rw [allPhs_pre]; exact List.subset_append_right _ _
  | suf | sep | ch c => rw [allPhs_noPre_cons _ (by simp)]; exact List.Subset.refl _

theorem allPhs_suffix (x r : Toks) : allPhs r ⊆ allPhs (x ++ r) := by
  induction x with
  | nil => exact List.Subset.refl _
  | cons t x ih => exact List.Subset.trans ih (allPhs_cons_subset t _)

/-- a list that ends at depth 0 from some depth cannot glue with what follows -/
theorem allPhs_append_closed {p : Toks} (r : Toks) :
    ∀ {d : Nat}, balancedAux d p = true → allPhs (p ++ r) = allPhs p ++ allPhs r := by
  induction p with
  | nil => intro d _; rfl
  | cons x p ih =>
    intro d h
    cases x with
    | suf =>
      rw [List.cons_append, allPhs_noPre_cons _ (by simp), allPhs_noPre_cons _ (by simp)]
      cases d with
      | zero => simp only [balancedAux] at h; exact ih h
      | succ d => simp only [balancedAux] at h; exact ih h
    | pre =>
      simp only [balancedAux] at h
      obtain ⟨q, z, hq, _⟩ := findEnd_of_balanced h
      have h0 : (findEnd 0 p).isSome := findEnd_lower_zero (by rw [hq]; rfl)
      obtain ⟨⟨q0, z0⟩, hq0⟩ := Option.isSome_iff_exists.mp h0
      rw [List.cons_append, allPhs_pre, allPhs_pre, findEnd_append_some r hq0, hq0, ih h]
      simp
    | sep | ch c =>
      rw [List.cons_append, allPhs_noPre_cons _ (by simp), allPhs_noPre_cons _ (by simp)]
      simp only [balancedAux] at h; exact ih h

theorem allPhs_append_balanced {p : Toks} (r : Toks) (h : Balanced p) :
    allPhs (p ++ r) = allPhs p ++ allPhs r :=
  allPhs_append_closed r h

theorem firstPh_eq {s before ph after : Toks} (h : firstPh s = some (before, ph, after)) :
    s = before ++ Tok.pre :: (ph ++ Tok.suf :: after) ∧ Tok.pre ∉ before ∧
      ∀ z, findEnd 0 (ph ++ Tok.suf :: z) = some (ph, z) := by
  obtain ⟨afterPre, h₁, h₂⟩ := firstPh_split h
  obtain ⟨rfl, hn⟩ := findPre_some h₁
  obtain ⟨rfl, hz⟩ := findEnd_some_spec h₂
  exact ⟨rfl, hn, hz⟩

theorem firstPh_mem_allPhs {s before ph after : Toks} (h : firstPh s = some (before, ph, after)) :
    ph ∈ allPhs s := by
  obtain ⟨rfl, hn, hz⟩ := firstPh_eq h
  rw [allPhs_noPre_append _ hn, allPhs_pre, hz after]
  simp

theorem allPhs_ph_subset {s before ph after : Toks} (h : firstPh s = some (before, ph, after)) :
    allPhs ph ⊆ allPhs s := by
  obtain ⟨rfl, hn, hz⟩ := firstPh_eq h
  rw [allPhs_noPre_append _ hn]
  refine List.Subset.trans ?_ (allPhs_cons_subset _ _)
  rw [allPhs_append_balanced _ (Balanced.content (hz after))]
  exact List.subset_append_left _ _

theorem allPhs_after_subset {s before ph after : Toks} (h : firstPh s = some (before, ph, after)) :
    allPhs after ⊆ allPhs s := by
  obtain ⟨rfl, _, _⟩ := firstPh_eq h
  have : before ++ Tok.pre :: (ph ++ Tok.suf :: after) = (before ++ Tok.pre :: (ph ++ [Tok.suf])) ++ after := by
    simp
  rw [this]
  exact allPhs_suffix _ _

/-! ## outputs of balanced inputs over a balanced table -/

theorem Table.get_mem {tbl : Table} {x v : Toks} (h : tbl.get x = some v) : ∃ k, (k, v) ∈ tbl := by
  induction tbl with
  | nil => cases h
  | cons kv r ih =>
    obtain ⟨k, v'⟩ := kv
    simp only [Table.get] at h
    split at h
    · cases h; exact ⟨k, List.mem_cons_self ..⟩
    · obtain ⟨k', hk'⟩ := ih h
      exact ⟨k', List.mem_cons_of_mem _ hk'⟩

theorem resolvePlaceholder_cases {tbl : Table} {x pv : Toks} (h : resolvePlaceholder tbl x = some pv) :
    (∃ k, (k, pv) ∈ tbl) ∨ ∃ k, findSep x = some (k, pv) := by
  unfold resolvePlaceholder at h
  cases h1 : tbl.get x with
  | some v => simp only [h1, Option.some.injEq] at h; subst h; exact .inl (Table.get_mem h1)
  | none =>
    simp only [h1] at h
    cases h2 : findSep x with
    | none => simp [h2] at h
    | some kd =>
      obtain ⟨k, d⟩ := kd
      simp only [h2] at h
      cases h3 : tbl.get k with
      | some v => simp only [h3, Option.some.injEq] at h; subst h; exact .inl (Table.get_mem h3)
      | none => simp only [h3, Option.some.injEq] at h; subst h; exact .inr ⟨k, rfl⟩

theorem allPhs_verbatim_subset {ph : Toks} {W : List Toks}
    (hz : ∀ z, findEnd 0 (ph ++ Tok.suf :: z) = some (ph, z)) (h1 : ph ∈ W) (h2 : allPhs ph ⊆ W) :
    allPhs (Tok.pre :: ph ++ [Tok.suf]) ⊆ W := by
  rw [List.cons_append, allPhs_pre, hz [], allPhs_append_balanced _ (Balanced.content (hz []))]
  intro q hq
  simp only [List.mem_append, List.mem_singleton] at hq
  rcases hq with rfl | hq | hq
  · exact h1
  · exact h2 hq
  · simp [allPhs] at hq

/-- the value a placeholder is replaced by is balanced and contains known placeholder texts only -/
theorem value_balanced_inv {tbl : Table} {W : List Toks}
    (hb : ∀ kv ∈ tbl, Balanced kv.2) (hW : ∀ kv ∈ tbl, allPhs kv.2 ⊆ W) {ph' pv : Toks}
    (h1 : Balanced ph') (h2 : allPhs ph' ⊆ W) (hp : resolvePlaceholder tbl ph' = some pv) :
    Balanced pv ∧ allPhs pv ⊆ W := by
  rcases resolvePlaceholder_cases hp with ⟨k, hk⟩ | ⟨k, hk⟩
  · exact ⟨hb _ hk, hW _ hk⟩
  · have e := findSep_some hk
    have e' : ph' = (k ++ [Tok.sep]) ++ pv := by rw [e]; simp
    exact ⟨Balanced.suffix (e' ▸ h1), List.Subset.trans (e' ▸ allPhs_suffix _ _) h2⟩

/-- outputs: balanced, and every placeholder in them is a known one -/
theorem resolve_balanced_inv {tbl : Table} {W : List Toks}
    (hb : ∀ kv ∈ tbl, Balanced kv.2) (hW : ∀ kv ∈ tbl, allPhs kv.2 ⊆ W) :
    ∀ (n : Nat) (s : Toks) (seen : List Toks) (t : Toks), resolve id n tbl s seen = .ok t →
      Balanced s → allPhs s ⊆ W → Balanced t ∧ allPhs t ⊆ W := by
  intro n
  induction n with
  | zero => intro s seen t h; simp at h
  | succ n ih =>
    intro s seen t h hbs hws
    cases hf : firstPh s with
    | none =>
      rw [resolve_succ_none n seen hf] at h
      cases h; exact ⟨hbs, hws⟩
    | some p =>
      obtain ⟨before, ph, after⟩ := p
      by_cases hc : ph ∈ seen
      · rw [resolve_succ_here n hf hc] at h; cases h
      · rw [resolve_succ_some n hf hc] at h
        unfold body at h
        obtain ⟨hs, hn, hz⟩ := firstPh_eq hf
        have hbph : Balanced ph := Balanced.content (hz [])
        have hwph : allPhs ph ⊆ W := List.Subset.trans (allPhs_ph_subset hf) hws
        have hba : Balanced after := by
          have : s = (before ++ Tok.pre :: (ph ++ [Tok.suf])) ++ after := by rw [hs]; simp
          exact Balanced.suffix (this ▸ hbs)
        have hwa : allPhs after ⊆ W := List.Subset.trans (allPhs_after_subset hf) hws
        have hbb : Balanced before := Balanced.of_noPre hn
        cases h1 : resolve id n tbl ph (seen ++ [ph]) with
        | outOfFuel => simp [h1] at h
        | cycle o => simp [h1] at h
        | ok ph' =>
          obtain ⟨hbph', hwph'⟩ := ih _ _ _ h1 hbph hwph
          simp only [h1, id] at h
          cases hp : resolvePlaceholder tbl ph' with
          | none =>
            simp only [hp] at h
            obtain ⟨t', ht', rfl⟩ := prepend_eq_ok h
            obtain ⟨hbt', hwt'⟩ := ih _ _ _ ht' hba hwa
            have hbv : Balanced (Tok.pre :: ph ++ [Tok.suf]) := Balanced.verbatim (hz [])
            have e : before ++ Tok.pre :: ph ++ [Tok.suf] ++ t' =
                before ++ ((Tok.pre :: ph ++ [Tok.suf]) ++ t') := by simp
            rw [e]
            refine ⟨hbb.append (hbv.append hbt'), ?_⟩
            rw [allPhs_noPre_append _ hn, allPhs_append_balanced _ hbv]
            exact List.append_subset.mpr ⟨allPhs_verbatim_subset hz (hws (firstPh_mem_allPhs hf)) hwph, hwt'⟩
          | some pv =>
            simp only [hp] at h
            obtain ⟨hbpv, hwpv⟩ := value_balanced_inv hb hW hbph' hwph' hp
            cases h2 : resolve id n tbl pv (seen ++ [ph]) with
            | outOfFuel => simp [h2] at h
            | cycle o => simp [h2] at h
            | ok pv' =>
              obtain ⟨hbpv', hwpv'⟩ := ih _ _ _ h2 hbpv hwpv
              simp only [h2] at h
              obtain ⟨t', ht', rfl⟩ := prepend_eq_ok h
              obtain ⟨hbt', hwt'⟩ := ih _ _ _ ht' hba hwa
              refine ⟨(hbb.append hbpv').append hbt', ?_⟩
              rw [List.append_assoc, allPhs_noPre_append _ hn, allPhs_append_balanced _ hbpv']
              exact List.append_subset.mpr ⟨hwpv', hwt'⟩

/-- balanced tables satisfy the finite-reach hypothesis (for ANY input `s`, balanced or not):
    `W` = placeholder texts present in the input and in the table values -/
theorem finiteReach_balanced {tbl : Table} {W : List Toks}
    (hb : ∀ kv ∈ tbl, Balanced kv.2) (hW : ∀ kv ∈ tbl, allPhs kv.2 ⊆ W) :
    FiniteReach id tbl (fun s => allPhs s ⊆ W) W where
  ph_mem hs hf := hs (firstPh_mem_allPhs hf)
  ph_inv hs hf := List.Subset.trans (allPhs_ph_subset hf) hs
  after_inv hs hf := List.Subset.trans (allPhs_after_subset hf) hs
  val_inv := by
    intro s before ph after stack ph' pv hs hf h1 hp
    obtain ⟨n, hn, _⟩ := h1
    obtain ⟨_, _, hz⟩ := firstPh_eq hf
    obtain ⟨hbph', hwph'⟩ := resolve_balanced_inv hb hW n ph stack ph' hn (Balanced.content (hz []))
      (List.Subset.trans (allPhs_ph_subset hf) hs)
    exact (value_balanced_inv hb hW hbph' hwph' hp).2

/-- TERMINATION for tables whose values are all delimiter-balanced (`norm = id`): every input,
    every stack. -/
theorem resolves_balanced (tbl : Table) (hb : ∀ kv ∈ tbl, Balanced kv.2) (s : Toks) (seen : List Toks) :
    ∃ r, Resolves id tbl s seen r := by
  refine resolves_of_finiteReach
    (finiteReach_balanced (W := allPhs s ++ tbl.flatMap fun kv => allPhs kv.2) hb ?_) s seen ?_
  · intro kv hkv q hq
    exact List.mem_append_right _ (List.mem_flatMap.mpr ⟨kv, hkv, hq⟩)
  · exact List.subset_append_left _ _

end Ytk.Resolver
