/-
  YtkProofs.FuncsDomOverlay — the regenerated translation of the walkers behind `OverlayDocument.Walk`
  (dom/overlay.go: walkNode / walkList / walkContainer, the visitor a function PARAMETER in the monad
  `Go.Res`) EQUALS the hand-written model `Overlay.walkNode / walkList / walkKvs` (YtkModel/Overlay.lean,
  a visitor with state σ), instantiated with σ := the first abnormal outcome of the visitor.  Because the
  visitor may panic, the statement covers WHICH leaves are visited, in WHICH order, and the early exit: a
  visitor that panics on the leaf after the one where it returned false is never reached, on both sides.
  Restated in YtkProps/C06.lean.
-/
import YtkModel.Generated.FuncsDom
import YtkModel.Overlay
import YtkProofs.FuncsLemmas
import YtkProofs.FuncsDomDiff
import YtkProofs.FuncsDomEquals
import YtkProofs.FuncsDomMerge
import YtkProofs.MergeRel

set_option linter.unusedSimpArgs false

namespace Ytk.FuncsDomOverlay
open Ytk Ytk.Generated Ytk.FuncsDomDiff

/-- the model's stateful visitor built from a visitor `g` in the Res monad: the state is `ok ()` until `g` panics -/
def liftV (g : String → String → Scalar → Go.Res Bool) (st : Go.Res Unit) (l p : String) (v : Scalar) :
    Go.Res Unit × Bool :=
  match st with
  | .ok () =>
    (match g l p v with
     | .ok b => (.ok (), b)
     | .panic => (.panic, false)
     | .fuel => (.fuel, false))
  | .panic => (.panic, false)
  | .fuel => (.fuel, false)

/-- what the Go call returns for a final (state, continue?) pair of the model -/
def outcome (r : Go.Res Unit × Bool) : Go.Res Bool := r.1 >>= fun _ => pure r.2

/-- the Go visitor `fn(layer, path, parent, node)` that looks at the leaf's value only (the model's visitor does not see
    the parent); the walkers call it on leaves only -/
def fnOf (g : String → String → Scalar → Go.Res Bool) : String → String → Node → Node → Go.Res Bool :=
  fun l p _ n =>
    match n with
    | .leaf v => g l p v
    | _ => .panic

section
variable (g : String → String → Scalar → Go.Res Bool) (layer : String)

mutual
theorem walkNode_abn : ∀ (n : Node) (p : String) (st : Go.Res Unit), st ≠ .ok () →
    (Overlay.walkNode (liftV g) layer n p st).1 = st
  | .leaf v, p, st, h => by
    simp only [Overlay.walkNode, liftV]
    cases st with
    | ok u => cases u; exact absurd rfl h
    | panic => rfl
    | fuel => rfl
  | .list xs, p, st, h => by simp only [Overlay.walkNode]; exact walkList_abn xs p 0 st h
  | .cont kvs, p, st, h => by simp only [Overlay.walkNode]; exact walkKvs_abn kvs p st h
theorem walkList_abn : ∀ (xs : List Node) (p : String) (i : Nat) (st : Go.Res Unit), st ≠ .ok () →
    (Overlay.walkList (liftV g) layer xs p i st).1 = st
  | [], _, _, _, _ => rfl
  | x :: xs, p, i, st, h => by
    simp only [Overlay.walkList]
    have h1 := walkNode_abn x (toListPath p i) st h
    rcases hr : Overlay.walkNode (liftV g) layer x (toListPath p i) st with ⟨st', b⟩
    rw [hr] at h1
    simp only at h1
    subst h1
    cases b
    · rfl
    · exact walkList_abn xs p (i + 1) _ h
theorem walkKvs_abn : ∀ (kvs : List (String × Node)) (p : String) (st : Go.Res Unit), st ≠ .ok () →
    (Overlay.walkKvs (liftV g) layer kvs p st).1 = st
  | [], _, _, _ => rfl
  | (k, x) :: xs, p, st, h => by
    simp only [Overlay.walkKvs]
    have h1 := walkNode_abn x (toPath p k) st h
    rcases hr : Overlay.walkNode (liftV g) layer x (toPath p k) st with ⟨st', b⟩
    rw [hr] at h1
    simp only at h1
    subst h1
    cases b
    · rfl
    · exact walkKvs_abn xs p _ h
end

theorem outcome_abn_list (xs : List Node) (p : String) (i : Nat) (st : Go.Res Unit) (h : st ≠ .ok ()) :
    outcome (Overlay.walkList (liftV g) layer xs p i st) = st >>= fun _ => pure true := by
  have := walkList_abn g layer xs p i st h
  unfold outcome
  rw [this]
  cases st with
  | ok u => cases u; exact absurd rfl h
  | panic => rfl
  | fuel => rfl

theorem outcome_abn_kvs (kvs : List (String × Node)) (p : String) (st : Go.Res Unit) (h : st ≠ .ok ()) :
    outcome (Overlay.walkKvs (liftV g) layer kvs p st) = st >>= fun _ => pure true := by
  have := walkKvs_abn g layer kvs p st h
  unfold outcome
  rw [this]
  cases st with
  | ok u => cases u; exact absurd rfl h
  | panic => rfl
  | fuel => rfl

/-- a loop's `Ctl` result from the model's pair -/
def ctlOf (r : Go.Res Unit × Bool) : Go.Res (Go.Ctl Bool Unit) :=
  r.1 >>= fun _ => pure (if r.2 then .next () else .ret false)

variable (rec : String → String → Node → Node → (String → String → Node → Node → Go.Res Bool) → Go.Res Bool) (N : Nat)
  (hrec : ∀ par n p, 2 * n.size ≤ N → rec layer p par n (fnOf g) = outcome (Overlay.walkNode (liftV g) layer n p (.ok ())))

include hrec in
theorem walkContainer_loop_eq (path : String) (con : AMap Node) : ∀ (kvs : List (String × Node)),
    2 * Node.sizeKvs kvs ≤ N →
    FuncsDom.walkContainer_loop1 rec layer path con (fnOf g) kvs = ctlOf (Overlay.walkKvs (liftV g) layer kvs path (.ok ())) := by
  intro kvs
  induction kvs with
  | nil => intro _; rfl
  | cons q rest ih =>
    intro hs
    obtain ⟨k, v⟩ := q
    have hsz : 2 * v.size ≤ N := by simp only [Node.sizeKvs] at hs; omega
    have hr : 2 * Node.sizeKvs rest ≤ N := by simp only [Node.sizeKvs] at hs; omega
    simp only [FuncsDom.walkContainer_loop1, toPath_eq, hrec _ _ _ hsz, Overlay.walkKvs]
    rcases hw : Overlay.walkNode (liftV g) layer v (toPath path k) (.ok ()) with ⟨st', b⟩
    cases st' with
    | ok u =>
      cases u
      cases b
      · simp [outcome, ctlOf]
      · simp only [outcome, Go.Res.ok_bind, Go.Res.pure_eq]
        simpa using ih hr
    | panic =>
      cases b
      · simp [outcome, ctlOf]
      · have := walkKvs_abn g layer rest path .panic (by simp)
        simp [outcome, ctlOf, this]
    | fuel =>
      cases b
      · simp [outcome, ctlOf]
      · have := walkKvs_abn g layer rest path .fuel (by simp)
        simp [outcome, ctlOf, this]

include hrec in
theorem walkList_loop_eq (path : String) (l : List Node) : ∀ (xs : List Node) (i : Nat),
    2 * Node.sizeList xs ≤ N →
    FuncsDom.walkList_loop1 rec layer path l (fnOf g) xs (i : Int) = ctlOf (Overlay.walkList (liftV g) layer xs path i (.ok ())) := by
  intro xs
  induction xs with
  | nil => intro i _; rfl
  | cons v rest ih =>
    intro i hs
    have hsz : 2 * v.size ≤ N := by simp only [Node.sizeList] at hs; omega
    have hr : 2 * Node.sizeList rest ≤ N := by simp only [Node.sizeList] at hs; omega
    simp only [FuncsDom.walkList_loop1, toListPath_eq, hrec _ _ _ hsz, Overlay.walkList, natCast_succ']
    rcases hw : Overlay.walkNode (liftV g) layer v (toListPath path i) (.ok ()) with ⟨st', b⟩
    cases st' with
    | ok u =>
      cases u
      cases b
      · simp [outcome, ctlOf]
      · simp only [outcome, Go.Res.ok_bind, Go.Res.pure_eq]
        simpa using ih (i + 1) hr
    | panic =>
      cases b
      · simp [outcome, ctlOf]
      · have := walkList_abn g layer rest path (i + 1) .panic (by simp)
        simp [outcome, ctlOf, this]
    | fuel =>
      cases b
      · simp [outcome, ctlOf]
      · have := walkList_abn g layer rest path (i + 1) .fuel (by simp)
        simp [outcome, ctlOf, this]
end

theorem ctl_outcome (r : Go.Res Unit × Bool) :
    (do match ← ctlOf r with
        | .ret x => pure x
        | .next () => pure true : Go.Res Bool) = outcome r := by
  obtain ⟨st, b⟩ := r
  cases st with
  | ok u => cases u; cases b <;> rfl
  | panic => rfl
  | fuel => rfl

theorem walk_rec_eq (g : String → String → Scalar → Go.Res Bool) (layer : String) : ∀ (fuel : Nat),
    (∀ par n p, 2 * n.size ≤ fuel →
      FuncsDom.walkNode_rec fuel layer p par n (fnOf g) = outcome (Overlay.walkNode (liftV g) layer n p (.ok ()))) ∧
    (∀ c p, 2 * Node.sizeKvs c + 1 ≤ fuel →
      FuncsDom.walkContainer_rec fuel layer p c (fnOf g) = outcome (Overlay.walkKvs (liftV g) layer c p (.ok ()))) ∧
    (∀ l p, 2 * Node.sizeList l + 1 ≤ fuel →
      FuncsDom.walkList_rec fuel layer p l (fnOf g) = outcome (Overlay.walkList (liftV g) layer l p 0 (.ok ()))) := by
  intro fuel
  induction fuel with
  | zero =>
    refine ⟨fun _ n _ h => ?_, fun _ _ h => by omega, fun _ _ h => by omega⟩
    have := FuncsDomEquals.size_pos n; omega
  | succ fuel ih =>
    refine ⟨fun par n p h => ?_, fun c p h => ?_, fun l p h => ?_⟩
    · cases n with
      | leaf v =>
        simp only [FuncsDom.walkNode_rec, GoDom.isContainer, GoDom.isList, Node.isCont, Node.isList,
          Bool.false_eq_true, if_false, fnOf, Overlay.walkNode, liftV, outcome]
        cases g layer p v with
        | ok b => cases b <;> rfl
        | panic => rfl
        | fuel => rfl
      | list l =>
        have := ih.2.2 l p (by simp only [Node.size] at h; omega)
        simp only [FuncsDom.walkNode_rec, GoDom.isContainer, GoDom.isList, Node.isCont, Node.isList,
          Bool.false_eq_true, if_false, if_true, GoDom.asList, Go.Res.ok_bind, this, Overlay.walkNode]
        cases outcome (Overlay.walkList (liftV g) layer l p 0 (.ok ())) with
        | ok b => cases b <;> rfl
        | panic => rfl
        | fuel => rfl
      | cont c =>
        have := ih.2.1 c p (by simp only [Node.size] at h; omega)
        simp only [FuncsDom.walkNode_rec, GoDom.isContainer, Node.isCont, if_true, GoDom.asContainer,
          Go.Res.ok_bind, this, Overlay.walkNode]
        cases outcome (Overlay.walkKvs (liftV g) layer c p (.ok ())) with
        | ok b => cases b <;> rfl
        | panic => rfl
        | fuel => rfl
    · simp only [FuncsDom.walkContainer_rec, GoDom.children,
        walkContainer_loop_eq g layer _ fuel (fun par n p hn => ih.1 par n p hn) p c c (by omega)]
      exact ctl_outcome _
    · have := walkList_loop_eq g layer _ fuel (fun par n p hn => ih.1 par n p hn) p l l 0 (by omega)
      simp only [Int.natCast_zero] at this
      simp only [FuncsDom.walkList_rec, GoDom.items, this]
      exact ctl_outcome _

theorem walkNode_generated_eq_model (g : String → String → Scalar → Go.Res Bool) (layer path : String) (parent n : Node) :
    FuncsDom.walkNode layer path parent n (fnOf g) = outcome (Overlay.walkNode (liftV g) layer n path (.ok ())) :=
  (walk_rec_eq g layer _).1 parent n path (by simp only [GoDom.sizeN]; omega)

theorem walkContainer_generated_eq_model (g : String → String → Scalar → Go.Res Bool) (layer path : String) (c : AMap Node) :
    FuncsDom.walkContainer layer path c (fnOf g) = outcome (Overlay.walkKvs (liftV g) layer c path (.ok ())) :=
  (walk_rec_eq g layer _).2.1 c path (by simp only [GoDom.sizeC]; omega)

theorem walkList_generated_eq_model (g : String → String → Scalar → Go.Res Bool) (layer path : String) (l : List Node) :
    FuncsDom.walkList layer path l (fnOf g) = outcome (Overlay.walkList (liftV g) layer l path 0 (.ok ())) :=
  (walk_rec_eq g layer _).2.2 l path (by simp only [GoDom.sizeL]; omega)

/-! ## Lookup(overlay, path), LookupAny(path)

  The Go state is `names []string` + `overlays map[string]ContainerBuilder`; the model keeps one list of pairs in
  creation order.  `Rep s ov`: the Go map `ov` holds exactly the layers of `s`. -/

def Rep (s : Overlay) (ov : GoDom.ContMap) : Prop := ∀ l, GoDom.contMapGet ov l = Overlay.layer s l

theorem layer_isSome_of_mem : ∀ (s : Overlay) (l : String), (Overlay.layerNames s).contains l = true →
    ∃ c, Overlay.layer s l = some c := by
  intro s
  induction s with
  | nil => intro l h; simp [Overlay.layerNames] at h
  | cons q rest ih =>
    intro l h
    obtain ⟨n, d⟩ := q
    by_cases e : l = n
    · exact ⟨d, by simp [Overlay.layer, AMap.get?, e]⟩
    · have h' : (Overlay.layerNames rest).contains l = true := by
        simp only [Overlay.layerNames, List.map_cons, List.contains_cons] at h ⊢
        simp only [Bool.or_eq_true, beq_iff_eq] at h
        rcases h with h | h
        · exact absurd h e
        · exact h
      obtain ⟨c, hc⟩ := ih l h'
      exact ⟨c, by simpa [Overlay.layer, AMap.get?, e] using hc⟩

theorem overlayLookup_generated_eq_model (s : Overlay) (ov : GoDom.ContMap) (hr : Rep s ov) (l path : String) :
    FuncsDom.overlayLookup (Overlay.layerNames s) ov l path = .ok (Overlay.lookup s l path) := by
  simp only [FuncsDom.overlayLookup, Overlay.lookup, Go.slicesContains, hr l]
  by_cases h : (Overlay.layerNames s).contains l = true
  · obtain ⟨c, hc⟩ := layer_isSome_of_mem s l h
    have hm : l ∈ Overlay.layerNames s := by simpa using h
    simp [hm, hc, GoDom.nonNil, Go.deref, GoDom.lookup]
  · have hm : ¬ l ∈ Overlay.layerNames s := by simpa using h
    simp [hm]

theorem lookupAny_loop_eq (s : Overlay) (ov : GoDom.ContMap) (hr : Rep s ov) (path : String) : ∀ (ns : List String),
    FuncsDom.overlayLookupAny_loop1 (Overlay.layerNames s) ov path ns =
      .ok (match ns.findSome? (fun n => Overlay.lookup s n path) with
           | some r => .ret (some r)
           | none => .next ()) := by
  intro ns
  induction ns with
  | nil => rfl
  | cons n rest ih =>
    simp only [FuncsDom.overlayLookupAny_loop1, overlayLookup_generated_eq_model s ov hr, Go.Res.ok_bind,
      List.findSome?_cons]
    cases hl : Overlay.lookup s n path with
    | none => simpa using ih
    | some r => simp

theorem overlayLookupAny_generated_eq_model (s : Overlay) (ov : GoDom.ContMap) (hr : Rep s ov) (path : String) :
    FuncsDom.overlayLookupAny (Overlay.layerNames s) ov path = .ok (Overlay.lookupAny s path) := by
  simp only [FuncsDom.overlayLookupAny, lookupAny_loop_eq s ov hr, Go.Res.ok_bind, Overlay.lookupAny]
  cases (Overlay.layerNames s).findSome? (fun n => Overlay.lookup s n path) <;> rfl

/-- the model's own list of pairs is such a Go map (the lookup is a linear search) -/
theorem rep_self (s : Overlay) : Rep s s := fun _ => rfl

/-! ## mergeOverlay: what `Merged()` runs — a fold of `mergeContainers` over the layers in `names` order -/

open FuncsDomMerge in
theorem mergeOverlay_loop_eq (o : ListStrategy) (f : List Node → List Node → Go.Res (List Node)) (M : Nat)
    (hf : ListFnOk o f M) (doc : FuncsDom.dom_overlayDocument) : ∀ (ns : List String) (merged : AMap Node),
    (∀ n ∈ ns, ∃ c, GoDom.contMapGet doc.overlays n = some c ∧ (Node.cont c).WF ∧ Node.sizeKvs c ≤ M) →
    (Node.cont merged).WF →
    FuncsDom.mergeOverlay_loop1 f (some doc) ns merged =
      .ok (ns.foldl (fun acc n => mergeKvs o acc ((GoDom.contMapGet doc.overlays n).getD [])) merged) := by
  intro ns
  induction ns with
  | nil => intro merged _ _; rfl
  | cons n rest ih =>
    intro merged hl hw
    obtain ⟨c, hc, hwc, hsz⟩ := hl n (List.mem_cons_self ..)
    have hm := mergeContainers_generated_eq_model o f merged c (listFnOk_mono hf hsz) hw hwc
    simp only [FuncsDom.mergeOverlay_loop1, Go.deref, Go.Res.ok_bind, hc, hm, List.foldl_cons, Option.getD_some]
    exact ih _ (fun n' hn' => hl n' (List.mem_cons_of_mem _ hn')) (wf_mergeC o hw hwc)

open FuncsDomMerge in
/-- merger.mergeOverlay(m) over the Go state of an overlay document whose map holds a well-formed layer for every name -/
theorem mergeOverlay_generated_fold (o : ListStrategy) (f : List Node → List Node → Go.Res (List Node)) (M : Nat)
    (hf : ListFnOk o f M) (doc : FuncsDom.dom_overlayDocument)
    (hl : ∀ n ∈ doc.names, ∃ c, GoDom.contMapGet doc.overlays n = some c ∧ (Node.cont c).WF ∧ Node.sizeKvs c ≤ M) :
    FuncsDom.mergeOverlay f (some doc) =
      .ok (doc.names.foldl (fun acc n => mergeKvs o acc ((GoDom.contMapGet doc.overlays n).getD [])) []) := by
  simp only [FuncsDom.mergeOverlay, GoDom.newContainer, Go.deref, Go.Res.ok_bind,
    mergeOverlay_loop_eq o f M hf doc doc.names [] hl (.cont .nil (by intro p hp; cases hp)), Go.Res.pure_eq]

theorem layers_of_nodup : ∀ (s : Overlay), (Overlay.layerNames s).Nodup →
    s.map (fun p => Overlay.layer s p.1) = s.map (fun p => some p.2) := by
  intro s
  induction s with
  | nil => intro _; rfl
  | cons q rest ih =>
    intro hn
    obtain ⟨n, d⟩ := q
    simp only [Overlay.layerNames, List.map_cons, List.nodup_cons] at hn
    simp only [List.map_cons, Overlay.layer, AMap.get?, if_true, List.cons.injEq, true_and]
    have := ih hn.2
    simp only [Overlay.layer] at this
    rw [← this]
    apply List.map_congr_left
    intro p hp
    have hne : p.1 ≠ n := by
      intro e
      exact hn.1 (by simp only [List.mem_map]; exact ⟨p, hp, e⟩)
    simp [hne]

open FuncsDomMerge in
/-- … and against the model's `Merged`: for an overlay document with distinct layer names (the invariant of
    `ensureOverlay`) whose layers are well-formed, `mergeOverlay` over its Go state is `Overlay.merged` -/
theorem mergeOverlay_generated_eq_model (o : ListStrategy) (f : List Node → List Node → Go.Res (List Node)) (M : Nat)
    (hf : ListFnOk o f M) (s : Overlay) (ov : GoDom.ContMap) (hr : Rep s ov)
    (hnd : (Overlay.layerNames s).Nodup) (hw : ∀ p ∈ s, (Node.cont p.2).WF ∧ Node.sizeKvs p.2 ≤ M) :
    FuncsDom.mergeOverlay f (some ⟨Overlay.layerNames s, ov⟩) = .ok (Overlay.merged o s) := by
  have hlay := layers_of_nodup s hnd
  have hl : ∀ n ∈ Overlay.layerNames s, ∃ c, GoDom.contMapGet ov n = some c ∧ (Node.cont c).WF ∧ Node.sizeKvs c ≤ M := by
    intro n hn
    simp only [Overlay.layerNames, List.mem_map] at hn
    obtain ⟨p, hp, rfl⟩ := hn
    have h1 : (s.map (fun p => Overlay.layer s p.1)) = s.map (fun p => some p.2) := hlay
    have h2 : Overlay.layer s p.1 = some p.2 := by
      have := List.map_inj_left.mp h1 p hp
      exact this
    exact ⟨p.2, by rw [hr p.1, h2], hw p hp⟩
  rw [mergeOverlay_generated_fold o f M hf ⟨Overlay.layerNames s, ov⟩ hl]
  simp only [Overlay.merged, mergeAll, Overlay.layerNames]
  congr 1
  rw [List.foldl_map]
  have e : ∀ p ∈ s, (GoDom.contMapGet ov p.1).getD [] = p.2 := by
    intro p hp
    have := List.map_inj_left.mp hlay p hp
    rw [hr p.1, this]; rfl
  clear hl hlay hw hnd
  -- both folds run over `s`; the looked-up layer is the stored one
  have : ∀ (l : List (String × AMap Node)) (acc : AMap Node), (∀ p ∈ l, (GoDom.contMapGet ov p.1).getD [] = p.2) →
      List.foldl (fun acc p => mergeKvs o acc ((GoDom.contMapGet ov p.1).getD [])) acc l
        = List.foldl (mergeKvs o) acc (l.map (·.2)) := by
    intro l
    induction l with
    | nil => intro acc _; rfl
    | cons q rest ih =>
      intro acc hq
      simp only [List.foldl_cons, List.map_cons, hq q (List.mem_cons_self ..)]
      exact ih _ (fun p hp => hq p (List.mem_cons_of_mem _ hp))
  exact this s [] e

end Ytk.FuncsDomOverlay
