/-
  YtkProofs.Resolver — lemmas about the token-level resolver model.
-/
import YtkModel.Resolver

namespace Ytk.Resolver

/-! ## scanning -/

theorem findPre_none_of_not_mem {s : Toks} (h : Tok.pre ∉ s) : findPre s = none := by
  induction s with
  | nil => rfl
  | cons t r ih =>
    have ht : t ≠ Tok.pre := fun e => h (e ▸ List.mem_cons_self ..)
    have hr : Tok.pre ∉ r := fun e => h (List.mem_cons_of_mem _ e)
    cases t <;> simp_all [findPre]

theorem findPre_eq_none {s : Toks} (h : findPre s = none) : Tok.pre ∉ s := by
  induction s with
  | nil => simp
  | cons t r ih =>
    cases t <;> simp_all [findPre]

theorem findPre_append_of_not_mem {b : Toks} (r : Toks) (h : Tok.pre ∉ b) :
    findPre (b ++ Tok.pre :: r) = some (b, r) := by
  induction b with
  | nil => rfl
  | cons t b ih =>
    have ht : t ≠ Tok.pre := fun e => h (e ▸ List.mem_cons_self ..)
    have hb : Tok.pre ∉ b := fun e => h (List.mem_cons_of_mem _ e)
    cases t <;> simp_all [findPre]

/-- what `findPre` returns splits the list at its first prefix -/
theorem findPre_some {s b a : Toks} (h : findPre s = some (b, a)) :
    s = b ++ Tok.pre :: a ∧ Tok.pre ∉ b := by
  induction s generalizing b with
  | nil => cases h
  | cons t r ih =>
    cases t with
    | pre => simp [findPre] at h; obtain ⟨rfl, rfl⟩ := h; simp
    | suf | sep | ch c =>
      simp only [findPre, Option.map_eq_some_iff] at h
      obtain ⟨⟨b', a'⟩, hp, he⟩ := h
      simp only [Prod.mk.injEq] at he
      obtain ⟨rfl, rfl⟩ := he
      obtain ⟨e, hn⟩ := ih hp
      subst e
      simp [hn]

theorem findPre_append_some {s b a : Toks} (t : Toks) (h : findPre s = some (b, a)) :
    findPre (s ++ t) = some (b, a ++ t) := by
  obtain ⟨rfl, hn⟩ := findPre_some h
  rw [List.append_assoc, List.cons_append]
  exact findPre_append_of_not_mem _ hn

theorem findPre_append_none {s : Toks} (t : Toks) (h : findPre s = none) :
    findPre (s ++ t) = (findPre t).map fun p => (s ++ p.1, p.2) := by
  induction s with
  | nil => simp only [List.nil_append]; cases findPre t <;> simp
  | cons x r ih =>
    cases x with
    | pre => simp [findPre] at h
    | suf | sep | ch c =>
      simp only [findPre, Option.map_eq_none_iff] at h
      simp only [List.cons_append, findPre, ih h, Option.map_map]
      rfl

theorem findEnd_append_some {s ph a : Toks} (t : Toks) :
    ∀ {d : Nat}, findEnd d s = some (ph, a) → findEnd d (s ++ t) = some (ph, a ++ t) := by
  induction s generalizing ph with
  | nil => intro d h; cases h
  | cons x r ih =>
    intro d h
    cases x with
    | suf =>
      cases d with
      | zero => simp [findEnd] at h; obtain ⟨rfl, rfl⟩ := h; simp [findEnd]
      | succ d =>
        simp only [findEnd, Option.map_eq_some_iff] at h
        obtain ⟨⟨p', a'⟩, hp, he⟩ := h
        simp only [Prod.mk.injEq] at he
        obtain ⟨rfl, rfl⟩ := he
        simp [findEnd, ih hp]
    | pre =>
      simp only [findEnd, Option.map_eq_some_iff] at h
      obtain ⟨⟨p', a'⟩, hp, he⟩ := h
      simp only [Prod.mk.injEq] at he
      obtain ⟨rfl, rfl⟩ := he
      simp [findEnd, ih hp]
    | sep | ch c =>
      simp only [findEnd, Option.map_eq_some_iff] at h
      obtain ⟨⟨p', a'⟩, hp, he⟩ := h
      simp only [Prod.mk.injEq] at he
      obtain ⟨rfl, rfl⟩ := he
      simp [findEnd, ih hp]

/-! ## one unfolding step -/

/-- the body of `resolve` with the recursive calls abstracted -/
def step (norm : Toks → Toks) (rec : Toks → List Toks → Res) (tbl : Table) (s : Toks)
    (seen : List Toks) : Res :=
  match findPre s with
  | none => .ok s
  | some (before, afterPre) =>
    match findEnd 0 afterPre with
    | none => .ok s
    | some (ph, after) =>
      if seen.contains ph then .cycle ph
      else
        match rec ph (seen ++ [ph]) with
        | .ok ph' =>
          match resolvePlaceholder tbl (norm ph') with
          | some pv =>
            match rec pv (seen ++ [ph]) with
            | .ok pv' => (rec after ((seen ++ [ph]).erase ph)).prepend (before ++ pv')
            | e => e
          | none => (rec after ((seen ++ [ph]).erase ph)).prepend (before ++ .pre :: ph ++ [.suf])
        | e => e

theorem resolve_succ (norm : Toks → Toks) (n : Nat) (tbl : Table) (s : Toks) (seen : List Toks) :
    resolve norm (n + 1) tbl s seen = step norm (resolve norm n tbl) tbl s seen := rfl

@[simp] theorem resolve_zero (norm : Toks → Toks) (tbl : Table) (s : Toks) (seen : List Toks) :
    resolve norm 0 tbl s seen = .outOfFuel := rfl

theorem prepend_ne_outOfFuel {p : Toks} {r : Res} : r.prepend p ≠ .outOfFuel ↔ r ≠ .outOfFuel := by
  cases r <;> simp [Res.prepend]

theorem seen_restore {seen : List Toks} {ph : Toks} (h : seen.contains ph = false) :
    (seen ++ [ph]).erase ph = seen := by
  have hn : ph ∉ seen := by simpa using h
  rw [List.erase_append_right _ hn]
  simp

/-- `step` is monotone in the recursive resolver w.r.t. "defined (not outOfFuel) results agree" -/
theorem step_mono {norm : Toks → Toks} {rec rec' : Toks → List Toks → Res} {tbl : Table}
    (hrec : ∀ s seen, rec s seen ≠ .outOfFuel → rec' s seen = rec s seen)
    (s : Toks) (seen : List Toks) (h : step norm rec tbl s seen ≠ .outOfFuel) :
    step norm rec' tbl s seen = step norm rec tbl s seen := by
  unfold step at h ⊢
  cases hfp : findPre s with
  | none => simp only [hfp]
  | some p =>
    obtain ⟨before, afterPre⟩ := p
    simp only [hfp] at h ⊢
    cases hfe : findEnd 0 afterPre with
    | none => simp only [hfe]
    | some q =>
      obtain ⟨ph, after⟩ := q
      simp only [hfe] at h ⊢
      by_cases hc : seen.contains ph = true
      · simp only [hc, if_true]
      · simp only [hc] at h ⊢
        -- first recursive call
        cases h1 : rec ph (seen ++ [ph]) with
        | outOfFuel => simp [h1] at h
        | cycle o => rw [hrec _ _ (by rw [h1]; simp), h1]
        | ok ph' =>
          rw [hrec _ _ (by rw [h1]; simp), h1]
          simp only [h1] at h ⊢
          cases hp : resolvePlaceholder tbl (norm ph') with
          | none =>
            simp only [hp] at h ⊢
            rw [hrec _ _ (prepend_ne_outOfFuel.mp h)]
          | some pv =>
            simp only [hp] at h ⊢
            cases h2 : rec pv (seen ++ [ph]) with
            | outOfFuel => simp [h2] at h
            | cycle o => rw [hrec _ _ (by rw [h2]; simp), h2]
            | ok pv' =>
              rw [hrec _ _ (by rw [h2]; simp), h2]
              simp only [h2] at h ⊢
              rw [hrec _ _ (prepend_ne_outOfFuel.mp h)]

theorem resolve_fuel_succ (norm : Toks → Toks) (tbl : Table) :
    ∀ (n : Nat) (s : Toks) (seen : List Toks), resolve norm n tbl s seen ≠ .outOfFuel →
      resolve norm (n + 1) tbl s seen = resolve norm n tbl s seen := by
  intro n
  induction n with
  | zero => intro s seen h; simp at h
  | succ n ih =>
    intro s seen h
    rw [resolve_succ norm (n + 1), resolve_succ norm n] at *
    exact step_mono (fun s seen hs => ih s seen hs) s seen h

theorem resolve_fuel_mono (norm : Toks → Toks) (tbl : Table) {n m : Nat} (hnm : n ≤ m)
    (s : Toks) (seen : List Toks) (h : resolve norm n tbl s seen ≠ .outOfFuel) :
    resolve norm m tbl s seen = resolve norm n tbl s seen := by
  induction hnm with
  | refl => rfl
  | step hle ih =>
    rw [resolve_fuel_succ norm tbl _ s seen (by rw [ih]; exact h), ih]

/-! ## no prefix; text in front of a template -/

theorem resolve_noPre' (norm : Toks → Toks) (n : Nat) (tbl : Table) {s : Toks} (seen : List Toks)
    (h : Tok.pre ∉ s) : resolve norm (n + 1) tbl s seen = .ok s := by
  rw [resolve_succ]; unfold step; rw [findPre_none_of_not_mem h]

/-- plain text in front is copied and does not influence the rest (same fuel) -/
theorem resolve_text_prepend (norm : Toks → Toks) (n : Nat) (tbl : Table) {t : Toks} (s : Toks)
    (seen : List Toks) (h : Tok.pre ∉ t) :
    resolve norm (n + 1) tbl (t ++ s) seen = (resolve norm (n + 1) tbl s seen).prepend t := by
  rw [resolve_succ, resolve_succ]
  unfold step
  rw [findPre_append_none s (findPre_none_of_not_mem h)]
  cases hfp : findPre s with
  | none => simp [Res.prepend]
  | some p =>
    obtain ⟨before, afterPre⟩ := p
    simp only [Option.map_some]
    cases hfe : findEnd 0 afterPre with
    | none => simp [Res.prepend]
    | some q =>
      obtain ⟨ph, after⟩ := q
      simp only
      split
      · rfl
      · cases resolve norm n tbl ph (seen ++ [ph]) with
        | outOfFuel => rfl
        | cycle o => rfl
        | ok ph' =>
          simp only
          cases resolvePlaceholder tbl (norm ph') with
          | none =>
            simp only
            cases resolve norm n tbl after ((seen ++ [ph]).erase ph) <;> simp [Res.prepend]
          | some pv =>
            simp only
            cases resolve norm n tbl pv (seen ++ [ph]) with
            | outOfFuel => rfl
            | cycle o => rfl
            | ok pv' =>
              simp only
              cases resolve norm n tbl after ((seen ++ [ph]).erase ph) <;> simp [Res.prepend]

/-! ## balanced lists -/

theorem balancedAux_zero_noPre {b : Toks} (r : Toks) (h : Tok.pre ∉ b) :
    balancedAux 0 (b ++ r) = balancedAux 0 r := by
  induction b with
  | nil => rfl
  | cons t b ih =>
    have ht : t ≠ Tok.pre := fun e => h (e ▸ List.mem_cons_self ..)
    have hb : Tok.pre ∉ b := fun e => h (List.mem_cons_of_mem _ e)
    cases t <;> simp_all [balancedAux]

/-- inside an open placeholder (depth `d+1`) a balanced list contains the closing suffix -/
theorem findEnd_of_balanced {s : Toks} :
    ∀ {d : Nat}, balancedAux (d + 1) s = true →
      ∃ ph after, findEnd d s = some (ph, after) ∧ balancedAux 0 after = true := by
  induction s with
  | nil => intro d h; simp [balancedAux] at h
  | cons t r ih =>
    intro d h
    cases t with
    | suf =>
      cases d with
      | zero => exact ⟨[], r, rfl, by simpa [balancedAux] using h⟩
      | succ d =>
        obtain ⟨ph, after, hf, hb⟩ := ih (d := d) (by simpa [balancedAux] using h)
        exact ⟨.suf :: ph, after, by simp [findEnd, hf], hb⟩
    | pre =>
      obtain ⟨ph, after, hf, hb⟩ := ih (d := d + 1) (by simpa [balancedAux] using h)
      exact ⟨.pre :: ph, after, by simp [findEnd, hf], hb⟩
    | sep =>
      obtain ⟨ph, after, hf, hb⟩ := ih (d := d) (by simpa [balancedAux] using h)
      exact ⟨.sep :: ph, after, by simp [findEnd, hf], hb⟩
    | ch c =>
      obtain ⟨ph, after, hf, hb⟩ := ih (d := d) (by simpa [balancedAux] using h)
      exact ⟨.ch c :: ph, after, by simp [findEnd, hf], hb⟩

/-- a balanced list whose first prefix is at `before`: the placeholder closes inside it and
    the rest is balanced again -/
theorem balanced_findPre {s before afterPre : Toks} (hb : Balanced s)
    (hfp : findPre s = some (before, afterPre)) :
    ∃ ph after, findEnd 0 afterPre = some (ph, after) ∧ Balanced after := by
  obtain ⟨rfl, hn⟩ := findPre_some hfp
  unfold Balanced at hb
  rw [balancedAux_zero_noPre _ hn] at hb
  exact findEnd_of_balanced (by simpa [balancedAux] using hb)

theorem findEnd_length {s ph after : Toks} :
    ∀ {d : Nat}, findEnd d s = some (ph, after) → after.length < s.length := by
  induction s generalizing ph with
  | nil => intro d h; cases h
  | cons t r ih =>
    intro d h
    cases t with
    | suf =>
      cases d with
      | zero => simp [findEnd] at h; obtain ⟨_, rfl⟩ := h; simp
      | succ d =>
        simp only [findEnd, Option.map_eq_some_iff] at h
        obtain ⟨⟨p', a'⟩, hp, he⟩ := h
        simp only [Prod.mk.injEq] at he
        obtain ⟨_, rfl⟩ := he
        have := ih hp; simp; omega
    | pre | sep | ch c =>
      simp only [findEnd, Option.map_eq_some_iff] at h
      obtain ⟨⟨p', a'⟩, hp, he⟩ := h
      simp only [Prod.mk.injEq] at he
      obtain ⟨_, rfl⟩ := he
      have := ih hp; simp; omega

/-! ## concatenation -/

/-- `⊕` of DESIGN §6 C11: concatenate results, the first failure wins -/
def Res.seq : Res → Res → Res
  | .ok a, .ok b => .ok (a ++ b)
  | .ok _, r => r
  | r, _ => r

theorem seq_prepend (p : Toks) (r₁ r₂ : Res) : (r₁.prepend p).seq r₂ = (r₁.seq r₂).prepend p := by
  cases r₁ <;> cases r₂ <;> simp [Res.prepend, Res.seq]

theorem ok_seq (t : Toks) (r : Res) : (Res.ok t).seq r = r.prepend t := by
  cases r <;> simp [Res.prepend, Res.seq]

/-- fuel-independent big-step reading of the model -/
def Resolves (norm : Toks → Toks) (tbl : Table) (s : Toks) (seen : List Toks) (r : Res) : Prop :=
  ∃ n, resolve norm n tbl s seen = r ∧ r ≠ .outOfFuel

theorem Resolves.ne {norm : Toks → Toks} {tbl : Table} {s : Toks} {seen : List Toks} {r : Res}
    (h : Resolves norm tbl s seen r) : r ≠ .outOfFuel := by
  obtain ⟨_, _, h⟩ := h; exact h

theorem Resolves.fuel {norm : Toks → Toks} {tbl : Table} {s : Toks} {seen : List Toks} {r : Res}
    (h : Resolves norm tbl s seen r) : ∃ n, ∀ m, n ≤ m → resolve norm m tbl s seen = r := by
  obtain ⟨n, hn, hr⟩ := h
  exact ⟨n, fun m hm => by rw [resolve_fuel_mono norm tbl hm s seen (by rw [hn]; exact hr), hn]⟩

theorem Resolves.unique {norm : Toks → Toks} {tbl : Table} {s : Toks} {seen : List Toks} {r r' : Res}
    (h : Resolves norm tbl s seen r) (h' : Resolves norm tbl s seen r') : r = r' := by
  obtain ⟨n, hn⟩ := h.fuel
  obtain ⟨n', hn'⟩ := h'.fuel
  rw [← hn (max n n') (Nat.le_max_left ..), ← hn' (max n n') (Nat.le_max_right ..)]

/-- core of `resolve_append_balanced`, by induction on the fuel of the left run -/
theorem resolves_append_aux (norm : Toks → Toks) (tbl : Table) (s₂ : Toks) :
    ∀ (n : Nat) (s₁ : Toks) (seen : List Toks) (r₂ : Res), Balanced s₁ →
      resolve norm n tbl s₁ seen ≠ .outOfFuel → Resolves norm tbl s₂ seen r₂ →
      Resolves norm tbl (s₁ ++ s₂) seen ((resolve norm n tbl s₁ seen).seq r₂) := by
  intro n
  induction n with
  | zero => intro s₁ seen r₂ _ h; simp at h
  | succ n ih =>
    intro s₁ seen r₂ hbal hne h₂
    obtain ⟨k, hk⟩ := h₂.fuel
    have hr₂ : r₂ ≠ .outOfFuel := h₂.ne
    rw [resolve_succ] at hne ⊢
    unfold step at hne ⊢
    cases hfp : findPre s₁ with
    | none =>
      -- s₁ is plain text
      simp only [hfp]
      refine ⟨k + 1, ?_, ?_⟩
      · rw [resolve_text_prepend norm k tbl s₂ seen (findPre_eq_none hfp), hk (k + 1) (Nat.le_succ _), ok_seq]
      · rw [ok_seq]; exact prepend_ne_outOfFuel.mpr hr₂
    | some p =>
      obtain ⟨before, afterPre⟩ := p
      obtain ⟨ph, after, hfe, hbal'⟩ := balanced_findPre hbal hfp
      simp only [hfp, hfe] at hne ⊢
      by_cases hc : seen.contains ph = true
      · -- circular reference at the first placeholder
        simp only [hc, if_true]
        refine ⟨1, ?_, by simp [Res.seq]⟩
        rw [resolve_succ]; unfold step
        rw [findPre_append_some s₂ hfp]
        simp only [findEnd_append_some s₂ hfe, hc, if_true]
        cases r₂ <;> rfl
      · have hc' : seen.contains ph = false := by simpa using hc
        simp only [hc', Bool.false_eq_true, ↓reduceIte] at hne ⊢
        rw [seen_restore hc'] at hne ⊢
        -- the combined run, with fuel M + 1, unfolds to the same shape
        have unfoldM : ∀ M, resolve norm (M + 1) tbl (s₁ ++ s₂) seen =
            (match resolve norm M tbl ph (seen ++ [ph]) with
              | .ok ph' =>
                match resolvePlaceholder tbl (norm ph') with
                | some pv =>
                  match resolve norm M tbl pv (seen ++ [ph]) with
                  | .ok pv' => (resolve norm M tbl (after ++ s₂) seen).prepend (before ++ pv')
                  | e => e
                | none => (resolve norm M tbl (after ++ s₂) seen).prepend (before ++ .pre :: ph ++ [.suf])
              | e => e) := by
          intro M
          rw [resolve_succ]; unfold step
          rw [findPre_append_some s₂ hfp]
          simp only [findEnd_append_some s₂ hfe, hc', Bool.false_eq_true, ↓reduceIte, seen_restore hc']
        cases h1 : resolve norm n tbl ph (seen ++ [ph]) with
        | outOfFuel => simp [h1] at hne
        | cycle o =>
          simp only [h1]
          refine ⟨n + 1, ?_, by simp [Res.seq]⟩
          rw [unfoldM, h1]; cases r₂ <;> rfl
        | ok ph' =>
          simp only [h1] at hne ⊢
          cases hp : resolvePlaceholder tbl (norm ph') with
          | none =>
            simp only [hp] at hne ⊢
            have hne' := prepend_ne_outOfFuel.mp hne
            obtain ⟨M, hM⟩ := (ih after seen r₂ hbal' hne' h₂).fuel
            refine ⟨max M n + 1, ?_, ?_⟩
            · rw [unfoldM, resolve_fuel_mono norm tbl (Nat.le_max_right M n) _ _ (by rw [h1]; simp), h1]
              simp only [hp]
              rw [hM _ (Nat.le_max_left M n), seq_prepend]
            · rw [seq_prepend]; exact prepend_ne_outOfFuel.mpr (ih after seen r₂ hbal' hne' h₂).ne
          | some pv =>
            simp only [hp] at hne ⊢
            cases h2 : resolve norm n tbl pv (seen ++ [ph]) with
            | outOfFuel => simp [h2] at hne
            | cycle o =>
              simp only [h2]
              refine ⟨n + 1, ?_, by simp [Res.seq]⟩
              rw [unfoldM, h1]; simp only [hp, h2]; cases r₂ <;> rfl
            | ok pv' =>
              simp only [h2] at hne ⊢
              have hne' := prepend_ne_outOfFuel.mp hne
              obtain ⟨M, hM⟩ := (ih after seen r₂ hbal' hne' h₂).fuel
              refine ⟨max M n + 1, ?_, ?_⟩
              · rw [unfoldM, resolve_fuel_mono norm tbl (Nat.le_max_right M n) _ _ (by rw [h1]; simp), h1]
                simp only [hp]
                rw [resolve_fuel_mono norm tbl (Nat.le_max_right M n) _ _ (by rw [h2]; simp), h2]
                simp only
                rw [hM _ (Nat.le_max_left M n), seq_prepend]
              · rw [seq_prepend]; exact prepend_ne_outOfFuel.mpr (ih after seen r₂ hbal' hne' h₂).ne

/-! ## a single placeholder -/

theorem findEnd_flat {ph : Toks} (after : Toks) (h1 : Tok.pre ∉ ph) (h2 : Tok.suf ∉ ph) :
    findEnd 0 (ph ++ Tok.suf :: after) = some (ph, after) := by
  induction ph with
  | nil => rfl
  | cons t r ih =>
    have ht1 : t ≠ Tok.pre := fun e => h1 (e ▸ List.mem_cons_self ..)
    have ht2 : t ≠ Tok.suf := fun e => h2 (e ▸ List.mem_cons_self ..)
    have hr1 : Tok.pre ∉ r := fun e => h1 (List.mem_cons_of_mem _ e)
    have hr2 : Tok.suf ∉ r := fun e => h2 (List.mem_cons_of_mem _ e)
    cases t <;> simp_all [findEnd]

theorem findSep_none_of_not_mem {s : Toks} (h : Tok.sep ∉ s) : findSep s = none := by
  induction s with
  | nil => rfl
  | cons t r ih =>
    have ht : t ≠ Tok.sep := fun e => h (e ▸ List.mem_cons_self ..)
    have hr : Tok.sep ∉ r := fun e => h (List.mem_cons_of_mem _ e)
    cases t <;> simp_all [findSep]

theorem findSep_append_of_not_mem {k : Toks} (d : Toks) (h : Tok.sep ∉ k) :
    findSep (k ++ Tok.sep :: d) = some (k, d) := by
  induction k with
  | nil => rfl
  | cons t k ih =>
    have ht : t ≠ Tok.sep := fun e => h (e ▸ List.mem_cons_self ..)
    have hk : Tok.sep ∉ k := fun e => h (List.mem_cons_of_mem _ e)
    cases t <;> simp_all [findSep]

end Ytk.Resolver
