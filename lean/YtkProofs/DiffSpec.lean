/- Exactness of Diff: a modification is emitted iff the declarative specification `DiffSpec`
   (written from the property text, position by position) asks for it. -/
import YtkModel.Diff
import YtkProofs.Diff

namespace Ytk

/-- What the property says Diff(l, r) contains, below the path prefix `p`:
    * one Add per leaf under a key only the left has;
    * one Delete per key only the right has;
    * one Change carrying both values (new = right, old = left) per scalar that differs;
    * for a list that differs: one Delete of the position and Adds for the leaves of the LEFT list;
    * for a position whose kind differs: one Delete and Adds for the leaves of the RIGHT node;
    * and the same, recursively, where both sides have a container. -/
inductive DiffSpec : AMap Node → AMap Node → String → Mod → Prop
  | leftOnly {l r : AMap Node} {p k : String} {n : Node} {q : String} {v : Scalar} :
      AMap.get? l k = some n → AMap.get? r k = none → (q, v) ∈ flattenNode n (toPath p k) →
      DiffSpec l r p (Mod.mkAdd q v)
  | rightOnly {l r : AMap Node} {p k : String} {n : Node} :
      AMap.get? r k = some n → AMap.get? l k = none → DiffSpec l r p (Mod.mkDel (toPath p k))
  | change {l r : AMap Node} {p k : String} {a b : Scalar} :
      AMap.get? l k = some (.leaf a) → AMap.get? r k = some (.leaf b) → a ≠ b →
      DiffSpec l r p (Mod.mkChange (toPath p k) b a)
  | listDel {l r : AMap Node} {p k : String} {xs ys : List Node} :
      AMap.get? l k = some (.list xs) → AMap.get? r k = some (.list ys) → xs ≠ ys →
      DiffSpec l r p (Mod.mkDel (toPath p k))
  | listAdd {l r : AMap Node} {p k : String} {xs ys : List Node} {q : String} {v : Scalar} :
      AMap.get? l k = some (.list xs) → AMap.get? r k = some (.list ys) → xs ≠ ys →
      (q, v) ∈ flattenNode (.list xs) (toPath p k) → DiffSpec l r p (Mod.mkAdd q v)
  | kindDel {l r : AMap Node} {p k : String} {x y : Node} :
      AMap.get? l k = some x → AMap.get? r k = some y → x.kind ≠ y.kind →
      DiffSpec l r p (Mod.mkDel (toPath p k))
  | kindAdd {l r : AMap Node} {p k : String} {x y : Node} {q : String} {v : Scalar} :
      AMap.get? l k = some x → AMap.get? r k = some y → x.kind ≠ y.kind →
      (q, v) ∈ flattenNode y (toPath p k) → DiffSpec l r p (Mod.mkAdd q v)
  | sub {l r l' r' : AMap Node} {p k : String} {m : Mod} :
      AMap.get? l k = some (.cont l') → AMap.get? r k = some (.cont r') →
      DiffSpec l' r' (toPath p k) m → DiffSpec l r p m

theorem mem_flatNode {n : Node} {p : String} {m : Mod} :
    m ∈ flatNode n p ↔ ∃ q v, (q, v) ∈ flattenNode n p ∧ m = Mod.mkAdd q v := by
  rw [flatNode_eq, List.mem_map]
  constructor
  · rintro ⟨⟨q, v⟩, h, rfl⟩; exact ⟨q, v, h, rfl⟩
  · rintro ⟨q, v, h, rfl⟩; exact ⟨(q, v), h, rfl⟩

theorem kind_ne_of_flags {x y : Node} (h1 : (x.isCont && y.isCont) = false)
    (h2 : (x.isList && y.isList) = false) (h3 : (x.isLeaf && y.isLeaf) = false) : x.kind ≠ y.kind := by
  cases x <;> cases y <;> simp_all [Node.isCont, Node.isList, Node.isLeaf, Node.kind]

theorem flags_of_kind_ne {x y : Node} (h : x.kind ≠ y.kind) :
    (x.isCont && y.isCont) = false ∧ (x.isList && y.isList) = false ∧ (x.isLeaf && y.isLeaf) = false := by
  cases x <;> cases y <;> simp_all [Node.isCont, Node.isList, Node.isLeaf, Node.kind]

theorem emitNode_of_kind_ne {x y : Node} (p : String) (h : x.kind ≠ y.kind) :
    emitNode x y p = Mod.mkDel p :: flatNode y p := by
  cases x <;> cases y <;> simp_all [Node.kind, emitNode]

theorem mem_emitRight : ∀ {ys : List (String × Node)} {l : AMap Node} {p : String} {m : Mod},
    m ∈ emitRight ys l p ↔ ∃ q ∈ ys, child l q.1 = none ∧ m = Mod.mkDel (toPath p q.1)
  | [], _, _, _ => by simp [emitRight]
  | (k, n) :: rest, l, p, m => by
    simp only [emitRight, List.mem_append, mem_emitRight (ys := rest), List.mem_cons, exists_eq_or_imp]
    cases child l k <;> simp

/-! ## soundness: everything emitted is asked for -/

mutual
theorem emitNode_spec_fwd : ∀ (x y : Node) (l r : AMap Node) (p k : String) (m : Mod),
    x.Valid → y.Valid → AMap.get? l k = some x → AMap.get? r k = some y →
    m ∈ emitNode x y (toPath p k) → DiffSpec l r p m
  | .cont l', .cont r', l, r, p, k, m, hx, hy, hl, hr, hm => by
    simp only [emitNode, List.mem_append] at hm
    refine .sub hl hr ?_
    rcases hm with hm | hm
    · exact emitLeft_spec_fwd l' l' r' (toPath p k) m
        (fun q hq => ⟨AMap.get?_self_of_sorted hx.sorted q hq, hx.of_cont_mem hq⟩) hy hm
    · obtain ⟨q, hq, hc, rfl⟩ := mem_emitRight.mp hm
      have hqs : hasIdxSuffix q.1 = false := (hy.of_cont_mem hq).2
      rw [child_of_noSuffix _ hqs] at hc
      exact .rightOnly (AMap.get?_self_of_sorted hy.sorted q hq) hc
  | .list xs, .list ys, l, r, p, k, m, hx, hy, hl, hr, hm => by
    simp only [emitNode] at hm
    split at hm
    · cases hm
    · rename_i he
      have hne : xs ≠ ys := by
        intro e; subst e; exact he (equals_refl _ hx)
      rcases List.mem_cons.mp hm with rfl | hm
      · exact .listDel hl hr hne
      · have : m ∈ flatNode (.list xs) (toPath p k) := by simpa [flatNode] using hm
        obtain ⟨q, v, hqv, rfl⟩ := mem_flatNode.mp this
        exact .listAdd hl hr hne hqv
  | .leaf a, .leaf b, l, r, p, k, m, _, _, hl, hr, hm => by
    simp only [emitNode] at hm
    split at hm
    · cases hm
    · rename_i hne
      rw [List.mem_singleton] at hm; subst hm
      exact .change hl hr hne
  | .leaf a, .list ys, l, r, p, k, m, _, _, hl, hr, hm => by
    rw [emitNode_of_kind_ne _ (by simp [Node.kind])] at hm
    rcases List.mem_cons.mp hm with rfl | hm
    · exact .kindDel hl hr (by simp [Node.kind])
    · obtain ⟨q, v, hqv, rfl⟩ := mem_flatNode.mp hm
      exact .kindAdd hl hr (by simp [Node.kind]) hqv
  | .leaf a, .cont ys, l, r, p, k, m, _, _, hl, hr, hm => by
    rw [emitNode_of_kind_ne _ (by simp [Node.kind])] at hm
    rcases List.mem_cons.mp hm with rfl | hm
    · exact .kindDel hl hr (by simp [Node.kind])
    · obtain ⟨q, v, hqv, rfl⟩ := mem_flatNode.mp hm
      exact .kindAdd hl hr (by simp [Node.kind]) hqv
  | .list a, .leaf ys, l, r, p, k, m, _, _, hl, hr, hm => by
    rw [emitNode_of_kind_ne _ (by simp [Node.kind])] at hm
    rcases List.mem_cons.mp hm with rfl | hm
    · exact .kindDel hl hr (by simp [Node.kind])
    · obtain ⟨q, v, hqv, rfl⟩ := mem_flatNode.mp hm
      exact .kindAdd hl hr (by simp [Node.kind]) hqv
  | .list a, .cont ys, l, r, p, k, m, _, _, hl, hr, hm => by
    rw [emitNode_of_kind_ne _ (by simp [Node.kind])] at hm
    rcases List.mem_cons.mp hm with rfl | hm
    · exact .kindDel hl hr (by simp [Node.kind])
    · obtain ⟨q, v, hqv, rfl⟩ := mem_flatNode.mp hm
      exact .kindAdd hl hr (by simp [Node.kind]) hqv
  | .cont a, .leaf ys, l, r, p, k, m, _, _, hl, hr, hm => by
    rw [emitNode_of_kind_ne _ (by simp [Node.kind])] at hm
    rcases List.mem_cons.mp hm with rfl | hm
    · exact .kindDel hl hr (by simp [Node.kind])
    · obtain ⟨q, v, hqv, rfl⟩ := mem_flatNode.mp hm
      exact .kindAdd hl hr (by simp [Node.kind]) hqv
  | .cont a, .list ys, l, r, p, k, m, _, _, hl, hr, hm => by
    rw [emitNode_of_kind_ne _ (by simp [Node.kind])] at hm
    rcases List.mem_cons.mp hm with rfl | hm
    · exact .kindDel hl hr (by simp [Node.kind])
    · obtain ⟨q, v, hqv, rfl⟩ := mem_flatNode.mp hm
      exact .kindAdd hl hr (by simp [Node.kind]) hqv
theorem emitLeft_spec_fwd : ∀ (xs : List (String × Node)) (l r : AMap Node) (p : String) (m : Mod),
    (∀ q ∈ xs, AMap.get? l q.1 = some q.2 ∧ (q.2.Valid ∧ hasIdxSuffix q.1 = false)) →
    (Node.cont r).Valid → m ∈ emitLeft xs r p → DiffSpec l r p m
  | [], _, _, _, _, _, _, hm => by simp [emitLeft] at hm
  | (k, n) :: rest, l, r, p, m, hxs, hr, hm => by
    have h0 := hxs (k, n) (List.mem_cons_self ..)
    simp only [emitLeft, List.mem_append, child_of_noSuffix r h0.2.2] at hm
    rcases hm with hm | hm
    · cases hg : AMap.get? r k with
      | none =>
        rw [hg] at hm
        obtain ⟨q, v, hqv, rfl⟩ := mem_flatNode.mp hm
        exact .leftOnly h0.1 hg hqv
      | some y =>
        rw [hg] at hm
        exact emitNode_spec_fwd n y l r p k m h0.2.1 (hr.of_get? hg).1 h0.1 hg hm
    · exact emitLeft_spec_fwd rest l r p m (fun q hq => hxs q (List.mem_cons_of_mem _ hq)) hr hm
end

/-! ## completeness: everything asked for is emitted -/

theorem mem_emitLeft_of_mem : ∀ {xs : List (String × Node)} {r : AMap Node} {p k : String} {n : Node} {m : Mod},
    (k, n) ∈ xs →
    m ∈ (match child r k with
         | some n2 => emitNode n n2 (toPath p k)
         | none => flatNode n (toPath p k)) → m ∈ emitLeft xs r p
  | [], _, _, _, _, _, h, _ => by cases h
  | (k', n') :: rest, r, p, k, n, m, h, hm => by
    simp only [emitLeft, List.mem_append]
    rcases List.mem_cons.mp h with e | h
    · cases e; exact Or.inl hm
    · exact Or.inr (mem_emitLeft_of_mem h hm)

theorem spec_bwd {l r : AMap Node} {p : String} {m : Mod} (h : DiffSpec l r p m) :
    (Node.cont l).Valid → (Node.cont r).Valid → m ∈ emitNode (.cont l) (.cont r) p := by
  induction h with
  | @leftOnly l r p k n q v hl hr hqv =>
    intro hvl _
    simp only [emitNode, List.mem_append]
    refine Or.inl (mem_emitLeft_of_mem (AMap.mem_of_get? hl) ?_)
    rw [child_of_noSuffix _ (hvl.of_get? hl).2, hr]
    exact mem_flatNode.mpr ⟨q, v, hqv, rfl⟩
  | @rightOnly l r p k n hr hl =>
    intro _ hvr
    simp only [emitNode, List.mem_append]
    refine Or.inr (mem_emitRight.mpr ⟨(k, n), AMap.mem_of_get? hr, ?_, rfl⟩)
    rw [child_of_noSuffix _ (hvr.of_get? hr).2]; exact hl
  | @change l r p k a b hl hr hne =>
    intro hvl _
    simp only [emitNode, List.mem_append]
    refine Or.inl (mem_emitLeft_of_mem (AMap.mem_of_get? hl) ?_)
    rw [child_of_noSuffix _ (hvl.of_get? hl).2, hr]
    simp [emitNode, hne]
  | @listDel l r p k xs ys hl hr hne =>
    intro hvl hvr
    simp only [emitNode, List.mem_append]
    refine Or.inl (mem_emitLeft_of_mem (AMap.mem_of_get? hl) ?_)
    rw [child_of_noSuffix _ (hvl.of_get? hl).2, hr]
    have he : equals (.list xs) (.list ys) = false := by
      cases h : equals (.list xs) (.list ys) with
      | false => rfl
      | true =>
        exfalso
        have := equals_sound _ _ (hvl.of_get? hl).1 (hvr.of_get? hr).1 h
        exact hne (by simpa using this)
    simp [emitNode, he]
  | @listAdd l r p k xs ys q v hl hr hne hqv =>
    intro hvl hvr
    simp only [emitNode, List.mem_append]
    refine Or.inl (mem_emitLeft_of_mem (AMap.mem_of_get? hl) ?_)
    rw [child_of_noSuffix _ (hvl.of_get? hl).2, hr]
    have he : equals (.list xs) (.list ys) = false := by
      cases h : equals (.list xs) (.list ys) with
      | false => rfl
      | true =>
        exfalso
        have := equals_sound _ _ (hvl.of_get? hl).1 (hvr.of_get? hr).1 h
        exact hne (by simpa using this)
    simp only [emitNode, he]
    refine List.mem_cons_of_mem _ ?_
    have : Mod.mkAdd q v ∈ flatNode (.list xs) (toPath p k) := mem_flatNode.mpr ⟨q, v, hqv, rfl⟩
    simpa [flatNode] using this
  | @kindDel l r p k x y hl hr hk =>
    intro hvl _
    simp only [emitNode, List.mem_append]
    refine Or.inl (mem_emitLeft_of_mem (AMap.mem_of_get? hl) ?_)
    rw [child_of_noSuffix _ (hvl.of_get? hl).2, hr]
    simp only
    rw [emitNode_of_kind_ne _ hk]
    exact List.mem_cons_self ..
  | @kindAdd l r p k x y q v hl hr hk hqv =>
    intro hvl _
    simp only [emitNode, List.mem_append]
    refine Or.inl (mem_emitLeft_of_mem (AMap.mem_of_get? hl) ?_)
    rw [child_of_noSuffix _ (hvl.of_get? hl).2, hr]
    simp only
    rw [emitNode_of_kind_ne _ hk]
    exact List.mem_cons_of_mem _ (mem_flatNode.mpr ⟨q, v, hqv, rfl⟩)
  | @sub l r l' r' p k m hl hr _ ih =>
    intro hvl hvr
    have := ih (hvl.of_get? hl).1 (hvr.of_get? hr).1
    simp only [emitNode, List.mem_append]
    refine Or.inl (mem_emitLeft_of_mem (AMap.mem_of_get? hl) ?_)
    rw [child_of_noSuffix _ (hvl.of_get? hl).2, hr]
    exact this

theorem emit_mem_iff {l r : AMap Node} (hl : (Node.cont l).Valid) (hr : (Node.cont r).Valid) (p : String) (m : Mod) :
    m ∈ emitNode (.cont l) (.cont r) p ↔ DiffSpec l r p m := by
  constructor
  · intro hm
    simp only [emitNode, List.mem_append] at hm
    rcases hm with hm | hm
    · exact emitLeft_spec_fwd l l r p m
        (fun q hq => ⟨AMap.get?_self_of_sorted hl.sorted q hq, hl.of_cont_mem hq⟩) hr hm
    · obtain ⟨q, hq, hc, rfl⟩ := mem_emitRight.mp hm
      have hqs : hasIdxSuffix q.1 = false := (hr.of_cont_mem hq).2
      rw [child_of_noSuffix _ hqs] at hc
      exact .rightOnly (AMap.get?_self_of_sorted hr.sorted q hq) hc
  · intro h; exact spec_bwd h hl hr

end Ytk
