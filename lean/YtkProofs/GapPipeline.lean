/-
  YtkProofs.GapPipeline — round 8 (clause audit, lean/CLAUSES_B.md): lemmas behind the C12 / C14 additions.

  * `WNE`: well-nested traces in which EVERY before/after pair carries an error that is consistent with
    what happened inside the pair (C12.6);
  * fuel adequacy for the C12 fragment (C12.9): a fuel exists for which the run is not cut short.
-/
import YtkProofs.Pipeline
import YtkProofs.PipelineWF
import YtkProofs.PipelineLoop
import YtkProofs.PipelineData

namespace Ytk.Pipeline

/-! ## well-nested traces whose after-events carry the error of the enclosed run -/

/-- Dyck words over before/after pairs with matching labels in which the error `e` carried by the
    `after` of a pair is the error of what ran inside the pair, as far as the trace shows it:
    `e = none` — no `after` inside carries an error; `e = some x` — inside there is a clean prefix followed
    only by `after _ (some x)` events (the failing operation's own pair and the pairs enclosing it). -/
inductive WNE : List Event → Prop
  | nil : WNE []
  | atom (e : Event) : e.isAtom = true → WNE [e]
  | wrap (l : String) (e : Option Err) {tr : List Event} : WNE tr → (e = none → Clean tr) →
      (∀ x, e = some x → FailTail x tr) → WNE (.before l :: tr ++ [.after l e])
  | app {a b : List Event} : WNE a → WNE b → WNE (a ++ b)

theorem WNE.atoms : ∀ (evs : List Event), (∀ ev ∈ evs, ev.isAtom = true) → WNE evs
  | [], _ => .nil
  | e :: es, h => by
    have := WNE.app (WNE.atom e (h e (by simp))) (WNE.atoms es (fun ev hev => h ev (by simp [hev])))
    simpa using this

/-- forgetting the error annotation gives the plain well-nestedness of `C12.well_nested` -/
theorem WNE.wn {tr : List Event} (h : WNE tr) : WN tr := by
  induction h with
  | nil => exact .nil
  | atom e he => exact .atom e he
  | wrap l e _ _ _ ih => exact .wrap l e ih
  | app _ _ iha ihb => exact .app iha ihb

theorem closed_WNE : Closed (fun r => WNE r.tr ∧ FailFast r) where
  atoms := fun evs st e h => ⟨WNE.atoms evs h, closed_FailFast.atoms evs st e h⟩
  wrap := fun l r h => ⟨WNE.wrap l r.err h.1 h.2.1 h.2.2, closed_FailFast.wrap l r h.2⟩
  andThen := by
    intro r k hr hk
    refine ⟨?_, closed_FailFast.andThen r k hr.2 fun st => (hk st).2⟩
    unfold Res.andThen
    split
    · exact hr.1
    · exact WNE.app hr.1 (hk _).1
  pre := fun evs r h hr => ⟨WNE.app (WNE.atoms evs h) hr.1, closed_FailFast.pre evs r h hr.2⟩
  mapSt := fun _ _ h => h

theorem run_wne (n : Nat) (t : Task) (st : St) : WNE (run n t st).tr := (run_ind closed_WNE n t st).1

/-! ## fuel adequacy for programs of basic operations (the C12 fragment) -/

/-- the side-effect-traceable operations of C12: no sub-actions -/
def Op.basic : Op → Bool
  | .set .. => true
  | .template .. => true
  | .log .. => true
  | .abort .. => true
  | .ext .. => true
  | _ => false

mutual
/-- an action tree all of whose operations are basic -/
def Action.basic : Action → Bool
  | .mk _ _ _ ops cs => ops.all Op.basic && actsBasic cs
def actsBasic : List Action → Bool
  | [] => true
  | a :: as => a.basic && actsBasic as
end

theorem actsBasic_iff : ∀ (as : List Action), actsBasic as = true ↔ ∀ a ∈ as, a.basic = true
  | [] => by simp [actsBasic]
  | a :: as => by simp [actsBasic, actsBasic_iff as]

theorem andThen_err_fuel {r : Res} {k : St → Res} (h : (r.andThen k).err = some .fuel) :
    r.err = some .fuel ∨ (r.err = none ∧ (k r.st).err = some .fuel) := by
  unfold Res.andThen at h
  split at h
  · rename_i e he
    rw [he] at h
    exact Or.inl (he.trans h)
  · rename_i hn
    exact Or.inr ⟨hn, h⟩

theorem guardWhen_err_fuel {w : Option String} {st : St} {k : St → Res}
    (h : (guardWhen w st k).err = some .fuel) : ∃ st', (k st').err = some .fuel := by
  unfold guardWhen at h
  split at h
  · exact ⟨st, h⟩
  · split at h
    · cases h
    · cases h
    · exact ⟨st, h⟩

theorem extOp_err_ne_fuel (fn id : String) (n : Nat) (st : St) : (extOp fn id n st).err ≠ some .fuel := by
  unfold extOp
  simp only
  split
  · simp [wrap]
  · split
    · simp [wrap]
    · split
      · simp [wrap]
      · simp [Res.fail]

theorem setOp_err_ne_fuel (data : Option Node) (p : String) (s : Option String) (d : AMap Node) :
    setOp data p s d ≠ .error .fuel := by
  unfold setOp
  cases data with
  | none => simp
  | some dn =>
    simp only
    split
    · split
      · split <;> simp
      · simp
    · split
      · split <;> simp
      · simp

theorem templateOp_err_ne_fuel (t p : String) (tr : Bool) (pa : Option String) (d : AMap Node) :
    (templateOp t p tr pa d).2 ≠ some .fuel := by
  unfold templateOp
  split
  · simp
  · split
    · simp
    · simp only
      split
      · simp
      · split
        · split <;> simp
        · simp

/-- one basic operation through Execute: one unit of fuel is enough -/
theorem op_basic_no_fuel (n : Nat) (o : Op) (ho : o.basic = true) (st : St) :
    (run (n + 1) (.op o) st).err ≠ some .fuel := by
  cases o with
  | set d p s =>
    simp only [run, wrap]
    have := setOp_err_ne_fuel d p s st.data
    split
    · simp [Res.ok]
    · rename_i e he
      simp only [Res.fail]
      intro h
      apply this
      rw [he]
      simp only [Option.some.injEq] at h
      rw [h]
  | template t p tr pa => simpa [run, wrap] using templateOp_err_ne_fuel t p tr pa st.data
  | log m => simp [run, wrap]
  | abort m => simp [run, wrap, Res.fail]
  | ext fn id k => simpa [run, wrap] using extOp_err_ne_fuel fn id k st
  | forEach q its v b => cases ho
  | loop i t b p => cases ho
  | call nm ap args => cases ho
  | define nm b => cases ho

/-- OpSpec.Do over basic operations: `length + 2` units -/
theorem ops_basic_no_fuel : ∀ (os : List Op), (∀ o ∈ os, o.basic = true) → ∀ (n : Nat), os.length + 2 ≤ n →
    ∀ st, (run n (.ops os) st).err ≠ some .fuel
  | [], _, n, hn, st => by
    obtain ⟨m, rfl⟩ : ∃ m, n = m + 1 := ⟨n - 1, by omega⟩
    simp [run, Res.ok]
  | o :: os, h, n, hn, st => by
    obtain ⟨m, rfl⟩ : ∃ m, n = m + 2 := ⟨n - 2, by simp only [List.length_cons] at hn; omega⟩
    intro hf
    rw [show run (m + 2) (.ops (o :: os)) st =
      (run (m + 1) (.op o) st).andThen fun st => run (m + 1) (.ops os) st from rfl] at hf
    rcases andThen_err_fuel hf with h1 | ⟨_, h2⟩
    · exact op_basic_no_fuel m o (h o (by simp)) st h1
    · exact ops_basic_no_fuel os (fun o' ho' => h o' (by simp [ho'])) (m + 1)
        (by simp only [List.length_cons] at hn; omega) _ h2

/-- ChildActions.Do: if fuel `N` is enough for Execute of every listed child, `N + length + 1` is enough
    for the list -/
theorem steps_no_fuel (N : Nat) : ∀ (l : List Action),
    (∀ c ∈ l, ∀ n, N ≤ n → ∀ st, (run n (.act c) st).err ≠ some .fuel) →
    ∀ (n : Nat), N + l.length + 1 ≤ n → ∀ st, (run n (.steps l) st).err ≠ some .fuel
  | [], _, n, hn, st => by
    obtain ⟨m, rfl⟩ : ∃ m, n = m + 1 := ⟨n - 1, by omega⟩
    simp [run, Res.ok]
  | a :: as, h, n, hn, st => by
    obtain ⟨m, rfl⟩ : ∃ m, n = m + 1 := ⟨n - 1, by omega⟩
    intro hf
    rw [show run (m + 1) (.steps (a :: as)) st =
      (run m (.act a) st).andThen fun st => run m (.steps as) st from rfl] at hf
    simp only [List.length_cons] at hn
    rcases andThen_err_fuel hf with h1 | ⟨_, h2⟩
    · exact h a (by simp) m (by omega) st h1
    · exact steps_no_fuel N as (fun c hc => h c (by simp [hc])) m (by omega) _ h2

/-- Execute(ActionSpec) from enough fuel for its operations and for its (sorted) children -/
theorem act_no_fuel_of (a : Action) (hops : ∀ o ∈ a.ops, o.basic = true) (N : Nat)
    (hcs : ∀ c ∈ a.children, ∀ n, N ≤ n → ∀ st, (run n (.act c) st).err ≠ some .fuel) :
    ∀ n, N + a.children.length + Generated.opOrder.length + 5 ≤ n → ∀ st, (run n (.act a) st).err ≠ some .fuel := by
  intro n hn st hf
  obtain ⟨m, rfl⟩ : ∃ m, n = m + 2 := ⟨n - 2, by omega⟩
  have hlen : (opsOf a).length ≤ Generated.opOrder.length := by
    unfold opsOf opsIn; exact List.length_filterMap_le _ _
  have hbasic : ∀ o ∈ opsOf a, o.basic = true := fun o ho => hops o (mem_opsIn ho)
  have hsorted : ∀ c ∈ sortActs a.children, ∀ n, N ≤ n → ∀ st, (run n (.act c) st).err ≠ some .fuel :=
    fun c hc => hcs c ((sortActs_perm a.children).mem_iff.mp hc)
  have hslen : (sortActs a.children).length = a.children.length := (sortActs_perm a.children).length_eq
  -- unfold the two layers: Execute, then ActionSpec.Do
  have e : run (m + 2) (.act a) st = wrap a.label (guardWhen a.when_ st fun st =>
      (wrap "ops" (run m (.ops (opsOf a)) st)).andThen fun st =>
        guardWhen a.when_ st fun st => wrap "steps" (run m (.steps (sortActs a.children)) st)) := rfl
  rw [e] at hf
  have hf' : (guardWhen a.when_ st fun st =>
      (wrap "ops" (run m (.ops (opsOf a)) st)).andThen fun st =>
        guardWhen a.when_ st fun st => wrap "steps" (run m (.steps (sortActs a.children)) st)).err = some .fuel := hf
  obtain ⟨st1, h1⟩ := guardWhen_err_fuel hf'
  rcases andThen_err_fuel h1 with h2 | ⟨_, h2⟩
  · exact ops_basic_no_fuel _ hbasic m (by omega) st1 h2
  · obtain ⟨st2, h3⟩ := guardWhen_err_fuel h2
    exact steps_no_fuel N _ hsorted m (by rw [hslen]; omega) st2 h3

mutual
/-- for every action tree of basic operations there is a fuel from which on Execute never reports
    `Err.fuel`, whatever the state -/
theorem act_basic_fuel : ∀ (a : Action), a.basic = true →
    ∃ N, ∀ n, N ≤ n → ∀ st, (run n (.act a) st).err ≠ some .fuel
  | .mk nm o w ops cs, h => by
    simp only [Action.basic, Bool.and_eq_true, List.all_eq_true] at h
    obtain ⟨N, hN⟩ := acts_basic_fuel cs h.2
    exact ⟨N + cs.length + Generated.opOrder.length + 5,
      act_no_fuel_of (.mk nm o w ops cs) h.1 N hN⟩
theorem acts_basic_fuel : ∀ (as : List Action), actsBasic as = true →
    ∃ N, ∀ c ∈ as, ∀ n, N ≤ n → ∀ st, (run n (.act c) st).err ≠ some .fuel
  | [], _ => ⟨0, by simp⟩
  | a :: as, h => by
    simp only [actsBasic, Bool.and_eq_true] at h
    obtain ⟨N1, h1⟩ := act_basic_fuel a h.1
    obtain ⟨N2, h2⟩ := acts_basic_fuel as h.2
    refine ⟨max N1 N2, ?_⟩
    intro c hc n hn st
    simp only [List.mem_cons] at hc
    rcases hc with rfl | hc
    · exact h1 n (by omega) st
    · exact h2 c hc n (by omega) st
end

/-! ## binding and unbinding a top-level key (forEach variable, single-key call arguments) -/

/-- binding a fresh key and removing it again gives the map back -/
theorem erase_insert_fresh {α : Type} {m : AMap α} (hs : AMap.Sorted m) {k : String} (a : α)
    (h : AMap.get? m k = none) : AMap.erase (AMap.insert m k a) k = m := by
  apply AMap.ext_of_sorted (AMap.sorted_erase (AMap.sorted_insert hs k a) k) hs
  intro x
  by_cases hx : x = k
  · subst hx
    rw [AMap.get?_erase_self (AMap.sorted_insert hs x a), h]
  · rw [AMap.get?_erase_ne _ hx, AMap.get?_insert_ne _ _ hx]

/-- strictly sorted keys are pairwise distinct -/
theorem sorted_keys_nodup {α : Type} : ∀ {m : AMap α}, AMap.Sorted m → (m.map (·.1)).Nodup
  | [], _ => List.nodup_nil
  | (k, v) :: m, h => by
    cases h with
    | cons hgt hs =>
      simp only [List.map_cons, List.nodup_cons, List.mem_map, not_exists, not_and]
      refine ⟨?_, sorted_keys_nodup hs⟩
      intro p hp he
      have := hgt p hp
      rw [he] at this
      exact absurd this (String.lt_irrefl _)

/-! ## CloneWith in the interpreter model: template-free operations are their own clones (C15 ↔ C14) -/

mutual
/-- no text field that CloneWith renders looks like a template -/
def Op.tfree : Op → Bool
  | .set _ p _ => !possiblyTemplate p
  | .template _ p _ _ => !possiblyTemplate p
  | .log m => !possiblyTemplate m
  | .abort m => !possiblyTemplate m
  | .ext .. => true
  | .forEach _ _ _ b => b.tfree
  | .loop i _ b p => optTfree i && b.tfree && optTfree p
  | .call .. => true
  | .define _ b => b.tfree
def Action.tfree : Action → Bool
  | .mk _ _ _ ops cs => opsTfree ops && actsTfree cs
def optTfree : Option Action → Bool
  | none => true
  | some a => a.tfree
def opsTfree : List Op → Bool
  | [] => true
  | o :: os => o.tfree && opsTfree os
def actsTfree : List Action → Bool
  | [] => true
  | a :: as => a.tfree && actsTfree as
end

theorem renderLenient_of_not_template {t : String} (d : AMap Node) (h : possiblyTemplate t = false) :
    renderLenient t d = t := by
  simp [renderLenient, h]

mutual
theorem cloneOp_tfree (d : AMap Node) : ∀ (o : Op), o.tfree = true → cloneOp d o = o
  | .set data p s, h => by
    simp only [Op.tfree, Bool.not_eq_true'] at h
    simp [cloneOp, renderLenient_of_not_template d h]
  | .template t p tr pa, h => by
    simp only [Op.tfree, Bool.not_eq_true'] at h
    simp [cloneOp, renderLenient_of_not_template d h]
  | .log m, h => by
    simp only [Op.tfree, Bool.not_eq_true'] at h
    simp [cloneOp, renderLenient_of_not_template d h]
  | .abort m, h => by
    simp only [Op.tfree, Bool.not_eq_true'] at h
    simp [cloneOp, renderLenient_of_not_template d h]
  | .ext fn id n, _ => rfl
  | .forEach q its v b, h => by
    simp only [Op.tfree] at h
    simp [cloneOp, cloneAct_tfree d b h]
  | .loop i t b p, h => by
    simp only [Op.tfree, Bool.and_eq_true] at h
    simp [cloneOp, cloneOptAct_tfree d i h.1.1, cloneAct_tfree d b h.1.2, cloneOptAct_tfree d p h.2]
  | .call n ap args, _ => rfl
  | .define n b, h => by
    simp only [Op.tfree] at h
    simp [cloneOp, cloneAct_tfree d b h]
theorem cloneAct_tfree (d : AMap Node) : ∀ (a : Action), a.tfree = true → cloneAct d a = a
  | .mk n o w ops cs, h => by
    simp only [Action.tfree, Bool.and_eq_true] at h
    simp [cloneAct, cloneOps_tfree d ops h.1, cloneActs_tfree d cs h.2]
theorem cloneOptAct_tfree (d : AMap Node) : ∀ (a : Option Action), optTfree a = true → cloneOptAct d a = a
  | none, _ => rfl
  | some a, h => by
    simp only [optTfree] at h
    simp [cloneOptAct, cloneAct_tfree d a h]
theorem cloneOps_tfree (d : AMap Node) : ∀ (os : List Op), opsTfree os = true → cloneOps d os = os
  | [], _ => rfl
  | o :: os, h => by
    simp only [opsTfree, Bool.and_eq_true] at h
    simp [cloneOps, cloneOp_tfree d o h.1, cloneOps_tfree d os h.2]
theorem cloneActs_tfree (d : AMap Node) : ∀ (as : List Action), actsTfree as = true → cloneActs d as = as
  | [], _ => rfl
  | a :: as, h => by
    simp only [actsTfree, Bool.and_eq_true] at h
    simp [cloneActs, cloneAct_tfree d a h.1, cloneActs_tfree d as h.2]
end

theorem opsTfree_iff : ∀ (os : List Op), opsTfree os = true ↔ ∀ o ∈ os, o.tfree = true
  | [] => by simp [opsTfree]
  | o :: os => by simp [opsTfree, opsTfree_iff os]

/-- performWithItem's "clone, then Execute" loop over template-free operations is OpSpec.Do's plain loop -/
theorem run_cloneOps_tfree : ∀ (n : Nat) (os : List Op), (∀ o ∈ os, o.tfree = true) → ∀ st,
    run n (.cloneOps os) st = run n (.ops os) st
  | 0, _, _, _ => rfl
  | _ + 1, [], _, _ => rfl
  | n + 1, o :: os, h, st => by
    show (run n (.op (cloneOp st.data o)) st).andThen (fun st => run n (.cloneOps os) st) =
      (run n (.op o) st).andThen fun st => run n (.ops os) st
    rw [cloneOp_tfree st.data o (h o (by simp))]
    congr 1
    funext st'
    exact run_cloneOps_tfree n os (fun o' ho' => h o' (by simp [ho'])) st'

end Ytk.Pipeline
