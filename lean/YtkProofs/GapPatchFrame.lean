/-
  YtkProofs.GapPatchFrame — round 8: a FRAME law for the RFC 6902 reference of C09 (`Patch.modify` and the
  operations built from it), used for the pipeline's PatchOp (C13 clause "changes only its target location").

  Locations are RFC 6901 token lists, read with `Ptr.getTok`.  Two locations part AT A MEMBER NAME when they
  share a prefix `pre` that resolves to an object and continue with two different member names.  (Under an
  ARRAY an insertion or removal shifts the later elements — that is the RFC's semantics, not a frame
  violation — so index divergence is not claimed.)
-/
import YtkProofs.Patch

namespace Ytk.Patch
open Ytk.Ptr

/-- a last-token operation that leaves the OTHER members of an object parent alone -/
def LastFrame (f : Node → String → Option Node) : Prop :=
  ∀ kvs t par', f (.cont kvs) t = some par' →
    ∃ kvs', par' = .cont kvs' ∧ ∀ u, u ≠ t → AMap.get? kvs' u = AMap.get? kvs u

theorem lastFrame_add (v : Node) : LastFrame (fun par t => addLast par t v) := by
  intro kvs t par' h
  simp only [addLast, Option.some.injEq] at h
  exact ⟨_, h.symm, fun u hu => AMap.get?_insert_ne _ _ hu⟩

theorem lastFrame_remove : LastFrame removeLast := by
  intro kvs t par' h
  simp only [removeLast] at h
  split at h
  · simp only [Option.some.injEq] at h
    exact ⟨_, h.symm, fun u hu => AMap.get?_erase_ne _ hu⟩
  · cases h

theorem lastFrame_replace (v : Node) : LastFrame (fun par t => replaceLast par t v) := by
  intro kvs t par' h
  simp only [replaceLast] at h
  split at h
  · simp only [Option.some.injEq] at h
    exact ⟨_, h.symm, fun u hu => AMap.get?_insert_ne _ _ hu⟩
  · cases h

theorem getTok_cont_cons (kvs : AMap Node) (t : String) (ts : Path) :
    getTok (.cont kvs) (t :: ts) = (match AMap.get? kvs t with | some c => getTok c ts | none => none) := rfl

/-- FRAME for `modify`: if the target `pre ++ t :: ps` and another location `pre ++ u :: qs` part at two
    different member names `t ≠ u` of the object at `pre`, the other location holds after the modification
    what it held before -/
theorem modify_frame_key {f : Node → String → Option Node} (hf : LastFrame f) :
    ∀ (pre : Path) (d d' : Node) (t u : String) (ps qs : Path), t ≠ u →
      (∃ kvs, getTok d pre = some (.cont kvs)) → modify f d (pre ++ t :: ps) = some d' →
      getTok d' (pre ++ u :: qs) = getTok d (pre ++ u :: qs)
  | [], d, d', t, u, ps, qs, htu, ⟨kvs, hk⟩, hm => by
    simp only [getTok, Option.some.injEq] at hk
    subst hk
    simp only [List.nil_append] at hm ⊢
    cases ps with
    | nil =>
      simp only [modify] at hm
      obtain ⟨kvs', rfl, hfr⟩ := hf kvs t d' hm
      simp only [getTok_cont_cons, hfr u (Ne.symm htu)]
    | cons t2 ts =>
      simp only [modify] at hm
      split at hm
      · simp only [Option.map_eq_some_iff] at hm
        obtain ⟨c', _, rfl⟩ := hm
        simp only [getTok_cont_cons, AMap.get?_insert_ne _ _ (Ne.symm htu)]
      · cases hm
  | a :: pre, d, d', t, u, ps, qs, htu, ⟨kvs, hk⟩, hm => by
    -- the target has at least two tokens: `modify` descends through `a`
    obtain ⟨b, rest, hrest⟩ : ∃ b rest, pre ++ t :: ps = b :: rest := by
      cases pre with
      | nil => exact ⟨t, ps, rfl⟩
      | cons x xs => exact ⟨x, xs ++ t :: ps, rfl⟩
    simp only [List.cons_append] at hm ⊢
    rw [hrest] at hm
    cases d with
    | leaf s => simp [modify] at hm
    | cont dk =>
      simp only [modify] at hm
      cases hg : AMap.get? dk a with
      | none => simp [hg] at hm
      | some c =>
        simp only [hg, Option.map_eq_some_iff] at hm
        obtain ⟨c', hc', rfl⟩ := hm
        rw [← hrest] at hc'
        have hkc : getTok c pre = some (.cont kvs) := by
          simpa only [getTok_cont_cons, hg] using hk
        have ih := modify_frame_key hf pre c c' t u ps qs htu ⟨kvs, hkc⟩ hc'
        simp only [getTok_cont_cons, AMap.get?_insert_self, hg, ih]
    | list xs =>
      simp only [modify] at hm
      cases hci : canonIdx a with
      | none => simp [hci] at hm
      | some i =>
        cases hx : xs[i]? with
        | none => simp [hci, hx] at hm
        | some c =>
          simp only [hci, hx, Option.map_eq_some_iff] at hm
          obtain ⟨c', hc', rfl⟩ := hm
          rw [← hrest] at hc'
          have hkc : getTok c pre = some (.cont kvs) := by
            simpa only [getTok, hci, hx] using hk
          have ih := modify_frame_key hf pre c c' t u ps qs htu ⟨kvs, hkc⟩ hc'
          have hi : i < xs.length := (List.getElem?_eq_some_iff.mp hx).1
          have hset : (xs.set i c')[i]? = some c' := by
            rw [List.getElem?_set_self (by simpa using hi)]
          simp only [getTok, hci, hset, hx, ih]

/-- the frame law for the single-location operations of the reference: add, remove, replace, copy (an add
    at `path`), test (no change) -/
theorem rfc6902_frame_key (o : OpObj) (d d' : Node) (pre : Path) (t u : String) (ps qs : Path)
    (hop : o.op = "add" ∨ o.op = "remove" ∨ o.op = "replace" ∨ o.op = "copy" ∨ o.op = "test")
    (hp : o.path = some (pre ++ t :: ps)) (htu : t ≠ u) (hk : ∃ kvs, getTok d pre = some (.cont kvs))
    (h : rfc6902 o d = some d') : getTok d' (pre ++ u :: qs) = getTok d (pre ++ u :: qs) := by
  simp only [rfc6902, hp] at h
  rcases hop with ho | ho | ho | ho | ho
  · simp only [ho, if_true] at h
    split at h
    · exact modify_frame_key (lastFrame_add _) pre d d' t u ps qs htu hk h
    · cases h
  · simp only [ho, String.reduceEq, if_false, if_true] at h
    exact modify_frame_key lastFrame_remove pre d d' t u ps qs htu hk h
  · simp only [ho, String.reduceEq, if_false, if_true] at h
    split at h
    · exact modify_frame_key (lastFrame_replace _) pre d d' t u ps qs htu hk h
    · cases h
  · simp only [ho, String.reduceEq, if_false, if_true] at h
    split at h
    · split at h
      · exact modify_frame_key (lastFrame_add _) pre d d' t u ps qs htu hk h
      · cases h
    · cases h
  · simp only [ho, String.reduceEq, if_false, if_true] at h
    split at h
    · split at h
      · split at h
        · cases h; rfl
        · cases h
      · cases h
    · cases h

end Ytk.Patch
