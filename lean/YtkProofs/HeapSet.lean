/-
  YtkProofs.HeapSet — the payload of a SetOp execution is a graph of NEW cells (nulls: the shared
  nil leaf): `decodeNode` only allocates.
-/
import YtkProofs.HeapOverlay
import YtkModel.HeapSet

namespace Ytk.Heap
open Heap

mutual
theorem decodeNode_le : ∀ (n : Node) (h : Heap), h ≤ (decodeNode h n).1
  | .leaf s, h => by
    simp only [decodeNode]
    split
    · exact le_refl _
    · exact le_alloc _ _
  | .list xs, h => by
    simp only [decodeNode]
    have := decodeList_le xs h
    generalize decodeList h xs = r at this
    obtain ⟨h1, as⟩ := r
    exact le_trans this (le_alloc _ _)
  | .cont kvs, h => by
    simp only [decodeNode]
    have := decodeKvs_le kvs h
    generalize decodeKvs h kvs = r at this
    obtain ⟨h1, m⟩ := r
    exact le_trans this (le_alloc _ _)
theorem decodeList_le : ∀ (xs : List Node) (h : Heap), h ≤ (decodeList h xs).1
  | [], h => le_refl _
  | x :: xs, h => by
    simp only [decodeList]
    have h1 := decodeNode_le x h
    generalize decodeNode h x = r1 at h1
    obtain ⟨g, a⟩ := r1
    have h2 := decodeList_le xs g
    generalize decodeList g xs = r2 at h2
    obtain ⟨g2, as⟩ := r2
    exact le_trans h1 h2
theorem decodeKvs_le : ∀ (kvs : List (String × Node)) (h : Heap), h ≤ (decodeKvs h kvs).1
  | [], h => le_refl _
  | (k, x) :: xs, h => by
    simp only [decodeKvs]
    have h1 := decodeNode_le x h
    generalize decodeNode h x = r1 at h1
    obtain ⟨g, a⟩ := r1
    have h2 := decodeKvs_le xs g
    generalize decodeKvs g xs = r2 at h2
    obtain ⟨g2, as⟩ := r2
    exact le_trans h1 h2
end

/-- `FromMap(data)`: nothing old is written, the root and EVERY cell reachable from it was allocated
    by this call — except nulls, which are the shared nil leaf -/
theorem decodeNode_fresh (n : Node) (h : Heap) (hnil : h.NilOk) :
    h ≤ (decodeNode h n).1 ∧
    ∀ b, Reach (decodeNode h n).1 (decodeNode h n).2 b → h.size ≤ b ∨ b = nilAddr := by
  refine ⟨decodeNode_le n h, ?_⟩
  let R : Addr → Prop := fun b => h.size ≤ b ∨ b = nilAddr
  have hc : ClosedIn R h := by
    intro a c ha hg k hk
    rcases ha with ha | rfl
    · exact absurd (get?_lt hg) (Nat.not_lt.mpr ha)
    · rw [hnil] at hg; cases Option.some.inj hg; simp [Cell.kids] at hk
  have hf : FreshIn R h := fun a ha => Or.inl ha
  obtain ⟨u, hr⟩ := decodeNode_upd (R := R) (Or.inr rfl) n h hc hf
  intro b hb
  exact u.closed.reach hr hb

end Ytk.Heap
