/-
  YtkProofs.HeapPatchFold — n executions of ONE pipeline PatchOp as a fold over the heap
  (YtkModel/HeapPatch.lean `patchOpDoH`): the heap never shrinks along the fold, so the heap the j-th
  execution starts from is at least as large as the heap the i-th execution (i < j) ended with.

  * `PatchRun`, `patchOpRuns`     the fold: for every destination path the heap before, the path, the result
  * `patchOpRuns_res`             every entry is `patchOpDoH` applied to its `before` heap
  * `patchOpRuns_before_ge`       every entry starts from a heap at least as large as the start heap
  * `patchOpRuns_ordered`         i < j  ⇒  (runs[i]).after.size ≤ (runs[j]).before.size
-/
import YtkProofs.HeapPatch

namespace Ytk.Heap
open Heap
open Ytk.Ptr (Path atoi parent lastSegment)

/-- one execution in a history: the heap it starts from, its destination path, its result -/
structure PatchRun where
  before : Heap
  path : Path
  res : HRes

/-- the heap after the execution -/
def PatchRun.after (e : PatchRun) : Heap := e.res.1

/-- n executions of ONE PatchOp — same op name, `from` and value source (the forEach clones of one op
    object share them) —, one per destination path, folded over the heap.  Failed executions stay in
    the history: the next one starts from whatever heap they left. -/
def patchOpRuns (op : String) (frm : Option Path) (src : ValueSrc) (root : Addr) : Heap → List Path → List PatchRun
  | _, [] => []
  | h, p :: ps =>
    ⟨h, p, patchOpDoH op frm (some p) src h root⟩ ::
      patchOpRuns op frm src root (patchOpDoH op frm (some p) src h root).1 ps

theorem patchOpRuns_res (op : String) (frm : Option Path) (src : ValueSrc) (root : Addr) :
    ∀ (ps : List Path) (h : Heap) (e : PatchRun), e ∈ patchOpRuns op frm src root h ps →
      e.res = patchOpDoH op frm (some e.path) src e.before root
  | [], _, _, he => by simp [patchOpRuns] at he
  | p :: ps, h, e, he => by
    simp only [patchOpRuns, List.mem_cons] at he
    rcases he with rfl | he
    · rfl
    · exact patchOpRuns_res op frm src root ps _ e he

theorem patchOpRuns_before_ge (op : String) (frm : Option Path) (src : ValueSrc) (root : Addr) :
    ∀ (ps : List Path) (h : Heap) (e : PatchRun), e ∈ patchOpRuns op frm src root h ps → h.size ≤ e.before.size
  | [], _, _, he => by simp [patchOpRuns] at he
  | p :: ps, h, e, he => by
    simp only [patchOpRuns, List.mem_cons] at he
    rcases he with rfl | he
    · exact Nat.le_refl _
    · exact Nat.le_trans (patchOpDoH_size_le op frm (some p) src h root)
        (patchOpRuns_before_ge op frm src root ps _ e he)

theorem patchOpRuns_ordered (op : String) (frm : Option Path) (src : ValueSrc) (root : Addr) :
    ∀ (ps : List Path) (h : Heap) (i j : Nat) (ei ej : PatchRun), i < j →
      (patchOpRuns op frm src root h ps)[i]? = some ei → (patchOpRuns op frm src root h ps)[j]? = some ej →
      ei.after.size ≤ ej.before.size
  | [], _, _, _, _, _, _, hi, _ => by simp [patchOpRuns] at hi
  | p :: ps, h, 0, j + 1, ei, ej, _, hi, hj => by
    simp only [patchOpRuns, List.getElem?_cons_zero, List.getElem?_cons_succ, Option.some.injEq] at hi hj
    subst hi
    exact patchOpRuns_before_ge op frm src root ps _ ej (List.mem_of_getElem? hj)
  | p :: ps, h, i + 1, j + 1, ei, ej, hij, hi, hj => by
    simp only [patchOpRuns, List.getElem?_cons_succ] at hi hj
    exact patchOpRuns_ordered op frm src root ps _ i j ei ej (Nat.lt_of_succ_lt_succ hij) hi hj
  | p :: ps, h, _, 0, _, _, hij, _, _ => absurd hij (Nat.not_lt_zero _)

end Ytk.Heap
