/-
  YtkProofs.ResolverNestedConv — the CONVERSE of `evalT2_refines` (YtkProofs/ResolverNested.lean):
  whenever the resolver model ends on a rendered nested-key template (with a text or with a
  circular reference), the recursive-descent reference evaluator `evalT2` ends as well — and then,
  by `evalT2_refines` and uniqueness of the resolver's result, with the SAME result.

  Ingredients:
  * fuel monotonicity of `evalT2` (`evalT2_fuel_mono`) and stability of `keySafe` once the run has
    ended (`keySafe_fuel_mono`);
  * inversion of "the resolver ends on a concatenation" at a FIXED fuel (`Ends.append_inv`):
    for a balanced left part the same fuel suffices for the left part alone and, if the left part
    gives a text, for the right part alone;
  * the key-safety hypothesis in a fuel-independent form: `KeySafeEv tt t st` = the run is key-safe
    for every sufficiently large fuel (`keySafe` inspects only what `evalT2` executes, which depends
    on the fuel); it is inherited by every sub-run that is really executed (`KeySafeEv.ph_*`,
    `KeySafeEv.phd_*`), follows from the static table-level predicate (`KeySafeEv.of_static`) and
    from key-safety of ONE run that ends (`KeySafeEv.of_run`);
  * totality of the evaluator (`evalT2_total`: every table, template and stack; measure = placeholder
    texts not yet on the stack, then the structure of the template), by which all these forms of
    the hypothesis say the same: the run is key-safe when it has ended (`KeySafeEv.of_ended/ended`).
-/
import YtkProofs.ResolverNested
import YtkProofs.ResolverRelex

namespace Ytk.Resolver

/-! ## fuel monotonicity of the nested-key evaluator -/

theorem evalT2_fuel_succ (tt : TTable2) :
    ∀ (n : Nat) (t : Tmpl2) (st : List Toks), evalT2 tt n t st ≠ .outOfFuel →
      evalT2 tt (n + 1) t st = evalT2 tt n t st := by
  intro n
  induction n with
  | zero => intro t st h; exact absurd rfl h
  | succ n ih =>
    intro t st h
    cases t with
    | done => rfl
    | lit a rest =>
      simp only [evalT2] at h ⊢
      rw [ih rest st (prepend_ne_outOfFuel.mp h)]
    | ph key rest =>
      simp only [evalT2] at h ⊢
      by_cases hc : st.contains (render2 key) = true
      · simp only [hc, if_true]
      · simp only [hc] at h ⊢
        cases e1 : evalT2 tt n key (st ++ [render2 key]) with
        | outOfFuel => simp [e1] at h
        | cycle o => rw [ih key _ (by rw [e1]; simp), e1]
        | ok k' =>
          rw [ih key _ (by rw [e1]; simp), e1]
          simp only [e1] at h ⊢
          cases hg : tt.get k' with
          | none =>
            simp only [hg] at h ⊢
            rw [ih rest st (prepend_ne_outOfFuel.mp h)]
          | some v =>
            simp only [hg] at h ⊢
            cases e2 : evalT2 tt n v (st ++ [render2 key]) with
            | outOfFuel => simp [e2] at h
            | cycle o => rw [ih v _ (by rw [e2]; simp), e2]
            | ok v' =>
              rw [ih v _ (by rw [e2]; simp), e2]
              simp only [e2] at h ⊢
              rw [ih rest st (prepend_ne_outOfFuel.mp h)]
    | phd key d rest =>
      simp only [evalT2] at h ⊢
      by_cases hc : st.contains (rawD2 key d) = true
      · simp only [hc, if_true]
      · simp only [hc] at h ⊢
        cases e1 : evalT2 tt n key (st ++ [rawD2 key d]) with
        | outOfFuel => simp [e1] at h
        | cycle o => rw [ih key _ (by rw [e1]; simp), e1]
        | ok k' =>
          rw [ih key _ (by rw [e1]; simp), e1]
          simp only [e1] at h ⊢
          cases e3 : evalT2 tt n d (st ++ [rawD2 key d]) with
          | outOfFuel => simp [e3] at h
          | cycle o => rw [ih d _ (by rw [e3]; simp), e3]
          | ok d' =>
            rw [ih d _ (by rw [e3]; simp), e3]
            simp only [e3] at h ⊢
            cases hg : tt.get k' with
            | none =>
              simp only [hg] at h ⊢
              rw [ih rest st (prepend_ne_outOfFuel.mp h)]
            | some v =>
              simp only [hg] at h ⊢
              cases e2 : evalT2 tt n v (st ++ [rawD2 key d]) with
              | outOfFuel => simp [e2] at h
              | cycle o => rw [ih v _ (by rw [e2]; simp), e2]
              | ok v' =>
                rw [ih v _ (by rw [e2]; simp), e2]
                simp only [e2] at h ⊢
                rw [ih rest st (prepend_ne_outOfFuel.mp h)]

theorem evalT2_fuel_mono (tt : TTable2) {n m : Nat} (hnm : n ≤ m) (t : Tmpl2) (st : List Toks)
    (h : evalT2 tt n t st ≠ .outOfFuel) : evalT2 tt m t st = evalT2 tt n t st := by
  induction hnm with
  | refl => rfl
  | step hle ih => rw [evalT2_fuel_succ tt _ t st (by rw [ih]; exact h), ih]

theorem evalT2_ok_mono {tt : TTable2} {n m : Nat} {t : Tmpl2} {st : List Toks} {x : Toks}
    (h : evalT2 tt n t st = .ok x) (hnm : n ≤ m) : evalT2 tt m t st = .ok x := by
  rw [evalT2_fuel_mono tt hnm t st (by rw [h]; simp), h]

/-- the result of the evaluator (a text or a circular reference) is unique, whatever the fuel -/
theorem evalT2_unique {tt : TTable2} {n m : Nat} {t : Tmpl2} {st : List Toks}
    (hn : evalT2 tt n t st ≠ .outOfFuel) (hm : evalT2 tt m t st ≠ .outOfFuel) :
    evalT2 tt n t st = evalT2 tt m t st := by
  rw [← evalT2_fuel_mono tt (Nat.le_max_left n m) t st hn,
    ← evalT2_fuel_mono tt (Nat.le_max_right n m) t st hm]

/-! ## "the resolver ends on a concatenation", inverted at a fixed fuel -/

section ends

variable {norm : Toks → Toks} {tbl : Table}

theorem balanced_firstPh_none {s : Toks} (hb : Balanced s) (h : firstPh s = none) : Tok.pre ∉ s := by
  cases hfp : findPre s with
  | none => exact findPre_eq_none hfp
  | some p =>
    obtain ⟨before, afterPre⟩ := p
    obtain ⟨ph, after, hfe, _⟩ := balanced_findPre hb hfp
    rw [firstPh_of hfp hfe] at h
    cases h

theorem balanced_firstPh_after {s before ph after : Toks} (hb : Balanced s)
    (h : firstPh s = some (before, ph, after)) : Balanced after := by
  obtain ⟨afterPre, h₁, h₂⟩ := firstPh_split h
  obtain ⟨ph', after', hfe, hb'⟩ := balanced_findPre hb h₁
  rw [h₂] at hfe
  cases hfe
  exact hb'

/-- if fuel `n` suffices for `s₁ ++ s₂` with `s₁` balanced, then it suffices for `s₁` alone, and —
    when `s₁` resolves to a text — for `s₂` alone (the scanner reaches `s₂` with the fuel that the
    placeholders of `s₁` have left) -/
theorem Ends.append_inv (s₂ : Toks) :
    ∀ (n : Nat) (s₁ : Toks) (seen : List Toks), Balanced s₁ → Ends norm tbl n (s₁ ++ s₂) seen →
      Ends norm tbl n s₁ seen ∧
        ∀ t, resolve norm n tbl s₁ seen = .ok t → Ends norm tbl n s₂ seen := by
  intro n
  induction n with
  | zero => intro s₁ seen _ h; exact absurd h not_ends_zero
  | succ n ih =>
    intro s₁ seen hb h
    cases hf : firstPh s₁ with
    | none =>
      have hp : Tok.pre ∉ s₁ := balanced_firstPh_none hb hf
      refine ⟨?_, fun _ _ => Ends.text h hp⟩
      unfold Ends
      rw [resolve_noPre' norm n tbl seen hp]; simp
    | some p =>
      obtain ⟨before, ph, after⟩ := p
      have hb' : Balanced after := balanced_firstPh_after hb hf
      have hf' := firstPh_append s₂ hf
      by_cases hc : ph ∈ seen
      · refine ⟨?_, fun t e => ?_⟩
        · unfold Ends; rw [resolve_succ_here n hf hc]; simp
        · rw [resolve_succ_here n hf hc] at e; cases e
      · unfold Ends at h ⊢
        rw [resolve_succ_some n hf' hc] at h
        rw [resolve_succ_some n hf hc]
        unfold body at h ⊢
        cases h1 : resolve norm n tbl ph (seen ++ [ph]) with
        | outOfFuel => simp [h1] at h
        | cycle o => exact ⟨by simp, fun t e => by cases e⟩
        | ok ph' =>
          simp only [h1] at h ⊢
          cases hp : resolvePlaceholder tbl (norm ph') with
          | none =>
            simp only [hp] at h ⊢
            obtain ⟨i1, i2⟩ := ih after seen hb' (prepend_ne_outOfFuel.mp h)
            refine ⟨prepend_ne_outOfFuel.mpr i1, fun t e => ?_⟩
            obtain ⟨t', e', _⟩ := prepend_eq_ok e
            exact Ends.mono (Nat.le_succ n) (i2 t' e')
          | some pv =>
            simp only [hp] at h ⊢
            cases h2 : resolve norm n tbl pv (seen ++ [ph]) with
            | outOfFuel => simp [h2] at h
            | cycle o => exact ⟨by simp, fun t e => by cases e⟩
            | ok pv' =>
              simp only [h2] at h ⊢
              obtain ⟨i1, i2⟩ := ih after seen hb' (prepend_ne_outOfFuel.mp h)
              refine ⟨prepend_ne_outOfFuel.mpr i1, fun t e => ?_⟩
              obtain ⟨t', e', _⟩ := prepend_eq_ok e
              exact Ends.mono (Nat.le_succ n) (i2 t' e')

/-- first inversion lemma: the balanced left part alone ends with the same fuel -/
theorem Ends.append_left {n : Nat} {s₁ s₂ : Toks} {seen : List Toks} (hb : Balanced s₁)
    (h : Ends norm tbl n (s₁ ++ s₂) seen) : Ends norm tbl n s₁ seen :=
  (Ends.append_inv s₂ n s₁ seen hb h).1

/-- second inversion lemma: behind a balanced left part that resolves to a text, the right part
    alone ends with the same fuel -/
theorem Ends.append_right {n : Nat} {s₁ s₂ : Toks} {seen : List Toks} {t : Toks} (hb : Balanced s₁)
    (h : Ends norm tbl n (s₁ ++ s₂) seen) (h₁ : Resolves norm tbl s₁ seen (.ok t)) :
    Ends norm tbl n s₂ seen := by
  obtain ⟨i1, i2⟩ := Ends.append_inv s₂ n s₁ seen hb h
  exact i2 t (i1.resolves.unique h₁ ▸ rfl)

end ends

/-! ## `keySafe` is stable once the run has ended -/

/-- with more fuel `keySafe` inspects the same sub-runs, provided the run has ended -/
theorem keySafe_fuel_succ (tt : TTable2) :
    ∀ (n : Nat) (t : Tmpl2) (st : List Toks), evalT2 tt n t st ≠ .outOfFuel →
      keySafe tt (n + 1) t st = keySafe tt n t st := by
  intro n
  induction n with
  | zero => intro t st h; exact absurd rfl h
  | succ n ih =>
    intro t st h
    cases t with
    | done => rfl
    | lit a rest =>
      simp only [evalT2] at h
      simp only [keySafe]
      exact ih rest st (prepend_ne_outOfFuel.mp h)
    | ph key rest =>
      simp only [evalT2] at h
      simp only [keySafe]
      by_cases hc : st.contains (render2 key) = true
      · simp only [hc, if_true]
      · simp only [hc] at h ⊢
        cases e1 : evalT2 tt n key (st ++ [render2 key]) with
        | outOfFuel => simp [e1] at h
        | cycle o =>
          rw [ih key _ (by rw [e1]; simp), evalT2_fuel_succ tt n key _ (by rw [e1]; simp), e1]
        | ok k' =>
          rw [ih key _ (by rw [e1]; simp), evalT2_fuel_succ tt n key _ (by rw [e1]; simp), e1]
          simp only [e1] at h ⊢
          cases hg : tt.get k' with
          | none =>
            simp only [hg] at h ⊢
            rw [ih rest st (prepend_ne_outOfFuel.mp h)]
          | some v =>
            simp only [hg] at h ⊢
            cases e2 : evalT2 tt n v (st ++ [render2 key]) with
            | outOfFuel => simp [e2] at h
            | cycle o =>
              rw [ih v _ (by rw [e2]; simp), evalT2_fuel_succ tt n v _ (by rw [e2]; simp), e2]
            | ok v' =>
              rw [ih v _ (by rw [e2]; simp), evalT2_fuel_succ tt n v _ (by rw [e2]; simp), e2]
              simp only [e2] at h ⊢
              rw [ih rest st (prepend_ne_outOfFuel.mp h)]
    | phd key d rest =>
      simp only [evalT2] at h
      simp only [keySafe]
      by_cases hc : st.contains (rawD2 key d) = true
      · simp only [hc, if_true]
      · simp only [hc] at h ⊢
        cases e1 : evalT2 tt n key (st ++ [rawD2 key d]) with
        | outOfFuel => simp [e1] at h
        | cycle o =>
          rw [ih key _ (by rw [e1]; simp), evalT2_fuel_succ tt n key _ (by rw [e1]; simp), e1]
        | ok k' =>
          rw [ih key _ (by rw [e1]; simp), evalT2_fuel_succ tt n key _ (by rw [e1]; simp), e1]
          simp only [e1] at h ⊢
          cases e3 : evalT2 tt n d (st ++ [rawD2 key d]) with
          | outOfFuel => simp [e3] at h
          | cycle o =>
            rw [ih d _ (by rw [e3]; simp), evalT2_fuel_succ tt n d _ (by rw [e3]; simp), e3]
          | ok d' =>
            rw [ih d _ (by rw [e3]; simp), evalT2_fuel_succ tt n d _ (by rw [e3]; simp), e3]
            simp only [e3] at h ⊢
            cases hg : tt.get k' with
            | none =>
              simp only [hg] at h ⊢
              rw [ih rest st (prepend_ne_outOfFuel.mp h)]
            | some v =>
              simp only [hg] at h ⊢
              cases e2 : evalT2 tt n v (st ++ [rawD2 key d]) with
              | outOfFuel => simp [e2] at h
              | cycle o =>
                rw [ih v _ (by rw [e2]; simp), evalT2_fuel_succ tt n v _ (by rw [e2]; simp), e2]
              | ok v' =>
                rw [ih v _ (by rw [e2]; simp), evalT2_fuel_succ tt n v _ (by rw [e2]; simp), e2]
                simp only [e2] at h ⊢
                rw [ih rest st (prepend_ne_outOfFuel.mp h)]

theorem keySafe_fuel_mono (tt : TTable2) {n m : Nat} (hnm : n ≤ m) (t : Tmpl2) (st : List Toks)
    (h : evalT2 tt n t st ≠ .outOfFuel) : keySafe tt m t st = keySafe tt n t st := by
  induction hnm with
  | refl => rfl
  | step hle ih =>
    rw [keySafe_fuel_succ tt _ t st (by rw [evalT2_fuel_mono tt hle t st h]; exact h), ih]

/-! ## key-safety, independent of the fuel -/

/-- the run of the evaluator on `t` with stack `st` is key-safe for every sufficiently large fuel
    (`keySafe tt n t st` inspects exactly the sub-runs that `evalT2 tt n t st` executes; with little
    fuel it inspects less) -/
def KeySafeEv (tt : TTable2) (t : Tmpl2) (st : List Toks) : Prop :=
  ∃ m0, ∀ m, m0 ≤ m → keySafe tt m t st = true

section keysafe

variable {tt : TTable2} {st : List Toks}

theorem KeySafeEv.of_all {t : Tmpl2} (h : ∀ m, keySafe tt m t st = true) : KeySafeEv tt t st :=
  ⟨0, fun m _ => h m⟩

/-- ONE key-safe run that ends is enough: every larger fuel repeats it -/
theorem KeySafeEv.of_run {t : Tmpl2} {n : Nat} (h : evalT2 tt n t st ≠ .outOfFuel)
    (hk : keySafe tt n t st = true) : KeySafeEv tt t st :=
  ⟨n, fun m hm => by rw [keySafe_fuel_mono tt hm t st h]; exact hk⟩

theorem KeySafeEv.of_static (hS : tt.KeySafe) {t : Tmpl2} (hk : t.KeysOK) : KeySafeEv tt t st :=
  ⟨0, fun m _ => keySafe_of_static hS m t st hk⟩

theorem KeySafeEv.lit {a : Toks} {rest : Tmpl2} (h : KeySafeEv tt (.lit a rest) st) :
    KeySafeEv tt rest st := by
  obtain ⟨m0, h0⟩ := h
  refine ⟨m0, fun m hm => ?_⟩
  have := h0 (m + 1) (by omega)
  simpa only [keySafe] using this

/-! ### `${key}` -/

theorem KeySafeEv.ph_key {key rest : Tmpl2} (hc : st.contains (render2 key) = false)
    (h : KeySafeEv tt (.ph key rest) st) : KeySafeEv tt key (st ++ [render2 key]) := by
  obtain ⟨m0, h0⟩ := h
  refine ⟨m0, fun m hm => ?_⟩
  have := h0 (m + 1) (by omega)
  simp only [keySafe, hc, Bool.false_eq_true, ↓reduceIte, Bool.and_eq_true] at this
  exact this.1

theorem KeySafeEv.ph_sep {key rest : Tmpl2} (hc : st.contains (render2 key) = false)
    (h : KeySafeEv tt (.ph key rest) st) {m₁ : Nat} {k' : Toks}
    (e1 : evalT2 tt m₁ key (st ++ [render2 key]) = .ok k') : Tok.sep ∉ k' := by
  obtain ⟨m0, h0⟩ := h
  have := h0 (max m0 m₁ + 1) (by omega)
  simp only [keySafe, hc, Bool.false_eq_true, ↓reduceIte,
    evalT2_ok_mono e1 (Nat.le_max_right m0 m₁), Bool.and_eq_true] at this
  exact not_sep_of_contains this.2.1

theorem KeySafeEv.ph_rest_none {key rest : Tmpl2} (hc : st.contains (render2 key) = false)
    (h : KeySafeEv tt (.ph key rest) st) {m₁ : Nat} {k' : Toks}
    (e1 : evalT2 tt m₁ key (st ++ [render2 key]) = .ok k') (hg : tt.get k' = none) :
    KeySafeEv tt rest st := by
  obtain ⟨m0, h0⟩ := h
  refine ⟨max m0 m₁, fun m hm => ?_⟩
  have := h0 (m + 1) (by omega)
  simp only [keySafe, hc, Bool.false_eq_true, ↓reduceIte,
    evalT2_ok_mono e1 (by omega : m₁ ≤ m), hg, Bool.and_eq_true] at this
  exact this.2.2

theorem KeySafeEv.ph_val {key rest : Tmpl2} (hc : st.contains (render2 key) = false)
    (h : KeySafeEv tt (.ph key rest) st) {m₁ : Nat} {k' : Toks} {v : Tmpl2}
    (e1 : evalT2 tt m₁ key (st ++ [render2 key]) = .ok k') (hg : tt.get k' = some v) :
    KeySafeEv tt v (st ++ [render2 key]) := by
  obtain ⟨m0, h0⟩ := h
  refine ⟨max m0 m₁, fun m hm => ?_⟩
  have := h0 (m + 1) (by omega)
  simp only [keySafe, hc, Bool.false_eq_true, ↓reduceIte,
    evalT2_ok_mono e1 (by omega : m₁ ≤ m), hg, Bool.and_eq_true] at this
  exact this.2.2.1

theorem KeySafeEv.ph_rest_some {key rest : Tmpl2} (hc : st.contains (render2 key) = false)
    (h : KeySafeEv tt (.ph key rest) st) {m₁ m₂ : Nat} {k' v' : Toks} {v : Tmpl2}
    (e1 : evalT2 tt m₁ key (st ++ [render2 key]) = .ok k') (hg : tt.get k' = some v)
    (e2 : evalT2 tt m₂ v (st ++ [render2 key]) = .ok v') : KeySafeEv tt rest st := by
  obtain ⟨m0, h0⟩ := h
  refine ⟨max m0 (max m₁ m₂), fun m hm => ?_⟩
  have := h0 (m + 1) (by omega)
  simp only [keySafe, hc, Bool.false_eq_true, ↓reduceIte,
    evalT2_ok_mono e1 (by omega : m₁ ≤ m), hg, evalT2_ok_mono e2 (by omega : m₂ ≤ m),
    Bool.and_eq_true] at this
  exact this.2.2.2

/-! ### `${key:default}` -/

theorem KeySafeEv.phd_key {key d rest : Tmpl2} (hc : st.contains (rawD2 key d) = false)
    (h : KeySafeEv tt (.phd key d rest) st) : KeySafeEv tt key (st ++ [rawD2 key d]) := by
  obtain ⟨m0, h0⟩ := h
  refine ⟨m0, fun m hm => ?_⟩
  have := h0 (m + 1) (by omega)
  simp only [keySafe, hc, Bool.false_eq_true, ↓reduceIte, Bool.and_eq_true] at this
  exact this.1

theorem KeySafeEv.phd_sep {key d rest : Tmpl2} (hc : st.contains (rawD2 key d) = false)
    (h : KeySafeEv tt (.phd key d rest) st) {m₁ : Nat} {k' : Toks}
    (e1 : evalT2 tt m₁ key (st ++ [rawD2 key d]) = .ok k') : Tok.sep ∉ k' := by
  obtain ⟨m0, h0⟩ := h
  have := h0 (max m0 m₁ + 1) (by omega)
  simp only [keySafe, hc, Bool.false_eq_true, ↓reduceIte,
    evalT2_ok_mono e1 (Nat.le_max_right m0 m₁), Bool.and_eq_true] at this
  exact not_sep_of_contains this.2.1.1

theorem KeySafeEv.phd_dflt {key d rest : Tmpl2} (hc : st.contains (rawD2 key d) = false)
    (h : KeySafeEv tt (.phd key d rest) st) {m₁ : Nat} {k' : Toks}
    (e1 : evalT2 tt m₁ key (st ++ [rawD2 key d]) = .ok k') :
    KeySafeEv tt d (st ++ [rawD2 key d]) := by
  obtain ⟨m0, h0⟩ := h
  refine ⟨max m0 m₁, fun m hm => ?_⟩
  have := h0 (m + 1) (by omega)
  simp only [keySafe, hc, Bool.false_eq_true, ↓reduceIte,
    evalT2_ok_mono e1 (by omega : m₁ ≤ m), Bool.and_eq_true] at this
  exact this.2.1.2

theorem KeySafeEv.phd_rest_none {key d rest : Tmpl2} (hc : st.contains (rawD2 key d) = false)
    (h : KeySafeEv tt (.phd key d rest) st) {m₁ m₂ : Nat} {k' d' : Toks}
    (e1 : evalT2 tt m₁ key (st ++ [rawD2 key d]) = .ok k')
    (e3 : evalT2 tt m₂ d (st ++ [rawD2 key d]) = .ok d') (hg : tt.get k' = none) :
    KeySafeEv tt rest st := by
  obtain ⟨m0, h0⟩ := h
  refine ⟨max m0 (max m₁ m₂), fun m hm => ?_⟩
  have := h0 (m + 1) (by omega)
  simp only [keySafe, hc, Bool.false_eq_true, ↓reduceIte,
    evalT2_ok_mono e1 (by omega : m₁ ≤ m), evalT2_ok_mono e3 (by omega : m₂ ≤ m), hg,
    Bool.and_eq_true] at this
  exact this.2.2

theorem KeySafeEv.phd_val {key d rest : Tmpl2} (hc : st.contains (rawD2 key d) = false)
    (h : KeySafeEv tt (.phd key d rest) st) {m₁ m₂ : Nat} {k' d' : Toks} {v : Tmpl2}
    (e1 : evalT2 tt m₁ key (st ++ [rawD2 key d]) = .ok k')
    (e3 : evalT2 tt m₂ d (st ++ [rawD2 key d]) = .ok d') (hg : tt.get k' = some v) :
    KeySafeEv tt v (st ++ [rawD2 key d]) := by
  obtain ⟨m0, h0⟩ := h
  refine ⟨max m0 (max m₁ m₂), fun m hm => ?_⟩
  have := h0 (m + 1) (by omega)
  simp only [keySafe, hc, Bool.false_eq_true, ↓reduceIte,
    evalT2_ok_mono e1 (by omega : m₁ ≤ m), evalT2_ok_mono e3 (by omega : m₂ ≤ m), hg,
    Bool.and_eq_true] at this
  exact this.2.2.1

theorem KeySafeEv.phd_rest_some {key d rest : Tmpl2} (hc : st.contains (rawD2 key d) = false)
    (h : KeySafeEv tt (.phd key d rest) st) {m₁ m₂ m₃ : Nat} {k' d' v' : Toks} {v : Tmpl2}
    (e1 : evalT2 tt m₁ key (st ++ [rawD2 key d]) = .ok k')
    (e3 : evalT2 tt m₂ d (st ++ [rawD2 key d]) = .ok d') (hg : tt.get k' = some v)
    (e2 : evalT2 tt m₃ v (st ++ [rawD2 key d]) = .ok v') : KeySafeEv tt rest st := by
  obtain ⟨m0, h0⟩ := h
  refine ⟨max m0 (max m₁ (max m₂ m₃)), fun m hm => ?_⟩
  have := h0 (m + 1) (by omega)
  simp only [keySafe, hc, Bool.false_eq_true, ↓reduceIte,
    evalT2_ok_mono e1 (by omega : m₁ ≤ m), evalT2_ok_mono e3 (by omega : m₂ ≤ m), hg,
    evalT2_ok_mono e2 (by omega : m₃ ≤ m), Bool.and_eq_true] at this
  exact this.2.2.2

end keysafe

/-- `evalT2_refines` with the fuel-independent hypothesis -/
theorem evalT2_refines_ev {tt : TTable2} (hT : tt.WF) {t : Tmpl2} {st : List Toks} (ht : t.WF)
    (hks : KeySafeEv tt t st) {m : Nat} {r : Res} (e : evalT2 tt m t st = r) (hne : r ≠ .outOfFuel) :
    Resolves id (toTable2 tt) (render2 t) st r ∧ ∀ t', r = .ok t' → Idem (toTable2 tt) st t' := by
  obtain ⟨m0, h0⟩ := hks
  have e' : evalT2 tt (max m m0) t st = r := by
    rw [evalT2_fuel_mono tt (Nat.le_max_left m m0) t st (by rw [e]; exact hne), e]
  exact evalT2_refines hT (max m m0) t st r ht e' hne (h0 _ (Nat.le_max_right m m0))

/-! ## the converse: the evaluator ends whenever the resolver does -/

theorem evalT2_ends {tt : TTable2} (hT : tt.WF) :
    ∀ (n : Nat) (t : Tmpl2) (st : List Toks), t.WF → KeySafeEv tt t st →
      Ends id (toTable2 tt) n (render2 t) st → ∃ m, evalT2 tt m t st ≠ .outOfFuel := by
  intro n
  induction n with
  | zero => intro t st _ _ h; exact absurd h not_ends_zero
  | succ n ih =>
    intro t
    induction t with
    | done => intro st _ _ _; exact ⟨1, by simp [evalT2]⟩
    | lit a rest iht =>
      intro st hwf hks h
      obtain ⟨ha, hrest⟩ := hwf
      obtain ⟨m, hm⟩ := iht st hrest hks.lit (Ends.text (t := a) h ha.1)
      exact ⟨m + 1, by simp only [evalT2]; exact prepend_ne_outOfFuel.mpr hm⟩
    | ph key rest _ _ =>
      intro st hwf hks h
      obtain ⟨hkey, hrest⟩ := hwf
      have hz := findEnd_key hkey
      have hf : firstPh (render2 (.ph key rest)) = some ([], render2 key, render2 rest) :=
        firstPh_block hz _
      by_cases hc : st.contains (render2 key) = true
      · exact ⟨1, by simp only [evalT2]; rw [if_pos hc]; simp⟩
      · have hn : render2 key ∉ st := by simpa using hc
        have hc' : st.contains (render2 key) = false := by simpa using hc
        have hksk := hks.ph_key hc'
        obtain ⟨m₁, hm₁⟩ := ih key _ hkey hksk (h.key hf hn)
        cases e1 : evalT2 tt m₁ key (st ++ [render2 key]) with
        | outOfFuel => exact absurd e1 hm₁
        | cycle o =>
          exact ⟨m₁ + 1, by simp only [evalT2, hc', Bool.false_eq_true, ↓reduceIte, e1]; simp⟩
        | ok k' =>
          have hsep := hks.ph_sep hc' e1
          have hr1 := (evalT2_refines_ev hT hkey hksk e1 (by simp)).1
          cases hg : tt.get k' with
          | none =>
            obtain ⟨m₂, hm₂⟩ := ih rest st hrest (hks.ph_rest_none hc' e1 hg)
              (h.rest_verbatim hf hn hr1 (rp2_key_none hsep hg))
            refine ⟨max m₁ m₂ + 1, ?_⟩
            have a1 := evalT2_ok_mono e1 (Nat.le_max_left m₁ m₂)
            have a2 := evalT2_fuel_mono tt (Nat.le_max_right m₁ m₂) rest st hm₂
            simp only [evalT2, hc', Bool.false_eq_true, ↓reduceIte, a1, hg, a2]
            exact prepend_ne_outOfFuel.mpr hm₂
          | some v =>
            have hv : v.WF := TTable2.get_wf hT hg
            have hksv := hks.ph_val hc' e1 hg
            obtain ⟨m₂, hm₂⟩ := ih v _ hv hksv (h.value hf hn hr1 (rp2_key_some hg))
            cases e2 : evalT2 tt m₂ v (st ++ [render2 key]) with
            | outOfFuel => exact absurd e2 hm₂
            | cycle o =>
              refine ⟨max m₁ m₂ + 1, ?_⟩
              have a1 := evalT2_ok_mono e1 (Nat.le_max_left m₁ m₂)
              have a2 := evalT2_fuel_mono tt (Nat.le_max_right m₁ m₂) v _ hm₂
              simp only [evalT2, hc', Bool.false_eq_true, ↓reduceIte, a1, hg, a2, e2]; simp
            | ok v' =>
              have hr2 := (evalT2_refines_ev hT hv hksv e2 (by simp)).1
              obtain ⟨m₃, hm₃⟩ := ih rest st hrest (hks.ph_rest_some hc' e1 hg e2)
                (h.rest hf hn hr1 (rp2_key_some hg) hr2)
              refine ⟨max m₁ (max m₂ m₃) + 1, ?_⟩
              have a1 := evalT2_ok_mono e1 (Nat.le_max_left m₁ (max m₂ m₃))
              have a2 := evalT2_ok_mono e2 (by omega : m₂ ≤ max m₁ (max m₂ m₃))
              have a3 := evalT2_fuel_mono tt (by omega : m₃ ≤ max m₁ (max m₂ m₃)) rest st hm₃
              simp only [evalT2, hc', Bool.false_eq_true, ↓reduceIte, a1, hg, a2, a3]
              exact prepend_ne_outOfFuel.mpr hm₃
    | phd key d rest _ _ _ =>
      intro st hwf hks h
      obtain ⟨hkey, hd, hrest⟩ := hwf
      have hz := findEnd_rawD2 hkey hd
      have hf : firstPh (render2 (.phd key d rest)) = some ([], rawD2 key d, render2 rest) :=
        firstPh_block hz _
      by_cases hc : st.contains (rawD2 key d) = true
      · exact ⟨1, by simp only [evalT2]; rw [if_pos hc]; simp⟩
      · have hn : rawD2 key d ∉ st := by simpa using hc
        have hc' : st.contains (rawD2 key d) = false := by simpa using hc
        have hksk := hks.phd_key hc'
        have hbk := balanced_render2 hkey
        have hraw : Ends id (toTable2 tt) n (render2 key ++ Tok.sep :: render2 d)
            (st ++ [rawD2 key d]) := h.key hf hn
        obtain ⟨m₁, hm₁⟩ := ih key _ hkey hksk (Ends.append_left hbk hraw)
        cases e1 : evalT2 tt m₁ key (st ++ [rawD2 key d]) with
        | outOfFuel => exact absurd e1 hm₁
        | cycle o =>
          exact ⟨m₁ + 1, by simp only [evalT2, hc', Bool.false_eq_true, ↓reduceIte, e1]; simp⟩
        | ok k' =>
          have hsep := hks.phd_sep hc' e1
          have hr1 := (evalT2_refines_ev hT hkey hksk e1 (by simp)).1
          have hksd := hks.phd_dflt hc' e1
          have hend : Ends id (toTable2 tt) n ([Tok.sep] ++ render2 d) (st ++ [rawD2 key d]) :=
            Ends.append_right hbk hraw hr1
          obtain ⟨m₂, hm₂⟩ := ih d _ hd hksd (Ends.text hend (by simp))
          cases e3 : evalT2 tt m₂ d (st ++ [rawD2 key d]) with
          | outOfFuel => exact absurd e3 hm₂
          | cycle o =>
            refine ⟨max m₁ m₂ + 1, ?_⟩
            have a1 := evalT2_ok_mono e1 (Nat.le_max_left m₁ m₂)
            have a2 := evalT2_fuel_mono tt (Nat.le_max_right m₁ m₂) d _ hm₂
            simp only [evalT2, hc', Bool.false_eq_true, ↓reduceIte, a1, a2, e3]; simp
          | ok d' =>
            obtain ⟨hr3, hi3⟩ := evalT2_refines_ev hT hd hksd e3 (by simp)
            have hrawR : Resolves id (toTable2 tt) (rawD2 key d) (st ++ [rawD2 key d])
                (.ok (k' ++ Tok.sep :: d')) := by
              have := resolves_rawD2 hkey hr1 hr3
              simpa [Res.prepend] using this
            have hid : Idem (toTable2 tt) (st ++ [rawD2 key d]) d' := hi3 d' rfl
            cases hg : tt.get k' with
            | none =>
              obtain ⟨m₃, hm₃⟩ := ih rest st hrest (hks.phd_rest_none hc' e1 e3 hg)
                (h.rest hf hn hrawR (rp2_dflt_none hT hsep hg) hid.2)
              refine ⟨max m₁ (max m₂ m₃) + 1, ?_⟩
              have a1 := evalT2_ok_mono e1 (Nat.le_max_left m₁ (max m₂ m₃))
              have a2 := evalT2_ok_mono e3 (by omega : m₂ ≤ max m₁ (max m₂ m₃))
              have a3 := evalT2_fuel_mono tt (by omega : m₃ ≤ max m₁ (max m₂ m₃)) rest st hm₃
              simp only [evalT2, hc', Bool.false_eq_true, ↓reduceIte, a1, a2, hg, a3]
              exact prepend_ne_outOfFuel.mpr hm₃
            | some v =>
              have hv : v.WF := TTable2.get_wf hT hg
              have hksv := hks.phd_val hc' e1 e3 hg
              obtain ⟨m₃, hm₃⟩ := ih v _ hv hksv (h.value hf hn hrawR (rp2_dflt_some hT hsep hg))
              cases e2 : evalT2 tt m₃ v (st ++ [rawD2 key d]) with
              | outOfFuel => exact absurd e2 hm₃
              | cycle o =>
                refine ⟨max m₁ (max m₂ m₃) + 1, ?_⟩
                have a1 := evalT2_ok_mono e1 (Nat.le_max_left m₁ (max m₂ m₃))
                have a2 := evalT2_ok_mono e3 (by omega : m₂ ≤ max m₁ (max m₂ m₃))
                have a3 := evalT2_fuel_mono tt (by omega : m₃ ≤ max m₁ (max m₂ m₃)) v _ hm₃
                simp only [evalT2, hc', Bool.false_eq_true, ↓reduceIte, a1, a2, hg, a3, e2]; simp
              | ok v' =>
                have hr2 := (evalT2_refines_ev hT hv hksv e2 (by simp)).1
                obtain ⟨m₄, hm₄⟩ := ih rest st hrest (hks.phd_rest_some hc' e1 e3 hg e2)
                  (h.rest hf hn hrawR (rp2_dflt_some hT hsep hg) hr2)
                refine ⟨max m₁ (max m₂ (max m₃ m₄)) + 1, ?_⟩
                have a1 := evalT2_ok_mono e1 (Nat.le_max_left m₁ (max m₂ (max m₃ m₄)))
                have a2 := evalT2_ok_mono e3 (by omega : m₂ ≤ max m₁ (max m₂ (max m₃ m₄)))
                have a3 := evalT2_ok_mono e2 (by omega : m₃ ≤ max m₁ (max m₂ (max m₃ m₄)))
                have a4 := evalT2_fuel_mono tt (by omega : m₄ ≤ max m₁ (max m₂ (max m₃ m₄))) rest st hm₄
                simp only [evalT2, hc', Bool.false_eq_true, ↓reduceIte, a1, a2, hg, a3, a4]
                exact prepend_ne_outOfFuel.mpr hm₄

/-- both directions: the resolver ends with `r` on the rendered template iff the reference
    evaluator ends with `r` (key-safe runs) -/
theorem resolves_iff_evalT2 {tt : TTable2} (hT : tt.WF) (t : Tmpl2) (st : List Toks) (ht : t.WF)
    (hks : KeySafeEv tt t st) (r : Res) :
    Resolves id (toTable2 tt) (render2 t) st r ↔ ∃ m, evalT2 tt m t st = r ∧ r ≠ .outOfFuel := by
  constructor
  · intro h
    obtain ⟨n, hn, hne⟩ := h
    obtain ⟨m, hm⟩ := evalT2_ends hT n t st ht hks (by unfold Ends; rw [hn]; exact hne)
    have := (evalT2_refines_ev hT ht hks rfl hm).1
    exact ⟨m, this.unique ⟨n, hn, hne⟩, hne⟩
  · rintro ⟨m, hm, hne⟩
    exact (evalT2_refines_ev hT ht hks hm hne).1

/-! ## consequences: termination of the evaluator; the real `norm` -/

/-- rendered templates are delimiter-balanced, hence so is every value of a template table -/
theorem toTable2_balanced {tt : TTable2} (hT : tt.WF) : ∀ kv ∈ toTable2 tt, Balanced kv.2 := by
  intro kv hkv
  obtain ⟨kv', hkv', rfl⟩ := List.mem_map.mp hkv
  exact balanced_render2 (hT kv' hkv').2

/-- the evaluator ENDS on every key-safe run over a well-formed table (the resolver does, on every
    balanced table, and the evaluator ends whenever the resolver does) -/
theorem evalT2_terminates {tt : TTable2} (hT : tt.WF) {t : Tmpl2} {st : List Toks} (ht : t.WF)
    (hks : KeySafeEv tt t st) :
    ∃ r, (∃ m, evalT2 tt m t st = r ∧ r ≠ .outOfFuel) ∧
      Resolves id (toTable2 tt) (render2 t) st r := by
  obtain ⟨r, hr⟩ := resolves_balanced (toTable2 tt) (toTable2_balanced hT) (render2 t) st
  exact ⟨r, (resolves_iff_evalT2 hT t st ht hks r).mp hr, hr⟩

/-- from some fuel on the evaluator gives the result it ends with -/
theorem evalT2_eventually {tt : TTable2} {t : Tmpl2} {st : List Toks} {m : Nat} {r : Res}
    (e : evalT2 tt m t st = r) (hne : r ≠ .outOfFuel) : ∀ k, m ≤ k → evalT2 tt k t st = r :=
  fun k hk => by rw [evalT2_fuel_mono tt hk t st (by rw [e]; exact hne), e]

/-- on clean tables and inputs the big-step reading does not depend on the re-lexing -/
theorem resolves_relex_iff_id {d : Delims} (hd : d.LexOK) {tbl : Table}
    (hc : ∀ kv ∈ tbl, Over (CleanTok d) kv.2) {s : Toks} (hs : Over (CleanTok d) s)
    (seen : List Toks) (r : Res) :
    Resolves (relex d) tbl s seen r ↔ Resolves id tbl s seen r := by
  constructor
  · rintro ⟨n, hn, hne⟩
    exact ⟨n, by rw [← resolve_relex_eq_id hd hc n s seen hs]; exact hn, hne⟩
  · rintro ⟨n, hn, hne⟩
    exact ⟨n, by rw [resolve_relex_eq_id hd hc n s seen hs]; exact hn, hne⟩

/-! ## the evaluator is total (no hypothesis on the table, the template or the stack) -/

/-- the texts of all placeholders of a template, at every depth -/
def Tmpl2.phs : Tmpl2 → List Toks
  | .done => []
  | .lit _ rest => rest.phs
  | .ph key rest => render2 key :: (key.phs ++ rest.phs)
  | .phd key d rest => rawD2 key d :: (key.phs ++ (d.phs ++ rest.phs))

/-- measure: (placeholder texts of the template and of the table values that are not on the stack,
    structure of the template).  Every descent into a key, a default or a looked-up value pushes a
    text of the finite list `W` that is not yet on the stack; the rest of a template is smaller. -/
theorem evalT2_total_aux (tt : TTable2) (W : List Toks) (hW : ∀ kv ∈ tt, ∀ x ∈ kv.2.phs, x ∈ W) :
    ∀ (r : Nat) (t : Tmpl2) (st : List Toks), (∀ x ∈ t.phs, x ∈ W) → remaining W st = r →
      ∃ m, evalT2 tt m t st ≠ .outOfFuel := by
  intro r
  induction r using Nat.strongRecOn with
  | ind r ihr =>
    intro t
    induction t with
    | done => intro st _ _; exact ⟨1, by simp [evalT2]⟩
    | lit a rest iht =>
      intro st hsub hr
      obtain ⟨m, hm⟩ := iht st (fun x hx => hsub x (by simpa [Tmpl2.phs] using hx)) hr
      exact ⟨m + 1, by simp only [evalT2]; exact prepend_ne_outOfFuel.mpr hm⟩
    | ph key rest _ iht =>
      intro st hsub hr
      by_cases hc : st.contains (render2 key) = true
      · exact ⟨1, by simp only [evalT2]; rw [if_pos hc]; simp⟩
      · have hn : render2 key ∉ st := by simpa using hc
        have hc' : st.contains (render2 key) = false := by simpa using hc
        have hlt : remaining W (st ++ [render2 key]) < r := by
          rw [← hr]; exact remaining_push_lt (hsub _ (by simp [Tmpl2.phs])) hn
        obtain ⟨m₁, hm₁⟩ := ihr _ hlt key _
          (fun x hx => hsub x (by simp [Tmpl2.phs, hx])) rfl
        obtain ⟨m₂, hm₂⟩ := iht st (fun x hx => hsub x (by simp [Tmpl2.phs, hx])) hr
        cases e1 : evalT2 tt m₁ key (st ++ [render2 key]) with
        | outOfFuel => exact absurd e1 hm₁
        | cycle o =>
          exact ⟨m₁ + 1, by simp only [evalT2, hc', Bool.false_eq_true, ↓reduceIte, e1]; simp⟩
        | ok k' =>
          cases hg : tt.get k' with
          | none =>
            refine ⟨max m₁ m₂ + 1, ?_⟩
            have a1 := evalT2_ok_mono e1 (Nat.le_max_left m₁ m₂)
            have a2 := evalT2_fuel_mono tt (Nat.le_max_right m₁ m₂) rest st hm₂
            simp only [evalT2, hc', Bool.false_eq_true, ↓reduceIte, a1, hg, a2]
            exact prepend_ne_outOfFuel.mpr hm₂
          | some v =>
            obtain ⟨k, hk⟩ := TTable2.get_mem hg
            obtain ⟨m₃, hm₃⟩ := ihr _ hlt v _ (hW _ hk) rfl
            have a1 := evalT2_ok_mono e1 (Nat.le_max_left m₁ (max m₂ m₃))
            have a2 := evalT2_fuel_mono tt (by omega : m₂ ≤ max m₁ (max m₂ m₃)) rest st hm₂
            have a3 := evalT2_fuel_mono tt (by omega : m₃ ≤ max m₁ (max m₂ m₃)) v _ hm₃
            refine ⟨max m₁ (max m₂ m₃) + 1, ?_⟩
            cases e2 : evalT2 tt m₃ v (st ++ [render2 key]) with
            | outOfFuel => exact absurd e2 hm₃
            | cycle o =>
              simp only [evalT2, hc', Bool.false_eq_true, ↓reduceIte, a1, hg, a3, e2]; simp
            | ok v' =>
              simp only [evalT2, hc', Bool.false_eq_true, ↓reduceIte, a1, hg, a3, e2, a2]
              exact prepend_ne_outOfFuel.mpr hm₂
    | phd key d rest _ _ iht =>
      intro st hsub hr
      by_cases hc : st.contains (rawD2 key d) = true
      · exact ⟨1, by simp only [evalT2]; rw [if_pos hc]; simp⟩
      · have hn : rawD2 key d ∉ st := by simpa using hc
        have hc' : st.contains (rawD2 key d) = false := by simpa using hc
        have hlt : remaining W (st ++ [rawD2 key d]) < r := by
          rw [← hr]; exact remaining_push_lt (hsub _ (by simp [Tmpl2.phs])) hn
        obtain ⟨m₁, hm₁⟩ := ihr _ hlt key _
          (fun x hx => hsub x (by simp [Tmpl2.phs, hx])) rfl
        obtain ⟨m₂, hm₂⟩ := ihr _ hlt d _
          (fun x hx => hsub x (by simp [Tmpl2.phs, hx])) rfl
        obtain ⟨m₃, hm₃⟩ := iht st (fun x hx => hsub x (by simp [Tmpl2.phs, hx])) hr
        cases e1 : evalT2 tt m₁ key (st ++ [rawD2 key d]) with
        | outOfFuel => exact absurd e1 hm₁
        | cycle o =>
          exact ⟨m₁ + 1, by simp only [evalT2, hc', Bool.false_eq_true, ↓reduceIte, e1]; simp⟩
        | ok k' =>
          cases e3 : evalT2 tt m₂ d (st ++ [rawD2 key d]) with
          | outOfFuel => exact absurd e3 hm₂
          | cycle o =>
            refine ⟨max m₁ m₂ + 1, ?_⟩
            have a1 := evalT2_ok_mono e1 (Nat.le_max_left m₁ m₂)
            have a2 := evalT2_fuel_mono tt (Nat.le_max_right m₁ m₂) d _ hm₂
            simp only [evalT2, hc', Bool.false_eq_true, ↓reduceIte, a1, a2, e3]; simp
          | ok d' =>
            cases hg : tt.get k' with
            | none =>
              refine ⟨max m₁ (max m₂ m₃) + 1, ?_⟩
              have a1 := evalT2_ok_mono e1 (Nat.le_max_left m₁ (max m₂ m₃))
              have a2 := evalT2_ok_mono e3 (by omega : m₂ ≤ max m₁ (max m₂ m₃))
              have a3 := evalT2_fuel_mono tt (by omega : m₃ ≤ max m₁ (max m₂ m₃)) rest st hm₃
              simp only [evalT2, hc', Bool.false_eq_true, ↓reduceIte, a1, a2, hg, a3]
              exact prepend_ne_outOfFuel.mpr hm₃
            | some v =>
              obtain ⟨k, hk⟩ := TTable2.get_mem hg
              obtain ⟨m₄, hm₄⟩ := ihr _ hlt v _ (hW _ hk) rfl
              have a1 := evalT2_ok_mono e1 (Nat.le_max_left m₁ (max m₂ (max m₃ m₄)))
              have a2 := evalT2_ok_mono e3 (by omega : m₂ ≤ max m₁ (max m₂ (max m₃ m₄)))
              have a3 := evalT2_fuel_mono tt (by omega : m₃ ≤ max m₁ (max m₂ (max m₃ m₄))) rest st hm₃
              have a4 := evalT2_fuel_mono tt (by omega : m₄ ≤ max m₁ (max m₂ (max m₃ m₄))) v _ hm₄
              refine ⟨max m₁ (max m₂ (max m₃ m₄)) + 1, ?_⟩
              cases e2 : evalT2 tt m₄ v (st ++ [rawD2 key d]) with
              | outOfFuel => exact absurd e2 hm₄
              | cycle o =>
                simp only [evalT2, hc', Bool.false_eq_true, ↓reduceIte, a1, a2, hg, a4, e2]; simp
              | ok v' =>
                simp only [evalT2, hc', Bool.false_eq_true, ↓reduceIte, a1, a2, hg, a4, e2, a3]
                exact prepend_ne_outOfFuel.mpr hm₃

/-- TOTALITY of the reference evaluator: for every table, template and stack some fuel suffices -/
theorem evalT2_total (tt : TTable2) (t : Tmpl2) (st : List Toks) :
    ∃ m, evalT2 tt m t st ≠ .outOfFuel :=
  evalT2_total_aux tt (t.phs ++ tt.flatMap fun kv => kv.2.phs)
    (fun kv hkv _ hx => List.mem_append_right _ (List.mem_flatMap.mpr ⟨kv, hkv, hx⟩))
    _ t st (fun _ hx => List.mem_append_left _ hx) rfl

/-- hence "the run is key-safe" has a fuel-free meaning: key-safe whenever it has ended -/
theorem KeySafeEv.of_ended {tt : TTable2} {t : Tmpl2} {st : List Toks}
    (h : ∀ m, evalT2 tt m t st ≠ .outOfFuel → keySafe tt m t st = true) : KeySafeEv tt t st := by
  obtain ⟨m, hm⟩ := evalT2_total tt t st
  exact KeySafeEv.of_run hm (h m hm)

theorem KeySafeEv.ended {tt : TTable2} {t : Tmpl2} {st : List Toks} (h : KeySafeEv tt t st) {m : Nat}
    (hm : evalT2 tt m t st ≠ .outOfFuel) : keySafe tt m t st = true := by
  obtain ⟨m0, h0⟩ := h
  rw [← keySafe_fuel_mono tt (Nat.le_max_left m m0) t st hm]
  exact h0 _ (Nat.le_max_right m m0)

end Ytk.Resolver
