/- Lemmas on the overlay model (dom/overlay.go). -/
import YtkModel.Overlay
import YtkProofs.Merge

namespace Ytk

theorem Outcome.map_eq_ok {α β : Type} {f : α → β} {o : Outcome α} {b : β} (h : o.map f = .ok b) :
    ∃ a, o = .ok a ∧ f a = b := by
  cases o with
  | ok a => exact ⟨a, rfl, by simpa [Outcome.map] using h⟩
  | err => simp [Outcome.map] at h
  | panic => simp [Outcome.map] at h

namespace Overlay

/-! ## layer names and layer contents under `setLayer` -/

/-- `ensureOverlay` on the list of names: append on first use -/
def ensureName (ns : List String) (l : String) : List String := if l ∈ ns then ns else ns ++ [l]

theorem ensureName_idem (ns : List String) (l : String) : ensureName (ensureName ns l) l = ensureName ns l := by
  unfold ensureName
  by_cases h : l ∈ ns <;> simp [h]

theorem mem_ensureName {ns : List String} {l x : String} : x ∈ ensureName ns l ↔ x ∈ ns ∨ x = l := by
  unfold ensureName
  by_cases h : l ∈ ns
  · simp only [h, if_true]
    constructor
    · exact Or.inl
    · rintro (h' | rfl)
      · exact h'
      · exact h
  · simp [h]

theorem nodup_ensureName {ns : List String} (h : ns.Nodup) (l : String) : (ensureName ns l).Nodup := by
  unfold ensureName
  by_cases hl : l ∈ ns
  · simpa [hl] using h
  · simp only [hl, if_false]
    rw [List.nodup_append]
    refine ⟨h, by simp, ?_⟩
    intro a ha b hb
    simp at hb
    subst hb
    intro e; subst e; exact hl ha

theorem layerNames_setLayer (s : Overlay) (l : String) (c : AMap Node) :
    layerNames (setLayer s l c) = ensureName (layerNames s) l := by
  induction s with
  | nil => simp [setLayer, layerNames, ensureName]
  | cons q rest ih =>
    obtain ⟨n, d⟩ := q
    simp only [setLayer]
    by_cases h : l = n
    · subst h
      simp [layerNames, ensureName]
    · simp only [if_neg h]
      simp only [layerNames, List.map_cons] at ih ⊢
      rw [ih]
      unfold ensureName
      by_cases h' : l ∈ rest.map (·.1)
      · simp [h']
      · simp [h', h]

theorem layer_setLayer_self (s : Overlay) (l : String) (c : AMap Node) : layer (setLayer s l c) l = some c := by
  induction s with
  | nil => simp [setLayer, layer, AMap.get?]
  | cons q rest ih =>
    obtain ⟨n, d⟩ := q
    simp only [setLayer]
    by_cases h : l = n
    · subst h; simp [layer, AMap.get?]
    · simp only [if_neg h]
      simpa [layer, AMap.get?, h] using ih

theorem layer_setLayer_ne (s : Overlay) {l l' : String} (c : AMap Node) (h : l' ≠ l) :
    layer (setLayer s l c) l' = layer s l' := by
  induction s with
  | nil => simp [setLayer, layer, AMap.get?, h]
  | cons q rest ih =>
    obtain ⟨n, d⟩ := q
    simp only [setLayer]
    by_cases hl : l = n
    · subst hl; simp [layer, AMap.get?, h]
    · simp only [if_neg hl]
      by_cases hn : l' = n
      · simp [layer, AMap.get?, hn]
      · simpa [layer, AMap.get?, hn] using ih

theorem contains_layerNames (s : Overlay) (l : String) : (layerNames s).contains l = (layer s l).isSome := by
  have := mem_keys_iff s l
  simp only [layerNames, layer]
  cases h : (AMap.get? s l).isSome
  · rw [h] at this
    have hn : l ∉ s.map (·.1) := fun hm => Bool.false_ne_true (this.mp hm)
    simpa using hn
  · rw [h] at this
    have hm : l ∈ s.map (·.1) := this.mpr rfl
    simpa using hm

/-- Lookup(overlay, path) only depends on that layer's content -/
theorem lookup_eq (s : Overlay) (l path : String) :
    lookup s l path = (layer s l).bind fun c => Ytk.lookup c path := by
  unfold lookup
  rw [contains_layerNames]
  cases h : layer s l <;> simp

/-! ## what a write does to names and to the other layers -/

/-- `s'` differs from `s` only in layer `l`, which exists afterwards -/
def Touches (l : String) (s s' : Overlay) : Prop :=
  layerNames s' = ensureName (layerNames s) l ∧ ∀ l', l' ≠ l → layer s' l' = layer s l'

theorem Touches.setLayer (s : Overlay) (l : String) (c : AMap Node) : Touches l s (setLayer s l c) :=
  ⟨layerNames_setLayer s l c, fun _ h => layer_setLayer_ne s c h⟩

theorem Touches.trans {l : String} {s s₁ s₂ : Overlay} (h₁ : Touches l s s₁) (h₂ : Touches l s₁ s₂) :
    Touches l s s₂ := by
  refine ⟨?_, fun l' hl => (h₂.2 l' hl).trans (h₁.2 l' hl)⟩
  rw [h₂.1, h₁.1, ensureName_idem]

theorem putNode_touches {s s' : Overlay} {l path : String} {v : Node} (h : putNode s l path v = .ok s') :
    Touches l s s' := by
  unfold putNode at h
  obtain ⟨c, _, hc⟩ := Outcome.map_eq_ok h
  subst hc
  exact Touches.setLayer s l c

theorem putLeaves_touches {l path : String} : ∀ (leaves : List (String × Scalar)) {s s' : Overlay},
    putLeaves s l path leaves = .ok s' → (leaves = [] ∧ s' = s) ∨ (leaves ≠ [] ∧ Touches l s s')
  | [], s, s', h => by
    simp only [putLeaves, Outcome.ok.injEq] at h
    exact Or.inl ⟨rfl, h.symm⟩
  | (k, sc) :: rest, s, s', h => by
    right
    refine ⟨by simp, ?_⟩
    simp only [putLeaves] at h
    cases h1 : putNode s l (toPath path k) (.leaf sc) with
    | ok s₁ =>
      rw [h1] at h
      have t1 := putNode_touches h1
      rcases putLeaves_touches rest h with ⟨_, e⟩ | ⟨_, t2⟩
      · rw [e]; exact t1
      · exact t1.trans t2
    | err => rw [h1] at h; cases h
    | panic => rw [h1] at h; cases h

/-- the layer a write step creates / touches; `none` for a Put of a leafless container -/
def writesLayer : Op → Option String
  | .put l _ (.cont kvs) => if (flattenMap kvs).isEmpty then none else some l
  | .put l _ _ => some l
  | .add l _ => some l
  | .populate l _ _ => some l

/-- the layer named by the step -/
def Op.target : Op → String
  | .put l _ _ => l
  | .add l _ => l
  | .populate l _ _ => l

theorem step_effect {s s' : Overlay} {op : Op} (h : step s op = .ok s') :
    match writesLayer op with
    | none => s' = s
    | some l => l = op.target ∧ Touches l s s' := by
  cases op with
  | put l path v =>
    cases v with
    | cont kvs =>
      simp only [step, put] at h
      simp only [writesLayer]
      rcases putLeaves_touches _ h with ⟨he, e⟩ | ⟨hne, t⟩
      · simp [he, e]
      · have : (flattenMap kvs).isEmpty = false := by
          cases hf : flattenMap kvs with
          | nil => exact absurd hf hne
          | cons _ _ => rfl
        simp only [this]
        exact ⟨rfl, t⟩
    | leaf sc =>
      simp only [step, put] at h
      exact ⟨rfl, putNode_touches h⟩
    | list xs =>
      simp only [step, put] at h
      exact ⟨rfl, putNode_touches h⟩
  | add l c =>
    simp only [step, Outcome.ok.injEq] at h
    subst h
    exact ⟨rfl, Touches.setLayer s l _⟩
  | populate l path d =>
    simp only [step, populate] at h
    refine ⟨rfl, ?_⟩
    split at h
    · simp only [Outcome.ok.injEq] at h; subst h; exact Touches.setLayer s l _
    · obtain ⟨c, _, hc⟩ := Outcome.map_eq_ok h
      subst hc
      exact Touches.setLayer s l c

theorem step_names {s s' : Overlay} {op : Op} (h : step s op = .ok s') :
    layerNames s' = match writesLayer op with
      | none => layerNames s
      | some l => ensureName (layerNames s) l := by
  have := step_effect h
  cases hw : writesLayer op with
  | none => simp only [hw] at this; simp [this]
  | some l => simp only [hw] at this; exact this.2.1

theorem run_names : ∀ (ops : List Op) {s s' : Overlay}, run s ops = .ok s' →
    layerNames s' = (ops.filterMap writesLayer).foldl ensureName (layerNames s)
  | [], s, s', h => by
    simp only [run, Outcome.ok.injEq] at h
    simp [h]
  | op :: ops, s, s', h => by
    simp only [run] at h
    cases h1 : step s op with
    | ok s₁ =>
      rw [h1] at h
      rw [run_names ops h, step_names h1]
      cases hw : writesLayer op <;> simp [hw]
    | err => rw [h1] at h; cases h
    | panic => rw [h1] at h; cases h

theorem foldl_ensureName_eq (xs : List String) : ∀ (acc : List String),
    xs.foldl ensureName acc = acc ++ (xs.filter fun x => !acc.contains x).eraseDups := by
  induction xs with
  | nil => intro acc; simp
  | cons x xs ih =>
    intro acc
    simp only [List.foldl_cons]
    rw [ih]
    unfold ensureName
    by_cases h : x ∈ acc
    · simp [h]
    · have hc : acc.contains x = false := by simpa using h
      simp only [h, if_false, List.filter_cons, hc, Bool.not_false, if_true, List.eraseDups_cons,
        List.append_assoc, List.singleton_append, List.filter_filter]
      congr 3
      apply List.filter_congr
      intro y _
      by_cases hy : y = x
      · subst hy; simp
      · simp [hy]

theorem nodup_foldl_ensureName (xs : List String) : ∀ (acc : List String), acc.Nodup →
    (xs.foldl ensureName acc).Nodup := by
  induction xs with
  | nil => intro acc h; exact h
  | cons x xs ih => intro acc h; exact ih _ (nodup_ensureName h x)

/-! ## per-layer refinement: a layer evolves like a standalone document under its own writes -/

/-- the effect of a non-container Put on the content of the layer it names -/
def putNodeDoc (c : AMap Node) (path : String) (v : Node) : Outcome (AMap Node) :=
  let comps := splitPath path
  withPath (fun c => add c (comps.getLastD "") v) c comps.dropLast

def putLeavesDoc (c : AMap Node) (path : String) : List (String × Scalar) → Outcome (AMap Node)
  | [] => .ok c
  | (k, sc) :: rest =>
    match putNodeDoc c (toPath path k) (.leaf sc) with
    | .ok c' => putLeavesDoc c' path rest
    | .err => .err
    | .panic => .panic

/-- the effect of a write step on the content of the layer it names (layer name ignored) -/
def stepDoc (c : AMap Node) : Op → Outcome (AMap Node)
  | .put _ path (.cont kvs) => putLeavesDoc c path (flattenMap kvs)
  | .put _ path (.leaf sc) => putNodeDoc c path (.leaf sc)
  | .put _ path (.list xs) => putNodeDoc c path (.list xs)
  | .add _ kvs => .ok (addAll c kvs)
  | .populate _ path d =>
    if path = "" then .ok (addAll c d) else withPath (fun c => addAll c d) c (splitPath path)

def runDoc (c : AMap Node) : List Op → Outcome (AMap Node)
  | [] => .ok c
  | op :: ops =>
    match stepDoc c op with
    | .ok c' => runDoc c' ops
    | .err => .err
    | .panic => .panic

theorem layerOrEmpty_setLayer_self (s : Overlay) (l : String) (c : AMap Node) :
    layerOrEmpty (setLayer s l c) l = c := by
  simp [layerOrEmpty, layer_setLayer_self]

theorem putNode_doc {s s' : Overlay} {l path : String} {v : Node} (h : putNode s l path v = .ok s') :
    putNodeDoc (layerOrEmpty s l) path v = .ok (layerOrEmpty s' l) := by
  unfold putNode at h
  obtain ⟨c, hc, e⟩ := Outcome.map_eq_ok h
  subst e
  rw [layerOrEmpty_setLayer_self]
  exact hc

theorem putLeaves_doc {l path : String} : ∀ (leaves : List (String × Scalar)) {s s' : Overlay},
    putLeaves s l path leaves = .ok s' →
    putLeavesDoc (layerOrEmpty s l) path leaves = .ok (layerOrEmpty s' l)
  | [], s, s', h => by
    simp only [putLeaves, Outcome.ok.injEq] at h
    simp [putLeavesDoc, h]
  | (k, sc) :: rest, s, s', h => by
    simp only [putLeaves] at h
    cases h1 : putNode s l (toPath path k) (.leaf sc) with
    | ok s₁ =>
      rw [h1] at h
      simp only [putLeavesDoc, putNode_doc h1]
      exact putLeaves_doc rest h
    | err => rw [h1] at h; cases h
    | panic => rw [h1] at h; cases h

theorem step_doc {s s' : Overlay} {op : Op} (h : step s op = .ok s') :
    stepDoc (layerOrEmpty s op.target) op = .ok (layerOrEmpty s' op.target) := by
  cases op with
  | put l path v =>
    cases v with
    | cont kvs =>
      have h' : putLeaves s l path (flattenMap kvs) = .ok s' := by simpa [step, put] using h
      exact putLeaves_doc _ h'
    | leaf sc =>
      have h' : putNode s l path (.leaf sc) = .ok s' := by simpa [step, put] using h
      exact putNode_doc h'
    | list xs =>
      have h' : putNode s l path (.list xs) = .ok s' := by simpa [step, put] using h
      exact putNode_doc h'
  | add l c =>
    simp only [step, Outcome.ok.injEq] at h
    subst h
    simp [stepDoc, Op.target, addLayer, layerOrEmpty_setLayer_self]
  | populate l path d =>
    simp only [step, populate] at h
    simp only [stepDoc, Op.target]
    split at h
    · rename_i hp
      simp only [Outcome.ok.injEq] at h; subst h
      simp [hp, layerOrEmpty_setLayer_self]
    · rename_i hp
      obtain ⟨c, hc, e⟩ := Outcome.map_eq_ok h
      subst e
      simp only [hp, if_false, layerOrEmpty_setLayer_self]
      exact hc

theorem step_other {s s' : Overlay} {op : Op} {l : String} (hl : l ≠ op.target) (h : step s op = .ok s') :
    layerOrEmpty s' l = layerOrEmpty s l := by
  have := step_effect h
  unfold layerOrEmpty
  cases hw : writesLayer op with
  | none => simp only [hw] at this; rw [this]
  | some l' =>
    simp only [hw] at this
    obtain ⟨e, t⟩ := this
    rw [t.2 l (by rw [e]; exact hl)]

theorem run_doc (l : String) : ∀ (ops : List Op) {s s' : Overlay}, run s ops = .ok s' →
    runDoc (layerOrEmpty s l) (ops.filter fun op => op.target == l) = .ok (layerOrEmpty s' l)
  | [], s, s', h => by
    simp only [run, Outcome.ok.injEq] at h
    simp [runDoc, h]
  | op :: ops, s, s', h => by
    simp only [run] at h
    cases h1 : step s op with
    | ok s₁ =>
      rw [h1] at h
      by_cases ht : op.target = l
      · subst ht
        simp only [List.filter_cons, beq_self_eq_true, if_true, runDoc, step_doc h1]
        exact run_doc _ ops h
      · have hb : (op.target == l) = false := by simpa using ht
        simp only [List.filter_cons, hb]
        rw [← step_other (fun e => ht e.symm) h1]
        exact run_doc l ops h
    | err => rw [h1] at h; cases h
    | panic => rw [h1] at h; cases h

/-! ## Search by layer names -/

theorem layerOrEmpty_cons_ne {n l : String} (c : AMap Node) (rest : Overlay) (h : l ≠ n) :
    layerOrEmpty ((n, c) :: rest) l = layerOrEmpty rest l := by
  simp [layerOrEmpty, layer, AMap.get?, h]

theorem flatMap_congr' {α β : Type} {f g : α → List β} : ∀ (xs : List α), (∀ x ∈ xs, f x = g x) →
    xs.flatMap f = xs.flatMap g
  | [], _ => rfl
  | x :: xs, h => by
    simp only [List.flatMap_cons]
    rw [h x (List.mem_cons_self ..), flatMap_congr' xs (fun y hy => h y (List.mem_cons_of_mem _ hy))]

theorem search_by_names (f : Scalar → Bool) : ∀ (s : Overlay), (layerNames s).Nodup →
    search f s = (layerNames s).flatMap fun l => (Ytk.search f (layerOrEmpty s l)).map fun path => (l, path)
  | [], _ => rfl
  | (n, c) :: rest, h => by
    simp only [layerNames, List.map_cons, List.nodup_cons] at h
    simp only [search, layerNames, List.map_cons, List.flatMap_cons]
    have ih := search_by_names f rest h.2
    simp only [search, layerNames] at ih
    rw [ih]
    congr 1
    · simp [layerOrEmpty, layer, AMap.get?]
    · apply flatMap_congr'
      intro l hl
      have hne : l ≠ n := fun e => h.1 (e ▸ hl)
      rw [layerOrEmpty_cons_ne c rest hne]

/-! ## LookupAny -/

theorem lookup_none_of_not_mem (s : Overlay) {l : String} (h : l ∉ layerNames s) (path : String) :
    lookup s l path = none := by
  unfold lookup
  rw [if_neg]
  simpa using h

/-! ## Walk -/

section walk
variable {σ : Type} (fn : σ → String → String → Scalar → σ × Bool)

/-- fold with early exit over a list of (layer, path, leaf) triples -/
def foldUntil : List (String × String × Scalar) → σ → σ × Bool
  | [], st => (st, true)
  | (l, p, v) :: rest, st =>
    match fn st l p v with
    | (st', true) => foldUntil rest st'
    | (st', false) => (st', false)

theorem foldUntil_append (xs ys : List (String × String × Scalar)) (st : σ) :
    foldUntil fn (xs ++ ys) st =
      match foldUntil fn xs st with
      | (st', true) => foldUntil fn ys st'
      | (st', false) => (st', false) := by
  induction xs generalizing st with
  | nil => simp [foldUntil]
  | cons t xs ih =>
    obtain ⟨l, p, v⟩ := t
    simp only [List.cons_append, foldUntil]
    rcases h : fn st l p v with ⟨st', b⟩
    cases b
    · simp
    · simp [ih]

def tag (layer : String) (xs : List (String × Scalar)) : List (String × String × Scalar) :=
  xs.map fun q => (layer, q.1, q.2)

theorem tag_append (layer : String) (xs ys : List (String × Scalar)) :
    tag layer (xs ++ ys) = tag layer xs ++ tag layer ys := by simp [tag]

mutual
theorem walkNode_eq (layer : String) : ∀ (x : Node) (p : String) (st : σ),
    walkNode fn layer x p st = foldUntil fn (tag layer (flattenNode x p)) st
  | .leaf v, p, st => by
    simp only [walkNode, flattenNode, tag, List.map_cons, List.map_nil, foldUntil]
    rcases fn st layer p v with ⟨st', b⟩
    cases b <;> rfl
  | .list xs, p, st => by
    simp only [walkNode, flattenNode]
    exact walkList_eq layer xs p 0 st
  | .cont kvs, p, st => by
    simp only [walkNode, flattenNode]
    exact walkKvs_eq layer kvs p st
theorem walkList_eq (layer : String) : ∀ (xs : List Node) (p : String) (i : Nat) (st : σ),
    walkList fn layer xs p i st = foldUntil fn (tag layer (flattenList xs p i)) st
  | [], _, _, st => by simp [walkList, flattenList, tag, foldUntil]
  | x :: xs, p, i, st => by
    simp only [walkList, flattenList, tag_append, foldUntil_append]
    rw [walkNode_eq layer x (toListPath p i) st]
    rcases foldUntil fn (tag layer (flattenNode x (toListPath p i))) st with ⟨st', b⟩
    cases b
    · rfl
    · exact walkList_eq layer xs p (i + 1) st'
theorem walkKvs_eq (layer : String) : ∀ (kvs : List (String × Node)) (p : String) (st : σ),
    walkKvs fn layer kvs p st = foldUntil fn (tag layer (flattenKvs kvs p)) st
  | [], _, st => by simp [walkKvs, flattenKvs, tag, foldUntil]
  | (k, x) :: xs, p, st => by
    simp only [walkKvs, flattenKvs, tag_append, foldUntil_append]
    rw [walkNode_eq layer x (toPath p k) st]
    rcases foldUntil fn (tag layer (flattenNode x (toPath p k))) st with ⟨st', b⟩
    cases b
    · rfl
    · exact walkKvs_eq layer xs p st'
end

/-- all (layer, path, leaf) positions: per-layer flattened views, layers in creation order -/
def triples (s : Overlay) : List (String × String × Scalar) :=
  s.flatMap fun q => tag q.1 (flatten q.2)

theorem walk_eq : ∀ (s : Overlay) (st : σ), walk fn s st = foldUntil fn (triples s) st
  | [], st => by simp [walk, triples, foldUntil]
  | (n, c) :: rest, st => by
    simp only [walk, triples, List.flatMap_cons, foldUntil_append]
    rw [walkKvs_eq fn n c "" st]
    simp only [flatten]
    rcases foldUntil fn (tag n (flattenKvs c "")) st with ⟨st', b⟩
    cases b
    · rfl
    · exact walk_eq rest st'

theorem foldUntil_all (h : ∀ st l p v, (fn st l p v).2 = true) (xs : List (String × String × Scalar)) (st : σ) :
    foldUntil fn xs st = (xs.foldl (fun st t => (fn st t.1 t.2.1 t.2.2).1) st, true) := by
  induction xs generalizing st with
  | nil => rfl
  | cons t xs ih =>
    obtain ⟨l, p, v⟩ := t
    simp only [foldUntil, List.foldl_cons]
    have := h st l p v
    rcases hf : fn st l p v with ⟨st', b⟩
    rw [hf] at this
    simp only at this
    subst this
    simp [ih]
end walk

end Overlay
end Ytk
