/-
  C08 — the string level: what `diff` emits for compatible documents is the rendering of the
  structured emission (`emitM`), and `applySingle` on a rendered modification is the structured
  action (`actK`), for documents over path-safe keys.  Together with `recon` (ApplyDiff.lean):
  `apply_diff_flatten`.
-/
import YtkModel.Diff
import YtkProofs.ApplyDiff
import YtkProofs.Apply
import YtkProofs.ParseListComp
import YtkProofs.DiffSort
import YtkProofs.Diff

namespace Ytk

/-! ## rendering structured modifications -/

def renderM (p : String) : M → Mod
  | .a m => Mod.mkAdd (pathA p m) (valA m)
  | .d ks => Mod.mkDel (ks.foldl toPath p)

theorem renderM_push (p k : String) (m : M) : renderM p (M.push k m) = renderM (toPath p k) m := by
  cases m <;> rfl

theorem flatNode_rel (n : Node) (p : String) : flatNode n p = (rel n).map (fun m => renderM p (.a m)) := by
  rw [flatNode_eq, flattenNode_rel, List.map_map]; rfl

theorem flatList_rel (xs : List Node) (p : String) (i : Nat) :
    flatList xs p i = (relList xs i).map (fun m => renderM p (.a m)) := by
  rw [flatList_eq, flattenList_rel, List.map_map]; rfl

theorem emitRight_M : ∀ (ys : List (String × Node)) (l : AMap Node) (p : String),
    (∀ e ∈ ys, hasIdxSuffix e.1 = false) → emitRight ys l p = (emitRightM ys l).map (renderM p)
  | [], _, _, _ => rfl
  | (k, n) :: rest, l, p, h => by
    simp only [emitRight, emitRightM, List.map_append]
    rw [child_of_noSuffix l (h (k, n) (List.mem_cons_self ..)),
      emitRight_M rest l p (fun e he => h e (List.mem_cons_of_mem _ he))]
    cases AMap.get? l k <;> rfl

mutual
theorem emitNode_M : ∀ (x y : Node) (p : String), x.Valid → y.Valid → Compat x y →
    emitNode x y p = (emitM x y).map (renderM p)
  | .leaf v, y, p, _, _, hc => by
    cases hc
    simp [emitNode, emitM]
  | .list xs, y, p, _, _, hc => by
    cases hc with
    | list _ ys =>
      simp only [emitNode, emitM]
      split
      · rfl
      · simp only [List.map_cons, List.map_map]
        rw [flatList_rel]
        rfl
  | .cont l, y, p, hx, hy, hc => by
    cases hc with
    | @cont _ r hc =>
      simp only [emitNode, emitM, List.map_append]
      rw [emitRight_M r l p (fun e he => (hy.of_cont_mem he).2)]
      rw [emitLeft_M l l r p (fun e he => he) hx hy hc]
theorem emitLeft_M : ∀ (xs l r : List (String × Node)) (p : String), (∀ e ∈ xs, e ∈ l) →
    (Node.cont l).Valid → (Node.cont r).Valid →
    (∀ k x y, AMap.get? l k = some x → AMap.get? r k = some y → Compat x y) →
    emitLeft xs r p = (emitLeftM xs r).map (renderM p)
  | [], _, _, _, _, _, _, _ => rfl
  | (k, n) :: rest, l, r, p, hsub, hl, hr, hc => by
    have hmem := hsub (k, n) (List.mem_cons_self ..)
    simp only [emitLeft, emitLeftM, List.map_append]
    rw [child_of_noSuffix r (hl.of_cont_mem hmem).2,
      emitLeft_M rest l r p (fun e he => hsub e (List.mem_cons_of_mem _ he)) hl hr hc]
    cases hg : AMap.get? r k with
    | none =>
      simp only [List.map_map]
      rw [flatNode_rel]
      rfl
    | some n2 =>
      simp only [List.map_map]
      rw [emitNode_M n n2 (toPath p k) (hl.of_cont_mem hmem).1 (get?_valid hr hg)
        (hc k n n2 (AMap.get?_of_mem hl.sorted hmem) hg)]
      congr 1
      apply List.map_congr_left
      intro m _
      exact (renderM_push p k m).symm
end

/-! ## safe keys -/

def AP.Safe : AP → Prop
  | .leaf _ => True
  | .idx _ m => m.Safe
  | .key k m => SafeKey k ∧ m.Safe

def M.Safe : M → Prop
  | .a p => p.Safe
  | .d ks => ∀ k ∈ ks, SafeKey k

mutual
theorem safe_rel : ∀ (n : Node), n.SafeKeys → ∀ p ∈ rel n, p.Safe
  | .leaf v, _, p, hp => by
    simp only [rel, List.mem_singleton] at hp; subst hp; trivial
  | .list xs, hs, p, hp => safe_relList xs 0 (fun x hx => hs.of_list hx) p hp
  | .cont kvs, hs, p, hp => safe_relKvs kvs (fun e he => ⟨hs.key he, hs.val he⟩) p hp
theorem safe_relList : ∀ (xs : List Node) (i : Nat), (∀ x ∈ xs, x.SafeKeys) → ∀ p ∈ relList xs i, p.Safe
  | [], _, _, _, hp => by cases hp
  | x :: xs, i, hs, p, hp => by
    simp only [relList, List.mem_append, List.mem_map] at hp
    rcases hp with ⟨m, hm, rfl⟩ | hp
    · exact safe_rel x (hs x (List.mem_cons_self ..)) m hm
    · exact safe_relList xs (i + 1) (fun y hy => hs y (List.mem_cons_of_mem _ hy)) p hp
theorem safe_relKvs : ∀ (kvs : List (String × Node)), (∀ e ∈ kvs, SafeKey e.1 ∧ e.2.SafeKeys) → ∀ p ∈ relKvs kvs, p.Safe
  | [], _, _, hp => by cases hp
  | (k, x) :: r, hs, p, hp => by
    simp only [relKvs, List.mem_append, List.mem_map] at hp
    rcases hp with ⟨m, hm, rfl⟩ | hp
    · have := hs (k, x) (List.mem_cons_self ..)
      exact ⟨this.1, safe_rel x this.2 m hm⟩
    · exact safe_relKvs r (fun e he => hs e (List.mem_cons_of_mem _ he)) p hp
end

theorem safe_push {k : String} {m : M} (hk : SafeKey k) (hm : m.Safe) : (M.push k m).Safe := by
  cases m with
  | a p => exact ⟨hk, hm⟩
  | d ks =>
    intro k' hk'
    rcases List.mem_cons.mp hk' with rfl | hk'
    · exact hk
    · exact hm k' hk'

theorem safe_emitRightM : ∀ (ys : List (String × Node)) (l : AMap Node), (∀ e ∈ ys, SafeKey e.1) →
    ∀ m ∈ emitRightM ys l, m.Safe
  | [], _, _, _, h => by cases h
  | (k, n) :: rest, l, hs, m, h => by
    simp only [emitRightM, List.mem_append] at h
    rcases h with h | h
    · split at h
      · cases h
      · simp only [List.mem_singleton] at h
        subst h
        intro k' hk'
        simp only [List.mem_singleton] at hk'
        rw [hk']
        exact hs (k, n) (List.mem_cons_self ..)
    · exact safe_emitRightM rest l (fun e he => hs e (List.mem_cons_of_mem _ he)) m h

mutual
theorem safe_emitM : ∀ (x y : Node), x.SafeKeys → y.SafeKeys → ∀ m ∈ emitM x y, m.Safe
  | .leaf _, _, _, _, m, h => by simp [emitM] at h
  | .list xs, y, hx, _, m, h => by
    cases y with
    | list ys =>
      simp only [emitM] at h
      split at h
      · cases h
      · rcases List.mem_cons.mp h with rfl | h
        · intro k hk; cases hk
        · obtain ⟨p, hp, rfl⟩ := List.mem_map.mp h
          exact safe_relList xs 0 (fun x hx' => hx.of_list hx') p hp
    | leaf _ => simp [emitM] at h
    | cont _ => simp [emitM] at h
  | .cont l, y, hx, hy, m, h => by
    cases y with
    | cont r =>
      simp only [emitM, List.mem_append] at h
      rcases h with h | h
      · exact safe_emitLeftM l r (fun e he => ⟨hx.key he, hx.val he⟩) hy m h
      · exact safe_emitRightM r l (fun e he => hy.key he) m h
    | leaf _ => simp [emitM] at h
    | list _ => simp [emitM] at h
theorem safe_emitLeftM : ∀ (xs : List (String × Node)) (r : AMap Node), (∀ e ∈ xs, SafeKey e.1 ∧ e.2.SafeKeys) →
    (Node.cont r).SafeKeys → ∀ m ∈ emitLeftM xs r, m.Safe
  | [], _, _, _, _, h => by cases h
  | (k, n) :: rest, r, hs, hr, m, h => by
    have h0 := hs (k, n) (List.mem_cons_self ..)
    simp only [emitLeftM, List.mem_append] at h
    rcases h with h | h
    · cases hg : AMap.get? r k with
      | none =>
        rw [hg] at h
        obtain ⟨p, hp, rfl⟩ := List.mem_map.mp h
        exact ⟨h0.1, safe_rel n h0.2 p hp⟩
      | some n2 =>
        rw [hg] at h
        obtain ⟨m', hm', rfl⟩ := List.mem_map.mp h
        exact safe_push h0.1 (safe_emitM n n2 h0.2 (hr.val (AMap.mem_of_get? hg)) m' hm')
    · exact safe_emitLeftM rest r (fun e he => hs e (List.mem_cons_of_mem _ he)) hr m h
end

end Ytk
