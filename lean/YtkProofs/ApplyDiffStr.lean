/-
  C08 — the string level: what `diff` emits for compatible documents is the rendering of the
  structured emission (`emitM`), and `applySingle` on a rendered modification is the structured
  action (`actK`), for documents over path-safe keys.  Together with `recon` (ApplyDiff.lean):
  `apply_diff_flatten`.
-/
import YtkModel.Diff
import YtkProofs.ApplyDiff
import YtkProofs.Apply
import YtkProofs.ParseListComp
import YtkProofs.DiffSort
import YtkProofs.Diff

namespace Ytk

/-! ## rendering structured modifications -/

def renderM (p : String) : M → Mod
  | .a m => Mod.mkAdd (pathA p m) (valA m)
  | .d ks => Mod.mkDel (ks.foldl toPath p)

theorem renderM_push (p k : String) (m : M) : renderM p (M.push k m) = renderM (toPath p k) m := by
  cases m <;> rfl

theorem flatNode_rel (n : Node) (p : String) : flatNode n p = (rel n).map (fun m => renderM p (.a m)) := by
  rw [flatNode_eq, flattenNode_rel, List.map_map]; rfl

theorem flatList_rel (xs : List Node) (p : String) (i : Nat) :
    flatList xs p i = (relList xs i).map (fun m => renderM p (.a m)) := by
  rw [flatList_eq, flattenList_rel, List.map_map]; rfl

theorem emitRight_M : ∀ (ys : List (String × Node)) (l : AMap Node) (p : String),
    (∀ e ∈ ys, hasIdxSuffix e.1 = false) → emitRight ys l p = (emitRightM ys l).map (renderM p)
  | [], _, _, _ => rfl
  | (k, n) :: rest, l, p, h => by
    simp only [emitRight, emitRightM, List.map_append]
    rw [child_of_noSuffix l (h (k, n) (List.mem_cons_self ..)),
      emitRight_M rest l p (fun e he => h e (List.mem_cons_of_mem _ he))]
    cases AMap.get? l k <;> rfl

mutual
theorem emitNode_M : ∀ (x y : Node) (p : String), x.Valid → y.Valid → Compat x y →
    emitNode x y p = (emitM x y).map (renderM p)
  | .leaf v, y, p, _, _, hc => by
    cases hc
    simp [emitNode, emitM]
  | .list xs, y, p, _, _, hc => by
    cases hc with
    | list _ ys =>
      simp only [emitNode, emitM]
      split
      · rfl
      · simp only [List.map_cons, List.map_map]
        rw [flatList_rel]
        rfl
  | .cont l, y, p, hx, hy, hc => by
    cases hc with
    | @cont _ r hc =>
      simp only [emitNode, emitM, List.map_append]
      rw [emitRight_M r l p (fun e he => (hy.of_cont_mem he).2)]
      rw [emitLeft_M l l r p (fun e he => he) hx hy hc]
theorem emitLeft_M : ∀ (xs l r : List (String × Node)) (p : String), (∀ e ∈ xs, e ∈ l) →
    (Node.cont l).Valid → (Node.cont r).Valid →
    (∀ k x y, AMap.get? l k = some x → AMap.get? r k = some y → Compat x y) →
    emitLeft xs r p = (emitLeftM xs r).map (renderM p)
  | [], _, _, _, _, _, _, _ => rfl
  | (k, n) :: rest, l, r, p, hsub, hl, hr, hc => by
    have hmem := hsub (k, n) (List.mem_cons_self ..)
    simp only [emitLeft, emitLeftM, List.map_append]
    rw [child_of_noSuffix r (hl.of_cont_mem hmem).2,
      emitLeft_M rest l r p (fun e he => hsub e (List.mem_cons_of_mem _ he)) hl hr hc]
    cases hg : AMap.get? r k with
    | none =>
      simp only [List.map_map]
      rw [flatNode_rel]
      rfl
    | some n2 =>
      simp only [List.map_map]
      rw [emitNode_M n n2 (toPath p k) (hl.of_cont_mem hmem).1 (get?_valid hr hg)
        (hc k n n2 (AMap.get?_of_mem hl.sorted hmem) hg)]
      congr 1
      apply List.map_congr_left
      intro m _
      exact (renderM_push p k m).symm
end

/-! ## safe keys -/

def AP.Safe : AP → Prop
  | .leaf _ => True
  | .idx _ m => m.Safe
  | .key k m => SafeKey k ∧ m.Safe

def M.Safe : M → Prop
  | .a p => p.Safe
  | .d ks => ∀ k ∈ ks, SafeKey k

mutual
theorem safe_rel : ∀ (n : Node), n.SafeKeys → ∀ p ∈ rel n, p.Safe
  | .leaf v, _, p, hp => by
    simp only [rel, List.mem_singleton] at hp; subst hp; trivial
  | .list xs, hs, p, hp => safe_relList xs 0 (fun x hx => hs.of_list hx) p hp
  | .cont kvs, hs, p, hp => safe_relKvs kvs (fun e he => ⟨hs.key he, hs.val he⟩) p hp
theorem safe_relList : ∀ (xs : List Node) (i : Nat), (∀ x ∈ xs, x.SafeKeys) → ∀ p ∈ relList xs i, p.Safe
  | [], _, _, _, hp => by cases hp
  | x :: xs, i, hs, p, hp => by
    simp only [relList, List.mem_append, List.mem_map] at hp
    rcases hp with ⟨m, hm, rfl⟩ | hp
    · exact safe_rel x (hs x (List.mem_cons_self ..)) m hm
    · exact safe_relList xs (i + 1) (fun y hy => hs y (List.mem_cons_of_mem _ hy)) p hp
theorem safe_relKvs : ∀ (kvs : List (String × Node)), (∀ e ∈ kvs, SafeKey e.1 ∧ e.2.SafeKeys) → ∀ p ∈ relKvs kvs, p.Safe
  | [], _, _, hp => by cases hp
  | (k, x) :: r, hs, p, hp => by
    simp only [relKvs, List.mem_append, List.mem_map] at hp
    rcases hp with ⟨m, hm, rfl⟩ | hp
    · have := hs (k, x) (List.mem_cons_self ..)
      exact ⟨this.1, safe_rel x this.2 m hm⟩
    · exact safe_relKvs r (fun e he => hs e (List.mem_cons_of_mem _ he)) p hp
end

theorem safe_push {k : String} {m : M} (hk : SafeKey k) (hm : m.Safe) : (M.push k m).Safe := by
  cases m with
  | a p => exact ⟨hk, hm⟩
  | d ks =>
    intro k' hk'
    rcases List.mem_cons.mp hk' with rfl | hk'
    · exact hk
    · exact hm k' hk'

theorem safe_emitRightM : ∀ (ys : List (String × Node)) (l : AMap Node), (∀ e ∈ ys, SafeKey e.1) →
    ∀ m ∈ emitRightM ys l, m.Safe
  | [], _, _, _, h => by cases h
  | (k, n) :: rest, l, hs, m, h => by
    simp only [emitRightM, List.mem_append] at h
    rcases h with h | h
    · split at h
      · cases h
      · simp only [List.mem_singleton] at h
        subst h
        intro k' hk'
        simp only [List.mem_singleton] at hk'
        rw [hk']
        exact hs (k, n) (List.mem_cons_self ..)
    · exact safe_emitRightM rest l (fun e he => hs e (List.mem_cons_of_mem _ he)) m h

mutual
theorem safe_emitM : ∀ (x y : Node), x.SafeKeys → y.SafeKeys → ∀ m ∈ emitM x y, m.Safe
  | .leaf _, _, _, _, m, h => by simp [emitM] at h
  | .list xs, y, hx, _, m, h => by
    cases y with
    | list ys =>
      simp only [emitM] at h
      split at h
      · cases h
      · rcases List.mem_cons.mp h with rfl | h
        · intro k hk; cases hk
        · obtain ⟨p, hp, rfl⟩ := List.mem_map.mp h
          exact safe_relList xs 0 (fun x hx' => hx.of_list hx') p hp
    | leaf _ => simp [emitM] at h
    | cont _ => simp [emitM] at h
  | .cont l, y, hx, hy, m, h => by
    cases y with
    | cont r =>
      simp only [emitM, List.mem_append] at h
      rcases h with h | h
      · exact safe_emitLeftM l r (fun e he => ⟨hx.key he, hx.val he⟩) hy m h
      · exact safe_emitRightM r l (fun e he => hy.key he) m h
    | leaf _ => simp [emitM] at h
    | list _ => simp [emitM] at h
theorem safe_emitLeftM : ∀ (xs : List (String × Node)) (r : AMap Node), (∀ e ∈ xs, SafeKey e.1 ∧ e.2.SafeKeys) →
    (Node.cont r).SafeKeys → ∀ m ∈ emitLeftM xs r, m.Safe
  | [], _, _, _, _, h => by cases h
  | (k, n) :: rest, r, hs, hr, m, h => by
    have h0 := hs (k, n) (List.mem_cons_self ..)
    simp only [emitLeftM, List.mem_append] at h
    rcases h with h | h
    · cases hg : AMap.get? r k with
      | none =>
        rw [hg] at h
        obtain ⟨p, hp, rfl⟩ := List.mem_map.mp h
        exact ⟨h0.1, safe_rel n h0.2 p hp⟩
      | some n2 =>
        rw [hg] at h
        obtain ⟨m', hm', rfl⟩ := List.mem_map.mp h
        exact safe_push h0.1 (safe_emitM n n2 h0.2 (hr.val (AMap.mem_of_get? hg)) m' hm')
    · exact safe_emitLeftM rest r (fun e he => hs e (List.mem_cons_of_mem _ he)) hr m h
end

/-! ## paths as component lists -/

def compsA : Comp → AP → List Comp
  | cur, .leaf _ => [cur]
  | cur, .idx i m => compsA (cur.1, cur.2 ++ [i]) m
  | cur, .key k m => cur :: compsA (k, []) m

theorem pathA_comps : ∀ (m : AP) (p0 : String) (cur : Comp), pathA (extend p0 cur) m = renderFrom p0 (compsA cur m)
  | .leaf _, p0, cur => by simp [pathA, compsA, renderFrom]
  | .idx i m, p0, cur => by
    obtain ⟨k, is⟩ := cur
    simp only [pathA, compsA]
    rw [extend_snoc]
    exact pathA_comps m p0 (k, is ++ [i])
  | .key k m, p0, cur => by
    simp only [pathA, compsA]
    have : toPath (extend p0 cur) k = extend (extend p0 cur) (k, []) := by simp [extend]
    rw [this, pathA_comps m (extend p0 cur) (k, [])]
    simp [renderFrom]

theorem compsA_ne_nil : ∀ (m : AP) (cur : Comp), compsA cur m ≠ []
  | .leaf _, _ => by simp [compsA]
  | .idx i m, cur => by simp only [compsA]; exact compsA_ne_nil m _
  | .key k m, cur => by simp [compsA]

theorem compsA_safe : ∀ (m : AP) (cur : Comp), SafeKey cur.1 → m.Safe → ∀ x ∈ compsA cur m, SafeKey x.1
  | .leaf _, cur, hc, _, x, hx => by
    simp only [compsA, List.mem_singleton] at hx; subst hx; exact hc
  | .idx i m, cur, hc, hm, x, hx => compsA_safe m (cur.1, cur.2 ++ [i]) hc hm x hx
  | .key k m, cur, hc, hm, x, hx => by
    simp only [compsA, List.mem_cons] at hx
    rcases hx with rfl | hx
    · exact hc
    · exact compsA_safe m (k, []) hm.1 hm.2 x hx

def strOf (c : Comp) : String := String.ofList (compStr c)

theorem strOf_nil (k : String) : strOf (k, []) = k := by
  simp [strOf, compStr, groups, String.ofList_toList]

def wrapIdx (is : List Nat) (m : AP) : AP := is.foldr AP.idx m

theorem wrapIdx_snoc (is : List Nat) (i : Nat) (m : AP) : wrapIdx (is ++ [i]) m = wrapIdx is (.idx i m) := by
  simp [wrapIdx, List.foldr_append]

/-! ## the model's list / slot functions in terms of `actA` -/

theorem nodeList_getD (o : Option Node) :
    (match o with | some (.list xs) => xs | _ => []) = nodeList (o.getD Node.null) := by
  cases o with
  | none => rfl
  | some n => cases n <;> rfl

theorem nodeCont_getD (o : Option Node) :
    (match o with | some (.cont c) => c | _ => []) = nodeCont (o.getD Node.null) := by
  cases o with
  | none => rfl
  | some n => cases n <;> rfl

theorem setSlot_consA (o : Option Node) (i : Nat) (is : List Nat) (v : Node) :
    setSlot o (i :: is) v = .list ((padTo (nodeList (o.getD Node.null)) (i + 1)).set i
      (setSlot (padTo (nodeList (o.getD Node.null)) (i + 1))[i]? is v)) := by
  cases o with
  | none => rfl
  | some n => cases n <;> rfl

theorem setSlot_eq_actA (m : AP) (v : Node) (hm : ∀ n, actA m n = v) : ∀ (is : List Nat) (o : Option Node),
    setSlot o is v = actA (wrapIdx is m) (o.getD Node.null)
  | [], _ => (hm _).symm
  | i :: is, o => by
    rw [setSlot_consA, setSlot_eq_actA m v hm is]
    simp only [wrapIdx, List.foldr_cons, actA]
    rw [← List.getD_eq_getElem?_getD, getD_padTo]

theorem actA_wrapIdx_cons (i : Nat) (is : List Nat) (m : AP) (n : Node) :
    actA (wrapIdx (i :: is) m) n = actA (wrapIdx (i :: is) m) (.list (nodeList n)) := rfl

theorem getD_of_getElem? {xs : List Node} {i : Nat} {y : Node} (h : xs[i]? = some y) : xs.getD i Node.null = y := by
  rw [List.getD_eq_getElem?_getD, h]; rfl

theorem lt_of_getElem? {xs : List Node} {i : Nat} {y : Node} (h : xs[i]? = some y) : i < xs.length := by
  rcases Nat.lt_or_ge i xs.length with hlt | hge
  · exact hlt
  · rw [List.getElem?_eq_none hge] at h; cases h

theorem applyListWith_eq (F : AMap Node → AMap Node) (mk : AP) (hF : ∀ n, actA mk n = .cont (F (nodeCont n))) :
    ∀ (is : List Nat) (xs : List Node), is ≠ [] →
      Node.list (applyListWith F xs is) = actA (wrapIdx is mk) (.list xs)
  | [], _, h => absurd rfl h
  | [i], xs, _ => by
    simp only [applyListWith, wrapIdx, List.foldr_cons, List.foldr_nil, actA, nodeList]
    rw [hF]
    cases hx : xs[i]? with
    | none =>
      have : xs.getD i Node.null = Node.null := by rw [List.getD_eq_getElem?_getD, hx]; rfl
      simp only [this, listSet]
      rfl
    | some y =>
      have hi := lt_of_getElem? hx
      rw [getD_of_getElem? hx]
      cases y with
      | cont c => simp only [nodeCont]; rw [padTo_of_le (Nat.succ_le_of_lt hi)]
      | leaf _ => simp only [listSet, nodeCont]
      | list _ => simp only [listSet, nodeCont]
  | i :: j :: is, xs, _ => by
    have ih := fun ys => applyListWith_eq F mk hF (j :: is) ys (by simp)
    have e : actA (wrapIdx (i :: j :: is) mk) (.list xs) =
        .list ((padTo xs (i + 1)).set i (actA (wrapIdx (j :: is) mk) (xs.getD i Node.null))) := rfl
    rw [e, actA_wrapIdx_cons]
    simp only [applyListWith]
    cases hx : xs[i]? with
    | none =>
      have : xs.getD i Node.null = Node.null := by rw [List.getD_eq_getElem?_getD, hx]; rfl
      simp only [this, listSet, ih]
      rfl
    | some y =>
      have hi := lt_of_getElem? hx
      rw [getD_of_getElem? hx]
      cases y with
      | list ys => simp only [nodeList, ih]; rw [padTo_of_le (Nat.succ_le_of_lt hi)]
      | leaf _ => simp only [listSet, nodeList, ih]
      | cont _ => simp only [listSet, nodeList, ih]

/-! ## `applySingle` on rendered modifications -/

theorem applyAddSegs_comps : ∀ (m : AP) (k : String) (is : List Nat) (kvs : AMap Node), SafeKey k → m.Safe →
    applyAddSegs kvs ((compsA (k, is) m).map strOf) (valA m) =
      AMap.insert kvs k (actA (wrapIdx is m) ((AMap.get? kvs k).getD Node.null))
  | .leaf v, k, is, kvs, hk, _ => by
    simp only [compsA, List.map_cons, List.map_nil, applyAddSegs, valA]
    have hseg : parseSeg (strOf (k, is)) = (k, is) := parseSeg_compStr (c := (k, is)) hk
    rw [add_eq_of_parse kvs _ hseg]
    by_cases e : is = []
    · subst e
      simp only [if_true, strOf_nil]
      rfl
    · simp only [if_neg e]
      rw [setSlot_eq_actA (.leaf v) (.leaf v) (fun _ => rfl) is]
  | .idx i m, k, is, kvs, hk, hm => by
    simp only [compsA, valA]
    rw [applyAddSegs_comps m k (is ++ [i]) kvs hk hm, wrapIdx_snoc]
  | .key k' m, k, is, kvs, hk, hm => by
    obtain ⟨c2, rest, hrest⟩ := List.exists_cons_of_ne_nil (compsA_ne_nil m (k', []))
    have ihF : ∀ sub, applyAddSegs sub (strOf c2 :: rest.map strOf) (valA m) =
        AMap.insert sub k' (actA m ((AMap.get? sub k').getD Node.null)) := by
      intro sub
      have := applyAddSegs_comps m k' [] sub hm.1 hm.2
      rw [hrest] at this
      simpa [wrapIdx] using this
    have hF : ∀ n, actA (.key k' m) n =
        .cont ((fun sub => applyAddSegs sub (strOf c2 :: rest.map strOf) (valA m)) (nodeCont n)) := by
      intro n
      simp only [actA]
      rw [ihF]
    have hns := hasIdxSuffix_safeKey hk
    simp only [compsA, valA]
    rw [hrest]
    simp only [List.map_cons, applyAddSegs]
    rw [show parseListComp (strOf (k, is)) = if is = [] then none else some (k, is) from
      parseListComp_compStr (c := (k, is)) hk]
    cases is with
    | nil =>
      simp only [if_true, strOf_nil]
      rw [child_of_noSuffix kvs hns, add_of_noSuffix kvs _ hns]
      show _ = AMap.insert kvs k (actA (.key k' m) ((AMap.get? kvs k).getD Node.null))
      rw [hF]
      cases AMap.get? kvs k with
      | none => rfl
      | some n => cases n <;> rfl
    | cons i is =>
      simp only [if_neg (List.cons_ne_nil i is)]
      rw [child_of_noSuffix kvs hns, add_of_noSuffix kvs _ hns,
        applyListWith_eq _ (.key k' m) hF (i :: is) _ (by simp),
        actA_wrapIdx_cons i is _ ((AMap.get? kvs k).getD Node.null)]
      cases AMap.get? kvs k with
      | none => rfl
      | some n => cases n <;> rfl

theorem applyDelSegs_keys : ∀ (ks : List String) (kvs : AMap Node), (∀ k ∈ ks, SafeKey k) →
    applyDelSegs kvs ks = delK ks kvs
  | [], _, _ => rfl
  | [k], _, _ => rfl
  | k :: k2 :: ks, kvs, h => by
    have hns := hasIdxSuffix_safeKey (h k (List.mem_cons_self ..))
    simp only [applyDelSegs, delK]
    rw [child_of_noSuffix kvs hns]
    cases AMap.get? kvs k with
    | none => rfl
    | some n =>
      cases n with
      | leaf _ => rfl
      | list _ => rfl
      | cont sub =>
        simp only
        rw [add_of_noSuffix kvs _ hns, applyDelSegs_keys (k2 :: ks) sub (fun x hx => h x (List.mem_cons_of_mem _ hx))]

theorem renderFrom_keys (p : String) (ks : List String) :
    renderFrom p (ks.map (fun k => ((k, []) : Comp))) = ks.foldl toPath p := by
  induction ks generalizing p with
  | nil => rfl
  | cons k ks ih =>
    simp only [List.map_cons, List.foldl_cons]
    rw [← ih (toPath p k)]
    simp [renderFrom, extend]

theorem map_strOf_keys (ks : List String) :
    (ks.map (fun k => ((k, []) : Comp))).map (fun x => String.ofList (compStr x)) = ks := by
  induction ks with
  | nil => rfl
  | cons a as ih =>
    simp only [List.map_cons]
    rw [ih]
    congr 1
    exact strOf_nil a

/-- `applySingle` on a rendered top-level modification over path-safe keys is the structured action -/
theorem applySingle_renderM {m : M} (hk : m.Keyed) (hs : m.Safe) (kvs : AMap Node) :
    applySingle kvs (renderM "" m) = actK m kvs := by
  cases m with
  | a p =>
    cases p with
    | leaf _ => exact absurd hk (by simp [M.Keyed])
    | idx _ _ => exact absurd hk (by simp [M.Keyed])
    | key k p =>
      have hpath : pathA "" (.key k p) = renderFrom "" (compsA (k, []) p) := by
        have : toPath "" k = extend "" (k, []) := by simp [extend]
        simp only [pathA]
        rw [this, pathA_comps]
      obtain ⟨c, cs, hc⟩ := List.exists_cons_of_ne_nil (compsA_ne_nil p (k, []))
      have hsafe : ∀ x ∈ c :: cs, SafeKey x.1 := hc ▸ compsA_safe p (k, []) hs.1 hs.2
      have h1 : applySingle kvs (renderM "" (.a (.key k p))) =
          applyAddSegs kvs (splitPath (pathA "" (.key k p))) (valA p) := rfl
      rw [h1, hpath, hc, splitPath_renderFrom c cs hsafe, ← hc]
      have := applyAddSegs_comps p k [] kvs hs.1 hs.2
      exact this
  | d ks =>
    cases ks with
    | nil => exact absurd hk (by simp [M.Keyed])
    | cons k ks =>
      have hsafe : ∀ x ∈ ((k, []) : Comp) :: ks.map (fun k => ((k, []) : Comp)), SafeKey x.1 := by
        intro x hx
        rcases List.mem_cons.mp hx with rfl | hx
        · exact hs k (List.mem_cons_self ..)
        · obtain ⟨k', hk', rfl⟩ := List.mem_map.mp hx
          exact hs k' (List.mem_cons_of_mem _ hk')
      have h1 : applySingle kvs (renderM "" (.d (k :: ks))) =
          applyDelSegs kvs (splitPath ((k :: ks).foldl toPath "")) := rfl
      have h2 := renderFrom_keys "" (k :: ks)
      rw [List.map_cons] at h2
      rw [h1, ← h2, splitPath_renderFrom _ _ hsafe]
      have h3 : (((k, []) : Comp) :: ks.map (fun k => ((k, []) : Comp))).map (fun x => String.ofList (compStr x)) = k :: ks := by
        simp only [List.map_cons]
        rw [map_strOf_keys]
        congr 1
        exact strOf_nil k
      rw [h3, applyDelSegs_keys (k :: ks) kvs hs]
      rfl

/-! ## the sorted order is admissible -/

theorem pathA_ext : ∀ (m : AP) (q : String), ∃ t, (pathA q m).toList = q.toList ++ t
  | .leaf _, q => ⟨[], by simp [pathA]⟩
  | .idx i m, q => by
    obtain ⟨t, ht⟩ := pathA_ext m (toListPath q i)
    exact ⟨idxGroup i ++ t, by simp only [pathA]; rw [ht, toListPath_toList, List.append_assoc]⟩
  | .key k m, q => by
    obtain ⟨t, ht⟩ := pathA_ext m (toPath q k)
    by_cases hq : q = ""
    · exact ⟨k.toList ++ t, by simp only [pathA]; rw [ht]; simp [toPath, hq]⟩
    · exact ⟨'.' :: k.toList ++ t, by simp only [pathA]; rw [ht]; simp [toPath, hq, String.toList_append]⟩

/-- a Delete above an Add has a path that is a strict prefix of the Add's path -/
theorem above_prefix : ∀ (ks : List String) (p : AP) (q : String), p.Safe → Above ks p →
    ∃ t, t ≠ [] ∧ (pathA q p).toList = (ks.foldl toPath q).toList ++ t
  | [], .leaf _, _, _, h => absurd h (by simp [Above])
  | [], .idx i m, q, _, _ => by
    obtain ⟨t, ht⟩ := pathA_ext m (toListPath q i)
    refine ⟨idxGroup i ++ t, by simp [idxGroup], ?_⟩
    simp only [pathA, List.foldl_nil]
    rw [ht, toListPath_toList, List.append_assoc]
  | [], .key k m, q, hs, _ => by
    obtain ⟨t, ht⟩ := pathA_ext m (toPath q k)
    have hk : k.toList ≠ [] := hs.1.1
    by_cases hq : q = ""
    · refine ⟨k.toList ++ t, by simp [hk], ?_⟩
      simp only [pathA, List.foldl_nil]
      rw [ht]
      simp [toPath, hq]
    · refine ⟨'.' :: k.toList ++ t, by simp, ?_⟩
      simp only [pathA, List.foldl_nil]
      rw [ht]
      simp [toPath, hq, String.toList_append]
  | k :: ks, .key k' m, q, hs, h => by
    obtain ⟨e, h'⟩ := h
    subst e
    exact above_prefix ks m (toPath q k) hs.2 h'
  | _ :: _, .leaf _, _, _, h => absurd h (by simp [Above])
  | _ :: _, .idx _ _, _, _, h => absurd h (by simp [Above])

theorem ord_of_sorted {S : List M} (hs : ∀ m ∈ S, m.Safe) (h : PathSorted (S.map (renderM ""))) : Ord S := by
  unfold PathSorted at h
  rw [List.pairwise_map] at h
  refine List.Pairwise.imp_of_mem ?_ h
  intro m1 m2 h1 _ hle
  cases m1 with
  | d _ => simp [OrdR]
  | a p =>
    cases m2 with
    | a _ => simp [OrdR]
    | d ks =>
      simp only [OrdR]
      intro hab
      obtain ⟨t, htne, ht⟩ := above_prefix ks p "" (hs _ h1) hab
      have hlt : (renderM "" (.d ks)).path < (renderM "" (.a p)).path := by
        show ks.foldl toPath "" < pathA "" p
        rw [String.lt_iff, ht]
        have : ([] : List Char) < t := by
          cases t with
          | nil => exact absurd rfl htne
          | cons c t => exact List.nil_lt_cons c t
        have := List.append_left_lt (l₁ := (ks.foldl toPath "").toList) this
        simpa using this
      exact (String.not_lt.mpr hle) hlt

theorem foldl_congr_mem {α β : Type} {f g : β → α → β} : ∀ (S : List α) (c : β), (∀ m ∈ S, ∀ c, f c m = g c m) →
    S.foldl f c = S.foldl g c
  | [], _, _ => rfl
  | m :: S, c, h => by
    simp only [List.foldl_cons]
    rw [h m (List.mem_cons_self ..) c]
    exact foldl_congr_mem S _ (fun x hx => h x (List.mem_cons_of_mem _ hx))

/-! ## the theorem -/

/-- the structured form: any admissible arrangement `S` of the structured emission, rendered and
    applied to the right document, gives the left document's flattened view -/
theorem apply_struct_flatten (L R : AMap Node) (hL : (Node.cont L).Valid) (hR : (Node.cont R).Valid)
    (hsL : (Node.cont L).SafeKeys) (hsR : (Node.cont R).SafeKeys) (hc : Compat (.cont L) (.cont R))
    (hi : (Node.cont L).ItemsHaveScalars) (S : List M) (hS : S.Perm (emitM (.cont L) (.cont R))) (hord : Ord S) :
    flatten (apply R (S.map (renderM ""))) = flatten L := by
  have hsafe : ∀ m ∈ S, m.Safe := fun m hm => safe_emitM _ _ hsL hsR m (hS.mem_iff.mp hm)
  have hkeyed : ∀ m ∈ S, m.Keyed := by
    intro m hm
    have := hS.mem_iff.mp hm
    simp only [emitM, List.mem_append] at this
    rcases this with h | h
    · exact keyed_emitLeftM _ _ m h
    · exact keyed_emitRightM _ _ m h
  have happly : apply R (S.map (renderM "")) = S.foldl (fun c m => actK m c) R := by
    rw [apply, List.foldl_map]
    exact foldl_congr_mem S R (fun m hm c => applySingle_renderM (hkeyed m hm) (hsafe m hm) c)
  have := recon (.cont L) (.cont R) hL hR hi hc S hS hord ""
  rw [foldl_act_keyed S R hkeyed] at this
  simp only [flatO, flattenNode] at this
  rw [happly]
  exact this

/-- the general form: ANY path-sorted arrangement of what Diff emits (whatever the sorting
    algorithm, stable or not, and whatever the emission order was) reconstructs the left
    document's flattened view when applied to the right document -/
theorem apply_sorted_perm_flatten (L R : AMap Node) (hL : (Node.cont L).Valid) (hR : (Node.cont R).Valid)
    (hsL : (Node.cont L).SafeKeys) (hsR : (Node.cont R).SafeKeys) (hc : Compat (.cont L) (.cont R))
    (hi : (Node.cont L).ItemsHaveScalars) (ms : List Mod) (hms : ms.Perm (emit L R)) (hsorted : PathSorted ms) :
    flatten (apply R ms) = flatten L := by
  have hemit : emit L R = (emitM (.cont L) (.cont R)).map (renderM "") := emitNode_M _ _ "" hL hR hc
  have hperm : ms.Perm ((emitM (.cont L) (.cont R)).map (renderM "")) := hemit ▸ hms
  obtain ⟨S, hS, hSm⟩ := exists_perm_map (renderM "") hperm _ rfl
  have hsafe : ∀ m ∈ S, m.Safe := fun m hm => safe_emitM _ _ hsL hsR m (hS.mem_iff.mp hm)
  have hord : Ord S := ord_of_sorted hsafe (by rw [hSm]; exact hsorted)
  rw [← hSm]
  exact apply_struct_flatten L R hL hR hsL hsR hc hi S hS hord

/-- **apply_diff_flatten**: for compatible documents over path-safe keys, every list item of the
    left one holding a scalar, applying the diff to the right document gives the left one's
    flattened view. -/
theorem apply_diff_flatten_core (L R : AMap Node) (hL : (Node.cont L).Valid) (hR : (Node.cont R).Valid)
    (hsL : (Node.cont L).SafeKeys) (hsR : (Node.cont R).SafeKeys) (hc : Compat (.cont L) (.cont R))
    (hi : (Node.cont L).ItemsHaveScalars) : flatten (apply R (diff L R)) = flatten L :=
  apply_sorted_perm_flatten L R hL hR hsL hsR hc hi _ (sortMods_perm _) (sortMods_sorted _)

/-! ## the emission order itself is admissible (sorting is not needed for reconstruction) -/

def M.key? : M → Option String
  | .a (.key k _) => some k
  | .d (k :: _) => some k
  | _ => none

theorem key?_push (k : String) (m : M) : (M.push k m).key? = some k := by cases m <;> rfl

theorem ordR_of_key_ne {m1 m2 : M} {k1 k2 : String} (h1 : m1.key? = some k1) (h2 : m2.key? = some k2)
    (hne : k1 ≠ k2) : OrdR m1 m2 := by
  cases m1 with
  | d _ => simp [OrdR]
  | a p =>
    cases m2 with
    | a _ => simp [OrdR]
    | d ks =>
      cases p with
      | leaf _ => simp [M.key?] at h1
      | idx _ _ => simp [M.key?] at h1
      | key k p' =>
        cases ks with
        | nil => simp [M.key?] at h2
        | cons k' ks' =>
          simp only [M.key?, Option.some.injEq] at h1 h2
          simp only [OrdR, Above]
          intro h
          exact hne (by rw [← h1, ← h2]; exact h.1.symm)

theorem ordR_push {m1 m2 : M} (k : String) (h : OrdR m1 m2) : OrdR (M.push k m1) (M.push k m2) := by
  cases m1 with
  | d _ => simp [OrdR, M.push]
  | a p =>
    cases m2 with
    | a _ => simp [OrdR, M.push]
    | d ks =>
      simp only [OrdR, M.push, Above] at h ⊢
      intro h'
      exact h h'.2

theorem ord_adds (T : List AP) (f : AP → AP) : Ord (T.map (fun p => M.a (f p))) := by
  unfold Ord
  rw [List.pairwise_map]
  exact List.pairwise_of_forall (fun _ _ => by simp [OrdR])

theorem mem_emitLeftM_key : ∀ (xs : List (String × Node)) (r : AMap Node) (m : M), m ∈ emitLeftM xs r →
    ∃ e ∈ xs, m.key? = some e.1
  | [], _, _, h => by cases h
  | (k, n) :: rest, r, m, h => by
    simp only [emitLeftM, List.mem_append] at h
    rcases h with h | h
    · refine ⟨(k, n), List.mem_cons_self .., ?_⟩
      split at h
      · obtain ⟨m', _, rfl⟩ := List.mem_map.mp h
        exact key?_push k m'
      · obtain ⟨p, _, rfl⟩ := List.mem_map.mp h
        rfl
    · obtain ⟨e, he, hk⟩ := mem_emitLeftM_key rest r m h
      exact ⟨e, List.mem_cons_of_mem _ he, hk⟩

theorem mem_emitRightM_key : ∀ (ys : List (String × Node)) (l : AMap Node) (m : M), m ∈ emitRightM ys l →
    ∃ e ∈ ys, m = .d [e.1] ∧ AMap.get? l e.1 = none
  | [], _, _, h => by cases h
  | (k, n) :: rest, l, m, h => by
    simp only [emitRightM, List.mem_append] at h
    rcases h with h | h
    · split at h
      · cases h
      · rename_i hg
        simp only [List.mem_singleton] at h
        exact ⟨(k, n), List.mem_cons_self .., h, hg⟩
    · obtain ⟨e, he, hk⟩ := mem_emitRightM_key rest l m h
      exact ⟨e, List.mem_cons_of_mem _ he, hk⟩

mutual
theorem ord_emitM : ∀ (x y : Node), x.WF → Ord (emitM x y)
  | .leaf _, _, _ => by simp [emitM, Ord]
  | .list xs, y, _ => by
    cases y with
    | list ys =>
      simp only [emitM]
      split
      · exact List.Pairwise.nil
      · exact List.pairwise_cons.mpr ⟨fun _ _ => by simp [OrdR], ord_adds (relList xs 0) id⟩
    | leaf _ => simp [emitM, Ord]
    | cont _ => simp [emitM, Ord]
  | .cont l, y, hw => by
    cases y with
    | cont r =>
      simp only [emitM]
      refine List.pairwise_append.mpr ⟨ord_emitLeftM l r hw.sorted (fun e he => hw.of_cont_get (AMap.get?_of_mem hw.sorted he)), ?_, ?_⟩
      · apply List.pairwise_of_forall_mem_list
        intro a ha b _
        obtain ⟨e, _, rfl, _⟩ := mem_emitRightM_key r l a ha
        simp [OrdR]
      · intro a ha b hb
        obtain ⟨e, he, hk⟩ := mem_emitLeftM_key l r a ha
        obtain ⟨e', _, rfl, hnone⟩ := mem_emitRightM_key r l b hb
        refine ordR_of_key_ne hk rfl ?_
        intro heq
        rw [← heq, AMap.get?_of_mem hw.sorted (show (e.1, e.2) ∈ l from he)] at hnone
        cases hnone
    | leaf _ => simp [emitM, Ord]
    | list _ => simp [emitM, Ord]
theorem ord_emitLeftM : ∀ (xs : List (String × Node)) (r : AMap Node), AMap.Sorted xs → (∀ e ∈ xs, e.2.WF) →
    Ord (emitLeftM xs r)
  | [], _, _, _ => List.Pairwise.nil
  | (k, n) :: rest, r, hs, hw => by
    simp only [emitLeftM]
    refine List.pairwise_append.mpr ⟨?_, ord_emitLeftM rest r hs.tail (fun e he => hw e (List.mem_cons_of_mem _ he)), ?_⟩
    · split
      · exact (ord_emitM n _ (hw (k, n) (List.mem_cons_self ..))).map (M.push k) (fun _ _ h => ordR_push k h)
      · exact ord_adds (rel n) (AP.key k)
    · intro a ha b hb
      have hka : a.key? = some k := by
        split at ha
        · obtain ⟨m', _, rfl⟩ := List.mem_map.mp ha
          exact key?_push k m'
        · obtain ⟨p, _, rfl⟩ := List.mem_map.mp ha
          rfl
      obtain ⟨e, he, hkb⟩ := mem_emitLeftM_key rest r b hb
      exact ordR_of_key_ne hka hkb (String.ne_of_lt (hs.head_lt e he))
end

/-- applying the modifications in EMISSION order (no sorting) also reconstructs the left document -/
theorem apply_emit_flatten_core (L R : AMap Node) (hL : (Node.cont L).Valid) (hR : (Node.cont R).Valid)
    (hsL : (Node.cont L).SafeKeys) (hsR : (Node.cont R).SafeKeys) (hc : Compat (.cont L) (.cont R))
    (hi : (Node.cont L).ItemsHaveScalars) : flatten (apply R (emit L R)) = flatten L := by
  have hemit : emit L R = (emitM (.cont L) (.cont R)).map (renderM "") := emitNode_M _ _ "" hL hR hc
  rw [hemit]
  exact apply_struct_flatten L R hL hR hsL hsR hc hi _ (.refl _) (ord_emitM _ _ hL.1)

end Ytk
