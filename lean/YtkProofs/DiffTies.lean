/- The shape of ties in Diff: for constructible documents over path-safe keys the modifications
   emitted for one path are `[]`, `[m]` or `[Delete p, Add p v]`.
   String-level part: two different list indices under one prefix have no path in common, and a
   path strictly below a position differs from the position. -/
import YtkModel.Diff
import YtkProofs.PathStr
import YtkProofs.DiffSort
import YtkProofs.DiffSpec
import YtkProofs.DiffDet
namespace Ytk

/-! ## string facts -/

theorem prefix_eq_of_sep {x : Char} : ∀ {a a' r r' : List Char}, x ∉ a → x ∉ a' →
    a ++ x :: r = a' ++ x :: r' → a = a'
  | [], [], _, _, _, _, _ => rfl
  | [], c :: t, _, _, _, h', h => by
    simp only [List.nil_append, List.cons_append, List.cons.injEq] at h
    exact absurd (h.1 ▸ List.mem_cons_self ..) h'
  | c :: t, [], _, _, h', _, h => by
    simp only [List.nil_append, List.cons_append, List.cons.injEq] at h
    exact absurd (h.1 ▸ List.mem_cons_self ..) h'
  | c :: t, c' :: t', _, _, ha, ha', h => by
    simp only [List.cons_append, List.cons.injEq] at h
    rw [h.1, prefix_eq_of_sep (fun hm => ha (List.mem_cons_of_mem _ hm))
      (fun hm => ha' (List.mem_cons_of_mem _ hm)) h.2]

theorem toListPath_toList (b : String) (i : Nat) :
    (toListPath b i).toList = b.toList ++ '[' :: ((toString i).toList ++ [']']) := by
  simp [toListPath, String.toList_append]

theorem bracket_not_mem_digits (i : Nat) : ']' ∉ (toString i).toList := by
  intro h
  have := digits_all i _ h
  revert this; decide

/-- blocks of different list indices under one prefix have disjoint paths -/
theorem idx_eq_of_under {b s : String} {i j : Nat}
    (h1 : Under (toListPath b i) s) (h2 : Under (toListPath b j) s) : i = j := by
  obtain ⟨r, e, _⟩ := h1
  obtain ⟨r', e', _⟩ := h2
  rw [e, toListPath_toList, toListPath_toList] at e'
  simp only [List.append_assoc, List.cons_append, List.nil_append] at e'
  have e2 := List.append_cancel_left e'
  simp only [List.cons.injEq, true_and] at e2
  have := prefix_eq_of_sep (bracket_not_mem_digits i) (bracket_not_mem_digits j) e2
  have h3 := congrArg digitsToNat this
  rwa [digitsToNat_toString, digitsToNat_toString] at h3

theorem ne_of_toList_append_cons {b s : String} {c : Char} {t : List Char}
    (h : s.toList = b.toList ++ c :: t) : s ≠ b := by
  intro e
  subst e
  have := List.self_eq_append_right.mp h
  cases this

theorem ne_of_under_toListPath {b s : String} {i : Nat} (h : Under (toListPath b i) s) : s ≠ b := by
  obtain ⟨r, e, _⟩ := h
  rw [toListPath_toList] at e
  simp only [List.append_assoc, List.cons_append] at e
  exact ne_of_toList_append_cons e

theorem ne_of_under_toPath {b s k : String} (hb : b ≠ "") (h : Under (toPath b k) s) : s ≠ b := by
  obtain ⟨r, e, _⟩ := h
  simp only [toPath, hb, if_false, String.toList_append, List.append_assoc] at e
  exact ne_of_toList_append_cons (c := '.') (t := k.toList ++ r) (by simpa using e)

end Ytk
