/- The shape of ties in Diff: for constructible documents over path-safe keys the modifications
   emitted for one path are `[]`, `[m]` or `[Delete p, Add p v]`.
   String-level part: two different list indices under one prefix have no path in common, and a
   path strictly below a position differs from the position. -/
import YtkModel.Diff
import YtkProofs.PathStr
import YtkProofs.DiffSort
import YtkProofs.DiffSpec
import YtkProofs.DiffDet
namespace Ytk

/-! ## string facts -/

theorem prefix_eq_of_sep {x : Char} : ∀ {a a' r r' : List Char}, x ∉ a → x ∉ a' →
    a ++ x :: r = a' ++ x :: r' → a = a'
  | [], [], _, _, _, _, _ => rfl
  | [], c :: t, _, _, _, h', h => by
    simp only [List.nil_append, List.cons_append, List.cons.injEq] at h
    exact absurd (h.1 ▸ List.mem_cons_self ..) h'
  | c :: t, [], _, _, h', _, h => by
    simp only [List.nil_append, List.cons_append, List.cons.injEq] at h
    exact absurd (h.1 ▸ List.mem_cons_self ..) h'
  | c :: t, c' :: t', _, _, ha, ha', h => by
    simp only [List.cons_append, List.cons.injEq] at h
    rw [h.1, prefix_eq_of_sep (fun hm => ha (List.mem_cons_of_mem _ hm))
      (fun hm => ha' (List.mem_cons_of_mem _ hm)) h.2]

theorem toListPath_chars (b : String) (i : Nat) :
    (toListPath b i).toList = b.toList ++ '[' :: ((toString i).toList ++ [']']) := by
  simp [toListPath, String.toList_append]

theorem bracket_not_mem_digits (i : Nat) : ']' ∉ (toString i).toList := by
  intro h
  have := digits_all i _ h
  revert this; decide

/-- blocks of different list indices under one prefix have disjoint paths -/
theorem idx_eq_of_under {b s : String} {i j : Nat}
    (h1 : Under (toListPath b i) s) (h2 : Under (toListPath b j) s) : i = j := by
  obtain ⟨r, e, _⟩ := h1
  obtain ⟨r', e', _⟩ := h2
  rw [e, toListPath_chars, toListPath_chars] at e'
  simp only [List.append_assoc, List.cons_append, List.nil_append] at e'
  have e2 := List.append_cancel_left e'
  simp only [List.cons.injEq, true_and] at e2
  have := prefix_eq_of_sep (bracket_not_mem_digits i) (bracket_not_mem_digits j) e2
  have h3 := congrArg digitsToNat this
  rwa [digitsToNat_toString, digitsToNat_toString] at h3

theorem ne_of_toList_append_cons {b s : String} {c : Char} {t : List Char}
    (h : s.toList = b.toList ++ c :: t) : s ≠ b := by
  intro e
  subst e
  have := List.self_eq_append_right.mp h
  cases this

theorem ne_of_under_toListPath {b s : String} {i : Nat} (h : Under (toListPath b i) s) : s ≠ b := by
  obtain ⟨r, e, _⟩ := h
  rw [toListPath_chars] at e
  simp only [List.append_assoc, List.cons_append] at e
  exact ne_of_toList_append_cons e

theorem ne_of_under_toPath {b s k : String} (hb : b ≠ "") (h : Under (toPath b k) s) : s ≠ b := by
  obtain ⟨r, e, _⟩ := h
  simp only [toPath, hb, if_false, String.toList_append, List.append_assoc] at e
  exact ne_of_toList_append_cons (c := '.') (t := k.toList ++ r) (by simpa using e)

/-! ## blocks with pairwise disjoint path sets -/

theorem sorted_pairwise_ne : ∀ {kvs : List (String × Node)}, AMap.Sorted kvs → kvs.Pairwise (· ≠ ·)
  | [], _ => List.Pairwise.nil
  | (k, v) :: m, hs => by
    refine List.Pairwise.cons ?_ (sorted_pairwise_ne hs.tail)
    intro b hb e
    have := hs.head_lt b hb
    rw [← e] at this
    exact String.lt_irrefl _ this

theorem blocks_pairwise {kvs : List (String × Node)} (hg : Good (.cont kvs)) (p q : String)
    (f : String × Node → List Mod)
    (hf : ∀ e ∈ kvs, ∀ m ∈ f e, Under (toPath p e.1) m.path) :
    kvs.Pairwise (fun a b =>
      (f a).filter (fun m => m.path = q) = [] ∨ (f b).filter (fun m => m.path = q) = []) :=
  (sorted_pairwise_ne hg.1.sorted).imp_of_mem
    (fun ha hb hne => blocks_disjoint hg p q f hf _ ha _ hb hne)

/-- of blocks of which, pairwise, at most one passes the filter, at most one contributes -/
theorem filter_flatMap_pairwise {α : Type} (f : α → List Mod) (pr : Mod → Bool) : ∀ (xs : List α),
    xs.Pairwise (fun a b => (f a).filter pr = [] ∨ (f b).filter pr = []) →
    (xs.flatMap f).filter pr = [] ∨ ∃ a ∈ xs, (xs.flatMap f).filter pr = (f a).filter pr
  | [], _ => Or.inl rfl
  | a :: xs, h => by
    rw [List.pairwise_cons] at h
    simp only [List.flatMap_cons, List.filter_append]
    by_cases ha : (f a).filter pr = []
    · rw [ha, List.nil_append]
      rcases filter_flatMap_pairwise f pr xs h.2 with h0 | ⟨b, hb, e⟩
      · exact Or.inl h0
      · exact Or.inr ⟨b, List.mem_cons_of_mem _ hb, e⟩
    · have : (xs.flatMap f).filter pr = [] := by
        apply List.filter_eq_nil_iff.mpr
        intro m hm
        obtain ⟨b, hb, hmb⟩ := List.mem_flatMap.mp hm
        rcases h.1 b hb with h1 | h1
        · exact absurd h1 ha
        · exact List.filter_eq_nil_iff.mp h1 m hmb
      rw [this, List.append_nil]
      exact Or.inr ⟨a, List.mem_cons_self .., rfl⟩

theorem filter_disj {A B : List Mod} (h : ∀ a ∈ A, ∀ b ∈ B, a.path ≠ b.path) (q : String) :
    A.filter (fun m => m.path = q) = [] ∨ B.filter (fun m => m.path = q) = [] := by
  by_cases hA : A.filter (fun m => m.path = q) = []
  · exact Or.inl hA
  · refine Or.inr (List.filter_eq_nil_iff.mpr ?_)
    intro b hb hbq
    obtain ⟨a, ha⟩ := List.exists_mem_of_ne_nil _ hA
    have ha2 := List.mem_filter.mp ha
    have e1 : a.path = q := by simpa using ha2.2
    have e2 : b.path = q := by simpa using hbq
    exact h a ha2.1 b hb (e1.trans e2.symm)

/-! ## the shape of the sub-sequence of one path -/

/-- nothing, one modification, or the Delete of `q` followed by an Add at `q` -/
def TieList (q : String) (fs : List Mod) : Prop :=
  fs = [] ∨ (∃ m, fs = [m]) ∨ ∃ v, fs = [Mod.mkDel q, Mod.mkAdd q v]

def TieShape (ms : List Mod) : Prop := ∀ q, TieList q (ms.filter (fun m => m.path = q))

/-- at most one modification per path -/
def Uniq (ms : List Mod) : Prop := ∀ q, (ms.filter (fun m => m.path = q)).length ≤ 1

theorem TieList.of_length_le {q : String} : ∀ {fs : List Mod}, fs.length ≤ 1 → TieList q fs
  | [], _ => Or.inl rfl
  | [m], _ => Or.inr (Or.inl ⟨m, rfl⟩)
  | _ :: _ :: _, h => by simp at h

theorem Uniq.tieShape {ms : List Mod} (h : Uniq ms) : TieShape ms := fun q => .of_length_le (h q)

theorem Uniq.of_length_le {ms : List Mod} (h : ms.length ≤ 1) : Uniq ms :=
  fun _ => Nat.le_trans (List.length_filter_le _ _) h

theorem Uniq.flatMap {α : Type} {f : α → List Mod} {xs : List α}
    (hp : ∀ q, xs.Pairwise (fun a b =>
      (f a).filter (fun m => m.path = q) = [] ∨ (f b).filter (fun m => m.path = q) = []))
    (hu : ∀ a ∈ xs, Uniq (f a)) : Uniq (xs.flatMap f) := by
  intro q
  rcases filter_flatMap_pairwise f _ xs (hp q) with h | ⟨a, ha, e⟩
  · rw [h]; exact Nat.zero_le _
  · rw [e]; exact hu a ha q

theorem TieShape.flatMap {α : Type} {f : α → List Mod} {xs : List α}
    (hp : ∀ q, xs.Pairwise (fun a b =>
      (f a).filter (fun m => m.path = q) = [] ∨ (f b).filter (fun m => m.path = q) = []))
    (hu : ∀ a ∈ xs, TieShape (f a)) : TieShape (xs.flatMap f) := by
  intro q
  rcases filter_flatMap_pairwise f _ xs (hp q) with h | ⟨a, ha, e⟩
  · rw [h]; exact Or.inl rfl
  · rw [e]; exact hu a ha q

theorem Uniq.append {A B : List Mod} (hA : Uniq A) (hB : Uniq B)
    (hd : ∀ q, A.filter (fun m => m.path = q) = [] ∨ B.filter (fun m => m.path = q) = []) :
    Uniq (A ++ B) := by
  intro q
  rw [List.filter_append]
  rcases hd q with h | h
  · rw [h, List.nil_append]; exact hB q
  · rw [h, List.append_nil]; exact hA q

theorem TieShape.append {A B : List Mod} (hA : TieShape A) (hB : TieShape B)
    (hd : ∀ q, A.filter (fun m => m.path = q) = [] ∨ B.filter (fun m => m.path = q) = []) :
    TieShape (A ++ B) := by
  intro q
  show TieList q _
  rw [List.filter_append]
  rcases hd q with h | h
  · rw [h, List.nil_append]; exact hB q
  · rw [h, List.append_nil]; exact hA q

/-- a Delete in front of Adds strictly below it -/
theorem TieShape.del_cons {b : String} {F : List Mod} (hu : Uniq F) (hne : ∀ m ∈ F, m.path ≠ b) :
    TieShape (Mod.mkDel b :: F) := by
  intro q
  show TieList q _
  by_cases hq : b = q
  · subst hq
    have h0 : F.filter (fun m => m.path = b) = [] :=
      List.filter_eq_nil_iff.mpr (fun m hm => by simpa using hne m hm)
    have : (Mod.mkDel b :: F).filter (fun m => m.path = b) = [Mod.mkDel b] := by
      simp [Mod.mkDel, h0]
    rw [this]; exact Or.inr (Or.inl ⟨_, rfl⟩)
  · have : (Mod.mkDel b :: F).filter (fun m => m.path = q) = F.filter (fun m => m.path = q) := by
      simp [Mod.mkDel, hq]
    rw [this]; exact .of_length_le (hu q)

/-- the tie: a Delete and the Add of the leaf that replaces the position -/
theorem TieShape.del_add (b : String) (v : Scalar) : TieShape [Mod.mkDel b, Mod.mkAdd b v] := by
  intro q
  by_cases hq : b = q
  · subst hq; exact Or.inr (Or.inr ⟨v, by simp [Mod.mkDel, Mod.mkAdd]⟩)
  · exact Or.inl (by simp [Mod.mkDel, Mod.mkAdd, hq])

/-! ## flatten: one Add per path -/

theorem flatList_under_idx : ∀ (xs : List Node) (b : String) (i : Nat) (m : Mod), (∀ x ∈ xs, x.SafeKeysD) →
    m ∈ flatList xs b i → ∃ j, i ≤ j ∧ Under (toListPath b j) m.path
  | [], _, _, _, _, h => by simp [flatList] at h
  | x :: xs, b, i, m, hs, h => by
    simp only [flatList, List.mem_append] at h
    rcases h with h | h
    · exact ⟨i, Nat.le_refl _, flatNode_under x _ m (hs x (List.mem_cons_self ..)) (toListPath_ne_empty b i) h⟩
    · obtain ⟨j, hj, hu⟩ := flatList_under_idx xs b (i + 1) m (fun y hy => hs y (List.mem_cons_of_mem _ hy)) h
      exact ⟨j, by omega, hu⟩

theorem flatList_path_ne {xs : List Node} {b : String} {i : Nat} {m : Mod} (hs : ∀ x ∈ xs, x.SafeKeysD)
    (h : m ∈ flatList xs b i) : m.path ≠ b := by
  obtain ⟨j, _, u⟩ := flatList_under_idx xs b i m hs h
  exact ne_of_under_toListPath u

theorem flatKvs_path_ne {kvs : List (String × Node)} {b : String} {m : Mod} (hs : SafeKeysKvs kvs) (hb : b ≠ "")
    (h : m ∈ flatKvs kvs b) : m.path ≠ b := by
  obtain ⟨k, u⟩ := flatKvs_under kvs b m hs h
  exact ne_of_under_toPath hb u

mutual
theorem flatNode_uniq : ∀ (n : Node) (b : String), Good n → b ≠ "" → Uniq (flatNode n b)
  | .leaf v, b, _, _ => by
    simp only [flatNode]; exact Uniq.of_length_le (Nat.le_refl _)
  | .list xs, b, hg, _ => by
    simp only [flatNode]; exact flatList_uniq xs b 0 (fun x hx => hg.of_list_mem hx)
  | .cont kvs, b, hg, hb => by
    simp only [flatNode]
    rw [flatKvs_eq_flatMap]
    exact Uniq.flatMap
      (fun q => blocks_pairwise hg b q _ (fun e he m hm =>
        flatNode_under e.2 _ m (hg.of_cont_mem he).1.2 (toPath_ne_empty (hg.of_cont_mem he).2.1.1) hm))
      (flatKvs_uniq kvs b (fun e he => hg.of_cont_mem he))
theorem flatList_uniq : ∀ (xs : List Node) (b : String) (i : Nat), (∀ x ∈ xs, Good x) → Uniq (flatList xs b i)
  | [], _, _, _ => by simp only [flatList]; exact Uniq.of_length_le (Nat.zero_le _)
  | x :: xs, b, i, hg => by
    simp only [flatList]
    refine Uniq.append (flatNode_uniq x _ (hg x (List.mem_cons_self ..)) (toListPath_ne_empty b i))
      (flatList_uniq xs b (i + 1) (fun y hy => hg y (List.mem_cons_of_mem _ hy))) (filter_disj ?_)
    intro a ha c hc e
    have u1 := flatNode_under x _ a (hg x (List.mem_cons_self ..)).2 (toListPath_ne_empty b i) ha
    obtain ⟨j, hj, u2⟩ := flatList_under_idx xs b (i + 1) c
      (fun y hy => (hg y (List.mem_cons_of_mem _ hy)).2) hc
    rw [e] at u1
    have := idx_eq_of_under u1 u2
    omega
theorem flatKvs_uniq : ∀ (xs : List (String × Node)) (b : String),
    (∀ e ∈ xs, Good e.2 ∧ SafeKeyD e.1 ∧ hasIdxSuffix e.1 = false) →
    ∀ e ∈ xs, Uniq (flatNode e.2 (toPath b e.1))
  | [], _, _, e, he => by cases he
  | (k, x) :: xs, b, hg, e, he => by
    rcases List.mem_cons.mp he with rfl | he
    · have h0 : Good x ∧ SafeKeyD k ∧ hasIdxSuffix k = false := hg (k, x) (List.mem_cons_self ..)
      exact flatNode_uniq x _ h0.1 (toPath_ne_empty h0.2.1.1)
    · exact flatKvs_uniq xs b (fun y hy => hg y (List.mem_cons_of_mem _ hy)) e he
end

/-! ## handleExisting / diff: the shape of ties -/

theorem rightBlock_uniq (l : AMap Node) (p : String) (e : String × Node) : Uniq (rightBlock l p e) := by
  simp only [rightBlock]
  cases child l e.1 with
  | some _ => exact Uniq.of_length_le (Nat.zero_le _)
  | none => exact Uniq.of_length_le (Nat.le_refl _)

theorem mismatch_tie {x y : Node} {b : String} (hk : x.kind ≠ y.kind) (hy : Good y) (hb : b ≠ "") :
    TieShape (emitNode x y b) := by
  rw [emitNode_of_kind_ne _ hk]
  cases y with
  | leaf v => simp only [flatNode]; exact TieShape.del_add b v
  | list ys =>
    simp only [flatNode]
    exact TieShape.del_cons (flatList_uniq ys b 0 (fun x hx => hy.of_list_mem hx))
      (fun m hm => flatList_path_ne (fun x hx => (hy.of_list_mem hx).2) hm)
  | cont r =>
    have hu := flatNode_uniq (.cont r) b hy hb
    simp only [flatNode] at hu ⊢
    exact TieShape.del_cons hu (fun m hm => flatKvs_path_ne (by simpa [Node.SafeKeysD] using hy.2) hb hm)

/-- the two loops of diff(): left blocks and right Deletes never share a path -/
theorem cont_tie {l r : AMap Node} (hl : Good (.cont l)) (hr : Good (.cont r)) (p : String)
    (hblocks : ∀ e ∈ l, TieShape (leftBlock r p e)) : TieShape (emitLeft l r p ++ emitRight r l p) := by
  rw [emitLeft_eq_flatMap, emitRight_eq_flatMap]
  refine TieShape.append ?_ ?_ (filter_disj ?_)
  · exact TieShape.flatMap (fun q => blocks_pairwise hl p q _ (leftBlock_under hl hr p)) hblocks
  · exact (Uniq.flatMap (fun q => blocks_pairwise hr p q _ (fun e _ => rightBlock_under l p e))
      (fun e _ => rightBlock_uniq l p e)).tieShape
  · intro a ha c hc e
    obtain ⟨ea, hea, hma⟩ := List.mem_flatMap.mp ha
    obtain ⟨ec, hec, hmc⟩ := List.mem_flatMap.mp hc
    have u1 := leftBlock_under hl hr p ea hea a hma
    have u2 := rightBlock_under l p ec c hmc
    rw [e] at u1
    have hk := key_eq_of_under (hl.of_cont_mem hea).2.1 (hr.of_cont_mem hec).2.1 u1 u2
    simp only [rightBlock] at hmc
    cases hch : child l ec.1 with
    | some _ => rw [hch] at hmc; cases hmc
    | none =>
      rw [← hk, child_of_noSuffix l (hl.of_cont_mem hea).2.2] at hch
      have := AMap.get?_of_mem hl.1.sorted (show (ea.1, ea.2) ∈ l from hea)
      rw [this] at hch; cases hch

mutual
theorem emitNode_tie : ∀ (x y : Node) (b : String), Good x → Good y → b ≠ "" → TieShape (emitNode x y b)
  | .cont l, .cont r, b, hx, hy, _ => by
    simp only [emitNode]
    exact cont_tie hx hy b (emitLeft_tie l r b (fun e he => hx.of_cont_mem he) hy)
  | .list xs, .list ys, b, hx, _, _ => by
    simp only [emitNode]
    split
    · exact fun q => Or.inl rfl
    · exact TieShape.del_cons (flatList_uniq xs b 0 (fun x hx' => hx.of_list_mem hx'))
        (fun m hm => flatList_path_ne (fun x hx' => (hx.of_list_mem hx').2) hm)
  | .leaf a, .leaf c, b, _, _, _ => by
    simp only [emitNode]
    split
    · exact fun q => Or.inl rfl
    · exact (Uniq.of_length_le (Nat.le_refl _)).tieShape
  | .leaf _, .list _, _, _, hy, hb => mismatch_tie (by simp [Node.kind]) hy hb
  | .leaf _, .cont _, _, _, hy, hb => mismatch_tie (by simp [Node.kind]) hy hb
  | .list _, .leaf _, _, _, hy, hb => mismatch_tie (by simp [Node.kind]) hy hb
  | .list _, .cont _, _, _, hy, hb => mismatch_tie (by simp [Node.kind]) hy hb
  | .cont _, .leaf _, _, _, hy, hb => mismatch_tie (by simp [Node.kind]) hy hb
  | .cont _, .list _, _, _, hy, hb => mismatch_tie (by simp [Node.kind]) hy hb
theorem emitLeft_tie : ∀ (xs : List (String × Node)) (r : AMap Node) (b : String),
    (∀ e ∈ xs, Good e.2 ∧ SafeKeyD e.1 ∧ hasIdxSuffix e.1 = false) → Good (.cont r) →
    ∀ e ∈ xs, TieShape (leftBlock r b e)
  | [], _, _, _, _, e, he => by cases he
  | (k, n) :: rest, r, b, hxs, hr, e, he => by
    rcases List.mem_cons.mp he with rfl | he
    · have h0 : Good n ∧ SafeKeyD k ∧ hasIdxSuffix k = false := hxs (k, n) (List.mem_cons_self ..)
      simp only [leftBlock, child_of_noSuffix r h0.2.2]
      cases hg : AMap.get? r k with
      | none => exact (flatNode_uniq n _ h0.1 (toPath_ne_empty h0.2.1.1)).tieShape
      | some y => exact emitNode_tie n y _ h0.1 (hr.of_get? hg) (toPath_ne_empty h0.2.1.1)
    · exact emitLeft_tie rest r b (fun y hy => hxs y (List.mem_cons_of_mem _ hy)) hr e he
end

/-- per path, `emit` yields nothing, one modification, or a Delete followed by an Add -/
theorem emit_tieShape {l r : AMap Node} (hl : Good (.cont l)) (hr : Good (.cont r)) : TieShape (emit l r) := by
  simp only [emit, emitNode]
  exact cont_tie hl hr "" (emitLeft_tie l r "" (fun e he => hl.of_cont_mem he) hr)

theorem diff_tieShape {l r : AMap Node} (hl : Good (.cont l)) (hr : Good (.cont r)) : TieShape (diff l r) := by
  intro q
  rw [diff, sortMods_filter]
  exact emit_tieShape hl hr q

/-! ## index statements from the shape -/

theorem pair_of_append_cons {α : Type} : ∀ {A C : List α} {a x y z : α}, a ∈ A → A ++ x :: C = [y, z] →
    a = y ∧ x = z
  | [], _, _, _, _, _, ha, _ => by cases ha
  | [a'], C, a, x, y, z, ha, h => by
    simp only [List.cons_append, List.nil_append, List.cons.injEq] at h
    rw [List.mem_singleton] at ha
    exact ⟨ha.trans h.1, h.2.1⟩
  | _ :: _ :: A, _, _, _, _, _, _, h => by
    simp at h

theorem filter_split_at {d : List Mod} (pr : Mod → Bool) {j : Nat} (hj : j < d.length) (hp : pr d[j] = true) :
    d.filter pr = (d.take j).filter pr ++ d[j] :: (d.drop (j + 1)).filter pr := by
  calc d.filter pr = (d.take j ++ d.drop j).filter pr := by rw [List.take_append_drop]
    _ = _ := by rw [List.drop_eq_getElem_cons hj, List.filter_append, List.filter_cons, if_pos hp]

/-- two modifications of one path: the earlier is the Delete, the later the Add -/
theorem TieShape.getElem_pair {d : List Mod} (h : TieShape d) {i j : Nat} (hij : i < j) (hj : j < d.length)
    (hp : d[i].path = d[j].path) :
    d[i] = Mod.mkDel d[j].path ∧ ∃ v, d[j] = Mod.mkAdd d[j].path v := by
  have hs := filter_split_at (d := d) (fun m => m.path = d[j].path) hj (by simp)
  have hi : d[i] ∈ (d.take j).filter (fun m => m.path = d[j].path) := by
    refine List.mem_filter.mpr ⟨List.mem_take_iff_getElem.mpr ⟨i, by omega, rfl⟩, by simp [hp]⟩
  have hq := h d[j].path
  rw [hs] at hq
  rcases hq with h0 | ⟨m, h1⟩ | ⟨v, h2⟩
  · simp at h0
  · exfalso
    cases hA : (d.take j).filter (fun m => m.path = d[j].path) with
    | nil => rw [hA] at hi; cases hi
    | cons a A => rw [hA] at h1; simp at h1
  · have := pair_of_append_cons hi h2
    exact ⟨this.1, v, this.2⟩

end Ytk
