/-
  YtkProofs.Analytics — lemmas about the analytics report model.
-/
import YtkModel.Analytics

namespace Ytk.Analytics

/-! ## sorting -/

theorem sortStrings_perm (l : List String) : (sortStrings l).Perm l := List.mergeSort_perm _ _

theorem sortStrings_pairwise (l : List String) : (sortStrings l).Pairwise (· ≤ ·) := by
  unfold sortStrings
  have h := List.pairwise_mergeSort (le := fun (a b : String) => decide (a ≤ b))
    (fun a b c hab hbc => decide_eq_true (String.le_trans (of_decide_eq_true hab) (of_decide_eq_true hbc)))
    (fun a b => by
      rcases String.le_total a b with h | h
      · simp [h]
      · simp [h]) l
  exact h.imp (fun h => of_decide_eq_true h)

/-- sorting is insensitive to the order of its input: this is what makes the reports
    independent of Go's map iteration order -/
theorem sortStrings_eq_of_perm {l₁ l₂ : List String} (h : l₁.Perm l₂) : sortStrings l₁ = sortStrings l₂ := by
  apply List.Perm.eq_of_pairwise (le := (· ≤ ·)) (fun a b _ _ hab hba => String.le_antisymm hab hba)
    (sortStrings_pairwise l₁) (sortStrings_pairwise l₂)
  exact (sortStrings_perm l₁).trans (h.trans (sortStrings_perm l₂).symm)

theorem sortStrings_of_sorted {l : List String} (h : l.Pairwise (· ≤ ·)) : sortStrings l = l :=
  List.Perm.eq_of_pairwise (le := (· ≤ ·)) (fun _ _ _ _ hab hba => String.le_antisymm hab hba)
    (sortStrings_pairwise l) h (sortStrings_perm l)

theorem mem_sortStrings {l : List String} {x : String} : x ∈ sortStrings l ↔ x ∈ l :=
  (sortStrings_perm l).mem_iff

/-! ## unique / subtract -/

theorem mem_unique {x : String} : ∀ {l acc : List String}, x ∈ unique acc l ↔ x ∈ acc ∨ x ∈ l := by
  intro l
  induction l with
  | nil => intro acc; simp [unique]
  | cons s r ih =>
    intro acc
    simp only [unique]
    split
    · rename_i hc
      have hs : s ∈ acc := List.contains_iff_mem.mp hc
      rw [ih]
      constructor
      · rintro (h | h)
        · exact Or.inl h
        · exact Or.inr (List.mem_cons_of_mem _ h)
      · rintro (h | h)
        · exact Or.inl h
        · rcases List.mem_cons.mp h with rfl | h
          · exact Or.inl hs
          · exact Or.inr h
    · rw [ih]
      simp only [List.mem_append, List.mem_cons, List.not_mem_nil, or_false]
      constructor
      · rintro ((h | h) | h)
        · exact Or.inl h
        · exact Or.inr (Or.inl h)
        · exact Or.inr (Or.inr h)
      · rintro (h | h | h)
        · exact Or.inl (Or.inl h)
        · exact Or.inl (Or.inr h)
        · exact Or.inr h

/-! ## search -/

/-- specification-level "some value of the document mentions" -/
def anyValue (p : Scalar → Bool) (d : Doc) : Bool := d.any fun l => l.flat.any fun kv => p kv.2

theorem search_isEmpty (p : Scalar → Bool) (d : Doc) : (search p d).isEmpty = !anyValue p d := by
  cases h : anyValue p d with
  | true =>
    simp only [Bool.not_true, List.isEmpty_eq_false_iff_exists_mem]
    simp only [anyValue, List.any_eq_true] at h
    obtain ⟨l, hl, kv, hkv, hp⟩ := h
    refine ⟨⟨l.name, kv.1⟩, ?_⟩
    simp only [search, List.mem_flatMap]
    refine ⟨l, hl, ?_⟩
    simp only [searchLayer, List.mem_map, List.mem_filter]
    exact ⟨kv, ⟨hkv, hp⟩, rfl⟩
  | false =>
    simp only [Bool.not_false, List.isEmpty_iff]
    simp only [search, List.flatMap_eq_nil_iff]
    intro l hl
    simp only [searchLayer, List.map_eq_nil_iff, List.filter_eq_nil_iff]
    intro kv hkv hp
    have : anyValue p d = true := by
      simp only [anyValue, List.any_eq_true]
      exact ⟨l, hl, kv, hkv, hp⟩
    rw [h] at this; cases this

theorem hits_isEmpty (mentions : String → Scalar → Bool) (docs : List Doc) (k : String) :
    (hits mentions docs k).isEmpty = !(docs.any fun d => anyValue (mentions k) d) := by
  cases h : (docs.any fun d => anyValue (mentions k) d) with
  | true =>
    simp only [Bool.not_true, List.isEmpty_eq_false_iff_exists_mem]
    simp only [List.any_eq_true] at h
    obtain ⟨d, hd, hv⟩ := h
    have hne : (search (mentions k) d).isEmpty = false := by rw [search_isEmpty, hv]; rfl
    obtain ⟨c, hc⟩ := List.isEmpty_eq_false_iff_exists_mem.mp hne
    exact ⟨c, by simp only [hits, List.mem_flatMap]; exact ⟨d, hd, hc⟩⟩
  | false =>
    simp only [Bool.not_false, List.isEmpty_iff, hits, List.flatMap_eq_nil_iff]
    intro d hd
    have : anyValue (mentions k) d = false := by
      cases hv : anyValue (mentions k) d with
      | false => rfl
      | true =>
        have : (docs.any fun d => anyValue (mentions k) d) = true := List.any_eq_true.mpr ⟨d, hd, hv⟩
        rw [h] at this; cases this
    have he := search_isEmpty (mentions k) d
    rw [this] at he
    exact List.isEmpty_iff.mp he

/-- membership in the `used` list of `dependencyResolver.Resolve` -/
theorem mem_used (mentions : String → Scalar → Bool) (docs : List Doc) (keys : List String) (x : String) :
    x ∈ unique [] (keys.flatMap fun k => docs.filterMap fun d =>
        if (search (mentions k) d).isEmpty then none else some k) ↔
      x ∈ keys ∧ (docs.any fun d => anyValue (mentions x) d) = true := by
  rw [mem_unique]
  simp only [List.not_mem_nil, false_or, List.mem_flatMap, List.mem_filterMap, List.any_eq_true]
  constructor
  · rintro ⟨k, hk, d, hd, hif⟩
    split at hif
    · cases hif
    · rename_i hne
      cases hif
      refine ⟨hk, d, hd, ?_⟩
      rw [search_isEmpty] at hne
      simpa using hne
  · rintro ⟨hk, d, hd, hv⟩
    refine ⟨x, hk, d, hd, ?_⟩
    rw [search_isEmpty, hv]
    rfl

/-! ## placeholder report loop -/

/-- membership in the result of the loop (the code at HEAD tests the KEY, D32): the keys already failed and
    the keys of the remaining entries that fail — for EVERY list, duplicate keys included -/
theorem phLoop_failedKeys_mem (hasPh : String → Bool) (filter : String → Bool) (resolve : String → String)
    (doc : Doc) : ∀ (rest : Flat) (acc : PhReport) (k : String),
      k ∈ (phLoop hasPh filter resolve doc rest acc).failedKeys ↔
        k ∈ acc.failedKeys ∨ ∃ kv ∈ rest, kv.1 = k ∧
          (filter kv.1 && hasPh kv.2.text && (kv.2.text == resolve kv.2.text)) = true := by
  intro rest
  induction rest with
  | nil => intro acc k; simp [phLoop]
  | cons kv r ih =>
    intro acc k0
    obtain ⟨k, v⟩ := kv
    simp only [phLoop]
    by_cases hcond : (filter k && hasPh v.text && (v.text == resolve v.text)) = true
    · by_cases hc : acc.failedKeys.contains k = true
      · rw [if_neg (by rw [hcond, hc]; simp)]
        rw [ih]
        have hm := List.contains_iff_mem.mp hc
        constructor
        · rintro (h | ⟨kv, hkv, h1, h2⟩)
          · exact Or.inl h
          · exact Or.inr ⟨kv, List.mem_cons_of_mem _ hkv, h1, h2⟩
        · rintro (h | ⟨kv, hkv, h1, h2⟩)
          · exact Or.inl h
          · rcases List.mem_cons.mp hkv with rfl | hkv
            · exact Or.inl (h1 ▸ hm)
            · exact Or.inr ⟨kv, hkv, h1, h2⟩
      · have hc' : acc.failedKeys.contains k = false := by simpa using hc
        rw [if_pos (by rw [hcond, hc']; rfl)]
        rw [ih]
        simp only [List.mem_append, List.mem_singleton]
        constructor
        · rintro ((h | rfl) | ⟨kv, hkv, h1, h2⟩)
          · exact Or.inl h
          · exact Or.inr ⟨(k0, v), List.mem_cons_self .., rfl, hcond⟩
          · exact Or.inr ⟨kv, List.mem_cons_of_mem _ hkv, h1, h2⟩
        · rintro (h | ⟨kv, hkv, h1, h2⟩)
          · exact Or.inl (Or.inl h)
          · rcases List.mem_cons.mp hkv with rfl | hkv
            · exact Or.inl (Or.inr h1.symm)
            · exact Or.inr ⟨kv, hkv, h1, h2⟩
    · rw [if_neg (by
        intro h
        apply hcond
        simp only [Bool.and_eq_true] at h ⊢
        exact h.1)]
      rw [ih]
      constructor
      · rintro (h | ⟨kv, hkv, h1, h2⟩)
        · exact Or.inl h
        · exact Or.inr ⟨kv, List.mem_cons_of_mem _ hkv, h1, h2⟩
      · rintro (h | ⟨kv, hkv, h1, h2⟩)
        · exact Or.inl h
        · rcases List.mem_cons.mp hkv with rfl | hkv
          · exact absurd h2 hcond
          · exact Or.inr ⟨kv, hkv, h1, h2⟩

/-- no key is recorded twice -/
theorem phLoop_failedKeys_nodup (hasPh : String → Bool) (filter : String → Bool) (resolve : String → String)
    (doc : Doc) : ∀ (rest : Flat) (acc : PhReport), acc.failedKeys.Nodup →
      (phLoop hasPh filter resolve doc rest acc).failedKeys.Nodup := by
  intro rest
  induction rest with
  | nil => intro acc h; simpa [phLoop] using h
  | cons kv r ih =>
    intro acc h
    obtain ⟨k, v⟩ := kv
    simp only [phLoop]
    split
    · rename_i hc
      apply ih
      simp only [Bool.and_eq_true, Bool.not_eq_true'] at hc
      have hnm : k ∉ acc.failedKeys := fun hm => by
        have := List.contains_iff_mem.mpr hm
        rw [this] at hc
        exact absurd hc.2 (by simp)
      exact List.nodup_append.mpr ⟨h, by simp, by
        intro a ha b hb
        simp only [List.mem_singleton] at hb
        subst hb
        intro e; exact hnm (e ▸ ha)⟩
    · exact ih _ h

/-- on a list with pairwise distinct keys (the flattening of a Go map) the membership test never fires:
    the failed keys are, in visiting order, the keys of the failing entries -/
theorem phLoop_failedKeys_list (hasPh : String → Bool) (filter : String → Bool) (resolve : String → String)
    (doc : Doc) : ∀ (rest : Flat) (acc : PhReport), (rest.map (·.1)).Nodup →
      (∀ k ∈ acc.failedKeys, k ∉ rest.map (·.1)) →
      (phLoop hasPh filter resolve doc rest acc).failedKeys =
        acc.failedKeys ++ (rest.filter fun kv => filter kv.1 && hasPh kv.2.text && (kv.2.text == resolve kv.2.text)).map (·.1) := by
  intro rest
  induction rest with
  | nil => intro acc _ _; simp [phLoop]
  | cons kv r ih =>
    intro acc hnd ha
    obtain ⟨k, v⟩ := kv
    simp only [List.map_cons, List.nodup_cons] at hnd
    simp only [phLoop]
    have hnc : acc.failedKeys.contains k = false := by
      cases hc : acc.failedKeys.contains k with
      | false => rfl
      | true => exact absurd (List.mem_cons_self ..) (ha k (List.contains_iff_mem.mp hc))
    by_cases hcond : (filter k && hasPh v.text && (v.text == resolve v.text)) = true
    · rw [if_pos (by rw [hcond, hnc]; rfl)]
      rw [ih _ hnd.2 (by
        intro k' hk'
        simp only [List.mem_append, List.mem_singleton] at hk'
        rcases hk' with h | rfl
        · exact fun hm => ha k' h (List.mem_cons_of_mem _ hm)
        · exact hnd.1)]
      simp only [List.filter_cons, hcond, if_true, List.map_cons, List.append_assoc, List.singleton_append]
    · rw [if_neg (by
        intro h
        apply hcond
        simp only [Bool.and_eq_true] at h ⊢
        exact h.1)]
      rw [ih _ hnd.2 (fun k' hk' hm => ha k' hk' (List.mem_cons_of_mem _ hm))]
      simp only [List.filter_cons, hcond, Bool.false_eq_true, if_false]

/-- sorted duplicate-free string lists with the same members are equal -/
theorem eq_of_sorted_nodup_mem {l₁ l₂ : List String} (h₁ : l₁.Pairwise (· ≤ ·)) (n₁ : l₁.Nodup)
    (h₂ : l₂.Pairwise (· ≤ ·)) (n₂ : l₂.Nodup) (h : ∀ x, x ∈ l₁ ↔ x ∈ l₂) : l₁ = l₂ :=
  List.Perm.eq_of_pairwise (le := (· ≤ ·)) (fun _ _ _ _ hab hba => String.le_antisymm hab hba) h₁ h₂
    ((List.perm_ext_iff_of_nodup n₁ n₂).mpr h)

/-! ## impact -/

theorem mem_impact (mentions : String → Scalar → Bool) (doc : Doc) :
    ∀ (keys : List String) (k : String) (c : List Coord),
      (k, c) ∈ impact mentions doc keys ↔ k ∈ keys ∧ c = search (mentions k) doc ∧ c ≠ [] := by
  intro keys
  induction keys with
  | nil => intro k c; simp [impact]
  | cons k0 r ih =>
    intro k c
    simp only [impact]
    by_cases hk : k = k0
    · subst hk
      cases he : (search (mentions k) doc).isEmpty with
      | true =>
        have hnil := List.isEmpty_iff.mp he
        simp only [if_true, List.mem_filter, ih]
        constructor
        · rintro ⟨⟨_, hc, hne⟩, _⟩; rw [hnil] at hc; exact absurd hc hne
        · rintro ⟨_, hc, hne⟩; rw [hnil] at hc; exact absurd hc hne
      | false =>
        have hne : search (mentions k) doc ≠ [] := fun h => by rw [h] at he; cases he
        simp only [Bool.false_eq_true, if_false, List.mem_cons, Prod.mk.injEq, true_and, List.mem_filter, ih]
        constructor
        · rintro (hc | ⟨_, hb⟩)
          · exact ⟨Or.inl trivial, hc, hc ▸ hne⟩
          · simp at hb
        · rintro ⟨_, hc, _⟩; exact Or.inl hc
    · have hk' : (k != k0) = true := by simpa using hk
      split
      · simp only [List.mem_filter, ih, hk', and_true, List.mem_cons, hk, false_or]
      · simp only [List.mem_cons, Prod.mk.injEq, hk, false_and, false_or, List.mem_filter, ih, hk', and_true]

theorem impact_keys_nodup (mentions : String → Scalar → Bool) (doc : Doc) :
    ∀ (keys : List String), ((impact mentions doc keys).map (·.1)).Nodup := by
  intro keys
  induction keys with
  | nil => simp [impact]
  | cons k r ih =>
    simp only [impact]
    have hf : (((impact mentions doc r).filter fun p => p.1 != k).map (·.1)).Nodup :=
      (ih.sublist ((List.filter_sublist).map _))
    split
    · exact hf
    · simp only [List.map_cons, List.nodup_cons]
      refine ⟨?_, hf⟩
      intro hm
      simp only [List.mem_map, List.mem_filter] at hm
      obtain ⟨p, ⟨_, hp⟩, rfl⟩ := hm
      simp at hp

/-! ## permutations of the inputs (Go map iteration order) -/

theorem searchLayer_perm (p : Scalar → Bool) {l l' : Layer} (hn : l.name = l'.name) (hf : l.flat.Perm l'.flat) :
    (searchLayer p l).Perm (searchLayer p l') := by
  unfold searchLayer
  rw [hn]
  exact (hf.filter _).map _

/-- pointwise relation of two lists of equal length (core has no `List.Forall₂`) -/
inductive Forall2 {α β : Type} (R : α → β → Prop) : List α → List β → Prop
  | nil : Forall2 R [] []
  | cons {a b l l'} : R a b → Forall2 R l l' → Forall2 R (a :: l) (b :: l')

theorem Forall2.refl {α : Type} {R : α → α → Prop} (h : ∀ a, R a a) : ∀ l, Forall2 R l l
  | [] => .nil
  | a :: l => .cons (h a) (Forall2.refl h l)

/-- same layers in the same order, each layer's flattened entries in any order -/
def DocPerm (d d' : Doc) : Prop := Forall2 (fun l l' => l.name = l'.name ∧ l.flat.Perm l'.flat) d d'

theorem search_perm (p : Scalar → Bool) {d d' : Doc} (h : DocPerm d d') : (search p d).Perm (search p d') := by
  unfold search
  induction h with
  | nil => exact .refl _
  | cons hl _ ih =>
    simp only [List.flatMap_cons]
    exact (searchLayer_perm p hl.1 hl.2).append ih

theorem hits_perm (mentions : String → Scalar → Bool) {docs docs' : List Doc} (h : Forall2 DocPerm docs docs')
    (k : String) : (hits mentions docs k).Perm (hits mentions docs' k) := by
  unfold hits
  induction h with
  | nil => exact .refl _
  | cons hd _ ih =>
    simp only [List.flatMap_cons]
    exact (search_perm _ hd).append ih

theorem anyValue_perm (p : Scalar → Bool) {d d' : Doc} (h : DocPerm d d') : anyValue p d = anyValue p d' := by
  have h1 := search_isEmpty p d
  have h2 := search_isEmpty p d'
  have : (search p d).isEmpty = (search p d').isEmpty := by
    have hp := search_perm p h
    cases hs : search p d with
    | nil => rw [hs] at hp; rw [hp.symm.eq_nil]
    | cons a r =>
      rw [hs] at hp
      cases hs' : search p d' with
      | nil => rw [hs'] at hp; exact absurd hp.eq_nil (by simp)
      | cons _ _ => rfl
  rw [h1, h2] at this
  cases ha : anyValue p d <;> cases hb : anyValue p d' <;> simp_all

theorem anyDocs_perm (p : Scalar → Bool) {docs docs' : List Doc} (h : Forall2 DocPerm docs docs') :
    (docs.any fun d => anyValue p d) = (docs'.any fun d => anyValue p d) := by
  induction h with
  | nil => rfl
  | cons hd _ ih => simp only [List.any_cons, anyValue_perm p hd, ih]

end Ytk.Analytics
