/- Lemmas for C16 (properties: flat keys ↔ trees). -/
import YtkModel.Props
import YtkProofs.AMap
import YtkProofs.Dom

namespace Ytk.Props

theorem splitNl_ne_nil (cs : List Char) : splitNl cs ≠ [] := by
  cases cs with
  | nil => simp [splitNl]
  | cons c cs =>
    simp only [splitNl]
    split
    · simp
    · split <;> simp

theorem splitNl_append {a : List Char} (r : List Char) (h : '\n' ∉ a) :
    splitNl (a ++ '\n' :: r) = a :: splitNl r := by
  induction a with
  | nil =>
    simp only [List.nil_append, splitNl]
    split
    · rename_i he; exact absurd he (splitNl_ne_nil r)
    · rename_i h' t he; simp [he]
  | cons c a ih =>
    have hc : c ≠ '\n' := fun e => h (by simp [e])
    have ha : '\n' ∉ a := fun e => h (by simp [e])
    simp only [List.cons_append, splitNl, ih ha, if_neg hc]

theorem splitAtEq_append {k : List Char} (v : List Char) (h : '=' ∉ k) :
    splitAtEq (k ++ '=' :: v) = some (k, v) := by
  induction k with
  | nil => simp [splitAtEq]
  | cons c k ih =>
    have hc : c ≠ '=' := fun e => h (by simp [e])
    have hk : '=' ∉ k := fun e => h (by simp [e])
    simp [splitAtEq, hc, ih hk]

theorem encodeList_toList (p : String × Scalar) (rest : List (String × Scalar)) :
    (encodeList (p :: rest)).toList =
      p.1.toList ++ '=' :: (p.2.text.toList ++ '\n' :: (encodeList rest).toList) := by
  simp [encodeList, encodeKv, String.toList_append]

def LineSafe (p : String × Scalar) : Prop :=
  '=' ∉ p.1.toList ∧ '\n' ∉ p.1.toList ∧ '\n' ∉ p.2.text.toList

theorem parseSimple_encodeList (l : List (String × Scalar)) (h : ∀ p ∈ l, LineSafe p) :
    parseSimple (encodeList l) = l.map (fun p => (p.1, p.2.text)) := by
  induction l with
  | nil => simp [parseSimple, encodeList, splitNl, parseLine, splitAtEq]
  | cons p rest ih =>
    obtain ⟨h1, h2, h3⟩ := h p (List.mem_cons_self ..)
    have ih' := ih (fun q hq => h q (List.mem_cons_of_mem _ hq))
    simp only [parseSimple] at ih' ⊢
    rw [encodeList_toList]
    have hline : '\n' ∉ p.1.toList ++ '=' :: p.2.text.toList := by
      simp [h2, h3]
    rw [show p.1.toList ++ '=' :: (p.2.text.toList ++ '\n' :: (encodeList rest).toList)
        = (p.1.toList ++ '=' :: p.2.text.toList) ++ '\n' :: (encodeList rest).toList by simp]
    rw [splitNl_append _ hline]
    simp [parseLine, splitAtEq_append _ h1, String.ofList_toList, ih']


theorem insert_insert {α : Type} (m : AMap α) (x : String) (a b : α) :
    AMap.insert (AMap.insert m x a) x b = AMap.insert m x b := by
  induction m with
  | nil => simp [AMap.insert, String.lt_irrefl]
  | cons q m ih =>
    obtain ⟨k, v⟩ := q
    simp only [AMap.insert]
    split
    · simp [AMap.insert, String.lt_irrefl]
    · split
      · rename_i h1 h2; subst h2; simp [AMap.insert, String.lt_irrefl]
      · rename_i h1 h2; simp [AMap.insert, h1, h2, ih]

theorem insert_comm {α : Type} {m : AMap α} (hs : AMap.Sorted m) {x y : String} (a b : α) (h : x ≠ y) :
    AMap.insert (AMap.insert m x a) y b = AMap.insert (AMap.insert m y b) x a := by
  apply AMap.ext_of_sorted (AMap.sorted_insert (AMap.sorted_insert hs _ _) _ _)
    (AMap.sorted_insert (AMap.sorted_insert hs _ _) _ _)
  intro z
  by_cases hzy : z = y
  · subst hzy
    rw [AMap.get?_insert_self, AMap.get?_insert_ne _ _ (Ne.symm h), AMap.get?_insert_self]
  · by_cases hzx : z = x
    · subst hzx
      rw [AMap.get?_insert_ne _ _ hzy, AMap.get?_insert_self, AMap.get?_insert_self]
    · rw [AMap.get?_insert_ne _ _ hzy, AMap.get?_insert_ne _ _ hzx, AMap.get?_insert_ne _ _ hzx,
        AMap.get?_insert_ne _ _ hzy]

theorem mem_insert {α : Type} {m : AMap α} {x : String} {a : α} {p : String × α}
    (h : p ∈ AMap.insert m x a) : p = (x, a) ∨ p ∈ m := by
  induction m with
  | nil => simp [AMap.insert] at h; exact Or.inl h
  | cons q m ih =>
    obtain ⟨k, v⟩ := q
    simp only [AMap.insert] at h
    split at h
    · simp only [List.mem_cons] at h ⊢
      rcases h with h | h | h
      · exact Or.inl h
      · exact Or.inr (Or.inl h)
      · exact Or.inr (Or.inr h)
    · split at h
      · rename_i h2; subst h2
        simp only [List.mem_cons] at h ⊢
        rcases h with h | h
        · exact Or.inl h
        · exact Or.inr (Or.inr h)
      · simp only [List.mem_cons] at h ⊢
        rcases h with h | h
        · exact Or.inr (Or.inl h)
        · rcases ih h with h | h
          · exact Or.inl h
          · exact Or.inr (Or.inr h)



/-- trees that Unflatten builds from scalar values: nested maps with sorted keys, no lists -/
inductive Good : Val → Prop
  | sc (v : Scalar) : Good (.sc v)
  | obj {kvs : List (String × Val)} : AMap.Sorted kvs → (∀ p ∈ kvs, Good p.2) → Good (.obj kvs)

theorem Good.sorted {kvs : List (String × Val)} (h : Good (.obj kvs)) : AMap.Sorted kvs := by
  cases h; assumption

theorem Good.of_get {kvs : List (String × Val)} (h : Good (.obj kvs)) {k : String} {x : Val}
    (hg : AMap.get? kvs k = some x) : Good x := by
  cases h with
  | obj _ hall => exact hall _ (AMap.mem_of_get? hg)

theorem good_nil : Good (.obj []) := .obj .nil (fun _ h => by cases h)

theorem good_subOf {m : AMap Val} (h : Good (.obj m)) (c : String) : Good (.obj (subOf m c)) := by
  unfold subOf
  split
  · rename_i x hg; exact h.of_get hg
  · exact good_nil

theorem good_insert {m : AMap Val} (h : Good (.obj m)) (k : String) {x : Val} (hx : Good x) :
    Good (.obj (AMap.insert m k x)) := by
  refine .obj (AMap.sorted_insert h.sorted _ _) ?_
  intro p hp
  rcases mem_insert hp with rfl | hp
  · exact hx
  · cases h with
    | obj _ hall => exact hall p hp

theorem good_insertAt : ∀ (segs : List String) {m : AMap Val} {v : Val}, Good (.obj m) → Good v →
    Good (.obj (insertAt m segs v))
  | [], _, _, hm, _ => by simpa [insertAt] using hm
  | [last], _, _, hm, hv => by simpa [insertAt] using good_insert hm last hv
  | c :: c2 :: rest, m, v, hm, hv => by
    simp only [insertAt]
    exact good_insert hm c (good_insertAt (c2 :: rest) (good_subOf hm c) hv)

def Unrel (s t : List String) : Prop := ¬ s <+: t ∧ ¬ t <+: s

theorem Unrel.symm {s t : List String} (h : Unrel s t) : Unrel t s := ⟨h.2, h.1⟩

theorem subOf_insert_ne (m : AMap Val) {a b : String} (x : Val) (h : b ≠ a) :
    subOf (AMap.insert m a x) b = subOf m b := by
  simp [subOf, AMap.get?_insert_ne _ _ h]

theorem subOf_insert_self (m : AMap Val) (a : String) (x : AMap Val) :
    subOf (AMap.insert m a (.obj x)) a = x := by
  simp [subOf, AMap.get?_insert_self]

theorem insertAt_comm : ∀ (s t : List String) {m : AMap Val} (v w : Val), Good (.obj m) → Unrel s t →
    insertAt (insertAt m s v) t w = insertAt (insertAt m t w) s v
  | [], _, _, _, _, _, h => absurd List.nil_prefix h.1
  | _ :: _, [], _, _, _, _, h => absurd List.nil_prefix h.2
  | [a], [b], m, v, w, hm, h => by
    have hne : a ≠ b := by
      intro e; subst e; exact h.1 (List.prefix_refl _)
    simp only [insertAt]
    exact insert_comm hm.sorted _ _ hne
  | [a], b :: b2 :: bs, m, v, w, hm, h => by
    have hne : a ≠ b := by
      intro e; subst e; exact h.1 (by simp [List.cons_prefix_cons])
    simp only [insertAt, subOf_insert_ne _ _ (Ne.symm hne)]
    exact insert_comm hm.sorted _ _ hne
  | a :: a2 :: as, [b], m, v, w, hm, h => by
    have hne : a ≠ b := by
      intro e; subst e; exact h.2 (by simp [List.cons_prefix_cons])
    simp only [insertAt, subOf_insert_ne _ _ hne]
    exact insert_comm hm.sorted _ _ hne
  | a :: a2 :: as, b :: b2 :: bs, m, v, w, hm, h => by
    by_cases hne : a = b
    · subst hne
      have h' : Unrel (a2 :: as) (b2 :: bs) :=
        ⟨fun hp => h.1 (by simpa [List.cons_prefix_cons] using hp),
         fun hp => h.2 (by simpa [List.cons_prefix_cons] using hp)⟩
      simp only [insertAt, subOf_insert_self, insert_insert]
      rw [insertAt_comm (a2 :: as) (b2 :: bs) v w (good_subOf hm a) h']
    · simp only [insertAt, subOf_insert_ne _ _ hne, subOf_insert_ne _ _ (Ne.symm hne)]
      exact insert_comm hm.sorted _ _ hne



def stepU (m : AMap Val) (p : String × Val) : AMap Val := insertAt m (splitPath p.1) p.2

theorem unflattenList_eq (l : List (String × Val)) : unflattenList l = l.foldl stepU [] := rfl

theorem foldl_perm_good {l1 l2 : List (String × Val)} (hp : l1.Perm l2) :
    (∀ p ∈ l1, Good p.2) →
    (∀ p ∈ l1, ∀ q ∈ l1, p = q ∨ Unrel (splitPath p.1) (splitPath q.1)) →
    ∀ m, Good (.obj m) → l1.foldl stepU m = l2.foldl stepU m := by
  induction hp with
  | nil => intros; rfl
  | cons x _ ih =>
    intro hg hu m hm
    simp only [List.foldl_cons]
    exact ih (fun p hp => hg p (List.mem_cons_of_mem _ hp))
      (fun p hp q hq => hu p (List.mem_cons_of_mem _ hp) q (List.mem_cons_of_mem _ hq))
      _ (good_insertAt _ hm (hg x (List.mem_cons_self ..)))
  | swap x y l =>
    intro hg hu m hm
    simp only [List.foldl_cons]
    rcases hu y (List.mem_cons_self ..) x (List.mem_cons_of_mem _ (List.mem_cons_self ..)) with h | h
    · subst h; rfl
    · simp only [stepU]
      rw [insertAt_comm _ _ _ _ hm h]
  | trans h1 _ ih1 ih2 =>
    intro hg hu m hm
    rw [ih1 hg hu m hm]
    exact ih2 (fun p hp => hg p (h1.mem_iff.mpr hp))
      (fun p hp q hq => hu p (h1.mem_iff.mpr hp) q (h1.mem_iff.mpr hq)) m hm

theorem sorted_key_inj {α : Type} {kv : AMap α} (hs : AMap.Sorted kv) {p q : String × α}
    (hp : p ∈ kv) (hq : q ∈ kv) (h : p.1 = q.1) : p = q := by
  have h1 := AMap.get?_of_mem hs (show (p.1, p.2) ∈ kv from hp)
  have h2 := AMap.get?_of_mem hs (show (q.1, q.2) ∈ kv from hq)
  rw [h, h2] at h1
  cases p; cases q; simp_all

theorem pairwise_unrel_of_prefixFree {α : Type} {kv : AMap α} (hs : AMap.Sorted kv) (hpf : PrefixFree kv) :
    ∀ p ∈ kv, ∀ q ∈ kv, p = q ∨ Unrel (splitPath p.1) (splitPath q.1) := by
  intro p hp q hq
  by_cases h : p.1 = q.1
  · exact Or.inl (sorted_key_inj hs hp hq h)
  · exact Or.inr ⟨hpf p hp q hq h, hpf q hq p hp (Ne.symm h)⟩

theorem unflattenRel_unique (kv : AMap Val) (hs : AMap.Sorted kv) (hv : ∀ p ∈ kv, Good p.2)
    (hpf : PrefixFree kv) (out : AMap Val) (h : UnflattenRel kv out) : out = unflatten kv := by
  obtain ⟨l, hl, rfl⟩ := h
  have hu := pairwise_unrel_of_prefixFree hs hpf
  simp only [unflatten, unflattenList_eq]
  exact foldl_perm_good hl (fun p hp => hv p (hl.mem_iff.mp hp))
    (fun p hp q hq => hu p (hl.mem_iff.mp hp) q (hl.mem_iff.mp hq)) [] good_nil



/-- there is a scalar leaf `s` at the segment path `q` (lookup-based) -/
def LeafAt : AMap Val → List String → Scalar → Prop
  | _, [], _ => False
  | m, [k], s => AMap.get? m k = some (.sc s)
  | m, k :: rest, s => ∃ x, AMap.get? m k = some (.obj x) ∧ LeafAt x rest s

theorem leafAt_nil_map (q : List String) (s : Scalar) : ¬ LeafAt [] q s := by
  cases q with
  | nil => simp [LeafAt]
  | cons k rest =>
    cases rest with
    | nil => simp [LeafAt]
    | cons k2 rest => simp [LeafAt]

theorem leafAt_subOf (m : AMap Val) (a b2 : String) (bs : List String) (s : Scalar) :
    LeafAt m (a :: b2 :: bs) s ↔ LeafAt (subOf m a) (b2 :: bs) s := by
  simp only [LeafAt, subOf]
  cases hg : AMap.get? m a with
  | none => simp [leafAt_nil_map]
  | some x =>
    cases x with
    | obj kvs => simp
    | sc v => simp [leafAt_nil_map]
    | arr xs => simp [leafAt_nil_map]

theorem leafAt_insertAt (v : Scalar) : ∀ (segs : List String) (m : AMap Val) (q : List String) (s : Scalar),
    segs ≠ [] →
    (LeafAt (insertAt m segs (.sc v)) q s ↔ (q = segs ∧ s = v) ∨ (LeafAt m q s ∧ Unrel q segs))
  | [], _, _, _, h => absurd rfl h
  | _ :: _, _, [], s, _ => by simp [LeafAt]
  | [a], m, [b], s, _ => by
    by_cases h : b = a
    · subst h
      simp [insertAt, LeafAt, AMap.get?_insert_self, Unrel, eq_comm]
    · simp [insertAt, LeafAt, AMap.get?_insert_ne _ _ h, Unrel, h, List.cons_prefix_cons, Ne.symm h]
  | [a], m, b :: b2 :: bs, s, _ => by
    by_cases h : b = a
    · subst h
      simp [insertAt, LeafAt, AMap.get?_insert_self, Unrel, List.cons_prefix_cons]
    · simp [insertAt, LeafAt, AMap.get?_insert_ne _ _ h, Unrel, h, List.cons_prefix_cons, Ne.symm h]
  | a :: a2 :: as, m, [b], s, _ => by
    by_cases h : b = a
    · subst h
      simp [insertAt, LeafAt, AMap.get?_insert_self, Unrel, List.cons_prefix_cons]
    · simp [insertAt, LeafAt, AMap.get?_insert_ne _ _ h, Unrel, h, List.cons_prefix_cons, Ne.symm h]
  | a :: a2 :: as, m, b :: b2 :: bs, s, _ => by
    by_cases h : b = a
    · subst h
      have ih := leafAt_insertAt v (a2 :: as) (subOf m b) (b2 :: bs) s (by simp)
      have hl : LeafAt (insertAt m (b :: a2 :: as) (.sc v)) (b :: b2 :: bs) s ↔
          LeafAt (insertAt (subOf m b) (a2 :: as) (.sc v)) (b2 :: bs) s := by
        rw [leafAt_subOf]; simp only [insertAt, subOf_insert_self]
      have hr : LeafAt m (b :: b2 :: bs) s ↔ LeafAt (subOf m b) (b2 :: bs) s := leafAt_subOf ..
      rw [hl, hr, ih]
      simp [Unrel, List.cons_prefix_cons]
    · simp [insertAt, LeafAt, AMap.get?_insert_ne _ _ h, Unrel, h, List.cons_prefix_cons, Ne.symm h]



def stepS (m : AMap Val) (p : String × Scalar) : AMap Val := insertAt m (splitPath p.1) (.sc p.2)

theorem splitDot_ne_nil' (cs : List Char) : splitDot cs ≠ [] := by
  cases cs with
  | nil => simp [splitDot]
  | cons c cs =>
    simp only [splitDot]
    split
    · simp
    · split <;> simp

theorem splitPath_ne_nil' (p : String) : splitPath p ≠ [] := by
  simp [splitPath, splitDot_ne_nil']

def UnrelKeys (p p' : String × Scalar) : Prop := Unrel (splitPath p.1) (splitPath p'.1)

theorem leafAt_foldl (q : List String) (s : Scalar) : ∀ (l : List (String × Scalar)) (m : AMap Val),
    l.Pairwise UnrelKeys →
    (∀ q' s', LeafAt m q' s' → ∀ e ∈ l, Unrel q' (splitPath e.1)) →
    (LeafAt (l.foldl stepS m) q s ↔ LeafAt m q s ∨ ∃ e ∈ l, q = splitPath e.1 ∧ s = e.2)
  | [], m, _, _ => by simp
  | e :: l, m, hu, hm => by
    simp only [List.foldl_cons]
    rw [List.pairwise_cons] at hu
    have hm' : ∀ q' s', LeafAt (stepS m e) q' s' → ∀ e' ∈ l, Unrel q' (splitPath e'.1) := by
      intro q' s' hl e' he'
      rcases (leafAt_insertAt e.2 _ m q' s' (splitPath_ne_nil' _)).mp hl with ⟨rfl, _⟩ | ⟨h1, _⟩
      · exact hu.1 e' he'
      · exact hm q' s' h1 e' (List.mem_cons_of_mem _ he')
    rw [leafAt_foldl q s l (stepS m e) hu.2 hm']
    simp only [stepS, leafAt_insertAt e.2 _ m q s (splitPath_ne_nil' _), List.mem_cons]
    constructor
    · rintro ((⟨h1, h2⟩ | ⟨h1, _⟩) | ⟨e', he', h⟩)
      · exact Or.inr ⟨e, Or.inl rfl, h1, h2⟩
      · exact Or.inl h1
      · exact Or.inr ⟨e', Or.inr he', h⟩
    · rintro (h | ⟨e', (rfl | he'), h⟩)
      · exact Or.inl (Or.inr ⟨h, hm q s h e (List.mem_cons_self ..)⟩)
      · exact Or.inl (Or.inl h)
      · exact Or.inr ⟨e', he', h⟩

theorem pairwise_unrelKeys {kv : AMap Scalar} (hs : AMap.Sorted kv) (hpf : PrefixFree kv) :
    kv.Pairwise UnrelKeys := by
  induction kv with
  | nil => exact List.Pairwise.nil
  | cons p kv ih =>
    obtain ⟨k, v⟩ := p
    rw [List.pairwise_cons]
    refine ⟨?_, ih hs.tail (fun a ha b hb => hpf a (List.mem_cons_of_mem _ ha) b (List.mem_cons_of_mem _ hb))⟩
    intro p' hp'
    have hne : k ≠ p'.1 := String.ne_of_lt (hs.head_lt p' hp')
    exact ⟨hpf (k, v) (List.mem_cons_self ..) p' (List.mem_cons_of_mem _ hp') hne,
           hpf p' (List.mem_cons_of_mem _ hp') (k, v) (List.mem_cons_self ..) (Ne.symm hne)⟩

/-- the leaves of the unflattened tree are exactly the entries of the flat map -/
theorem leafAt_unflatten {kv : AMap Scalar} (hs : AMap.Sorted kv) (hpf : PrefixFree kv)
    (q : List String) (s : Scalar) :
    LeafAt (kv.foldl stepS []) q s ↔ ∃ e ∈ kv, q = splitPath e.1 ∧ s = e.2 := by
  rw [leafAt_foldl q s kv [] (pairwise_unrelKeys hs hpf)
    (fun q' s' h => absurd h (leafAt_nil_map q' s'))]
  simp [leafAt_nil_map]



def joinUnder (p : String) : List String → String
  | [] => p
  | c :: cs => joinUnder (toPath p c) cs

def tailChars (cs : List String) : List Char := cs.flatMap (fun c => '.' :: c.toList)

theorem toPath_ne {p c : String} (hp : p ≠ "") :
    (toPath p c).toList = p.toList ++ '.' :: c.toList ∧ toPath p c ≠ "" := by
  have h1 : (toPath p c).toList = p.toList ++ '.' :: c.toList := by
    simp [toPath, hp, String.toList_append]
  refine ⟨h1, ?_⟩
  intro e
  rw [e] at h1
  simp at h1

theorem joinUnder_toList : ∀ (cs : List String) (p : String), p ≠ "" →
    (joinUnder p cs).toList = p.toList ++ tailChars cs
  | [], p, _ => by simp [joinUnder, tailChars]
  | c :: cs, p, hp => by
    have h := toPath_ne (c := c) hp
    simp only [joinUnder]
    rw [joinUnder_toList cs _ h.2, h.1]
    simp [tailChars]

def joinDot : List (List Char) → List Char
  | [] => []
  | a :: rest => a ++ rest.flatMap (fun c => '.' :: c)

theorem joinDot_splitDot : ∀ cs : List Char, joinDot (splitDot cs) = cs
  | [] => by simp [splitDot, joinDot]
  | c :: cs => by
    have ih := joinDot_splitDot cs
    simp only [splitDot]
    split
    · rename_i he; exact absurd he (splitDot_ne_nil' cs)
    · rename_i h t he
      rw [he] at ih
      split
      · rename_i hc; subst hc
        simp only [joinDot] at ih ⊢
        simp [ih]
      · simp only [joinDot] at ih ⊢
        simp [ih]

/-- joining the components of a key (whose first component is non-empty) gives the key back -/
theorem joinUnder_splitPath (k : String) (h : ∀ s ∈ splitPath k, s ≠ "") :
    joinUnder "" (splitPath k) = k := by
  have hj := joinDot_splitDot k.toList
  unfold splitPath at h ⊢
  cases hs : splitDot k.toList with
  | nil => exact absurd hs (splitDot_ne_nil' _)
  | cons hc tc =>
    rw [hs] at hj h
    have hne : String.ofList hc ≠ "" := h _ (by simp)
    simp only [List.map_cons, joinUnder, toPath, if_true]
    apply String.ext
    rw [joinUnder_toList _ _ hne, ← hj]
    simp [joinDot, tailChars, List.flatMap_map, String.toList_ofList]

/-- scalar leaf below a value -/
def LeafV : Val → List String → Scalar → Prop
  | .sc v, q, s => q = [] ∧ s = v
  | .obj kvs, q, s => LeafAt kvs q s
  | .arr _, _, _ => False

theorem leafAt_cons (kvs : AMap Val) (k : String) (q' : List String) (s : Scalar) :
    LeafAt kvs (k :: q') s ↔ ∃ x, AMap.get? kvs k = some x ∧ LeafV x q' s := by
  cases q' with
  | nil =>
    simp only [LeafAt]
    constructor
    · intro h; exact ⟨_, h, by simp [LeafV]⟩
    · rintro ⟨x, hx, hl⟩
      cases x with
      | sc v => simp only [LeafV, true_and] at hl; subst hl; exact hx
      | obj kvs' => simp [LeafV, LeafAt] at hl
      | arr xs => simp [LeafV] at hl
  | cons c cs =>
    simp only [LeafAt]
    constructor
    · rintro ⟨x, hx, hl⟩; exact ⟨_, hx, by simpa [LeafV] using hl⟩
    · rintro ⟨x, hx, hl⟩
      cases x with
      | sc v => simp [LeafV] at hl
      | obj kvs' => exact ⟨kvs', hx, by simpa [LeafV] using hl⟩
      | arr xs => simp [LeafV] at hl

mutual
theorem mem_flattenVal : ∀ (x : Val) (p path : String) (s : Scalar), Good x →
    ((path, s) ∈ flattenVal x p ↔ ∃ q, LeafV x q s ∧ path = joinUnder p q)
  | .sc v, p, path, s, _ => by
    simp only [flattenVal, List.mem_singleton, Prod.mk.injEq, LeafV]
    constructor
    · rintro ⟨rfl, rfl⟩; exact ⟨[], ⟨rfl, rfl⟩, rfl⟩
    · rintro ⟨q, ⟨rfl, rfl⟩, rfl⟩; exact ⟨rfl, rfl⟩
  | .arr _, _, _, _, hg => by cases hg
  | .obj kvs, p, path, s, hg => by
    have hall : ∀ e ∈ kvs, Good e.2 := by
      cases hg with
      | obj _ hall => exact hall
    rw [flattenVal, mem_flattenValKvs kvs p path s hall]
    simp only [LeafV]
    constructor
    · rintro ⟨k, x, q', hm, hl, rfl⟩
      exact ⟨k :: q', (leafAt_cons kvs k q' s).mpr ⟨x, AMap.get?_of_mem hg.sorted hm, hl⟩, rfl⟩
    · rintro ⟨q, hl, rfl⟩
      cases q with
      | nil => simp [LeafAt] at hl
      | cons k q' =>
        obtain ⟨x, hx, hl'⟩ := (leafAt_cons kvs k q' s).mp hl
        exact ⟨k, x, q', AMap.mem_of_get? hx, hl', rfl⟩
theorem mem_flattenValKvs : ∀ (kvs : List (String × Val)) (p path : String) (s : Scalar),
    (∀ e ∈ kvs, Good e.2) →
    ((path, s) ∈ flattenValKvs kvs p ↔
      ∃ k x q', (k, x) ∈ kvs ∧ LeafV x q' s ∧ path = joinUnder (toPath p k) q')
  | [], _, _, _, _ => by simp [flattenValKvs]
  | (k, x) :: rest, p, path, s, hall => by
    have hx : Good x := hall (k, x) (List.mem_cons_self ..)
    have hrest : ∀ e ∈ rest, Good e.2 := fun e he => hall e (List.mem_cons_of_mem _ he)
    simp only [flattenValKvs, List.mem_append, mem_flattenVal x (toPath p k) path s hx,
      mem_flattenValKvs rest p path s hrest, List.mem_cons]
    constructor
    · rintro (⟨q, hl, rfl⟩ | ⟨k', x', q', hm, hl, rfl⟩)
      · exact ⟨k, x, q, Or.inl rfl, hl, rfl⟩
      · exact ⟨k', x', q', Or.inr hm, hl, rfl⟩
    · rintro ⟨k', x', q', (h | hm), hl, rfl⟩
      · cases h; exact Or.inl ⟨q', hl, rfl⟩
      · exact Or.inr ⟨k', x', q', hm, hl, rfl⟩
end

/-- leaves of a `Good` tree, as flattenPlain lists them -/
theorem mem_flattenPlain {m : AMap Val} (hg : Good (.obj m)) (path : String) (s : Scalar) :
    (path, s) ∈ flattenPlain m ↔ ∃ q, LeafAt m q s ∧ path = joinUnder "" q := by
  have := mem_flattenVal (.obj m) "" path s hg
  simpa [flattenVal, flattenPlain, LeafV] using this




theorem unflatten_toV (kv : AMap Scalar) : unflatten (toV kv) = kv.foldl stepS [] := by
  simp only [unflatten, unflattenList, toV, List.foldl_map]
  rfl

theorem good_foldl_stepS : ∀ (l : List (String × Scalar)) (m : AMap Val), Good (.obj m) →
    Good (.obj (l.foldl stepS m))
  | [], _, h => h
  | e :: l, m, h => by
    simp only [List.foldl_cons]
    exact good_foldl_stepS l _ (good_insertAt _ h (.sc _))

theorem good_unflatten (kv : AMap Scalar) : Good (.obj (unflatten (toV kv))) := by
  rw [unflatten_toV]; exact good_foldl_stepS kv [] good_nil

/-- every segment of every key is non-empty -/
def SegsNonempty (kv : List (String × Scalar)) : Prop := ∀ p ∈ kv, ∀ s ∈ splitPath p.1, s ≠ ""

theorem mem_flattenPlain_unflatten {kv : AMap Scalar} (hs : AMap.Sorted kv) (hpf : PrefixFree kv)
    (hne : SegsNonempty kv) (path : String) (s : Scalar) :
    (path, s) ∈ flattenPlain (unflatten (toV kv)) ↔ (path, s) ∈ kv := by
  rw [mem_flattenPlain (good_unflatten kv), unflatten_toV]
  constructor
  · rintro ⟨q, hl, rfl⟩
    obtain ⟨e, he, rfl, rfl⟩ := (leafAt_unflatten hs hpf q s).mp hl
    rw [joinUnder_splitPath _ (hne e he)]
    exact he
  · intro h
    exact ⟨splitPath path, (leafAt_unflatten hs hpf _ _).mpr ⟨(path, s), h, rfl, rfl⟩,
      (joinUnder_splitPath _ (hne _ h)).symm⟩

theorem get?_foldl_insert_some {α : Type} (k : String) (v : α) : ∀ (L : List (String × α)) (m : AMap α),
    AMap.get? (L.foldl (fun m p => AMap.insert m p.1 p.2) m) k = some v →
    (k, v) ∈ L ∨ AMap.get? m k = some v
  | [], _, h => Or.inr h
  | p :: L, m, h => by
    simp only [List.foldl_cons] at h
    rcases get?_foldl_insert_some k v L _ h with h | h
    · exact Or.inl (List.mem_cons_of_mem _ h)
    · by_cases hk : k = p.1
      · subst hk
        rw [AMap.get?_insert_self] at h
        cases h
        exact Or.inl (List.mem_cons_self ..)
      · rw [AMap.get?_insert_ne _ _ hk] at h
        exact Or.inr h

theorem get?_foldl_insert_isSome {α : Type} (k : String) : ∀ (L : List (String × α)) (m : AMap α),
    ((∃ v, (k, v) ∈ L) ∨ (AMap.get? m k).isSome = true) →
    (AMap.get? (L.foldl (fun m p => AMap.insert m p.1 p.2) m) k).isSome = true
  | [], m, h => by
    rcases h with ⟨v, hv⟩ | h
    · cases hv
    · exact h
  | p :: L, m, h => by
    simp only [List.foldl_cons]
    apply get?_foldl_insert_isSome k L
    rcases h with ⟨v, hv⟩ | h
    · simp only [List.mem_cons] at hv
      rcases hv with hv | hv
      · right; cases hv; simp [AMap.get?_insert_self]
      · exact Or.inl ⟨v, hv⟩
    · right
      by_cases hk : k = p.1
      · subst hk; simp [AMap.get?_insert_self]
      · rw [AMap.get?_insert_ne _ _ hk]; exact h

/-- a list with the same members as a sorted map normalises to that map -/
theorem ofList_eq_of_mem_iff {α : Type} {L : List (String × α)} {kv : AMap α} (hs : AMap.Sorted kv)
    (h : ∀ x, x ∈ L ↔ x ∈ kv) : AMap.ofList L = kv := by
  apply AMap.ext_of_sorted (AMap.sorted_ofList L) hs
  intro k
  unfold AMap.ofList
  cases hg : AMap.get? kv k with
  | some v =>
    have hin : (k, v) ∈ L := (h _).mpr (AMap.mem_of_get? hg)
    have hsome := get?_foldl_insert_isSome k L [] (Or.inl ⟨v, hin⟩)
    cases hf : AMap.get? (L.foldl (fun m p => AMap.insert m p.1 p.2) []) k with
    | none => rw [hf] at hsome; cases hsome
    | some v' =>
      rcases get?_foldl_insert_some k v' L [] hf with h' | h'
      · have := AMap.get?_of_mem hs ((h _).mp h')
        rw [hg] at this; cases this; rfl
      · cases h'
  | none =>
    cases hf : AMap.get? (L.foldl (fun m p => AMap.insert m p.1 p.2) []) k with
    | none => rfl
    | some v' =>
      rcases get?_foldl_insert_some k v' L [] hf with h' | h'
      · have := AMap.get?_of_mem hs ((h _).mp h')
        rw [hg] at this; cases this
      · cases h'

theorem flattenPlainMap_unflatten {kv : AMap Scalar} (hs : AMap.Sorted kv) (hpf : PrefixFree kv)
    (hne : SegsNonempty kv) : flattenPlainMap (unflatten (toV kv)) = kv :=
  ofList_eq_of_mem_iff hs (fun x => mem_flattenPlain_unflatten hs hpf hne x.1 x.2)



mutual
/-- the structural image of a plain tree in the DOM -/
def mapNode : Val → Node
  | .sc v => .leaf v
  | .arr xs => .list (mapNodeList xs)
  | .obj kvs => .cont (mapNodeKvs kvs)
def mapNodeList : List Val → List Node
  | [] => []
  | x :: xs => mapNode x :: mapNodeList xs
def mapNodeKvs : List (String × Val) → List (String × Node)
  | [] => []
  | (k, x) :: rest => (k, mapNode x) :: mapNodeKvs rest
end

theorem get?_mapNodeKvs (m : AMap Val) (k : String) :
    AMap.get? (mapNodeKvs m) k = (AMap.get? m k).map mapNode := by
  induction m with
  | nil => simp [mapNodeKvs, AMap.get?]
  | cons p m ih =>
    obtain ⟨k', x⟩ := p
    simp only [mapNodeKvs, AMap.get?]
    split
    · simp
    · exact ih

theorem insert_mapNodeKvs (m : AMap Val) (k : String) (x : Val) :
    mapNodeKvs (AMap.insert m k x) = AMap.insert (mapNodeKvs m) k (mapNode x) := by
  induction m with
  | nil => simp [mapNodeKvs, AMap.insert]
  | cons p m ih =>
    obtain ⟨k', x'⟩ := p
    simp only [mapNodeKvs, AMap.insert]
    split
    · simp [mapNodeKvs]
    · split
      · simp [mapNodeKvs]
      · simp [mapNodeKvs, ih]

def NoSuffix (segs : List String) : Prop := ∀ s ∈ segs, hasIdxSuffix s = false

theorem addAtSegs_mapNode (v : Val) : ∀ (segs : List String) (m : AMap Val), NoSuffix segs →
    addAtSegs (mapNodeKvs m) segs (mapNode v) = mapNodeKvs (insertAt m segs v)
  | [], m, _ => by simp [addAtSegs, insertAt]
  | [last], m, h => by
    have hl := h last (List.mem_cons_self ..)
    simp [addAtSegs, insertAt, add_of_noSuffix _ _ hl, insert_mapNodeKvs]
  | p :: q :: rest, m, h => by
    have hp := h p (List.mem_cons_self ..)
    have ht : NoSuffix (q :: rest) := fun s hs => h s (List.mem_cons_of_mem _ hs)
    have ih := fun m' => addAtSegs_mapNode v (q :: rest) m' ht
    cases hg : AMap.get? m p with
    | none =>
      have := ih []
      simp only [mapNodeKvs] at this
      simp [addAtSegs, insertAt, add_of_noSuffix _ _ hp, child_of_noSuffix _ hp, get?_mapNodeKvs,
        hg, subOf, insert_mapNodeKvs, mapNode, this]
    | some x =>
      cases x with
      | obj kvs =>
        simp [addAtSegs, insertAt, add_of_noSuffix _ _ hp, child_of_noSuffix _ hp, get?_mapNodeKvs,
          hg, subOf, insert_mapNodeKvs, mapNode, ih kvs]
      | sc s =>
        have := ih []
        simp only [mapNodeKvs] at this
        simp [addAtSegs, insertAt, add_of_noSuffix _ _ hp, child_of_noSuffix _ hp, get?_mapNodeKvs,
          hg, subOf, insert_mapNodeKvs, mapNode, this]
      | arr xs =>
        have := ih []
        simp only [mapNodeKvs] at this
        simp [addAtSegs, insertAt, add_of_noSuffix _ _ hp, child_of_noSuffix _ hp, get?_mapNodeKvs,
          hg, subOf, insert_mapNodeKvs, mapNode, this]

mutual
theorem flattenNode_mapNode : ∀ (x : Val) (p : String), flattenNode (mapNode x) p = flattenVal x p
  | .sc v, p => by simp [mapNode, flattenNode, flattenVal]
  | .arr xs, p => by simp [mapNode, flattenNode, flattenVal, flattenList_mapNode xs p 0]
  | .obj kvs, p => by simp [mapNode, flattenNode, flattenVal, flattenKvs_mapNode kvs p]
theorem flattenList_mapNode : ∀ (xs : List Val) (p : String) (i : Nat),
    flattenList (mapNodeList xs) p i = flattenValList xs p i
  | [], _, _ => by simp [mapNodeList, flattenList, flattenValList]
  | x :: xs, p, i => by
    simp [mapNodeList, flattenList, flattenValList, flattenNode_mapNode x, flattenList_mapNode xs]
theorem flattenKvs_mapNode : ∀ (kvs : List (String × Val)) (p : String),
    flattenKvs (mapNodeKvs kvs) p = flattenValKvs kvs p
  | [], _ => by simp [mapNodeKvs, flattenKvs, flattenValKvs]
  | (k, x) :: rest, p => by
    simp [mapNodeKvs, flattenKvs, flattenValKvs, flattenNode_mapNode x, flattenKvs_mapNode rest]
end

/-- every key's segments are plain child names -/
def KeysNoSuffix (l : List (String × Scalar)) : Prop := ∀ p ∈ l, NoSuffix (splitPath p.1)

theorem fromPropertiesList_foldl : ∀ (l : List (String × Scalar)) (m : AMap Val), KeysNoSuffix l →
    l.foldl (fun m p => addValueAt m p.1 (.leaf p.2)) (mapNodeKvs m) = mapNodeKvs (l.foldl stepS m)
  | [], _, _ => rfl
  | e :: l, m, h => by
    simp only [List.foldl_cons]
    have he := h e (List.mem_cons_self ..)
    have : addValueAt (mapNodeKvs m) e.1 (.leaf e.2) = mapNodeKvs (stepS m e) := by
      have := addAtSegs_mapNode (.sc e.2) (splitPath e.1) m he
      simpa [addValueAt, stepS, mapNode] using this
    rw [this]
    exact fromPropertiesList_foldl l _ (fun p hp => h p (List.mem_cons_of_mem _ hp))

/-- FromProperties builds the structural image of what Unflatten builds -/
theorem fromPropertiesList_eq (l : List (String × Scalar)) (h : KeysNoSuffix l) :
    fromPropertiesList l = mapNodeKvs (l.foldl stepS []) := by
  have := fromPropertiesList_foldl l [] h
  simpa [fromPropertiesList, mapNodeKvs] using this

theorem fromProperties_eq_unflatten (kv : AMap Scalar) (h : KeysNoSuffix kv) :
    fromProperties kv = mapNodeKvs (unflatten (toV kv)) := by
  rw [unflatten_toV]; exact fromPropertiesList_eq kv h

theorem flattenMap_fromProperties {kv : AMap Scalar} (hs : AMap.Sorted kv) (hpf : PrefixFree kv)
    (hne : SegsNonempty kv) (hk : KeysNoSuffix kv) : flattenMap (fromProperties kv) = kv := by
  rw [fromProperties_eq_unflatten kv hk]
  have := flattenPlainMap_unflatten hs hpf hne
  simpa [flattenMap, flatten, flattenKvs_mapNode, flattenPlainMap, flattenPlain] using this

theorem foldl_stepS_perm {l : List (String × Scalar)} {kv : AMap Scalar} (hl : l.Perm kv)
    (hs : AMap.Sorted kv) (hpf : PrefixFree kv) : l.foldl stepS [] = kv.foldl stepS [] := by
  have e : ∀ (l : List (String × Scalar)), l.foldl stepS [] = (toV l).foldl stepU [] := by
    intro l; simp only [toV, List.foldl_map]; rfl
  rw [e l, e kv]
  have hu := pairwise_unrel_of_prefixFree hs hpf
  refine foldl_perm_good (hl.map _) ?_ ?_ [] good_nil
  · intro p hp
    simp only [List.mem_map] at hp
    obtain ⟨a, _, rfl⟩ := hp
    exact .sc _
  · intro p hp q hq
    simp only [List.mem_map] at hp hq
    obtain ⟨a, ha, rfl⟩ := hp
    obtain ⟨b, hb, rfl⟩ := hq
    rcases hu a (hl.mem_iff.mp ha) b (hl.mem_iff.mp hb) with h | h
    · left; rw [h]
    · right; exact h

theorem fromPropertiesRel_unique {kv : AMap Scalar} (hs : AMap.Sorted kv) (hpf : PrefixFree kv)
    (hk : KeysNoSuffix kv) (out : AMap Node) (h : FromPropertiesRel kv out) : out = fromProperties kv := by
  obtain ⟨l, hl, rfl⟩ := h
  have hkl : KeysNoSuffix l := fun p hp => hk p (hl.mem_iff.mp hp)
  rw [fromPropertiesList_eq l hkl, fromProperties, fromPropertiesList_eq kv hk, foldl_stepS_perm hl hs hpf]



theorem insert_append_last {α : Type} : ∀ (acc : AMap α) (k : String) (v : α),
    (∀ p ∈ acc, p.1 < k) → AMap.insert acc k v = acc ++ [(k, v)]
  | [], _, _, _ => rfl
  | (k', v') :: acc, k, v, h => by
    have hlt : k' < k := h (k', v') (List.mem_cons_self ..)
    simp only [AMap.insert, if_neg (String.lt_asymm hlt), if_neg (String.ne_of_lt hlt).symm,
      List.cons_append]
    rw [insert_append_last acc k v (fun p hp => h p (List.mem_cons_of_mem _ hp))]

theorem sorted_append_lt {α : Type} : ∀ (acc : AMap α) (k : String) (v : α) (l : AMap α),
    AMap.Sorted (acc ++ (k, v) :: l) → ∀ p ∈ acc, p.1 < k
  | [], _, _, _, _ => fun _ h => by cases h
  | (k', v') :: acc, k, v, l, hs => by
    intro p hp
    simp only [List.mem_cons] at hp
    rcases hp with rfl | hp
    · exact hs.head_lt (k, v) (by simp)
    · exact sorted_append_lt acc k v l hs.tail p hp

/-- copying a sorted map entry by entry into an (order-compatible) map reproduces it -/
theorem foldl_insert_sorted {α : Type} : ∀ (l acc : AMap α), AMap.Sorted (acc ++ l) →
    l.foldl (fun m p => AMap.insert m p.1 p.2) acc = acc ++ l
  | [], acc, _ => by simp
  | (k, v) :: l, acc, hs => by
    simp only [List.foldl_cons]
    rw [insert_append_last acc k v (sorted_append_lt acc k v l hs)]
    have : AMap.Sorted ((acc ++ [(k, v)]) ++ l) := by simpa using hs
    rw [foldl_insert_sorted l _ this]
    simp

theorem ofList_sorted {α : Type} {l : AMap α} (hs : AMap.Sorted l) : AMap.ofList l = l := by
  have := foldl_insert_sorted l [] (by simpa using hs)
  simpa [AMap.ofList] using this

/-- all keys at all levels are plain child names (no trailing index group) -/
inductive KeysPlain : Val → Prop
  | sc (v : Scalar) : KeysPlain (.sc v)
  | obj {kvs : List (String × Val)} : (∀ p ∈ kvs, hasIdxSuffix p.1 = false) →
      (∀ p ∈ kvs, KeysPlain p.2) → KeysPlain (.obj kvs)

theorem keysPlain_nil : KeysPlain (.obj []) := .obj (fun _ h => by cases h) (fun _ h => by cases h)

theorem keysPlain_subOf {m : AMap Val} (h : KeysPlain (.obj m)) (c : String) : KeysPlain (.obj (subOf m c)) := by
  unfold subOf
  split
  · rename_i x hg
    cases h with
    | obj _ hall => exact hall _ (AMap.mem_of_get? hg)
  · exact keysPlain_nil

theorem keysPlain_insert {m : AMap Val} (h : KeysPlain (.obj m)) {k : String} (hk : hasIdxSuffix k = false)
    {x : Val} (hx : KeysPlain x) : KeysPlain (.obj (AMap.insert m k x)) := by
  cases h with
  | obj h1 h2 =>
    refine .obj ?_ ?_
    · intro p hp
      rcases mem_insert hp with rfl | hp
      · exact hk
      · exact h1 p hp
    · intro p hp
      rcases mem_insert hp with rfl | hp
      · exact hx
      · exact h2 p hp

theorem keysPlain_insertAt : ∀ (segs : List String) {m : AMap Val} {v : Val}, NoSuffix segs →
    KeysPlain (.obj m) → KeysPlain v → KeysPlain (.obj (insertAt m segs v))
  | [], _, _, _, hm, _ => by simpa [insertAt] using hm
  | [last], _, _, hs, hm, hv => by
    simpa [insertAt] using keysPlain_insert hm (hs last (List.mem_cons_self ..)) hv
  | c :: c2 :: rest, m, v, hs, hm, hv => by
    simp only [insertAt]
    exact keysPlain_insert hm (hs c (List.mem_cons_self ..))
      (keysPlain_insertAt (c2 :: rest) (fun s h => hs s (List.mem_cons_of_mem _ h)) (keysPlain_subOf hm c) hv)

theorem keysPlain_foldl_stepS : ∀ (l : List (String × Scalar)) (m : AMap Val), KeysNoSuffix l →
    KeysPlain (.obj m) → KeysPlain (.obj (l.foldl stepS m))
  | [], _, _, h => h
  | e :: l, m, hk, h => by
    simp only [List.foldl_cons]
    exact keysPlain_foldl_stepS l _ (fun p hp => hk p (List.mem_cons_of_mem _ hp))
      (keysPlain_insertAt _ (hk e (List.mem_cons_self ..)) h (.sc _))

theorem key_mem_mapNodeKvs : ∀ (m : List (String × Val)) (p : String × Node), p ∈ mapNodeKvs m →
    ∃ q ∈ m, q.1 = p.1
  | [], _, h => by simp [mapNodeKvs] at h
  | (k, x) :: m, p, h => by
    simp only [mapNodeKvs, List.mem_cons] at h
    rcases h with rfl | h
    · exact ⟨(k, x), List.mem_cons_self .., rfl⟩
    · obtain ⟨q, hq, e⟩ := key_mem_mapNodeKvs m p h
      exact ⟨q, List.mem_cons_of_mem _ hq, e⟩

theorem sorted_mapNodeKvs : ∀ {m : List (String × Val)}, AMap.Sorted m → AMap.Sorted (mapNodeKvs m)
  | [], _ => by simpa [mapNodeKvs] using AMap.Sorted.nil
  | (k, x) :: m, hs => by
    simp only [mapNodeKvs]
    refine .cons ?_ (sorted_mapNodeKvs hs.tail)
    intro p hp
    obtain ⟨q, hq, e⟩ := key_mem_mapNodeKvs m p hp
    rw [← e]
    exact hs.head_lt q hq

mutual
/-- FromMap is structural on trees with sorted, plain keys -/
theorem toNode_eq_mapNode : ∀ (x : Val), Good x → KeysPlain x → toNode x = mapNode x
  | .sc v, _, _ => by simp [toNode, mapNode]
  | .arr _, hg, _ => by cases hg
  | .obj kvs, hg, hk => by
    have hs := hg.sorted
    have h1 : ∀ p ∈ kvs, Good p.2 := by cases hg with | obj _ h => exact h
    have h2 : ∀ p ∈ kvs, hasIdxSuffix p.1 = false := by cases hk with | obj h _ => exact h
    have h3 : ∀ p ∈ kvs, KeysPlain p.2 := by cases hk with | obj _ h => exact h
    simp only [toNode, mapNode]
    rw [toNodeKvs_eq kvs [] h1 h2 h3]
    congr 1
    have hs' : AMap.Sorted (mapNodeKvs kvs) := sorted_mapNodeKvs hs
    have := foldl_insert_sorted (mapNodeKvs kvs) [] (by simpa using hs')
    simpa using this
theorem toNodeKvs_eq : ∀ (kvs : List (String × Val)) (acc : AMap Node), (∀ p ∈ kvs, Good p.2) →
    (∀ p ∈ kvs, hasIdxSuffix p.1 = false) → (∀ p ∈ kvs, KeysPlain p.2) →
    toNodeKvs kvs acc = (mapNodeKvs kvs).foldl (fun m p => AMap.insert m p.1 p.2) acc
  | [], _, _, _, _ => by simp [toNodeKvs, mapNodeKvs]
  | (k, x) :: rest, acc, h1, h2, h3 => by
    have hk := h2 (k, x) (List.mem_cons_self ..)
    simp only [toNodeKvs, mapNodeKvs, List.foldl_cons, add_of_noSuffix _ _ hk,
      toNode_eq_mapNode x (h1 (k, x) (List.mem_cons_self ..)) (h3 (k, x) (List.mem_cons_self ..))]
    exact toNodeKvs_eq rest _ (fun p hp => h1 p (List.mem_cons_of_mem _ hp))
      (fun p hp => h2 p (List.mem_cons_of_mem _ hp)) (fun p hp => h3 p (List.mem_cons_of_mem _ hp))
end



/-- contract on the properties loader for one text: it yields the pairs of the flat map `kv`
    (all values strings) -/
def Loads (load : String → List (String × String)) (text : String) (kv : AMap Scalar) : Prop :=
  AMap.ofList ((load text).map fun p => (p.1, strVal p.2)) = toV kv

theorem fromReader_eq_fromProperties (load : String → List (String × String)) (text : String)
    (kv : AMap Scalar) (hl : Loads load text kv) (hk : KeysNoSuffix kv) :
    fromReader load text = fromProperties kv := by
  have hg := good_unflatten kv
  have hp : KeysPlain (.obj (unflatten (toV kv))) := by
    rw [unflatten_toV]; exact keysPlain_foldl_stepS kv [] hk keysPlain_nil
  unfold Loads at hl
  simp only [fromReader, decoderFn, hl]
  rw [foldl_insert_sorted _ [] (by simpa using hg.sorted)]
  simp only [List.nil_append, fromMap]
  have := toNode_eq_mapNode (.obj (unflatten (toV kv))) hg hp
  simp only [toNode, mapNode, Node.cont.injEq] at this
  rw [this, fromProperties_eq_unflatten kv hk]

/-- the reference parser loads what the encoder wrote -/
theorem loads_parseSimple_encoderFn {kv : AMap Scalar} (hs : AMap.Sorted kv)
    (hsafe : ∀ p ∈ kv, LineSafe p) (hstr : ∀ p ∈ kv, p.2.ty = "string") :
    Loads parseSimple (encoderFn kv) kv := by
  unfold Loads
  rw [encoderFn, parseSimple_encodeList kv hsafe, List.map_map]
  have : (kv.map ((fun p : String × String => (p.1, strVal p.2)) ∘ fun p => (p.1, p.2.text))) = toV kv := by
    unfold toV
    apply List.map_congr_left
    intro p hp
    have := hstr p hp
    obtain ⟨k, ⟨ty, tx⟩⟩ := p
    simp only at this
    subst this
    rfl
  rw [this]
  apply ofList_sorted
  -- toV keeps the keys
  unfold toV
  clear this
  induction kv with
  | nil => exact .nil
  | cons p kv ih =>
    obtain ⟨k, v⟩ := p
    simp only [List.map_cons]
    refine .cons ?_ (ih hs.tail (fun p hp => hsafe p (List.mem_cons_of_mem _ hp))
      (fun p hp => hstr p (List.mem_cons_of_mem _ hp)))
    intro q hq
    simp only [List.mem_map] at hq
    obtain ⟨a, ha, rfl⟩ := hq
    exact hs.head_lt a ha



theorem sorted_toV {kv : AMap Scalar} (hs : AMap.Sorted kv) : AMap.Sorted (toV kv) := by
  unfold toV
  induction kv with
  | nil => exact .nil
  | cons p kv ih =>
    obtain ⟨k, v⟩ := p
    simp only [List.map_cons]
    refine .cons ?_ (ih hs.tail)
    intro q hq
    simp only [List.mem_map] at hq
    obtain ⟨a, ha, rfl⟩ := hq
    exact hs.head_lt a ha

/-- the text written in ANY order of the entries loads as the same flat map -/
theorem loads_parseSimple_encodeList {kv : AMap Scalar} {l : List (String × Scalar)} (hl : l.Perm kv)
    (hs : AMap.Sorted kv) (hsafe : ∀ p ∈ kv, LineSafe p) (hstr : ∀ p ∈ kv, p.2.ty = "string") :
    Loads parseSimple (encodeList l) kv := by
  unfold Loads
  rw [parseSimple_encodeList l (fun p hp => hsafe p (hl.mem_iff.mp hp)), List.map_map]
  apply ofList_eq_of_mem_iff (sorted_toV hs)
  intro x
  simp only [toV, List.mem_map, Function.comp]
  constructor
  · rintro ⟨a, ha, rfl⟩
    refine ⟨a, hl.mem_iff.mp ha, ?_⟩
    have := hstr a (hl.mem_iff.mp ha)
    obtain ⟨k, ⟨ty, tx⟩⟩ := a
    simp only at this; subst this; rfl
  · rintro ⟨a, ha, rfl⟩
    refine ⟨a, hl.mem_iff.mpr ha, ?_⟩
    have := hstr a ha
    obtain ⟨k, ⟨ty, tx⟩⟩ := a
    simp only at this; subst this; rfl

/-- decoding does not depend on the order of the lines — for ALL key sets, conflicting or not -/
theorem fromReader_line_order {kv : AMap Scalar} {l : List (String × Scalar)} (hl : l.Perm kv)
    (hs : AMap.Sorted kv) (hsafe : ∀ p ∈ kv, LineSafe p) (hstr : ∀ p ∈ kv, p.2.ty = "string") :
    fromReader parseSimple (encodeList l) = fromReader parseSimple (encoderFn kv) := by
  have h1 := loads_parseSimple_encodeList hl hs hsafe hstr
  have h2 := loads_parseSimple_encoderFn hs hsafe hstr
  unfold Loads at h1 h2
  simp only [fromReader, decoderFn, h1, h2]



/-- a segment over the path-safe alphabet does not end in an index group -/
theorem hasIdxSuffix_of_safe (s : String) (h : ∀ c ∈ s.toList, safeChar c = true) : hasIdxSuffix s = false := by
  simp only [hasIdxSuffix, stripIdx]
  cases hr : s.toList.reverse with
  | nil => simp
  | cons c r =>
    have hc : safeChar c = true := h c (by
      have : c ∈ s.toList.reverse := by rw [hr]; exact List.mem_cons_self ..
      simpa using this)
    have hne : c ≠ ']' := by
      intro e; subst e; revert hc; decide
    split
    · rename_i r' heq
      cases heq
      exact absurd rfl hne
    · simp


end Ytk.Props
