/- Lemmas for C16 (properties: flat keys ↔ trees). -/
import YtkModel.Props
import YtkProofs.AMap

namespace Ytk.Props

theorem splitNl_ne_nil (cs : List Char) : splitNl cs ≠ [] := by
  cases cs with
  | nil => simp [splitNl]
  | cons c cs =>
    simp only [splitNl]
    split
    · simp
    · split <;> simp

theorem splitNl_append {a : List Char} (r : List Char) (h : '\n' ∉ a) :
    splitNl (a ++ '\n' :: r) = a :: splitNl r := by
  induction a with
  | nil =>
    simp only [List.nil_append, splitNl]
    split
    · rename_i he; exact absurd he (splitNl_ne_nil r)
    · rename_i h' t he; simp [he]
  | cons c a ih =>
    have hc : c ≠ '\n' := fun e => h (by simp [e])
    have ha : '\n' ∉ a := fun e => h (by simp [e])
    simp only [List.cons_append, splitNl, ih ha, if_neg hc]

theorem splitAtEq_append {k : List Char} (v : List Char) (h : '=' ∉ k) :
    splitAtEq (k ++ '=' :: v) = some (k, v) := by
  induction k with
  | nil => simp [splitAtEq]
  | cons c k ih =>
    have hc : c ≠ '=' := fun e => h (by simp [e])
    have hk : '=' ∉ k := fun e => h (by simp [e])
    simp [splitAtEq, hc, ih hk]

theorem encodeList_toList (p : String × Scalar) (rest : List (String × Scalar)) :
    (encodeList (p :: rest)).toList =
      p.1.toList ++ '=' :: (p.2.text.toList ++ '\n' :: (encodeList rest).toList) := by
  simp [encodeList, encodeKv, String.toList_append]

def LineSafe (p : String × Scalar) : Prop :=
  '=' ∉ p.1.toList ∧ '\n' ∉ p.1.toList ∧ '\n' ∉ p.2.text.toList

theorem parseSimple_encodeList (l : List (String × Scalar)) (h : ∀ p ∈ l, LineSafe p) :
    parseSimple (encodeList l) = l.map (fun p => (p.1, p.2.text)) := by
  induction l with
  | nil => simp [parseSimple, encodeList, splitNl, parseLine, splitAtEq]
  | cons p rest ih =>
    obtain ⟨h1, h2, h3⟩ := h p (List.mem_cons_self ..)
    have ih' := ih (fun q hq => h q (List.mem_cons_of_mem _ hq))
    simp only [parseSimple] at ih' ⊢
    rw [encodeList_toList]
    have hline : '\n' ∉ p.1.toList ++ '=' :: p.2.text.toList := by
      simp [h2, h3]
    rw [show p.1.toList ++ '=' :: (p.2.text.toList ++ '\n' :: (encodeList rest).toList)
        = (p.1.toList ++ '=' :: p.2.text.toList) ++ '\n' :: (encodeList rest).toList by simp]
    rw [splitNl_append _ hline]
    simp [parseLine, splitAtEq_append _ h1, String.ofList_toList, ih']

end Ytk.Props
