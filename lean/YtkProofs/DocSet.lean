/- Lemmas on the document-set model (analytics/document_set.go). -/
import YtkModel.DocSet
import YtkProofs.AMap
import YtkProofs.Dom

namespace Ytk.DocSet
variable {δ : Type}

/-! ## utils.Unique -/

theorem mem_uniqueAux (x : String) (ret xs : List String) :
    x ∈ uniqueAux ret xs ↔ x ∈ ret ∨ x ∈ xs := by
  induction xs generalizing ret with
  | nil => simp [uniqueAux]
  | cons s rest ih =>
    simp only [uniqueAux]
    split
    · rename_i h
      rw [ih]
      have hs : s ∈ ret := by simpa using h
      constructor
      · rintro (h | h)
        · exact Or.inl h
        · exact Or.inr (List.mem_cons_of_mem _ h)
      · rintro (h | h)
        · exact Or.inl h
        · rcases List.mem_cons.mp h with rfl | h
          · exact Or.inl hs
          · exact Or.inr h
    · rw [ih]
      simp [or_assoc]

theorem mem_unique (x : String) (xs : List String) : x ∈ unique xs ↔ x ∈ xs := by
  simp [unique, mem_uniqueAux]

theorem nodup_uniqueAux (ret xs : List String) (h : ret.Nodup) : (uniqueAux ret xs).Nodup := by
  induction xs generalizing ret with
  | nil => simpa [uniqueAux]
  | cons s rest ih =>
    simp only [uniqueAux]
    split
    · exact ih ret h
    · rename_i hs
      apply ih
      have hs' : s ∉ ret := by simpa using hs
      rw [List.nodup_append]
      refine ⟨h, by simp, ?_⟩
      intro a ha b hb
      simp only [List.mem_singleton] at hb
      subst hb
      exact fun e => hs' (e ▸ ha)

theorem nodup_unique (xs : List String) : (unique xs).Nodup := nodup_uniqueAux [] xs List.nodup_nil

theorem uniqueAux_of_nodup (ret xs : List String) (h : (ret ++ xs).Nodup) : uniqueAux ret xs = ret ++ xs := by
  induction xs generalizing ret with
  | nil => simp [uniqueAux]
  | cons s rest ih =>
    simp only [uniqueAux]
    have hs : s ∉ ret := by
      intro hm
      have := (List.nodup_append.mp h).2.2 s hm s (List.mem_cons_self ..)
      exact this rfl
    have : ret.contains s = false := by simpa using hs
    rw [this]
    simp only [Bool.false_eq_true, if_false]
    rw [ih]
    · simp
    · simpa using h

theorem unique_of_nodup (xs : List String) (h : xs.Nodup) : unique xs = xs := by
  have := uniqueAux_of_nodup [] xs (by simpa using h)
  simpa [unique] using this

/-! ## applyOpts -/

theorem foldl_applyOpt_doc (opts : List Opt) (ctx : Ctx δ) : (opts.foldl applyOpt ctx).doc = ctx.doc := by
  induction opts generalizing ctx with
  | nil => rfl
  | cons o rest ih => cases o <;> simp [List.foldl, applyOpt, ih]

theorem foldl_applyOpt_tags (opts : List Opt) (ctx : Ctx δ) :
    (opts.foldl applyOpt ctx).tags =
      ctx.tags ++ opts.flatMap optTags := by
  induction opts generalizing ctx with
  | nil => simp
  | cons o rest ih => cases o <;> simp [List.foldl, applyOpt, ih, List.flatMap_cons, optTags]

theorem foldl_applyOpt_mergeFn (opts : List Opt) (ctx : Ctx δ) :
    (opts.foldl applyOpt ctx).mergeFn = (match policy opts with | .none => ctx.mergeFn | p => p) := by
  induction opts generalizing ctx with
  | nil => simp [policy]
  | cons o rest ih =>
    simp only [List.foldl, ih, policy]
    cases hp : policy rest <;> cases o <;> simp [applyOpt]

theorem applyOpts_doc (opts : List Opt) : (applyOpts opts : Ctx δ).doc = none := by
  simp [applyOpts, foldl_applyOpt_doc, defaultOpts, applyOpt]

theorem applyOpts_tags (opts : List Opt) : (applyOpts opts : Ctx δ).tags = callTags opts := by
  simp [applyOpts, foldl_applyOpt_tags, defaultOpts, applyOpt, callTags]

theorem applyOpts_mergeFn (opts : List Opt) : (applyOpts opts : Ctx δ).mergeFn = policy opts := by
  rw [applyOpts, foldl_applyOpt_mergeFn]
  cases policy opts <;> simp [defaultOpts, applyOpt]

theorem wildcard_mem_callTags (opts : List Opt) : wildcardTag ∈ callTags opts := by
  simp [callTags]

/-! ## the invariant -/

structure Inv (s : State δ) : Prop where
  nodup : s.names.Nodup
  mem_iff : ∀ n, n ∈ s.names ↔ (AMap.get? s.ctxMap n).isSome
  good : ∀ n c, AMap.get? s.ctxMap n = some c → c.doc.isSome ∧ wildcardTag ∈ c.tags

theorem inv_init : Inv (init : State δ) := by
  refine ⟨List.nodup_nil, ?_, ?_⟩
  · intro n; simp [init]
  · intro n c h; simp [init] at h

theorem get?_insert (m : AMap α) (x y : String) (a : α) :
    AMap.get? (AMap.insert m x a) y = if y = x then some a else AMap.get? m y := by
  split
  · rename_i h; subst h; exact AMap.get?_insert_self m y a
  · rename_i h; exact AMap.get?_insert_ne m a h

/-- storing a good context under a name keeps the invariant (names grows iff the name is new) -/
theorem inv_store {s : State δ} (hs : Inv s) (name : String) (c : Ctx δ)
    (hc : c.doc.isSome ∧ wildcardTag ∈ c.tags) :
    Inv { s with ctxMap := AMap.insert s.ctxMap name c,
                 names := if (AMap.get? s.ctxMap name).isSome then s.names else s.names ++ [name] } := by
  refine ⟨?_, ?_, ?_⟩
  · show (if _ then _ else _ : List String).Nodup
    split
    · exact hs.nodup
    · rename_i h
      have : name ∉ s.names := fun hm => h ((hs.mem_iff name).mp hm)
      rw [List.nodup_append]
      refine ⟨hs.nodup, by simp, ?_⟩
      intro a ha b hb
      simp only [List.mem_singleton] at hb
      subst hb
      exact fun e => this (e ▸ ha)
  · intro n
    show n ∈ (if _ then _ else _ : List String) ↔ (AMap.get? (AMap.insert s.ctxMap name c) n).isSome
    rw [get?_insert]
    by_cases hn : n = name
    · subst hn
      simp only [if_true, Option.isSome_some, iff_true]
      split
      · rename_i h; exact (hs.mem_iff n).mpr h
      · simp
    · simp only [if_neg hn]
      split
      · exact hs.mem_iff n
      · simp [hn, hs.mem_iff n]
  · intro n c' h
    show _ ∧ _
    rw [get?_insert] at h
    split at h
    · cases h; exact hc
    · exact hs.good n c' h

theorem inv_addContext {s : State δ} (hs : Inv s) (name : String) (doc : δ) (opts : List Opt) :
    Inv (addContext s name doc (applyOpts opts)).1 := by
  unfold addContext
  cases hg : AMap.get? s.ctxMap name with
  | none =>
    have := inv_store hs name (⟨some doc, callTags opts, policy opts⟩ : Ctx δ)
      ⟨rfl, wildcard_mem_callTags opts⟩
    simpa [hg, applyOpts_tags, applyOpts_mergeFn] using this
  | some existing =>
    simp only [applyOpts_mergeFn, applyOpts_doc, applyOpts_tags]
    cases hp : policy opts with
    | mustCreate => exact hs
    | none =>
      have := inv_store hs name (⟨some doc, callTags opts, MergeFn.none⟩ : Ctx δ)
        ⟨rfl, wildcard_mem_callTags opts⟩
      simpa [hg] using this
    | mergeTags =>
      have hex := hs.good name existing hg
      have := inv_store hs name (⟨existing.doc, unique (callTags opts ++ existing.tags), MergeFn.mergeTags⟩ : Ctx δ)
        ⟨hex.1, by simp [mem_unique, wildcard_mem_callTags]⟩
      simpa [hg] using this

theorem inv_step {s : State δ} (hs : Inv s) (op : Op δ) : Inv (step s op).1 := by
  cases op with
  | add n d o => exact inv_addContext hs n d o
  | addUnnamed d o =>
    have hs' : Inv ({ s with unnamed := s.unnamed + 1 } : State δ) := ⟨hs.nodup, hs.mem_iff, hs.good⟩
    exact inv_addContext hs' _ d o
  | addFromReader n d o =>
    cases d with
    | none => exact hs
    | some d => exact inv_addContext hs n d o

theorem inv_run_from {s : State δ} (hs : Inv s) (ops : List (Op δ)) : Inv (run s ops) := by
  induction ops generalizing s with
  | nil => exact hs
  | cons op rest ih => exact ih (inv_step hs op)

/-! ## abstraction lemmas -/

def entryOf (m : AMap (Ctx δ)) (n : String) : Option (Entry δ) :=
  match AMap.get? m n with
  | some c => (match c.doc with | some d => some (n, d, c.tags) | none => none)
  | none => none

theorem absEntries_eq (m : AMap (Ctx δ)) (names : List String) :
    absEntries m names = names.filterMap (entryOf m) := rfl

theorem entryOf_fst {m : AMap (Ctx δ)} {n : String} {e : Entry δ} (h : entryOf m n = some e) : e.1 = n := by
  unfold entryOf at h
  split at h
  · split at h
    · cases h; rfl
    · cases h
  · cases h

theorem entryOf_insert_ne (m : AMap (Ctx δ)) {name n : String} (c : Ctx δ) (h : n ≠ name) :
    entryOf (AMap.insert m name c) n = entryOf m n := by
  simp [entryOf, AMap.get?_insert_ne m c h]

theorem entryOf_insert_self (m : AMap (Ctx δ)) (name : String) (c : Ctx δ) (d : δ) (hd : c.doc = some d) :
    entryOf (AMap.insert m name c) name = some (name, d, c.tags) := by
  simp [entryOf, AMap.get?_insert_self, hd]

theorem absEntries_insert_notin (m : AMap (Ctx δ)) (names : List String) (name : String) (c : Ctx δ)
    (h : name ∉ names) : absEntries (AMap.insert m name c) names = absEntries m names := by
  rw [absEntries_eq, absEntries_eq]
  induction names with
  | nil => rfl
  | cons n rest ih =>
    have hn : n ≠ name := fun e => h (e ▸ List.mem_cons_self ..)
    simp only [List.filterMap_cons, entryOf_insert_ne m c hn]
    rw [ih (fun hm => h (List.mem_cons_of_mem _ hm))]

theorem absEntries_insert_mem (m : AMap (Ctx δ)) (names : List String) (name : String) (c : Ctx δ) (d : δ)
    (hd : c.doc = some d) (hold : (entryOf m name).isSome) :
    absEntries (AMap.insert m name c) names = specReplace (absEntries m names) name (name, d, c.tags) := by
  rw [absEntries_eq, absEntries_eq]
  induction names with
  | nil => rfl
  | cons n rest ih =>
    by_cases hn : n = name
    · subst hn
      obtain ⟨e, he⟩ := Option.isSome_iff_exists.mp hold
      have h1 := entryOf_fst he
      simp only [List.filterMap_cons, entryOf_insert_self m n c d hd, he, ih]
      simp [specReplace, h1]
    · simp only [List.filterMap_cons, entryOf_insert_ne m c hn]
      cases he : entryOf m n with
      | none => simpa using ih
      | some e =>
        have h1 := entryOf_fst he
        simp only [ih]
        simp [specReplace, h1, hn]

theorem specFind_absEntries_notin (m : AMap (Ctx δ)) (names : List String) (name : String)
    (h : name ∉ names) : specFind (absEntries m names) name = none := by
  rw [absEntries_eq]
  unfold specFind
  rw [List.find?_eq_none]
  intro e he
  obtain ⟨n, hn, hne⟩ := List.mem_filterMap.mp he
  have := entryOf_fst hne
  simp only [decide_eq_true_eq]
  intro e1
  exact h (e1 ▸ this ▸ hn)

theorem specFind_absEntries_mem (m : AMap (Ctx δ)) (names : List String) (name : String)
    (h : name ∈ names) (e : Entry δ) (he : entryOf m name = some e) :
    specFind (absEntries m names) name = some e := by
  rw [absEntries_eq]
  unfold specFind
  induction names with
  | nil => cases h
  | cons n rest ih =>
    by_cases hn : n = name
    · subst hn
      simp [List.filterMap_cons, he, entryOf_fst he]
    · have hm : name ∈ rest := by
        rcases List.mem_cons.mp h with h | h
        · exact absurd h.symm hn
        · exact h
      simp only [List.filterMap_cons]
      cases hen : entryOf m n with
      | none => simpa using ih hm
      | some e' =>
        have := entryOf_fst hen
        simp only [List.find?_cons]
        have hne : decide (e'.1 = name) = false := by simp [this, hn]
        rw [hne]
        exact ih hm

theorem absEntries_append (m : AMap (Ctx δ)) (xs ys : List String) :
    absEntries m (xs ++ ys) = absEntries m xs ++ absEntries m ys := by
  simp [absEntries_eq, List.filterMap_append]

/-- one AddDocument refines the specification's add -/
theorem addDocument_refines {s : State δ} (hs : Inv s) (name : String) (doc : δ) (opts : List Opt) :
    let r := addDocument s name doc opts
    let q := specAdd (abs s).entries name doc opts
    absEntries r.1.ctxMap r.1.names = q.1 ∧ r.1.unnamed = s.unnamed ∧ r.2 = q.2 := by
  simp only [addDocument, addContext, abs]
  cases hg : AMap.get? s.ctxMap name with
  | none =>
    have hnot : name ∉ s.names := by
      intro hm
      have := (hs.mem_iff name).mp hm
      simp [hg] at this
    simp only [specAdd, specFind_absEntries_notin _ _ _ hnot]
    refine ⟨?_, by simp, by simp⟩
    rw [absEntries_append, absEntries_insert_notin _ _ _ _ hnot]
    simp [absEntries_eq, entryOf, AMap.get?_insert_self, applyOpts_tags]
  | some existing =>
    have hmem : name ∈ s.names := (hs.mem_iff name).mpr (by simp [hg])
    obtain ⟨hdoc, _⟩ := hs.good name existing hg
    obtain ⟨d0, hd0⟩ := Option.isSome_iff_exists.mp hdoc
    have hent : entryOf s.ctxMap name = some (name, d0, existing.tags) := by
      simp [entryOf, hg, hd0]
    simp only [specAdd, specFind_absEntries_mem _ _ _ hmem _ hent, applyOpts_mergeFn, applyOpts_doc,
      applyOpts_tags]
    cases hp : policy opts with
    | mustCreate => exact ⟨rfl, rfl, rfl⟩
    | none =>
      refine ⟨?_, rfl, rfl⟩
      simp only
      rw [absEntries_insert_mem s.ctxMap s.names name ⟨some doc, callTags opts, MergeFn.none⟩ doc rfl (by simp [hent])]
    | mergeTags =>
      refine ⟨?_, rfl, rfl⟩
      simp only
      rw [absEntries_insert_mem s.ctxMap s.names name
        ⟨existing.doc, unique (callTags opts ++ existing.tags), MergeFn.mergeTags⟩ d0 hd0 (by simp [hent])]

/-! ## queries -/

theorem filteredAux_spec (f : String → List String → Bool) (m : AMap (Ctx δ)) (names : List String)
    (hall : ∀ n ∈ names, (entryOf m n).isSome) :
    filteredAux f m names =
      .ok (((absEntries m names).filter (fun e => f e.1 e.2.2)).map (fun e => (e.1, e.2.1))) := by
  rw [absEntries_eq]
  induction names with
  | nil => rfl
  | cons n rest ih =>
    have ih' := ih (fun x hx => hall x (List.mem_cons_of_mem _ hx))
    obtain ⟨e, he⟩ := Option.isSome_iff_exists.mp (hall n (List.mem_cons_self ..))
    have he' := he
    unfold entryOf at he
    cases hg : AMap.get? m n with
    | none => simp [hg] at he
    | some c =>
      cases hd : c.doc with
      | none => simp [hg, hd] at he
      | some d =>
        simp only [hg, hd, Option.some.injEq] at he
        subst he
        simp only [filteredAux, hg, hd, ih', List.filterMap_cons, he']
        by_cases hf : f n c.tags = true
        · simp [hf]
        · simp [hf]

theorem inv_entryOf {s : State δ} (hs : Inv s) : ∀ n ∈ s.names, (entryOf s.ctxMap n).isSome := by
  intro n hn
  have h1 := (hs.mem_iff n).mp hn
  obtain ⟨c, hc⟩ := Option.isSome_iff_exists.mp h1
  obtain ⟨d, hd⟩ := Option.isSome_iff_exists.mp (hs.good n c hc).1
  simp [entryOf, hc, hd]

theorem names_absEntries {s : State δ} (hs : Inv s) : (absEntries s.ctxMap s.names).map (·.1) = s.names := by
  rw [absEntries_eq]
  have hall := inv_entryOf hs
  generalize s.names = names at hall
  induction names with
  | nil => rfl
  | cons n rest ih =>
    obtain ⟨e, he⟩ := Option.isSome_iff_exists.mp (hall n (List.mem_cons_self ..))
    simp only [List.filterMap_cons, he, List.map_cons, entryOf_fst he]
    rw [ih (fun x hx => hall x (List.mem_cons_of_mem _ hx))]

theorem star_mem_absEntries {s : State δ} (hs : Inv s) : ∀ e ∈ absEntries s.ctxMap s.names, wildcardTag ∈ e.2.2 := by
  intro e he
  rw [absEntries_eq] at he
  obtain ⟨n, _, hne⟩ := List.mem_filterMap.mp he
  unfold entryOf at hne
  split at hne
  · rename_i c hc
    split at hne
    · cases hne; exact (hs.good n c hc).2
    · cases hne
  · cases hne

/-! ## generated names -/

theorem toString_nat_inj {a b : Nat} (h : toString a = toString b) : a = b := by
  have ha := @Nat.ofDigitChars_ten_toDigits a
  have hb := @Nat.ofDigitChars_ten_toDigits b
  have : Nat.toDigits 10 a = Nat.toDigits 10 b := by
    rw [← Nat.toList_repr, ← Nat.toList_repr]
    have h' : a.repr = b.repr := by simpa [Nat.toString_eq_repr] using h
    rw [h']
  rw [this] at ha
  omega

theorem unnamedName_inj {a b : Nat} (h : unnamedName a = unnamedName b) : a = b := by
  unfold unnamedName at h
  exact toString_nat_inj ((String.append_right_inj _).mp h)

theorem step_unnamed_ge (s : State δ) (op : Op δ) : s.unnamed ≤ (step s op).1.unnamed := by
  have hac : ∀ (s : State δ) n d (c : Ctx δ), (addContext s n d c).1.unnamed = s.unnamed := by
    intro s n d c
    unfold addContext
    split
    · split <;> rfl
    · rfl
  cases op with
  | add n d o => simp [step, addDocument, hac]
  | addUnnamed d o => simp [step, addUnnamed, addDocument, hac]
  | addFromReader n d o =>
    cases d with
    | none => simp [step, addFromReader]
    | some d => simp [step, addFromReader, addDocument, hac]

theorem step_unnamed_addUnnamed (s : State δ) (d : δ) (o : List Opt) :
    (step s (.addUnnamed d o)).1.unnamed = s.unnamed + 1 := by
  simp only [step, addUnnamed, addDocument, addContext]
  split
  · split <;> rfl
  · rfl

theorem genNames_gt (s : State δ) (ops : List (Op δ)) :
    ∀ x ∈ genNames s ops, ∃ k, s.unnamed < k ∧ x = unnamedName k := by
  induction ops generalizing s with
  | nil => intro x hx; simp [genNames] at hx
  | cons op rest ih =>
    intro x hx
    have hge := step_unnamed_ge s op
    cases op with
    | addUnnamed d o =>
      simp only [genNames, List.mem_cons] at hx
      rcases hx with rfl | hx
      · exact ⟨s.unnamed + 1, Nat.lt_succ_self _, rfl⟩
      · obtain ⟨k, hk, rfl⟩ := ih _ x hx
        rw [step_unnamed_addUnnamed] at hk
        exact ⟨k, by omega, rfl⟩
    | add n d o =>
      simp only [genNames] at hx
      obtain ⟨k, hk, rfl⟩ := ih _ x hx
      exact ⟨k, by omega, rfl⟩
    | addFromReader n d o =>
      simp only [genNames] at hx
      obtain ⟨k, hk, rfl⟩ := ih _ x hx
      exact ⟨k, by omega, rfl⟩

theorem genNames_nodup (s : State δ) (ops : List (Op δ)) : (genNames s ops).Nodup := by
  induction ops generalizing s with
  | nil => simp [genNames]
  | cons op rest ih =>
    cases op with
    | addUnnamed d o =>
      simp only [genNames, List.nodup_cons]
      refine ⟨?_, ih _⟩
      intro hm
      obtain ⟨k, hk, he⟩ := genNames_gt _ rest _ hm
      rw [step_unnamed_addUnnamed] at hk
      have := unnamedName_inj he
      omega
    | add n d o => simpa [genNames] using ih _
    | addFromReader n d o => simpa [genNames] using ih _

/-! ## the overlay layer of a constructible document -/


theorem insert_of_allLt {α : Type} {m : AMap α} {k : String} (a : α) (h : ∀ p ∈ m, p.1 < k) :
    AMap.insert m k a = m ++ [(k, a)] := by
  induction m with
  | nil => rfl
  | cons q rest ih =>
    obtain ⟨k', v'⟩ := q
    have hlt : k' < k := h (k', v') (List.mem_cons_self ..)
    simp only [AMap.insert, if_neg (String.lt_asymm hlt), if_neg (String.ne_of_lt hlt).symm, List.cons_append]
    rw [ih (fun p hp => h p (List.mem_cons_of_mem _ hp))]

theorem foldl_add_sorted (acc kvs : AMap Node) (hs : AMap.Sorted (acc ++ kvs))
    (hk : ∀ p ∈ kvs, hasIdxSuffix p.1 = false) :
    kvs.foldl (fun acc p => add acc p.1 p.2) acc = acc ++ kvs := by
  induction kvs generalizing acc with
  | nil => simp
  | cons q rest ih =>
    obtain ⟨k, v⟩ := q
    simp only [List.foldl_cons]
    rw [add_of_noSuffix _ _ (hk (k, v) (List.mem_cons_self ..))]
    have hlt : ∀ p ∈ acc, p.1 < k := by
      intro p hp
      clear ih hk
      induction acc with
      | nil => cases hp
      | cons a acc iha =>
        obtain ⟨ka, va⟩ := a
        rcases List.mem_cons.mp hp with rfl | hp
        · exact hs.head_lt (k, v) (by simp)
        · exact iha hs.tail hp
    rw [insert_of_allLt _ hlt]
    have : acc ++ [(k, v)] ++ rest = acc ++ (k, v) :: rest := by simp
    rw [ih (acc ++ [(k, v)]) (this ▸ hs) (fun p hp => hk p (List.mem_cons_of_mem _ hp)), this]

/-- overlayDocument.Add into a fresh layer copies a constructible document exactly -/
theorem overlayLayer_id {n : Node} (h : n.Valid) : overlayLayer n = n := by
  cases n with
  | leaf v => rfl
  | list xs => rfl
  | cont kvs =>
    obtain ⟨hwf, hko⟩ := h
    have hs := hwf.sorted
    have hk : ∀ p ∈ kvs, hasIdxSuffix p.1 = false := by
      cases hko with
      | cont h1 _ => exact h1
    simp only [overlayLayer]
    rw [foldl_add_sorted [] kvs (by simpa using hs) hk]
    rfl


end Ytk.DocSet
