/-
  Path-safety of the layers of an overlay: after a history of Put / Add / Populate whose paths
  have path-safe components (key part non-empty, without '.', '[' and ']'; index groups allowed)
  and whose payloads are valid documents with path-safe keys, every key of every layer is
  path-safe.  Together with `YtkProofs/OverlayValid.lean` this puts every reachable layer in the
  domain of `flatten_functional` (one leaf per flattened path), the hypothesis under which Search
  is independent of Go map order (`YtkProofs/OverlayRel.lean`).
-/
import YtkProofs.OverlayValid
import YtkProofs.Rebuild
import YtkProofs.RebuildB
import YtkProofs.ValidB

namespace Ytk

/-- a path component whose key part is path-safe (`a`, `a[0]`, `a[1][2]`, …) -/
def SafeSeg (p : String) : Prop := SafeKey (segBase p)

/-- every dot-separated component is a `SafeSeg` -/
def SafePath (path : String) : Prop := ∀ p ∈ splitPath path, SafeSeg p

theorem parseSeg_safeKey {k : String} (h : SafeKey k) : parseSeg k = (k, []) := by
  have := parseSeg_compStr (c := (k, [])) h
  simpa [compStr, groups, String.ofList_toList] using this

theorem safeSeg_of_safeKey {k : String} (h : SafeKey k) : SafeSeg k := by
  simp only [SafeSeg, segBase, parseSeg_safeKey h]
  exact h

theorem Node.SafeKeys.null : Node.null.SafeKeys := .leaf _

theorem Node.SafeKeys.empty : (Node.cont []).SafeKeys :=
  .cont (fun _ hp => by cases hp) (fun _ hp => by cases hp)

theorem insert_safe {kvs : AMap Node} {k : String} {v : Node} (h : (Node.cont kvs).SafeKeys) (hk : SafeKey k)
    (hv : v.SafeKeys) : (Node.cont (AMap.insert kvs k v)).SafeKeys := by
  refine .cont ?_ ?_
  · intro p hp
    rcases AMap.mem_insert hp with rfl | hp
    · exact hk
    · exact h.key hp
  · intro p hp
    rcases AMap.mem_insert hp with rfl | hp
    · exact hv
    · exact h.val hp

theorem get?_safe {kvs : AMap Node} {k : String} {n : Node} (h : (Node.cont kvs).SafeKeys)
    (hg : AMap.get? kvs k = some n) : n.SafeKeys := h.val (AMap.mem_of_get? hg)

theorem padTo_safe {xs : List Node} {n : Nat} (h : ∀ x ∈ xs, x.SafeKeys) : ∀ x ∈ padTo xs n, x.SafeKeys := by
  intro x hx
  rcases mem_padTo hx with hx | rfl
  · exact h x hx
  · exact Node.SafeKeys.null

theorem set_safe {xs : List Node} {i : Nat} {v : Node} (h : ∀ x ∈ xs, x.SafeKeys) (hv : v.SafeKeys) :
    ∀ x ∈ xs.set i v, x.SafeKeys := by
  intro x hx
  rcases List.mem_or_eq_of_mem_set hx with hx | rfl
  · exact h x hx
  · exact hv

theorem listOf_safe {cur : Option Node} (hc : ∀ n, cur = some n → n.SafeKeys) :
    ∀ x ∈ (match cur with | some (.list xs) => xs | _ => []), x.SafeKeys := by
  intro x hx
  split at hx
  · exact (hc _ rfl).of_list hx
  · cases hx

theorem setSlot_safe : ∀ (is : List Nat) (cur : Option Node) (v : Node), (∀ n, cur = some n → n.SafeKeys) →
    v.SafeKeys → (setSlot cur is v).SafeKeys
  | [], _, v, _, hv => by simpa [setSlot] using hv
  | i :: is, cur, v, hc, hv => by
    simp only [setSlot]
    have hxs := listOf_safe hc
    refine .list (set_safe (padTo_safe hxs) ?_)
    apply setSlot_safe is _ v _ hv
    intro n hn
    exact padTo_safe hxs n (List.mem_of_getElem? hn)

theorem slotGet_safe : ∀ (is : List Nat) (cur : Option Node) (n : Node), (∀ m, cur = some m → m.SafeKeys) →
    slotGet cur is = some n → n.SafeKeys
  | [], cur, n, hc, h => by
    simp only [slotGet] at h
    exact hc n h
  | i :: is, cur, n, hc, h => by
    simp only [slotGet] at h
    have hxs := listOf_safe hc
    exact slotGet_safe is _ n (fun m hm => padTo_safe hxs m (List.mem_of_getElem? hm)) h

theorem add_safe {kvs : AMap Node} (name : String) {v : Node} (h : (Node.cont kvs).SafeKeys)
    (hn : SafeSeg name) (hv : v.SafeKeys) : (Node.cont (add kvs name v)).SafeKeys := by
  unfold add
  cases hp : parseSeg name with
  | mk b is =>
    have hb : SafeKey b := by simpa [SafeSeg, segBase, hp] using hn
    cases is with
    | nil =>
      have := parseSeg_nil_base hp
      subst this
      exact insert_safe h hb hv
    | cons i is =>
      exact insert_safe h hb (setSlot_safe _ _ _ (fun n hn => get?_safe h hn) hv)

theorem withPath_safe {f : AMap Node → AMap Node}
    (hf : ∀ c, (Node.cont c).SafeKeys → (Node.cont (f c)).SafeKeys) :
    ∀ (ps : List String) (kvs r : AMap Node), (∀ p ∈ ps, SafeSeg p) → (Node.cont kvs).SafeKeys →
      withPath f kvs ps = .ok r → (Node.cont r).SafeKeys
  | [], kvs, r, _, h, hr => by
    simp only [withPath, Outcome.ok.injEq] at hr
    subst hr
    exact hf kvs h
  | p :: rest, kvs, r, hps, h, hr => by
    have hpS : SafeSeg p := hps p (List.mem_cons_self ..)
    have hrest : ∀ q ∈ rest, SafeSeg q := fun q hq => hps q (List.mem_cons_of_mem _ hq)
    simp only [withPath] at hr
    cases hp : parseSeg p with
    | mk b is =>
      rw [hp] at hr
      cases is with
      | nil =>
        simp only at hr
        cases hg : AMap.get? kvs p with
        | none =>
          rw [hg] at hr
          obtain ⟨sub, hsub, e⟩ := Outcome.map_eq_ok hr
          subst e
          rw [insert_eq_add_noIdx _ hp]
          exact add_safe p h hpS (withPath_safe hf rest [] sub hrest Node.SafeKeys.empty hsub)
        | some n =>
          rw [hg] at hr
          cases n with
          | cont c =>
            simp only at hr
            obtain ⟨sub, hsub, e⟩ := Outcome.map_eq_ok hr
            subst e
            rw [insert_eq_add_noIdx _ hp]
            exact add_safe p h hpS (withPath_safe hf rest c sub hrest (get?_safe h hg) hsub)
          | leaf s => simp at hr
          | list xs => simp at hr
      | cons i is =>
        simp only at hr
        have hcur : ∀ m, AMap.get? kvs b = some m → m.SafeKeys := fun m hm => get?_safe h hm
        cases hs : slotGet (AMap.get? kvs b) (i :: is) with
        | none => rw [hs] at hr; simp at hr
        | some n =>
          rw [hs] at hr
          have hn := slotGet_safe (i :: is) _ n hcur hs
          cases n with
          | cont c =>
            simp only at hr
            obtain ⟨sub, hsub, e⟩ := Outcome.map_eq_ok hr
            subst e
            rw [insert_eq_add_idx _ hp]
            exact add_safe p h hpS (withPath_safe hf rest c sub hrest hn hsub)
          | leaf s =>
            simp only at hr
            split at hr
            · obtain ⟨sub, hsub, e⟩ := Outcome.map_eq_ok hr
              subst e
              rw [insert_eq_add_idx _ hp]
              exact add_safe p h hpS (withPath_safe hf rest [] sub hrest Node.SafeKeys.empty hsub)
            · cases hr
          | list xs => simp at hr

/-! ## paths -/

theorem splitDot_append_dot_gen : ∀ (a b : List Char), splitDot (a ++ '.' :: b) = splitDot a ++ splitDot b
  | [], b => by
    simp only [List.nil_append, splitDot]
    cases h : splitDot b with
    | nil => exact absurd h (splitDot_ne_nil b)
    | cons x xs => simp
  | c :: cs, b => by
    have ih := splitDot_append_dot_gen cs b
    simp only [List.cons_append, splitDot, ih]
    cases h : splitDot cs with
    | nil => exact absurd h (splitDot_ne_nil cs)
    | cons x xs =>
      simp only [List.cons_append]
      split <;> simp

theorem splitPath_toPath {path : String} (hp : path ≠ "") (k : String) :
    splitPath (toPath path k) = splitPath path ++ splitPath k := by
  simp only [toPath, if_neg hp, splitPath, String.toList_append]
  have : (".".toList : List Char) = ['.'] := rfl
  rw [this, List.append_assoc, List.singleton_append, splitDot_append_dot_gen, List.map_append]

theorem safePath_toPath {path k : String} (hp : path = "" ∨ SafePath path) (hk : SafePath k) :
    SafePath (toPath path k) := by
  by_cases he : path = ""
  · subst he
    simpa [toPath] using hk
  · rcases hp with hp | hp
    · exact absurd hp he
    · intro q hq
      rw [splitPath_toPath he, List.mem_append] at hq
      rcases hq with hq | hq
      · exact hp q hq
      · exact hk q hq

/-- every flattened path of a valid document with path-safe keys is a `SafePath` -/
theorem flatten_paths_safe {kvs : AMap Node} (hv : (Node.cont kvs).Valid) (hs : (Node.cont kvs).SafeKeys)
    {x : String × Scalar} (hx : x ∈ flatten kvs) : SafePath x.1 := by
  rw [flatten_lp] at hx
  simp only [List.mem_map] at hx
  obtain ⟨q, hq, rfl⟩ := hx
  obtain ⟨hsafe, _, hne⟩ := lpKvs_spec kvs kvs hv hs (fun p hp => hp) q hq
  cases hq1 : q.1 with
  | nil => exact absurd hq1 hne
  | cons c cs =>
    rw [hq1] at hsafe
    intro p hp
    rw [splitPath_renderFrom c cs hsafe, List.mem_map] at hp
    obtain ⟨y, hy, rfl⟩ := hp
    simp only [SafeSeg, segBase, parseSeg_compStr (hsafe y hy)]
    exact hsafe y hy

theorem flattenMap_paths_safe {kvs : AMap Node} (hv : (Node.cont kvs).Valid) (hs : (Node.cont kvs).SafeKeys)
    {x : String × Scalar} (hx : x ∈ flattenMap kvs) : SafePath x.1 := by
  unfold flattenMap AMap.ofList at hx
  rcases mem_foldl_insert _ _ x hx with h | h
  · cases h
  · exact flatten_paths_safe hv hs h

namespace Overlay

/-- every key of every layer is path-safe -/
def LayersSafe (s : Overlay) : Prop := ∀ q ∈ s, (Node.cont q.2).SafeKeys

theorem LayersSafe.setLayer {s : Overlay} (h : LayersSafe s) (l : String) {c : AMap Node}
    (hc : (Node.cont c).SafeKeys) : LayersSafe (setLayer s l c) := by
  intro q hq
  rcases mem_setLayer hq with e | hq
  · rw [e]; exact hc
  · exact h q hq

theorem LayersSafe.layerOrEmpty {s : Overlay} (h : LayersSafe s) (l : String) :
    (Node.cont (layerOrEmpty s l)).SafeKeys := by
  unfold Overlay.layerOrEmpty layer
  cases hg : AMap.get? s l with
  | none => exact Node.SafeKeys.empty
  | some c => exact h (l, c) (AMap.mem_of_get? hg)

theorem addAll_safe : ∀ (kvs : List (String × Node)) (c : AMap Node), (Node.cont c).SafeKeys →
    (∀ p ∈ kvs, SafeKey p.1 ∧ p.2.SafeKeys) → (Node.cont (addAll c kvs)).SafeKeys
  | [], c, h, _ => by simpa [addAll] using h
  | (k, v) :: rest, c, h, hv => by
    simp only [addAll, List.foldl_cons]
    have hkv := hv (k, v) (List.mem_cons_self ..)
    exact addAll_safe rest _ (add_safe k h (safeSeg_of_safeKey hkv.1) hkv.2)
      (fun p hp => hv p (List.mem_cons_of_mem _ hp))

theorem putNode_safe {s s' : Overlay} {l path : String} {v : Node} (hs : LayersSafe s) (hp : SafePath path)
    (hv : v.SafeKeys) (h : putNode s l path v = .ok s') : LayersSafe s' := by
  unfold putNode at h
  obtain ⟨c, hc, e⟩ := Outcome.map_eq_ok h
  subst e
  have hlast : SafeSeg ((splitPath path).getLastD "") := by
    apply hp
    cases hsp : splitPath path with
    | nil => exact absurd hsp (splitPath_ne_nil path)
    | cons a as =>
      rw [List.getLastD_eq_getLast?, List.getLast?_eq_some_getLast (List.cons_ne_nil a as)]
      exact List.getLast_mem _
  refine hs.setLayer l (withPath_safe (fun c hc => add_safe _ hc hlast hv) _ _ c ?_ (hs.layerOrEmpty l) hc)
  intro q hq
  exact hp q (List.dropLast_subset _ hq)

theorem putLeaves_safe {l path : String} : ∀ (leaves : List (String × Scalar)) {s s' : Overlay},
    LayersSafe s → (∀ x ∈ leaves, SafePath (toPath path x.1)) → putLeaves s l path leaves = .ok s' → LayersSafe s'
  | [], s, s', hs, _, h => by
    simp only [putLeaves, Outcome.ok.injEq] at h
    subst h; exact hs
  | (k, sc) :: rest, s, s', hs, hp, h => by
    simp only [putLeaves] at h
    cases h1 : putNode s l (toPath path k) (.leaf sc) with
    | ok s₁ =>
      rw [h1] at h
      exact putLeaves_safe rest (putNode_safe hs (hp (k, sc) (List.mem_cons_self ..)) (.leaf sc) h1)
        (fun x hx => hp x (List.mem_cons_of_mem _ hx)) h
    | err => rw [h1] at h; cases h
    | panic => rw [h1] at h; cases h

/-- the step stays inside the path-safe domain of the property: the path's components have
    path-safe key parts (the empty path is allowed where the code treats it as "the layer
    root": Populate, and Put of a container, whose leaf paths are then the flattened paths
    themselves) and all keys of the payload are path-safe -/
def Op.Safe : Op → Prop
  | .put _ path (.cont kvs) => (path = "" ∨ SafePath path) ∧ (Node.cont kvs).SafeKeys
  | .put _ path v => SafePath path ∧ v.SafeKeys
  | .add _ c => (Node.cont c).SafeKeys
  | .populate _ path d => (path = "" ∨ SafePath path) ∧ (Node.cont d).SafeKeys

theorem step_safe {s s' : Overlay} {op : Op} (hs : LayersSafe s) (hv : op.PayloadValid) (ho : op.Safe)
    (h : step s op = .ok s') : LayersSafe s' := by
  cases op with
  | put l path v =>
    cases v with
    | cont kvs =>
      have h' : putLeaves s l path (flattenMap kvs) = .ok s' := by simpa [step, put] using h
      obtain ⟨hp, hk⟩ : (path = "" ∨ SafePath path) ∧ (Node.cont kvs).SafeKeys := ho
      have hval : (Node.cont kvs).Valid := hv
      exact putLeaves_safe _ hs (fun x hx => safePath_toPath hp (flattenMap_paths_safe hval hk hx)) h'
    | leaf sc =>
      have h' : putNode s l path (.leaf sc) = .ok s' := by simpa [step, put] using h
      obtain ⟨hp, hk⟩ : SafePath path ∧ (Node.leaf sc).SafeKeys := ho
      exact putNode_safe hs hp hk h'
    | list xs =>
      have h' : putNode s l path (.list xs) = .ok s' := by simpa [step, put] using h
      obtain ⟨hp, hk⟩ : SafePath path ∧ (Node.list xs).SafeKeys := ho
      exact putNode_safe hs hp hk h'
  | add l c =>
    simp only [step, Outcome.ok.injEq] at h
    subst h
    have hc : (Node.cont c).SafeKeys := ho
    exact hs.setLayer l (addAll_safe c _ (hs.layerOrEmpty l) (fun p hp => ⟨hc.key hp, hc.val hp⟩))
  | populate l path d =>
    obtain ⟨hp, hd⟩ : (path = "" ∨ SafePath path) ∧ (Node.cont d).SafeKeys := ho
    have hall : ∀ p ∈ d, SafeKey p.1 ∧ p.2.SafeKeys := fun p hp => ⟨hd.key hp, hd.val hp⟩
    simp only [step, populate] at h
    split at h
    · simp only [Outcome.ok.injEq] at h
      subst h
      exact hs.setLayer l (addAll_safe d _ (hs.layerOrEmpty l) hall)
    · rename_i hne
      have hp' : SafePath path := by
        rcases hp with hp | hp
        · exact absurd hp hne
        · exact hp
      obtain ⟨c, hc, e⟩ := Outcome.map_eq_ok h
      subst e
      exact hs.setLayer l
        (withPath_safe (fun c hc => addAll_safe d c hc hall) _ _ c hp' (hs.layerOrEmpty l) hc)

theorem run_safe : ∀ (ops : List Op) {s s' : Overlay}, LayersSafe s → (∀ op ∈ ops, op.PayloadValid) →
    (∀ op ∈ ops, op.Safe) → run s ops = .ok s' → LayersSafe s'
  | [], s, s', hs, _, _, h => by
    simp only [run, Outcome.ok.injEq] at h
    subst h; exact hs
  | op :: ops, s, s', hs, hv, ho, h => by
    simp only [run] at h
    cases h1 : step s op with
    | ok s₁ =>
      rw [h1] at h
      exact run_safe ops (step_safe hs (hv op (List.mem_cons_self ..)) (ho op (List.mem_cons_self ..)) h1)
        (fun o hm => hv o (List.mem_cons_of_mem _ hm)) (fun o hm => ho o (List.mem_cons_of_mem _ hm)) h
    | err => rw [h1] at h; cases h
    | panic => rw [h1] at h; cases h

/-! ## Boolean checker for the domain predicates (for concrete histories) -/

def safePathB (path : String) : Bool := (splitPath path).all fun p => safeKeyB (segBase p)

theorem safePathB_sound {path : String} (h : safePathB path = true) : SafePath path := by
  intro p hp
  simp only [safePathB, List.all_eq_true] at h
  exact safeKeyB_sound (h p hp)

/-- payload valid and path-safe, path inside the path-safe domain -/
def Op.okB : Op → Bool
  | .put _ path (.cont kvs) => (path == "" || safePathB path) && (Node.cont kvs).validB && (Node.cont kvs).safeB
  | .put _ path (.leaf v) => safePathB path
  | .put _ path (.list xs) => safePathB path && (Node.list xs).validB && (Node.list xs).safeB
  | .add _ c => (Node.cont c).validB && (Node.cont c).safeB
  | .populate _ path d => (path == "" || safePathB path) && (Node.cont d).validB && (Node.cont d).safeB

theorem pathB_sound {path : String} (h : (path == "" || safePathB path) = true) : path = "" ∨ SafePath path := by
  simp only [Bool.or_eq_true, beq_iff_eq] at h
  rcases h with h | h
  · exact Or.inl h
  · exact Or.inr (safePathB_sound h)

theorem Op.okB_sound {op : Op} (h : op.okB = true) : op.PayloadValid ∧ op.Safe := by
  cases op with
  | put l path v =>
    cases v with
    | cont kvs =>
      simp only [Op.okB, Bool.and_eq_true] at h
      exact ⟨Node.validB_sound _ h.1.2, pathB_sound h.1.1, Node.safeB_sound _ h.2⟩
    | leaf sc =>
      simp only [Op.okB] at h
      exact ⟨Node.Valid.leaf sc, safePathB_sound h, .leaf sc⟩
    | list xs =>
      simp only [Op.okB, Bool.and_eq_true] at h
      exact ⟨Node.validB_sound _ h.1.2, safePathB_sound h.1.1, Node.safeB_sound _ h.2⟩
  | add l c =>
    simp only [Op.okB, Bool.and_eq_true] at h
    exact ⟨Node.validB_sound _ h.1, Node.safeB_sound _ h.2⟩
  | populate l path d =>
    simp only [Op.okB, Bool.and_eq_true] at h
    exact ⟨Node.validB_sound _ h.1.2, pathB_sound h.1.1, Node.safeB_sound _ h.2⟩

end Overlay
end Ytk
