/-
  C13 frame theorems at full strength: SetOp / TemplateOp / ImportOp with a non-empty target path
  change the document only through one `addValueAt` at the target, so the lens laws of
  YtkProofs/LensIdx.lean (paths with list-item components, padding) apply.
-/
import YtkProofs.PipelineData
import YtkProofs.LensIdx

namespace Ytk.PD

/-- "unchanged, or a freshly padded slot: absent before, `null` now" -/
def FrameAt (data d' : AMap Node) (q : String) : Prop :=
  lookup d' q = lookup data q ∨ (lookup data q = none ∧ lookup d' q = some Node.null)

theorem FrameAt.refl (data : AMap Node) (q : String) : FrameAt data data q := Or.inl rfl

/-- what was there stays there -/
theorem FrameAt.of_some {data d' : AMap Node} {q : String} (h : FrameAt data d' q) {n : Node}
    (hn : lookup data q = some n) : lookup d' q = some n := by
  rcases h with h | ⟨h, _⟩
  · rw [h, hn]
  · rw [hn] at h; cases h

/-- a successful SetOp with a non-empty path is one AddValueAt at that path -/
theorem setOp_ok_addValueAt (mergeC : AMap Node → AMap Node → AMap Node) (data payload : AMap Node)
    (path : String) (s : Option String) (hp : path ≠ "") (d' : AMap Node)
    (hd : setOp mergeC data (some payload) path s = .ok d') : ∃ v, d' = addValueAt data path v := by
  simp only [setOp] at hd
  split at hd
  · cases hd
    simp only [setMerge, if_pos hp]
    split <;> exact ⟨_, rfl⟩
  · split at hd
    · cases hd
      simp only [setReplace, if_pos hp]
      exact ⟨_, rfl⟩
    · cases hd

/-- TemplateOp leaves the document alone or performs one AddValueAt at the (rendered) path -/
theorem templateOp_fst (render : String → Option String) (lenient trimFn : String → String)
    (yp : String → Option (Option YNode)) (t : TemplateSpec) (data : AMap Node) :
    (templateOp render lenient trimFn yp t data).1 = data ∨
      ∃ v, (templateOp render lenient trimFn yp t data).1 = addValueAt data (lenient t.path) v := by
  simp only [templateOp]
  split
  · exact Or.inl rfl
  · split
    · exact Or.inl rfl
    · split
      · split
        · exact Or.inl rfl
        · exact Or.inr ⟨_, rfl⟩
      · split
        · exact Or.inr ⟨_, rfl⟩
        · exact Or.inl rfl

/-- ImportOp with a non-empty (rendered) path leaves the document alone or performs one AddValueAt -/
theorem importOp_fst (cd : Codecs) (lenient : String → String) (content : Option (List Nat))
    (mode path : String) (data : AMap Node) (hp : lenient path ≠ "") :
    (importOp cd lenient content mode path data).1 = data ∨
      ∃ v, (importOp cd lenient content mode path data).1 = addValueAt data (lenient path) v := by
  simp only [importOp]
  split
  · exact Or.inl rfl
  · split
    · exact Or.inl rfl
    · simp only [if_pos hp]
      exact Or.inr ⟨_, rfl⟩

theorem frameAt_addValueAt_steps (data : AMap Node) (path q : String) (v : Node)
    (hf : Fits data (splitPath path))
    (h1 : ¬ pathSteps (splitPath path) <+: pathSteps (splitPath q))
    (h2 : ¬ pathSteps (splitPath q) <+: pathSteps (splitPath path)) :
    FrameAt data (addValueAt data path v) q :=
  lookup_addValueAt_frame_steps data path q v hf h1 h2

theorem frameAt_addValueAt_diverge (data : AMap Node) (path q : String) (v : Node)
    (h : DivergeIdx (splitPath path) (splitPath q)) : FrameAt data (addValueAt data path v) q :=
  lookup_addValueAt_frame_idx data path q v h

end Ytk.PD
