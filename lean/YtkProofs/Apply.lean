/- Lemmas on the Apply model (C08): no-op deletes, single Add/Change then Lookup. -/
import YtkModel.Diff
import YtkProofs.DiffDom
import YtkProofs.Equal

namespace Ytk

/-! ## path components on which the two parsers of the code agree -/

/-- `Child`/`AddValue` strip index groups from the right (`\[\d+]$`), `ParseListPathComponent`
    scans from the left.  A component is well-behaved when both see the same base name and
    the same indices and the base name carries no further index group. -/
def compOk (c : String) : Bool :=
  !hasIdxSuffix (parseSeg c).1 &&
  (parseListComp c == if (parseSeg c).2.isEmpty then none else some (parseSeg c))

/-- a flatten-style path: non-empty, every dot-separated component well-behaved.  Every path
    rendered by Flatten over path-safe keys is of this kind. -/
def safeFlattenPath (p : String) : Bool := p != "" && (splitPath p).all compOk

theorem compOk_list {c n : String} {idxes : List Nat} (h : compOk c = true)
    (hp : parseListComp c = some (n, idxes)) :
    parseSeg c = (n, idxes) ∧ idxes ≠ [] ∧ hasIdxSuffix n = false := by
  simp only [compOk, Bool.and_eq_true, Bool.not_eq_true', beq_iff_eq] at h
  obtain ⟨h1, h2⟩ := h
  rw [hp] at h2
  split at h2
  · cases h2
  · rename_i hne
    have e : parseSeg c = (n, idxes) := by
      have := Option.some.inj h2
      exact this.symm
    refine ⟨e, ?_, ?_⟩
    · intro hnil; rw [e] at hne; simp [hnil] at hne
    · rw [e] at h1; exact h1

theorem compOk_plain {c : String} (h : compOk c = true) (hp : parseListComp c = none) :
    parseSeg c = (c, []) := by
  simp only [compOk, Bool.and_eq_true, Bool.not_eq_true', beq_iff_eq] at h
  obtain ⟨_, h2⟩ := h
  rw [hp] at h2
  split at h2
  · rename_i he
    -- no index group was stripped, so the base name is the component itself
    have hs : stripIdx c.toList = none := by
      cases hst : stripIdx c.toList with
      | none => rfl
      | some pi =>
        exfalso
        obtain ⟨p', i⟩ := pi
        -- one successful strip makes the index list non-empty
        have : ∀ (fuel : Nat) (s : List Char) (acc : List Nat), acc ≠ [] → (parseSegAux fuel s acc).2 ≠ [] := by
          intro fuel
          induction fuel with
          | zero => intro s acc h; simpa [parseSegAux] using h
          | succ f ih =>
            intro s acc h
            simp only [parseSegAux]
            split
            · exact ih _ _ (by simp)
            · exact h
        have hne : (parseSeg c).2 ≠ [] := by
          have hlen : c.length = c.toList.length := by rw [String.length_toList]
          simp only [parseSeg]
          cases hl : c.length with
          | zero =>
            have : c.toList = [] := by
              have : c.toList.length = 0 := by rw [← hlen, hl]
              exact List.length_eq_zero_iff.mp this
            rw [this] at hst
            simp [stripIdx] at hst
          | succ f =>
            simp only [parseSegAux, hst]
            exact this f p' [i] (by simp)
        simp only [List.isEmpty_iff] at he
        exact hne he
    simp [parseSeg, parseSegAux_none hs, String.ofList_toList]
  · cases h2

/-! ## Delete of an absent path -/

theorem applyDelSegs_absent : ∀ (segs : List String) (kvs : AMap Node), (Node.cont kvs).Valid →
    lookupSegs kvs segs = none → applyDelSegs kvs segs = kvs
  | [], _, _, _ => rfl
  | [last], kvs, hv, h => by
    simp only [lookupSegs] at h
    simp only [applyDelSegs, remove]
    exact AMap.erase_of_get?_none (get?_none_of_child_none hv h)
  | c :: c2 :: rest, kvs, hv, h => by
    simp only [lookupSegs] at h
    simp only [applyDelSegs]
    cases hc : child kvs c with
    | none => rfl
    | some x =>
      cases x with
      | leaf _ => rfl
      | list _ => rfl
      | cont sub =>
        rw [hc] at h
        simp only at h ⊢
        rw [applyDelSegs_absent (c2 :: rest) sub (child_valid hv hc) h]
        exact add_child_self hv.sorted hc

/-! ## a single Add / Change, then Lookup -/

theorem walkIdx_applyListWith (f : AMap Node → AMap Node) : ∀ (idxes : List Nat) (xs : List Node),
    idxes ≠ [] → ∃ sub0, walkIdx (some (.list (applyListWith f xs idxes))) idxes = some (.cont (f sub0))
  | [], _, h => absurd rfl h
  | [i], xs, _ => by
    have key : ∀ (L : List Node) (w : Node), i < L.length → (L.set i w)[i]? = some w :=
      fun L w h => List.getElem?_set_self h
    simp only [applyListWith]
    cases hx : xs[i]? with
    | none =>
      refine ⟨[], ?_⟩
      simp only [walkIdx, listSet]
      rw [key _ _ (by rw [length_padTo]; omega)]
    | some y =>
      have hi : i < xs.length := by
        rcases Nat.lt_or_ge i xs.length with hlt | hge
        · exact hlt
        · rw [List.getElem?_eq_none hge] at hx; cases hx
      cases y with
      | cont c => exact ⟨c, by simp only [walkIdx]; rw [key _ _ hi]⟩
      | leaf _ => exact ⟨[], by simp only [walkIdx, listSet]; rw [key _ _ (by rw [length_padTo]; omega)]⟩
      | list _ => exact ⟨[], by simp only [walkIdx, listSet]; rw [key _ _ (by rw [length_padTo]; omega)]⟩
  | i :: j :: is, xs, _ => by
    have key : ∀ (L : List Node) (w : Node), i < L.length → (L.set i w)[i]? = some w :=
      fun L w h => List.getElem?_set_self h
    simp only [applyListWith]
    cases hx : xs[i]? with
    | none =>
      obtain ⟨s, hs⟩ := walkIdx_applyListWith f (j :: is) [] (by simp)
      refine ⟨s, ?_⟩
      simp only [listSet]
      rw [walkIdx, key _ _ (by rw [length_padTo]; omega)]
      exact hs
    | some y =>
      have hi : i < xs.length := by
        rcases Nat.lt_or_ge i xs.length with hlt | hge
        · exact hlt
        · rw [List.getElem?_eq_none hge] at hx; cases hx
      cases y with
      | list ys =>
        obtain ⟨s, hs⟩ := walkIdx_applyListWith f (j :: is) ys (by simp)
        refine ⟨s, ?_⟩
        simp only
        rw [walkIdx, key _ _ hi]
        exact hs
      | leaf _ =>
        obtain ⟨s, hs⟩ := walkIdx_applyListWith f (j :: is) [] (by simp)
        refine ⟨s, ?_⟩
        simp only [listSet]
        rw [walkIdx, key _ _ (by rw [length_padTo]; omega)]
        exact hs
      | cont _ =>
        obtain ⟨s, hs⟩ := walkIdx_applyListWith f (j :: is) [] (by simp)
        refine ⟨s, ?_⟩
        simp only [listSet]
        rw [walkIdx, key _ _ (by rw [length_padTo]; omega)]
        exact hs

theorem lookupSegs_cons_of_child {kvs sub : AMap Node} {c c2 : String} {rest : List String}
    (h : child kvs c = some (.cont sub)) : lookupSegs kvs (c :: c2 :: rest) = lookupSegs sub (c2 :: rest) := by
  simp [lookupSegs, h]

theorem lookupSegs_add_list {kvs : AMap Node} {n c c2 : String} {rest : List String} {idxes : List Nat}
    (F : AMap Node → AMap Node) (X : List Node) {r : Option Node}
    (hseg : parseSeg c = (n, idxes)) (hne : idxes ≠ []) (hns : hasIdxSuffix n = false)
    (ih : ∀ s, lookupSegs (F s) (c2 :: rest) = r) :
    lookupSegs (add kvs n (.list (applyListWith F X idxes))) (c :: c2 :: rest) = r := by
  obtain ⟨s, hs⟩ := walkIdx_applyListWith F idxes X hne
  have hchild : child (add kvs n (.list (applyListWith F X idxes))) c = some (.cont (F s)) := by
    rw [child_eq_of_parse _ hseg, if_neg hne, add_of_noSuffix _ _ hns, AMap.get?_insert_self]
    exact hs
  rw [lookupSegs_cons_of_child hchild]
  exact ih s

theorem lookupSegs_add_cont {kvs S : AMap Node} {c c2 : String} {rest : List String}
    (hseg : parseSeg c = (c, [])) :
    lookupSegs (add kvs c (.cont S)) (c :: c2 :: rest) = lookupSegs S (c2 :: rest) := by
  apply lookupSegs_cons_of_child
  rw [child_eq_of_parse _ hseg, if_pos rfl, add_eq_of_parse _ _ hseg, if_pos rfl, AMap.get?_insert_self]

theorem lookupSegs_applyAddSegs : ∀ (segs : List String) (kvs : AMap Node) (v : Scalar),
    segs ≠ [] → (∀ c ∈ segs, compOk c = true) →
    lookupSegs (applyAddSegs kvs segs v) segs = some (.leaf v)
  | [], _, _, h, _ => absurd rfl h
  | [last], kvs, v, _, _ => by
    simp only [applyAddSegs, lookupSegs]
    exact child_add_self kvs last (.leaf v)
  | c :: c2 :: rest, kvs, v, _, hok => by
    have hc := hok c (List.mem_cons_self ..)
    have ih := fun sub => lookupSegs_applyAddSegs (c2 :: rest) sub v (by simp)
      (fun x hx => hok x (List.mem_cons_of_mem _ hx))
    simp only [applyAddSegs]
    cases hp : parseListComp c with
    | some ni =>
      obtain ⟨n, idxes⟩ := ni
      obtain ⟨hseg, hne, hns⟩ := compOk_list hc hp
      exact lookupSegs_add_list _ _ hseg hne hns ih
    | none =>
      have hseg := compOk_plain hc hp
      simp only
      rw [lookupSegs_add_cont hseg]
      exact ih _

end Ytk
