/-
  YtkProofs.ResolverDiverge — the general termination statement is FALSE: a two-entry table
  with an unbalanced value on which the resolver model (and the Go code: fatal stack overflow)
  recurses for ever.

      o = "${"                     (unterminated: stays verbatim)
      a = "${o}a}}${:${a}w"        (resolves to  P = "${a}}${:${a}w")
      input  "${:${a}${a}}"

  The placeholder text  raw n = ":${a}" ++ "w"^n ++ "${a}"  (empty, unknown key) resolves to
  ":" ++ P ++ "w"^n ++ P ; its default part  P w^n P = "${a}}" ++ "${" ++ raw (n+1) ++ "}" ++ "${:${a}w"
  is scanned again and contains the NEW terminated placeholder raw (n+1): the prefix comes out of
  the first copy of P, the closing suffix out of the second.  All texts raw 0, raw 1, … differ, so
  the stack test never fires.
-/
import YtkProofs.ResolverSem

namespace Ytk.Resolver

/-! ## inversion at a fixed fuel -/

section

variable {norm : Toks → Toks} {tbl : Table}

/-- "fuel `f` suffices" -/
def Ends (norm : Toks → Toks) (tbl : Table) (f : Nat) (s : Toks) (seen : List Toks) : Prop :=
  resolve norm f tbl s seen ≠ .outOfFuel

theorem Ends.mono {f g : Nat} {s : Toks} {seen : List Toks} (hfg : f ≤ g) (h : Ends norm tbl f s seen) :
    Ends norm tbl g s seen := by
  unfold Ends at *
  rw [resolve_fuel_mono norm tbl hfg s seen h]; exact h

theorem Ends.resolves {f : Nat} {s : Toks} {seen : List Toks} (h : Ends norm tbl f s seen) :
    Resolves norm tbl s seen (resolve norm f tbl s seen) := ⟨f, rfl, h⟩

theorem not_ends_zero {s : Toks} {seen : List Toks} : ¬ Ends norm tbl 0 s seen := by
  simp [Ends]

/-- the value of the first placeholder is expanded with one unit of fuel less -/
theorem Ends.value {f : Nat} {s before ph after ph' pv : Toks} {seen : List Toks}
    (h : Ends norm tbl (f + 1) s seen) (hf : firstPh s = some (before, ph, after)) (hc : ph ∉ seen)
    (h₁ : Resolves norm tbl ph (seen ++ [ph]) (.ok ph'))
    (hp : resolvePlaceholder tbl (norm ph') = some pv) : Ends norm tbl f pv (seen ++ [ph]) := by
  unfold Ends at *
  rw [resolve_succ_some f hf hc] at h
  unfold body at h
  cases e1 : resolve norm f tbl ph (seen ++ [ph]) with
  | outOfFuel => simp [e1] at h
  | cycle o => cases h₁.unique ⟨f, e1, by simp⟩
  | ok ph₂ =>
    cases h₁.unique ⟨f, e1, by simp⟩
    simp only [e1, hp] at h
    intro e2
    simp [e2] at h

/-- the rest behind a completely expanded first placeholder is scanned with one unit less -/
theorem Ends.rest {f : Nat} {s before ph after ph' pv pv' : Toks} {seen : List Toks}
    (h : Ends norm tbl (f + 1) s seen) (hf : firstPh s = some (before, ph, after)) (hc : ph ∉ seen)
    (h₁ : Resolves norm tbl ph (seen ++ [ph]) (.ok ph'))
    (hp : resolvePlaceholder tbl (norm ph') = some pv)
    (h₂ : Resolves norm tbl pv (seen ++ [ph]) (.ok pv')) : Ends norm tbl f after seen := by
  have hv := h.value hf hc h₁ hp
  unfold Ends at *
  rw [resolve_succ_some f hf hc] at h
  unfold body at h
  cases e1 : resolve norm f tbl ph (seen ++ [ph]) with
  | outOfFuel => simp [e1] at h
  | cycle o => cases h₁.unique ⟨f, e1, by simp⟩
  | ok ph₂ =>
    cases h₁.unique ⟨f, e1, by simp⟩
    simp only [e1, hp] at h
    cases e2 : resolve norm f tbl pv (seen ++ [ph]) with
    | outOfFuel => exact absurd e2 hv
    | cycle o => cases h₂.unique ⟨f, e2, by simp⟩
    | ok pv₂ =>
      simp only [e2] at h
      exact prepend_ne_outOfFuel.mp h

/-- the text of the first placeholder is resolved with one unit of fuel less -/
theorem Ends.key {f : Nat} {s before ph after : Toks} {seen : List Toks}
    (h : Ends norm tbl (f + 1) s seen) (hf : firstPh s = some (before, ph, after)) (hc : ph ∉ seen) :
    Ends norm tbl f ph (seen ++ [ph]) := by
  unfold Ends at *
  rw [resolve_succ_some f hf hc] at h
  unfold body at h
  intro e1
  simp [e1] at h

/-- the rest behind an unresolvable first placeholder is scanned with one unit less -/
theorem Ends.rest_verbatim {f : Nat} {s before ph after ph' : Toks} {seen : List Toks}
    (h : Ends norm tbl (f + 1) s seen) (hf : firstPh s = some (before, ph, after)) (hc : ph ∉ seen)
    (h₁ : Resolves norm tbl ph (seen ++ [ph]) (.ok ph'))
    (hp : resolvePlaceholder tbl (norm ph') = none) : Ends norm tbl f after seen := by
  have hk := h.key hf hc
  unfold Ends at *
  rw [resolve_succ_some f hf hc] at h
  unfold body at h
  cases e1 : resolve norm f tbl ph (seen ++ [ph]) with
  | outOfFuel => exact absurd e1 hk
  | cycle o => cases h₁.unique ⟨f, e1, by simp⟩
  | ok ph₂ =>
    cases h₁.unique ⟨f, e1, by simp⟩
    simp only [e1, hp] at h
    exact prepend_ne_outOfFuel.mp h

/-- plain text in front does not matter -/
theorem Ends.text {f : Nat} {t s : Toks} {seen : List Toks} (h : Ends norm tbl f (t ++ s) seen)
    (ht : Tok.pre ∉ t) : Ends norm tbl f s seen := by
  cases f with
  | zero => exact absurd h not_ends_zero
  | succ f =>
    unfold Ends at *
    rw [resolve_text_prepend norm f tbl s seen ht] at h
    exact prepend_ne_outOfFuel.mp h

theorem Resolves.text {t s : Toks} {seen : List Toks} {r : Res} (ht : Tok.pre ∉ t)
    (h : Resolves norm tbl s seen r) : Resolves norm tbl (t ++ s) seen (r.prepend t) := by
  obtain ⟨n, hn⟩ := h.fuel
  refine ⟨n + 1, ?_, prepend_ne_outOfFuel.mpr h.ne⟩
  rw [resolve_text_prepend norm n tbl s seen ht, hn _ (Nat.le_succ n)]

end

namespace Div

/-! ## the witness -/

def kO : Toks := [.ch 'o']
def kA : Toks := [.ch 'a']
def phO : Toks := [.pre, .ch 'o', .suf]
def phA : Toks := [.pre, .ch 'a', .suf]
/-- `${:${a}w` — unterminated -/
def tailA : Toks := [.pre, .sep, .pre, .ch 'a', .suf, .ch 'w']
/-- the table value of `a`: `${o}a}}${:${a}w` -/
def vA : Toks := phO ++ ([.ch 'a', .suf, .suf] ++ tailA)
/-- what it resolves to: `${a}}${:${a}w` -/
def outA : Toks := [.pre, .ch 'a', .suf, .suf] ++ tailA
def tblD : Table := [(kO, [.pre]), (kA, vA)]

def ws (n : Nat) : Toks := List.replicate n (Tok.ch 'w')
/-- `:${a}w…w${a}` -/
def raw (n : Nat) : Toks := .sep :: (phA ++ (ws n ++ (phA ++ [])))
/-- `${:${a}w…w${a}}` -/
def D (n : Nat) : Toks := .pre :: (raw n ++ [.suf])
/-- what `raw n` is replaced by: the default part of its resolved text -/
def pv (n : Nat) : Toks := outA ++ (ws n ++ (outA ++ []))

theorem pre_not_mem_ws (n : Nat) : Tok.pre ∉ ws n := by simp [ws]

theorem raw_length (n : Nat) : (raw n).length = n + 7 := by simp [raw, phA, ws]

theorem raw_inj {m n : Nat} (h : raw m = raw n) : m = n := by
  have := congrArg List.length h
  rw [raw_length, raw_length] at this; omega

theorem pv_eq (n : Nat) : pv n = phA ++ ([Tok.suf] ++ (D (n + 1) ++ tailA)) := by
  simp [pv, outA, tailA, phA, D, raw, ws, List.replicate_succ]

/-! ## scanning the witness -/

theorem findEnd_ws (n d : Nat) (r : Toks) :
    findEnd d (ws n ++ r) = (findEnd d r).map fun p => (ws n ++ p.1, p.2) := by
  induction n with
  | zero => simp [ws]
  | succ n ih =>
    have : ws (n + 1) ++ r = Tok.ch 'w' :: (ws n ++ r) := by simp [ws, List.replicate_succ]
    rw [this]
    simp only [findEnd, ih, Option.map_map]
    cases findEnd d r <;> simp [ws, List.replicate_succ]

theorem findEnd_phA (d : Nat) (r : Toks) :
    findEnd d (phA ++ r) = (findEnd d r).map fun p => (phA ++ p.1, p.2) := by
  simp only [phA, findEnd, Option.map_map, List.cons_append, List.nil_append]
  cases findEnd d r <;> simp

theorem firstPh_D (n : Nat) (rest : Toks) : firstPh (D n ++ rest) = some ([], raw n, rest) := by
  have h : findEnd 0 ((raw n ++ [Tok.suf]) ++ rest) = some (raw n, rest) := by
    have e : (raw n ++ [Tok.suf]) ++ rest = Tok.sep :: (phA ++ (ws n ++ (phA ++ (Tok.suf :: rest)))) := by
      simp [raw]
    rw [e]
    simp only [findEnd, findEnd_phA, findEnd_ws, Option.map_some]
    simp [raw]
  exact firstPh_of (s := D n ++ rest) (before := []) (afterPre := (raw n ++ [Tok.suf]) ++ rest) rfl h

theorem firstPh_phO (rest : Toks) : firstPh (phO ++ rest) = some ([], kO, rest) := rfl
theorem firstPh_phA (rest : Toks) : firstPh (phA ++ rest) = some ([], kA, rest) := rfl

/-! ## what the pieces resolve to (any stack that does not hold `o` / `a`) -/

theorem res_O {seen : List Toks} {rest : Toks} {r : Res} (hO : kO ∉ seen)
    (h : Resolves id tblD rest seen r) : Resolves id tblD (phO ++ rest) seen (r.prepend [Tok.pre]) :=
  Resolves.subst (before := []) (firstPh_phO rest) hO (Resolves.plain _ rfl) (pv := [Tok.pre]) rfl
    (Resolves.plain _ rfl) h

theorem res_vA {seen : List Toks} (hO : kO ∉ seen) : Resolves id tblD vA seen (.ok outA) :=
  res_O hO (Resolves.plain seen rfl)

theorem res_A {seen : List Toks} {rest : Toks} {r : Res} (hA : kA ∉ seen) (hO : kO ∉ seen)
    (h : Resolves id tblD rest seen r) : Resolves id tblD (phA ++ rest) seen (r.prepend outA) := by
  have hO' : kO ∉ seen ++ [kA] := by
    simp only [List.mem_append, List.mem_singleton, not_or]
    exact ⟨hO, by decide⟩
  exact Resolves.subst (before := []) (firstPh_phA rest) hA (Resolves.plain _ rfl) (pv := vA) rfl
    (res_vA hO') h

theorem res_raw (n : Nat) {seen : List Toks} (hA : kA ∉ seen) (hO : kO ∉ seen) :
    Resolves id tblD (raw n) seen (.ok (Tok.sep :: pv n)) := by
  have h0 : Resolves id tblD [] seen (.ok []) := Resolves.plain seen rfl
  have h1 := res_A hA hO h0
  have h2 := Resolves.text (pre_not_mem_ws n) h1
  have h3 := res_A hA hO h2
  have h4 := Resolves.text (t := [Tok.sep]) (by simp) h3
  exact h4

theorem rp_raw (n : Nat) : resolvePlaceholder tblD (id (Tok.sep :: pv n)) = some (pv n) := by
  simp [resolvePlaceholder, Table.get, tblD, kO, kA, findSep]

/-! ## divergence -/

/-- the stack holds earlier texts `raw m`, `m < n`, only -/
def SeenOK (n : Nat) (seen : List Toks) : Prop := ∀ x ∈ seen, ∃ m, m < n ∧ x = raw m

theorem SeenOK.raw_not_mem {n : Nat} {seen : List Toks} (h : SeenOK n seen) : raw n ∉ seen := by
  intro hm
  obtain ⟨m, hlt, e⟩ := h _ hm
  have := raw_inj e; omega

theorem SeenOK.short_not_mem {n : Nat} {seen : List Toks} (h : SeenOK n seen) {x : Toks}
    (hx : x.length = 1) : x ∉ seen := by
  intro hm
  obtain ⟨m, _, e⟩ := h _ hm
  have := congrArg List.length e
  rw [raw_length, hx] at this; omega

theorem SeenOK.push {n : Nat} {seen : List Toks} (h : SeenOK n seen) : SeenOK (n + 1) (seen ++ [raw n]) := by
  intro x hx
  rcases List.mem_append.mp hx with hx | hx
  · obtain ⟨m, hlt, e⟩ := h x hx
    exact ⟨m, by omega, e⟩
  · exact ⟨n, by omega, by simpa using hx⟩

/-- no fuel suffices for `${raw n}` followed by anything, on any stack of earlier texts -/
theorem not_ends : ∀ (f n : Nat) (seen : List Toks) (rest : Toks), SeenOK n seen →
    ¬ Ends id tblD f (D n ++ rest) seen := by
  intro f
  induction f with
  | zero => intro n seen rest _; exact not_ends_zero
  | succ f ih =>
    intro n seen rest hok h
    have hraw := hok.raw_not_mem
    have hok' := hok.push
    have hA : kA ∉ seen ++ [raw n] := hok'.short_not_mem rfl
    have hO : kO ∉ seen ++ [raw n] := hok'.short_not_mem rfl
    -- the default `pv n` is expanded with fuel `f`
    have h1 : Ends id tblD f (pv n) (seen ++ [raw n]) :=
      h.value (firstPh_D n rest) hraw (res_raw n hA hO) (rp_raw n)
    rw [pv_eq] at h1
    cases f with
    | zero => exact not_ends_zero h1
    | succ f =>
      -- `${a}` in front of it is expanded completely, then the text `}` is skipped
      have hO' : kO ∉ (seen ++ [raw n]) ++ [kA] := by
        simp only [List.mem_append, List.mem_singleton, not_or] at hO ⊢
        exact ⟨hO, by decide⟩
      have h2 : Ends id tblD f ([Tok.suf] ++ (D (n + 1) ++ tailA)) (seen ++ [raw n]) :=
        h1.rest (firstPh_phA _) hA (Resolves.plain _ rfl) (pv := vA) rfl (res_vA hO')
      have h3 : Ends id tblD f (D (n + 1) ++ tailA) (seen ++ [raw n]) := h2.text (by simp)
      exact ih (n + 1) _ _ hok' (h3.mono (Nat.le_succ f))

theorem diverges (f : Nat) : resolveTop id f tblD (D 0) = .outOfFuel := by
  have := not_ends f 0 [] [] (by intro x hx; cases hx)
  simpa [Ends, resolveTop] using this

end Div
end Ytk.Resolver
