/- Validity is an invariant of every builder history; list laws; compaction. -/
import YtkModel.Builder
import YtkProofs.Lens

namespace Ytk

/-! ### validity of each builder primitive -/

theorem addAtSegs_valid : ∀ (segs : List String) (kvs : AMap Node) (v : Node), (Node.cont kvs).Valid → v.Valid →
    (Node.cont (addAtSegs kvs segs v)).Valid
  | [], kvs, _, h, _ => by simpa [addAtSegs] using h
  | [s], kvs, v, h, hv => by simpa [addAtSegs] using add_valid s h hv
  | s :: t :: r, kvs, v, h, hv => by
    simp only [addAtSegs]
    apply add_valid s h
    apply addAtSegs_valid (t :: r) _ v _ hv
    cases hch : child kvs s with
    | none => exact Node.Valid.empty
    | some n =>
      cases n with
      | cont c => exact child_valid h hch
      | leaf _ => exact Node.Valid.empty
      | list _ => exact Node.Valid.empty

theorem addValueAt_valid (kvs : AMap Node) (path : String) (v : Node) (h : (Node.cont kvs).Valid) (hv : v.Valid) :
    (Node.cont (addValueAt kvs path v)).Valid := addAtSegs_valid _ kvs v h hv

theorem AMap.mem_erase {α : Type} {m : AMap α} {x : String} {p : String × α} (h : p ∈ AMap.erase m x) : p ∈ m := by
  induction m with
  | nil => simp [AMap.erase] at h
  | cons q m ih =>
    obtain ⟨k', v'⟩ := q
    simp only [AMap.erase] at h
    split at h
    · exact List.mem_cons_of_mem _ h
    · simp only [List.mem_cons] at h ⊢
      rcases h with h | h
      · exact Or.inl h
      · exact Or.inr (ih h)

theorem remove_valid {kvs : AMap Node} (name : String) (h : (Node.cont kvs).Valid) : (Node.cont (remove kvs name)).Valid := by
  apply Node.Valid.cont_of (AMap.sorted_erase h.sorted _)
  intro p hp
  exact h.of_cont_mem (AMap.mem_erase hp)

theorem removeAtSegs_valid : ∀ (segs : List String) (kvs : AMap Node), (Node.cont kvs).Valid →
    (Node.cont (removeAtSegs kvs segs)).Valid
  | [], kvs, h => by simpa [removeAtSegs] using h
  | [s], kvs, h => by simpa [removeAtSegs] using remove_valid s h
  | s :: t :: r, kvs, h => by
    simp only [removeAtSegs]
    cases hch : child kvs s with
    | none => simpa using h
    | some n =>
      cases n with
      | leaf _ => simpa using h
      | list _ => simpa using h
      | cont c =>
        simp only
        exact add_valid s h (removeAtSegs_valid (t :: r) c (child_valid h hch))

theorem updateAtSegs_valid (f : Node → Node) (hf : ∀ n, n.Valid → (f n).Valid) :
    ∀ (segs : List String) (kvs : AMap Node), (Node.cont kvs).Valid → (Node.cont (updateAtSegs kvs f segs)).Valid
  | [], kvs, h => by simpa [updateAtSegs] using h
  | [s], kvs, h => by
    simp only [updateAtSegs]
    cases hch : child kvs s with
    | none => simpa using h
    | some n => exact add_valid s h (hf n (child_valid h hch))
  | s :: t :: r, kvs, h => by
    simp only [updateAtSegs]
    cases hch : child kvs s with
    | none => simpa using h
    | some n =>
      cases n with
      | leaf _ => simpa using h
      | list _ => simpa using h
      | cont c =>
        simp only
        exact add_valid s h (updateAtSegs_valid f hf (t :: r) c (child_valid h hch))

theorem updateAt_valid (kvs : AMap Node) (path : String) (f : Node → Node) (hf : ∀ n, n.Valid → (f n).Valid)
    (h : (Node.cont kvs).Valid) : (Node.cont (updateAt kvs path f)).Valid := by
  unfold updateAt
  split
  · exact h
  · exact updateAtSegs_valid f hf _ kvs h

theorem onList_valid (g : List Node → List Node) (hg : ∀ xs, (∀ x ∈ xs, x.Valid) → ∀ x ∈ g xs, x.Valid) :
    ∀ n : Node, n.Valid → (onList g n).Valid
  | .leaf _, h => h
  | .cont _, h => h
  | .list xs, h => Node.Valid.list_of (hg xs (fun x hx => h.of_list_mem hx))

mutual
theorem compactNode_valid : ∀ (n : Node), n.Valid → (compactNode n).Valid
  | .leaf _, h => h
  | .list _, h => h
  | .cont kvs, h => by
    simp only [compactNode]
    have := compactKvs_spec kvs (fun p hp => h.of_cont_mem hp) h.sorted
    exact Node.Valid.cont_of this.1 this.2.1
/-- compaction keeps keys sorted: the result is valid and its keys come from the input -/
theorem compactKvs_spec : ∀ (kvs : List (String × Node)), (∀ p ∈ kvs, p.2.Valid ∧ hasIdxSuffix p.1 = false) →
    AMap.Sorted kvs →
    AMap.Sorted (compactKvs kvs) ∧ (∀ p ∈ compactKvs kvs, p.2.Valid ∧ hasIdxSuffix p.1 = false) ∧
      (∀ p ∈ compactKvs kvs, ∃ q ∈ kvs, q.1 = p.1)
  | [], _, _ => ⟨.nil, (by intro p hp; cases hp), (by intro p hp; cases hp)⟩
  | (k, x) :: rest, hv, hs => by
    have ih := compactKvs_spec rest (fun p hp => hv p (List.mem_cons_of_mem _ hp)) hs.tail
    have hx := compactNode_valid x (hv (k, x) (List.mem_cons_self ..)).1
    simp only [compactKvs]
    split
    · refine ⟨ih.1, ih.2.1, ?_⟩
      intro p hp
      obtain ⟨q, hq, e⟩ := ih.2.2 p hp
      exact ⟨q, List.mem_cons_of_mem _ hq, e⟩
    · refine ⟨.cons ?_ ih.1, ?_, ?_⟩
      · intro p hp
        obtain ⟨q, hq, e⟩ := ih.2.2 p hp
        rw [← e]
        exact hs.head_lt q hq
      · intro p hp
        simp only [List.mem_cons] at hp
        rcases hp with rfl | hp
        · exact ⟨hx, (hv (k, x) (List.mem_cons_self ..)).2⟩
        · exact ih.2.1 p hp
      · intro p hp
        simp only [List.mem_cons] at hp
        rcases hp with rfl | hp
        · exact ⟨(k, x), List.mem_cons_self .., rfl⟩
        · obtain ⟨q, hq, e⟩ := ih.2.2 p hp
          exact ⟨q, List.mem_cons_of_mem _ hq, e⟩
end

/-- values carried by an operation are valid nodes -/
def BOp.ValuesValid : BOp → Prop
  | .addValue _ v | .addValueAt _ v | .listSet _ _ v | .listAppend _ v | .listMustSet _ _ v => v.Valid
  | _ => True

theorem bstep_valid {d d' : AMap Node} {op : BOp} (h : (Node.cont d).Valid) (hv : op.ValuesValid)
    (hs : bstep d op = .ok d') : (Node.cont d').Valid := by
  cases op with
  | addValue name v => simp only [bstep, Outcome.ok.injEq] at hs; subst hs; exact add_valid name h hv
  | addValueAt path v => simp only [bstep, Outcome.ok.injEq] at hs; subst hs; exact addValueAt_valid d path v h hv
  | addContainer name => simp only [bstep, Outcome.ok.injEq] at hs; subst hs; exact add_valid name h Node.Valid.empty
  | addList name =>
    simp only [bstep, Outcome.ok.injEq] at hs; subst hs
    exact add_valid name h (Node.Valid.list_of (by intro x hx; cases hx))
  | remove name => simp only [bstep, Outcome.ok.injEq] at hs; subst hs; exact remove_valid name h
  | removeAt path => simp only [bstep, Outcome.ok.injEq] at hs; subst hs; exact removeAtSegs_valid _ d h
  | listSet path i v =>
    simp only [bstep, Outcome.ok.injEq] at hs; subst hs
    apply updateAt_valid _ _ _ _ h
    apply onList_valid
    intro xs hxs
    exact set_valid (padTo_valid hxs) hv
  | listAppend path v =>
    simp only [bstep, Outcome.ok.injEq] at hs; subst hs
    apply updateAt_valid _ _ _ _ h
    apply onList_valid
    intro xs hxs x hx
    simp only [listAppend, List.mem_append, List.mem_singleton] at hx
    rcases hx with hx | rfl
    · exact hxs x hx
    · exact hv
  | listClear path =>
    simp only [bstep, Outcome.ok.injEq] at hs; subst hs
    apply updateAt_valid _ _ _ _ h
    apply onList_valid
    intro xs _ x hx; cases hx
  | listMustSet path i v =>
    simp only [bstep] at hs
    split at hs
    · split at hs
      · simp only [Outcome.ok.injEq] at hs; subst hs
        apply updateAt_valid _ _ _ _ h
        apply onList_valid
        intro xs hxs
        exact set_valid hxs hv
      · cases hs
    · simp only [Outcome.ok.injEq] at hs; subst hs; exact h
  | compact =>
    simp only [bstep, Outcome.ok.injEq] at hs; subst hs
    have := compactNode_valid (.cont d) h
    simpa [compactNode] using this

/-- Every reachable document is valid: an invariant over all histories. -/
theorem brun_valid : ∀ (ops : List BOp) (d d' : AMap Node), (Node.cont d).Valid → (∀ op ∈ ops, op.ValuesValid) →
    brun d ops = .ok d' → (Node.cont d').Valid
  | [], d, d', h, _, hr => by simp only [brun, Outcome.ok.injEq] at hr; subst hr; exact h
  | op :: ops, d, d', h, hv, hr => by
    simp only [brun] at hr
    cases hs : bstep d op with
    | ok d1 =>
      rw [hs] at hr
      exact brun_valid ops d1 d' (bstep_valid h (hv op (List.mem_cons_self ..)) hs)
        (fun o ho => hv o (List.mem_cons_of_mem _ ho)) hr
    | err => rw [hs] at hr; cases hr
    | panic => rw [hs] at hr; cases hr

/-! ### list laws -/

theorem listSet_length (xs : List Node) (i : Nat) (v : Node) : (listSet xs i v).length = max xs.length (i + 1) := by
  simp [listSet, padTo_length]

theorem listSet_get_self (xs : List Node) (i : Nat) (v : Node) : (listSet xs i v)[i]? = some v := by
  simp only [listSet]
  exact List.getElem?_set_self (lt_padTo_length xs i)

/-- other slots keep their item; slots created by the padding hold null -/
theorem listSet_get_other (xs : List Node) {i j : Nat} (v : Node) (h : j ≠ i) :
    (listSet xs i v)[j]? = if j < xs.length then xs[j]? else if j < i + 1 then some Node.null else none := by
  simp only [listSet]
  rw [List.getElem?_set_ne (Ne.symm h)]
  by_cases hj : j < xs.length
  · simp [hj, padTo_getElem?_lt hj]
  · simp only [hj, if_false]
    exact padTo_getElem?_ge (Nat.le_of_not_lt hj)

theorem listAppend_spec (xs : List Node) (v : Node) : listAppend xs v = xs ++ [v] := rfl

theorem listMustSet_panics (xs : List Node) (i : Nat) (v : Node) (h : xs.length ≤ i) : listMustSet xs i v = .panic := by
  simp [listMustSet]; omega

/-! ### compaction keeps every leaf -/

mutual
theorem flatten_compactNode : ∀ (n : Node) (p : String), flattenNode (compactNode n) p = flattenNode n p
  | .leaf _, _ => rfl
  | .list _, _ => rfl
  | .cont kvs, p => by simp only [compactNode, flattenNode]; exact flatten_compactKvs kvs p
theorem flatten_compactKvs : ∀ (kvs : List (String × Node)) (p : String), flattenKvs (compactKvs kvs) p = flattenKvs kvs p
  | [], _ => rfl
  | (k, x) :: rest, p => by
    have hx := flatten_compactNode x (toPath p k)
    have hr := flatten_compactKvs rest p
    simp only [compactKvs]
    split
    · rename_i he
      rw [he] at hx
      simp only [flattenNode, flattenKvs] at hx
      simp only [flattenKvs, hr, ← hx, List.nil_append]
    · simp only [flattenKvs, hx, hr]
end

theorem flatten_compact (d : AMap Node) : flatten (compactKvs d) = flatten d := flatten_compactKvs d ""

/-- after compaction no keyed child is an empty container -/
theorem compactKvs_no_empty : ∀ (kvs : List (String × Node)) (p : String × Node), p ∈ compactKvs kvs → p.2 ≠ .cont []
  | [], p, hp => by cases hp
  | (k, x) :: rest, p, hp => by
    simp only [compactKvs] at hp
    split at hp
    · exact compactKvs_no_empty rest p hp
    · rename_i hne
      simp only [List.mem_cons] at hp
      rcases hp with rfl | hp
      · exact fun e => hne e
      · exact compactKvs_no_empty rest p hp

end Ytk
