/- A Boolean checker for `Node.Valid`, sound, so that concrete documents can be shown valid by
   `decide` in the non-vacuity theorems. -/
import YtkModel.Dom

namespace Ytk

def sortedB {α : Type} : List (String × α) → Bool
  | [] => true
  | [_] => true
  | (k, _) :: (k2, v2) :: rest => decide (k < k2) && sortedB ((k2, v2) :: rest)

theorem sortedB_sound {α : Type} : ∀ (m : List (String × α)), sortedB m = true → AMap.Sorted m
  | [], _ => .nil
  | [(k, v)], _ => .cons (fun _ hp => by cases hp) .nil
  | (k, v) :: (k2, v2) :: rest, h => by
    simp only [sortedB, Bool.and_eq_true, decide_eq_true_eq] at h
    have ht := sortedB_sound ((k2, v2) :: rest) h.2
    refine .cons ?_ ht
    intro p hp
    rcases List.mem_cons.mp hp with rfl | hp
    · exact h.1
    · exact String.lt_trans h.1 (ht.head_lt p hp)

mutual
def Node.validB : Node → Bool
  | .leaf _ => true
  | .list xs => validListB xs
  | .cont kvs => sortedB kvs && validKvsB kvs
def validListB : List Node → Bool
  | [] => true
  | x :: xs => x.validB && validListB xs
def validKvsB : List (String × Node) → Bool
  | [] => true
  | (k, x) :: xs => !hasIdxSuffix k && x.validB && validKvsB xs
end

mutual
theorem Node.validB_sound : ∀ (n : Node), n.validB = true → n.Valid
  | .leaf v, _ => ⟨.leaf v, .leaf v⟩
  | .list xs, h => by
    simp only [Node.validB] at h
    have := validListB_sound xs h
    exact ⟨.list (fun x hx => (this x hx).1), .list (fun x hx => (this x hx).2)⟩
  | .cont kvs, h => by
    simp only [Node.validB, Bool.and_eq_true] at h
    have := validKvsB_sound kvs h.2
    exact ⟨.cont (sortedB_sound kvs h.1) (fun p hp => (this p hp).1.1),
      .cont (fun p hp => (this p hp).2) (fun p hp => (this p hp).1.2)⟩
theorem validListB_sound : ∀ (xs : List Node), validListB xs = true → ∀ x ∈ xs, x.Valid
  | [], _ => by intro x hx; cases hx
  | y :: ys, h => by
    simp only [validListB, Bool.and_eq_true] at h
    intro x hx
    rcases List.mem_cons.mp hx with e | hx
    · exact e ▸ Node.validB_sound y h.1
    · exact validListB_sound ys h.2 x hx
theorem validKvsB_sound : ∀ (xs : List (String × Node)), validKvsB xs = true →
    ∀ p ∈ xs, p.2.Valid ∧ hasIdxSuffix p.1 = false
  | [], _ => by intro p hp; cases hp
  | (k, y) :: ys, h => by
    simp only [validKvsB, Bool.and_eq_true, Bool.not_eq_true'] at h
    intro p hp
    rcases List.mem_cons.mp hp with e | hp
    · exact e ▸ ⟨Node.validB_sound y h.1.2, h.1.1⟩
    · exact validKvsB_sound ys h.2 p hp
end

end Ytk
