/-
  gap7a — C02 × C10: the two models of `patch.Path.Eval` / `xform.PropPath2Pointer`.

  C02 states `pointer_flatten` on `evalTokens ∘ pointerTokens` (YtkModel/Addr.lean: "one reference token
  per segment", final node only); C09 / C10 use `Ptr.eval` and `Ptr.propPath2Pointer`
  (YtkModel/Pointer.lean: Atoi-based list branch; the pointer TEXT is written unescaped and parsed).
  Here: whenever `evalTokens` resolves, `Ptr.eval` resolves to the same node (indices below 2^63), and
  `Ptr.propPath2Pointer` yields exactly `pointerTokens` when no key contains '/' or '~'.
-/
import YtkProofs.Pointer
import YtkProofs.PointerPaths

namespace Ytk
open Ytk.Ptr

/-- every all-digit token denotes a number below 2^63 (`strconv.Atoi` accepts it) -/
def SmallIdx (ts : List String) : Prop := ∀ t ∈ ts, ∀ i, tokenIndex t = some i → i < int64Lim

theorem atoi_of_tokenIndex {t : String} {i : Nat} (h : tokenIndex t = some i) (hs : i < int64Lim) :
    atoi t = some (i : Int) := by
  unfold tokenIndex at h
  simp only [] at h
  split at h
  · rename_i hc
    cases h
    unfold atoi
    cases hcs : t.toList with
    | nil => exact absurd hcs hc.1
    | cons c r =>
      rw [hcs] at hc hs
      rw [atoiC_of_allDigits (by simpa [allDigits] using hc.2), if_pos hs]
  · cases h

theorem evalTokens_nil (n : Node) : evalTokens n [] = some n := by
  cases n <;> simp [evalTokens]

/-- whenever C02's evaluator resolves, C10's `Path.Eval` loop resolves to the same node -/
theorem evalLoop_of_evalTokens : ∀ (ts : List String) (n r : Node), SmallIdx ts →
    evalTokens n ts = some r → (evalLoop n ts).2 = some r
  | [], n, r, _, h => by
    rw [evalTokens_nil] at h
    simpa [evalLoop] using h
  | t :: ts, n, r, hs, h => by
    have hs' : SmallIdx ts := fun t' ht' => hs t' (List.mem_cons_of_mem _ ht')
    cases n with
    | leaf v => simp [evalTokens] at h
    | list xs =>
      simp only [evalTokens] at h
      cases hti : tokenIndex t with
      | none => rw [hti] at h; cases h
      | some i =>
        rw [hti] at h
        simp only [] at h
        cases hx : xs[i]? with
        | none => rw [hx] at h; cases h
        | some x =>
          rw [hx] at h
          simp only [] at h
          have hlt : i < xs.length := by
            rcases Nat.lt_or_ge i xs.length with hlt | hge
            · exact hlt
            · rw [List.getElem?_eq_none hge] at hx; cases hx
          have ha := atoi_of_tokenIndex hti (hs t (List.mem_cons_self ..) i hti)
          have hc : (0 : Int) ≤ (i : Int) ∧ (i : Int) < (xs.length : Int) := ⟨by omega, by omega⟩
          have hstep : step (.list xs) t = some x := by
            simp only [step, ha, if_pos hc, Int.toNat_natCast, hx]
          simp only [evalLoop, hstep]
          exact evalLoop_of_evalTokens ts x r hs' h
    | cont kvs =>
      simp only [evalTokens] at h
      cases hc : child kvs t with
      | none => rw [hc] at h; cases h
      | some x =>
        rw [hc] at h
        simp only [] at h
        have hstep : step (.cont kvs) t = some x := by simp only [step, hc]
        simp only [evalLoop, hstep]
        exact evalLoop_of_evalTokens ts x r hs' h

theorem eval_of_evalTokens (ts : List String) (n r : Node) (hs : SmallIdx ts) (h : evalTokens n ts = some r) :
    (eval ts n).2 = some r := by
  rw [eval_snd]; exact evalLoop_of_evalTokens ts n r hs h

/-! ## PropPath2Pointer -/

/-- props.PathSegment of a parsed segment -/
def PSeg.toPropSeg : PSeg → PropSeg
  | .key s => ⟨false, 0, s⟩
  | .idx n => ⟨true, n, ""⟩

/-- no key contains a character that RFC 6901 escapes -/
def PtrSafeSegs (segs : List PSeg) : Prop := ∀ s, PSeg.key s ∈ segs → '/' ∉ s.toList ∧ '~' ∉ s.toList

theorem encTok_plain : ∀ (t : List Char), '/' ∉ t → '~' ∉ t → encTok t = t
  | [], _, _ => rfl
  | c :: cs, h1, h2 => by
    have c1 : c ≠ '/' := fun e => h1 (by simp [e])
    have c2 : c ≠ '~' := fun e => h2 (by simp [e])
    simp only [encTok, encChar, if_neg c2, if_neg c1, List.singleton_append]
    rw [encTok_plain cs (fun h => h1 (List.mem_cons_of_mem _ h)) (fun h => h2 (List.mem_cons_of_mem _ h))]

theorem toString_nat_plain (n : Nat) : '/' ∉ (toString n).toList ∧ '~' ∉ (toString n).toList := by
  have h := tokenIndex_toString n
  unfold tokenIndex at h
  simp only [] at h
  split at h
  · rename_i hc
    have hall := hc.2
    rw [List.all_eq_true] at hall
    constructor
    · intro hm; have := hall _ hm; revert this; decide
    · intro hm; have := hall _ hm; revert this; decide
  · cases h

/-- the text PropPath2Pointer builds, from any accumulator -/
theorem propText_foldl : ∀ (segs : List PSeg) (acc : String), PtrSafeSegs segs →
    ((segs.map PSeg.toPropSeg).foldl
      (fun acc pc => acc ++ "/" ++ (if pc.isNum then toString pc.index else pc.value)) acc).toList =
      acc.toList ++ ptrString ((pointerTokens segs).map String.toList)
  | [], acc, _ => by simp [pointerTokens, ptrString]
  | s :: segs, acc, hs => by
    have hs' : PtrSafeSegs segs := fun k hk => hs k (List.mem_cons_of_mem _ hk)
    simp only [List.map_cons, List.foldl_cons]
    rw [propText_foldl segs _ hs']
    have hslash : ("/".toList : List Char) = ['/'] := rfl
    cases s with
    | key k =>
      obtain ⟨h1, h2⟩ := hs k (List.mem_cons_self ..)
      simp only [PSeg.toPropSeg, pointerTokens, List.map_cons, ptrString, String.toList_append, hslash,
        encTok_plain k.toList h1 h2, Bool.false_eq_true, if_false]
      simp [pointerTokens]
    | idx n =>
      obtain ⟨h1, h2⟩ := toString_nat_plain n
      simp only [PSeg.toPropSeg, pointerTokens, List.map_cons, ptrString, String.toList_append, hslash,
        encTok_plain (toString n).toList h1 h2, if_true]
      simp [pointerTokens]

/-- PropPath2Pointer yields one reference token per segment — C02's `pointerTokens` — when no key
    contains '/' or '~' (the text is written UNESCAPED and then parsed) -/
theorem propPath2Pointer_eq (segs : List PSeg) (hs : PtrSafeSegs segs) :
    propPath2Pointer (segs.map PSeg.toPropSeg) = .ok (pointerTokens segs) := by
  unfold propPath2Pointer
  simp only []
  have ht := propText_foldl segs "" hs
  have he : ("".toList : List Char) = [] := rfl
  rw [he, List.nil_append] at ht
  have hp : parseS ((segs.map PSeg.toPropSeg).foldl
      (fun acc pc => acc ++ "/" ++ (if pc.isNum then toString pc.index else pc.value)) "") =
      some (pointerTokens segs) := by
    unfold parseS
    rw [ht, ptrParse_ptrString]
    simp only [Option.map_some, List.map_map, Option.some.injEq]
    induction pointerTokens segs with
    | nil => rfl
    | cons t ts ih => simp [ih]
  rw [hp]

end Ytk
