/-
  C13 `env_frame`: the frame law of EnvOp for ALL paths `q` (list-item components included) and all
  target paths (`path` itself may carry index groups), under `Fits`.

  EnvOp performs one `addValueAt` per selected variable, all below the same parent `<path>.Env`; the frame
  law of a single write (`frameAt_addValueAt_steps`) composes (`FrameAt.trans`) because a write at
  `<path>.Env.n` keeps `Fits` for the sibling target `<path>.Env.n'` (`fits_addAtSegs_sibling`).
-/
import YtkProofs.PipelineFrame

namespace Ytk

/-- after a write below index groups `is` the written node fits those index groups, whatever was there -/
theorem idxFits_setSlot : ∀ (is : List Nat) (cur : Option Node) (x : Node), IdxFits (some (setSlot cur is x)) is
  | [], _, _ => trivial
  | i :: is, cur, x => by
    rw [setSlot_cons]
    simp only [IdxFits]
    rw [List.getElem?_set_self (lt_padTo_length _ i)]
    exact idxFits_setSlot is _ x

/-- A write at `common ++ [n]` keeps `Fits` for the sibling target `common ++ [n']` (`n'` a plain key):
    on the way down the write only creates or re-uses containers, and it stores them below exactly the
    index groups of the shared components. -/
theorem fits_addAtSegs_sibling : ∀ (common : List String) (kvs : AMap Node) (n n' : String) (v : Node),
    common ≠ [] → segIdx n' = [] → Fits kvs (common ++ [n']) →
    Fits (addAtSegs kvs (common ++ [n]) v) (common ++ [n'])
  | [], _, _, _, _, h, _, _ => absurd rfl h
  | [c], kvs, n, n', v, _, hn', _ => by
    simp only [List.cons_append, List.nil_append]
    rw [addAtSegs_cons_cons]
    simp only [Fits]
    refine ⟨?_, ?_, ?_⟩
    · rw [add_eq_insert, AMap.get?_insert_self]
      exact idxFits_setSlot _ _ _
    · intro xs
      rw [child_add_self]
      simp
    · rw [hn']
      trivial
  | c :: c2 :: rest, kvs, n, n', v, _, hn', hf => by
    simp only [List.cons_append] at hf ⊢
    rw [addAtSegs_cons_cons]
    simp only [Fits]
    refine ⟨?_, ?_, ?_⟩
    · rw [add_eq_insert, AMap.get?_insert_self]
      exact idxFits_setSlot _ _ _
    · intro xs
      rw [child_add_self]
      simp
    · rw [child_add_self]
      exact fits_addAtSegs_sibling (c2 :: rest) (kidsOf (child kvs c)) n n' v (by simp) hn' hf.2.2

end Ytk

namespace Ytk.PD

theorem FrameAt.trans {d0 d1 d2 : AMap Node} {q : String} (h1 : FrameAt d0 d1 q) (h2 : FrameAt d1 d2 q) :
    FrameAt d0 d2 q := by
  rcases h1 with h1 | ⟨h1a, h1b⟩
  · rcases h2 with h2 | ⟨h2a, h2b⟩
    · exact Or.inl (h2.trans h1)
    · exact Or.inr ⟨h1 ▸ h2a, h2b⟩
  · exact Or.inr ⟨h1a, FrameAt.of_some h2 h1b⟩

/-- the components of an EnvOp target: the shared parent `<path>.Env`, then the variable name -/
theorem splitPath_envKey' (path n : String) (hn : '.' ∉ n.toList) :
    splitPath (envKey path n) = (envPrefix path ++ ["Env"]) ++ [n] := by
  rw [splitPath_envKey path n hn]
  simp

/-- one EnvOp write keeps `Fits` for every other EnvOp target -/
theorem fits_envKey_step (path : String) (data : AMap Node) {n n' : String} (v : Node)
    (hn : '.' ∉ n.toList) (hn' : NameOk n') (hf : Fits data (splitPath (envKey path n'))) :
    Fits (addValueAt data (envKey path n) v) (splitPath (envKey path n')) := by
  unfold addValueAt
  rw [splitPath_envKey' path n hn]
  rw [splitPath_envKey' path n' hn'.2.1] at hf ⊢
  exact fits_addAtSegs_sibling _ data n n' v (by simp) (segIdx_of_noSuffix hn'.2.2) hf

/-- EnvOp frame, general form: every selected variable's target fits the document, `q`'s steps are not
    prefix-related to any of them -/
theorem envOp_frame (incl excl : String → Bool) (path q : String) :
    ∀ (env : List (String × String)) (data d' : AMap Node),
    (∀ p ∈ env, NameOk p.1) →
    (∀ p ∈ env, sel incl excl p.1 = true → Fits data (splitPath (envKey path p.1))) →
    (∀ p ∈ env, sel incl excl p.1 = true →
      ¬ pathSteps (splitPath (envKey path p.1)) <+: pathSteps (splitPath q) ∧
      ¬ pathSteps (splitPath q) <+: pathSteps (splitPath (envKey path p.1))) →
    envOp incl excl path (envEntries env) data = .ok d' → FrameAt data d' q
  | [], data, d', _, _, _, hd => by
    simp only [envEntries, List.map_nil, envOp] at hd
    cases hd
    exact FrameAt.refl _ _
  | (n, v) :: rest, data, d', hok, hf, hq, hd => by
    have hn : NameOk n := hok (n, v) (List.mem_cons_self ..)
    have hrest : ∀ p ∈ rest, NameOk p.1 := fun p hp' => hok p (List.mem_cons_of_mem _ hp')
    simp only [envEntries, List.map_cons] at hd
    rw [envOp_cons_ok incl excl path n v _ data hn.1] at hd
    by_cases hs : sel incl excl n = true
    · rw [if_pos hs] at hd
      have h1 : FrameAt data (addValueAt data (envKey path n) (.leaf ⟨"string", v⟩)) q :=
        frameAt_addValueAt_steps data _ q _ (hf (n, v) (List.mem_cons_self ..) hs)
          (hq (n, v) (List.mem_cons_self ..) hs).1 (hq (n, v) (List.mem_cons_self ..) hs).2
      refine h1.trans (envOp_frame incl excl path q rest _ d' hrest ?_ ?_ hd)
      · intro p hp' hsp
        exact fits_envKey_step path data _ hn.2.1 (hrest p hp') (hf p (List.mem_cons_of_mem _ hp') hsp)
      · exact fun p hp' hsp => hq p (List.mem_cons_of_mem _ hp') hsp
    · rw [if_neg hs] at hd
      exact envOp_frame incl excl path q rest data d' hrest
        (fun p hp' hsp => hf p (List.mem_cons_of_mem _ hp') hsp)
        (fun p hp' hsp => hq p (List.mem_cons_of_mem _ hp') hsp) hd

/-- the same without `Fits`, for paths that part from every target at two different keys or indices -/
theorem envOp_frame_diverge (incl excl : String → Bool) (path q : String) :
    ∀ (env : List (String × String)) (data d' : AMap Node),
    (∀ p ∈ env, NameOk p.1) →
    (∀ p ∈ env, sel incl excl p.1 = true → DivergeIdx (splitPath (envKey path p.1)) (splitPath q)) →
    envOp incl excl path (envEntries env) data = .ok d' → FrameAt data d' q
  | [], data, d', _, _, hd => by
    simp only [envEntries, List.map_nil, envOp] at hd
    cases hd
    exact FrameAt.refl _ _
  | (n, v) :: rest, data, d', hok, hq, hd => by
    have hn : NameOk n := hok (n, v) (List.mem_cons_self ..)
    have hrest : ∀ p ∈ rest, NameOk p.1 := fun p hp' => hok p (List.mem_cons_of_mem _ hp')
    simp only [envEntries, List.map_cons] at hd
    rw [envOp_cons_ok incl excl path n v _ data hn.1] at hd
    by_cases hs : sel incl excl n = true
    · rw [if_pos hs] at hd
      have h1 : FrameAt data (addValueAt data (envKey path n) (.leaf ⟨"string", v⟩)) q :=
        frameAt_addValueAt_diverge data _ q _ (hq (n, v) (List.mem_cons_self ..) hs)
      exact h1.trans (envOp_frame_diverge incl excl path q rest _ d' hrest
        (fun p hp' hsp => hq p (List.mem_cons_of_mem _ hp') hsp) hd)
    · rw [if_neg hs] at hd
      exact envOp_frame_diverge incl excl path q rest data d' hrest
        (fun p hp' hsp => hq p (List.mem_cons_of_mem _ hp') hsp) hd

/-- EnvOp succeeds on an environment of well-formed names (no entry without `=`) -/
theorem envOp_ok (incl excl : String → Bool) (path : String) :
    ∀ (env : List (String × String)) (data : AMap Node), (∀ p ∈ env, NameOk p.1) →
    ∃ d', envOp incl excl path (envEntries env) data = .ok d'
  | [], data, _ => ⟨data, rfl⟩
  | (n, v) :: rest, data, hok => by
    have hn : NameOk n := hok (n, v) (List.mem_cons_self ..)
    simp only [envEntries, List.map_cons]
    rw [envOp_cons_ok incl excl path n v _ data hn.1]
    exact envOp_ok incl excl path rest _ (fun p hp' => hok p (List.mem_cons_of_mem _ hp'))

end Ytk.PD
