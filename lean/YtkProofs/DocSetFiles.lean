/-
  YtkProofs.DocSetFiles — lemmas about the file walkers of the document set (YtkModel/DocSetFiles.lean).
-/
import YtkModel.DocSetFiles

namespace Ytk.DocSetFiles
open Ytk.DocSet

variable {δ : Type}

theorem run_cons (s : State δ) (op : Op δ) (ops : List (Op δ)) : run s (op :: ops) = run (step s op).1 ops := rfl

theorem run_append (s : State δ) (xs ys : List (Op δ)) : run s (xs ++ ys) = run (run s xs) ys := by
  simp [run, List.foldl_append]

/-- the loop over `xs ++ ys`: `ys` is reached only when `xs` went through -/
theorem addFiles_append (load : String → Outcome δ) (opts : List Opt) :
    ∀ (xs ys : List String) (s : State δ),
      addFiles load opts s (xs ++ ys) =
        (match addFiles load opts s xs with
         | (s', .ok _) => addFiles load opts s' ys
         | r => r)
  | [], ys, s => by simp [addFiles]
  | x :: xs, ys, s => by
    simp only [List.cons_append, addFiles]
    rcases h : addFromFile load opts s x with ⟨s', e⟩
    cases e with
    | ok u => simp only []; exact addFiles_append load opts xs ys s'
    | err => simp
    | panic => simp

/-- every file loads and every add succeeds: the set is the fold of `DocSet.step` over the files in order -/
theorem addFiles_all_ok (load : String → Outcome δ) (opts : List Opt) :
    ∀ (docs : List (String × δ)) (s : State δ),
      (∀ p ∈ docs, load p.1 = .ok p.2) →
      (∀ (s : State δ) (p : String × δ), p ∈ docs → (step s (.addFromReader p.1 (some p.2) opts)).2 = false) →
      addFiles load opts s (docs.map (·.1)) = (run s (fileOps opts docs), .ok ())
  | [], s, _, _ => rfl
  | p :: rest, s, hl, hs => by
    have h1 := hl p (by simp)
    have h2 := hs s p (by simp)
    have ih := addFiles_all_ok load opts rest (step s (.addFromReader p.1 (some p.2) opts)).1
      (fun q hq => hl q (by simp [hq])) (fun s q hq => hs s q (by simp [hq]))
    simp only [List.map_cons, addFiles, addFromFile, h1]
    rcases hst : step s (.addFromReader p.1 (some p.2) opts) with ⟨s', b⟩
    rw [hst] at h2 ih
    simp only at h2
    subst h2
    simp only [fileOps, List.map_cons, run_cons, hst]
    exact ih

/-- the manifest walker never returns an error once the manifest is loaded -/
theorem addItems_never_err (decode : String → String → Outcome δ) (opts : List Opt) (manifest : String) (m : K8s.Manifest) :
    ∀ (items : List String) (s : State δ), (addItems decode opts manifest m s items).2 ≠ .err
  | [], s => by simp [addItems]
  | i :: rest, s => by
    unfold addItems
    cases hg : K8s.strGet m i with
    | none => simp
    | some t =>
      cases hd : decode i t with
      | ok d => simp only [hd]; exact addItems_never_err decode opts manifest m rest _
      | err => simp only [hd]; exact addItems_never_err decode opts manifest m rest _
      | panic => simp [hd]

end Ytk.DocSetFiles
