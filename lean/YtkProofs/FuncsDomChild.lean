/-
  YtkProofs.FuncsDomChild — the regenerated translation of `(*containerImpl).Child` (dom/container.go: the
  index-suffix handling `a[0][1]`, by RECURSION on the name with the last group stripped) EQUALS the
  hand-written model `child` (YtkModel/Dom.lean: `parseSeg` strips ALL groups first, `walkIdx` descends),
  for every container and every name whose index groups fit an int64.  Restated in YtkProps/C02.lean.
-/
import YtkModel.Generated.FuncsDom
import YtkProofs.FuncsLemmas
import YtkProofs.FuncsPtr
import YtkProofs.Dom
import YtkProofs.Lens
import YtkProofs.FlattenPaths

set_option linter.unusedSimpArgs false

namespace Ytk.FuncsDomChild
open Ytk Ytk.Generated

/-! ## the model side: `child` of a name with a trailing group, by the last group -/

/-- the shape of a text with a trailing index group -/
theorem stripIdx_shape {s p : List Char} {i : Nat} (h : stripIdx s = some (p, i)) :
    ∃ digs : List Char, digs ≠ [] ∧ digs.all isDigit = true ∧ s = p ++ '[' :: (digs ++ [']']) ∧ i = digitsToNat digs := by
  unfold stripIdx at h
  split at h
  · rename_i r hr
    split at h
    · rename_i d ds p' ht hd
      cases h
      have hr2 : r = (d :: ds) ++ ('[' :: p') := by
        have h2 := List.takeWhile_append_dropWhile (p := isDigit) (l := r)
        rw [ht, hd] at h2
        exact h2.symm
      have hall : (d :: ds).all isDigit = true := by
        rw [← ht, List.all_eq_true]
        intro x hx
        have := List.all_takeWhile (p := isDigit) (l := r)
        rw [List.all_eq_true] at this
        exact this x hx
      refine ⟨(d :: ds).reverse, by simp, by rw [List.all_reverse]; exact hall, ?_, rfl⟩
      have hs : s = (']' :: r).reverse := by rw [← hr, List.reverse_reverse]
      rw [hs, hr2]
      simp
    · cases h
  · cases h

theorem parseSegAux_acc : ∀ (fuel : Nat) (s : List Char) (acc : List Nat),
    parseSegAux fuel s acc = ((parseSegAux fuel s []).1, (parseSegAux fuel s []).2 ++ acc)
  | 0, s, acc => by simp [parseSegAux]
  | fuel + 1, s, acc => by
    simp only [parseSegAux]
    cases hs : stripIdx s with
    | none => simp
    | some pi =>
      obtain ⟨p, i⟩ := pi
      simp only
      rw [parseSegAux_acc fuel p (i :: acc), parseSegAux_acc fuel p [i]]
      simp

theorem parseSegAux_fuel : ∀ (f1 f2 : Nat) (s : List Char) (acc : List Nat), s.length ≤ f1 → s.length ≤ f2 →
    parseSegAux f1 s acc = parseSegAux f2 s acc
  | 0, f2, s, acc, h1, _ => by
    have : s = [] := List.eq_nil_of_length_eq_zero (by omega)
    subst this
    cases f2 <;> simp [parseSegAux, stripIdx]
  | f1 + 1, 0, s, acc, _, h2 => by
    have : s = [] := List.eq_nil_of_length_eq_zero (by omega)
    subst this
    simp [parseSegAux, stripIdx]
  | f1 + 1, f2 + 1, s, acc, h1, h2 => by
    simp only [parseSegAux]
    cases hs : stripIdx s with
    | none => rfl
    | some pi =>
      obtain ⟨p, i⟩ := pi
      have := stripIdx_length hs
      exact parseSegAux_fuel f1 f2 p (i :: acc) (by omega) (by omega)

/-- `parseSeg` of a name with a trailing group: the groups of the rest, then this one -/
theorem parseSeg_strip {name : String} {p : List Char} {i : Nat} (h : stripIdx name.toList = some (p, i)) :
    parseSeg name = ((parseSeg (String.ofList p)).1, (parseSeg (String.ofList p)).2 ++ [i]) := by
  have hl := stripIdx_length h
  have hlen : name.length = name.toList.length := String.length_toList.symm
  obtain ⟨n, hn⟩ : ∃ n, name.length = n + 1 := ⟨name.length - 1, by omega⟩
  simp only [parseSeg, hn, parseSegAux, h, String.toList_ofList, String.length_ofList]
  rw [parseSegAux_acc n p [i], parseSegAux_fuel n p.length p [] (by omega) (Nat.le_refl _)]

theorem child_eq_walk (kvs : AMap Node) (name : String) :
    child kvs name = walkIdx (AMap.get? kvs (parseSeg name).1) (parseSeg name).2 := by
  unfold child
  cases hp : parseSeg name with
  | mk b is =>
    cases is with
    | nil =>
      have := parseSeg_nil_base hp
      subst this
      simp [walkIdx]
    | cons i is => simp

/-- the recursion of the Go code, on the model: `Child(name[i])` looks into the list `Child(name)` -/
theorem child_strip (kvs : AMap Node) {name : String} {p : List Char} {i : Nat}
    (h : stripIdx name.toList = some (p, i)) :
    child kvs name = (match child kvs (String.ofList p) with
      | some (.list xs) => xs[i]?
      | _ => none) := by
  rw [child_eq_walk kvs name, parseSeg_strip h, child_eq_walk kvs (String.ofList p)]
  exact walkIdx_snoc _ _ _

theorem child_noStrip (kvs : AMap Node) {name : String} (h : stripIdx name.toList = none) :
    child kvs name = AMap.get? kvs name :=
  child_of_noSuffix kvs (by simp [hasIdxSuffix, h])

/-! ## the Go side -/

/-- every index group of the name fits an int64 (`strconv.Atoi` saturates beyond; a list that long does not exist) -/
def IdxFits (name : String) : Prop := ∀ i ∈ (parseSeg name).2, i < 9223372036854775808

theorem IdxFits.strip {name : String} {p : List Char} {i : Nat} (hf : IdxFits name)
    (h : stripIdx name.toList = some (p, i)) : IdxFits (String.ofList p) ∧ i < 9223372036854775808 := by
  unfold IdxFits at hf ⊢
  rw [parseSeg_strip h] at hf
  exact ⟨fun j hj => hf j (List.mem_append_left _ hj), hf i (by simp)⟩

theorem atoi_digits (digs : List Char) (hne : digs ≠ []) (hall : digs.all isDigit = true)
    (hfit : digitsToNat digs < 9223372036854775808) :
    Go.atoi (String.ofList digs) = ((digitsToNat digs : Int), none) := by
  obtain ⟨d, ds, rfl⟩ := List.exists_cons_of_ne_nil hne
  have hd : isDigit d = true := by simp only [List.all_cons, Bool.and_eq_true] at hall; exact hall.1
  have h1 : d ≠ '-' := by intro e; subst e; revert hd; decide
  have h2 : d ≠ '+' := by intro e; subst e; revert hd; decide
  have hall' : (d :: ds).all Go.isDigit = true := by rw [Go.all_isDigit_eq]; exact hall
  unfold Go.atoi
  simp only [String.toList_ofList]
  split
  · rename_i heq; cases heq; exact absurd rfl h1
  · rename_i heq; cases heq; exact absurd rfl h2
  · simp only [Go.atoiDigits, List.isEmpty_cons, hall', Bool.not_true, Bool.or_self, Bool.false_eq_true, if_false,
      Go.digitsVal_eq, hfit, if_true]

theorem containerChild_rec_eq (c : AMap Node) : ∀ (fuel : Nat) (name : String), IdxFits name →
    name.toList.length < fuel → FuncsDom.containerChild_rec fuel c name = .ok (child c name) := by
  intro fuel
  induction fuel with
  | zero => intro name _ h; omega
  | succ fuel ih =>
    intro name hf hlen
    cases hs : stripIdx name.toList with
    | none =>
      simp [FuncsDom.containerChild_rec, GoDom.reIdxSuffix, hs, GoDom.mapGet, GoDom.children, child_noStrip c hs]
    | some pi =>
      obtain ⟨p, i⟩ := pi
      obtain ⟨digs, hne, hall, hshape, hi⟩ := stripIdx_shape hs
      obtain ⟨hfp, hfi⟩ := hf.strip hs
      have hpl := stripIdx_length hs
      have hsl : name.toList.length = p.length + 1 + digs.length + 1 := by rw [hshape]; simp; omega
      -- the two slices of the name
      have hdig : Go.slice name ((p.length : Int) + 1) ((name.toList.length : Int) - 1) = .ok (String.ofList digs) := by
        have e1 : ((p.length : Int) + 1) = ((p.length + 1 : Nat) : Int) := by omega
        have e2 : ((name.toList.length : Int) - 1) = ((name.toList.length - 1 : Nat) : Int) := by omega
        rw [e1, e2, Go.slice_nat name _ _ (by omega) (by omega)]
        congr 1
        rw [hshape]
        have e3 : (p ++ '[' :: (digs ++ [']'])).length - 1 - (p.length + 1) = digs.length := by simp; omega
        rw [e3]
        have e4 : p ++ '[' :: (digs ++ [']']) = (p ++ ['[']) ++ (digs ++ [']']) := by simp
        rw [e4, List.drop_left' (by simp)]
        simp
      have hbase : Go.slice name 0 (p.length : Int) = .ok (String.ofList p) := by
        have := Go.slice_nat name 0 p.length (by omega) (by omega)
        simp only [Int.natCast_zero, List.drop_zero, Nat.sub_zero] at this
        rw [this, hshape]
        simp
      have hrec := ih (String.ofList p) hfp (by simp only [String.toList_ofList]; omega)
      have hat := atoi_digits digs hne hall (by rw [← hi]; exact hfi)
      have hi0 : ∀ a b : Int, Go.index [a, b] 0 = .ok a := fun a b => by simp [Go.index]
      have hi1 : ∀ a b : Int, Go.index [a, b] 1 = .ok b := fun a b => by simp [Go.index]
      simp only [FuncsDom.containerChild_rec, GoDom.reIdxSuffix, GoDom.reIdxSuffixFind, hs, Option.isSome_some, if_true,
        hi0, hi1, Go.Res.ok_bind, hdig, hat, hbase, hrec, child_strip c hs]
      cases hc : child c (String.ofList p) with
      | none => simp
      | some n =>
        cases n with
        | leaf v => simp [GoDom.asList?]
        | cont k => simp [GoDom.asList?]
        | list xs =>
          simp only [GoDom.asList?, GoDom.size, GoDom.items, ← hi]
          by_cases hlt : i < xs.length
          · have : ¬ ((i : Int) > (xs.length : Int) - 1) := by omega
            simp [this, hlt, Go.index_nat xs i hlt]
          · have : ((i : Int) > (xs.length : Int) - 1) := by omega
            simp [this, hlt]

/-- Container.Child(name), as translated, is the model's `child` for every container and every name whose index
    groups are below 2^63 -/
theorem containerChild_generated_eq_model (c : AMap Node) (name : String) (hf : IdxFits name) :
    FuncsDom.containerChild c name = .ok (child c name) := by
  simp only [FuncsDom.containerChild]
  exact containerChild_rec_eq c _ name hf (by rw [String.length_toList]; omega)

end Ytk.FuncsDomChild
