/-
  YtkProofs.ResolverRelex — the resolver model under the REAL `norm` (`relex d` = re-lexing of the
  resolved placeholder text, as the driver passes it).

  1. Termination for delimiter-balanced tables (`resolves_balanced`, proved for `norm = id`) does
     NOT carry over to `norm = relex d`: a value may contribute ONE HALF of a delimiter as plain
     text (`o = "$"`), the other half stands next to the placeholder (`${o}{`), and the re-lexed
     text contains a prefix token that no table value and no input contains.  Witness (default
     delimiters `${ } :`)

         o = "$"      a = "${o}{a}}${o}{:${o}{a}w"      input  "${:${a}${a}}"

     Both values are delimiter-balanced token lists (indeed templates of the grammar whose literal
     text contains the characters `{`, `}`).  `a` resolves to the CHARACTERS  `${a}}${:${a}w`; in
     key position (`raw n = ":${a}" ++ "w"^n ++ "${a}"`) they are re-lexed, the default part
     `P w^n P` with `P = "${a}}${:${a}w"` is scanned again and contains the new placeholder
     `raw (n+1)` — from here on the run is the one of YtkProofs/ResolverDiverge.lean.
-/
import YtkProofs.ResolverDiverge

namespace Ytk.Resolver

namespace DivR
open Ytk.Resolver.Div

/-- the default delimiters -/
def dd : Delims := ⟨['$', '{'], ['}'], [':']⟩

/-- the table value of `a`: `${o}{a}}${o}{:${o}{a}w` -/
def vR : Toks :=
  phO ++ ([.ch '{', .ch 'a', .suf, .suf] ++ (phO ++ ([.ch '{', .sep] ++ (phO ++ [.ch '{', .ch 'a', .suf, .ch 'w']))))
/-- what it resolves to: the characters `${a}}${:${a}w` (no prefix token) -/
def outC : Toks :=
  [.ch '$', .ch '{', .ch 'a', .suf, .suf, .ch '$', .ch '{', .sep, .ch '$', .ch '{', .ch 'a', .suf, .ch 'w']
def tblR : Table := [(kO, [.ch '$']), (kA, vR)]

theorem tblR_balanced : ∀ kv ∈ tblR, Balanced kv.2 := by
  intro kv h
  simp only [tblR, List.mem_cons, List.not_mem_nil, or_false] at h
  rcases h with rfl | rfl <;> decide

/-! ## re-lexing -/

theorem unlex_append (d : Delims) (a b : Toks) : unlex d (a ++ b) = unlex d a ++ unlex d b := by
  induction a with
  | nil => rfl
  | cons t a ih => simp [unlex, ih]

theorem unlex_ws (n : Nat) : unlex dd (ws n) = List.replicate n 'w' := by
  induction n with
  | zero => rfl
  | succ n ih =>
    have : ws (n + 1) = Tok.ch 'w' :: ws n := by simp [ws, List.replicate_succ]
    rw [this, List.replicate_succ]
    show ['w'] ++ unlex dd (ws n) = _
    rw [ih]; rfl

theorem lex_ws (n : Nat) (cs : List Char) :
    lexAux dd 0 (List.replicate n 'w' ++ cs) = ws n ++ lexAux dd 0 cs := by
  induction n with
  | zero => simp [ws]
  | succ n ih =>
    have e : List.replicate (n + 1) 'w' ++ cs = 'w' :: (List.replicate n 'w' ++ cs) := by
      simp [List.replicate_succ]
    have e' : ws (n + 1) = Tok.ch 'w' :: ws n := by simp [ws, List.replicate_succ]
    rw [e, e', List.cons_append, ← ih]
    rfl

/-- the characters of `outC` lex to `outA` (whatever follows) -/
theorem lex_outC (cs : List Char) : lexAux dd 0 (unlex dd outC ++ cs) = outA ++ lexAux dd 0 cs := by
  simp [outC, outA, tailA, unlex, unlexTok, lexAux, isPrefixOfChars, dd]

theorem relex_raw_out (n : Nat) :
    relex dd (Tok.sep :: (outC ++ (ws n ++ (outC ++ [])))) = Tok.sep :: pv n := by
  have e : unlex dd (Tok.sep :: (outC ++ (ws n ++ (outC ++ [])))) =
      ':' :: (unlex dd outC ++ (List.replicate n 'w' ++ (unlex dd outC ++ []))) := by
    show [':'] ++ unlex dd (outC ++ (ws n ++ (outC ++ []))) = _
    rw [unlex_append, unlex_append, unlex_append, unlex_ws]
    rfl
  unfold relex lex
  rw [e]
  have h1 : lexAux dd 0 (':' :: (unlex dd outC ++ (List.replicate n 'w' ++ (unlex dd outC ++ [])))) =
      Tok.sep :: lexAux dd 0 (unlex dd outC ++ (List.replicate n 'w' ++ (unlex dd outC ++ []))) := by
    simp [lexAux, isPrefixOfChars, dd]
  rw [h1, lex_outC, lex_ws, lex_outC]
  simp [pv, lexAux]

/-! ## what the pieces resolve to (any stack that does not hold `o` / `a`) -/

theorem res_O {seen : List Toks} {rest : Toks} {r : Res} (hO : kO ∉ seen)
    (h : Resolves (relex dd) tblR rest seen r) :
    Resolves (relex dd) tblR (phO ++ rest) seen (r.prepend [Tok.ch '$']) :=
  Resolves.subst (before := []) (firstPh_phO rest) hO (Resolves.plain _ rfl) (pv := [Tok.ch '$'])
    (by decide) (Resolves.plain _ rfl) h

theorem res_vR {seen : List Toks} (hO : kO ∉ seen) : Resolves (relex dd) tblR vR seen (.ok outC) := by
  have h0 : Resolves (relex dd) tblR [Tok.ch '{', .ch 'a', .suf, .ch 'w'] seen (.ok _) :=
    Resolves.plain seen rfl
  have h1 := res_O hO h0
  have h2 := Resolves.text (t := [Tok.ch '{', .sep]) (by simp) h1
  have h3 := res_O hO h2
  have h4 := Resolves.text (t := [Tok.ch '{', .ch 'a', .suf, .suf]) (by simp) h3
  have h5 := res_O hO h4
  exact h5

theorem res_A {seen : List Toks} {rest : Toks} {r : Res} (hA : kA ∉ seen) (hO : kO ∉ seen)
    (h : Resolves (relex dd) tblR rest seen r) :
    Resolves (relex dd) tblR (phA ++ rest) seen (r.prepend outC) := by
  have hO' : kO ∉ seen ++ [kA] := by
    simp only [List.mem_append, List.mem_singleton, not_or]
    exact ⟨hO, by decide⟩
  exact Resolves.subst (before := []) (firstPh_phA rest) hA (Resolves.plain _ rfl) (pv := vR)
    (by decide) (res_vR hO') h

theorem res_raw (n : Nat) {seen : List Toks} (hA : kA ∉ seen) (hO : kO ∉ seen) :
    Resolves (relex dd) tblR (raw n) seen (.ok (Tok.sep :: (outC ++ (ws n ++ (outC ++ []))))) := by
  have h0 : Resolves (relex dd) tblR [] seen (.ok []) := Resolves.plain seen rfl
  have h1 := res_A hA hO h0
  have h2 := Resolves.text (pre_not_mem_ws n) h1
  have h3 := res_A hA hO h2
  have h4 := Resolves.text (t := [Tok.sep]) (by simp) h3
  exact h4

theorem rp_raw (n : Nat) :
    resolvePlaceholder tblR (relex dd (Tok.sep :: (outC ++ (ws n ++ (outC ++ []))))) = some (pv n) := by
  rw [relex_raw_out]
  simp [resolvePlaceholder, Table.get, tblR, kO, kA, findSep]

/-! ## divergence -/

/-- no fuel suffices for `${raw n}` followed by anything, on any stack of earlier texts -/
theorem not_ends : ∀ (f n : Nat) (seen : List Toks) (rest : Toks), SeenOK n seen →
    ¬ Ends (relex dd) tblR f (D n ++ rest) seen := by
  intro f
  induction f with
  | zero => intro n seen rest _; exact not_ends_zero
  | succ f ih =>
    intro n seen rest hok h
    have hraw := hok.raw_not_mem
    have hok' := hok.push
    have hA : kA ∉ seen ++ [raw n] := hok'.short_not_mem rfl
    have hO : kO ∉ seen ++ [raw n] := hok'.short_not_mem rfl
    -- the default `pv n` (re-lexed!) is expanded with fuel `f`
    have h1 : Ends (relex dd) tblR f (pv n) (seen ++ [raw n]) :=
      h.value (firstPh_D n rest) hraw (res_raw n hA hO) (rp_raw n)
    rw [pv_eq] at h1
    cases f with
    | zero => exact not_ends_zero h1
    | succ f =>
      have hO' : kO ∉ (seen ++ [raw n]) ++ [kA] := by
        simp only [List.mem_append, List.mem_singleton, not_or] at hO ⊢
        exact ⟨hO, by decide⟩
      have h2 : Ends (relex dd) tblR f ([Tok.suf] ++ (D (n + 1) ++ tailA)) (seen ++ [raw n]) :=
        h1.rest (firstPh_phA _) hA (Resolves.plain _ rfl) (pv := vR) (by decide) (res_vR hO')
      have h3 : Ends (relex dd) tblR f (D (n + 1) ++ tailA) (seen ++ [raw n]) := h2.text (by simp)
      exact ih (n + 1) _ _ hok' (h3.mono (Nat.le_succ f))

theorem diverges (f : Nat) : resolveTop (relex dd) f tblR (D 0) = .outOfFuel := by
  have := not_ends f 0 [] [] (by intro x hx; cases hx)
  simpa [Ends, resolveTop] using this

end DivR
end Ytk.Resolver
