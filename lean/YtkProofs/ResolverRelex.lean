/-
  YtkProofs.ResolverRelex — the resolver model under the REAL `norm` (`relex d` = re-lexing of the
  resolved placeholder text, as the driver passes it).

  1. Termination for delimiter-balanced tables (`resolves_balanced`, proved for `norm = id`) does
     NOT carry over to `norm = relex d`: a value may contribute ONE HALF of a delimiter as plain
     text (`o = "$"`), the other half stands next to the placeholder (`${o}{`), and the re-lexed
     text contains a prefix token that no table value and no input contains.  Witness (default
     delimiters `${ } :`)

         o = "$"      a = "${o}{a}}${o}{:${o}{a}w"      input  "${:${a}${a}}"

     Both values are delimiter-balanced token lists (indeed templates of the grammar whose literal
     text contains the characters `{`, `}`).  `a` resolves to the CHARACTERS  `${a}}${:${a}w`; in
     key position (`raw n = ":${a}" ++ "w"^n ++ "${a}"`) they are re-lexed, the default part
     `P w^n P` with `P = "${a}}${:${a}w"` is scanned again and contains the new placeholder
     `raw (n+1)` — from here on the run is the one of YtkProofs/ResolverDiverge.lean.

  2. What DOES carry over: on every token alphabet on which `norm` is the identity the resolver
     does not depend on `norm` at all (`resolve_norm_eq_id`); for `norm = relex d` such an alphabet
     is: the three delimiter tokens and every character that is not the FIRST character of a
     delimiter, provided the delimiters are non-empty and start with three different characters
     (`relex_clean`).  Hence termination for balanced tables over that alphabet
     (`resolves_balanced_relex`), and every `norm = id` theorem transfers.
-/
import YtkProofs.ResolverDiverge
import YtkProofs.ResolverTerm

namespace Ytk.Resolver

/-! ## norm-stable alphabets: `norm` is irrelevant -/

/-- all tokens of `t` belong to the alphabet `A` -/
def Over (A : Tok → Prop) (t : Toks) : Prop := ∀ x ∈ t, A x

theorem Over.append {A : Tok → Prop} {a b : Toks} (ha : Over A a) (hb : Over A b) : Over A (a ++ b) := by
  intro x hx
  rcases List.mem_append.mp hx with h | h
  · exact ha x h
  · exact hb x h

theorem Over.cons {A : Tok → Prop} {x : Tok} {b : Toks} (ha : A x) (hb : Over A b) : Over A (x :: b) := by
  intro y hy
  rcases List.mem_cons.mp hy with rfl | h
  · exact ha
  · exact hb y h

theorem Over.left {A : Tok → Prop} {a b : Toks} (h : Over A (a ++ b)) : Over A a :=
  fun x hx => h x (List.mem_append_left _ hx)

theorem Over.right {A : Tok → Prop} {a b : Toks} (h : Over A (a ++ b)) : Over A b :=
  fun x hx => h x (List.mem_append_right _ hx)

theorem Over.tail {A : Tok → Prop} {x : Tok} {b : Toks} (h : Over A (x :: b)) : Over A b :=
  fun y hy => h y (List.mem_cons_of_mem _ hy)

theorem Over.head {A : Tok → Prop} {x : Tok} {b : Toks} (h : Over A (x :: b)) : A x :=
  h x (List.mem_cons_self ..)

/-- the value a placeholder is replaced by stays inside the alphabet -/
theorem over_value {A : Tok → Prop} {tbl : Table} (hT : ∀ kv ∈ tbl, Over A kv.2) {ph' pv : Toks}
    (h : Over A ph') (hp : resolvePlaceholder tbl ph' = some pv) : Over A pv := by
  rcases resolvePlaceholder_cases hp with ⟨k, hk⟩ | ⟨k, hk⟩
  · exact hT _ hk
  · have e := findSep_some hk
    rw [e] at h
    exact h.right.tail

/-- If `norm` is the identity on every token list over the alphabet `A`, and the table values and
    the input are over `A`, the resolver with `norm` IS the resolver with `id` (same fuel, every
    stack), and its outputs are over `A` again. -/
theorem resolve_norm_eq_id {norm : Toks → Toks} {tbl : Table} {A : Tok → Prop}
    (hA : ∀ t, Over A t → norm t = t) (hT : ∀ kv ∈ tbl, Over A kv.2) :
    ∀ (n : Nat) (s : Toks) (seen : List Toks), Over A s →
      resolve norm n tbl s seen = resolve id n tbl s seen ∧
      ∀ t, resolve id n tbl s seen = .ok t → Over A t := by
  intro n
  induction n with
  | zero => intro s seen _; exact ⟨rfl, fun t e => by simp at e⟩
  | succ n ih =>
    intro s seen hs
    cases hf : firstPh s with
    | none =>
      rw [resolve_succ_none n seen hf, resolve_succ_none n seen hf]
      exact ⟨rfl, fun t e => by cases e; exact hs⟩
    | some p =>
      obtain ⟨before, ph, after⟩ := p
      obtain ⟨hse, _, _⟩ := firstPh_eq hf
      rw [hse] at hs
      have hbefore : Over A before := hs.left
      have hpre : A Tok.pre := hs.right.head
      have hph : Over A ph := hs.right.tail.left
      have hsuf : A Tok.suf := hs.right.tail.right.head
      have hafter : Over A after := hs.right.tail.right.tail
      by_cases hc : ph ∈ seen
      · rw [resolve_succ_here n hf hc, resolve_succ_here n hf hc]
        exact ⟨rfl, fun t e => by cases e⟩
      · rw [resolve_succ_some n hf hc, resolve_succ_some n hf hc]
        unfold body
        obtain ⟨e1, o1⟩ := ih ph (seen ++ [ph]) hph
        obtain ⟨e3, o3⟩ := ih after seen hafter
        rw [e1, e3]
        cases h1 : resolve id n tbl ph (seen ++ [ph]) with
        | outOfFuel => exact ⟨rfl, fun t e => by cases e⟩
        | cycle o => exact ⟨rfl, fun t e => by cases e⟩
        | ok ph' =>
          have hph' : Over A ph' := o1 ph' h1
          simp only [hA ph' hph', id]
          cases hp : resolvePlaceholder tbl ph' with
          | none =>
            simp only
            refine ⟨trivial, fun t e => ?_⟩
            obtain ⟨t', ht', rfl⟩ := prepend_eq_ok e
            have e' : before ++ Tok.pre :: ph ++ [Tok.suf] ++ t' =
                before ++ Tok.pre :: (ph ++ Tok.suf :: t') := by simp
            rw [e']
            exact hbefore.append (.cons hpre (hph.append (.cons hsuf (o3 t' ht'))))
          | some pv =>
            simp only
            have hpv : Over A pv := over_value hT hph' hp
            obtain ⟨e2, o2⟩ := ih pv (seen ++ [ph]) hpv
            rw [e2]
            cases h2 : resolve id n tbl pv (seen ++ [ph]) with
            | outOfFuel => exact ⟨rfl, fun t e => by cases e⟩
            | cycle o => exact ⟨rfl, fun t e => by cases e⟩
            | ok pv' =>
              simp only
              refine ⟨trivial, fun t e => ?_⟩
              obtain ⟨t', ht', rfl⟩ := prepend_eq_ok e
              exact (hbefore.append (o2 pv' h2)).append (o3 t' ht')

/-- termination for balanced tables under ANY `norm` that is the identity on an alphabet that
    contains the table values and the input -/
theorem resolves_balanced_of_stable {norm : Toks → Toks} {tbl : Table} {A : Tok → Prop}
    (hA : ∀ t, Over A t → norm t = t) (hT : ∀ kv ∈ tbl, Over A kv.2)
    (hb : ∀ kv ∈ tbl, Balanced kv.2) (s : Toks) (seen : List Toks) (hs : Over A s) :
    ∃ r, Resolves norm tbl s seen r := by
  obtain ⟨r, n, hn, hr⟩ := resolves_balanced tbl hb s seen
  exact ⟨r, n, by rw [(resolve_norm_eq_id hA hT n s seen hs).1, hn], hr⟩

/-! ## the alphabet on which re-lexing is the identity -/

/-- the delimiters are non-empty and start with three different characters (true of the builder
    defaults `${ } :` and of every triple of the harness: `#{ } |`, `<< >> ::`, `%( ) ?`) -/
def Delims.LexOK (d : Delims) : Prop :=
  match d.pre, d.suf, d.sep with
  | a :: _, b :: _, c :: _ => a ≠ b ∧ a ≠ c ∧ b ≠ c
  | _, _, _ => False

instance (d : Delims) : Decidable d.LexOK := by
  unfold Delims.LexOK
  split
  · exact inferInstanceAs (Decidable (_ ∧ _))
  · exact isFalse id

/-- the first characters of the delimiters -/
def Delims.firsts (d : Delims) : List Char :=
  d.pre.head?.toList ++ (d.suf.head?.toList ++ d.sep.head?.toList)

/-- a delimiter token, or a character that does not start a delimiter ("no partial delimiter":
    a lone `$` is excluded for `${`, a lone `<` for `<<`; `{` after `$`-free text is fine) -/
def CleanTok (d : Delims) : Tok → Prop
  | .ch c => c ∉ d.firsts
  | _ => True

instance (d : Delims) (t : Tok) : Decidable (CleanTok d t) := by
  cases t <;> unfold CleanTok
  · exact isTrue trivial
  · exact isTrue trivial
  · exact isTrue trivial
  · exact inferInstanceAs (Decidable (¬ _))

instance (d : Delims) (t : Toks) : Decidable (Over (CleanTok d) t) :=
  inferInstanceAs (Decidable (∀ x ∈ t, _))

theorem isPrefixOfChars_self (a r : List Char) : isPrefixOfChars a (a ++ r) = true := by
  induction a with
  | nil => cases r <;> rfl
  | cons x a ih => simp [isPrefixOfChars, ih]

theorem lexAux_skip (d : Delims) (a r : List Char) : lexAux d a.length (a ++ r) = lexAux d 0 r := by
  induction a with
  | nil => rfl
  | cons x a ih => simpa [lexAux] using ih

/-- one token is lexed back from its rendering, whatever follows -/
theorem lex_unlexTok {d : Delims} (hd : d.LexOK) {t : Tok} (ht : CleanTok d t) (r : List Char) :
    lexAux d 0 (unlexTok d t ++ r) = t :: lexAux d 0 r := by
  obtain ⟨pre, suf, sep⟩ := d
  cases pre with
  | nil => simp [Delims.LexOK] at hd
  | cons a as =>
    cases suf with
    | nil => simp [Delims.LexOK] at hd
    | cons b bs =>
      cases sep with
      | nil => simp [Delims.LexOK] at hd
      | cons c cs =>
        simp only [Delims.LexOK] at hd
        obtain ⟨hab, hac, hbc⟩ := hd
        cases t with
        | pre =>
          have := lexAux_skip ⟨a :: as, b :: bs, c :: cs⟩ as r
          simp [unlexTok, lexAux, isPrefixOfChars, isPrefixOfChars_self, this]
        | suf =>
          have := lexAux_skip ⟨a :: as, b :: bs, c :: cs⟩ bs r
          simp [unlexTok, lexAux, isPrefixOfChars, isPrefixOfChars_self, this, hab]
        | sep =>
          have := lexAux_skip ⟨a :: as, b :: bs, c :: cs⟩ cs r
          simp [unlexTok, lexAux, isPrefixOfChars, isPrefixOfChars_self, this, hac, hbc]
        | ch x =>
          simp only [CleanTok, Delims.firsts, List.head?_cons, Option.toList_some, List.cons_append,
            List.nil_append, List.mem_cons, List.not_mem_nil, or_false, not_or] at ht
          obtain ⟨h1, h2, h3⟩ := ht
          simp [unlexTok, lexAux, isPrefixOfChars, Ne.symm h1, Ne.symm h2, Ne.symm h3]

/-- re-lexing is the identity on clean token lists -/
theorem relex_clean {d : Delims} (hd : d.LexOK) : ∀ t, Over (CleanTok d) t → relex d t = t := by
  intro t
  induction t with
  | nil => intro _; rfl
  | cons x t ih =>
    intro h
    have := lex_unlexTok hd h.head (unlex d t)
    unfold relex lex at ih ⊢
    rw [unlex, this, ih h.tail]

/-- the resolver under the real `norm` is the resolver under `id` on clean inputs -/
theorem resolve_relex_eq_id {d : Delims} (hd : d.LexOK) {tbl : Table}
    (hT : ∀ kv ∈ tbl, Over (CleanTok d) kv.2) (n : Nat) (s : Toks) (seen : List Toks)
    (hs : Over (CleanTok d) s) : resolve (relex d) n tbl s seen = resolve id n tbl s seen :=
  (resolve_norm_eq_id (relex_clean hd) hT n s seen hs).1

/-- TERMINATION under the real `norm` for balanced clean tables: every clean input, every stack -/
theorem resolves_balanced_relex {d : Delims} (hd : d.LexOK) {tbl : Table}
    (hb : ∀ kv ∈ tbl, Balanced kv.2) (hT : ∀ kv ∈ tbl, Over (CleanTok d) kv.2)
    (s : Toks) (seen : List Toks) (hs : Over (CleanTok d) s) :
    ∃ r, Resolves (relex d) tbl s seen r :=
  resolves_balanced_of_stable (relex_clean hd) hT hb s seen hs

namespace DivR
open Ytk.Resolver.Div

/-- the default delimiters -/
def dd : Delims := ⟨['$', '{'], ['}'], [':']⟩

/-- the table value of `a`: `${o}{a}}${o}{:${o}{a}w` -/
def vR : Toks :=
  phO ++ ([.ch '{', .ch 'a', .suf, .suf] ++ (phO ++ ([.ch '{', .sep] ++ (phO ++ [.ch '{', .ch 'a', .suf, .ch 'w']))))
/-- what it resolves to: the characters `${a}}${:${a}w` (no prefix token) -/
def outC : Toks :=
  [.ch '$', .ch '{', .ch 'a', .suf, .suf, .ch '$', .ch '{', .sep, .ch '$', .ch '{', .ch 'a', .suf, .ch 'w']
def tblR : Table := [(kO, [.ch '$']), (kA, vR)]

theorem tblR_balanced : ∀ kv ∈ tblR, Balanced kv.2 := by
  intro kv h
  simp only [tblR, List.mem_cons, List.not_mem_nil, or_false] at h
  rcases h with rfl | rfl <;> decide

/-! ## re-lexing -/

theorem unlex_append (d : Delims) (a b : Toks) : unlex d (a ++ b) = unlex d a ++ unlex d b := by
  induction a with
  | nil => rfl
  | cons t a ih => simp [unlex, ih]

theorem unlex_ws (n : Nat) : unlex dd (ws n) = List.replicate n 'w' := by
  induction n with
  | zero => rfl
  | succ n ih =>
    have : ws (n + 1) = Tok.ch 'w' :: ws n := by simp [ws, List.replicate_succ]
    rw [this, List.replicate_succ]
    show ['w'] ++ unlex dd (ws n) = _
    rw [ih]; rfl

theorem lex_ws (n : Nat) (cs : List Char) :
    lexAux dd 0 (List.replicate n 'w' ++ cs) = ws n ++ lexAux dd 0 cs := by
  induction n with
  | zero => simp [ws]
  | succ n ih =>
    have e : List.replicate (n + 1) 'w' ++ cs = 'w' :: (List.replicate n 'w' ++ cs) := by
      simp [List.replicate_succ]
    have e' : ws (n + 1) = Tok.ch 'w' :: ws n := by simp [ws, List.replicate_succ]
    rw [e, e', List.cons_append, ← ih]
    rfl

/-- the characters of `outC` lex to `outA` (whatever follows) -/
theorem lex_outC (cs : List Char) : lexAux dd 0 (unlex dd outC ++ cs) = outA ++ lexAux dd 0 cs := by
  simp [outC, outA, tailA, unlex, unlexTok, lexAux, isPrefixOfChars, dd]

theorem relex_raw_out (n : Nat) :
    relex dd (Tok.sep :: (outC ++ (ws n ++ (outC ++ [])))) = Tok.sep :: pv n := by
  have e : unlex dd (Tok.sep :: (outC ++ (ws n ++ (outC ++ [])))) =
      ':' :: (unlex dd outC ++ (List.replicate n 'w' ++ (unlex dd outC ++ []))) := by
    show [':'] ++ unlex dd (outC ++ (ws n ++ (outC ++ []))) = _
    rw [unlex_append, unlex_append, unlex_append, unlex_ws]
    rfl
  unfold relex lex
  rw [e]
  have h1 : lexAux dd 0 (':' :: (unlex dd outC ++ (List.replicate n 'w' ++ (unlex dd outC ++ [])))) =
      Tok.sep :: lexAux dd 0 (unlex dd outC ++ (List.replicate n 'w' ++ (unlex dd outC ++ []))) := by
    simp [lexAux, isPrefixOfChars, dd]
  rw [h1, lex_outC, lex_ws, lex_outC]
  simp [pv, lexAux]

/-! ## what the pieces resolve to (any stack that does not hold `o` / `a`) -/

theorem res_O {seen : List Toks} {rest : Toks} {r : Res} (hO : kO ∉ seen)
    (h : Resolves (relex dd) tblR rest seen r) :
    Resolves (relex dd) tblR (phO ++ rest) seen (r.prepend [Tok.ch '$']) :=
  Resolves.subst (before := []) (firstPh_phO rest) hO (Resolves.plain _ rfl) (pv := [Tok.ch '$'])
    (by decide) (Resolves.plain _ rfl) h

theorem res_vR {seen : List Toks} (hO : kO ∉ seen) : Resolves (relex dd) tblR vR seen (.ok outC) := by
  have h0 : Resolves (relex dd) tblR [Tok.ch '{', .ch 'a', .suf, .ch 'w'] seen (.ok _) :=
    Resolves.plain seen rfl
  have h1 := res_O hO h0
  have h2 := Resolves.text (t := [Tok.ch '{', .sep]) (by simp) h1
  have h3 := res_O hO h2
  have h4 := Resolves.text (t := [Tok.ch '{', .ch 'a', .suf, .suf]) (by simp) h3
  have h5 := res_O hO h4
  exact h5

theorem res_A {seen : List Toks} {rest : Toks} {r : Res} (hA : kA ∉ seen) (hO : kO ∉ seen)
    (h : Resolves (relex dd) tblR rest seen r) :
    Resolves (relex dd) tblR (phA ++ rest) seen (r.prepend outC) := by
  have hO' : kO ∉ seen ++ [kA] := by
    simp only [List.mem_append, List.mem_singleton, not_or]
    exact ⟨hO, by decide⟩
  exact Resolves.subst (before := []) (firstPh_phA rest) hA (Resolves.plain _ rfl) (pv := vR)
    (by decide) (res_vR hO') h

theorem res_raw (n : Nat) {seen : List Toks} (hA : kA ∉ seen) (hO : kO ∉ seen) :
    Resolves (relex dd) tblR (raw n) seen (.ok (Tok.sep :: (outC ++ (ws n ++ (outC ++ []))))) := by
  have h0 : Resolves (relex dd) tblR [] seen (.ok []) := Resolves.plain seen rfl
  have h1 := res_A hA hO h0
  have h2 := Resolves.text (pre_not_mem_ws n) h1
  have h3 := res_A hA hO h2
  have h4 := Resolves.text (t := [Tok.sep]) (by simp) h3
  exact h4

theorem rp_raw (n : Nat) :
    resolvePlaceholder tblR (relex dd (Tok.sep :: (outC ++ (ws n ++ (outC ++ []))))) = some (pv n) := by
  rw [relex_raw_out]
  simp [resolvePlaceholder, Table.get, tblR, kO, kA, findSep]

/-! ## divergence -/

/-- no fuel suffices for `${raw n}` followed by anything, on any stack of earlier texts -/
theorem not_ends : ∀ (f n : Nat) (seen : List Toks) (rest : Toks), SeenOK n seen →
    ¬ Ends (relex dd) tblR f (D n ++ rest) seen := by
  intro f
  induction f with
  | zero => intro n seen rest _; exact not_ends_zero
  | succ f ih =>
    intro n seen rest hok h
    have hraw := hok.raw_not_mem
    have hok' := hok.push
    have hA : kA ∉ seen ++ [raw n] := hok'.short_not_mem rfl
    have hO : kO ∉ seen ++ [raw n] := hok'.short_not_mem rfl
    -- the default `pv n` (re-lexed!) is expanded with fuel `f`
    have h1 : Ends (relex dd) tblR f (pv n) (seen ++ [raw n]) :=
      h.value (firstPh_D n rest) hraw (res_raw n hA hO) (rp_raw n)
    rw [pv_eq] at h1
    cases f with
    | zero => exact not_ends_zero h1
    | succ f =>
      have hO' : kO ∉ (seen ++ [raw n]) ++ [kA] := by
        simp only [List.mem_append, List.mem_singleton, not_or] at hO ⊢
        exact ⟨hO, by decide⟩
      have h2 : Ends (relex dd) tblR f ([Tok.suf] ++ (D (n + 1) ++ tailA)) (seen ++ [raw n]) :=
        h1.rest (firstPh_phA _) hA (Resolves.plain _ rfl) (pv := vR) (by decide) (res_vR hO')
      have h3 : Ends (relex dd) tblR f (D (n + 1) ++ tailA) (seen ++ [raw n]) := h2.text (by simp)
      exact ih (n + 1) _ _ hok' (h3.mono (Nat.le_succ f))

theorem diverges (f : Nat) : resolveTop (relex dd) f tblR (D 0) = .outOfFuel := by
  have := not_ends f 0 [] [] (by intro x hx; cases hx)
  simpa [Ends, resolveTop] using this

end DivR
end Ytk.Resolver
