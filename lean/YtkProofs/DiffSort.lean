/- sortMods is a stable sort by path: permutation, sortedness, stability, and the fact that
   its result is determined by the multiset together with the order of equal-path elements. -/
import YtkModel.Diff

namespace Ytk

theorem String.le_of_lt' {a b : String} (h : a < b) : a ≤ b := String.not_lt.mp (String.lt_asymm h)

/-- non-decreasing paths -/
def PathSorted (ms : List Mod) : Prop := ms.Pairwise (fun a b => a.path ≤ b.path)

theorem insertMod_perm (m : Mod) (xs : List Mod) : (insertMod m xs).Perm (m :: xs) := by
  induction xs with
  | nil => exact List.Perm.refl _
  | cons x xs ih =>
    simp only [insertMod]
    split
    · exact ((List.Perm.cons x ih).trans (List.Perm.swap m x xs))
    · exact List.Perm.refl _

theorem sortMods_perm (ms : List Mod) : (sortMods ms).Perm ms := by
  induction ms with
  | nil => exact List.Perm.refl _
  | cons m ms ih => exact (insertMod_perm m _).trans (List.Perm.cons m ih)

theorem mem_sortMods {m : Mod} {ms : List Mod} : m ∈ sortMods ms ↔ m ∈ ms :=
  (sortMods_perm ms).mem_iff

theorem sortMods_eq_nil {ms : List Mod} : sortMods ms = [] ↔ ms = [] := by
  constructor
  · intro h
    have := sortMods_perm ms
    rw [h] at this
    exact List.Perm.eq_nil this.symm
  · intro h; subst h; rfl

theorem insertMod_sorted (m : Mod) {xs : List Mod} (h : PathSorted xs) : PathSorted (insertMod m xs) := by
  induction xs with
  | nil => simp [insertMod, PathSorted]
  | cons x xs ih =>
    simp only [insertMod]
    have hx := List.pairwise_cons.mp h
    split
    · rename_i hlt
      refine List.pairwise_cons.mpr ⟨?_, ih hx.2⟩
      intro a ha
      rcases List.mem_cons.mp ((insertMod_perm m xs).mem_iff.mp ha) with rfl | ha
      · exact String.le_of_lt' hlt
      · exact hx.1 a ha
    · rename_i hnlt
      have hmx : m.path ≤ x.path := String.not_lt.mp hnlt
      refine List.pairwise_cons.mpr ⟨?_, h⟩
      intro a ha
      rcases List.mem_cons.mp ha with rfl | ha
      · exact hmx
      · exact String.le_trans hmx (hx.1 a ha)

theorem sortMods_sorted (ms : List Mod) : PathSorted (sortMods ms) := by
  induction ms with
  | nil => exact List.Pairwise.nil
  | cons m ms ih => exact insertMod_sorted m ih

/-- stability, one insertion: the elements of any one path keep their order, `m` first -/
theorem insertMod_filter (q : String) (m : Mod) (xs : List Mod) :
    (insertMod m xs).filter (fun x => x.path = q) = (m :: xs).filter (fun x => x.path = q) := by
  induction xs with
  | nil => rfl
  | cons x xs ih =>
    simp only [insertMod]
    split
    · rename_i hlt
      rw [List.filter_cons, ih]
      by_cases hm : m.path = q
      · have hx : ¬ x.path = q := by
          intro e; rw [e, ← hm] at hlt; exact String.lt_irrefl _ hlt
        simp [hm, hx]
      · simp [List.filter_cons, hm]
    · rfl

/-- stability: sorting keeps, for every path, the sub-sequence of that path as emitted -/
theorem sortMods_filter (q : String) (ms : List Mod) :
    (sortMods ms).filter (fun x => x.path = q) = ms.filter (fun x => x.path = q) := by
  induction ms with
  | nil => rfl
  | cons m ms ih =>
    simp only [sortMods]
    rw [insertMod_filter, List.filter_cons, ih, List.filter_cons]

/-- A path-sorted list is the concatenation of its per-path sub-sequences in path order, hence
    determined by them: two sorted lists with the same per-path sub-sequences are equal. -/
theorem eq_of_sorted_of_filter_eq : ∀ {xs ys : List Mod}, PathSorted xs → PathSorted ys →
    (∀ q, xs.filter (fun x => x.path = q) = ys.filter (fun x => x.path = q)) → xs = ys
  | [], [], _, _, _ => rfl
  | [], y :: ys, _, _, h => by
    have := h y.path
    simp at this
  | x :: xs, [], _, _, h => by
    have := h x.path
    simp at this
  | x :: xs, y :: ys, hx, hy, h => by
    have hx' := List.pairwise_cons.mp hx
    have hy' := List.pairwise_cons.mp hy
    -- the heads have the same path: otherwise the smaller one is missing on the other side
    have hp : x.path = y.path := by
      rcases String.lt_trichotomy x.path y.path with hlt | heq | hgt
      · exfalso
        have h1 := h x.path
        have : x ∈ (y :: ys).filter (fun z => z.path = x.path) := by
          rw [← h1]; simp
        have hm := (List.mem_filter.mp this).1
        rcases List.mem_cons.mp hm with rfl | hm
        · exact String.lt_irrefl _ hlt
        · exact String.not_lt.mpr (hy'.1 x hm) hlt
      · exact heq
      · exfalso
        have h1 := h y.path
        have : y ∈ (x :: xs).filter (fun z => z.path = y.path) := by
          rw [h1]; simp
        have hm := (List.mem_filter.mp this).1
        rcases List.mem_cons.mp hm with rfl | hm
        · exact String.lt_irrefl _ hgt
        · exact String.not_lt.mpr (hx'.1 y hm) hgt
    have hxy : x = y := by
      have h1 := h x.path
      simp only [List.filter_cons, decide_true, if_true, hp] at h1
      simpa using (List.cons.inj h1).1
    subst hxy
    congr 1
    apply eq_of_sorted_of_filter_eq hx'.2 hy'.2
    intro q
    have h1 := h q
    simp only [List.filter_cons] at h1
    split at h1
    · exact (List.cons.inj h1).2
    · exact h1

/-- The stable sort depends only on the per-path sub-sequences of its input. -/
theorem sortMods_congr {xs ys : List Mod}
    (h : ∀ q, xs.filter (fun x => x.path = q) = ys.filter (fun x => x.path = q)) :
    sortMods xs = sortMods ys := by
  apply eq_of_sorted_of_filter_eq (sortMods_sorted xs) (sortMods_sorted ys)
  intro q
  rw [sortMods_filter, sortMods_filter, h q]

end Ytk
