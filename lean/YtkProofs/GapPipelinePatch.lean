/-
  YtkProofs.GapPipelinePatch — the pipeline patch op over C09's interpreter: the RFC reference keeps a
  container root a container, so nothing is lost by reading the new data off the resulting root.
-/
import YtkModel.GapPipelinePatch
import YtkProofs.Patch
import YtkProofs.PipelineData

namespace Ytk.PD
open Ytk.Ptr Ytk.Patch

def IsCont (n : Node) : Prop := ∃ k, n = .cont k

theorem modify_cont (f : Node → String → Option Node)
    (hf : ∀ kvs t r, f (.cont kvs) t = some r → IsCont r) (kvs : AMap Node) (p : Path) (r : Node)
    (h : Patch.modify f (.cont kvs) p = some r) : IsCont r := by
  match p, h with
  | [], h => simp [Patch.modify] at h
  | [t], h => exact hf kvs t r (by simpa [Patch.modify] using h)
  | t :: t2 :: ts, h =>
    simp only [Patch.modify] at h
    split at h
    · simp only [Option.map_eq_some_iff] at h
      obtain ⟨c', _, rfl⟩ := h
      exact ⟨_, rfl⟩
    · cases h

theorem addLast_cont (v : Node) (kvs : AMap Node) (t : String) (r : Node)
    (h : addLast (.cont kvs) t v = some r) : IsCont r := by
  simp only [addLast, Option.some.injEq] at h; exact ⟨_, h.symm⟩

theorem removeLast_cont (kvs : AMap Node) (t : String) (r : Node)
    (h : removeLast (.cont kvs) t = some r) : IsCont r := by
  simp only [removeLast] at h
  split at h
  · cases h; exact ⟨_, rfl⟩
  · cases h

theorem replaceLast_cont (v : Node) (kvs : AMap Node) (t : String) (r : Node)
    (h : replaceLast (.cont kvs) t v = some r) : IsCont r := by
  simp only [replaceLast] at h
  split at h
  · cases h; exact ⟨_, rfl⟩
  · cases h

theorem rAdd_cont {kvs : AMap Node} {p : Path} {v r : Node} (h : rAdd (.cont kvs) p v = some r) : IsCont r :=
  modify_cont _ (addLast_cont v) kvs p r h

theorem rRemove_cont {kvs : AMap Node} {p : Path} {r : Node} (h : rRemove (.cont kvs) p = some r) : IsCont r :=
  modify_cont _ removeLast_cont kvs p r h

theorem rReplace_cont {kvs : AMap Node} {p : Path} {v r : Node} (h : rReplace (.cont kvs) p v = some r) :
    IsCont r :=
  modify_cont _ (replaceLast_cont v) kvs p r h

/-- the RFC reference keeps a container root a container -/
theorem rfc6902_cont (o : OpObj) (kvs : AMap Node) (r : Node) (h : rfc6902 o (.cont kvs) = some r) :
    IsCont r := by
  unfold rfc6902 at h
  split at h
  · cases h
  · split at h
    · split at h
      · exact rAdd_cont h
      · cases h
    · split at h
      · exact rRemove_cont h
      · split at h
        · split at h
          · exact rReplace_cont h
          · cases h
        · split at h
          · split at h
            · split at h
              · split at h
                · cases h
                · split at h
                  · rename_i d1 hd1
                    obtain ⟨k1, rfl⟩ := rRemove_cont hd1
                    exact rAdd_cont h
                  · cases h
              · cases h
            · cases h
          · split at h
            · split at h
              · split at h
                · exact rAdd_cont h
                · cases h
              · cases h
            · split at h
              · split at h
                · split at h
                  · split at h
                    · cases h; exact ⟨_, rfl⟩
                    · cases h
                  · cases h
                · cases h
              · cases h

/-- in C09's domain the pipeline's patch.Do is the RFC reference, read off the container root -/
theorem c09PatchDo_eq_rfc (c : PatchCall Path) (data : AMap Node) (ho : OpOk (c09Obj c))
    (hd : (Node.cont data).Valid) :
    c09PatchDo c data = match rfc6902 (c09Obj c) (.cont data) with
      | some (.cont d') => (d', false)
      | _ => (data, true) := by
  simp only [c09PatchDo, patchDo_refines ho hd]
  cases h : rfc6902 (c09Obj c) (.cont data) with
  | none => rfl
  | some r =>
    obtain ⟨k, rfl⟩ := rfc6902_cont _ _ _ h
    rfl

/-- … and nothing is lost by the conversion: C09's interpreter returns exactly the container of the new data
    and `ok` / `err` according to the flag (never `panic`) -/
theorem patchDo_eq_c09PatchDo (c : PatchCall Path) (data : AMap Node) (ho : OpOk (c09Obj c))
    (hd : (Node.cont data).Valid) :
    Patch.patchDo (c09Obj c) (.cont data) =
      (.cont (c09PatchDo c data).1, if (c09PatchDo c data).2 then .err else .ok ()) := by
  rw [c09PatchDo_eq_rfc c data ho hd, patchDo_refines ho hd]
  cases h : rfc6902 (c09Obj c) (.cont data) with
  | none => rfl
  | some r =>
    obtain ⟨k, rfl⟩ := rfc6902_cont _ _ _ h
    rfl

theorem c09PatchDo_error_unchanged (c : PatchCall Path) (data : AMap Node) (ho : OpOk (c09Obj c))
    (hd : (Node.cont data).Valid) (he : (c09PatchDo c data).2 = true) : (c09PatchDo c data).1 = data := by
  rw [c09PatchDo_eq_rfc c data ho hd] at he ⊢
  cases h : rfc6902 (c09Obj c) (.cont data) with
  | none => rfl
  | some r =>
    obtain ⟨k, rfl⟩ := rfc6902_cont _ _ _ h
    rw [h] at he; cases he

theorem c09PatchDo_valid (c : PatchCall Path) (data : AMap Node) (ho : OpOk (c09Obj c))
    (hd : (Node.cont data).Valid) : (Node.cont (c09PatchDo c data).1).Valid := by
  rw [c09PatchDo_eq_rfc c data ho hd]
  cases h : rfc6902 (c09Obj c) (.cont data) with
  | none => exact hd
  | some r =>
    obtain ⟨k, rfl⟩ := rfc6902_cont _ _ _ h
    exact rfc6902_valid ho hd h

/-- the fields of the call PatchOp.Do builds, with `patch.ParsePath` for the paths -/
theorem patchArgs_fields {P : Type} (parsePath : String → Option P) (lenient : String → String)
    (ps : PatchSpec) (data : AMap Node) (call : PatchCall P)
    (h : patchArgs parsePath lenient ps data = some call) :
    call.op = ps.op ∧ parsePath (lenient ps.path) = some call.path ∧
    call.from_ = (if ps.from_ = "" then none else parsePath ps.from_) ∧
    call.value = (match ps.value with
      | some v => some v
      | none => match ps.valueFrom with
        | some vf => lookup data (lenient vf)
        | none => none) := by
  simp only [patchArgs] at h
  split at h
  · cases h
  · rename_i path hpath
    split at h
    · rename_i hne
      split at h
      · cases h
      · rename_i f hf
        cases h
        simp only [hpath, hf, hne, if_false, true_and]
        cases ps.value <;> cases ps.valueFrom <;> simp
    · rename_i he
      cases h
      simp at he
      simp only [hpath, he, if_true, true_and]
      cases ps.value <;> cases ps.valueFrom <;> simp

end Ytk.PD
