/-
  Lemmas about YtkModel/OpsExt.lean (ExecOp, TemplateFileOp, Html2DomOp / convertHtmlNode2Dom,
  ValOrRef decoding) used by the C13 theorems.
-/
import YtkModel.OpsExt
import YtkProofs.PipelineFrame
import YtkProofs.Dom

namespace Ytk.OpsExt
open Ytk.PD

/-! ## ExecOp -/

/-- the arguments `cmd.Run()` is called with -/
def execCall (lenient : String → String) (os : ExecOS) (e : ExecSpec) : ProcResult :=
  os.runProc (lenient e.program) ((e.args.getD []).map lenient) (lenient e.dir)

/-- every configured output file can be opened -/
def execOpens (lenient : String → String) (os : ExecOS) (e : ExecSpec) : Prop :=
  (∀ p, e.stdout = some p → os.canOpen (lenient p) = true) ∧
  (∀ p, e.stderr = some p → os.canOpen (lenient p) = true)

theorem any_not_false_of_opens {lenient : String → String} {canOpen : String → Bool} {o : Option String}
    (h : ∀ p, o = some p → canOpen (lenient p) = true) :
    (o.map lenient).any (fun p => !canOpen p) = false := by
  cases o with
  | none => rfl
  | some p => simp [h p rfl]

/-- what ExecOp does once the output files are open: by cases on the result of Run -/
theorem execOp_of_opens (lenient : String → String) (os : ExecOS) (e : ExecSpec) (data : AMap Node)
    (ho : execOpens lenient os e) :
    execOp lenient os e data =
      match execCall lenient os e with
      | .startFail => ⟨true, data, false, execFiles (e.stdout.map lenient) (e.stderr.map lenient) [] [],
          [[execLogLine (lenient e.program) (lenient e.dir) ((e.args.getD []).map lenient)]]⟩
      | .success out err => ⟨false, data, true, execFiles (e.stdout.map lenient) (e.stderr.map lenient) out err,
          [[execLogLine (lenient e.program) (lenient e.dir) ((e.args.getD []).map lenient)]]⟩
      | .exitError code out err =>
        ⟨!((e.validExitCodes.getD []).contains code),
          (match e.saveExitCodeTo with
            | some p => addValueAt data p (exitCodeLeaf code)
            | none => data),
          true, execFiles (e.stdout.map lenient) (e.stderr.map lenient) out err,
          [[execLogLine (lenient e.program) (lenient e.dir) ((e.args.getD []).map lenient)]]⟩ := by
  simp only [execOp, execCall, any_not_false_of_opens ho.1, any_not_false_of_opens ho.2]
  simp only [Bool.false_eq_true, if_false]
  split <;> rename_i h <;> rw [h]
  rfl

/-- an output file that cannot be opened: error, nothing ran, nothing logged, data untouched -/
theorem execOp_of_not_opens (lenient : String → String) (os : ExecOS) (e : ExecSpec) (data : AMap Node)
    (h : (∃ p, e.stdout = some p ∧ os.canOpen (lenient p) = false) ∨
         (∃ p, e.stderr = some p ∧ os.canOpen (lenient p) = false)) :
    (execOp lenient os e data).err = true ∧ (execOp lenient os e data).data = data ∧
      (execOp lenient os e data).ran = false ∧ (execOp lenient os e data).log = [] := by
  simp only [execOp]
  split
  · exact ⟨rfl, rfl, rfl, rfl⟩
  · split
    · exact ⟨rfl, rfl, rfl, rfl⟩
    · rename_i h1 h2
      exfalso
      rcases h with ⟨p, hp, hc⟩ | ⟨p, hp, hc⟩
      · apply h1; simp [hp, hc]
      · apply h2; simp [hp, hc]

/-- the data after ExecOp: untouched, or one AddValueAt of the exit code at SaveExitCodeTo -/
theorem execOp_data (lenient : String → String) (os : ExecOS) (e : ExecSpec) (data : AMap Node) :
    (execOp lenient os e data).data = data ∨
      ∃ p code, e.saveExitCodeTo = some p ∧
        (execOp lenient os e data).data = addValueAt data p (exitCodeLeaf code) := by
  simp only [execOp]
  split
  · exact Or.inl rfl
  · split
    · exact Or.inl rfl
    · split
      · exact Or.inl rfl
      · exact Or.inl rfl
      · rename_i code out err _
        cases hs : e.saveExitCodeTo with
        | none => exact Or.inl rfl
        | some p => exact Or.inr ⟨p, code, rfl, rfl⟩

/-! ## TemplateFileOp -/

/-- the container the template is rendered against -/
def tplScope (t : TemplateFileSpec) (data : AMap Node) : Option (AMap Node) :=
  match t.path with
  | none => some data
  | some p =>
    match lookup data p with
    | some (.cont c) => some c
    | _ => none

/-- TemplateFileOp as a closed form over the scope -/
theorem templateFileOp_eq (te : TplEngine) (fs : TplFS) (t : TemplateFileSpec) (data : AMap Node)
    (hf : t.file ≠ "") (ho : t.output ≠ "") :
    templateFileOp te fs t data =
      match tplScope t data with
      | none => ⟨true, data, none, []⟩
      | some sc =>
        match fs.readFile (te.lenient sc t.file) with
        | none => ⟨true, data, none, [["reading template file", te.lenient sc t.file]]⟩
        | some tmpl =>
          match te.render sc tmpl with
          | none => ⟨true, data, none, [["reading template file", te.lenient sc t.file]]⟩
          | some val =>
            if fs.canWrite (te.lenient sc t.output) then
              ⟨false, data, some (te.lenient sc t.output, val),
                [["reading template file", te.lenient sc t.file], ["writing rendered template", te.lenient sc t.output]]⟩
            else ⟨true, data, none,
                [["reading template file", te.lenient sc t.file], ["writing rendered template", te.lenient sc t.output]]⟩ := by
  simp only [templateFileOp, if_neg hf, if_neg ho, tplScope]
  rfl

theorem templateFileOp_data (te : TplEngine) (fs : TplFS) (t : TemplateFileSpec) (data : AMap Node) :
    (templateFileOp te fs t data).data = data := by
  simp only [templateFileOp]
  split
  · rfl
  · split
    · rfl
    · split
      · rfl
      · split
        · rfl
        · split
          · rfl
          · split <;> rfl

/-! ## convertHtmlNode2Dom -/

theorem noSuffix_Value : hasIdxSuffix "Value" = false := by decide
theorem noSuffix_Attrs : hasIdxSuffix "Attrs" = false := by decide

/-- every element directly below carries a plain name (no index group at its end) -/
def PlainKids (cs : List HtmlNode) : Prop :=
  ∀ t as ks, HtmlNode.elem t as ks ∈ cs → hasIdxSuffix t = false

theorem PlainKids.tail {x : HtmlNode} {cs : List HtmlNode} (h : PlainKids (x :: cs)) : PlainKids cs :=
  fun t as ks hm => h t as ks (List.mem_cons_of_mem _ hm)

/-- the container built for an element -/
def elemBody (attrs : List (String × String)) (children : List HtmlNode) : AMap Node :=
  convertChildren (elemStart attrs) children

/-- the element children named `t`, as the containers built for them, in document order -/
def bodiesOf (t : String) : List HtmlNode → List Node
  | [] => []
  | .elem tag as ks :: rest =>
    if tag = t then .cont (elemBody as ks) :: bodiesOf t rest else bodiesOf t rest
  | .text _ :: rest => bodiesOf t rest
  | .document _ :: rest => bodiesOf t rest
  | .other :: rest => bodiesOf t rest

/-- what is found under a name after placing containers there one after another -/
def collect (cur : Option Node) : List Node → Option Node
  | [] => cur
  | b :: bs => collect (some (place cur b)) bs

theorem convert_elem_plain (cb : AMap Node) {tag : String} (as : List (String × String)) (ks : List HtmlNode)
    (h : hasIdxSuffix tag = false) :
    convert cb (.elem tag as ks) = AMap.insert cb tag (place (AMap.get? cb tag) (.cont (elemBody as ks))) := by
  simp only [convert, elemBody, add_of_noSuffix _ _ h, child_of_noSuffix _ h]

theorem convert_text (cb : AMap Node) (d : String) :
    convert cb (.text d) = if isBlank d then cb else AMap.insert cb "Value" (.leaf ⟨"string", d⟩) := by
  simp only [convert, add_of_noSuffix _ _ noSuffix_Value]

/-- the children of an element, read by name: element children named `t` are placed under `t`
    one after another, in document order; nothing else touches that name -/
theorem get?_convertChildren (t : String) (ht : t ≠ "Value") :
    ∀ (cs : List HtmlNode) (c : AMap Node), PlainKids cs →
      AMap.get? (convertChildren c cs) t = collect (AMap.get? c t) (bodiesOf t cs)
  | [], c, _ => by simp [convertChildren, bodiesOf, collect]
  | .elem tag as ks :: rest, c, hp => by
    have hplain : hasIdxSuffix tag = false := hp tag as ks List.mem_cons_self
    simp only [convertChildren, bodiesOf]
    rw [get?_convertChildren t ht rest _ hp.tail, convert_elem_plain c as ks hplain]
    by_cases h : tag = t
    · subst h
      simp only [if_true, collect, AMap.get?_insert_self]
    · simp only [if_neg h, AMap.get?_insert_ne _ _ (Ne.symm h)]
  | .text d :: rest, c, hp => by
    simp only [convertChildren, bodiesOf]
    rw [get?_convertChildren t ht rest _ hp.tail, convert_text]
    split
    · rfl
    · rw [AMap.get?_insert_ne _ _ ht]
  | .document _ :: rest, c, hp => by
    simp only [convertChildren, bodiesOf, convert]
    exact get?_convertChildren t ht rest _ hp.tail
  | .other :: rest, c, hp => by
    simp only [convertChildren, bodiesOf, convert]
    exact get?_convertChildren t ht rest _ hp.tail

theorem collect_list (xs : List Node) : ∀ (bs : List Node), collect (some (.list xs)) bs = some (.list (xs ++ bs))
  | [] => by simp [collect]
  | b :: bs => by
    simp only [collect, place]
    rw [collect_list (xs ++ [b]) bs]
    simp

theorem bodiesOf_cont (t : String) : ∀ (cs : List HtmlNode), ∀ b ∈ bodiesOf t cs, ∃ kvs, b = Node.cont kvs
  | [], b, hb => by simp [bodiesOf] at hb
  | .elem tag as ks :: rest, b, hb => by
    simp only [bodiesOf] at hb
    split at hb
    · rcases List.mem_cons.mp hb with h | h
      · exact ⟨_, h⟩
      · exact bodiesOf_cont t rest b h
    · exact bodiesOf_cont t rest b hb
  | .text _ :: rest, b, hb => bodiesOf_cont t rest b (by simpa only [bodiesOf] using hb)
  | .document _ :: rest, b, hb => bodiesOf_cont t rest b (by simpa only [bodiesOf] using hb)
  | .other :: rest, b, hb => bodiesOf_cont t rest b (by simpa only [bodiesOf] using hb)

/-- nothing there before: no body → nothing; one body → that container itself ("regular child
    node"); two or more → the list of all of them in order -/
theorem collect_none : ∀ (bs : List Node), (∀ b ∈ bs, ∃ kvs, b = Node.cont kvs) →
    collect none bs = match bs with
      | [] => none
      | [b] => some b
      | b1 :: b2 :: rest => some (.list (b1 :: b2 :: rest))
  | [], _ => rfl
  | [b], _ => rfl
  | b1 :: b2 :: rest, h => by
    obtain ⟨k1, rfl⟩ := h b1 List.mem_cons_self
    simp only [collect, place]
    rw [collect_list]
    simp

/-- the last text child that is not blank -/
def lastText : List HtmlNode → Option String
  | [] => none
  | .text d :: rest =>
    match lastText rest with
    | some x => some x
    | none => if isBlank d then none else some d
  | .elem _ _ _ :: rest => lastText rest
  | .document _ :: rest => lastText rest
  | .other :: rest => lastText rest

/-- no element directly below is named `t` -/
def NoKidNamed (t : String) (cs : List HtmlNode) : Prop := ∀ as ks, HtmlNode.elem t as ks ∉ cs

theorem NoKidNamed.tail {t : String} {x : HtmlNode} {cs : List HtmlNode} (h : NoKidNamed t (x :: cs)) :
    NoKidNamed t cs := fun as ks hm => h as ks (List.mem_cons_of_mem _ hm)

theorem bodiesOf_nil_of_noKid (t : String) : ∀ (cs : List HtmlNode), NoKidNamed t cs → bodiesOf t cs = []
  | [], _ => rfl
  | .elem tag as ks :: rest, h => by
    simp only [bodiesOf]
    have : tag ≠ t := by
      intro e; subst e; exact h as ks List.mem_cons_self
    rw [if_neg this]
    exact bodiesOf_nil_of_noKid t rest h.tail
  | .text _ :: rest, h => by simp only [bodiesOf]; exact bodiesOf_nil_of_noKid t rest h.tail
  | .document _ :: rest, h => by simp only [bodiesOf]; exact bodiesOf_nil_of_noKid t rest h.tail
  | .other :: rest, h => by simp only [bodiesOf]; exact bodiesOf_nil_of_noKid t rest h.tail

/-- `Value` after the children: the last non-blank text, untrimmed -/
theorem get?_convertChildren_Value :
    ∀ (cs : List HtmlNode) (c : AMap Node), PlainKids cs → NoKidNamed "Value" cs →
      AMap.get? (convertChildren c cs) "Value" =
        match lastText cs with
        | some d => some (.leaf ⟨"string", d⟩)
        | none => AMap.get? c "Value"
  | [], c, _, _ => by simp [convertChildren, lastText]
  | .elem tag as ks :: rest, c, hp, hn => by
    have hplain : hasIdxSuffix tag = false := hp tag as ks List.mem_cons_self
    have hne : tag ≠ "Value" := by
      intro e; subst e; exact hn as ks List.mem_cons_self
    simp only [convertChildren, lastText]
    rw [get?_convertChildren_Value rest _ hp.tail hn.tail, convert_elem_plain c as ks hplain,
      AMap.get?_insert_ne _ _ (Ne.symm hne)]
  | .text d :: rest, c, hp, hn => by
    simp only [convertChildren, lastText]
    rw [get?_convertChildren_Value rest _ hp.tail hn.tail, convert_text]
    cases lastText rest with
    | some x => rfl
    | none =>
      by_cases hb : isBlank d = true
      · simp [hb]
      · simp [hb, AMap.get?_insert_self]
  | .document _ :: rest, c, hp, hn => by
    simp only [convertChildren, lastText, convert]
    exact get?_convertChildren_Value rest _ hp.tail hn.tail
  | .other :: rest, c, hp, hn => by
    simp only [convertChildren, lastText, convert]
    exact get?_convertChildren_Value rest _ hp.tail hn.tail

/-- the value of the last attribute named `k` -/
def lastAttr (k : String) : List (String × String) → Option String
  | [] => none
  | (k', v) :: rest =>
    match lastAttr k rest with
    | some x => some x
    | none => if k' = k then some v else none

/-- the attribute container read by name (plain attribute names): the last attribute of that
    name, as a string leaf -/
theorem get?_attrsCont (k : String) :
    ∀ (attrs : List (String × String)) (ac : AMap Node), (∀ p ∈ attrs, hasIdxSuffix p.1 = false) →
      AMap.get? (attrsCont ac attrs) k =
        match lastAttr k attrs with
        | some v => some (.leaf ⟨"string", v⟩)
        | none => AMap.get? ac k
  | [], ac, _ => by simp [attrsCont, lastAttr]
  | (k', v) :: rest, ac, h => by
    have hk : hasIdxSuffix k' = false := h (k', v) List.mem_cons_self
    simp only [attrsCont, lastAttr]
    rw [get?_attrsCont k rest _ (fun p hp => h p (List.mem_cons_of_mem _ hp)), add_of_noSuffix _ _ hk]
    cases lastAttr k rest with
    | some x => rfl
    | none =>
      by_cases e : k' = k
      · subst e; simp [AMap.get?_insert_self]
      · simp [e, AMap.get?_insert_ne _ _ (Ne.symm e)]

theorem lastAttr_of_mem_nodup {k v : String} : ∀ (attrs : List (String × String)),
    (attrs.map (·.1)).Nodup → (k, v) ∈ attrs → lastAttr k attrs = some v
  | [], _, h => by cases h
  | (k', v') :: rest, hnd, hm => by
    have hnd' : (rest.map (·.1)).Nodup := (List.nodup_cons.mp hnd).2
    have hnot : k' ∉ rest.map (·.1) := (List.nodup_cons.mp hnd).1
    simp only [lastAttr]
    rcases List.mem_cons.mp hm with h | h
    · cases h
      have : lastAttr k rest = none := by
        cases hl : lastAttr k rest with
        | none => rfl
        | some x =>
          exfalso
          -- a hit in the rest means the name occurs there
          have : k ∈ rest.map (·.1) := by
            clear hnd hm hnd' hnot
            induction rest with
            | nil => simp [lastAttr] at hl
            | cons p rest ih =>
              obtain ⟨pk, pv⟩ := p
              simp only [lastAttr] at hl
              cases hr : lastAttr k rest with
              | some y =>
                rw [hr] at hl
                cases hl
                exact List.mem_cons_of_mem _ (ih hr)
              | none =>
                rw [hr] at hl
                by_cases e : pk = k
                · subst e; simp
                · simp [e] at hl
          exact hnot this
      simp [this]
    · rw [lastAttr_of_mem_nodup rest hnd' h]

theorem lastAttr_none_of_not_mem {k : String} : ∀ (attrs : List (String × String)),
    k ∉ attrs.map (·.1) → lastAttr k attrs = none
  | [], _ => rfl
  | (k', v') :: rest, h => by
    simp only [List.map_cons, List.mem_cons, not_or] at h
    simp only [lastAttr, lastAttr_none_of_not_mem rest h.2]
    simp [Ne.symm h.1]

/-! ### every container built by convert is constructible through the API (sorted, plain keys) -/

theorem attrsCont_valid : ∀ (attrs : List (String × String)) (ac : AMap Node),
    (Node.cont ac).Valid → (Node.cont (attrsCont ac attrs)).Valid
  | [], _, h => h
  | (k, v) :: rest, ac, h => attrsCont_valid rest _ (add_valid k h (Node.Valid.leaf _))

theorem elemStart_valid (attrs : List (String × String)) : (Node.cont (elemStart attrs)).Valid := by
  cases attrs with
  | nil => exact Node.Valid.empty
  | cons a as =>
    exact add_valid "Attrs" Node.Valid.empty (attrsCont_valid (a :: as) [] Node.Valid.empty)

theorem place_valid {existing : Option Node} {c : Node} (he : ∀ n, existing = some n → n.Valid) (hc : c.Valid) :
    (place existing c).Valid := by
  unfold place
  split
  · rename_i xs
    have hx := he _ rfl
    refine Node.Valid.list_of ?_
    intro x hm
    rcases List.mem_append.mp hm with h | h
    · exact Node.Valid.of_list_mem hx h
    · simp at h; subst h; exact hc
  · rename_i e _
    refine Node.Valid.list_of ?_
    intro x hm
    simp at hm
    rcases hm with h | h
    · subst h; exact he _ rfl
    · subst h; exact hc
  · exact hc

mutual
theorem convert_valid : ∀ (n : HtmlNode) (cb : AMap Node), (Node.cont cb).Valid → (Node.cont (convert cb n)).Valid
  | .elem tag as ks, cb, h => by
    simp only [convert]
    exact add_valid tag h (place_valid (fun n hn => child_valid h hn)
      (convertChildren_valid ks _ (elemStart_valid as)))
  | .text d, cb, h => by
    simp only [convert]
    split
    · exact h
    · exact add_valid "Value" h (Node.Valid.leaf _)
  | .document _, cb, h => by simpa only [convert] using h
  | .other, cb, h => by simpa only [convert] using h
theorem convertChildren_valid : ∀ (cs : List HtmlNode) (c : AMap Node), (Node.cont c).Valid →
    (Node.cont (convertChildren c cs)).Valid
  | [], c, h => by simpa only [convertChildren] using h
  | x :: xs, c, h => by
    simp only [convertChildren]
    exact convertChildren_valid xs _ (convert_valid x c h)
end

/-! ## Html2DomOp -/

/-- a successful Html2DomOp is one AddValueAt of a converted container at the rendered To -/
theorem html2domOp_ok (lenient : String → String) (lib : HtmlLib) (x : Html2DomSpec) (data d : AMap Node)
    (h : html2domOp lenient lib x data = .ok d) :
    lenient x.from_ ≠ "" ∧ lenient x.to ≠ "" ∧
      ∃ n, d = addValueAt data (lenient x.to) (.cont (convert [] n)) := by
  simp only [html2domOp] at h
  split at h
  · cases h
  · split at h
    · cases h
    · rename_i hf ht
      refine ⟨hf, ht, ?_⟩
      split at h
      · split at h
        · cases h
        · split at h
          · cases h
          · split at h
            · cases h
            · rename_i n _
              cases h
              exact ⟨n, rfl⟩
      · cases h

end Ytk.OpsExt
