/-
  YtkProofs.HeapBuilderTree — TREE-NESS IS AN INVARIANT: every builder call made on a cell below a
  document root that is a tree apart from shared leaves (`SibSep h root`) leaves it such a tree.

  Final statements (namespace `Ytk.Heap.Tree`; `root` the document root, `c` / `l` the cell the call is
  made on, `Reach h root c`, `c = root` allowed):
    attaching  (hi : Inv h) (hs : SibSep h root) (hrc : Reach h root c) (hsv : SibSep h v)
               (hap : Apart h root v) (hrl : root < h.size) (hvl : v < h.size) (he : … = some h') :
               SibSep h' root
                 addH_sibSep, addAtSegsH_sibSep (any `segs`), addValueAtH_sibSep,
                 listSet_sibSep, listMustSetH_sibSep (`= .ok h'`), listAppend_sibSep;
               without the `v` hypotheses: addContainerH_sibSep, addListH_sibSep
               the attached node stays a tree (`SibSep h' v`): …_sibSep_value; the new handle is a
               tree (`SibSep h' b`): addContainerH_sibSep_new, addListH_sibSep_new
    removing   (hs : SibSep h root) (he : … = some h') : SibSep h' root  — NO other hypothesis:
                 remove_sibSep, removeAtSegsH_sibSep, removeAtH_sibSep, listClear_sibSep,
                 compactF_sibSep, compactH_sibSep

  How:
    removing calls   cells only lose children (`Refine.Shrink`: same size, every cell keeps a
                     SUB-LIST of its kids), and `Shrink.sibSep`
    attaching calls  `parent_tree`: in the new heap a cell one of whose slots holds a tree made of new
                     cells / the nil leaf / a region `T`, while every other slot holds an untouched
                     old subtree that meets `T` at most in leaves, is a tree.  It is applied at every
                     list / container along setSlotH (`setSlotH_tree`), spineH (`spineH_tree`), at
                     the written container (`addH_tree`, hypotheses LOCAL to what `c` reaches, so that
                     it also applies in the heap extended by spineH / the new empty cell:
                     `ext_addH_tree`), and at every unwritten cell on the way up from `c` to `root`
                     (`lift_step`, `lift_tree`).  The invariant carried is
                       TreeRes g g' a P :  size ≤, only containers / lists below `a` written,
                                           SibSep g' a, and `a` reaches in g' only new cells, the nil
                                           leaf, what it reached in g, and `P` (= what `v` reaches).
-/
import YtkProofs.HeapBuilderRefine

namespace Ytk.Heap.Tree

open Heap
open Refine (Shrink FrameOn ReachO reach_of_agree reach_leaf not_composite_leaf sibSep_leaf
  sibSep_of_reach sibSep_kvs mem_kids_list mem_kids_kvs composite_list composite_cont padH_getElem?
  lt_padH_length reachO_some)

set_option linter.unusedVariables false

/-! ## 1. removing calls -/

theorem erase_sublist {α : Type} (k : String) : ∀ (m : AMap α), (AMap.erase m k).Sublist m
  | [] => List.Sublist.refl _
  | (k', v') :: m => by
    simp only [AMap.erase]
    split
    · exact List.sublist_cons_self _ _
    · exact (erase_sublist k m).cons_cons _

theorem remove_shrink {h h' : Heap} {c : Addr} {name : String}
    (he : Ytk.Heap.remove h c name = some h') : Shrink h h' := by
  unfold Ytk.Heap.remove at he
  split at he
  · rename_i kvs hg
    cases he
    exact Shrink.write hg (by simpa only [Cell.kids] using (erase_sublist name kvs).map _) rfl
  · cases he

theorem listClear_shrink {h h' : Heap} {l : Addr} (he : listClear h l = some h') : Shrink h h' := by
  unfold listClear at he
  split at he
  · rename_i xs hg
    cases he
    exact Shrink.write hg (by simp [Cell.kids]) rfl
  · cases he

theorem removeAtSegsH_shrink {h : Heap} : ∀ (segs : List String) (c : Addr) (h' : Heap),
    removeAtSegsH h c segs = some h' → Shrink h h'
  | [], _, h', he => by
    simp only [removeAtSegsH, Option.some.injEq] at he
    subst he; exact Shrink.refl _
  | [last], c, h', he => by
    simp only [removeAtSegsH] at he
    exact remove_shrink he
  | p :: q :: rest, c, h', he => by
    simp only [removeAtSegsH] at he
    split at he
    · exact removeAtSegsH_shrink (q :: rest) _ h' he
    · cases he; exact Shrink.refl _

theorem compactKvsH_shrink {g0 : Heap → Addr → Option Heap}
    (hg0 : ∀ h a h', g0 h a = some h' → Shrink h h') :
    ∀ (todo : List (String × Addr)) (h : Heap) (c : Addr) (h' : Heap),
      compactKvsH g0 h c todo = some h' → Shrink h h'
  | [], h, c, h', he => by
    simp only [compactKvsH, Option.some.injEq] at he
    subst he; exact Shrink.refl _
  | (k, v) :: rest, h, c, h', he => by
    simp only [compactKvsH] at he
    split at he
    · split at he
      · cases he
      · rename_i h1 hg1
        have s1 := hg0 _ _ _ hg1
        split at he
        · split at he
          · rename_i h2 hr
            exact s1.trans ((remove_shrink hr).trans (compactKvsH_shrink hg0 rest h2 c h' he))
          · cases he
        · exact s1.trans (compactKvsH_shrink hg0 rest h1 c h' he)
    · exact compactKvsH_shrink hg0 rest h c h' he

theorem compactF_shrink : ∀ (f : Nat) (h : Heap) (c : Addr) (h' : Heap),
    compactF f h c = some h' → Shrink h h'
  | 0, _, _, _, he => by simp [compactF] at he
  | f + 1, h, c, h', he => by
    simp only [compactF] at he
    split at he
    · exact compactKvsH_shrink (compactF_shrink f) _ h c h' he
    · cases he

/-- `Remove(name)` on any cell keeps the document a tree -/
theorem remove_sibSep {h h' : Heap} {root c : Addr} {name : String} (hs : SibSep h root)
    (he : Ytk.Heap.remove h c name = some h') : SibSep h' root := (remove_shrink he).sibSep hs

theorem removeAtSegsH_sibSep {h h' : Heap} {root c : Addr} {segs : List String} (hs : SibSep h root)
    (he : removeAtSegsH h c segs = some h') : SibSep h' root :=
  (removeAtSegsH_shrink segs c h' he).sibSep hs

theorem removeAtH_sibSep {h h' : Heap} {root c : Addr} {path : String} (hs : SibSep h root)
    (he : removeAtH h c path = some h') : SibSep h' root := by
  unfold removeAtH at he
  split at he
  · exact removeAtSegsH_sibSep hs he
  · cases he

theorem listClear_sibSep {h h' : Heap} {root l : Addr} (hs : SibSep h root)
    (he : listClear h l = some h') : SibSep h' root := (listClear_shrink he).sibSep hs

theorem compactF_sibSep {h h' : Heap} {root c : Addr} {f : Nat} (hs : SibSep h root)
    (he : compactF f h c = some h') : SibSep h' root := (compactF_shrink f h c h' he).sibSep hs

theorem compactH_sibSep {h h' : Heap} {root c : Addr} (hs : SibSep h root)
    (he : compactH h c = some h') : SibSep h' root := compactF_sibSep hs he

/-! ## 2. generic facts -/

/-- tree-ness only depends on the cells a root reaches -/
theorem sibSep_of_agree {g g' : Heap} {r : Addr} (hag : ∀ b, Reach g r b → g'.get? b = g.get? b)
    (hs : SibSep g r) : SibSep g' r := by
  intro a cell ha hg i j ki kj hi hj hij b hkib hkjb hcb
  have hga : Reach g r a := reach_of_agree ha hag
  rw [hag a hga] at hg
  have hki : Reach g r ki := hga.trans (.step hg (List.mem_of_getElem? hi) (.refl _))
  have hkj : Reach g r kj := hga.trans (.step hg (List.mem_of_getElem? hj) (.refl _))
  have h1 : Reach g ki b := reach_of_agree hkib (fun b' hb' => hag b' (hki.trans hb'))
  have h2 : Reach g kj b := reach_of_agree hkjb (fun b' hb' => hag b' (hkj.trans hb'))
  refine hs a cell hga hg i j ki kj hi hj hij b h1 h2 ?_
  obtain ⟨cb, hgb, hl⟩ := hcb
  exact ⟨cb, by rw [← hag b (hki.trans h1)]; exact hgb, hl⟩

theorem apart_leaf_left {g : Heap} {a x : Addr} {s : Scalar} (hg : g.get? a = some (.leaf s)) :
    Apart g a x := fun b hab _ hcb => not_composite_leaf hg (reach_leaf hg hab ▸ hcb)

theorem apart_leaf_right {g : Heap} {a x : Addr} {s : Scalar} (hg : g.get? a = some (.leaf s)) :
    Apart g x a := fun b _ hab hcb => not_composite_leaf hg (reach_leaf hg hab ▸ hcb)

/-- THE STEP.  In `g'` the cell `a` holds `cell'`; its slot `i` holds `r'`, a tree in `g'` that reaches
    only new cells, the nil leaf and the region `T`; every other slot holds a node that is a tree
    of the OLD heap `g`, untouched on the way to `g'`, in range, and meeting `T` at most in leaves;
    the other slots are pairwise apart in `g`.  Then `a` is a tree in `g'`. -/
theorem parent_tree {g g' : Heap} {a : Addr} {cell' : Cell} {i : Nat} {r' : Addr} {T F : Addr → Prop}
    (hget : g'.get? a = some cell') (hi : cell'.kids[i]? = some r') (hnil : g'.NilOk)
    (hrt : SibSep g' r') (hrr : ∀ b, Reach g' r' b → F b)
    (hF : ∀ b, F b → g.size ≤ b ∨ b = nilAddr ∨ T b)
    (hoth : ∀ j kj, j ≠ i → cell'.kids[j]? = some kj → SibSep g kj ∧
      ∀ b, Reach g kj b → g'.get? b = g.get? b ∧ b < g.size ∧ (T b → ¬ Composite g b))
    (hpair : ∀ j1 j2 k1 k2, j1 ≠ i → j2 ≠ i → j1 ≠ j2 → cell'.kids[j1]? = some k1 →
      cell'.kids[j2]? = some k2 → Apart g k1 k2) :
    SibSep g' a ∧ ∀ b, Reach g' a b →
      b = a ∨ F b ∨ ∃ j kj, j ≠ i ∧ cell'.kids[j]? = some kj ∧ Reach g kj b := by
  have hagj : ∀ j kj, j ≠ i → cell'.kids[j]? = some kj → ∀ b, Reach g kj b → g'.get? b = g.get? b :=
    fun j kj hj hkj b hb => ((hoth j kj hj hkj).2 b hb).1
  have hcomp : ∀ j kj, j ≠ i → cell'.kids[j]? = some kj → ∀ b, Reach g kj b → Composite g' b →
      Composite g b := by
    intro j kj hj hkj b hb ⟨cb, hgb, hl⟩
    exact ⟨cb, by rw [← hagj j kj hj hkj b hb]; exact hgb, hl⟩
  have apart_r : ∀ j kj, j ≠ i → cell'.kids[j]? = some kj → ∀ b, Reach g' r' b → Reach g' kj b →
      ¬ Composite g' b := by
    intro j kj hj hkj b hrb hkb hcb
    have hgk : Reach g kj b := reach_of_agree hkb (hagj j kj hj hkj)
    obtain ⟨_, hblt, hT⟩ := (hoth j kj hj hkj).2 b hgk
    rcases hF b (hrr b hrb) with h1 | rfl | h1
    · exact Nat.not_le.mpr hblt h1
    · exact not_composite_leaf hnil hcb
    · exact hT h1 (hcomp j kj hj hkj b hgk hcb)
  constructor
  · intro x cx hx hgx p q kp kq hp hq hpq b hpb hqb hcb
    cases hx with
    | refl =>
      rw [hget] at hgx
      cases hgx
      by_cases hpi : p = i
      · subst hpi
        rw [hi] at hp; cases hp
        exact apart_r q kq (Ne.symm hpq) hq b hpb hqb hcb
      · by_cases hqi : q = i
        · subst hqi
          rw [hi] at hq; cases hq
          exact apart_r p kp hpi hp b hqb hpb hcb
        · have h1 := reach_of_agree hpb (hagj p kp hpi hp)
          have h2 := reach_of_agree hqb (hagj q kq hqi hq)
          exact hpair p q kp kq hpi hqi hpq hp hq b h1 h2 (hcomp p kp hpi hp b h1 hcb)
    | step hg' hk hkx =>
      rw [hget] at hg'
      cases hg'
      obtain ⟨j, hj⟩ := List.mem_iff_getElem?.mp hk
      by_cases hji : j = i
      · subst hji
        rw [hi] at hj; cases hj
        exact hrt x cx hkx hgx p q kp kq hp hq hpq b hpb hqb hcb
      · exact sibSep_of_agree (hagj j _ hji hj) (hoth j _ hji hj).1 x cx hkx hgx p q kp kq hp hq hpq b
          hpb hqb hcb
  · intro b hb
    cases hb with
    | refl => exact Or.inl rfl
    | step hg' hk hkb =>
      rw [hget] at hg'
      cases hg'
      obtain ⟨j, hj⟩ := List.mem_iff_getElem?.mp hk
      by_cases hji : j = i
      · subst hji
        rw [hi] at hj; cases hj
        exact Or.inr (Or.inl (hrr b hkb))
      · exact Or.inr (Or.inr ⟨j, _, hji, hj, reach_of_agree hkb (hagj j _ hji hj)⟩)

/-! ## 3. setSlotH -/

/-- an item of a padded list: an old item in its old slot, or the nil leaf -/
def PadKid (xs : List Addr) (j : Nat) (k : Addr) : Prop := xs[j]? = some k ∨ k = nilAddr

theorem padKid_apart {g : Heap} {a : Addr} {xs : List Addr} (hn : g.NilOk) (hs : SibSep g a)
    (hg : g.get? a = some (.list xs)) {j1 j2 : Nat} {k1 k2 : Addr} (hne : j1 ≠ j2)
    (h1 : PadKid xs j1 k1) (h2 : PadKid xs j2 k2) : Apart g k1 k2 := by
  rcases h1 with h1 | rfl
  · rcases h2 with h2 | rfl
    · exact hs a _ (.refl a) hg j1 j2 k1 k2 h1 h2 hne
    · exact apart_leaf_right hn
  · exact apart_leaf_left hn

theorem padKid_of_set {xs : List Addr} {i j : Nat} {r kj : Addr} {n : Nat} (hji : j ≠ i)
    (h : ((padH xs n).set i r)[j]? = some kj) : PadKid xs j kj := by
  rw [List.getElem?_set_ne (Ne.symm hji)] at h
  rcases padH_getElem? h with h1 | ⟨_, h1⟩
  · exact Or.inl h1
  · exact Or.inr h1

/-- `setSlotH` builds a tree: the result reaches new cells, the nil leaf, what `cur` reached and
    what `v` reaches.  All hypotheses are LOCAL to what `cur` / `v` reach (so the lemma also applies
    to a heap extended by `spineH`). -/
theorem setSlotH_tree {g : Heap} {v : Addr} (hn : g.NilOk) (hsv : SibSep g v)
    (hvr : ∀ b, Reach g v b → b < g.size) :
    ∀ (is : List Nat) (cur : Option Addr),
      (∀ a, cur = some a → SibSep g a) →
      (∀ b, ReachO g cur b → b < g.size) →
      (∀ a cell k, ReachO g cur a → g.get? a = some cell → k ∈ cell.kids → ¬ Reach g k a) →
      (∀ b, ReachO g cur b → Reach g v b → ¬ Composite g b) →
      g.size ≤ (setSlotH g cur is v).1.size ∧
      FrameOn g (setSlotH g cur is v).1 (fun b => ReachO g cur b ∧ Composite g b) ∧
      SibSep (setSlotH g cur is v).1 (setSlotH g cur is v).2 ∧
      ∀ b, Reach (setSlotH g cur is v).1 (setSlotH g cur is v).2 b →
        (g.size ≤ b ∨ b = nilAddr ∨ ReachO g cur b ∨ Reach g v b) ∧ b < (setSlotH g cur is v).1.size
  | [], cur, _, _, _, _ =>
    ⟨Nat.le_refl _, fun _ _ _ => rfl, hsv, fun b hb => ⟨Or.inr (Or.inr (Or.inr hb)), hvr b hb⟩⟩
  | i :: is, cur, hsib, hrange, hacyc, hdis => by
    have hnilc : ¬ Composite g nilAddr := not_composite_leaf hn
    have hnillt : nilAddr < g.size := get?_lt hn
    cases hla : listAt g cur with
    | some p =>
      obtain ⟨a, xs⟩ := p
      obtain ⟨rfl, hg⟩ := Refine.listAt_some hla
      rw [Refine.setSlotH_cons_some i is v hla]
      have halt : a < g.size := get?_lt hg
      have hac : Composite g a := composite_list hg
      have hilt := lt_padH_length xs i
      obtain ⟨k, hk⟩ : ∃ k, (padH xs (i + 1))[i]? = some k := ⟨_, List.getElem?_eq_getElem hilt⟩
      have hkpad : PadKid xs i k := by
        rcases padH_getElem? hk with h1 | ⟨_, h1⟩
        · exact Or.inl h1
        · exact Or.inr h1
      have hK1 : ∀ b, Reach g k b → Reach g a b ∨ b = nilAddr := by
        intro b hb
        rcases hkpad with h1 | rfl
        · exact Or.inl (.step hg (mem_kids_list (List.mem_of_getElem? h1)) hb)
        · exact Or.inr (reach_leaf hn hb)
      have hK1' : ∀ b, Reach g k b → Composite g b → Reach g a b := by
        intro b hb hcb
        rcases hK1 b hb with h1 | rfl
        · exact h1
        · exact absurd hcb hnilc
      have hK2 : ¬ Reach g k a := by
        rcases hkpad with h1 | rfl
        · exact hacyc a _ k (Reach.refl a) hg (mem_kids_list (List.mem_of_getElem? h1))
        · intro hr0
          have := reach_leaf hn hr0
          subst this
          exact hnilc hac
      have hK3 : SibSep g k := by
        rcases hkpad with h1 | rfl
        · exact sibSep_of_reach (hsib a rfl) (.step hg (mem_kids_list (List.mem_of_getElem? h1)) (.refl _))
        · exact sibSep_leaf hn
      have hKr : ∀ b, Reach g k b → b < g.size := by
        intro b hb
        rcases hK1 b hb with h1 | rfl
        · exact hrange b h1
        · exact hnillt
      obtain ⟨hsz, hfr, hst, hrb⟩ := setSlotH_tree hn hsv hvr is (some k)
        (fun a' ha' => by cases ha'; exact hK3) hKr
        (fun a' cell' k' ha' hg' hk' => by
          rcases hK1 a' ha' with h1 | rfl
          · exact hacyc a' cell' k' h1 hg' hk'
          · rw [hn] at hg'; cases hg'; simp [Cell.kids] at hk')
        (fun b hb hvb hcb => hdis b (hK1' b hb hcb) hvb hcb)
      rw [hk] at *
      generalize (setSlotH g (some k) is v).1 = g1 at *
      generalize (setSlotH g (some k) is v).2 = r at *
      have halt1 : a < g1.size := Nat.lt_of_lt_of_le halt hsz
      -- `r` does not reach `a`
      have hra : ∀ b, Reach g1 r b → b ≠ a := by
        intro b hb e
        subst e
        rcases (hrb b hb).1 with h1 | h1 | h1 | h1
        · exact Nat.not_le.mpr halt h1
        · exact hnilc (h1 ▸ hac)
        · exact hK2 h1
        · exact hdis b (Reach.refl b) h1 hac
      have hnila : nilAddr ≠ a := fun e => hnilc (e ▸ hac)
      have hagr : ∀ b, Reach g1 r b →
          (g1.write a (.list ((padH xs (i + 1)).set i r))).get? b = g1.get? b :=
        fun b hb => get?_write_ne _ _ (hra b hb)
      have hnil' : (g1.write a (.list ((padH xs (i + 1)).set i r))).NilOk := by
        show Heap.get? _ nilAddr = _
        rw [get?_write_ne _ _ hnila, hfr _ hnillt (fun hS => hnilc hS.2)]
        exact hn
      -- the other slots
      have hothers : ∀ j kj, j ≠ i → PadKid xs j kj → SibSep g kj ∧
          ∀ b, Reach g kj b → (g1.write a (.list ((padH xs (i + 1)).set i r))).get? b = g.get? b ∧
            b < g.size ∧ ((Reach g k b ∨ Reach g v b) → ¬ Composite g b) := by
        intro j kj hji hkj
        have hap : Apart g k kj := padKid_apart hn (hsib a rfl) hg (Ne.symm hji) hkpad hkj
        rcases hkj with h1 | rfl
        · have hkjk : kj ∈ (Cell.list xs).kids := mem_kids_list (List.mem_of_getElem? h1)
          refine ⟨sibSep_of_reach (hsib a rfl) (.step hg hkjk (.refl _)), fun b hb => ?_⟩
          have hab : Reach g a b := .step hg hkjk hb
          have hblt := hrange b hab
          refine ⟨?_, hblt, ?_⟩
          · have hba : b ≠ a := fun e => hacyc a _ kj (Reach.refl a) hg hkjk (e ▸ hb)
            rw [get?_write_ne _ _ hba]
            exact hfr b hblt (fun hS => hap b hS.1 hb hS.2)
          · rintro (h3 | h3) hcb
            · exact hap b h3 hb hcb
            · exact hdis b hab h3 hcb
        · refine ⟨sibSep_leaf hn, fun b hb => ?_⟩
          have := reach_leaf hn hb
          subst this
          refine ⟨?_, hnillt, fun _ => hnilc⟩
          rw [get?_write_ne _ _ hnila]
          exact hfr _ hnillt (fun hS => hnilc hS.2)
      obtain ⟨hT1, hT2⟩ := parent_tree (g := g) (g' := g1.write a (.list ((padH xs (i + 1)).set i r)))
        (a := a) (cell' := .list ((padH xs (i + 1)).set i r)) (i := i) (r' := r)
        (T := fun b => Reach g k b ∨ Reach g v b)
        (F := fun b => (g.size ≤ b ∨ b = nilAddr ∨ Reach g k b ∨ Reach g v b) ∧ b < g1.size)
        (get?_write_self _ _ halt1)
        (by simp only [Cell.kids]; exact List.getElem?_set_self hilt) hnil'
        (sibSep_of_agree hagr hst) (fun b hb => hrb b (reach_of_agree hb hagr))
        (fun b hb => by
          rcases hb.1 with h1 | h1 | h1 | h1
          · exact Or.inl h1
          · exact Or.inr (Or.inl h1)
          · exact Or.inr (Or.inr (Or.inl h1))
          · exact Or.inr (Or.inr (Or.inr h1)))
        (fun j kj hji hkj => hothers j kj hji (padKid_of_set hji (by simpa only [Cell.kids] using hkj)))
        (fun j1 j2 k1 k2 h1i h2i h12 hk1 hk2 => padKid_apart hn (hsib a rfl) hg h12
          (padKid_of_set h1i (by simpa only [Cell.kids] using hk1))
          (padKid_of_set h2i (by simpa only [Cell.kids] using hk2)))
      refine ⟨by rw [size_write]; exact hsz, ?_, hT1, ?_⟩
      · intro b hb hnS
        have hba : b ≠ a := fun e => hnS ⟨e ▸ Reach.refl a, e ▸ hac⟩
        rw [get?_write_ne _ _ hba]
        exact hfr b hb (fun hS => hnS ⟨hK1' b hS.1 hS.2, hS.2⟩)
      · intro b hb
        rw [size_write]
        rcases hT2 b hb with rfl | ⟨h1, h2⟩ | ⟨j, kj, hji, hkj, hkb⟩
        · exact ⟨Or.inr (Or.inr (Or.inl (Reach.refl _))), halt1⟩
        · refine ⟨?_, h2⟩
          rcases h1 with h3 | h3 | h3 | h3
          · exact Or.inl h3
          · exact Or.inr (Or.inl h3)
          · rcases hK1 b h3 with h4 | h4
            · exact Or.inr (Or.inr (Or.inl h4))
            · exact Or.inr (Or.inl h4)
          · exact Or.inr (Or.inr (Or.inr h3))
        · rcases padKid_of_set hji (by simpa only [Cell.kids] using hkj) with h1 | rfl
          · have hab : Reach g a b := .step hg (mem_kids_list (List.mem_of_getElem? h1)) hkb
            exact ⟨Or.inr (Or.inr (Or.inl hab)), Nat.lt_of_lt_of_le (hrange b hab) hsz⟩
          · have := reach_leaf hn hkb
            subst this
            exact ⟨Or.inr (Or.inl rfl), Nat.lt_of_lt_of_le hnillt hsz⟩
    | none =>
      rw [Refine.setSlotH_cons_none i is v hla]
      obtain ⟨hsz, hfr, hst, hrb⟩ := setSlotH_tree hn hsv hvr is (some nilAddr)
        (fun a' ha' => by cases ha'; exact sibSep_leaf hn)
        (fun b hb => by rw [reach_leaf hn hb]; exact hnillt)
        (fun a' cell' k' ha' hg' hk' => by
          have := reach_leaf hn ha'
          subst this
          rw [hn] at hg'; cases hg'; simp [Cell.kids] at hk')
        (fun b hb _ hcb => hnilc (reach_leaf hn hb ▸ hcb))
      rw [Refine.padH_nil_getElem?] at *
      generalize (setSlotH g (some nilAddr) is v).1 = g1 at *
      generalize (setSlotH g (some nilAddr) is v).2 = r at *
      have hilt := lt_padH_length [] i
      have hagr : ∀ b, Reach g1 r b →
          (g1.alloc (.list ((padH [] (i + 1)).set i r))).1.get? b = g1.get? b :=
        fun b hb => get?_eq_of_le (le_alloc g1 _) (hrb b hb).2
      have hnil' : (g1.alloc (.list ((padH [] (i + 1)).set i r))).1.NilOk := by
        show Heap.get? _ nilAddr = _
        rw [get?_eq_of_le (le_alloc g1 _) (Nat.lt_of_lt_of_le hnillt hsz),
          hfr _ hnillt (fun hS => hnilc hS.2)]
        exact hn
      have hothers : ∀ j kj, j ≠ i → PadKid [] j kj → SibSep g kj ∧
          ∀ b, Reach g kj b → (g1.alloc (.list ((padH [] (i + 1)).set i r))).1.get? b = g.get? b ∧
            b < g.size ∧ ((Reach g nilAddr b ∨ Reach g v b) → ¬ Composite g b) := by
        intro j kj _ hkj
        rcases hkj with h1 | rfl
        · simp at h1
        · refine ⟨sibSep_leaf hn, fun b hb => ?_⟩
          have := reach_leaf hn hb
          subst this
          refine ⟨?_, hnillt, fun _ => hnilc⟩
          rw [get?_eq_of_le (le_alloc g1 _) (Nat.lt_of_lt_of_le hnillt hsz)]
          exact hfr _ hnillt (fun hS => hnilc hS.2)
      obtain ⟨hT1, hT2⟩ := parent_tree (g := g) (g' := (g1.alloc (.list ((padH [] (i + 1)).set i r))).1)
        (a := g1.size) (cell' := .list ((padH [] (i + 1)).set i r)) (i := i) (r' := r)
        (T := fun b => Reach g nilAddr b ∨ Reach g v b)
        (F := fun b => (g.size ≤ b ∨ b = nilAddr ∨ Reach g nilAddr b ∨ Reach g v b) ∧ b < g1.size)
        (get?_alloc_new _ _)
        (by simp only [Cell.kids]; exact List.getElem?_set_self hilt) hnil'
        (sibSep_of_agree hagr hst) (fun b hb => hrb b (reach_of_agree hb hagr))
        (fun b hb => by
          rcases hb.1 with h1 | h1 | h1 | h1
          · exact Or.inl h1
          · exact Or.inr (Or.inl h1)
          · exact Or.inr (Or.inr (Or.inl h1))
          · exact Or.inr (Or.inr (Or.inr h1)))
        (fun j kj hji hkj => hothers j kj hji (padKid_of_set hji (by simpa only [Cell.kids] using hkj)))
        (fun j1 j2 k1 k2 h1i h2i h12 hk1 hk2 => by
          rcases padKid_of_set h1i (by simpa only [Cell.kids] using hk1) with h1 | rfl
          · simp at h1
          · exact apart_leaf_left hn)
      rw [alloc_snd]
      refine ⟨by rw [size_alloc]; omega, ?_, hT1, ?_⟩
      · intro b hb _
        rw [get?_eq_of_le (le_alloc g1 _) (Nat.lt_of_lt_of_le hb hsz)]
        exact hfr b hb (fun hS => hnilc (reach_leaf hn hS.1 ▸ hS.2))
      · intro b hb
        rw [size_alloc]
        rcases hT2 b hb with rfl | ⟨h1, h2⟩ | ⟨j, kj, hji, hkj, hkb⟩
        · exact ⟨Or.inl hsz, Nat.lt_succ_self _⟩
        · refine ⟨?_, Nat.lt_succ_of_lt h2⟩
          rcases h1 with h3 | h3 | h3 | h3
          · exact Or.inl h3
          · exact Or.inr (Or.inl h3)
          · exact Or.inr (Or.inl (reach_leaf hn h3))
          · exact Or.inr (Or.inr (Or.inr h3))
        · rcases padKid_of_set hji (by simpa only [Cell.kids] using hkj) with h1 | rfl
          · simp at h1
          · have := reach_leaf hn hkb
            subst this
            exact ⟨Or.inr (Or.inl rfl), Nat.lt_succ_of_lt (Nat.lt_of_lt_of_le hnillt hsz)⟩

/-! ## 4. addH -/

/-- what an attaching call on the cell `a` yields: only containers / lists below `a` are written,
    `a` is a tree afterwards and reaches only new cells, the nil leaf, what it reached before and
    the footprint `P` of the attached node -/
def TreeRes (g g' : Heap) (a : Addr) (P : Addr → Prop) : Prop :=
  g.size ≤ g'.size ∧ FrameOn g g' (fun b => Reach g a b ∧ Composite g b) ∧ SibSep g' a ∧
    ∀ b, Reach g' a b → (g.size ≤ b ∨ b = nilAddr ∨ Reach g a b ∨ P b) ∧ b < g'.size

theorem sorted_key_inj {α : Type} : ∀ {m : AMap α} {j1 j2 : Nat} {p q : String × α}, AMap.Sorted m →
    m[j1]? = some p → m[j2]? = some q → p.1 = q.1 → j1 = j2
  | [], _, _, _, _, _, h1, _, _ => by simp at h1
  | (k0, v0) :: m, j1, j2, p, q, hs, h1, h2, he => by
    cases j1 with
    | zero =>
      cases j2 with
      | zero => rfl
      | succ j2 =>
        simp only [List.getElem?_cons_zero, Option.some.injEq] at h1
        simp only [List.getElem?_cons_succ] at h2
        have := hs.head_lt q (List.mem_of_getElem? h2)
        rw [← he, ← h1] at this
        exact absurd this (String.lt_irrefl _)
    | succ j1 =>
      cases j2 with
      | zero =>
        simp only [List.getElem?_cons_zero, Option.some.injEq] at h2
        simp only [List.getElem?_cons_succ] at h1
        have := hs.head_lt p (List.mem_of_getElem? h1)
        rw [he, ← h2] at this
        exact absurd this (String.lt_irrefl _)
      | succ j2 =>
        simp only [List.getElem?_cons_succ] at h1 h2
        rw [sorted_key_inj hs.tail h1 h2 he]

theorem addH_eq {g : Heap} {c v : Addr} {kvs : AMap Addr} {name b0 : String} {is : List Nat}
    (hg : g.get? c = some (.cont kvs)) (hp : parseSeg name = (b0, is)) :
    addH g c name v = some ((setSlotH g (AMap.get? kvs b0) is v).1.write c
      (.cont (AMap.insert kvs b0 (setSlotH g (AMap.get? kvs b0) is v).2))) := by
  unfold addH
  simp only [hg, hp]
  cases is with
  | nil =>
    have := parseSeg_nil_base hp
    subst this
    simp only [setSlotH]
  | cons i is => rfl

theorem kids_cont_getElem? {kvs : AMap Addr} {j : Nat} {kj : Addr}
    (h : (Cell.cont kvs).kids[j]? = some kj) : ∃ p, kvs[j]? = some p ∧ p.2 = kj := by
  simp only [Cell.kids, List.getElem?_map, Option.map_eq_some_iff] at h
  exact h

/-- `add(name, v)` on the container `c`: all hypotheses local to what `c` and `v` reach -/
theorem addH_tree {g g' : Heap} {c v : Addr} {name : String} (hn : g.NilOk) (hsv : SibSep g v)
    (hvr : ∀ b, Reach g v b → b < g.size) (hs : SibSep g c) (hrange : ∀ b, Reach g c b → b < g.size)
    (hacyc : ∀ a cell k, Reach g c a → g.get? a = some cell → k ∈ cell.kids → ¬ Reach g k a)
    (hsort : ∀ kvs, g.get? c = some (.cont kvs) → AMap.Sorted kvs)
    (hdis : ∀ b, Reach g c b → Reach g v b → ¬ Composite g b)
    (he : addH g c name v = some g') : TreeRes g g' c (Reach g v) := by
  have hnilc : ¬ Composite g nilAddr := not_composite_leaf hn
  have hnillt : nilAddr < g.size := get?_lt hn
  cases hg : g.get? c with
  | none => simp [addH, hg] at he
  | some cell0 =>
  cases cell0 with
  | leaf s => simp [addH, hg] at he
  | list xs => simp [addH, hg] at he
  | cont kvs =>
  cases hp : parseSeg name with
  | mk b0 is =>
  rw [addH_eq hg hp, Option.some.injEq] at he
  have hsorted := hsort kvs hg
  have hclt : c < g.size := get?_lt hg
  have hcc : Composite g c := composite_cont hg
  have hmemX : ∀ X, AMap.get? kvs b0 = some X → (b0, X) ∈ kvs := fun X hX => AMap.mem_of_get? hX
  have hcurR : ∀ b, ReachO g (AMap.get? kvs b0) b → Reach g c b ∧ b ≠ c := by
    intro b hb
    obtain ⟨X, hX, hXb⟩ := reachO_some hb
    exact ⟨.step hg (mem_kids_kvs (hmemX X hX)) hXb,
      fun e => hacyc c _ X (Reach.refl c) hg (mem_kids_kvs (hmemX X hX)) (e ▸ hXb)⟩
  obtain ⟨hsz, hfr, hst, hrb⟩ := setSlotH_tree hn hsv hvr is (AMap.get? kvs b0)
    (fun X hX => sibSep_of_reach hs (.step hg (mem_kids_kvs (hmemX X hX)) (.refl _)))
    (fun b hb => hrange b (hcurR b hb).1)
    (fun a cell k ha hga hk => hacyc a cell k (hcurR a ha).1 hga hk)
    (fun b hb hvb hcb => hdis b (hcurR b hb).1 hvb hcb)
  generalize (setSlotH g (AMap.get? kvs b0) is v).1 = g1 at *
  generalize (setSlotH g (AMap.get? kvs b0) is v).2 = r at *
  subst he
  have hclt1 : c < g1.size := Nat.lt_of_lt_of_le hclt hsz
  have hnilne : nilAddr ≠ c := fun e => hnilc (e ▸ hcc)
  have hrc : ∀ b, Reach g1 r b → b ≠ c := by
    intro b hb e
    subst e
    rcases (hrb b hb).1 with h1 | h1 | h1 | h1
    · exact Nat.not_le.mpr hclt h1
    · exact hnilc (h1 ▸ hcc)
    · exact (hcurR b h1).2 rfl
    · exact hdis b (Reach.refl b) h1 hcc
  have hagr : ∀ b, Reach g1 r b → (g1.write c (.cont (AMap.insert kvs b0 r))).get? b = g1.get? b :=
    fun b hb => get?_write_ne _ _ (hrc b hb)
  have hnil' : (g1.write c (.cont (AMap.insert kvs b0 r))).NilOk := by
    show Heap.get? _ nilAddr = _
    rw [get?_write_ne _ _ hnilne, hfr _ hnillt (fun hS => hnilc hS.2)]
    exact hn
  have hsins := AMap.sorted_insert hsorted b0 r
  obtain ⟨i, hi⟩ := List.mem_iff_getElem?.mp
    (AMap.mem_of_get? (AMap.get?_insert_self kvs b0 r))
  -- the other members
  have hother : ∀ j kj, j ≠ i → (Cell.cont (AMap.insert kvs b0 r)).kids[j]? = some kj →
      ∃ p, (AMap.insert kvs b0 r)[j]? = some p ∧ p.2 = kj ∧ p ∈ kvs ∧ p.1 ≠ b0 := by
    intro j kj hji hkj
    obtain ⟨p, hpj, hpk⟩ := kids_cont_getElem? hkj
    have hne : p.1 ≠ b0 := fun e => hji (sorted_key_inj hsins hpj hi e)
    rcases Ytk.AMap.mem_insert (List.mem_of_getElem? hpj) with h1 | h1
    · exact absurd (by rw [h1]) hne
    · exact ⟨p, hpj, hpk, h1, hne⟩
  have hothers : ∀ p ∈ kvs, p.1 ≠ b0 → SibSep g p.2 ∧
      ∀ b, Reach g p.2 b → (g1.write c (.cont (AMap.insert kvs b0 r))).get? b = g.get? b ∧
        b < g.size ∧ ((ReachO g (AMap.get? kvs b0) b ∨ Reach g v b) → ¬ Composite g b) := by
    intro p hp hpb
    have hpk : p.2 ∈ (Cell.cont kvs).kids := mem_kids_kvs hp
    have hapX : ∀ b, ReachO g (AMap.get? kvs b0) b → Reach g p.2 b → ¬ Composite g b := by
      intro b hb hpb' hcb
      obtain ⟨X, hX, hXb⟩ := reachO_some hb
      exact sibSep_kvs hs hg hp (hmemX X hX) hpb b hpb' hXb hcb
    refine ⟨sibSep_of_reach hs (.step hg hpk (.refl _)), fun b hb => ?_⟩
    have hcb : Reach g c b := .step hg hpk hb
    have hblt := hrange b hcb
    have hbc : b ≠ c := fun e => hacyc c _ p.2 (Reach.refl c) hg hpk (e ▸ hb)
    refine ⟨?_, hblt, ?_⟩
    · rw [get?_write_ne _ _ hbc]
      exact hfr b hblt (fun hS => hapX b hS.1 hb hS.2)
    · rintro (h3 | h3) hcomp
      · exact hapX b h3 hb hcomp
      · exact hdis b hcb h3 hcomp
  obtain ⟨hT1, hT2⟩ := parent_tree (g := g) (g' := g1.write c (.cont (AMap.insert kvs b0 r)))
    (a := c) (cell' := .cont (AMap.insert kvs b0 r)) (i := i) (r' := r)
    (T := fun b => ReachO g (AMap.get? kvs b0) b ∨ Reach g v b)
    (F := fun b => (g.size ≤ b ∨ b = nilAddr ∨ ReachO g (AMap.get? kvs b0) b ∨ Reach g v b) ∧ b < g1.size)
    (get?_write_self _ _ hclt1)
    (by simp [Cell.kids, List.getElem?_map, hi]) hnil'
    (sibSep_of_agree hagr hst) (fun b hb => hrb b (reach_of_agree hb hagr))
    (fun b hb => by
      rcases hb.1 with h1 | h1 | h1 | h1
      · exact Or.inl h1
      · exact Or.inr (Or.inl h1)
      · exact Or.inr (Or.inr (Or.inl h1))
      · exact Or.inr (Or.inr (Or.inr h1)))
    (fun j kj hji hkj => by
      obtain ⟨p, _, hpk, hpm, hpb⟩ := hother j kj hji hkj
      subst hpk
      exact hothers p hpm hpb)
    (fun j1 j2 k1 k2 h1i h2i h12 hk1 hk2 => by
      obtain ⟨p1, hp1j, hp1k, hp1m, _⟩ := hother j1 k1 h1i hk1
      obtain ⟨p2, hp2j, hp2k, hp2m, _⟩ := hother j2 k2 h2i hk2
      subst hp1k; subst hp2k
      exact sibSep_kvs hs hg hp1m hp2m (fun e => h12 (sorted_key_inj hsins hp1j hp2j e)))
  refine ⟨by rw [size_write]; exact hsz, ?_, hT1, ?_⟩
  · intro b hb hnS
    have hbc : b ≠ c := fun e => by subst e; exact hnS ⟨Reach.refl _, hcc⟩
    rw [get?_write_ne _ _ hbc]
    exact hfr b hb (fun hS => hnS ⟨(hcurR b hS.1).1, hS.2⟩)
  · intro b hb
    rw [size_write]
    rcases hT2 b hb with rfl | ⟨h1, h2⟩ | ⟨j, kj, hji, hkj, hkb⟩
    · exact ⟨Or.inr (Or.inr (Or.inl (Reach.refl _))), hclt1⟩
    · refine ⟨?_, h2⟩
      rcases h1 with h3 | h3 | h3 | h3
      · exact Or.inl h3
      · exact Or.inr (Or.inl h3)
      · exact Or.inr (Or.inr (Or.inl (hcurR b h3).1))
      · exact Or.inr (Or.inr (Or.inr h3))
    · obtain ⟨p, _, hpk, hpm, _⟩ := hother j kj hji hkj
      subst hpk
      have hcb : Reach g c b := .step hg (mem_kids_kvs hpm) hkb
      exact ⟨Or.inr (Or.inr (Or.inl hcb)), Nat.lt_of_lt_of_le (hrange b hcb) hsz⟩

/-! ## 5. from the cell the call is made on up to the document root -/

/-- one step up: the (unwritten) parent of a cell with a `TreeRes` has a `TreeRes` -/
theorem lift_step {g g' : Heap} {a x : Addr} {P : Addr → Prop} {cell : Cell} (hn : g.NilOk)
    (hg : g.get? a = some cell) (hx : x ∈ cell.kids) (hs : SibSep g a)
    (hrange : ∀ b, Reach g a b → b < g.size)
    (hacyc : ∀ a' cell k, Reach g a a' → g.get? a' = some cell → k ∈ cell.kids → ¬ Reach g k a')
    (hdis : ∀ b, Reach g a b → P b → ¬ Composite g b)
    (hres : TreeRes g g' x P) : TreeRes g g' a P := by
  obtain ⟨hsz, hfr, hst, hrb⟩ := hres
  obtain ⟨i, hi⟩ := List.mem_iff_getElem?.mp hx
  have halt : a < g.size := get?_lt hg
  have hnilc : ¬ Composite g nilAddr := not_composite_leaf hn
  have hax : ¬ Reach g x a := hacyc a cell x (Reach.refl a) hg hx
  have hget : g'.get? a = some cell := by rw [hfr a halt (fun hS => hax hS.1)]; exact hg
  have hnil' : g'.NilOk := by
    show g'.get? nilAddr = _
    rw [hfr _ (get?_lt hn) (fun hS => hnilc hS.2)]; exact hn
  obtain ⟨hT1, hT2⟩ := parent_tree (g := g) (g' := g') (a := a) (cell' := cell) (i := i) (r' := x)
    (T := fun b => Reach g x b ∨ P b)
    (F := fun b => (g.size ≤ b ∨ b = nilAddr ∨ Reach g x b ∨ P b) ∧ b < g'.size)
    hget hi hnil' hst hrb
    (fun b hb => by
      rcases hb.1 with h1 | h1 | h1 | h1
      · exact Or.inl h1
      · exact Or.inr (Or.inl h1)
      · exact Or.inr (Or.inr (Or.inl h1))
      · exact Or.inr (Or.inr (Or.inr h1)))
    (fun j kj hji hkj => by
      have hkjk : kj ∈ cell.kids := List.mem_of_getElem? hkj
      have hap : Apart g x kj := hs a cell (Reach.refl a) hg i j x kj hi hkj (Ne.symm hji)
      refine ⟨sibSep_of_reach hs (.step hg hkjk (.refl _)), fun b hb => ?_⟩
      have hab : Reach g a b := .step hg hkjk hb
      have hblt := hrange b hab
      refine ⟨hfr b hblt (fun hS => hap b hS.1 hb hS.2), hblt, ?_⟩
      rintro (h3 | h3) hcb
      · exact hap b h3 hb hcb
      · exact hdis b hab h3 hcb)
    (fun j1 j2 k1 k2 _ _ h12 hk1 hk2 => hs a cell (Reach.refl a) hg j1 j2 k1 k2 hk1 hk2 h12)
  refine ⟨hsz, hfr.weaken (fun b hS => ⟨.step hg hx hS.1, hS.2⟩), hT1, fun b hb => ?_⟩
  rcases hT2 b hb with rfl | ⟨h1, h2⟩ | ⟨j, kj, _, hkj, hkb⟩
  · exact ⟨Or.inr (Or.inr (Or.inl (Reach.refl _))), Nat.lt_of_lt_of_le halt hsz⟩
  · refine ⟨?_, h2⟩
    rcases h1 with h3 | h3 | h3 | h3
    · exact Or.inl h3
    · exact Or.inr (Or.inl h3)
    · exact Or.inr (Or.inr (Or.inl (.step hg hx h3)))
    · exact Or.inr (Or.inr (Or.inr h3))
  · have hab : Reach g a b := .step hg (List.mem_of_getElem? hkj) hkb
    exact ⟨Or.inr (Or.inr (Or.inl hab)), Nat.lt_of_lt_of_le (hrange b hab) hsz⟩

/-- all the way up -/
theorem lift_tree {g g' : Heap} {P : Addr → Prop} (hn : g.NilOk) {root c : Addr}
    (hrc : Reach g root c) : SibSep g root → (∀ b, Reach g root b → b < g.size) →
    (∀ a' cell k, Reach g root a' → g.get? a' = some cell → k ∈ cell.kids → ¬ Reach g k a') →
    (∀ b, Reach g root b → P b → ¬ Composite g b) →
    TreeRes g g' c P → TreeRes g g' root P := by
  induction hrc with
  | refl _ => intro _ _ _ _ h; exact h
  | @step a k c cell hg hk _ ih =>
    intro hs hrange hacyc hdis hres
    have hak : Reach g a k := .step hg hk (.refl _)
    exact lift_step hn hg hk hs hrange hacyc hdis
      (ih (sibSep_of_reach hs hak) (fun b hb => hrange b (hak.trans hb))
        (fun a' cell' k' ha' => hacyc a' cell' k' (hak.trans ha'))
        (fun b hb => hdis b (hak.trans hb)) hres)

/-- the local hypotheses from the global invariant -/
theorem range_of_inv {h : Heap} (hi : Inv h) {a : Addr} (ha : a < h.size) :
    ∀ b, Reach h a b → b < h.size := fun _ hb => reach_lt hi.closed hb ha

theorem acyc_of_inv {h : Heap} (hi : Inv h) :
    ∀ a cell k, h.get? a = some cell → k ∈ cell.kids → ¬ Reach h k a := by
  obtain ⟨rank, hr⟩ := hi.acyclic
  exact fun a cell k hg hk => Refine.not_reach_of_kid hr hg hk

/-- a `TreeRes` at a cell below the root makes the document a tree again -/
theorem sibSep_of_treeRes {h h' : Heap} {root c : Addr} {P : Addr → Prop} (hi : Inv h)
    (hs : SibSep h root) (hrc : Reach h root c) (hrl : root < h.size)
    (hdis : ∀ b, Reach h root b → P b → ¬ Composite h b) (hres : TreeRes h h' c P) :
    SibSep h' root :=
  (lift_tree hi.nilOk hrc hs (range_of_inv hi hrl) (fun a cell k _ => acyc_of_inv hi a cell k) hdis
    hres).2.2.1

/-- the attached node (anything that shares at most leaves with the graph below `c`) is untouched -/
theorem sibSep_value {h h' : Heap} {c v : Addr} {P : Addr → Prop} (hi : Inv h) (hsv : SibSep h v)
    (hvl : v < h.size) (hap : Apart h c v) (hres : TreeRes h h' c P) : SibSep h' v :=
  sibSep_of_agree (fun b hb => hres.2.1 b (range_of_inv hi hvl b hb) (fun hS => hap b hS.1 hb hS.2)) hsv

/-! ## 6. AddValue -/

theorem addH_treeRes {h h' : Heap} {c v : Addr} {name : String} (hi : Inv h) (hs : SibSep h c)
    (hsv : SibSep h v) (hap : Apart h c v) (hcl : c < h.size) (hvl : v < h.size)
    (he : addH h c name v = some h') : TreeRes h h' c (Reach h v) :=
  addH_tree hi.nilOk hsv (range_of_inv hi hvl) hs (range_of_inv hi hcl)
    (fun a cell k _ => acyc_of_inv hi a cell k) (fun kvs hg => hi.mapsOk c kvs hg)
    (fun b hcb hvb hcomp => hap b hcb hvb hcomp) he

theorem addH_sibSep {h h' : Heap} {root c v : Addr} {name : String} (hi : Inv h) (hs : SibSep h root)
    (hrc : Reach h root c) (hsv : SibSep h v) (hap : Apart h root v) (hrl : root < h.size)
    (hvl : v < h.size) (he : addH h c name v = some h') : SibSep h' root :=
  sibSep_of_treeRes hi hs hrc hrl (fun b hrb hvb hcomp => hap b hrb hvb hcomp)
    (addH_treeRes hi (sibSep_of_reach hs hrc) hsv (fun b hcb => hap b (hrc.trans hcb))
      (range_of_inv hi hrl c hrc) hvl he)

theorem addH_sibSep_value {h h' : Heap} {root c v : Addr} {name : String} (hi : Inv h)
    (hs : SibSep h root) (hrc : Reach h root c) (hsv : SibSep h v) (hap : Apart h root v)
    (hrl : root < h.size) (hvl : v < h.size) (he : addH h c name v = some h') : SibSep h' v :=
  sibSep_value hi hsv hvl (fun b hcb => hap b (hrc.trans hcb))
    (addH_treeRes hi (sibSep_of_reach hs hrc) hsv (fun b hcb => hap b (hrc.trans hcb))
      (range_of_inv hi hrl c hrc) hvl he)

/-! ## 7. ListBuilder.Set / MustSet / Append -/

/-- a list cell gets new items `ys`: slot `i` holds `v`, every other slot an old item in its old
    slot or the nil leaf -/
theorem write_list_treeRes {g : Heap} {l v : Addr} {xs ys : List Addr} {i : Nat} (hn : g.NilOk)
    (hg : g.get? l = some (.list xs)) (hyi : ys[i]? = some v)
    (hyo : ∀ j kj, j ≠ i → ys[j]? = some kj → PadKid xs j kj)
    (hsv : SibSep g v) (hvr : ∀ b, Reach g v b → b < g.size) (hs : SibSep g l)
    (hrange : ∀ b, Reach g l b → b < g.size)
    (hacyc : ∀ k, k ∈ xs → ¬ Reach g k l)
    (hdis : ∀ b, Reach g l b → Reach g v b → ¬ Composite g b) :
    TreeRes g (g.write l (.list ys)) l (Reach g v) := by
  have hnilc : ¬ Composite g nilAddr := not_composite_leaf hn
  have hnillt : nilAddr < g.size := get?_lt hn
  have hllt : l < g.size := get?_lt hg
  have hlc : Composite g l := composite_list hg
  have hnill : nilAddr ≠ l := fun e => hnilc (e ▸ hlc)
  have hvl : ∀ b, Reach g v b → b ≠ l := by
    intro b hb e
    subst e
    exact hdis b (Reach.refl b) hb hlc
  have hagv : ∀ b, Reach g v b → (g.write l (.list ys)).get? b = g.get? b :=
    fun b hb => get?_write_ne _ _ (hvl b hb)
  have hnil' : (g.write l (.list ys)).NilOk := by
    show Heap.get? _ nilAddr = _
    rw [get?_write_ne _ _ hnill]; exact hn
  obtain ⟨hT1, hT2⟩ := parent_tree (g := g) (g' := g.write l (.list ys)) (a := l)
    (cell' := .list ys) (i := i) (r' := v) (T := fun b => Reach g v b) (F := fun b => Reach g v b)
    (get?_write_self _ _ hllt) (by simpa only [Cell.kids] using hyi) hnil'
    (sibSep_of_agree hagv hsv) (fun b hb => reach_of_agree hb hagv)
    (fun b hb => Or.inr (Or.inr hb))
    (fun j kj hji hkj => by
      rcases hyo j kj hji (by simpa only [Cell.kids] using hkj) with h1 | rfl
      · have hkjk : kj ∈ (Cell.list xs).kids := mem_kids_list (List.mem_of_getElem? h1)
        refine ⟨sibSep_of_reach hs (.step hg hkjk (.refl _)), fun b hb => ?_⟩
        have hlb : Reach g l b := .step hg hkjk hb
        have hbl : b ≠ l := fun e => hacyc kj (List.mem_of_getElem? h1) (e ▸ hb)
        exact ⟨get?_write_ne _ _ hbl, hrange b hlb, fun hvb hcb => hdis b hlb hvb hcb⟩
      · refine ⟨sibSep_leaf hn, fun b hb => ?_⟩
        have := reach_leaf hn hb
        subst this
        exact ⟨get?_write_ne _ _ hnill, hnillt, fun _ => hnilc⟩)
    (fun j1 j2 k1 k2 h1i h2i h12 hk1 hk2 => padKid_apart hn hs hg h12
      (hyo j1 k1 h1i (by simpa only [Cell.kids] using hk1))
      (hyo j2 k2 h2i (by simpa only [Cell.kids] using hk2)))
  refine ⟨by rw [size_write]; exact Nat.le_refl _, ?_, hT1, fun b hb => ?_⟩
  · intro b _ hnS
    have hbl : b ≠ l := fun e => by subst e; exact hnS ⟨Reach.refl _, hlc⟩
    exact get?_write_ne _ _ hbl
  · rw [size_write]
    rcases hT2 b hb with rfl | h1 | ⟨j, kj, hji, hkj, hkb⟩
    · exact ⟨Or.inr (Or.inr (Or.inl (Reach.refl _))), hllt⟩
    · exact ⟨Or.inr (Or.inr (Or.inr h1)), hvr b h1⟩
    · rcases hyo j kj hji (by simpa only [Cell.kids] using hkj) with h1 | rfl
      · have hlb : Reach g l b := .step hg (mem_kids_list (List.mem_of_getElem? h1)) hkb
        exact ⟨Or.inr (Or.inr (Or.inl hlb)), hrange b hlb⟩
      · have := reach_leaf hn hkb
        subst this
        exact ⟨Or.inr (Or.inl rfl), hnillt⟩

/-- the common part of the three list writes, from the global invariant -/
theorem list_write_treeRes {h : Heap} {l v : Addr} {xs ys : List Addr} {i : Nat} (hi : Inv h)
    (hg : h.get? l = some (.list xs)) (hyi : ys[i]? = some v)
    (hyo : ∀ j kj, j ≠ i → ys[j]? = some kj → PadKid xs j kj)
    (hs : SibSep h l) (hsv : SibSep h v) (hap : Apart h l v) (hvl : v < h.size) :
    TreeRes h (h.write l (.list ys)) l (Reach h v) :=
  write_list_treeRes hi.nilOk hg hyi hyo hsv (range_of_inv hi hvl) hs (range_of_inv hi (get?_lt hg))
    (fun k hk => acyc_of_inv hi l _ k hg (mem_kids_list hk))
    (fun b hlb hvb hcomp => hap b hlb hvb hcomp)

theorem listSet_treeRes {h h' : Heap} {l v : Addr} {i : Nat} (hi : Inv h) (hs : SibSep h l)
    (hsv : SibSep h v) (hap : Apart h l v) (hvl : v < h.size)
    (he : Ytk.Heap.listSet h l i v = some h') : TreeRes h h' l (Reach h v) := by
  unfold Ytk.Heap.listSet at he
  split at he
  · rename_i xs hg
    cases he
    refine list_write_treeRes (i := i) (xs := xs) hi hg ?_ ?_ hs hsv hap hvl
    · exact List.getElem?_set_self (lt_padH_length xs i)
    · intro j kj hji hkj
      exact padKid_of_set (n := i + 1) hji hkj
  · cases he

theorem listMustSetH_treeRes {h h' : Heap} {l v : Addr} {i : Nat} (hi : Inv h) (hs : SibSep h l)
    (hsv : SibSep h v) (hap : Apart h l v) (hvl : v < h.size)
    (he : listMustSetH h l i v = .ok h') : TreeRes h h' l (Reach h v) := by
  unfold listMustSetH at he
  split at he
  · rename_i xs hg
    split at he
    · rename_i hlt
      cases he
      refine list_write_treeRes (i := i) (xs := xs) hi hg (List.getElem?_set_self hlt) ?_ hs hsv hap hvl
      intro j kj hji hkj
      rw [List.getElem?_set_ne (Ne.symm hji)] at hkj
      exact Or.inl hkj
    · cases he
  · cases he

theorem listAppend_treeRes {h h' : Heap} {l v : Addr} (hi : Inv h) (hs : SibSep h l)
    (hsv : SibSep h v) (hap : Apart h l v) (hvl : v < h.size)
    (he : Ytk.Heap.listAppend h l v = some h') : TreeRes h h' l (Reach h v) := by
  unfold Ytk.Heap.listAppend at he
  split at he
  · rename_i xs hg
    cases he
    refine list_write_treeRes (i := xs.length) (xs := xs) hi hg (by simp) ?_ hs hsv hap hvl
    intro j kj hji hkj
    by_cases hj : j < xs.length
    · rw [List.getElem?_append_left hj] at hkj
      exact Or.inl hkj
    · have : (xs ++ [v])[j]? = none := by
        rw [List.getElem?_eq_none_iff]; simp; omega
      rw [this] at hkj; cases hkj
  · cases he

section listops
variable {h h' : Heap} {root l v : Addr}

theorem listSet_sibSep {i : Nat} (hi : Inv h) (hs : SibSep h root) (hrl' : Reach h root l)
    (hsv : SibSep h v) (hap : Apart h root v) (hrl : root < h.size) (hvl : v < h.size)
    (he : Ytk.Heap.listSet h l i v = some h') : SibSep h' root :=
  sibSep_of_treeRes hi hs hrl' hrl (fun b hrb hvb hcomp => hap b hrb hvb hcomp)
    (listSet_treeRes hi (sibSep_of_reach hs hrl') hsv (fun b hlb => hap b (hrl'.trans hlb)) hvl he)

theorem listMustSetH_sibSep {i : Nat} (hi : Inv h) (hs : SibSep h root) (hrl' : Reach h root l)
    (hsv : SibSep h v) (hap : Apart h root v) (hrl : root < h.size) (hvl : v < h.size)
    (he : listMustSetH h l i v = .ok h') : SibSep h' root :=
  sibSep_of_treeRes hi hs hrl' hrl (fun b hrb hvb hcomp => hap b hrb hvb hcomp)
    (listMustSetH_treeRes hi (sibSep_of_reach hs hrl') hsv (fun b hlb => hap b (hrl'.trans hlb)) hvl he)

theorem listAppend_sibSep (hi : Inv h) (hs : SibSep h root) (hrl' : Reach h root l)
    (hsv : SibSep h v) (hap : Apart h root v) (hrl : root < h.size) (hvl : v < h.size)
    (he : Ytk.Heap.listAppend h l v = some h') : SibSep h' root :=
  sibSep_of_treeRes hi hs hrl' hrl (fun b hrb hvb hcomp => hap b hrb hvb hcomp)
    (listAppend_treeRes hi (sibSep_of_reach hs hrl') hsv (fun b hlb => hap b (hrl'.trans hlb)) hvl he)

theorem listSet_sibSep_value {i : Nat} (hi : Inv h) (hs : SibSep h root) (hrl' : Reach h root l)
    (hsv : SibSep h v) (hap : Apart h root v) (hrl : root < h.size) (hvl : v < h.size)
    (he : Ytk.Heap.listSet h l i v = some h') : SibSep h' v :=
  sibSep_value hi hsv hvl (fun b hlb => hap b (hrl'.trans hlb))
    (listSet_treeRes hi (sibSep_of_reach hs hrl') hsv (fun b hlb => hap b (hrl'.trans hlb)) hvl he)

theorem listMustSetH_sibSep_value {i : Nat} (hi : Inv h) (hs : SibSep h root) (hrl' : Reach h root l)
    (hsv : SibSep h v) (hap : Apart h root v) (hrl : root < h.size) (hvl : v < h.size)
    (he : listMustSetH h l i v = .ok h') : SibSep h' v :=
  sibSep_value hi hsv hvl (fun b hlb => hap b (hrl'.trans hlb))
    (listMustSetH_treeRes hi (sibSep_of_reach hs hrl') hsv (fun b hlb => hap b (hrl'.trans hlb)) hvl he)

theorem listAppend_sibSep_value (hi : Inv h) (hs : SibSep h root) (hrl' : Reach h root l)
    (hsv : SibSep h v) (hap : Apart h root v) (hrl : root < h.size) (hvl : v < h.size)
    (he : Ytk.Heap.listAppend h l v = some h') : SibSep h' v :=
  sibSep_value hi hsv hvl (fun b hlb => hap b (hrl'.trans hlb))
    (listAppend_treeRes hi (sibSep_of_reach hs hrl') hsv (fun b hlb => hap b (hrl'.trans hlb)) hvl he)

end listops

/-! ## 8. attaching a node built from NEW cells (spineH, AddContainer, AddList) -/

/-- `h1` extends `g` by new cells only; `r` is a tree of `h1` made of new cells, the nil leaf and a
    region `Pg` of `g`; then `add(name, r)` on `c` is as in `addH_tree`, stated relative to `g` -/
theorem ext_addH_tree {g h1 g' : Heap} {c r : Addr} {name : String} {Pg : Addr → Prop}
    (hn : g.NilOk) (hs : SibSep g c) (hrange : ∀ b, Reach g c b → b < g.size)
    (hacyc : ∀ a cell k, Reach g c a → g.get? a = some cell → k ∈ cell.kids → ¬ Reach g k a)
    (hsort : ∀ kvs, g.get? c = some (.cont kvs) → AMap.Sorted kvs)
    (hdis : ∀ b, Reach g c b → Pg b → ¬ Composite g b)
    (hsz1 : g.size ≤ h1.size) (hfr1 : ∀ b, b < g.size → h1.get? b = g.get? b)
    (hsr : SibSep h1 r)
    (hrr : ∀ b, Reach h1 r b → (g.size ≤ b ∨ b = nilAddr ∨ Pg b) ∧ b < h1.size)
    (he : addH h1 c name r = some g') : TreeRes g g' c Pg := by
  have hagc : ∀ b, Reach g c b → h1.get? b = g.get? b := fun b hb => hfr1 b (hrange b hb)
  have hR : ∀ b, Reach h1 c b → Reach g c b := fun b hb => reach_of_agree hb hagc
  have hn1 : h1.NilOk := by
    show h1.get? nilAddr = _
    rw [hfr1 _ (get?_lt hn)]; exact hn
  have hcomp : ∀ b, Reach g c b → Composite h1 b → Composite g b := by
    rintro b hb ⟨cell, hcell, hl⟩
    exact ⟨cell, by rw [← hagc b hb]; exact hcell, hl⟩
  obtain ⟨hsz, hfr, hst, hrb⟩ := addH_tree (g := h1) (g' := g') (c := c) (v := r) (name := name) hn1 hsr
    (fun b hb => (hrr b hb).2) (sibSep_of_agree hagc hs)
    (fun b hb => Nat.lt_of_lt_of_le (hrange b (hR b hb)) hsz1)
    (fun a cell k ha hga hk hka => by
      have hca := hR a ha
      rw [hagc a hca] at hga
      have hck : Reach g c k := hca.trans (.step hga hk (.refl _))
      exact hacyc a cell k hca hga hk (reach_of_agree hka (fun b' hb' => hagc b' (hck.trans hb'))))
    (fun kvs hg => hsort kvs (by rw [← hagc c (.refl c)]; exact hg))
    (fun b hb hrb' hcb => by
      have hgb := hR b hb
      have hcg := hcomp b hgb hcb
      rcases (hrr b hrb').1 with h3 | rfl | h3
      · exact Nat.not_le.mpr (hrange b hgb) h3
      · exact not_composite_leaf hn hcg
      · exact hdis b hgb h3 hcg) he
  refine ⟨Nat.le_trans hsz1 hsz, ?_, hst, fun b hb => ?_⟩
  · intro b hb hnS
    rw [hfr b (Nat.lt_of_lt_of_le hb hsz1) (fun hS => hnS ⟨hR b hS.1, hcomp b (hR b hS.1) hS.2⟩)]
    exact hfr1 b hb
  · refine ⟨?_, (hrb b hb).2⟩
    rcases (hrb b hb).1 with h3 | h3 | h3 | h3
    · exact Or.inl (Nat.le_trans hsz1 h3)
    · exact Or.inr (Or.inl h3)
    · exact Or.inr (Or.inr (Or.inl (hR b h3)))
    · rcases (hrr b h3).1 with h4 | h4 | h4
      · exact Or.inl h4
      · exact Or.inr (Or.inl h4)
      · exact Or.inr (Or.inr (Or.inr h4))

theorem spineH_eq {g : Heap} {v : Addr} {p b0 : String} {rest : List String} {is : List Nat}
    (hp : parseSeg p = (b0, is)) :
    spineH g (p :: rest) v =
      (setSlotH (spineH g rest v).1 none is (spineH g rest v).2).1.alloc
        (.cont [(b0, (setSlotH (spineH g rest v).1 none is (spineH g rest v).2).2)]) := by
  simp only [spineH, hp]
  cases is with
  | nil =>
    have := parseSeg_nil_base hp
    subst this
    simp only [setSlotH]
  | cons i is => rfl

/-- the new containers of `ancestorOf(path, create)` form a tree over `v` -/
theorem spineH_tree {g : Heap} {v : Addr} (hn : g.NilOk) (hsv : SibSep g v)
    (hvr : ∀ b, Reach g v b → b < g.size) : ∀ (segs : List String),
      g.size ≤ (spineH g segs v).1.size ∧ (∀ b, b < g.size → (spineH g segs v).1.get? b = g.get? b) ∧
      SibSep (spineH g segs v).1 (spineH g segs v).2 ∧
      ∀ b, Reach (spineH g segs v).1 (spineH g segs v).2 b →
        (g.size ≤ b ∨ b = nilAddr ∨ Reach g v b) ∧ b < (spineH g segs v).1.size
  | [] => ⟨Nat.le_refl _, fun _ _ => rfl, hsv, fun b hb => ⟨Or.inr (Or.inr hb), hvr b hb⟩⟩
  | p :: rest => by
    obtain ⟨hsz, hfr, hst, hrb⟩ := spineH_tree hn hsv hvr rest
    cases hp : parseSeg p with
    | mk b0 is =>
    rw [spineH_eq hp]
    generalize (spineH g rest v).1 = h1 at *
    generalize (spineH g rest v).2 = r at *
    have hnillt : nilAddr < g.size := get?_lt hn
    have hn1 : h1.NilOk := by
      show h1.get? nilAddr = _
      rw [hfr _ hnillt]; exact hn
    obtain ⟨hsz2, hfr2, hst2, hrb2⟩ := setSlotH_tree hn1 hst (fun b hb => (hrb b hb).2) is none
      (fun a ha => by cases ha) (fun b hb => absurd hb id) (fun a _ _ ha => absurd ha id)
      (fun b hb => absurd hb id)
    generalize (setSlotH h1 none is r).1 = h2 at *
    generalize (setSlotH h1 none is r).2 = r2 at *
    have hag2 : ∀ b, Reach h2 r2 b → (h2.alloc (.cont [(b0, r2)])).1.get? b = h2.get? b :=
      fun b hb => get?_eq_of_le (le_alloc h2 _) (hrb2 b hb).2
    have hold : ∀ b, b < g.size → (h2.alloc (.cont [(b0, r2)])).1.get? b = g.get? b := by
      intro b hb
      have h1lt : b < h1.size := Nat.lt_of_lt_of_le hb hsz
      rw [get?_eq_of_le (le_alloc h2 _) (Nat.lt_of_lt_of_le h1lt hsz2), hfr2 b h1lt (fun hS => hS.1)]
      exact hfr b hb
    have hnil' : (h2.alloc (.cont [(b0, r2)])).1.NilOk := by
      show Heap.get? _ nilAddr = _
      rw [hold _ hnillt]; exact hn
    obtain ⟨hT1, hT2⟩ := parent_tree (g := g) (g' := (h2.alloc (.cont [(b0, r2)])).1) (a := h2.size)
      (cell' := .cont [(b0, r2)]) (i := 0) (r' := r2) (T := fun b => Reach g v b)
      (F := fun b => (g.size ≤ b ∨ b = nilAddr ∨ Reach g v b) ∧ b < h2.size)
      (get?_alloc_new _ _) (by simp [Cell.kids]) hnil'
      (sibSep_of_agree hag2 hst2)
      (fun b hb => by
        obtain ⟨h3, h4⟩ := hrb2 b (reach_of_agree hb hag2)
        refine ⟨?_, h4⟩
        rcases h3 with h5 | h5 | h5 | h5
        · exact Or.inl (Nat.le_trans hsz h5)
        · exact Or.inr (Or.inl h5)
        · exact absurd h5 id
        · exact (hrb b h5).1)
      (fun b hb => hb.1)
      (fun j kj hj hkj => by
        cases j with
        | zero => exact absurd rfl hj
        | succ j => simp [Cell.kids] at hkj)
      (fun j1 j2 k1 k2 h1i _ _ hk1 _ => by
        cases j1 with
        | zero => exact absurd rfl h1i
        | succ j => simp [Cell.kids] at hk1)
    rw [alloc_snd]
    refine ⟨by rw [size_alloc]; omega, hold, hT1, fun b hb => ?_⟩
    rw [size_alloc]
    rcases hT2 b hb with rfl | ⟨h3, h4⟩ | ⟨j, kj, hj, hkj, _⟩
    · exact ⟨Or.inl (Nat.le_trans hsz hsz2), Nat.lt_succ_self _⟩
    · exact ⟨h3, Nat.lt_succ_of_lt h4⟩
    · cases j with
      | zero => exact absurd rfl hj
      | succ j => simp [Cell.kids] at hkj

/-! ## 9. AddValueAt -/

theorem treeRes_refl {g : Heap} {c : Addr} {P : Addr → Prop} (hs : SibSep g c)
    (hrange : ∀ b, Reach g c b → b < g.size) : TreeRes g g c P :=
  ⟨Nat.le_refl _, fun _ _ _ => rfl, hs, fun b hb => ⟨Or.inr (Or.inr (Or.inl hb)), hrange b hb⟩⟩

theorem addAtSegsH_treeRes {g : Heap} {v : Addr} (hi : Inv g) (hsv : SibSep g v) (hvl : v < g.size) :
    ∀ (segs : List String) (c : Addr) (g' : Heap), SibSep g c → c < g.size → Apart g c v →
      addAtSegsH g c segs v = some g' → TreeRes g g' c (Reach g v)
  | [], c, g', hs, hcl, _, he => by
    simp only [addAtSegsH, Option.some.injEq] at he
    subst he
    exact treeRes_refl hs (range_of_inv hi hcl)
  | [last], c, g', hs, hcl, hap, he => by
    simp only [addAtSegsH] at he
    exact addH_treeRes hi hs hsv hap hcl hvl he
  | p :: q :: rest, c, g', hs, hcl, hap, he => by
    simp only [addAtSegsH] at he
    cases hcc : contChildH g c p with
    | some x =>
      simp only [hcc] at he
      have hcx : Reach g c x := childH_reach (contChildH_some hcc).1
      have hres := addAtSegsH_treeRes hi hsv hvl (q :: rest) x g' (sibSep_of_reach hs hcx)
        (range_of_inv hi hcl x hcx) (fun b hxb => hap b (hcx.trans hxb)) he
      exact lift_tree hi.nilOk hcx hs (range_of_inv hi hcl) (fun a cell k _ => acyc_of_inv hi a cell k)
        (fun b hcb hvb hcomp => hap b hcb hvb hcomp) hres
    | none =>
      simp only [hcc] at he
      obtain ⟨hsz1, hfr1, hsr, hrr⟩ := spineH_tree hi.nilOk hsv (range_of_inv hi hvl) (q :: rest)
      exact ext_addH_tree hi.nilOk hs (range_of_inv hi hcl) (fun a cell k _ => acyc_of_inv hi a cell k)
        (fun kvs hg => hi.mapsOk c kvs hg) (fun b hcb hvb hcomp => hap b hcb hvb hcomp) hsz1 hfr1 hsr hrr he

section paths
variable {h h' : Heap} {root c v : Addr}

theorem addAtSegsH_sibSep {segs : List String} (hi : Inv h) (hs : SibSep h root) (hrc : Reach h root c)
    (hsv : SibSep h v) (hap : Apart h root v) (hrl : root < h.size) (hvl : v < h.size)
    (he : addAtSegsH h c segs v = some h') : SibSep h' root :=
  sibSep_of_treeRes hi hs hrc hrl (fun b hrb hvb hcomp => hap b hrb hvb hcomp)
    (addAtSegsH_treeRes hi hsv hvl segs c h' (sibSep_of_reach hs hrc) (range_of_inv hi hrl c hrc)
      (fun b hcb => hap b (hrc.trans hcb)) he)

theorem addValueAtH_sibSep {path : String} (hi : Inv h) (hs : SibSep h root) (hrc : Reach h root c)
    (hsv : SibSep h v) (hap : Apart h root v) (hrl : root < h.size) (hvl : v < h.size)
    (he : addValueAtH h c path v = some h') : SibSep h' root :=
  addAtSegsH_sibSep hi hs hrc hsv hap hrl hvl he

theorem addAtSegsH_sibSep_value {segs : List String} (hi : Inv h) (hs : SibSep h root)
    (hrc : Reach h root c) (hsv : SibSep h v) (hap : Apart h root v) (hrl : root < h.size)
    (hvl : v < h.size) (he : addAtSegsH h c segs v = some h') : SibSep h' v :=
  sibSep_value hi hsv hvl (fun b hcb => hap b (hrc.trans hcb))
    (addAtSegsH_treeRes hi hsv hvl segs c h' (sibSep_of_reach hs hrc) (range_of_inv hi hrl c hrc)
      (fun b hcb => hap b (hrc.trans hcb)) he)

end paths

/-! ## 10. AddContainer / AddList -/

theorem sibSep_nokids {h : Heap} {a : Addr} {cell : Cell} (hg : h.get? a = some cell)
    (hk : cell.kids = []) : SibSep h a ∧ ∀ b, Reach h a b → b = a := by
  have hr : ∀ b, Reach h a b → b = a := by
    intro b hb
    cases hb with
    | refl => rfl
    | step hg' hk' _ =>
      rw [hg] at hg'; cases hg'
      rw [hk] at hk'; cases hk'
  refine ⟨?_, hr⟩
  intro x cx hx hgx i j ki kj hi' _ _
  have := hr x hx
  subst this
  rw [hg] at hgx; cases hgx
  rw [hk] at hi'; simp at hi'

/-- attaching a NEW childless cell `c0` (AddContainer / AddList) -/
theorem addNew_treeRes {h h2 : Heap} {c : Addr} {name : String} {c0 : Cell} (hk : c0.kids = [])
    (hi : Inv h) (hs : SibSep h c) (hcl : c < h.size)
    (he : addH (h.alloc c0).1 c name h.size = some h2) : TreeRes h h2 c (fun _ => False) := by
  obtain ⟨hsb, hrb⟩ := sibSep_nokids (get?_alloc_new h c0) hk
  exact ext_addH_tree (Pg := fun _ => False) hi.nilOk hs (range_of_inv hi hcl)
    (fun a cell k _ => acyc_of_inv hi a cell k) (fun kvs hg => hi.mapsOk c kvs hg)
    (fun _ _ hf => absurd hf id) (by rw [size_alloc]; omega)
    (fun b hb => get?_eq_of_le (le_alloc h c0) hb) hsb
    (fun b hb => by
      rw [hrb b hb, size_alloc]
      exact ⟨Or.inl (Nat.le_refl _), Nat.lt_succ_self _⟩) he

section addnew
variable {h h' : Heap} {root c b : Addr} {name : String}

theorem addContainerH_sibSep (hi : Inv h) (hs : SibSep h root) (hrc : Reach h root c)
    (hrl : root < h.size) (he : addContainerH h c name = some (h', b)) : SibSep h' root := by
  unfold addContainerH at he
  simp only at he
  split at he
  · rename_i h2 he'
    simp only [Option.some.injEq, Prod.mk.injEq] at he
    obtain ⟨rfl, _⟩ := he
    exact sibSep_of_treeRes hi hs hrc hrl (fun _ _ hf => absurd hf id)
      (addNew_treeRes rfl hi (sibSep_of_reach hs hrc) (range_of_inv hi hrl c hrc) he')
  · cases he

theorem addListH_sibSep (hi : Inv h) (hs : SibSep h root) (hrc : Reach h root c)
    (hrl : root < h.size) (he : addListH h c name = some (h', b)) : SibSep h' root := by
  unfold addListH at he
  simp only at he
  split at he
  · rename_i h2 he'
    simp only [Option.some.injEq, Prod.mk.injEq] at he
    obtain ⟨rfl, _⟩ := he
    exact sibSep_of_treeRes hi hs hrc hrl (fun _ _ hf => absurd hf id)
      (addNew_treeRes rfl hi (sibSep_of_reach hs hrc) (range_of_inv hi hrl c hrc) he')
  · cases he

/-- the new handle is an (empty) tree -/
theorem addContainerH_sibSep_new (hi : Inv h) (hcl : c < h.size)
    (he : addContainerH h c name = some (h', b)) : SibSep h' b := by
  obtain ⟨rank, hr⟩ := hi.acyclic
  obtain ⟨_, hg, _⟩ := addContainerH_fresh hi.closed hr hi.nilOk hi.mapsOk hcl he
  exact (sibSep_nokids hg rfl).1

theorem addListH_sibSep_new (hi : Inv h) (hcl : c < h.size)
    (he : addListH h c name = some (h', b)) : SibSep h' b := by
  obtain ⟨rank, hr⟩ := hi.acyclic
  obtain ⟨_, hg, _⟩ := addListH_fresh hi.closed hr hi.nilOk hi.mapsOk hcl he
  exact (sibSep_nokids hg rfl).1

end addnew

end Ytk.Heap.Tree
