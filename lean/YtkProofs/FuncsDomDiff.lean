/-
  YtkProofs.FuncsDomDiff — the regenerated translation of diff/diff.go (flatten*, diffList,
  handleExisting, diff) in YtkModel/Generated/FuncsDom.lean EQUALS the hand-written model of
  YtkModel/Diff.lean (flatNode / flatList / flatKvs, emitNode / emitLeft / emitRight), for all
  inputs.  Restated in YtkProps/C07.lean.
-/
import YtkModel.Generated.FuncsDom
import YtkModel.Diff
import YtkProofs.FuncsLemmas
import YtkProofs.FuncsDomEquals

set_option linter.unusedSimpArgs false

namespace Ytk.FuncsDomDiff
open Ytk Ytk.Generated

/-- a model `Mod` as the Go struct `diff.Modification` of the translation -/
def modToGo (m : Mod) : FuncsDom.diff_Modification :=
  { Type_ := m.ty.name, Path := m.path, Value := m.value, OldValue := m.old }

abbrev G (ms : List Mod) : List FuncsDom.diff_Modification := ms.map modToGo

theorem toPath_eq (p k : String) : Funcs.ToPath p k = toPath p k := by
  simp [Funcs.ToPath, toPath, Go.len_beq_zero, Go.fmtS, String.append_assoc]

theorem toListPath_eq (p : String) (i : Nat) : Funcs.ToListPath p (i : Int) = toListPath p i := by
  simp only [Funcs.ToListPath, toListPath, Go.len_beq_zero, Go.fmtD_nat]
  split
  · next h => simp at h; subst h; simp [String.append_assoc]
  · simp [String.append_assoc]

theorem sprintf_eq (p : String) (i : Nat) : (Go.fmtS p ++ "[" ++ Go.fmtD (i : Int) ++ "]") = toListPath p i := by
  simp [toListPath, Go.fmtS, Go.fmtD_nat]

theorem natCast_succ' (i : Nat) : ((i : Int) + 1) = ((i + 1 : Nat) : Int) := by omega

theorem appendMod_eq (t : ModType) (p : String) (v o : Scalar) (res : List FuncsDom.diff_Modification) :
    FuncsDom.appendMod t.name p v o res = .ok (res ++ G [⟨t, p, v, o⟩]) := rfl

theorem appendMod_str (t p : String) (v o : Scalar) (res : List FuncsDom.diff_Modification) :
    FuncsDom.appendMod t p v o res = .ok (res ++ [{ Type_ := t, Path := p, Value := v, OldValue := o }]) := rfl

theorem flattenLeaf_eq (s : Scalar) (p : String) (res : List FuncsDom.diff_Modification) :
    FuncsDom.flattenLeaf s p res = .ok (res ++ G [Mod.mkAdd p s]) := rfl

/-! ## flattenContainer / flattenList -/

section flatten
variable (rc : GoDom.Container → String → List FuncsDom.diff_Modification → Go.Res (List FuncsDom.diff_Modification))
  (rl : GoDom.DList → String → List FuncsDom.diff_Modification → Go.Res (List FuncsDom.diff_Modification))
  (N : Nat)
  (hrc : ∀ c p res, Node.sizeKvs c < N → rc c p res = .ok (res ++ G (flatKvs c p)))
  (hrl : ∀ l p res, Node.sizeList l < N → rl l p res = .ok (res ++ G (flatList l p 0)))

include hrc hrl in
theorem flatC_loop_eq (p : String) : ∀ (kvs : List (String × Node)) (res : List FuncsDom.diff_Modification),
    Node.sizeKvs kvs ≤ N →
    FuncsDom.flattenContainer_loop1 rc rl p kvs res = .ok (res ++ G (flatKvs kvs p)) := by
  intro kvs
  induction kvs with
  | nil => intro res _; simp [FuncsDom.flattenContainer_loop1, flatKvs, G]
  | cons q rest ih =>
    intro res hs
    obtain ⟨k, n⟩ := q
    have hsz : n.size + Node.sizeKvs rest = Node.sizeKvs ((k, n) :: rest) := by simp [Node.sizeKvs]
    have ih' := fun r => ih r (by omega)
    cases n with
    | cont c =>
      have : Node.sizeKvs c < N := by simp only [Node.size] at hsz; omega
      simp only [FuncsDom.flattenContainer_loop1, GoDom.isContainer, Node.isCont, if_true, GoDom.asContainer,
        Go.Res.ok_bind, toPath_eq, hrc _ _ _ this, ih']
      simp [flatKvs, flatNode, G, List.append_assoc]
    | list l =>
      have : Node.sizeList l < N := by simp only [Node.size] at hsz; omega
      simp only [FuncsDom.flattenContainer_loop1, GoDom.isContainer, GoDom.isList, Node.isCont, Node.isList,
        Bool.false_eq_true, if_false, if_true, GoDom.asList, Go.Res.ok_bind, toPath_eq, hrl _ _ _ this, ih']
      simp [flatKvs, flatNode, G, List.append_assoc]
    | leaf s =>
      simp only [FuncsDom.flattenContainer_loop1, GoDom.isContainer, GoDom.isList, Node.isCont, Node.isList,
        Bool.false_eq_true, if_false, GoDom.asLeaf, Go.Res.ok_bind, toPath_eq, flattenLeaf_eq, ih']
      simp [flatKvs, flatNode, G, List.append_assoc]

include hrc hrl in
theorem flatL_loop_eq (p : String) : ∀ (xs : List Node) (i : Nat) (res : List FuncsDom.diff_Modification),
    Node.sizeList xs ≤ N →
    FuncsDom.flattenList_loop1 rc rl p xs (i : Int) res = .ok (res ++ G (flatList xs p i)) := by
  intro xs
  induction xs with
  | nil => intro i res _; simp [FuncsDom.flattenList_loop1, flatList, G]
  | cons n rest ih =>
    intro i res hs
    have hsz : n.size + Node.sizeList rest = Node.sizeList (n :: rest) := by simp [Node.sizeList]
    have ih' := fun r => ih (i + 1) r (by omega)
    cases n with
    | cont c =>
      have : Node.sizeKvs c < N := by simp only [Node.size] at hsz; omega
      simp only [FuncsDom.flattenList_loop1, GoDom.isContainer, Node.isCont, if_true, GoDom.asContainer,
        Go.Res.ok_bind, sprintf_eq, hrc _ _ _ this, natCast_succ', ih']
      simp [flatList, flatNode, G, List.append_assoc]
    | list l =>
      have : Node.sizeList l < N := by simp only [Node.size] at hsz; omega
      simp only [FuncsDom.flattenList_loop1, GoDom.isContainer, GoDom.isList, Node.isCont, Node.isList,
        Bool.false_eq_true, if_false, if_true, GoDom.asList, Go.Res.ok_bind, toListPath_eq, hrl _ _ _ this,
        natCast_succ', ih']
      simp [flatList, flatNode, G, List.append_assoc]
    | leaf s =>
      simp only [FuncsDom.flattenList_loop1, GoDom.isContainer, GoDom.isList, Node.isCont, Node.isList,
        Bool.false_eq_true, if_false, GoDom.asLeaf, Go.Res.ok_bind, sprintf_eq, flattenLeaf_eq, natCast_succ', ih']
      simp [flatList, flatNode, G, List.append_assoc]
end flatten

theorem flatten_rec_eq : ∀ (fuel : Nat),
    (∀ c p res, Node.sizeKvs c < fuel → FuncsDom.flattenContainer_rec fuel c p res = .ok (res ++ G (flatKvs c p))) ∧
    (∀ l p res, Node.sizeList l < fuel → FuncsDom.flattenList_rec fuel l p res = .ok (res ++ G (flatList l p 0))) := by
  intro fuel
  induction fuel with
  | zero => exact ⟨fun _ _ _ h => by omega, fun _ _ _ h => by omega⟩
  | succ fuel ih =>
    refine ⟨fun c p res h => ?_, fun l p res h => ?_⟩
    · simp only [FuncsDom.flattenContainer_rec, GoDom.children]
      rw [flatC_loop_eq _ _ fuel ih.1 ih.2 p c res (by omega)]
    · simp only [FuncsDom.flattenList_rec, GoDom.items]
      have := flatL_loop_eq _ _ fuel ih.1 ih.2 p l 0 res (by omega)
      simp only [Int.natCast_zero] at this
      rw [this]

theorem flattenContainer_generated_eq_model (c : AMap Node) (p : String) (res : List FuncsDom.diff_Modification) :
    FuncsDom.flattenContainer c p res = .ok (res ++ G (flatKvs c p)) :=
  (flatten_rec_eq _).1 c p res (by simp [GoDom.sizeC])

theorem flattenList_generated_eq_model (l : List Node) (p : String) (res : List FuncsDom.diff_Modification) :
    FuncsDom.flattenList l p res = .ok (res ++ G (flatList l p 0)) :=
  (flatten_rec_eq _).2 l p res (by simp [GoDom.sizeL])

theorem flattenNode_generated_eq_model (n : Node) (p : String) (res : List FuncsDom.diff_Modification) :
    FuncsDom.flattenNode n p res = .ok (res ++ G (flatNode n p)) := by
  cases n with
  | cont c =>
    simp [FuncsDom.flattenNode, GoDom.isContainer, Node.isCont, GoDom.asContainer,
      flattenContainer_generated_eq_model, flatNode]
  | list l =>
    simp [FuncsDom.flattenNode, GoDom.isContainer, GoDom.isList, Node.isCont, Node.isList, GoDom.asList,
      flattenList_generated_eq_model, flatNode]
  | leaf s =>
    simp [FuncsDom.flattenNode, GoDom.isContainer, GoDom.isList, Node.isCont, Node.isList, GoDom.asLeaf,
      flattenLeaf_eq, flatNode]

/-! ## diffList / handleExisting / diff -/

theorem diffList_generated_eq_model (l r : List Node) (p : String) (res : List FuncsDom.diff_Modification) :
    FuncsDom.diffList l r p res = .ok (res ++ G (emitNode (.list l) (.list r) p)) := by
  -- `left.Equals(right)` is the GENERATED dispatcher `FuncsDom.Equals` (Equals_generated_eq_model)
  simp only [FuncsDom.diffList, FuncsDomEquals.Equals_generated_eq_model, Go.Res.ok_bind, GoDom.equals, emitNode]
  by_cases h : equals (.list l) (.list r) = true
  · simp [h, G]
  · simp [h, appendMod_str, flattenList_generated_eq_model, G, modToGo, Mod.mkDel, ModType.name, GoDom.anyNil]

theorem diff_loop2_eq (left : AMap Node) (p : String) : ∀ (kvs : List (String × Node))
    (res : List FuncsDom.diff_Modification),
    FuncsDom.diff_loop2 left p kvs res = .ok (res ++ G (emitRight kvs left p)) := by
  intro kvs
  induction kvs with
  | nil => intro res; simp [FuncsDom.diff_loop2, emitRight, G]
  | cons q rest ih =>
    intro res
    obtain ⟨k, n⟩ := q
    simp only [FuncsDom.diff_loop2, GoDom.child, emitRight]
    cases h : child left k with
    | some n2 => simp [ih]
    | none =>
      simp [toPath_eq, appendMod_str, ih, G, modToGo, Mod.mkDel, ModType.name, GoDom.anyNil]

theorem size_cons_kvs (k : String) (n : Node) (rest : List (String × Node)) :
    Node.sizeKvs ((k, n) :: rest) = n.size + Node.sizeKvs rest := by simp [Node.sizeKvs]

theorem diff_loop1_eq
    (rh : Node → Node → String → List FuncsDom.diff_Modification → Go.Res (List FuncsDom.diff_Modification))
    (N : Nat) (hrh : ∀ l r p res, 2 * l.size < N → rh l r p res = .ok (res ++ G (emitNode l r p)))
    (right : AMap Node) (p : String) : ∀ (kvs : List (String × Node)) (res : List FuncsDom.diff_Modification),
    2 * Node.sizeKvs kvs < N →
    FuncsDom.diff_loop1 rh right p kvs res = .ok (res ++ G (emitLeft kvs right p)) := by
  intro kvs
  induction kvs with
  | nil => intro res _; simp [FuncsDom.diff_loop1, emitLeft, G]
  | cons q rest ih =>
    intro res hs
    obtain ⟨k, n⟩ := q
    rw [size_cons_kvs] at hs
    have ih' := fun r => ih r (by omega)
    simp only [FuncsDom.diff_loop1, GoDom.child, emitLeft]
    cases h : child right k with
    | some n2 =>
      simp only [toPath_eq, hrh n n2 _ _ (by omega), Go.Res.ok_bind, ih']
      simp [G, List.append_assoc]
    | none =>
      simp only [toPath_eq, flattenNode_generated_eq_model, Go.Res.ok_bind, ih']
      simp [G, List.append_assoc]

theorem diff_rec_eq : ∀ (fuel : Nat),
    (∀ l r p res, 2 * l.size < fuel →
      FuncsDom.handleExisting_rec fuel l r p res = .ok (res ++ G (emitNode l r p))) ∧
    (∀ l r p res, 2 * Node.sizeKvs l + 1 < fuel →
      FuncsDom.diff_rec fuel l r p res = .ok (res ++ G (emitLeft l r p ++ emitRight r l p))) := by
  intro fuel
  induction fuel with
  | zero => exact ⟨fun _ _ _ _ h => by omega, fun _ _ _ _ h => by omega⟩
  | succ fuel ih =>
    refine ⟨fun l r p res h => ?_, fun l r p res h => ?_⟩
    · cases l with
      | cont a =>
        cases r with
        | cont b =>
          have : 2 * Node.sizeKvs a + 1 < fuel := by simp only [Node.size] at h; omega
          simp [FuncsDom.handleExisting_rec, GoDom.isContainer, Node.isCont, GoDom.asContainer, ih.2 a b p res this,
            emitNode]
        | list ys =>
          simp [FuncsDom.handleExisting_rec, GoDom.isContainer, GoDom.isList, GoDom.isLeaf, Node.isCont, Node.isList,
            Node.isLeaf, emitNode, appendMod_str, flattenNode_generated_eq_model, G, modToGo, Mod.mkDel, ModType.name,
            GoDom.anyNil]
        | leaf s =>
          simp [FuncsDom.handleExisting_rec, GoDom.isContainer, GoDom.isList, GoDom.isLeaf, Node.isCont, Node.isList,
            Node.isLeaf, emitNode, appendMod_str, flattenNode_generated_eq_model, G, modToGo, Mod.mkDel, ModType.name,
            GoDom.anyNil]
      | list xs =>
        cases r with
        | cont b =>
          simp [FuncsDom.handleExisting_rec, GoDom.isContainer, GoDom.isList, GoDom.isLeaf, Node.isCont, Node.isList,
            Node.isLeaf, emitNode, appendMod_str, flattenNode_generated_eq_model, G, modToGo, Mod.mkDel, ModType.name,
            GoDom.anyNil]
        | list ys =>
          simp only [FuncsDom.handleExisting_rec, GoDom.isContainer, GoDom.isList, Node.isCont, Node.isList,
            Bool.and_self, Bool.false_eq_true, if_false, if_true, GoDom.asList, Go.Res.ok_bind,
            diffList_generated_eq_model]
          rfl
        | leaf s =>
          simp [FuncsDom.handleExisting_rec, GoDom.isContainer, GoDom.isList, GoDom.isLeaf, Node.isCont, Node.isList,
            Node.isLeaf, emitNode, appendMod_str, flattenNode_generated_eq_model, G, modToGo, Mod.mkDel, ModType.name,
            GoDom.anyNil]
      | leaf t =>
        cases r with
        | cont b =>
          simp [FuncsDom.handleExisting_rec, GoDom.isContainer, GoDom.isList, GoDom.isLeaf, Node.isCont, Node.isList,
            Node.isLeaf, emitNode, appendMod_str, flattenNode_generated_eq_model, G, modToGo, Mod.mkDel, ModType.name,
            GoDom.anyNil]
        | list ys =>
          simp [FuncsDom.handleExisting_rec, GoDom.isContainer, GoDom.isList, GoDom.isLeaf, Node.isCont, Node.isList,
            Node.isLeaf, emitNode, appendMod_str, flattenNode_generated_eq_model, G, modToGo, Mod.mkDel, ModType.name,
            GoDom.anyNil]
        | leaf s =>
          simp only [FuncsDom.handleExisting_rec, GoDom.isContainer, GoDom.isList, GoDom.isLeaf, Node.isCont,
            Node.isList, Node.isLeaf, Bool.and_self, Bool.false_eq_true, if_false, if_true, GoDom.asLeaf,
            Go.Res.ok_bind, GoDom.cmpEqual, GoDom.value, emitNode]
          by_cases e : t = s
          · subst e; simp [G]
          · simp [e, appendMod_str, G, modToGo, Mod.mkChange, ModType.name]
    · simp only [FuncsDom.diff_rec, GoDom.children]
      rw [diff_loop1_eq _ fuel ih.1 r p l res (by omega)]
      simp only [Go.Res.ok_bind, diff_loop2_eq]
      simp [G, List.append_assoc]

/-- handleExisting(left, right, path, res), as translated, appends exactly the model's `emitNode` -/
theorem handleExisting_generated_eq_model (l r : Node) (p : String) (res : List FuncsDom.diff_Modification) :
    FuncsDom.handleExisting l r p res = .ok (res ++ G (emitNode l r p)) :=
  (diff_rec_eq _).1 l r p res (by simp [GoDom.sizeN])

/-- diff(left, right, path, res), as translated, appends the model's two loops (left, then right) -/
theorem diff_generated_eq_model (l r : AMap Node) (p : String) (res : List FuncsDom.diff_Modification) :
    FuncsDom.diff l r p res = .ok (res ++ G (emitLeft l r p ++ emitRight r l p)) :=
  (diff_rec_eq _).2 l r p res (by simp [GoDom.sizeC])

end Ytk.FuncsDomDiff
