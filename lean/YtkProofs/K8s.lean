/- Lemmas on the k8s manifest model: base64 round trip, load ∘ save. -/
import YtkModel.K8s
import YtkProofs.AMap

namespace Ytk.K8s

/-! ## base64 -/

theorem encChar_spec : ∀ n, n < 64 →
    decChar (encChar n) = some n ∧ ¬ (encChar n = '=') ∧ isNewline (encChar n) = false := by decide

theorem decChar_encChar {n : Nat} (h : n < 64) : decChar (encChar n) = some n := (encChar_spec n h).1
theorem encChar_ne_pad {n : Nat} (h : n < 64) : ¬ (encChar n = '=') := (encChar_spec n h).2.1
theorem encChar_not_nl {n : Nat} (h : n < 64) : isNewline (encChar n) = false := (encChar_spec n h).2.2

theorem pad_not_nl : isNewline '=' = false := by decide

theorem byte_lt (a : UInt8) : a.toNat < 256 := UInt8.toNat_lt a

theorem ofNat_of_eq (a : UInt8) {n : Nat} (h : n = a.toNat) : UInt8.ofNat n = a := by
  subst h; exact UInt8.ofNat_toNat

/-- the encoder's output contains no CR/LF, so the decoder's filter keeps all of it -/
theorem filter_b64encL (bs : Bytes) :
    (b64encL bs).filter (fun c => !isNewline c) = b64encL bs := by
  induction bs using b64encL.induct with
  | case1 => rfl
  | case2 a =>
    have ha := byte_lt a
    simp only [b64encL]
    simp [encChar_not_nl (show a.toNat / 4 < 64 by omega),
      encChar_not_nl (show a.toNat % 4 * 16 < 64 by omega), pad_not_nl]
  | case3 a b =>
    have ha := byte_lt a
    have hb := byte_lt b
    simp only [b64encL]
    simp [encChar_not_nl (show a.toNat / 4 < 64 by omega),
      encChar_not_nl (show a.toNat % 4 * 16 + b.toNat / 16 < 64 by omega),
      encChar_not_nl (show b.toNat % 16 * 4 < 64 by omega), pad_not_nl]
  | case4 a b c rest ih =>
    have ha := byte_lt a
    have hb := byte_lt b
    have hc := byte_lt c
    simp only [b64encL]
    simp [encChar_not_nl (show a.toNat / 4 < 64 by omega),
      encChar_not_nl (show a.toNat % 4 * 16 + b.toNat / 16 < 64 by omega),
      encChar_not_nl (show b.toNat % 16 * 4 + c.toNat / 64 < 64 by omega),
      encChar_not_nl (show c.toNat % 64 < 64 by omega), ih]

theorem b64decQ_b64encL (bs : Bytes) : b64decQ (b64encL bs) = some bs := by
  induction bs using b64encL.induct with
  | case1 => rfl
  | case2 a =>
    have ha := byte_lt a
    have h1 : a.toNat / 4 < 64 := by omega
    have h2 : a.toNat % 4 * 16 < 64 := by omega
    simp only [b64encL, b64decQ, decChar_encChar h1, decChar_encChar h2]
    simp only [if_true, and_self]
    congr 2
    exact ofNat_of_eq a (by omega)
  | case3 a b =>
    have ha := byte_lt a
    have hb := byte_lt b
    have h1 : a.toNat / 4 < 64 := by omega
    have h2 : a.toNat % 4 * 16 + b.toNat / 16 < 64 := by omega
    have h3 : b.toNat % 16 * 4 < 64 := by omega
    simp only [b64encL, b64decQ, decChar_encChar h1, decChar_encChar h2, decChar_encChar h3,
      if_neg (encChar_ne_pad h3)]
    simp only [if_true]
    congr 2
    · exact ofNat_of_eq a (by omega)
    · congr 1
      exact ofNat_of_eq b (by omega)
  | case4 a b c rest ih =>
    have ha := byte_lt a
    have hb := byte_lt b
    have hc := byte_lt c
    have h1 : a.toNat / 4 < 64 := by omega
    have h2 : a.toNat % 4 * 16 + b.toNat / 16 < 64 := by omega
    have h3 : b.toNat % 16 * 4 + c.toNat / 64 < 64 := by omega
    have h4 : c.toNat % 64 < 64 := by omega
    simp only [b64encL, b64decQ, decChar_encChar h1, decChar_encChar h2, decChar_encChar h3,
      decChar_encChar h4, if_neg (encChar_ne_pad h3), if_neg (encChar_ne_pad h4), ih]
    congr 2
    · exact ofNat_of_eq a (by omega)
    · congr 1
      · exact ofNat_of_eq b (by omega)
      · congr 1
        exact ofNat_of_eq c (by omega)

theorem b64dec_b64enc (bs : Bytes) : b64dec (b64enc bs) = some bs := by
  simp only [b64dec, b64enc, String.toList_ofList, b64decL, filter_b64encL, b64decQ_b64encL]

/-! ## load ∘ save on the two sections -/

theorem strVal_ty (s : String) : (match strVal s with | .sc x => x.ty | _ => "") = "string" := rfl

/-- decoding the binary section written by beforeSaveBinary gives the items back -/
theorem loadBin_saved {bin : AMap Bytes} (hs : AMap.Sorted bin) :
    loadBin (bin.map (fun p => (p.1, strVal (b64enc p.2)))) = .ok bin := by
  induction bin with
  | nil => rfl
  | cons q rest ih =>
    obtain ⟨k, v⟩ := q
    have ih' := ih hs.tail
    simp only [strVal] at ih'
    simp only [List.map_cons, loadBin, strVal, if_true, b64dec_b64enc, ih']
    rw [AMap.insert_of_allGt _ hs.head_lt]

theorem fmtV_strVal (s : String) : fmtV (strVal s) = s := by
  simp [strVal, fmtV]

theorem loadStr_saved {str : AMap String} (hs : AMap.Sorted str) :
    loadStr (str.map (fun p => (p.1, strVal p.2))) = str := by
  induction str with
  | nil => rfl
  | cons q rest ih =>
    obtain ⟨k, v⟩ := q
    simp only [List.map_cons, loadStr, fmtV_strVal, ih hs.tail]
    rw [AMap.insert_of_allGt _ hs.head_lt]

theorem get?_insert' {α : Type} (m : AMap α) (x y : String) (a : α) :
    AMap.get? (AMap.insert m x a) y = if y = x then some a else AMap.get? m y := by
  split
  · rename_i h; subst h; exact AMap.get?_insert_self m y a
  · rename_i h; exact AMap.get?_insert_ne m a h

theorem get?_erase' {α : Type} {m : AMap α} (hs : AMap.Sorted m) (x y : String) :
    AMap.get? (AMap.erase m x) y = if y = x then none else AMap.get? m y := by
  split
  · rename_i h; subst h; exact AMap.get?_erase_self hs y
  · rename_i h; exact AMap.get?_erase_ne m h

theorem sorted_beforeSaveBinary {doc : AMap Val} (h : AMap.Sorted doc) (bin : AMap Bytes) (key : String) :
    AMap.Sorted (beforeSaveBinary doc bin key) := by
  unfold beforeSaveBinary
  split
  · exact AMap.sorted_erase h _
  · exact AMap.sorted_insert h _ _

theorem sorted_beforeSaveString {doc : AMap Val} (h : AMap.Sorted doc) (str : AMap String) (key : String) :
    AMap.Sorted (beforeSaveString doc str key) := by
  unfold beforeSaveString
  split
  · exact AMap.sorted_erase h _
  · exact AMap.sorted_insert h _ _

theorem get?_beforeSaveBinary {doc : AMap Val} (h : AMap.Sorted doc) (bin : AMap Bytes) (key y : String) :
    AMap.get? (beforeSaveBinary doc bin key) y =
      if y = key then
        (if bin.isEmpty then none else some (.obj (bin.map (fun p => (p.1, strVal (b64enc p.2))))))
      else AMap.get? doc y := by
  unfold beforeSaveBinary
  split <;> rename_i hb
  · rw [get?_erase' h]
  · rw [get?_insert']

theorem get?_beforeSaveString {doc : AMap Val} (h : AMap.Sorted doc) (str : AMap String) (key y : String) :
    AMap.get? (beforeSaveString doc str key) y =
      if y = key then
        (if str.isEmpty then none else some (.obj (str.map (fun p => (p.1, strVal p.2)))))
      else AMap.get? doc y := by
  unfold beforeSaveString
  split <;> rename_i hb
  · rw [get?_erase' h]
  · rw [get?_insert']

/-- a manifest as `load` produces it (and as the facades keep it) -/
structure WFm (m : Manifest) : Prop where
  doc_sorted : AMap.Sorted m.doc
  str_sorted : AMap.Sorted m.str
  bin_sorted : AMap.Sorted m.bin
  keys : kindKeys m.doc = .ok (m.bk, m.tk)

theorem kindKeys_cases {doc : AMap Val} {bk tk : String} (h : kindKeys doc = .ok (bk, tk)) :
    (bk = keyData ∧ tk = keyStringData) ∨ (bk = keyBinaryData ∧ tk = keyData) := by
  unfold kindKeys at h
  split at h
  · cases h
  · split at h
    · split at h
      · cases h; exact Or.inl ⟨rfl, rfl⟩
      · split at h
        · cases h; exact Or.inr ⟨rfl, rfl⟩
        · cases h
    · cases h
  · cases h

theorem kindKeys_ne {doc : AMap Val} {bk tk : String} (h : kindKeys doc = .ok (bk, tk)) :
    bk ≠ tk ∧ "kind" ≠ bk ∧ "kind" ≠ tk := by
  rcases kindKeys_cases h with ⟨rfl, rfl⟩ | ⟨rfl, rfl⟩ <;> decide

/-- kindKeys only reads the `kind` entry -/
theorem kindKeys_congr {d1 d2 : AMap Val} (h : AMap.get? d1 "kind" = AMap.get? d2 "kind") :
    kindKeys d1 = kindKeys d2 := by
  unfold kindKeys; rw [h]

theorem loadStr_sorted (kvs : List (String × Val)) : AMap.Sorted (loadStr kvs) := by
  induction kvs with
  | nil => exact .nil
  | cons q rest ih => obtain ⟨k, v⟩ := q; exact AMap.sorted_insert ih _ _

theorem loadBin_sorted {kvs : List (String × Val)} {m : AMap Bytes} (h : loadBin kvs = .ok m) : AMap.Sorted m := by
  induction kvs generalizing m with
  | nil => cases h; exact .nil
  | cons q rest ih =>
    obtain ⟨k, v⟩ := q
    unfold loadBin at h
    split at h
    · split at h
      · split at h
        · cases h
        · split at h
          · rename_i m' hm'
            cases h
            exact AMap.sorted_insert (ih hm') _ _
          · cases h
          · cases h
      · cases h
    · cases h

end Ytk.K8s

namespace Ytk.K8s

/-! ## load never panics; load establishes WFm -/

theorem loadBin_no_panic (kvs : List (String × Val)) : loadBin kvs ≠ .panic := by
  induction kvs with
  | nil => simp [loadBin]
  | cons q rest ih =>
    obtain ⟨k, v⟩ := q
    unfold loadBin
    split
    · split
      · split
        · simp
        · split
          · simp
          · simp
          · rename_i h; exact absurd h ih
      · simp
    · simp

theorem afterLoadBinary_ne_panic (doc : AMap Val) (bk : String) : afterLoadBinary doc bk ≠ .panic := by
  unfold afterLoadBinary
  split
  · exact loadBin_no_panic _
  · simp

theorem kindKeys_ne_panic (doc : AMap Val) : kindKeys doc ≠ .panic := by
  unfold kindKeys
  split
  · simp
  · split
    · split
      · simp
      · split <;> simp
    · simp
  · simp

theorem load_ne_panic (v : Val) : load v ≠ .panic := by
  cases v with
  | sc s => simp [load]
  | arr xs => simp [load]
  | obj doc =>
    simp only [load]
    cases hk : kindKeys doc with
    | err => simp
    | panic => exact absurd hk (kindKeys_ne_panic doc)
    | ok p =>
      obtain ⟨bk, tk⟩ := p
      simp only
      cases hb : afterLoadBinary doc bk with
      | ok bin => simp
      | err => simp
      | panic => exact absurd hb (afterLoadBinary_ne_panic doc bk)

theorem load_wf {doc : AMap Val} (hd : AMap.Sorted doc) {m : Manifest} (h : load (.obj doc) = .ok m) : WFm m := by
  unfold load at h
  simp only at h
  split at h
  · rename_i bk tk hk
    split at h
    · rename_i bin hb
      cases h
      refine ⟨hd, ?_, ?_, hk⟩
      · show AMap.Sorted (afterLoadString doc tk)
        unfold afterLoadString
        split
        · exact loadStr_sorted _
        · exact .nil
      · show AMap.Sorted bin
        unfold afterLoadBinary at hb
        split at hb
        · exact loadBin_sorted hb
        · cases hb; exact .nil
    · cases h
    · cases h
  · cases h
  · cases h

theorem wf_applyEdit {m : Manifest} (h : WFm m) (e : Edit) : WFm (applyEdit m e) := by
  cases e with
  | strUpdate k v => exact ⟨h.doc_sorted, AMap.sorted_insert h.str_sorted _ _, h.bin_sorted, h.keys⟩
  | strRemove k => exact ⟨h.doc_sorted, AMap.sorted_erase h.str_sorted _, h.bin_sorted, h.keys⟩
  | binUpdate k v => exact ⟨h.doc_sorted, h.str_sorted, AMap.sorted_insert h.bin_sorted _ _, h.keys⟩
  | binRemove k => exact ⟨h.doc_sorted, h.str_sorted, AMap.sorted_erase h.bin_sorted _, h.keys⟩

theorem wf_applyEdits {m : Manifest} (h : WFm m) (es : List Edit) : WFm (applyEdits m es) := by
  induction es generalizing m with
  | nil => exact h
  | cons e rest ih => exact ih (wf_applyEdit h e)

theorem isEmpty_eq_nil {α : Type} {l : List α} (h : l.isEmpty = true) : l = [] := by
  cases l with
  | nil => rfl
  | cons _ _ => simp at h

/-- load ∘ writeTo: same items, same section keys; the document is the rewritten one -/
theorem load_writeTo {m : Manifest} (h : WFm m) :
    load (writeTo m).2 = .ok ⟨(beforeSave m).doc, m.str, m.bin, m.bk, m.tk⟩ := by
  obtain ⟨hne, hkb, hkt⟩ := kindKeys_ne h.keys
  have hs1 := sorted_beforeSaveBinary h.doc_sorted m.bin m.bk
  have hkind : kindKeys (beforeSave m).doc = .ok (m.bk, m.tk) := by
    rw [← h.keys]
    apply kindKeys_congr
    simp only [beforeSave]
    rw [get?_beforeSaveString hs1, if_neg hkt, get?_beforeSaveBinary h.doc_sorted, if_neg hkb]
  have hbin : afterLoadBinary (beforeSave m).doc m.bk = .ok m.bin := by
    unfold afterLoadBinary sectionOf
    simp only [beforeSave]
    rw [get?_beforeSaveString hs1, if_neg hne, get?_beforeSaveBinary h.doc_sorted, if_pos rfl]
    by_cases hb : m.bin.isEmpty = true
    · simp [hb, isEmpty_eq_nil hb]
    · simp only [hb, Bool.false_eq_true, if_false, loadBin_saved h.bin_sorted]
  have hstr : afterLoadString (beforeSave m).doc m.tk = m.str := by
    unfold afterLoadString sectionOf
    simp only [beforeSave]
    rw [get?_beforeSaveString hs1, if_pos rfl]
    by_cases hb : m.str.isEmpty = true
    · simp [hb, isEmpty_eq_nil hb]
    · simp only [hb, Bool.false_eq_true, if_false, loadStr_saved h.str_sorted]
  simp only [writeTo, load, hkind, hbin, hstr]

theorem wf_beforeSave {m : Manifest} (h : WFm m) :
    WFm ⟨(beforeSave m).doc, m.str, m.bin, m.bk, m.tk⟩ := by
  obtain ⟨hne, hkb, hkt⟩ := kindKeys_ne h.keys
  have hs1 := sorted_beforeSaveBinary h.doc_sorted m.bin m.bk
  refine ⟨sorted_beforeSaveString hs1 _ _, h.str_sorted, h.bin_sorted, ?_⟩
  show kindKeys (beforeSave m).doc = .ok (m.bk, m.tk)
  rw [← h.keys]
  apply kindKeys_congr
  simp only [beforeSave]
  rw [get?_beforeSaveString hs1, if_neg hkt, get?_beforeSaveBinary h.doc_sorted, if_neg hkb]

/-- fields outside the two sections are not touched by a save -/
theorem beforeSave_other {m : Manifest} (h : WFm m) {k : String} (hb : k ≠ m.bk) (ht : k ≠ m.tk) :
    AMap.get? (beforeSave m).doc k = AMap.get? m.doc k := by
  have hs1 := sorted_beforeSaveBinary h.doc_sorted m.bin m.bk
  simp only [beforeSave]
  rw [get?_beforeSaveString hs1, if_neg ht, get?_beforeSaveBinary h.doc_sorted, if_neg hb]

end Ytk.K8s

namespace Ytk.K8s

/-! ## embedded properties: after encoding, the string items are exactly the flattened document -/

theorem get?_none_of_not_mem_keys {α : Type} {m : AMap α} {k : String} (h : k ∉ m.keys) : AMap.get? m k = none := by
  induction m with
  | nil => rfl
  | cons q rest ih =>
    obtain ⟨k', v⟩ := q
    simp only [AMap.keys, List.map_cons, List.mem_cons, not_or] at h
    simp only [AMap.get?, if_neg h.1]
    exact ih h.2

theorem get?_map_val {α β : Type} (f : α → β) (m : AMap α) (k : String) :
    AMap.get? (m.map (fun p => (p.1, f p.2))) k = (AMap.get? m k).map f := by
  induction m with
  | nil => rfl
  | cons q rest ih =>
    obtain ⟨k', v⟩ := q
    simp only [List.map_cons, AMap.get?]
    split
    · rfl
    · exact ih

theorem sorted_map_val {α β : Type} (f : α → β) {m : AMap α} (h : AMap.Sorted m) :
    AMap.Sorted (m.map (fun p => (p.1, f p.2))) := by
  induction m with
  | nil => exact .nil
  | cons q rest ih =>
    obtain ⟨k', v⟩ := q
    refine .cons ?_ (ih h.tail)
    intro p hp
    obtain ⟨p', hp', rfl⟩ := List.mem_map.mp hp
    exact h.head_lt p' hp'

theorem foldl_strUpdate (fl : AMap Scalar) (hfl : AMap.Sorted fl) (m : Manifest) (hm : AMap.Sorted m.str) :
    let r := fl.foldl (fun m p => strUpdate m p.1 p.2.text) m
    AMap.Sorted r.str ∧ r.bin = m.bin ∧ r.doc = m.doc ∧ r.bk = m.bk ∧ r.tk = m.tk ∧
    ∀ k, AMap.get? r.str k = (match AMap.get? fl k with | some v => some v.text | none => AMap.get? m.str k) := by
  induction fl generalizing m with
  | nil => exact ⟨hm, rfl, rfl, rfl, rfl, fun _ => rfl⟩
  | cons q rest ih =>
    obtain ⟨k0, v0⟩ := q
    have := ih hfl.tail (strUpdate m k0 v0.text) (AMap.sorted_insert hm _ _)
    simp only [List.foldl_cons] at this ⊢
    obtain ⟨h1, h2, h3, h4, h5, h6⟩ := this
    refine ⟨h1, h2, h3, h4, h5, ?_⟩
    intro k
    rw [h6 k]
    simp only [AMap.get?]
    by_cases hk : k = k0
    · subst hk
      simp only [if_true, AMap.get?_of_allGt hfl.head_lt, strUpdate, AMap.get?_insert_self]
    · simp only [if_neg hk, strUpdate, AMap.get?_insert_ne _ _ hk]

theorem foldl_strRemove (fl : AMap Scalar) (keys : List String) (m : Manifest) (hm : AMap.Sorted m.str) :
    let r := keys.foldl (fun m k => if (AMap.get? fl k).isSome then m else strRemove m k) m
    AMap.Sorted r.str ∧ r.bin = m.bin ∧ r.doc = m.doc ∧ r.bk = m.bk ∧ r.tk = m.tk ∧
    ∀ k, AMap.get? r.str k =
      (if k ∈ keys ∧ (AMap.get? fl k).isSome = false then none else AMap.get? m.str k) := by
  induction keys generalizing m with
  | nil => exact ⟨hm, rfl, rfl, rfl, rfl, fun _ => by simp⟩
  | cons k0 rest ih =>
    simp only [List.foldl_cons]
    by_cases hin : (AMap.get? fl k0).isSome = true
    · simp only [hin, if_true]
      obtain ⟨h1, h2, h3, h4, h5, h6⟩ := ih m hm
      refine ⟨h1, h2, h3, h4, h5, ?_⟩
      intro k
      rw [h6 k]
      by_cases hk : k = k0
      · subst hk; simp [hin]
      · simp [hk]
    · simp only [hin, Bool.false_eq_true, if_false]
      obtain ⟨h1, h2, h3, h4, h5, h6⟩ := ih (strRemove m k0) (AMap.sorted_erase hm _)
      refine ⟨h1, h2, h3, h4, h5, ?_⟩
      intro k
      rw [h6 k]
      by_cases hk : k = k0
      · subst hk
        have : (AMap.get? fl k).isSome = false := by simpa using hin
        simp [this, strRemove, AMap.get?_erase_self hm]
      · simp [hk, strRemove, AMap.get?_erase_ne _ hk]

/-- EncodeEmbeddedProps: string data = flattened document (values by %v); nothing else moves -/
theorem encodeEmbeddedProps_spec (m : Manifest) (hm : AMap.Sorted m.str) (kvs : AMap Node) :
    let r := encodeEmbeddedProps m (.cont kvs)
    r.str = (flattenMap kvs).map (fun p => (p.1, p.2.text)) ∧
    r.bin = m.bin ∧ r.doc = m.doc ∧ r.bk = m.bk ∧ r.tk = m.tk := by
  have hfl : AMap.Sorted (flattenMap kvs) := AMap.sorted_ofList _
  obtain ⟨a1, a2, a3, a4, a5, a6⟩ := foldl_strRemove (flattenMap kvs) (strList m) m hm
  obtain ⟨b1, b2, b3, b4, b5, b6⟩ := foldl_strUpdate (flattenMap kvs) hfl _ a1
  simp only [encodeEmbeddedProps]
  refine ⟨?_, b2.trans a2, b3.trans a3, b4.trans a4, b5.trans a5⟩
  apply AMap.ext_of_sorted b1 (sorted_map_val _ hfl)
  intro k
  rw [b6 k, get?_map_val]
  cases hg : AMap.get? (flattenMap kvs) k with
  | some v => rfl
  | none =>
    simp only [Option.map_none]
    rw [a6 k]
    by_cases hk : k ∈ strList m
    · simp [hk, hg]
    · simp only [hk, false_and, if_false]
      exact get?_none_of_not_mem_keys hk

end Ytk.K8s
