/-
  YtkProofs.TplFuncs — lemmas about the template functions (YtkModel/TplFuncs.lean).
-/
import YtkModel.TplFuncs
import YtkProofs.Props
import YtkProofs.Codec
import YtkProofs.DocSet
import YtkProofs.Merge
import YtkProofs.Diff

namespace Ytk.TplFuncs
open Ytk.DocSet

/-! ## isEmpty -/

theorem isEmpty_iff (v : Option Val) :
    isEmpty v = true ↔ v = none ∨ ∃ s, v = some (.sc s) ∧ (s.ty = "nil" ∨ (s.ty = "string" ∧ s.text = "")) := by
  cases v with
  | none => simp [isEmpty]
  | some x =>
    cases x with
    | sc s => simp [isEmpty]
    | arr xs => simp [isEmpty]
    | obj kvs => simp [isEmpty]

/-! ## dom2str -/

theorem dom2str_eq (enc : Enc) (c : AMap Node) : dom2str enc c = enc (asMap c) := rfl

/-- parse ∘ dom2X = identity under the codec contract -/
theorem dom2str_parse (enc : Enc) (dec : String → Option (List (String × Val)))
    (hc : ∀ v, (enc v).2 = false ∧ dec (enc v).1 = some v) (c : AMap Node) (hv : (Node.cont c).Valid) :
    (dom2str enc c).2 = false ∧ (dec (dom2str enc c).1).map fromMap = some c := by
  refine ⟨(hc _).1, ?_⟩
  rw [dom2str_eq, (hc _).2]
  have := decode_encode_aux (.cont c) hv
  simp only [encodeNode, decodeNode, Node.cont.injEq] at this
  simpa [fromMap, asMap] using this

/-! ## mergeFiles -/

theorem loadFile_valid {Γ : Type} (fl : Files Γ) (f : String) (d : AMap Node) (h : loadFile fl f = .ok d) :
    (Node.cont d).Valid := by
  unfold loadFile at h
  split at h
  · cases h
  · split at h
    · cases h
    · split at h
      · cases h
      · rename_i m _
        cases h
        have := decodeNode_valid (.obj m)
        simpa [decodeNode, fromMap] using this

theorem step_reader_ok (s : State Node) (f : String) (d : Node) :
    (step s (.addFromReader f (some d) [])).2 = false := by
  simp only [step, addFromReader, addDocument, addContext]
  cases AMap.get? s.ctxMap f <;> rfl

/-- the loop of mergeFilesFunc when every file loads: the document-set history of the adds -/
theorem addFiles_ok {Γ : Type} (fl : Files Γ) : ∀ (fds : List (String × AMap Node)) (s : State Node),
    (∀ p ∈ fds, loadFile fl p.1 = .ok p.2) →
    addFiles fl s (fds.map (·.1)) =
      .ok (run s (fds.map fun p => Op.addFromReader p.1 (some (Node.cont p.2)) []))
  | [], _, _ => rfl
  | p :: rest, s, h => by
    have hp := h p (List.mem_cons_self ..)
    have e : step s (.addFromReader p.1 (some (.cont p.2)) []) =
        ((step s (.addFromReader p.1 (some (.cont p.2)) [])).1, false) :=
      Prod.ext rfl (step_reader_ok s p.1 (.cont p.2))
    simp only [List.map_cons, addFiles, hp]
    rw [e]
    simp only
    rw [addFiles_ok fl rest _ (fun q hq => h q (List.mem_cons_of_mem _ hq))]
    simp [run, List.foldl_cons]

theorem get?_none_of_not_mem {s : State Node} (hs : Inv s) {f : String} (hf : f ∉ s.names) :
    AMap.get? s.ctxMap f = none := by
  cases h : AMap.get? s.ctxMap f with
  | none => rfl
  | some c => exact absurd ((hs.mem_iff f).mpr (by simp [h])) hf

theorem specFind_none {es : List (Entry Node)} {f : String} (h : ∀ e ∈ es, e.1 ≠ f) : specFind es f = none := by
  unfold specFind
  exact List.find?_eq_none.mpr (fun e he => by simpa using h e he)

theorem absEntries_fst_mem {s : State Node} {e : Entry Node} (he : e ∈ absEntries s.ctxMap s.names) :
    e.1 ∈ s.names := by
  rw [absEntries_eq] at he
  obtain ⟨n, hn, hne⟩ := List.mem_filterMap.mp he
  rw [entryOf_fst hne]; exact hn

theorem step_fresh {s : State Node} (hs : Inv s) (f : String) (d : Node) (hf : f ∉ s.names) :
    (step s (.addFromReader f (some d) [])).1.names = s.names ++ [f] ∧
    absEntries (step s (.addFromReader f (some d) [])).1.ctxMap (step s (.addFromReader f (some d) [])).1.names =
      absEntries s.ctxMap s.names ++ [(f, d, callTags [])] := by
  have hg := get?_none_of_not_mem hs hf
  refine ⟨by simp only [step, addFromReader, addDocument, addContext, hg], ?_⟩
  have h := (addDocument_refines hs f d []).1
  simp only [step, addFromReader]
  rw [h]
  have hfind : specFind (abs s).entries f = none :=
    specFind_none (fun e he hef => hf (hef ▸ absEntries_fst_mem he))
  have hfind' : specFind (absEntries s.ctxMap s.names) f = none := hfind
  simp only [specAdd, abs, hfind']

theorem run_fresh : ∀ (fds : List (String × AMap Node)) (s : State Node), Inv s →
    (fds.map (·.1)).Nodup → (∀ p ∈ fds, p.1 ∉ s.names) →
    absEntries (run s (fds.map fun p => Op.addFromReader p.1 (some (Node.cont p.2)) [])).ctxMap
        (run s (fds.map fun p => Op.addFromReader p.1 (some (Node.cont p.2)) [])).names =
      absEntries s.ctxMap s.names ++ fds.map (fun p => (p.1, Node.cont p.2, callTags []))
  | [], s, _, _, _ => by simp [run]
  | p :: rest, s, hs, hnd, hdis => by
    have hf := hdis p (List.mem_cons_self ..)
    obtain ⟨hn, ha⟩ := step_fresh hs p.1 (.cont p.2) hf
    simp only [List.map_cons, List.nodup_cons] at hnd
    have hrun : run s ((p :: rest).map fun p => Op.addFromReader p.1 (some (Node.cont p.2)) []) =
        run (step s (.addFromReader p.1 (some (.cont p.2)) [])).1
          (rest.map fun p => Op.addFromReader p.1 (some (Node.cont p.2)) []) := by
      simp [run, List.foldl_cons]
    rw [hrun, run_fresh rest _ (inv_step hs _) hnd.2 ?_, ha]
    · simp
    · intro q hq
      rw [hn]
      intro hmem
      rcases List.mem_append.mp hmem with h1 | h1
      · exact hdis q (List.mem_cons_of_mem _ hq) h1
      · simp only [List.mem_singleton] at h1
        exact hnd.1 (h1 ▸ List.mem_map_of_mem hq)

theorem asOne_entries (s : State Node) (hs : Inv s) :
    asOne s = .ok ((absEntries s.ctxMap s.names).map (fun e => (e.1, e.2.1))) := by
  rw [asOne, filtered, filteredAux_spec _ _ _ (inv_entryOf hs)]
  congr 2
  exact List.filter_eq_self.mpr (fun _ _ => rfl)

/-! ### the overlay document of distinct names -/

theorem ov_get?_none : ∀ (acc : Ytk.Overlay) (n : String), n ∉ acc.map (·.1) → AMap.get? acc n = none
  | [], _, _ => rfl
  | (k, _) :: rest, n, h => by
    simp only [List.map_cons, List.mem_cons, not_or] at h
    simp only [AMap.get?, if_neg h.1]
    exact ov_get?_none rest n h.2

theorem setLayer_fresh : ∀ (acc : Ytk.Overlay) (n : String) (c : AMap Node), n ∉ acc.map (·.1) →
    Overlay.setLayer acc n c = acc ++ [(n, c)]
  | [], _, _, _ => rfl
  | (k, d) :: rest, n, c, h => by
    simp only [List.map_cons, List.mem_cons, not_or] at h
    simp only [Overlay.setLayer, if_neg h.1, List.cons_append]
    rw [setLayer_fresh rest n c h.2]

theorem addAll_valid_id {kvs : AMap Node} (h : (Node.cont kvs).Valid) : Overlay.addAll [] kvs = kvs := by
  have := overlayLayer_id h
  simpa [overlayLayer, Overlay.addAll] using this

theorem addLayer_fresh (acc : Ytk.Overlay) (n : String) (kvs : AMap Node) (hn : n ∉ acc.map (·.1))
    (hv : (Node.cont kvs).Valid) : Overlay.addLayer acc n kvs = acc ++ [(n, kvs)] := by
  unfold Overlay.addLayer Overlay.layerOrEmpty Overlay.layer
  rw [ov_get?_none acc n hn]
  simp only [Option.getD_none, addAll_valid_id hv]
  exact setLayer_fresh acc n kvs hn

theorem overlayOf_fresh : ∀ (fds : List (String × AMap Node)) (acc : Ytk.Overlay),
    (fds.map (·.1)).Nodup → (∀ p ∈ fds, p.1 ∉ acc.map (·.1)) → (∀ p ∈ fds, (Node.cont p.2).Valid) →
    (fds.map (fun p => (p.1, Node.cont p.2))).foldl overlayAdd acc = acc ++ fds
  | [], acc, _, _, _ => by simp
  | p :: rest, acc, hnd, hdis, hv => by
    simp only [List.map_cons, List.nodup_cons] at hnd
    simp only [List.map_cons, List.foldl_cons, overlayAdd]
    rw [addLayer_fresh acc p.1 p.2 (hdis p (List.mem_cons_self ..)) (hv p (List.mem_cons_self ..))]
    rw [overlayOf_fresh rest _ hnd.2 ?_ (fun q hq => hv q (List.mem_cons_of_mem _ hq))]
    · simp
    · intro q hq hmem
      simp only [List.map_append, List.map_cons, List.map_nil, List.mem_append, List.mem_singleton] at hmem
      rcases hmem with h1 | h1
      · exact hdis q (List.mem_cons_of_mem _ hq) h1
      · exact hnd.1 (h1 ▸ List.mem_map_of_mem hq)

/-- mergeFiles of distinct, loadable files: the left fold of Merge (lists appended) over the loaded documents -/
theorem mergeFiles_fold {Γ : Type} (fl : Files Γ) (fds : List (String × AMap Node))
    (hnd : (fds.map (·.1)).Nodup) (hload : ∀ p ∈ fds, loadFile fl p.1 = .ok p.2) :
    mergeFiles fl (fds.map (·.1)) = .ok ((fds.map (·.2)).foldl (mergeC .append) []) := by
  have hs := inv_run_from (inv_init (δ := Node)) (fds.map fun p => Op.addFromReader p.1 (some (Node.cont p.2)) [])
  have hrun := run_fresh fds DocSet.init inv_init hnd (fun p _ => by simp [DocSet.init])
  unfold mergeFiles
  rw [addFiles_ok fl fds DocSet.init hload]
  simp only
  rw [asOne_entries _ hs, hrun]
  simp only [absEntries, DocSet.init, List.filterMap_nil, List.nil_append, List.map_map]
  have hov := overlayOf_fresh fds [] hnd (fun _ _ => by simp) (fun p hp => loadFile_valid fl p.1 p.2 (hload p hp))
  simp only [List.nil_append] at hov
  have : (fds.map ((fun (e : Entry Node) => (e.1, e.2.1)) ∘ fun p => (p.1, Node.cont p.2, callTags []))) =
      fds.map (fun p => (p.1, Node.cont p.2)) := by
    apply List.map_congr_left; intro p _; rfl
  rw [this]
  unfold overlayOf
  rw [hov]
  rfl

end Ytk.TplFuncs
