/-
  gap7a — C09: more sanity theorems about the REFERENCE `rfc6902` (so that it is visibly the RFC):
  remove / replace require the target, add requires the parent, replace-then-get, member remove-then-get,
  copy = add of the value at `from`, move = remove then add.
-/
import YtkProofs.Patch

namespace Ytk.Patch
open Ytk.Ptr

/-- a last token that does not resolve below the parent cannot be removed / replaced -/
theorem removeLast_none_of_stepRef {par : Node} {t : String} (h : stepRef par t = none) : removeLast par t = none := by
  cases par with
  | leaf _ => rfl
  | cont kvs => simp only [stepRef] at h; simp [removeLast, h]
  | list xs =>
    simp only [stepRef] at h
    simp only [removeLast]
    cases hc : canonIdx t with
    | none => rfl
    | some i =>
      rw [hc] at h
      simp only [] at h ⊢
      have : ¬ i < xs.length := fun hlt => by
        rw [List.getElem?_eq_getElem hlt] at h; cases h
      simp [this]

theorem replaceLast_none_of_stepRef {par : Node} {t : String} (v : Node) (h : stepRef par t = none) :
    replaceLast par t v = none := by
  cases par with
  | leaf _ => rfl
  | cont kvs => simp only [stepRef] at h; simp [replaceLast, h]
  | list xs =>
    simp only [stepRef] at h
    simp only [replaceLast]
    cases hc : canonIdx t with
    | none => rfl
    | some i =>
      rw [hc] at h
      simp only [] at h ⊢
      have : ¬ i < xs.length := fun hlt => by
        rw [List.getElem?_eq_getElem hlt] at h; cases h
      simp [this]

/-- a last token that resolves can be replaced, and then resolves to the new value -/
theorem replaceLast_of_stepRef {par n : Node} {t : String} (v : Node) (h : stepRef par t = some n) :
    ∃ par', replaceLast par t v = some par' ∧ stepRef par' t = some v := by
  cases par with
  | leaf _ => simp [stepRef] at h
  | cont kvs =>
    simp only [stepRef] at h
    exact ⟨.cont (AMap.insert kvs t v), by simp [replaceLast, h], by simp [stepRef, AMap.get?_insert_self]⟩
  | list xs =>
    simp only [stepRef] at h
    cases hc : canonIdx t with
    | none => rw [hc] at h; cases h
    | some i =>
      rw [hc] at h
      simp only [] at h
      have hlt : i < xs.length := by
        rcases Nat.lt_or_ge i xs.length with hlt | hge
        · exact hlt
        · rw [List.getElem?_eq_none hge] at h; cases h
      refine ⟨.list (xs.set i v), by simp [replaceLast, hc, hlt], ?_⟩
      simp [stepRef, hc, hlt]

/-- 4.2: remove fails when the target location does not exist -/
theorem rRemove_missing {d : Node} {p : Path} (hp : p ≠ []) (htok : ∀ t ∈ p, tokOk t = true)
    (h : getTok d p = none) : rRemove d p = none := by
  unfold rRemove
  rw [modify_eq _ p d hp htok]
  rw [getTok_parent_last d hp] at h
  cases hpar : getTok d (parent p) with
  | none => rfl
  | some par =>
    rw [hpar] at h
    simp only [] at h ⊢
    rw [removeLast_none_of_stepRef h]; rfl

/-- 4.3: replace fails when the target location does not exist … -/
theorem rReplace_missing {d : Node} {p : Path} (v : Node) (hp : p ≠ []) (htok : ∀ t ∈ p, tokOk t = true)
    (h : getTok d p = none) : rReplace d p v = none := by
  unfold rReplace
  rw [modify_eq _ p d hp htok]
  rw [getTok_parent_last d hp] at h
  cases hpar : getTok d (parent p) with
  | none => rfl
  | some par =>
    rw [hpar] at h
    simp only [] at h ⊢
    rw [replaceLast_none_of_stepRef v h]; rfl

/-- … and succeeds when it exists; afterwards the location holds the new value -/
theorem rReplace_present {d n : Node} {p : Path} (v : Node) (hp : p ≠ []) (htok : ∀ t ∈ p, tokOk t = true)
    (h : getTok d p = some n) : ∃ d', rReplace d p v = some d' ∧ getTok d' p = some v := by
  unfold rReplace
  rw [modify_eq _ p d hp htok]
  rw [getTok_parent_last d hp] at h
  cases hpar : getTok d (parent p) with
  | none => rw [hpar] at h; cases h
  | some par =>
    rw [hpar] at h
    simp only [] at h ⊢
    obtain ⟨par', h1, h2⟩ := replaceLast_of_stepRef v h
    refine ⟨setAt d (parent p) par', by rw [h1]; rfl, ?_⟩
    rw [getTok_parent_last _ hp, get_setAt _ d par par' (parent_tokOk htok) hpar]
    exact h2

/-- 4.1: add fails when the parent of the target location does not exist -/
theorem rAdd_missing_parent {d : Node} {p : Path} (v : Node) (hp : p ≠ []) (htok : ∀ t ∈ p, tokOk t = true)
    (h : getTok d (parent p) = none) : rAdd d p v = none := by
  unfold rAdd
  rw [modify_eq _ p d hp htok, h]

/-- 4.2 on an object member: after a successful remove the member is gone -/
theorem rRemove_member_gone {d d' : Node} {p : Path} {kvs : AMap Node} (hwf : d.WF) (hp : p ≠ [])
    (htok : ∀ t ∈ p, tokOk t = true) (hpar : getTok d (parent p) = some (.cont kvs))
    (h : rRemove d p = some d') : getTok d' p = none := by
  unfold rRemove at h
  rw [modify_eq _ p d hp htok, hpar] at h
  simp only [removeLast] at h
  split at h
  · simp only [Option.map_some, Option.some.injEq] at h
    subst h
    rw [getTok_parent_last _ hp, get_setAt _ d _ _ (parent_tokOk htok) hpar]
    simp only [stepRef]
    exact AMap.get?_erase_self (getTok_wf _ d _ hwf hpar).sorted _
  · cases h

end Ytk.Patch
