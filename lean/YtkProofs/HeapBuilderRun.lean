/-
  YtkProofs.HeapBuilderRun — histories of builder calls in a TREE-SHAPED document: well-formedness
  AND tree-ness are invariants (YtkProofs/HeapBuilderTree.lean per call), so the per-call refinement
  theorems (YtkProofs/HeapBuilderRefine.lean) apply at every step of the history.
-/
import YtkProofs.HeapBuilderTree
import YtkModel.Builder

namespace Ytk.Heap
open Heap

/-- a call in a tree-shaped document below `root`: made on a cell of the document (the root or a LIVE
    handle); the node it attaches (if any) exists, is itself a tree, and shares at most leaves with the
    document -/
def HOp.TreeOk (h : Heap) (root : Addr) (op : HOp) : Prop :=
  Reach h root op.target ∧ ∀ v, op.value = some v → v < h.size ∧ SibSep h v ∧ Apart h root v

theorem HOp.TreeOk.ok {h : Heap} {root : Addr} {op : HOp} (hi : Inv h) (hrl : root < h.size)
    (hok : op.TreeOk h root) : op.Ok h :=
  ⟨reach_lt hi.closed hok.1 hrl, fun v hv =>
    ⟨(hok.2 v hv).1, fun w hw hcomp hvw => (hok.2 v hv).2.2 w (hok.1.trans hw) hvw hcomp⟩⟩

/-- one call keeps the document a well-formed tree -/
theorem hstep_tree {h h' : Heap} {root : Addr} {op : HOp} {ret : Option Addr} (hi : Inv h) (hs : SibSep h root)
    (hrl : root < h.size) (hok : op.TreeOk h root) (he : hstep h op = .ok (h', ret)) :
    Inv h' ∧ SibSep h' root := by
  refine ⟨hstep_inv hi (hok.ok hi hrl) he, ?_⟩
  obtain ⟨hrt, hval⟩ := hok
  have unwrap : ∀ {α : Type} (o : Option α) (g : α → Heap × Option Addr),
      outcomeOfOption (o.map g) = .ok (h', ret) → ∃ x, o = some x ∧ g x = (h', ret) := by
    intro α o g hx
    cases o with
    | none => simp [outcomeOfOption] at hx
    | some x => exact ⟨x, rfl, by simpa [outcomeOfOption] using hx⟩
  cases op with
  | addValue c name v =>
    obtain ⟨x, hx, hf⟩ := unwrap _ _ he
    cases hf
    obtain ⟨hv, hsv, hap⟩ := hval v rfl
    exact Tree.addH_sibSep hi hs hrt hsv hap hrl hv hx
  | addValueAt c path v =>
    obtain ⟨x, hx, hf⟩ := unwrap _ _ he
    cases hf
    obtain ⟨hv, hsv, hap⟩ := hval v rfl
    exact Tree.addValueAtH_sibSep hi hs hrt hsv hap hrl hv hx
  | addContainer c name =>
    obtain ⟨x, hx, hf⟩ := unwrap _ _ he
    obtain ⟨h2, b⟩ := x
    cases hf
    exact Tree.addContainerH_sibSep hi hs hrt hrl hx
  | addList c name =>
    obtain ⟨x, hx, hf⟩ := unwrap _ _ he
    obtain ⟨h2, b⟩ := x
    cases hf
    exact Tree.addListH_sibSep hi hs hrt hrl hx
  | remove c name =>
    obtain ⟨x, hx, hf⟩ := unwrap _ _ he
    cases hf
    exact Tree.remove_sibSep hs hx
  | removeAt c path =>
    obtain ⟨x, hx, hf⟩ := unwrap _ _ he
    cases hf
    exact Tree.removeAtH_sibSep hs hx
  | child c name =>
    simp only [hstep, Outcome.ok.injEq, Prod.mk.injEq] at he
    obtain ⟨rfl, _⟩ := he
    exact hs
  | lookup c path =>
    simp only [hstep, Outcome.ok.injEq, Prod.mk.injEq] at he
    obtain ⟨rfl, _⟩ := he
    exact hs
  | listSet l idx v =>
    obtain ⟨x, hx, hf⟩ := unwrap _ _ he
    cases hf
    obtain ⟨hv, hsv, hap⟩ := hval v rfl
    exact Tree.listSet_sibSep hi hs hrt hsv hap hrl hv hx
  | listMustSet l idx v =>
    simp only [hstep] at he
    cases hms : listMustSetH h l idx v with
    | ok x =>
      rw [hms] at he
      simp only [Outcome.map, Outcome.ok.injEq, Prod.mk.injEq] at he
      obtain ⟨rfl, _⟩ := he
      obtain ⟨hv, hsv, hap⟩ := hval v rfl
      exact Tree.listMustSetH_sibSep hi hs hrt hsv hap hrl hv hms
    | err => rw [hms] at he; simp [Outcome.map] at he
    | panic => rw [hms] at he; simp [Outcome.map] at he
  | listAppend l v =>
    obtain ⟨x, hx, hf⟩ := unwrap _ _ he
    cases hf
    obtain ⟨hv, hsv, hap⟩ := hval v rfl
    exact Tree.listAppend_sibSep hi hs hrt hsv hap hrl hv hx
  | listClear l =>
    obtain ⟨x, hx, hf⟩ := unwrap _ _ he
    cases hf
    exact Tree.listClear_sibSep hs hx
  | compact c =>
    obtain ⟨x, hx, hf⟩ := unwrap _ _ he
    cases hf
    exact Tree.compactH_sibSep hs hx

theorem hstep_size_le {h h' : Heap} {op : HOp} {ret : Option Addr} (hi : Inv h) (hok : op.Ok h)
    (he : hstep h op = .ok (h', ret)) : h.size ≤ h'.size := by
  obtain ⟨rank, hr⟩ := hi.acyclic
  obtain ⟨htl, hval⟩ := hok
  have unwrap : ∀ {α : Type} (o : Option α) (g : α → Heap × Option Addr),
      outcomeOfOption (o.map g) = .ok (h', ret) → ∃ x, o = some x ∧ g x = (h', ret) := by
    intro α o g hx
    cases o with
    | none => simp [outcomeOfOption] at hx
    | some x => exact ⟨x, rfl, by simpa [outcomeOfOption] using hx⟩
  cases op with
  | addValue c name v =>
    obtain ⟨x, hx, hf⟩ := unwrap _ _ he
    cases hf
    obtain ⟨w, spec⟩ := addH_spec hr hi.nilOk hi.mapsOk hx
    exact spec.size_le
  | addValueAt c path v =>
    obtain ⟨x, hx, hf⟩ := unwrap _ _ he
    cases hf
    obtain ⟨w, spec⟩ := addAtSegsH_spec hi.closed hr hi.nilOk hi.mapsOk (hval v rfl).1 _ c _
      (Ytk.splitPath_ne_nil path) htl hx
    exact spec.size_le
  | addContainer c name =>
    obtain ⟨x, hx, hf⟩ := unwrap _ _ he
    obtain ⟨h2, b⟩ := x
    cases hf
    obtain ⟨_, w, spec⟩ := addContainerH_spec hr hi.nilOk hi.mapsOk hx
    exact Nat.le_trans (size_le_of_le (le_alloc _ _)) spec.size_le
  | addList c name =>
    obtain ⟨x, hx, hf⟩ := unwrap _ _ he
    obtain ⟨h2, b⟩ := x
    cases hf
    obtain ⟨_, w, spec⟩ := addListH_spec hr hi.nilOk hi.mapsOk hx
    exact Nat.le_trans (size_le_of_le (le_alloc _ _)) spec.size_le
  | remove c name =>
    obtain ⟨x, hx, hf⟩ := unwrap _ _ he
    cases hf
    exact Nat.le_of_eq (remove_spec hx).size_eq.symm
  | removeAt c path =>
    obtain ⟨x, hx, hf⟩ := unwrap _ _ he
    cases hf
    unfold removeAtH at hx
    split at hx
    · exact Nat.le_of_eq (removeAtSegsH_spec _ c _ hx).size_eq.symm
    · cases hx
  | child c name =>
    simp only [hstep, Outcome.ok.injEq, Prod.mk.injEq] at he
    obtain ⟨rfl, _⟩ := he; exact Nat.le_refl _
  | lookup c path =>
    simp only [hstep, Outcome.ok.injEq, Prod.mk.injEq] at he
    obtain ⟨rfl, _⟩ := he; exact Nat.le_refl _
  | listSet l idx v =>
    obtain ⟨x, hx, hf⟩ := unwrap _ _ he
    cases hf
    exact (listSet_spec hx).size_le
  | listMustSet l idx v =>
    simp only [hstep] at he
    cases hms : listMustSetH h l idx v with
    | ok x =>
      rw [hms] at he
      simp only [Outcome.map, Outcome.ok.injEq, Prod.mk.injEq] at he
      obtain ⟨rfl, _⟩ := he
      exact (listMustSetH_spec hms).size_le
    | err => rw [hms] at he; simp [Outcome.map] at he
    | panic => rw [hms] at he; simp [Outcome.map] at he
  | listAppend l v =>
    obtain ⟨x, hx, hf⟩ := unwrap _ _ he
    cases hf
    exact (listAppend_spec hx).size_le
  | listClear l =>
    obtain ⟨x, hx, hf⟩ := unwrap _ _ he
    cases hf
    exact Nat.le_of_eq (listClear_spec hx).size_eq.symm
  | compact c =>
    obtain ⟨x, hx, hf⟩ := unwrap _ _ he
    cases hf
    exact Nat.le_of_eq (compactF_spec _ _ c _ hx).size_eq.symm

/-- the value-level builder call (`BOp`, YtkModel/Builder.lean) that a heap-level call made ON THE ROOT
    is; `vn` = the abstraction of its value node -/
def HOp.toBOp : HOp → Node → Option BOp
  | .addValue _ name _, vn => some (.addValue name vn)
  | .addValueAt _ path _, vn => some (.addValueAt path vn)
  | .addContainer _ name, _ => some (.addContainer name)
  | .addList _ name, _ => some (.addList name)
  | .remove _ name, _ => some (.remove name)
  | .removeAt _ path, _ => some (.removeAt path)
  | .compact _, _ => some .compact
  | _, _ => none

/-- REFINEMENT of one root-level call, in terms of the value-level step function `bstep` -/
theorem hstep_bstep {h h' : Heap} {root : Addr} {op : HOp} {ret : Option Addr} {d : AMap Node} {vn : Node}
    {bop : BOp} (hi : Inv h) (hs : SibSep h root) (hrl : root < h.size) (hok : op.TreeOk h root)
    (htgt : op.target = root) (hd : abs h root = some (.cont d)) (hv : ∀ v, op.value = some v → abs h v = some vn)
    (hb : op.toBOp vn = some bop) (he : hstep h op = .ok (h', ret)) :
    ∃ d', bstep d bop = .ok d' ∧ abs h' root = some (.cont d') := by
  obtain ⟨_, hval⟩ := hok
  have unwrap : ∀ {α : Type} (o : Option α) (g : α → Heap × Option Addr),
      outcomeOfOption (o.map g) = .ok (h', ret) → ∃ x, o = some x ∧ g x = (h', ret) := by
    intro α o g hx
    cases o with
    | none => simp [outcomeOfOption] at hx
    | some x => exact ⟨x, rfl, by simpa [outcomeOfOption] using hx⟩
  cases op with
  | addValue c name v =>
    simp only [HOp.target] at htgt; subst htgt
    simp only [HOp.toBOp, Option.some.injEq] at hb; subst hb
    obtain ⟨x, hx, hf⟩ := unwrap _ _ he
    cases hf
    obtain ⟨hvl, _, hap⟩ := hval v rfl
    exact ⟨_, rfl, (addH_refines hi hs hap hrl hvl hd (hv v rfl) hx).2⟩
  | addValueAt c path v =>
    simp only [HOp.target] at htgt; subst htgt
    simp only [HOp.toBOp, Option.some.injEq] at hb; subst hb
    obtain ⟨x, hx, hf⟩ := unwrap _ _ he
    cases hf
    obtain ⟨hvl, _, hap⟩ := hval v rfl
    exact ⟨_, rfl, (addValueAtH_refines hi hs hap hrl hvl hd (hv v rfl) hx).2⟩
  | addContainer c name =>
    simp only [HOp.target] at htgt; subst htgt
    simp only [HOp.toBOp, Option.some.injEq] at hb; subst hb
    obtain ⟨x, hx, hf⟩ := unwrap _ _ he
    obtain ⟨h2, b⟩ := x
    cases hf
    exact ⟨_, rfl, (addContainerH_refines hi hs hrl hd hx).2⟩
  | addList c name =>
    simp only [HOp.target] at htgt; subst htgt
    simp only [HOp.toBOp, Option.some.injEq] at hb; subst hb
    obtain ⟨x, hx, hf⟩ := unwrap _ _ he
    obtain ⟨h2, b⟩ := x
    cases hf
    exact ⟨_, rfl, (addListH_refines hi hs hrl hd hx).2⟩
  | remove c name =>
    simp only [HOp.target] at htgt; subst htgt
    simp only [HOp.toBOp, Option.some.injEq] at hb; subst hb
    obtain ⟨x, hx, hf⟩ := unwrap _ _ he
    cases hf
    exact ⟨_, rfl, (remove_refines hi hrl hd hx).2⟩
  | removeAt c path =>
    simp only [HOp.target] at htgt; subst htgt
    simp only [HOp.toBOp, Option.some.injEq] at hb; subst hb
    obtain ⟨x, hx, hf⟩ := unwrap _ _ he
    cases hf
    exact ⟨_, rfl, (removeAtH_refines hi hs hrl hd hx).2⟩
  | compact c =>
    simp only [HOp.target] at htgt; subst htgt
    simp only [HOp.toBOp, Option.some.injEq] at hb; subst hb
    obtain ⟨x, hx, hf⟩ := unwrap _ _ he
    cases hf
    exact ⟨_, rfl, (compactH_refines hi hs hd hx).2⟩
  | child c name => simp [HOp.toBOp] at hb
  | lookup c path => simp [HOp.toBOp] at hb
  | listSet l idx v => simp [HOp.toBOp] at hb
  | listMustSet l idx v => simp [HOp.toBOp] at hb
  | listAppend l v => simp [HOp.toBOp] at hb
  | listClear l => simp [HOp.toBOp] at hb

/-- a history in a tree-shaped document: every call is `TreeOk` in the heap it is applied to -/
inductive TreeRun (root : Addr) : Heap → List HOp → Heap → Prop
  | nil (h : Heap) : TreeRun root h [] h
  | cons {h h1 h' : Heap} {op : HOp} {ops : List HOp} {ret : Option Addr} :
      op.TreeOk h root → hstep h op = .ok (h1, ret) → TreeRun root h1 ops h' → TreeRun root h (op :: ops) h'

theorem TreeRun.inv {root : Addr} {h h' : Heap} {ops : List HOp} (hrun : TreeRun root h ops h') (hi : Inv h)
    (hs : SibSep h root) (hrl : root < h.size) : Inv h' ∧ SibSep h' root ∧ root < h'.size := by
  induction hrun with
  | nil _ => exact ⟨hi, hs, hrl⟩
  | cons hok he _ ih =>
    obtain ⟨hi1, hs1⟩ := hstep_tree hi hs hrl hok he
    exact ih hi1 hs1 (Nat.lt_of_lt_of_le hrl (hstep_size_le hi (hok.ok hi hrl) he))

end Ytk.Heap
