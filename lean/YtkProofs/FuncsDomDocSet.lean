/-
  YtkProofs.FuncsDomDocSet — the regenerated translation of `containsAnyOf` (analytics/document_set.go; the tag test
  of TaggedSubset) in YtkModel/Generated/FuncsAnalytics.lean EQUALS `DocSet.containsAnyOf`.  Restated in YtkProps/C18.lean.
-/
import YtkModel.Generated.FuncsAnalytics
import YtkModel.DocSet
import YtkProofs.FuncsLemmas

set_option linter.unusedSimpArgs false

namespace Ytk.FuncsDomDocSet
open Ytk Ytk.Generated

theorem containsAnyOf_loop_eq (cs : List String) : ∀ (col : List String),
    FuncsAnalytics.containsAnyOf_loop1 cs col = (if col.any (fun i => cs.contains i) then .ret true else .next ()) := by
  intro col
  induction col with
  | nil => rfl
  | cons i rest ih =>
    simp only [FuncsAnalytics.containsAnyOf_loop1, Go.slicesContains, ih, List.any_cons]
    by_cases h : i ∈ cs <;> simp [h]

theorem containsAnyOf_generated_eq_model (col cs : List String) :
    FuncsAnalytics.containsAnyOf col cs = DocSet.containsAnyOf col cs := by
  simp only [FuncsAnalytics.containsAnyOf, containsAnyOf_loop_eq, DocSet.containsAnyOf]
  cases col.any (fun i => cs.contains i) <;> rfl

end Ytk.FuncsDomDocSet
