/-
  Lens laws of the builder model, directly on the string-path functions of YtkModel/Dom.lean
  (`child add addAtSegs addValueAt lookupSegs lookup removeAtSegs removeAt`).
  No hypothesis on the alphabet of names is needed: the laws hold for all strings.
-/
import YtkModel.Dom
import YtkProofs.Dom

namespace Ytk

/-! ### lists: padTo / listSet / walkIdx / setSlot -/

theorem padTo_length (xs : List Node) (n : Nat) : (padTo xs n).length = max xs.length n := by
  simp [padTo]; omega

theorem lt_padTo_length (xs : List Node) (i : Nat) : i < (padTo xs (i + 1)).length := by
  rw [padTo_length]; omega

theorem padTo_getElem?_lt {xs : List Node} {n j : Nat} (h : j < xs.length) : (padTo xs n)[j]? = xs[j]? := by
  simp [padTo, List.getElem?_append_left h]

theorem padTo_getElem?_ge {xs : List Node} {n j : Nat} (h : xs.length ≤ j) :
    (padTo xs n)[j]? = if j < n then some Node.null else none := by
  simp only [padTo]
  rw [List.getElem?_append_right h, List.getElem?_replicate]
  by_cases hj : j < n
  · simp [hj]; omega
  · simp [hj]; omega

theorem walkIdx_none (is : List Nat) : walkIdx none is = none := by
  cases is <;> rfl

theorem walkIdx_setSlot_self : ∀ (is : List Nat) (cur : Option Node) (v : Node),
    walkIdx (some (setSlot cur is v)) is = some v
  | [], _, _ => rfl
  | i :: is, cur, v => by
    simp only [setSlot, walkIdx]
    rw [List.getElem?_set_self (lt_padTo_length _ i)]
    exact walkIdx_setSlot_self is _ v

/-! ### one component: child / add -/

theorem child_add_self (kvs : AMap Node) (name : String) (v : Node) : child (add kvs name v) name = some v := by
  unfold child add
  cases h : parseSeg name with
  | mk b is =>
    cases is with
    | nil => simp [AMap.get?_insert_self]
    | cons i is =>
      simp only [AMap.get?_insert_self]
      exact walkIdx_setSlot_self (i :: is) _ v

/-- when no index group is present the component is its own base -/
theorem parseSeg_nil_base {name b : String} (h : parseSeg name = (b, [])) : b = name := by
  have grow : ∀ (fuel : Nat) (s : List Char) (acc : List Nat), acc ≠ [] → (parseSegAux fuel s acc).2 ≠ [] := by
    intro fuel
    induction fuel with
    | zero => intro s acc h; simpa [parseSegAux] using h
    | succ n ih =>
      intro s acc h
      simp only [parseSegAux]
      cases stripIdx s with
      | none => simpa using h
      | some pi => exact ih _ _ (by simp)
  have base : ∀ (fuel : Nat) (s : List Char), (parseSegAux fuel s []).2 = [] → (parseSegAux fuel s []).1 = s := by
    intro fuel s
    cases fuel with
    | zero => intro _; rfl
    | succ n =>
      intro hnil
      simp only [parseSegAux] at hnil ⊢
      cases hs : stripIdx s with
      | none => simp
      | some pi =>
        obtain ⟨p, i⟩ := pi
        simp only [hs] at hnil
        exact absurd hnil (grow n p [i] (by simp))
  unfold parseSeg at h
  have h2 : (parseSegAux name.length name.toList []).2 = [] := (Prod.mk.inj h).2
  have h1 := (Prod.mk.inj h).1
  rw [base _ _ h2, String.ofList_toList] at h1
  exact h1.symm

/-- the base key a component addresses -/
def segBase (name : String) : String := (parseSeg name).1

theorem child_add_other (kvs : AMap Node) {name name' : String} (v : Node)
    (h : segBase name' ≠ segBase name) : child (add kvs name v) name' = child kvs name' := by
  unfold child add
  unfold segBase at h
  cases hp : parseSeg name with
  | mk b is =>
    cases hq : parseSeg name' with
    | mk b' is' =>
      rw [hp, hq] at h
      simp only at h
      have e1 : is = [] → b = name := fun e => parseSeg_nil_base (e ▸ hp)
      have e2 : is' = [] → b' = name' := fun e => parseSeg_nil_base (e ▸ hq)
      cases is with
      | nil =>
        have := e1 rfl; subst this
        cases is' with
        | nil => have := e2 rfl; subst this; simp [AMap.get?_insert_ne _ _ h]
        | cons _ _ => simp [AMap.get?_insert_ne _ _ h]
      | cons _ _ =>
        cases is' with
        | nil => have := e2 rfl; subst this; simp [AMap.get?_insert_ne _ _ h]
        | cons _ _ => simp [AMap.get?_insert_ne _ _ h]

theorem child_nil (name : String) : child ([] : AMap Node) name = none := by
  unfold child
  cases parseSeg name with
  | mk b is => cases is <;> simp [walkIdx_none]

/-! ### whole paths -/

theorem lookupSegs_nil_map : ∀ (segs : List String), lookupSegs ([] : AMap Node) segs = none
  | [] => rfl
  | [s] => by simp [lookupSegs, child_nil]
  | s :: t :: r => by simp [lookupSegs, child_nil]

/-- set-get: what was written at a path is what lookup returns there — for every path. -/
theorem lookupSegs_addAtSegs_self : ∀ (segs : List String) (kvs : AMap Node) (v : Node), segs ≠ [] →
    lookupSegs (addAtSegs kvs segs v) segs = some v
  | [], _, _, h => absurd rfl h
  | [s], kvs, v, _ => by simp [lookupSegs, addAtSegs, child_add_self]
  | s :: t :: r, kvs, v, _ => by
    simp only [lookupSegs, addAtSegs, child_add_self]
    exact lookupSegs_addAtSegs_self (t :: r) _ v (by simp)

theorem splitDot_ne_nil (cs : List Char) : splitDot cs ≠ [] := by
  induction cs with
  | nil => simp [splitDot]
  | cons c cs ih =>
    simp only [splitDot]
    cases h : splitDot cs with
    | nil => exact absurd h ih
    | cons a b =>
      simp only
      split <;> simp

theorem splitPath_ne_nil (p : String) : splitPath p ≠ [] := by
  simp [splitPath, splitDot_ne_nil]

theorem lookup_addValueAt_self (kvs : AMap Node) (path : String) (v : Node) (h : path ≠ "") :
    lookup (addValueAt kvs path v) path = some v := by
  simp only [lookup, if_neg h, addValueAt]
  exact lookupSegs_addAtSegs_self _ kvs v (splitPath_ne_nil path)

/-- Two segment lists diverge at a component whose base key differs (after a common prefix). -/
inductive Diverge : List String → List String → Prop
  | head {p q : String} {ps qs : List String} : segBase p ≠ segBase q → Diverge (p :: ps) (q :: qs)
  | tail {p : String} {ps qs : List String} : ps ≠ [] → qs ≠ [] → Diverge ps qs → Diverge (p :: ps) (p :: qs)

/-- frame: a write at `ps` is invisible at every path that diverges from it by key. -/
theorem lookupSegs_addAtSegs_frame : ∀ (ps qs : List String) (kvs : AMap Node) (v : Node), Diverge ps qs →
    lookupSegs (addAtSegs kvs ps v) qs = lookupSegs kvs qs
  | _, _, kvs, v, @Diverge.head p q ps qs h => by
    have hc : ∀ x, child (add kvs p x) q = child kvs q := fun x => child_add_other kvs x (fun e => h e.symm)
    cases ps with
    | nil =>
      cases qs with
      | nil => simp [addAtSegs, lookupSegs, hc]
      | cons q' qs => simp [addAtSegs, lookupSegs, hc]
    | cons p' ps =>
      cases qs with
      | nil => simp [addAtSegs, lookupSegs, hc]
      | cons q' qs => simp [addAtSegs, lookupSegs, hc]
  | _, _, kvs, v, @Diverge.tail p ps qs hp hq hd => by
    cases ps with
    | nil => exact absurd rfl hp
    | cons p' ps =>
      cases qs with
      | nil => exact absurd rfl hq
      | cons q' qs =>
        simp only [addAtSegs, lookupSegs, child_add_self]
        rw [lookupSegs_addAtSegs_frame (p' :: ps) (q' :: qs) _ v hd]
        cases hch : child kvs p with
        | none => simp [lookupSegs_nil_map]
        | some n =>
          cases n with
          | cont c => rfl
          | leaf _ => simp [lookupSegs_nil_map]
          | list _ => simp [lookupSegs_nil_map]

/-! ### remove -/

theorem child_remove_self {kvs : AMap Node} (hs : AMap.Sorted kvs) {name : String} (hn : hasIdxSuffix name = false) :
    child (remove kvs name) name = none := by
  rw [child_of_noSuffix _ hn]
  exact AMap.get?_erase_self hs name

theorem sorted_add {kvs : AMap Node} (hs : AMap.Sorted kvs) (name : String) (v : Node) : AMap.Sorted (add kvs name v) := by
  unfold add
  cases parseSeg name with
  | mk b is => cases is <;> exact AMap.sorted_insert hs _ _

/-- remove-get: after removing a path (whose last step is a key) lookup returns nothing there. -/
theorem lookupSegs_removeAtSegs_self : ∀ (segs : List String) (kvs : AMap Node), (Node.cont kvs).Valid → segs ≠ [] →
    (∀ l, segs.getLast? = some l → hasIdxSuffix l = false) → lookupSegs (removeAtSegs kvs segs) segs = none
  | [], _, _, h, _ => absurd rfl h
  | [s], kvs, hv, _, hl => by
    simp only [lookupSegs, removeAtSegs]
    exact child_remove_self hv.sorted (hl s rfl)
  | s :: t :: r, kvs, hv, _, hl => by
    simp only [removeAtSegs]
    cases hch : child kvs s with
    | none => simp [lookupSegs, hch]
    | some n =>
      cases n with
      | leaf _ => simp [lookupSegs, hch]
      | list _ => simp [lookupSegs, hch]
      | cont c =>
        simp only [lookupSegs, child_add_self]
        have hcv : (Node.cont c).Valid := child_valid hv hch
        exact lookupSegs_removeAtSegs_self (t :: r) c hcv (by simp) (by
          intro l hl'
          apply hl l
          simpa [List.getLast?_cons_cons] using hl')

end Ytk

namespace Ytk

/-- the list a node holds (anything else counts as no list: it is replaced) -/
def listOf : Option Node → List Node
  | some (.list xs) => xs
  | _ => []

/-- writing slot `i` below a base leaves slot `j ≠ i` alone; slots created by padding hold null -/
theorem setSlot_single_other (cur : Option Node) {i j : Nat} (v : Node) (h : j ≠ i) :
    walkIdx (some (setSlot cur [i] v)) [j] =
      if j < (listOf cur).length then (listOf cur)[j]? else if j < i + 1 then some Node.null else none := by
  have e : setSlot cur [i] v = .list ((padTo (listOf cur) (i + 1)).set i v) := by
    cases cur with
    | none => simp [setSlot, listOf]
    | some n => cases n <;> simp [setSlot, listOf]
  rw [e]
  simp only [walkIdx]
  rw [List.getElem?_set_ne (Ne.symm h)]
  by_cases hj : j < (listOf cur).length
  · simp [hj, padTo_getElem?_lt hj]
  · simp only [hj, if_false]
    rw [padTo_getElem?_ge (Nat.le_of_not_lt hj)]

theorem segBase_noSuffix (name : String) : hasIdxSuffix (segBase name) = false := parseSeg_base_noSuffix name

theorem child_remove_other (kvs : AMap Node) {name q : String} (h : segBase q ≠ segBase name) :
    child (remove kvs name) q = child kvs q := by
  have hne : segBase q ≠ name := by
    intro e
    by_cases hs : hasIdxSuffix name = false
    · apply h
      have : parseSeg name = (name, []) := parseSeg_of_noSuffix hs
      rw [e]
      simp [segBase, this]
    · have := segBase_noSuffix q
      rw [e] at this
      exact hs this
  unfold child remove
  unfold segBase at hne
  cases hq : parseSeg q with
  | mk b' is' =>
    rw [hq] at hne
    simp only at hne
    cases is' with
    | nil =>
      have := parseSeg_nil_base hq; subst this
      simp [AMap.get?_erase_ne _ hne]
    | cons _ _ => simp [AMap.get?_erase_ne _ hne]

/-- frame for removal: removing a path is invisible at every path that diverges from it by key. -/
theorem lookupSegs_removeAtSegs_frame : ∀ (ps qs : List String) (kvs : AMap Node), Diverge ps qs →
    lookupSegs (removeAtSegs kvs ps) qs = lookupSegs kvs qs
  | _, _, kvs, @Diverge.head p q ps qs h => by
    have hc1 : child (remove kvs p) q = child kvs q := child_remove_other kvs (fun e => h e.symm)
    have hc2 : ∀ x, child (add kvs p x) q = child kvs q := fun x => child_add_other kvs x (fun e => h e.symm)
    cases ps with
    | nil =>
      cases qs with
      | nil => simp [removeAtSegs, lookupSegs, hc1]
      | cons q' qs => simp [removeAtSegs, lookupSegs, hc1]
    | cons p' ps =>
      simp only [removeAtSegs]
      cases hch : child kvs p with
      | none => rfl
      | some n =>
        cases n with
        | leaf _ => rfl
        | list _ => rfl
        | cont c =>
          cases qs with
          | nil => simp [lookupSegs, hc2]
          | cons q' qs => simp [lookupSegs, hc2]
  | _, _, kvs, @Diverge.tail p ps qs hp hq hd => by
    cases ps with
    | nil => exact absurd rfl hp
    | cons p' ps =>
      cases qs with
      | nil => exact absurd rfl hq
      | cons q' qs =>
        simp only [removeAtSegs]
        cases hch : child kvs p with
        | none => rfl
        | some n =>
          cases n with
          | leaf _ => rfl
          | list _ => rfl
          | cont c =>
            simp only [lookupSegs, child_add_self, hch]
            exact lookupSegs_removeAtSegs_frame (p' :: ps) (q' :: qs) c hd

end Ytk
