/-
  YtkProofs.OpStrings — the translated `String()` methods (YtkModel/Generated/Funcs.lean, `<T>_String`)
  equal the hand-written model of YtkModel/OpStrings.lean, for ALL field values; and the facts about
  the clone of an action value that the C15 string theorems use.
-/
import YtkModel.OpStrings
import YtkModel.Generated.Funcs
import YtkModel.Generated.CloneTable
import YtkProofs.FuncsLemmas
import YtkProofs.Clone

namespace Ytk.OpStrings
open Ytk.Generated Ytk.Clone Ytk.CloneT

theorem len_pos (s : String) : decide (Go.len s > 0) = (s != "") := by
  have h := @String.length_eq_zero_iff s
  by_cases hs : s = ""
  · subst hs; decide
  · have : s.length ≠ 0 := fun e => hs (h.mp e)
    have h2 : Go.len s > 0 := by simp only [Go.len]; omega
    simp [hs, h2]

theorem push_eq (s : String) (c : Char) : s.push c = s ++ String.singleton c := by
  apply String.toList_inj.mp; simp [String.toList_push, String.toList_append]

theorem AbortOp_String_eq (m : String) : Funcs.AbortOp_String m = abortS m := rfl
theorem ExtOp_String_eq (f : String) : Funcs.ExtOp_String f = extS f := rfl
theorem Html2DomOp_String_eq (f t : String) : Funcs.Html2DomOp_String f t = html2domS f t := rfl
theorem ImportOp_String_eq (f p m : String) : Funcs.ImportOp_String f p m = importS f p m := rfl
theorem LoopOp_String_eq : Funcs.LoopOp_String = loopS := rfl
theorem PatchOp_String_eq (o p : String) : Funcs.PatchOp_String o p = patchS o p := rfl
theorem SetOp_String_eq (p : String) : Funcs.SetOp_String p = setS p := rfl
theorem TemplateFileOp_String_eq (f o : String) : Funcs.TemplateFileOp_String f o = templateFileS f o := rfl
theorem TemplateOp_String_eq (p : String) : Funcs.TemplateOp_String p = templateS p := rfl

theorem strTrunc5 (s : String) :
    Funcs.strTruncIfNeeded s 5 = .ok (if s.toList.length ≤ 5 then s else String.ofList (s.toList.take 5)) := by
  unfold Funcs.strTruncIfNeeded
  by_cases h : s.toList.length ≤ 5
  · have : Go.len s ≤ 5 := by simp only [Go.len_eq]; omega
    simp [h, this]
  · have h1 : ¬ Go.len s ≤ 5 := by simp only [Go.len_eq]; omega
    have hs := Go.slice_nat s 0 5 (by omega) (by omega)
    simp only [Int.natCast_zero, List.drop_zero, Nat.sub_zero] at hs
    simp [h, h1]
    exact hs

theorem LogOp_String_eq (m : String) : Funcs.LogOp_String m = .ok (logS m) := by
  unfold Funcs.LogOp_String logS
  rw [strTrunc5]
  simp [Go.len_eq, Go.fmtD_nat, Go.fmtS]

theorem ExecOp_String_eq (p d : String) (a : Option (List String)) : Funcs.ExecOp_String p d a = .ok (execS p d a) := by
  unfold Funcs.ExecOp_String execS
  cases a <;> simp [Funcs.safeStrListSize, Go.deref, Go.lenL, Go.fmtD_nat, Go.fmtS] <;> rfl

theorem ValOrRef_String_eq (r v : String) : Funcs.ValOrRef_String r v = valOrRefS r v := by
  unfold Funcs.ValOrRef_String valOrRefS
  simp only [len_pos, push_eq, Go.stringsJoin, Go.fmtS, partIf]
  by_cases hr : r = "" <;> by_cases hv : v = "" <;> simp [hr, hv] <;> rfl

theorem ActionMeta_String_eq (n : String) (o : Int) (w : Option String) :
    Funcs.ActionMeta_String n o w = .ok (actionMetaS n o w) := by
  have hd : Funcs.safeStrDeref w = .ok (w.getD "") := by cases w <;> simp [Funcs.safeStrDeref, Go.deref]
  unfold Funcs.ActionMeta_String actionMetaS
  simp only [hd, Go.Res.ok_bind, len_pos, push_eq, Go.stringsJoin, Go.fmtS, Go.fmtD, partIf]
  by_cases hn : n = "" <;> by_cases ho : o = 0 <;> by_cases hw : Go.trimSpace (w.getD "") = "" <;>
    simp [hn, ho, hw] <;> rfl

end Ytk.OpStrings

namespace Ytk.OpStrings
open Ytk.Generated Ytk.Clone Ytk.CloneT

/-- what `CloneWith` of type `ty` does with the value of field `f` -/
def fieldClone (tbl : List CloneType) (render : String → String) (ty f : String) (v : CV) : CV :=
  match actOf tbl ty f with
  | .copy => v
  | .copySlice => v
  | .render => renderV render v
  | .nested => cloneV tbl render v
  | .reflectAll => cloneV tbl render v
  | .mapAll => cloneV tbl render v
  | .none => zeroV v

/-- reading a field of the clone = cloning the field read from the original -/
theorem getField_cloneFields (tbl : List CloneType) (render : String → String) (ty f : String) :
    ∀ fs : List (String × CV), getField (cloneFields tbl render ty fs) f = (getField fs f).map (fieldClone tbl render ty f)
  | [] => by simp [cloneFields, getField]
  | (g, w) :: rest => by
    by_cases hg : (g == f) = true
    · have : g = f := by simpa using hg
      subst this
      simp only [cloneFields, getField, List.find?, fieldClone, beq_self_eq_true, Option.map_some]
      cases actOf tbl ty g <;> rfl
    · have hg' : (g == f) = false := by simpa using hg
      have ih := getField_cloneFields tbl render ty f rest
      simpa [cloneFields, getField, List.find?, hg'] using ih

theorem getField_clone_copy {tbl : List CloneType} {render : String → String} {ty f : String}
    (h : actOf tbl ty f = .copy) (fs : List (String × CV)) :
    getField (cloneFields tbl render ty fs) f = getField fs f := by
  rw [getField_cloneFields]
  cases getField fs f <;> simp [fieldClone, h]

theorem getField_clone_render {tbl : List CloneType} {render : String → String} {ty f : String}
    (h : actOf tbl ty f = .render) (fs : List (String × CV)) :
    getField (cloneFields tbl render ty fs) f = (getField fs f).map (renderV render) := by
  rw [getField_cloneFields]
  cases getField fs f <;> simp [fieldClone, h]

/-- the text of a string field after rendering -/
def strFR (render : String → String) (fs : List (String × CV)) (f : String) : String :=
  match getField fs f with
  | some (.str s) => render s
  | _ => ""

theorem strF_clone_render {tbl : List CloneType} {render : String → String} {ty f : String}
    (h : actOf tbl ty f = .render) (fs : List (String × CV)) :
    strF (cloneFields tbl render ty fs) f = strFR render fs f := by
  unfold strF strFR
  rw [getField_clone_render h]
  cases hq : getField fs f with
  | none => rfl
  | some v =>
    cases v with
    | str s => simp [renderV]
    | strPtr o => cases o <;> simp [renderV]
    | strs o => cases o <;> simp [renderV]
    | data d => simp [renderV]
    | nil => simp [renderV]
    | rcd t r => simp [renderV]

theorem strF_clone_copy {tbl : List CloneType} {render : String → String} {ty f : String}
    (h : actOf tbl ty f = .copy) (fs : List (String × CV)) :
    strF (cloneFields tbl render ty fs) f = strF fs f := by
  unfold strF; rw [getField_clone_copy h]

theorem strsF_clone_copy {tbl : List CloneType} {render : String → String} {ty f : String}
    (h : actOf tbl ty f = .copy) (fs : List (String × CV)) :
    strsF (cloneFields tbl render ty fs) f = strsF fs f := by
  unfold strsF; rw [getField_clone_copy h]

theorem strPtrF_clone_copy {tbl : List CloneType} {render : String → String} {ty f : String}
    (h : actOf tbl ty f = .copy) (fs : List (String × CV)) :
    strPtrF (cloneFields tbl render ty fs) f = strPtrF fs f := by
  unfold strPtrF; rw [getField_clone_copy h]

theorem recF_clone_copy {tbl : List CloneType} {render : String → String} {ty f : String}
    (h : actOf tbl ty f = .copy) (fs : List (String × CV)) :
    recF (cloneFields tbl render ty fs) f = recF fs f := by
  unfold recF; rw [getField_clone_copy h]

/-- rendering the elements keeps the number of arguments -/
theorem strsF_clone_render_length {tbl : List CloneType} {render : String → String} {ty f : String}
    (h : actOf tbl ty f = .render) (fs : List (String × CV)) :
    ((strsF (cloneFields tbl render ty fs) f).getD []).length = ((strsF fs f).getD []).length := by
  unfold strsF
  rw [getField_clone_render h]
  cases hq : getField fs f with
  | none => rfl
  | some v =>
    cases v with
    | strs o => cases o <;> simp [renderV]
    | str s => simp [renderV]
    | strPtr o => cases o <;> simp [renderV]
    | data d => simp [renderV]
    | nil => simp [renderV]
    | rcd t r => simp [renderV]

end Ytk.OpStrings

namespace Ytk.OpStrings
open Ytk.Clone

/-! unfolding `opS` at each type name -/
theorem opS_abort (fs : List (String × CV)) : opS "AbortOp" fs = abortS (strF fs "Message") := by simp [opS]
theorem opS_log (fs : List (String × CV)) : opS "LogOp" fs = logS (strF fs "Message") := by simp [opS]
theorem opS_set (fs : List (String × CV)) : opS "SetOp" fs = setS (strF fs "Path") := by simp [opS]
theorem opS_template (fs : List (String × CV)) : opS "TemplateOp" fs = templateS (strF fs "Path") := by simp [opS]
theorem opS_import (fs : List (String × CV)) :
    opS "ImportOp" fs = importS (strF fs "File") (strF fs "Path") (strF fs "Mode") := by simp [opS]
theorem opS_patch (fs : List (String × CV)) : opS "PatchOp" fs = patchS (strF fs "Op") (strF fs "Path") := by simp [opS]
theorem opS_html2dom (fs : List (String × CV)) : opS "Html2DomOp" fs = html2domS (strF fs "From") (strF fs "To") := by simp [opS]
theorem opS_templateFile (fs : List (String × CV)) :
    opS "TemplateFileOp" fs = templateFileS (strF fs "File") (strF fs "Output") := by simp [opS]
theorem opS_env (fs : List (String × CV)) :
    opS "EnvOp" fs = envS (strF fs "Path") (strPtrF fs "Include") (strPtrF fs "Exclude") := by simp [opS]
theorem opS_exec (fs : List (String × CV)) :
    opS "ExecOp" fs = execS (strF fs "Program") (strF fs "Dir") (strsF fs "Args") := by simp [opS]
theorem opS_call (fs : List (String × CV)) :
    opS "CallOp" fs = callS (strF fs "Name") ((strsF fs "Args").getD []).length := by simp [opS]
theorem opS_ext (fs : List (String × CV)) : opS "ExtOp" fs = extS (strF fs "Function") := by simp [opS]
theorem opS_loop (fs : List (String × CV)) : opS "LoopOp" fs = loopS := by simp [opS]
theorem opS_forEach (fs : List (String × CV)) :
    opS "ForEachOp" fs =
      forEachS ((recF fs "Glob").map fun r => valOrRefStructS (dataF r "isRef") (strF r "Ref") (strF r "Val"))
        ((strsF fs "Item").map fun xs => valOrRefSliceS (pairsOf xs))
        ((recF fs "Query").map fun r => valOrRefStructS (dataF r "isRef") (strF r "Ref") (strF r "Val")) := by
  simp [opS]

end Ytk.OpStrings
