/-
  YtkProofs.HeapPatch — lemmas about the heap-level patch model (YtkModel/HeapPatch.lean).

  1. the shape of every operation: at most ONE cell (the parent `Path.Eval` located) is written,
     nothing is allocated (copy: only by its Clone);
  2. evaluation is stable under writes / extensions (acyclic heaps);
  3. copy: freshness and independence;
  4. failure restores every cell.
-/
import YtkProofs.Heap
import YtkProofs.HeapOverlay
import YtkModel.HeapPatch

namespace Ytk.Heap
open Heap
open Ytk.Ptr (Path atoi parent lastSegment)

/-! ## 1. Shapes -/

/-- what `doAdd` makes of the parent cell -/
def AddCell (h : Heap) (par : Addr) (last : String) (v : Addr) (cell' : Cell) : Prop :=
  (∃ xs idx, atoi last = some idx ∧ h.get? par = some (.list xs) ∧ 0 ≤ idx ∧ idx ≤ (xs.length : Int) ∧
    cell' = .list (xs.take idx.toNat ++ v :: xs.drop idx.toNat)) ∨
  (∃ kvs, h.get? par = some (.cont kvs) ∧ cell' = .cont (AMap.insert kvs last v))

theorem doAddH_cases (value : Option Addr) (path : Path) (h : Heap) (root : Addr) :
    doAddH value path h root = (h, .err) ∨
    ∃ v par cell', value = some v ∧ evalH h root (parent path) = some par ∧
      doAddH value path h root = (h.write par cell', .ok ()) ∧ AddCell h par (lastSegment path) v cell' := by
  unfold doAddH
  cases value with
  | none => exact Or.inl rfl
  | some v =>
    dsimp only
    cases hp : evalH h root (parent path) with
    | none => exact Or.inl rfl
    | some par =>
      dsimp only
      cases hg : h.get? par with
      | none => cases atoi (lastSegment path) <;> exact Or.inl rfl
      | some cell =>
        cases cell with
        | leaf s => cases atoi (lastSegment path) <;> exact Or.inl rfl
        | cont kvs =>
          right
          refine ⟨v, par, _, rfl, rfl, ?_, Or.inr ⟨kvs, hg, rfl⟩⟩
          cases atoi (lastSegment path) <;> rfl
        | list xs =>
          cases ha : atoi (lastSegment path) with
          | none => exact Or.inl rfl
          | some idx =>
            dsimp only
            by_cases hi : idx < 0 ∨ (xs.length : Int) < idx
            · rw [if_pos hi]; exact Or.inl rfl
            · rw [if_neg hi]
              right
              refine ⟨v, par, _, rfl, rfl, rfl, Or.inl ⟨xs, idx, ha, hg, ?_, ?_, rfl⟩⟩
              · omega
              · omega

/-- `doAdd` never panics -/
theorem doAddH_ne_panic (value : Option Addr) (path : Path) (h : Heap) (root : Addr) :
    (doAddH value path h root).2 ≠ .panic := by
  rcases doAddH_cases value path h root with h1 | ⟨_, _, _, _, _, h1, _⟩ <;> rw [h1] <;> simp

theorem stepH_write_self_add {h : Heap} {par v : Addr} {last : String} {cell' : Cell}
    (hc : AddCell h par last v cell') : stepH (h.write par cell') par last = some v := by
  have hlt : par < h.size := by
    rcases hc with ⟨xs, idx, _, hg, _⟩ | ⟨kvs, hg, _⟩ <;> exact get?_lt hg
  unfold stepH
  rw [get?_write_self h _ hlt]
  rcases hc with ⟨xs, idx, ha, hg, h0, h1, rfl⟩ | ⟨kvs, hg, rfl⟩
  · simp only [ha]
    have hlen : (xs.take idx.toNat ++ v :: xs.drop idx.toNat).length = xs.length + 1 := by
      simp only [List.length_append, List.length_take, List.length_cons, List.length_drop]
      omega
    have hcond : 0 ≤ idx ∧ idx < ((xs.take idx.toNat ++ v :: xs.drop idx.toNat).length : Int) := by
      rw [hlen]; constructor <;> omega
    simp only [hcond, and_self, if_true]
    have htl : (xs.take idx.toNat).length = idx.toNat := by
      simp only [List.length_take]; omega
    rw [List.getElem?_append_right (by omega), htl, Nat.sub_self]
    rfl
  · simp only [AMap.get?_insert_self]

/-- what `doRemove` makes of the parent cell -/
def RemCell (h : Heap) (par : Addr) (last : String) (cell' : Cell) : Prop :=
  (∃ xs idx, atoi last = some idx ∧ h.get? par = some (.list xs) ∧ -1 ≤ idx ∧ idx ≤ (xs.length : Int) ∧
    cell' = (if idx = -1 then .list xs else .list (xs.take idx.toNat ++ xs.drop (idx.toNat + 1)))) ∨
  (∃ kvs, h.get? par = some (.cont kvs) ∧ cell' = .cont (AMap.erase kvs last))

theorem doRemoveH_cases (path : Path) (h : Heap) (root : Addr) :
    (evalH h root path = none ∧ doRemoveH path h root = (h, .err)) ∨
    (doRemoveH path h root = (h, .panic)) ∨
    ∃ n par cell', evalH h root path = some n ∧ evalH h root (parent path) = some par ∧
      doRemoveH path h root = (h.write par cell', .ok ()) ∧ RemCell h par (lastSegment path) cell' := by
  unfold doRemoveH
  cases hn : evalH h root path with
  | none => exact Or.inl ⟨rfl, rfl⟩
  | some n =>
    dsimp only
    cases hp : evalH h root (parent path) with
    | none => exact Or.inr (Or.inl rfl)
    | some par =>
      dsimp only
      cases hg : h.get? par with
      | none => cases atoi (lastSegment path) <;> exact Or.inr (Or.inl rfl)
      | some cell =>
        cases cell with
        | leaf s => cases atoi (lastSegment path) <;> exact Or.inr (Or.inl rfl)
        | cont kvs =>
          right; right
          refine ⟨n, par, _, rfl, rfl, ?_, Or.inr ⟨kvs, hg, rfl⟩⟩
          cases atoi (lastSegment path) <;> rfl
        | list xs =>
          cases ha : atoi (lastSegment path) with
          | none => exact Or.inr (Or.inl rfl)
          | some idx =>
            dsimp only
            by_cases hi : idx < -1 ∨ (xs.length : Int) < idx
            · rw [if_pos hi]; exact Or.inr (Or.inl rfl)
            · rw [if_neg hi]
              right; right
              by_cases h1 : idx = -1
              · rw [if_pos h1]
                refine ⟨n, par, _, rfl, rfl, rfl, Or.inl ⟨xs, idx, ha, hg, by omega, by omega, ?_⟩⟩
                rw [if_pos h1]
              · rw [if_neg h1]
                refine ⟨n, par, _, rfl, rfl, rfl, Or.inl ⟨xs, idx, ha, hg, by omega, by omega, ?_⟩⟩
                rw [if_neg h1]

/-- what `doReplace` makes of the parent cell -/
def ReplCell (h : Heap) (par : Addr) (last : String) (v : Addr) (cell' : Cell) : Prop :=
  (∃ xs idx, atoi last = some idx ∧ h.get? par = some (.list xs) ∧ 0 ≤ idx ∧
    cell' = .list ((xs ++ List.replicate (idx.toNat + 1 - xs.length) nilAddr).set idx.toNat v)) ∨
  (∃ kvs, h.get? par = some (.cont kvs) ∧ cell' = .cont (AMap.insert kvs last v))

theorem doReplaceH_cases (value : Option Addr) (path : Path) (h : Heap) (root : Addr) :
    (doReplaceH value path h root = (h, .err)) ∨
    (doReplaceH value path h root = (h, .panic)) ∨
    ∃ v n par cell', value = some v ∧ evalH h root path = some n ∧ evalH h root (parent path) = some par ∧
      doReplaceH value path h root = (h.write par cell', .ok ()) ∧ ReplCell h par (lastSegment path) v cell' := by
  unfold doReplaceH
  cases value with
  | none => exact Or.inl rfl
  | some v =>
    dsimp only
    cases hn : evalH h root path with
    | none => exact Or.inl rfl
    | some n =>
      dsimp only
      cases hp : evalH h root (parent path) with
      | none => exact Or.inr (Or.inl rfl)
      | some par =>
        dsimp only
        cases hg : h.get? par with
        | none => cases atoi (lastSegment path) <;> exact Or.inr (Or.inl rfl)
        | some cell =>
          cases cell with
          | leaf s => cases atoi (lastSegment path) <;> exact Or.inr (Or.inl rfl)
          | cont kvs =>
            right; right
            refine ⟨v, n, par, _, rfl, rfl, rfl, ?_, Or.inr ⟨kvs, hg, rfl⟩⟩
            cases atoi (lastSegment path) <;> rfl
          | list xs =>
            cases ha : atoi (lastSegment path) with
            | none => exact Or.inr (Or.inl rfl)
            | some idx =>
              dsimp only
              by_cases hi : idx < 0
              · rw [if_pos hi]; exact Or.inr (Or.inl rfl)
              · rw [if_neg hi]
                right; right
                exact ⟨v, n, par, _, rfl, rfl, rfl, rfl, Or.inl ⟨xs, idx, ha, hg, by omega, rfl⟩⟩

theorem stepH_write_self_repl {h : Heap} {par v : Addr} {last : String} {cell' : Cell}
    (hc : ReplCell h par last v cell') : stepH (h.write par cell') par last = some v := by
  have hlt : par < h.size := by
    rcases hc with ⟨xs, idx, _, hg, _⟩ | ⟨kvs, hg, _⟩ <;> exact get?_lt hg
  unfold stepH
  rw [get?_write_self h _ hlt]
  rcases hc with ⟨xs, idx, ha, hg, h0, rfl⟩ | ⟨kvs, hg, rfl⟩
  · simp only [ha]
    have hlen : idx.toNat < ((xs ++ List.replicate (idx.toNat + 1 - xs.length) nilAddr).set idx.toNat v).length := by
      simp only [List.length_set, List.length_append, List.length_replicate]
      omega
    have hcond : 0 ≤ idx ∧ idx < (((xs ++ List.replicate (idx.toNat + 1 - xs.length) nilAddr).set idx.toNat v).length : Int) := by
      constructor <;> omega
    simp only [hcond, and_self, if_true]
    rw [List.getElem?_set_self (by simpa using hlen)]
  · simp only [AMap.get?_insert_self]

/-- `doTest` only reads -/
theorem doTestH_heap (value : Option Addr) (path : Path) (h : Heap) (root : Addr) :
    (doTestH value path h root).1 = h := by
  unfold doTestH
  cases value with
  | none => rfl
  | some v =>
    dsimp only
    cases evalH h root path with
    | none => rfl
    | some n =>
      dsimp only
      cases abs h v <;> cases abs h n <;> dsimp only
      split <;> rfl

/-! ## 2. Evaluation: kids, ranks, stability -/

theorem stepH_kid {h : Heap} {a x : Addr} {t : String} (hs : stepH h a t = some x) :
    ∃ c, h.get? a = some c ∧ x ∈ c.kids := by
  unfold stepH at hs
  cases hg : h.get? a with
  | none => simp [hg] at hs
  | some c =>
    refine ⟨c, rfl, ?_⟩
    cases c with
    | leaf s => simp [hg] at hs
    | list xs =>
      simp only [hg] at hs
      cases ha : atoi t with
      | none => simp [ha] at hs
      | some i =>
        simp only [ha] at hs
        split at hs
        · exact List.mem_of_getElem? hs
        · cases hs
    | cont kvs =>
      simp only [hg] at hs
      exact kids_of_get? hs

theorem evalH_reach {h : Heap} : ∀ (p : Path) (a b : Addr), evalH h a p = some b → Reach h a b
  | [], a, b, he => by
    simp only [evalH, Option.some.injEq] at he
    subst he; exact .refl _
  | t :: ts, a, b, he => by
    simp only [evalH] at he
    cases hs : stepH h a t with
    | none => simp [hs] at he
    | some x =>
      simp only [hs] at he
      obtain ⟨c, hg, hk⟩ := stepH_kid hs
      exact .step hg hk (evalH_reach ts x b he)

theorem rank_le_of_reach' {h : Heap} {rank : Addr → Nat} (hr : h.RankedBy rank) {a b : Addr}
    (hab : Reach h a b) : rank b ≤ rank a := by
  induction hab with
  | refl _ => exact Nat.le_refl _
  | step hg hk _ ih => exact Nat.le_trans ih (Nat.le_of_lt (hr _ _ hg _ hk))

/-- on an acyclic heap a write to the cell a path resolves to does not change the resolution -/
theorem evalH_write_stable {h : Heap} {rank : Addr → Nat} (hr : h.RankedBy rank) (c : Cell) :
    ∀ (p : Path) (a b : Addr), evalH h a p = some b → evalH (h.write b c) a p = some b
  | [], a, b, he => by
    simp only [evalH, Option.some.injEq] at he ⊢
    exact he
  | t :: ts, a, b, he => by
    simp only [evalH] at he ⊢
    cases hs : stepH h a t with
    | none => simp [hs] at he
    | some x =>
      simp only [hs] at he
      obtain ⟨cell, hg, hk⟩ := stepH_kid hs
      have hlt : rank b < rank a :=
        Nat.lt_of_le_of_lt (rank_le_of_reach' hr (evalH_reach ts x b he)) (hr a cell hg x hk)
      have hab : a ≠ b := fun e => by subst e; exact Nat.lt_irrefl _ hlt
      have hs' : stepH (h.write b c) a t = some x := by
        unfold stepH at hs ⊢
        rw [get?_write_ne h c hab]; exact hs
      simp only [hs']
      exact evalH_write_stable hr c ts x b he

/-- evaluation from an old root in an extended heap is evaluation in the old heap -/
theorem evalH_of_le {h h1 : Heap} (hl : h ≤ h1) (hc : h.Closed) :
    ∀ (p : Path) (a : Addr), a < h.size → evalH h1 a p = evalH h a p
  | [], _, _ => rfl
  | t :: ts, a, ha => by
    have hs : stepH h1 a t = stepH h a t := by
      unfold stepH; rw [get?_eq_of_le hl ha]
    simp only [evalH, hs]
    cases hx : stepH h a t with
    | none => rfl
    | some x =>
      obtain ⟨c, hg, hk⟩ := stepH_kid hx
      exact evalH_of_le hl hc ts x (hc a c hg x hk)

theorem evalH_lt {h : Heap} (hc : h.Closed) {p : Path} {a b : Addr} (ha : a < h.size)
    (he : evalH h a p = some b) : b < h.size := by
  have hr := evalH_reach p a b he
  exact Reach.closed_set (fun x => x < h.size) (fun x c _ hg k hk => hc x c hg k hk) hr ha

/-- a resolved non-empty path: its parent resolves, and the last step leads to the node -/
theorem evalH_append {h : Heap} : ∀ (p q : Path) (a : Addr),
    evalH h a (p ++ q) = (evalH h a p).bind fun b => evalH h b q
  | [], _, _ => rfl
  | t :: ts, q, a => by
    simp only [List.cons_append, evalH]
    cases stepH h a t with
    | none => rfl
    | some x => exact evalH_append ts q x

theorem parent_append_last {p : Path} (hp : p ≠ []) : parent p ++ [lastSegment p] = p := by
  unfold parent lastSegment
  rw [List.getLast?_eq_some_getLast hp]
  by_cases h1 : p.length ≤ 1
  · rw [if_pos h1]
    match p, hp, h1 with
    | [x], _, _ => rfl
  · rw [if_neg h1]
    have : p.take (p.length - 1) = p.dropLast := by rw [List.dropLast_eq_take]
    rw [this, List.dropLast_concat_getLast hp]

theorem evalH_parent_last {h : Heap} {p : Path} {a n : Addr} (hp : p ≠ [])
    (he : evalH h a p = some n) :
    ∃ par, evalH h a (parent p) = some par ∧ stepH h par (lastSegment p) = some n := by
  rw [← parent_append_last hp, evalH_append] at he
  cases hpar : evalH h a (parent p) with
  | none => simp [hpar] at he
  | some par =>
    refine ⟨par, rfl, ?_⟩
    simp only [hpar, Option.bind_some, evalH] at he
    cases hs : stepH h par (lastSegment p) with
    | none => simp [hs] at he
    | some x => simpa [hs] using he

/-! ### heap writes as list updates -/

theorem Heap.write_write (h : Heap) (a : Addr) (c d : Cell) : (h.write a c).write a d = h.write a d := by
  simp only [Heap.write, List.set_set]

theorem Heap.write_self {h : Heap} {a : Addr} {c : Cell} (hg : h.get? a = some c) : h.write a c = h := by
  cases h with
  | mk cells =>
    simp only [Heap.write, Heap.get?] at hg ⊢
    congr 1
    apply List.ext_getElem?
    intro i
    by_cases hi : i = a
    · subst hi
      rw [List.getElem?_set_self (List.getElem?_eq_some_iff.mp hg).1, hg]
    · rw [List.getElem?_set_ne (Ne.symm hi)]

theorem Writes.get?_frame {Q : Addr → Prop} {h h' : Heap} (hw : Writes (fun _ a => Q a) h h') {b : Addr}
    (hb : ¬ Q b) (hlt : b < h.size) : h'.get? b = h.get? b := by
  induction hw with
  | refl _ => rfl
  | @write g g' a c hp _ ih =>
    have hba : b ≠ a := fun e => hb (e ▸ hp)
    rw [ih (by rw [size_write]; exact hlt), get?_write_ne g c hba]
  | @alloc g g' c _ ih =>
    rw [ih (by rw [size_alloc]; exact Nat.lt_succ_of_lt hlt), get?_eq_of_le (le_alloc g c) hlt]

theorem Writes.size_le {P : Heap → Addr → Prop} {h h' : Heap} (hw : Writes P h h') : h.size ≤ h'.size := by
  induction hw with
  | refl _ => exact Nat.le_refl _
  | write a c _ _ ih => rw [size_write] at ih; exact ih
  | alloc c _ ih => rw [size_alloc] at ih; exact Nat.le_of_succ_le ih

/-! ## 3. copy -/

/-- a successful copy: Clone of the `from` node, then ONE write of the (old) parent cell of `path`
    that attaches the clone root -/
theorem copy_shape {f path : Path} {h h' : Heap} {root : Addr} (hcl : h.Closed) (hroot : root < h.size)
    (he : moveOrCopyH (some f) path h root false = (h', .ok ())) :
    ∃ n h1 c par cell', evalH h root f = some n ∧ cloneF h.size h n = some (h1, c) ∧
      evalH h root (parent path) = some par ∧ par < h.size ∧ h' = h1.write par cell' ∧
      AddCell h1 par (lastSegment path) c cell' := by
  unfold moveOrCopyH moveOrCopyWith at he
  dsimp only at he
  cases hn : evalH h root f with
  | none => simp [hn] at he
  | some n =>
    simp only [hn, Bool.false_eq_true, if_false] at he
    cases hc : cloneF h.size h n with
    | none => simp [hc] at he
    | some q =>
      obtain ⟨h1, c⟩ := q
      simp only [hc] at he
      have hl := (cloneF_spec h.size h n h1 c hc).1
      rcases doAddH_cases (some c) path h1 root with h2 | ⟨v, par, cell', hv, hp, h2, hcell⟩
      · rw [h2] at he; cases he
      · rw [h2] at he
        cases hv
        simp only [Prod.mk.injEq, and_true] at he
        rw [evalH_of_le hl hcl _ root hroot] at hp
        exact ⟨n, h1, c, par, cell', rfl, hc, hp, evalH_lt hcl hroot hp, he.symm, hcell⟩

section copy
variable {h h1 h' : Heap} {n c par : Addr} {cell' : Cell}

/-- every cell below the attached copy was allocated by the copy -/
theorem copy_fresh (hc : cloneF h.size h n = some (h1, c)) (hpar : par < h.size)
    (he : h' = h1.write par cell') : ∀ b, Reach h' c b → h.size ≤ b ∧ b < h1.size := by
  obtain ⟨_, b1, b2, _⟩ := cloneF_spec h.size h n h1 c hc
  have hreg := cloneF_region hc
  have hnr : ¬ Reach h1 c par := fun hr => absurd hpar (Nat.not_lt.mpr (hreg.reach hr b1 b2).1)
  intro b hb
  rw [he, reach_write_frame cell' hnr] at hb
  exact hreg.reach hb b1 b2

/-- writes below the copy (cells allocated by or after it) change no old root that does not reach the
    parent cell the copy was attached to -/
theorem copy_independent_source (hc : cloneF h.size h n = some (h1, c)) (he : h' = h1.write par cell')
    {h2 : Heap} (hw : Writes (fun _ b => h.size ≤ b) h' h2) {g : Nat} {x : Addr} {nx : Node}
    (hx : absH g h x = some nx) (hnr : ¬ Reach h x par) : absH g h2 x = some nx := by
  have hl := (cloneF_spec h.size h n h1 c hc).1
  rw [← hx]
  refine absH_agree g x ?_
  intro b hb
  have hlt := reach_lt_of_absH g x nx hx b hb
  have hbp : b ≠ par := fun e => hnr (e ▸ hb)
  have hlt' : b < h'.size := by
    rw [he, size_write]; exact Nat.lt_of_lt_of_le hlt (size_le_of_le hl)
  rw [hw.get?_frame (Nat.not_le.mpr hlt) hlt', he, get?_write_ne h1 cell' hbp, get?_eq_of_le hl hlt]

/-- writes anywhere else (old cells, cells allocated after the copy) do not change the copy -/
theorem copy_independent_copy (hc : cloneF h.size h n = some (h1, c)) (hpar : par < h.size)
    (he : h' = h1.write par cell') {h2 : Heap}
    (hw : Writes (fun _ b => b < h.size ∨ h1.size ≤ b) h' h2) {g : Nat} {m : Node}
    (hm : absH g h' c = some m) : absH g h2 c = some m := by
  obtain ⟨_, b1, b2, _⟩ := cloneF_spec h.size h n h1 c hc
  have hreg := cloneF_region hc
  have hnr : ¬ Reach h1 c par := fun hr => absurd hpar (Nat.not_lt.mpr (hreg.reach hr b1 b2).1)
  have hm1 : absH g h1 c = some m := by
    rw [← absH_write_frame cell' hnr g, ← he]; exact hm
  have hw1 : Writes (fun _ b => b < h.size ∨ h1.size ≤ b) h1 h2 :=
    .write par cell' (Or.inl hpar) (he ▸ hw)
  exact (hw1.region_frame hreg (Nat.le_refl _)).2 g c m b1 b2 hm1

end copy

/-! ## 4. move -/

/-- a successful move to another location: ONE write of the parent cell of `from` (detach), then ONE
    write of the parent cell of `path` (attach THE SAME node); nothing is allocated -/
theorem move_shape {f path : Path} {h h' : Heap} {root : Addr} (hne : f ≠ path)
    (he : moveOrCopyH (some f) path h root true = (h', .ok ())) :
    ∃ n pf cellR par cell', evalH h root f = some n ∧ evalH h root (parent f) = some pf ∧
      RemCell h pf (lastSegment f) cellR ∧
      evalH (h.write pf cellR) root (parent path) = some par ∧
      AddCell (h.write pf cellR) par (lastSegment path) n cell' ∧
      h' = (h.write pf cellR).write par cell' := by
  unfold moveOrCopyH moveOrCopyWith at he
  dsimp only at he
  cases hn : evalH h root f with
  | none => simp [hn] at he
  | some n =>
    simp only [hn, if_true, if_neg hne] at he
    split at he
    · cases he
    · rcases doRemoveH_cases f h root with ⟨h0, _⟩ | h0 | ⟨n', pf, cellR, hn', hpf, h0, hcell⟩
      · rw [hn] at h0; cases h0
      · rw [h0] at he; simp at he
      · rw [h0] at he
        dsimp only at he
        rcases doAddH_cases (some n) path (h.write pf cellR) root with h2 | ⟨v, par, cell', hv, hp, h2, hc⟩
        · rw [h2] at he
          dsimp only at he
          rcases doAddH_cases (some n) f (h.write pf cellR) root with h3 | ⟨_, _, _, _, _, h3, _⟩ <;>
            rw [h3] at he <;> simp at he
        · rw [h2] at he
          cases hv
          simp only [Prod.mk.injEq, and_true] at he
          exact ⟨n, pf, cellR, par, cell', rfl, hpf, hcell, hp, hc, he.symm⟩

/-! ## 5. failure restores -/

theorem list_remove_insert {xs : List Addr} {i : Nat} {n : Addr} (hi : xs[i]? = some n) :
    (xs.take i ++ xs.drop (i + 1)).take i ++ n :: (xs.take i ++ xs.drop (i + 1)).drop i = xs := by
  have hlt : i < xs.length := (List.getElem?_eq_some_iff.mp hi).1
  have hlen : (xs.take i).length = i := by simp only [List.length_take]; omega
  have h1 : (xs.take i ++ xs.drop (i + 1)).take i = xs.take i := by
    rw [List.take_append_of_le_length (by omega), List.take_take, Nat.min_self]
  have h2 : (xs.take i ++ xs.drop (i + 1)).drop i = xs.drop (i + 1) := by
    rw [List.drop_append_of_le_length (by omega)]
    have : (xs.take i).drop i = [] := by
      apply List.drop_eq_nil_of_le; omega
    rw [this, List.nil_append]
  rw [h1, h2]
  have hn : xs[i] = n := by
    have := List.getElem?_eq_getElem hlt
    rw [this] at hi; exact Option.some.inj hi
  rw [← hn, ← List.drop_eq_getElem_cons hlt, List.take_append_drop]

theorem insert_erase_self {kvs : AMap Addr} (hs : AMap.Sorted kvs) {k : String} {n : Addr}
    (hg : AMap.get? kvs k = some n) : AMap.insert (AMap.erase kvs k) k n = kvs := by
  apply AMap.ext_of_sorted (AMap.sorted_insert (AMap.sorted_erase hs k) k n) hs
  intro x
  by_cases hx : x = k
  · subst hx; rw [AMap.get?_insert_self, hg]
  · rw [AMap.get?_insert_ne _ _ hx, AMap.get?_erase_ne _ hx]

/-- detaching the node a path resolves to and adding it back at the same path restores the parent
    cell exactly -/
theorem remove_add_back {h : Heap} {rank : Addr → Nat} (hr : h.RankedBy rank) (hm : h.MapsOk)
    {f : Path} {root n pf : Addr} {cellR : Cell} (hf : f ≠ [])
    (hn : evalH h root f = some n) (hpf : evalH h root (parent f) = some pf)
    (hcell : RemCell h pf (lastSegment f) cellR) :
    doAddH (some n) f (h.write pf cellR) root = (h, .ok ()) := by
  obtain ⟨pf', hpf', hstep⟩ := evalH_parent_last hf hn
  rw [hpf] at hpf'
  cases Option.some.inj hpf'
  have hstable : evalH (h.write pf cellR) root (parent f) = some pf := evalH_write_stable hr cellR _ _ _ hpf
  have hlt : pf < h.size := by
    rcases hcell with ⟨xs, idx, _, hg, _⟩ | ⟨kvs, hg, _⟩ <;> exact get?_lt hg
  unfold doAddH
  simp only [hstable, get?_write_self h cellR hlt]
  unfold stepH at hstep
  rcases hcell with ⟨xs, idx, ha, hg, h0, h1, rfl⟩ | ⟨kvs, hg, rfl⟩
  · simp only [hg, ha] at hstep
    split at hstep
    · rename_i hcond
      have hne1 : idx ≠ -1 := by omega
      simp only [ha, if_neg hne1]
      have hlen : ((xs.take idx.toNat ++ xs.drop (idx.toNat + 1)).length : Int) = xs.length - 1 := by
        simp only [List.length_append, List.length_take, List.length_drop]
        omega
      have hno : ¬ (idx < 0 ∨ ((xs.take idx.toNat ++ xs.drop (idx.toNat + 1)).length : Int) < idx) := by
        rw [hlen]; omega
      simp only [if_neg hno, Heap.write_write, list_remove_insert hstep]
      rw [Heap.write_self hg]
    · cases hstep
  · simp only [hg] at hstep
    have : h.write pf (.cont (AMap.insert (AMap.erase kvs (lastSegment f)) (lastSegment f) n)) = h := by
      rw [insert_erase_self (hm pf kvs hg) hstep, Heap.write_self hg]
    cases atoi (lastSegment f) <;> simp only [Heap.write_write, this]

theorem properPrefix_nil {p : Path} (hp : p ≠ []) : Ytk.Patch.properPrefix [] p = true := by
  cases p with
  | nil => exact absurd rfl hp
  | cons a as => simp [Ytk.Patch.properPrefix]

/-- a move that does not succeed leaves the heap EXACTLY as it was (acyclic heap, children maps
    with unique keys): nothing written before the failure is detected, or — when the add at `path`
    fails after the node was detached — the detached node is added back and the parent cell of `from`
    is cell-for-cell what it was -/
theorem move_failure {frm : Option Path} {path : Path} {h : Heap} {root : Addr} {rank : Addr → Nat}
    (hr : h.RankedBy rank) (hm : h.MapsOk)
    (hfail : (moveOrCopyH frm path h root true).2 ≠ .ok ()) : (moveOrCopyH frm path h root true).1 = h := by
  unfold moveOrCopyH moveOrCopyWith at hfail ⊢
  dsimp only at hfail ⊢
  cases frm with
  | none => rfl
  | some f =>
    dsimp only at hfail ⊢
    cases hn : evalH h root f with
    | none => rfl
    | some n =>
      simp only [hn, if_true] at hfail ⊢
      by_cases hfp : f = path
      · rw [if_pos hfp] at hfail; exact absurd rfl hfail
      · rw [if_neg hfp] at hfail ⊢
        by_cases hpp : Ytk.Patch.properPrefix f path = true
        · rw [if_pos hpp]
        · rw [if_neg hpp] at hfail ⊢
          have hf : f ≠ [] := by
            intro e; subst e
            exact hpp (properPrefix_nil (fun e => hfp e.symm))
          rcases doRemoveH_cases f h root with ⟨h0, _⟩ | h0 | ⟨n', pf, cellR, hn', hpf, h0, hcell⟩
          · rw [hn] at h0; cases h0
          · rw [h0]
          · rw [hn] at hn'; cases Option.some.inj hn'
            rw [h0] at hfail ⊢
            dsimp only at hfail ⊢
            rcases doAddH_cases (some n) path (h.write pf cellR) root with h2 | ⟨v, par, cell', hv, hp, h2, hc⟩
            · rw [h2] at hfail ⊢
              dsimp only at hfail ⊢
              rw [remove_add_back hr hm hf hn hpf hcell]
            · rw [h2] at hfail
              exact absurd rfl hfail

/-- a copy that does not succeed writes no cell (its Clone may have been allocated, unattached) -/
theorem copy_failure {frm : Option Path} {path : Path} {h : Heap} {root : Addr}
    (hfail : (moveOrCopyH frm path h root false).2 ≠ .ok ()) : h ≤ (moveOrCopyH frm path h root false).1 := by
  unfold moveOrCopyH moveOrCopyWith at hfail ⊢
  dsimp only at hfail ⊢
  cases frm with
  | none => exact le_refl _
  | some f =>
    dsimp only at hfail ⊢
    cases hn : evalH h root f with
    | none => exact le_refl _
    | some n =>
      simp only [hn, Bool.false_eq_true, if_false] at hfail ⊢
      cases hc : cloneF h.size h n with
      | none => exact le_refl _
      | some q =>
        obtain ⟨h1, c⟩ := q
        simp only [hc] at hfail ⊢
        have hl := (cloneF_spec h.size h n h1 c hc).1
        rcases doAddH_cases (some c) path h1 root with h2 | ⟨v, par, cell', hv, hp, h2, hcell⟩
        · rw [h2]; exact hl
        · rw [h2] at hfail; exact absurd rfl hfail

/-- FAILURE RESTORES: an operation that does not succeed leaves every existing cell as it was; for
    every operation but copy the heap is literally the old one -/
theorem patchDoH_failure {o : HOpObj} {h : Heap} {root : Addr} {rank : Addr → Nat}
    (hr : h.RankedBy rank) (hm : h.MapsOk) (hfail : (patchDoH o h root).2 ≠ .ok ()) :
    h ≤ (patchDoH o h root).1 ∧ (o.op ≠ "copy" → (patchDoH o h root).1 = h) := by
  unfold patchDoH at hfail ⊢
  cases hp : o.path with
  | none => exact ⟨le_refl _, fun _ => rfl⟩
  | some path =>
    simp only [hp] at hfail ⊢
    by_cases h1 : o.op = "add"
    · simp only [h1, if_true] at hfail ⊢
      rcases doAddH_cases o.value path h root with h2 | ⟨_, _, _, _, _, h2, _⟩
      · rw [h2]; exact ⟨le_refl _, fun _ => rfl⟩
      · rw [h2] at hfail; exact absurd rfl hfail
    · simp only [h1, if_false] at hfail ⊢
      by_cases h2 : o.op = "remove"
      · simp only [h2, if_true] at hfail ⊢
        rcases doRemoveH_cases path h root with ⟨_, h3⟩ | h3 | ⟨_, _, _, _, _, h3, _⟩
        · rw [h3]; exact ⟨le_refl _, fun _ => rfl⟩
        · rw [h3]; exact ⟨le_refl _, fun _ => rfl⟩
        · rw [h3] at hfail; exact absurd rfl hfail
      · simp only [h2, if_false] at hfail ⊢
        by_cases h3 : o.op = "replace"
        · simp only [h3, if_true] at hfail ⊢
          rcases doReplaceH_cases o.value path h root with h4 | h4 | ⟨_, _, _, _, _, _, _, h4, _⟩
          · rw [h4]; exact ⟨le_refl _, fun _ => rfl⟩
          · rw [h4]; exact ⟨le_refl _, fun _ => rfl⟩
          · rw [h4] at hfail; exact absurd rfl hfail
        · simp only [h3, if_false] at hfail ⊢
          by_cases h4 : o.op = "move"
          · simp only [h4, if_true] at hfail ⊢
            have := move_failure hr hm hfail
            rw [this]; exact ⟨le_refl _, fun _ => rfl⟩
          · simp only [h4, if_false] at hfail ⊢
            by_cases h5 : o.op = "copy"
            · simp only [h5, if_true] at hfail ⊢
              exact ⟨copy_failure hfail, fun hne => absurd rfl hne⟩
            · simp only [h5, if_false] at hfail ⊢
              by_cases h6 : o.op = "test"
              · simp only [h6, if_true]
                rw [doTestH_heap]; exact ⟨le_refl _, fun _ => rfl⟩
              · rw [if_neg h6]; exact ⟨le_refl _, fun _ => rfl⟩

/-! ## 6. pipeline.PatchOp -/

/-- a successful PatchOp add / replace with a value source: Clone of the source node (the op's own
    node, or the node looked up via valueFrom), then ONE write of the (old) parent cell of `path`
    that attaches the clone root -/
theorem patchOp_attach_shape {op : String} {frm : Option Path} {path : Path} {src : ValueSrc}
    {h h' : Heap} {root n : Addr} (hop : op = "add" ∨ op = "replace") (hcl : h.Closed)
    (hroot : root < h.size) (hsrc : srcNode h root src = some n)
    (he : patchOpDoH op frm (some path) src h root = (h', .ok ())) :
    ∃ h1 c par cell', cloneF h.size h n = some (h1, c) ∧ evalH h root (parent path) = some par ∧
      par < h.size ∧ h' = h1.write par cell' ∧ stepH h' par (lastSegment path) = some c := by
  unfold patchOpDoH at he
  simp only [hsrc] at he
  cases hc : cloneF h.size h n with
  | none => simp [hc] at he
  | some q =>
    obtain ⟨h1, c⟩ := q
    simp only [hc] at he
    have hl := (cloneF_spec h.size h n h1 c hc).1
    unfold patchDoH at he
    rcases hop with rfl | rfl
    · simp only [if_true] at he
      rcases doAddH_cases (some c) path h1 root with h2 | ⟨v, par, cell', hv, hp, h2, hcell⟩
      · rw [h2] at he; cases he
      · rw [h2] at he
        cases hv
        simp only [Prod.mk.injEq, and_true] at he
        rw [evalH_of_le hl hcl _ root hroot] at hp
        refine ⟨h1, c, par, cell', rfl, hp, evalH_lt hcl hroot hp, he.symm, ?_⟩
        rw [← he]; exact stepH_write_self_add hcell
    · have e1 : ("replace" = "add") = False := by decide
      have e2 : ("replace" = "remove") = False := by decide
      simp only [e1, e2, if_false, if_true] at he
      rcases doReplaceH_cases (some c) path h1 root with h2 | h2 | ⟨v, m, par, cell', hv, _, hp, h2, hcell⟩
      · rw [h2] at he; cases he
      · rw [h2] at he; cases he
      · rw [h2] at he
        cases hv
        simp only [Prod.mk.injEq, and_true] at he
        rw [evalH_of_le hl hcl _ root hroot] at hp
        refine ⟨h1, c, par, cell', rfl, hp, evalH_lt hcl hroot hp, he.symm, ?_⟩
        rw [← he]; exact stepH_write_self_repl hcell

/-- a write at a cell the root does not reach leaves what it reaches in range -/
theorem reach_old_of_write {h h1 : Heap} (hl : h ≤ h1) (hcl : h.Closed) {par x : Addr} {cell' : Cell}
    (hx : x < h.size) (hnr : ¬ Reach h x par) {b : Addr}
    (hb : Reach (h1.write par cell') x b) : Reach h x b ∧ b < h.size := by
  have key : ∀ y, Reach (h1.write par cell') x y → Reach h x y ∧ y < h.size := by
    intro y hy
    refine Reach.closed_set (fun y => Reach h x y ∧ y < h.size) ?_ hy ⟨.refl _, hx⟩
    intro a c ⟨ha, halt⟩ hg k hk
    have hap : a ≠ par := fun e => hnr (e ▸ ha)
    rw [get?_write_ne h1 cell' hap, get?_eq_of_le hl halt] at hg
    exact ⟨ha.trans (Reach.child hg hk), hcl a c hg k hk⟩
  exact key b hb

/-! ## 7. the list rebuild, statement by statement -/

theorem appendAllH_eq : ∀ (ys : List Addr) (h : Heap) (l : Addr) (acc : List Addr),
    h.get? l = some (.list acc) → appendAllH h l ys = some (h.write l (.list (acc ++ ys)))
  | [], h, l, acc, hg => by
    simp only [appendAllH, List.append_nil, Heap.write_self hg]
  | y :: ys, h, l, acc, hg => by
    simp only [appendAllH, listAppend, hg]
    rw [appendAllH_eq ys (h.write l (.list (acc ++ [y]))) l (acc ++ [y])
      (get?_write_self h _ (get?_lt hg)), Heap.write_write, List.append_assoc]
    rfl

theorem insertListItemStmts_eq {h : Heap} {l : Addr} {xs : List Addr} (hg : h.get? l = some (.list xs))
    (i : Nat) (v : Addr) :
    insertListItemStmts h l i v = some (h.write l (.list (xs.take i ++ v :: xs.drop i))) := by
  simp only [insertListItemStmts, hg, listClear]
  rw [appendAllH_eq _ (h.write l (.list [])) l [] (get?_write_self h _ (get?_lt hg)), Heap.write_write]
  rfl

theorem removeListItemStmts_eq {h : Heap} {l : Addr} {xs : List Addr} (hg : h.get? l = some (.list xs))
    (i : Nat) :
    removeListItemStmts h l i = some (h.write l (.list (xs.take i ++ xs.drop (i + 1)))) := by
  simp only [removeListItemStmts, hg, listClear]
  rw [appendAllH_eq _ (h.write l (.list [])) l [] (get?_write_self h _ (get?_lt hg)), Heap.write_write]
  rfl

/-! ## 8. no operation shrinks the heap -/

theorem doAddH_size (value : Option Addr) (path : Path) (h : Heap) (root : Addr) :
    (doAddH value path h root).1.size = h.size := by
  rcases doAddH_cases value path h root with h1 | ⟨_, _, _, _, _, h1, _⟩ <;> rw [h1]
  exact size_write _ _ _

theorem doRemoveH_size (path : Path) (h : Heap) (root : Addr) :
    (doRemoveH path h root).1.size = h.size := by
  rcases doRemoveH_cases path h root with ⟨_, h1⟩ | h1 | ⟨_, _, _, _, _, h1, _⟩ <;> rw [h1]
  exact size_write _ _ _

theorem doReplaceH_size (value : Option Addr) (path : Path) (h : Heap) (root : Addr) :
    (doReplaceH value path h root).1.size = h.size := by
  rcases doReplaceH_cases value path h root with h1 | h1 | ⟨_, _, _, _, _, _, _, h1, _⟩ <;> rw [h1]
  exact size_write _ _ _

/-- the tail of a move after the detach: add at `path`, roll back at `from` when that fails -/
theorem move_tail_size (n : Addr) (f path : Path) (h1 : Heap) (root : Addr) :
    (match doAddH (some n) path h1 root with
      | (h2, .ok ()) => ((h2, .ok ()) : HRes)
      | (h2, .panic) => (h2, .panic)
      | (h2, .err) =>
        match doAddH (some n) f h2 root with
        | (h3, .panic) => (h3, .panic)
        | (h3, _) => (h3, .err)).1.size = h1.size := by
  have hs2 := doAddH_size (some n) path h1 root
  generalize doAddH (some n) path h1 root = ra at hs2 ⊢
  obtain ⟨h2, o2⟩ := ra
  dsimp only at hs2
  cases o2 with
  | panic => dsimp only; exact hs2
  | ok u => cases u; dsimp only; exact hs2
  | err =>
    dsimp only
    have hs3 := doAddH_size (some n) f h2 root
    generalize doAddH (some n) f h2 root = rb at hs3 ⊢
    obtain ⟨h3, o3⟩ := rb
    dsimp only at hs3
    cases o3 <;> dsimp only <;> omega

theorem moveOrCopyH_size_le (frm : Option Path) (path : Path) (h : Heap) (root : Addr) (move : Bool) :
    h.size ≤ (moveOrCopyH frm path h root move).1.size := by
  unfold moveOrCopyH moveOrCopyWith
  dsimp only
  cases frm with
  | none => exact Nat.le_refl _
  | some f =>
    dsimp only
    cases hn : evalH h root f with
    | none => exact Nat.le_refl _
    | some n =>
      dsimp only
      cases move with
      | false =>
        simp only [Bool.false_eq_true, if_false]
        cases hc : cloneF h.size h n with
        | none => exact Nat.le_refl _
        | some q =>
          obtain ⟨h1, c⟩ := q
          dsimp only
          rw [doAddH_size]
          exact size_le_of_le (cloneF_spec h.size h n h1 c hc).1
      | true =>
        simp only [if_true]
        split
        · exact Nat.le_refl _
        · split
          · exact Nat.le_refl _
          · have hs1 := doRemoveH_size f h root
            generalize doRemoveH f h root = rm at hs1 ⊢
            obtain ⟨h1, o1⟩ := rm
            dsimp only at hs1
            cases o1 with
            | panic => dsimp only; omega
            | err =>
              dsimp only
              exact Nat.le_of_eq (hs1.symm.trans (move_tail_size n f path h1 root).symm)
            | ok u =>
              cases u
              dsimp only
              exact Nat.le_of_eq (hs1.symm.trans (move_tail_size n f path h1 root).symm)

theorem patchDoH_size_le (o : HOpObj) (h : Heap) (root : Addr) : h.size ≤ (patchDoH o h root).1.size := by
  unfold patchDoH
  cases o.path with
  | none => exact Nat.le_refl _
  | some path =>
    dsimp only
    split
    · rw [doAddH_size]; exact Nat.le_refl _
    · split
      · rw [doRemoveH_size]; exact Nat.le_refl _
      · split
        · rw [doReplaceH_size]; exact Nat.le_refl _
        · split
          · exact moveOrCopyH_size_le _ _ _ _ _
          · split
            · exact moveOrCopyH_size_le _ _ _ _ _
            · split
              · rw [doTestH_heap]; exact Nat.le_refl _
              · exact Nat.le_refl _

theorem patchOpDoH_size_le (op : String) (frm path : Option Path) (src : ValueSrc) (h : Heap) (root : Addr) :
    h.size ≤ (patchOpDoH op frm path src h root).1.size := by
  unfold patchOpDoH
  cases srcNode h root src with
  | none => exact patchDoH_size_le _ _ _
  | some n =>
    dsimp only
    cases hc : cloneF h.size h n with
    | none => exact Nat.le_refl _
    | some q =>
      obtain ⟨h1, c⟩ := q
      dsimp only
      exact Nat.le_trans (size_le_of_le (cloneF_spec h.size h n h1 c hc).1) (patchDoH_size_le _ _ _)

end Ytk.Heap
